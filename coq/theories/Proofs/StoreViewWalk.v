(** * The walk of the store view (C14 bridge)

    [vrows] (Model/StoreView.v) lists the rows of the table in the order the harness creates
    them: node, new namespace nodes, attributes, children.  Here:
    - the node rows of [vrows], read as item ids, are a subsequence of the store's own pre-order
      walk [preorder] (which also visits namespace declarations and the value items of
      attributes) -- no hypothesis ([rows_sub_preorder]);
    - under the tree invariant the fuel suffices: [vrows] is the walk specified by [VW]
      ([rows_VW]), every node row occurs once, the rows a node lists ([vlisted], [vextra]) come
      after it, and every node row but the first is listed by an earlier node row. *)
From Coq Require Import List NArith Bool Lia.
From XmlRs Require Import Base.CPred Model.Store Model.StoreView
  Proofs.DomBase Proofs.DomTree Proofs.DomAnc Proofs.DomNav Proofs.DomOrder Proofs.StoreViewBase.
Import ListNotations.
Open Scope N_scope.

Section Walk.
Variable F : sfacts.
Variable merged : bool.
Variable s : store.

Notation vlisted := (vlisted merged s).
Notation vextra := (vextra F s).
Notation vwalk := (vwalk F merged s).
Notation vrows := (vrows F merged s).

(** ** the child view lists children, in order *)
Lemma merge_run_sub l : forall b, Sub (map vid (merge_run s l b)) l.
Proof.
  induction l as [|x t IH]; intros b; cbn [merge_run map]; [apply sub_nil|].
  destruct (get s x) as [it|]; [destruct (textish (ikind it)); [destruct b|]|]; cbn [map vid].
  - apply sub_skip. apply IH.
  - apply sub_take. apply IH.
  - apply sub_take. apply IH.
  - apply sub_take. apply IH.
Qed.

Lemma child_view_sub n it : get s n = Some it -> Sub (map vid (child_view s merged n)) (ichildren it).
Proof.
  intros H. unfold child_view. rewrite H.
  destruct (ikind it); cbn [map]; try apply sub_nil; try (rewrite map_vid_plain; apply Sub_refl).
  destruct merged; [apply merge_run_sub | rewrite map_vid_plain; apply Sub_refl].
Qed.

Lemma child_view_in n it v : get s n = Some it -> In v (child_view s merged n) -> In (vid v) (ichildren it).
Proof.
  intros H Hin. eapply Sub_in; [apply child_view_sub; exact H|]. apply in_map. exact Hin.
Qed.

Lemma vlisted_sub v : Sub (map vid (vlisted v)) (listed_seq s (vid v)).
Proof.
  destruct v as [n|n]; cbn [StoreView.vlisted vid]; [|apply sub_nil].
  unfold listed_seq. destruct (get s n) as [it|] eqn:Hn; [|apply sub_nil].
  destruct (ikind it) eqn:K; cbn [map]; try apply sub_nil.
  - apply child_view_sub. exact Hn.
  - rewrite map_app, map_vid_plain. apply Sub_app; [|apply child_view_sub; exact Hn].
    unfold plain_attrs, attrs_of. rewrite Hn. apply Sub_app_l. apply Sub_refl.
Qed.

Lemma nodes_of_cons_node v l : nodes_of (KNode v :: l) = vid v :: nodes_of l.
Proof. reflexivity. Qed.

Lemma nodes_of_new l e : nodes_of (filter (is_new s e) l) = [].
Proof.
  induction l as [|k t IH]; cbn [filter]; [reflexivity|].
  destruct k as [v|a|e']; cbn [is_new]; [exact IH | |]; (destruct (_ : bool); [|exact IH]); exact IH.
Qed.

Lemma nodes_of_vextra v : nodes_of (vextra v) = [].
Proof.
  destruct v as [n|n]; cbn [StoreView.vextra]; [|reflexivity].
  destruct (has_kind s KEl n); [|reflexivity]. unfold new_ns. apply nodes_of_new.
Qed.

Lemma vextra_no_node v w : ~ In (KNode w) (vextra v).
Proof. intros H. apply nodes_of_in in H. rewrite nodes_of_vextra in H. exact H. Qed.

Lemma vwalk_S f v :
  vwalk (S f) v = match get s (vid v) with
                  | Some _ => KNode v :: vextra v ++ flat_map (vwalk f) (vlisted v)
                  | None => []
                  end.
Proof. reflexivity. Qed.

(** the node rows of the view walk are a subsequence of the store's pre-order walk *)
Lemma walk_sub : forall f v, Sub (nodes_of (vwalk f v)) (pre_fuel f s (vid v)).
Proof.
  induction f as [|f IH]; intros v; [apply sub_nil|].
  rewrite pre_fuel_S, vwalk_S. destruct (get s (vid v)) as [it|]; [|apply sub_nil].
  rewrite nodes_of_cons_node, nodes_of_app, nodes_of_vextra, nodes_of_flat_map. cbn [app].
  apply sub_take. apply (Sub_flat_map vid); [apply vlisted_sub | intros w; apply IH].
Qed.

Theorem rows_sub_preorder : Sub (nodes_of vrows) (preorder s).
Proof. apply walk_sub. Qed.

(** ** the specification of the view walk *)
Inductive VW : vnode -> list vkey -> Prop :=
| VW_node v it ls :
    get s (vid v) = Some it ->
    Forall2 VW (vlisted v) ls ->
    VW v (KNode v :: vextra v ++ concat ls).

Lemma VW_ind' (P : vnode -> list vkey -> Prop) :
  (forall v it ls, get s (vid v) = Some it -> Forall2 VW (vlisted v) ls -> Forall2 P (vlisted v) ls ->
                   P v (KNode v :: vextra v ++ concat ls)) ->
  forall v l, VW v l -> P v l.
Proof.
  intros H. fix IH 3. intros v l W. destruct W as [v it ls Hg Hls].
  apply (H v it ls Hg Hls). clear Hg.
  induction Hls as [|c lc cs lss Hc Hrest IHrest]; constructor; [apply IH; exact Hc | exact IHrest].
Qed.

Lemma VW_head v l : VW v l -> exists t, l = KNode v :: t.
Proof. intros W. destruct W as [v it ls _ _]. eexists. reflexivity. Qed.

(** every occurrence of a node row starts the walk of that node, and is either the first row or
    listed by an earlier node row *)
Definition occ_ok (r : vnode) (L : list vkey) : Prop :=
  forall pre v post, L = pre ++ KNode v :: post ->
    (exists lv rest, VW v lv /\ KNode v :: post = lv ++ rest) /\
    ((pre = [] /\ v = r) \/ exists u, In (KNode u) pre /\ In v (vlisted u)).

Lemma occ_concat cs ls : Forall2 occ_ok cs ls -> forall l0 v post,
  concat ls = l0 ++ KNode v :: post ->
  (exists lv rest, VW v lv /\ KNode v :: post = lv ++ rest) /\
  (In v cs \/ exists u, In (KNode u) l0 /\ In v (vlisted u)).
Proof.
  induction 1 as [|c lc cs lss Hc Hrest IH]; intros l0 v post E.
  - cbn [concat] in E. destruct l0; discriminate.
  - cbn [concat] in E. apply app_eq_app in E. destruct E as [m [[E1 E2]|[E1 E2]]].
    + destruct m as [|y m'].
      * cbn [app] in E2. destruct (IH [] v post (eq_sym E2)) as [A [B|[u [[] _]]]].
        split; [exact A | left; right; exact B].
      * cbn [app] in E2. inversion E2; subst y post. rewrite E1 in Hc.
        destruct (Hc l0 v m' eq_refl) as [[lv [rest [W Er]]] B].
        split.
        -- exists lv, (rest ++ concat lss). split; [exact W|]. rewrite app_assoc, <- Er. reflexivity.
        -- destruct B as [[-> ->]|[u [Hu Hv]]]; [left; left; reflexivity | right; exists u; split; assumption].
    + destruct (IH m v post E2) as [A B]. split; [exact A|].
      destruct B as [B|[u [Hu Hv]]]; [left; right; exact B|].
      right. exists u. split; [|exact Hv]. rewrite E1. apply in_or_app. right. exact Hu.
Qed.

Lemma VW_occ r L : VW r L -> occ_ok r L.
Proof.
  intros W. induction W as [r it ls Hg Hls IH] using VW_ind'.
  intros pre v post E. destruct pre as [|x pre'].
  - cbn [app] in E. inversion E; subst v post. split.
    + exists (KNode r :: vextra r ++ concat ls), []. split; [econstructor; eassumption | rewrite app_nil_r; reflexivity].
    + left. split; reflexivity.
  - cbn [app] in E. inversion E as [[Ex E']]. subst x.
    assert (Hc : exists l0, concat ls = l0 ++ KNode v :: post /\ pre' = vextra r ++ l0).
    { apply app_eq_app in E'. destruct E' as [m [[E1 E2]|[E1 E2]]].
      - destruct m as [|y m'].
        + exists []. cbn [app] in E2. rewrite app_nil_r in E1. split; [symmetry; exact E2 | rewrite app_nil_r; symmetry; exact E1].
        + exfalso. cbn [app] in E2. inversion E2; subst y. apply (vextra_no_node r v). rewrite E1. apply in_elt.
      - exists m. split; [exact E2 | exact E1]. }
    destruct Hc as [l0 [Ec Ep]]. destruct (occ_concat _ _ IH l0 v post Ec) as [A B]. split; [exact A|].
    right. destruct B as [B|[u [Hu Hv]]].
    + exists r. split; [left; reflexivity | exact B].
    + exists u. split; [|exact Hv]. right. rewrite Ep. apply in_or_app. right. exact Hu.
Qed.

(** ** under the tree invariant the fuel suffices *)
Hypothesis T : TreeInv s.

Lemma vlisted_listed v c : In c (vlisted v) -> In (vid c) (listed_seq s (vid v)).
Proof. intros H. eapply Sub_in; [apply vlisted_sub|]. apply in_map. exact H. Qed.

Lemma vlisted_par v c : In c (vlisted v) -> par s (vid c) (vid v).
Proof. intros H. apply (listed_par s T). apply vlisted_listed. exact H. Qed.

Lemma vwalk_VW f : forall v it, get s (vid v) = Some it ->
  (forall d k, ancn s k d (vid v) -> (k <= f)%nat) -> VW v (vwalk (S f) v).
Proof.
  induction f as [|f IH]; intros v it Hn Hb.
  - rewrite vwalk_S, Hn.
    assert (E : vlisted v = []).
    { destruct (vlisted v) as [|c t] eqn:E; [reflexivity|]. exfalso.
      assert (Hp : par s (vid c) (vid v)) by (apply vlisted_par; rewrite E; left; reflexivity).
      specialize (Hb (vid c) 1%nat (ancn1 s _ _ Hp)). lia. }
    rewrite E. cbn [flat_map]. change (@nil vkey) with (concat (@nil (list vkey))).
    econstructor; [exact Hn | rewrite E; constructor].
  - rewrite vwalk_S, Hn. rewrite flat_map_concat_map. econstructor; [exact Hn|].
    assert (Hall : forall c, In c (vlisted v) -> VW c (vwalk (S f) c)).
    { intros c Hc. pose proof (vlisted_par v c Hc) as Hp. pose proof Hp as [cit [Hcg _]].
      eapply IH; [exact Hcg|]. intros d k Hk. pose proof (ancn_join s k d _ _ Hk Hp) as Hj. specialize (Hb d (S k) Hj). lia. }
    clear Hb. induction (vlisted v) as [|c t IHt]; cbn [map]; constructor.
    + apply Hall. left. reflexivity.
    + apply IHt. intros c' Hc'. apply Hall. right. exact Hc'.
Qed.

Theorem rows_VW : VW (Plain (sroot s)) vrows.
Proof.
  destruct (ti_root s T) as [rit [Hr _]]. unfold StoreView.vrows.
  assert (Hpos : (0 < N.to_nat (next s))%nat) by (pose proof (ti_bound s T _ _ Hr); lia).
  destruct (N.to_nat (next s)) as [|f] eqn:E; [lia|].
  eapply vwalk_VW; [exact Hr|]. intros d k Hk. apply (ancn_strict s T) in Hk. lia.
Qed.

Theorem rows_nodup : NoDup (nodes_of vrows).
Proof. eapply Sub_nodup; [apply rows_sub_preorder | apply preorder_nodup; exact T]. Qed.

Lemma rows_head : exists t, vrows = KNode (Plain (sroot s)) :: t.
Proof. apply VW_head. apply rows_VW. Qed.

(** the rows a node lists come after it *)
Lemma VW_listed_in v lv w : VW v lv -> In w (vlisted v) -> exists t, lv = KNode v :: t /\ In (KNode w) t.
Proof.
  intros W Hw. destruct W as [v it ls Hg Hls]. eexists. split; [reflexivity|].
  apply in_or_app. right.
  assert (Hex : exists lw, In lw ls /\ VW w lw).
  { clear Hg. induction Hls as [|c lc cs lss Hc Hrest IH]; [destruct Hw|].
    destruct Hw as [->|Hw]; [exists lc; split; [left; reflexivity | exact Hc]|].
    destruct (IH Hw) as [lw [H1 H2]]. exists lw. split; [right; exact H1 | exact H2]. }
  destruct Hex as [lw [Hin Ww]]. apply in_concat. exists lw. split; [exact Hin|].
  destruct (VW_head _ _ Ww) as [t ->]. left. reflexivity.
Qed.

Theorem row_listed_after pre v post w :
  vrows = pre ++ KNode v :: post -> In w (vlisted v) -> In (KNode w) post.
Proof.
  intros E Hw. destruct (VW_occ _ _ rows_VW pre v post E) as [[lv [rest [W Er]]] _].
  destruct (VW_listed_in v lv w W Hw) as [t [-> Hin]].
  cbn [app] in Er. inversion Er; subst post. apply in_or_app. left. exact Hin.
Qed.

Theorem row_extra_after pre v post k :
  vrows = pre ++ KNode v :: post -> In k (vextra v) -> In k post.
Proof.
  intros E Hk. destruct (VW_occ _ _ rows_VW pre v post E) as [[lv [rest [W Er]]] _].
  destruct W as [v it ls Hg Hls]. cbn [app] in Er. inversion Er; subst post.
  apply in_or_app. left. apply in_or_app. left. exact Hk.
Qed.

Theorem row_live v : In (KNode v) vrows -> exists it, get s (vid v) = Some it.
Proof.
  intros H. apply in_split in H. destruct H as [pre [post E]].
  destruct (VW_occ _ _ rows_VW pre v post E) as [[lv [rest [W _]]] _].
  destruct W as [v it ls Hg _]. exists it. exact Hg.
Qed.

(** every node row but the first is listed by an earlier node row *)
Theorem row_lister pre v post :
  vrows = pre ++ KNode v :: post ->
  (pre = [] /\ v = Plain (sroot s)) \/ exists u, In (KNode u) pre /\ In v (vlisted u).
Proof. intros E. apply (VW_occ _ _ rows_VW pre v post E). Qed.

(** position of a node row *)
Theorem row_ix pre v post :
  vrows = pre ++ KNode v :: post -> ix F merged s (KNode v) = N.of_nat (length pre).
Proof.
  intros E. unfold ix. rewrite E. rewrite idx_app; [lia|].
  apply (node_key_unique vrows v pre post rows_nodup E).
Qed.

End Walk.
