(** * Generic termination of certified grammars (C03, C06: the parsers never run out of fuel).

    For ANY grammar [G] and any certificate [(nullb, rank, R)] accepted by [cert_ok], and any
    input [s], [denote G (fuel_bound R s) e s] is never [Oof].  The measure is lexicographic:
    (remaining input, rank of the non-terminal entered at this position).  No "repetition
    bodies consume" side condition is needed, because nom's loops fail on an iteration that
    makes no progress and [many_loop]/[sep_loop] do the same. *)
From Coq Require Import List NArith Arith Lia Bool.
From XmlRs Require Import Base.CPred Model.Peg.
Import ListNotations.
Local Open Scope nat_scope.

Section T.
Variable G : list pexpr.
Variable nullb : nat -> bool.
Variable rank : nat -> nat.
Variable R : nat.

Notation denote := (denote G).
Notation den1 := (den1 G).
Notation body := (body G).
Notation enull := (enull nullb).
Notation efirst := (efirst nullb).

Lemma denote_eq fuel e s : denote fuel e s = den1 fuel e s.
Proof. destruct fuel; destruct e; reflexivity. Qed.

Definition cert_ok : Prop :=
  (forall n, enull (body n) = true -> nullb n = true) /\
  (forall n m, In m (efirst (body n)) -> rank m < rank n) /\
  (forall n, rank n <= R).

(** ** lengths *)
Lemma prefix_len a s r : prefix a s = Some r -> length r + length a = length s.
Proof.
  revert s; induction a as [|x a IH]; intros [|y s]; cbn [prefix]; intros H; try discriminate.
  - injection H as <-; cbn; lia.
  - injection H as <-; cbn; lia.
  - destruct (N.eqb x y); [|discriminate]. apply IH in H. cbn [length]. lia.
Qed.

Lemma span_len f s : length (fst (span f s)) + length (snd (span f s)) = length s.
Proof.
  induction s as [|c s IH]; cbn [span]; [reflexivity|]. destruct (f c); cbn [fst snd length]; [|reflexivity].
  destruct (span f s); cbn [fst snd length] in *; lia.
Qed.

Lemma span_nil_fst f s : fst (span f s) = [] -> snd (span f s) = s.
Proof.
  destruct s as [|c s]; cbn [span]; [reflexivity|]. destruct (f c); [|reflexivity].
  destruct (span f s); cbn. discriminate.
Qed.

Definition len_ok (p : str -> res (tree * str)) : Prop :=
  forall s t r, p s = Ok (t, r) -> length r <= length s.

Lemma many_len k p : len_ok p -> forall s acc t r,
  many_loop k p s acc = Ok (t, r) -> length r <= length s.
Proof.
  intros Hp; induction k as [|k IH]; cbn [many_loop]; intros s acc t r; [discriminate|].
  destruct (p s) as [[t' r']| |] eqn:E; try discriminate.
  - destruct (Nat.ltb_spec (length r') (length s)); [|intros; discriminate].
    intros H'. apply IH in H'. lia.
  - intros H; injection H as <- <-; lia.
Qed.

Lemma sep_len k sep p : len_ok sep -> len_ok p -> forall s acc t r,
  sep_loop k sep p s acc = Ok (t, r) -> length r <= length s.
Proof.
  intros Hs Hp; induction k as [|k IH]; cbn [sep_loop]; intros s acc t r; [discriminate|].
  destruct (sep s) as [[t1 r1]| |] eqn:E1; try discriminate.
  - destruct (Nat.ltb_spec (length r1) (length s)); [|intros; discriminate].
    destruct (p r1) as [[t2 r2]| |] eqn:E2; try discriminate.
    + intros H'. apply IH in H'. apply Hp in E2. lia.
    + intros H'; injection H' as <- <-; lia.
  - intros H'; injection H' as <- <-; lia.
Qed.

Ltac inv_ok H := injection H; clear H; intros; subst.

Lemma den_len : forall f e, len_ok (denote f e).
Proof.
  unfold len_ok.
  induction f as [|f IHf];
  induction e as [a|c|c|a IHa b IHb|a IHa b IHb|a IHa b IHb|a IHa b IHb|p IHp|p IHp|p IHp
                  |sp IHsp p IHp|sp IHsp p IHp|p IHp|l p IHp|p IHp pat|p IHp pat|q1 q2 p IHp|n];
  intros s t r H; rewrite denote_eq in H; cbn [den1 callnt bind] in H.
  all: try (destruct (prefix a s) eqn:E; [inv_ok H; apply prefix_len in E; lia|discriminate]).
  all: try (pose proof (span_len (eval c) s) as L; destruct (span (eval c) s) as [x y]; cbn [fst snd] in L;
            first [ inv_ok H; lia | destruct x; [discriminate|inv_ok H; cbn [length] in L; lia] ]).
  all: try (destruct (denote _ a s) as [[ta ra]| |] eqn:Ea; cbn [bind fst snd] in H; try discriminate;
            destruct (denote _ b ra) as [[tb rb]| |] eqn:Eb; cbn [bind fst snd] in H; try discriminate;
            inv_ok H; apply IHa in Ea; apply IHb in Eb; lia).
  all: try (destruct (denote _ a s) as [[ta ra]| |] eqn:Ea; try discriminate;
            [inv_ok H; apply IHa in Ea; lia | apply IHb in H; lia]).
  all: try (eapply many_len in H; [exact H| intros s' t' r' Hx; eapply IHp; eauto]).
  all: try (destruct (denote _ p s) as [[tp rp]| |] eqn:Ep; cbn [bind fst snd] in H; try discriminate;
            first [ eapply many_len in H; [apply IHp in Ep; lia | intros s' t' r' Hx; eapply IHp; eauto]
                  | eapply sep_len in H; [apply IHp in Ep; lia | intros s' t' r' Hx; eapply IHsp; eauto | intros s' t' r' Hx; eapply IHp; eauto]
                  | inv_ok H; apply IHp in Ep; lia
                  | idtac ]).
  all: try (inv_ok H; lia).
  all: try discriminate.
  all: try (apply IHp in Ep; destruct (find_sub pat (consumed s rp)) as [i|]; inv_ok H; [|lia];
            rewrite skipn_length; lia).
  all: try (apply IHp in Ep; destruct (ci_reject pat (consumed s rp)); [discriminate|]; inv_ok H; lia).
  all: try (apply IHp in Ep; destruct (verify_eq q1 q2 tp); [|discriminate]; inv_ok H; cbn [snd]; lia).
  eapply IHf; eauto.
Qed.

(** ** success without consumption implies [enull] *)
Lemma many_null k p : forall s acc t r,
  many_loop k p s acc = Ok (t, r) -> True.
Proof. trivial. Qed.

Lemma den_null (C : cert_ok) : forall f e s t r,
  denote f e s = Ok (t, r) -> length r = length s -> enull e = true.
Proof.
  destruct C as (Cn & _ & _).
  induction f as [|f IHf];
  induction e as [a|c|c|a IHa b IHb|a IHa b IHb|a IHa b IHb|a IHa b IHb|p IHp|p IHp|p IHp
                  |sp IHsp p IHp|sp IHsp p IHp|p IHp|l p IHp|p IHp pat|p IHp pat|q1 q2 p IHp|n];
  intros s t r H L; rewrite denote_eq in H; cbn [den1 callnt bind] in H; cbn [Peg.enull]; try reflexivity.
  all: try (destruct a as [|x a]; [reflexivity|]; destruct (prefix (x :: a) s) eqn:E;
            [inv_ok H; apply prefix_len in E; cbn [length] in E; lia|discriminate]).
  all: try (pose proof (span_len (eval c) s) as L'; destruct (span (eval c) s) as [x y]; cbn [fst snd] in L';
            destruct x; [discriminate|inv_ok H; cbn [length] in L'; lia]).
  all: try (destruct (denote _ a s) as [[ta ra]| |] eqn:Ea; cbn [bind fst snd] in H; try discriminate;
            destruct (denote _ b ra) as [[tb rb]| |] eqn:Eb; cbn [bind fst snd] in H; try discriminate;
            inv_ok H; pose proof (den_len _ _ _ _ _ Ea); pose proof (den_len _ _ _ _ _ Eb);
            rewrite (IHa _ _ _ Ea) by lia; rewrite (IHb _ _ _ Eb) by lia; reflexivity).
  all: try (destruct (denote _ a s) as [[ta ra]| |] eqn:Ea; try discriminate;
            [inv_ok H; rewrite (IHa _ _ _ Ea L); reflexivity | rewrite (IHb _ _ _ H L); apply orb_true_r]).
  all: try (destruct (denote _ p s) as [[tp rp]| |] eqn:Ep; cbn [bind fst snd] in H; try discriminate).
  all: try (pose proof (den_len _ _ _ _ _ Ep) as Lp;
            first [ eapply many_len in H; [|intros s' t' r' Hx; eapply den_len; eauto]
                  | eapply sep_len in H; [|intros s' t' r' Hx; eapply den_len; eauto|intros s' t' r' Hx; eapply den_len; eauto] ];
            eapply IHp; [exact Ep|lia]).
  all: try (inv_ok H; eapply IHp; eauto).
  all: try discriminate.
  all: try (destruct (ci_reject pat (consumed s rp)); [discriminate|]; inv_ok H; eapply IHp; eauto).
  all: try (destruct (verify_eq q1 q2 tp); [|discriminate]; inv_ok H; eapply IHp; eauto).
  apply Cn. eapply IHf; eauto.
Qed.

(** ** enough fuel: no [Oof] *)
Definition need (len rk : nat) := len * (S (S R)) + rk + 1.

Definition no_oof_on (p : str -> res (tree * str)) (s : str) : Prop :=
  forall s', length s' <= length s -> p s' <> Oof.

Lemma many_no_oof (p : str -> res (tree * str)) (s : str) :
  no_oof_on p s -> len_ok p ->
  forall k s' acc, length s' < k -> length s' <= length s -> many_loop k p s' acc <> Oof.
Proof.
  intros Hp Hl; induction k as [|k IH]; intros s' acc Hk Hs; [lia|]. cbn [many_loop].
  destruct (p s') as [[t r]| |] eqn:E; try discriminate.
  - destruct (Nat.ltb_spec (length r) (length s')); [|discriminate]. apply IH; lia.
  - exfalso; eapply Hp; eauto.
Qed.

Lemma sep_no_oof (sep p : str -> res (tree * str)) (s : str) :
  no_oof_on sep s -> no_oof_on p s -> len_ok sep -> len_ok p ->
  forall k s' acc, length s' < k -> length s' <= length s -> sep_loop k sep p s' acc <> Oof.
Proof.
  intros Hs Hp Ls Lp; induction k as [|k IH]; intros s' acc Hk Hle; [lia|]. cbn [sep_loop].
  destruct (sep s') as [[t1 r1]| |] eqn:E1; try discriminate.
  - destruct (Nat.ltb_spec (length r1) (length s')); [|discriminate].
    destruct (p r1) as [[t2 r2]| |] eqn:E2; try discriminate.
    + apply Lp in E2. apply IH; lia.
    + exfalso; eapply (Hp r1); [lia|eauto].
  - exfalso; eapply Hs; eauto.
Qed.

Theorem no_oof (C : cert_ok) : forall len rk f e s,
  length s <= len ->
  (length s = len -> forall m, In m (efirst e) -> rank m < rk) ->
  need len rk <= S f ->
  denote (S f) e s <> Oof.
Proof.
  induction len as [len IHlen] using lt_wf_ind.
  induction rk as [rk IHrk] using lt_wf_ind.
  intros f;
  induction e as [a|c|c|a IHa b IHb|a IHa b IHb|a IHa b IHb|a IHa b IHb|p IHp|p IHp|p IHp
                  |sp IHsp p IHp|sp IHsp p IHp|p IHp|l p IHp|p IHp pat|p IHp pat|q1 q2 p IHp|n];
  intros s Hs Hfirst Hf; rewrite denote_eq; cbn [den1 callnt].
  - destruct (prefix a s); discriminate.
  - destruct (span (eval c) s); discriminate.
  - destruct (span (eval c) s) as [[|? ?] ?]; discriminate.
  - (* Seq *)
    destruct (denote (S f) a s) as [[ta ra]| |] eqn:Ea; cbn [bind fst snd]; try discriminate.
    + destruct (denote (S f) b ra) as [[tb rb]| |] eqn:Eb; cbn [bind]; try discriminate.
      exfalso. revert Eb. pose proof (den_len _ _ _ _ _ Ea) as La. apply IHb; [lia| |exact Hf].
      intros L m Hm. apply Hfirst; [lia|]. cbn [Peg.efirst]. apply in_or_app. right.
      rewrite (den_null C _ _ _ _ _ Ea) by lia. exact Hm.
    + exfalso. revert Ea. apply IHa; auto. intros L m Hm. apply Hfirst; auto. cbn [Peg.efirst]. apply in_or_app; auto.
  - (* SeqL *)
    destruct (denote (S f) a s) as [[ta ra]| |] eqn:Ea; cbn [bind fst snd]; try discriminate.
    + destruct (denote (S f) b ra) as [[tb rb]| |] eqn:Eb; cbn [bind]; try discriminate.
      exfalso. revert Eb. pose proof (den_len _ _ _ _ _ Ea) as La. apply IHb; [lia| |exact Hf].
      intros L m Hm. apply Hfirst; [lia|]. cbn [Peg.efirst]. apply in_or_app. right.
      rewrite (den_null C _ _ _ _ _ Ea) by lia. exact Hm.
    + exfalso. revert Ea. apply IHa; auto. intros L m Hm. apply Hfirst; auto. cbn [Peg.efirst]. apply in_or_app; auto.
  - (* SeqR *)
    destruct (denote (S f) a s) as [[ta ra]| |] eqn:Ea; cbn [bind fst snd]; try discriminate.
    + destruct (denote (S f) b ra) as [[tb rb]| |] eqn:Eb; cbn [bind]; try discriminate.
      exfalso. revert Eb. pose proof (den_len _ _ _ _ _ Ea) as La. apply IHb; [lia| |exact Hf].
      intros L m Hm. apply Hfirst; [lia|]. cbn [Peg.efirst]. apply in_or_app. right.
      rewrite (den_null C _ _ _ _ _ Ea) by lia. exact Hm.
    + exfalso. revert Ea. apply IHa; auto. intros L m Hm. apply Hfirst; auto. cbn [Peg.efirst]. apply in_or_app; auto.
  - (* Alt *)
    destruct (denote (S f) a s) as [[ta ra]| |] eqn:Ea; try discriminate.
    + apply IHb; auto. intros L m Hm. apply Hfirst; auto. cbn [Peg.efirst]. apply in_or_app; auto.
    + exfalso. revert Ea. apply IHa; auto. intros L m Hm. apply Hfirst; auto. cbn [Peg.efirst]. apply in_or_app; auto.
  - (* Many0 *)
    apply (many_no_oof _ s); try lia.
    + intros s' Hs'. apply IHp; [lia| |exact Hf]. intros L m Hm. apply Hfirst; [lia|exact Hm].
    + apply den_len.
  - (* Many1 *)
    destruct (denote (S f) p s) as [[tp rp]| |] eqn:Ep; cbn [bind fst snd]; try discriminate.
    + pose proof (den_len _ _ _ _ _ Ep) as Lp. apply (many_no_oof _ s); try lia.
      * intros s' Hs'. apply IHp; [lia| |exact Hf]. intros L m Hm. apply Hfirst; [lia|exact Hm].
      * apply den_len.
    + exfalso. revert Ep. apply IHp; auto.
  - (* Opt *)
    destruct (denote (S f) p s) as [[tp rp]| |] eqn:Ep; try discriminate.
    exfalso. revert Ep. apply IHp; auto.
  - (* SepBy0 *)
    destruct (denote (S f) p s) as [[tp rp]| |] eqn:Ep; try discriminate.
    + pose proof (den_len _ _ _ _ _ Ep) as Lp. apply (sep_no_oof _ _ rp); try lia.
      * intros s' Hs'. apply IHsp; [lia| |exact Hf]. intros L m Hm. apply Hfirst; [lia|].
        cbn [Peg.efirst]. apply in_or_app. right.
        assert (length rp = length s) by lia.
        rewrite (den_null C _ _ _ _ _ Ep) by lia. exact Hm.
      * intros s' Hs'. apply IHp; [lia| |exact Hf]. intros L m Hm. apply Hfirst; [lia|].
        cbn [Peg.efirst]. apply in_or_app. left. exact Hm.
      * apply den_len.
      * apply den_len.
    + exfalso. revert Ep. apply IHp; auto. intros L m Hm. apply Hfirst; auto.
      cbn [Peg.efirst]. apply in_or_app. left. exact Hm.
  - (* SepBy1 *)
    destruct (denote (S f) p s) as [[tp rp]| |] eqn:Ep; cbn [bind fst snd]; try discriminate.
    + pose proof (den_len _ _ _ _ _ Ep) as Lp. apply (sep_no_oof _ _ rp); try lia.
      * intros s' Hs'. apply IHsp; [lia| |exact Hf]. intros L m Hm. apply Hfirst; [lia|].
        cbn [Peg.efirst]. apply in_or_app. right.
        assert (length rp = length s) by lia.
        rewrite (den_null C _ _ _ _ _ Ep) by lia. exact Hm.
      * intros s' Hs'. apply IHp; [lia| |exact Hf]. intros L m Hm. apply Hfirst; [lia|].
        cbn [Peg.efirst]. apply in_or_app. left. exact Hm.
      * apply den_len.
      * apply den_len.
    + exfalso. revert Ep. apply IHp; auto. intros L m Hm. apply Hfirst; auto.
      cbn [Peg.efirst]. apply in_or_app. left. exact Hm.
  - (* Recognize *)
    destruct (denote (S f) p s) as [[tp rp]| |] eqn:Ep; cbn [bind]; try discriminate.
    exfalso. revert Ep. apply IHp; auto.
  - (* Map *)
    destruct (denote (S f) p s) as [[tp rp]| |] eqn:Ep; cbn [bind]; try discriminate.
    exfalso. revert Ep. apply IHp; auto.
  - (* TakeUntil *)
    destruct (denote (S f) p s) as [[tp rp]| |] eqn:Ep; cbn [bind fst snd].
    + destruct (find_sub pat (consumed s rp)); discriminate.
    + discriminate.
    + exfalso. revert Ep. apply IHp; auto.
  - (* TakeExcept *)
    destruct (denote (S f) p s) as [[tp rp]| |] eqn:Ep; cbn [bind fst snd].
    + destruct (ci_reject pat (consumed s rp)); discriminate.
    + discriminate.
    + exfalso. revert Ep. apply IHp; auto.
  - (* VerifyEq *)
    destruct (denote (S f) p s) as [[tp rp]| |] eqn:Ep; cbn [bind fst snd].
    + destruct (verify_eq q1 q2 tp); discriminate.
    + discriminate.
    + exfalso. revert Ep. apply IHp; auto.
  - (* NT n *)
    destruct f as [|f].
    + exfalso. unfold need in Hf. assert (rk = 0) by lia. subst.
      destruct (Nat.eq_dec (length s) len) as [L|L].
      * specialize (Hfirst L n (or_introl eq_refl)). lia.
      * lia.
    + destruct (Nat.eq_dec (length s) len) as [L|L].
      * pose proof (Hfirst L n (or_introl eq_refl)) as Hr.
        apply (IHrk (rank n) Hr f (body n) s Hs).
        -- intros _ m Hm. destruct C as (_ & Cr & _). apply Cr; exact Hm.
        -- unfold need in *. lia.
      * assert (Hlt : length s < len) by lia.
        apply (IHlen (length s) Hlt (S (rank n)) f (body n) s (le_n _)).
        -- intros _ m Hm. destruct C as (_ & Cr & _). apply Nat.lt_lt_succ_r, Cr; exact Hm.
        -- destruct C as (_ & _ & CR). pose proof (CR n). unfold need in *.
           assert (S (length s) * S (S R) <= len * S (S R)) by (apply Nat.mul_le_mono_r; lia). lia.
Qed.

(** entry point: a non-terminal on any input with the standard fuel *)
Corollary run_no_oof (C : cert_ok) n s : run G R n s <> Oof.
Proof.
  unfold run, fuel_bound.
  replace (S (length s) * S (S R) + S R + 1) with (S (S (length s) * S (S R) + S R)) by lia.
  apply (no_oof C (S (length s)) (S R)).
  - lia.
  - intros L. lia.
  - unfold need. lia.
Qed.

End T.

(** ** the decidable certificate check is sound *)
Lemma cert_okb_sound G nulls ranks R :
  cert_okb G nulls ranks R = true ->
  cert_ok G (table_fn false nulls) (table_fn 0 ranks) R.
Proof.
  unfold cert_okb. rewrite andb_true_iff, forallb_forall. intros [Hlen H].
  apply Nat.leb_le in Hlen.
  assert (Hout : forall n, length G <= n -> body G n = dummy).
  { intros n Hn. unfold body. apply nth_overflow. exact Hn. }
  assert (Hin : forall n, n < length G -> In n (seq 0 (length G))) by (intros; apply in_seq; lia).
  split; [|split].
  - intros n Hn. destruct (Nat.lt_ge_cases n (length G)) as [L|L].
    + specialize (H n (Hin n L)). rewrite !andb_true_iff in H. destruct H as [[H1 _] _].
      unfold body in Hn. rewrite Hn in H1. exact H1.
    + rewrite (Hout n L) in Hn. discriminate.
  - intros n m Hm. destruct (Nat.lt_ge_cases n (length G)) as [L|L].
    + specialize (H n (Hin n L)). rewrite !andb_true_iff in H. destruct H as [[_ H2] _].
      rewrite forallb_forall in H2. apply Nat.ltb_lt. apply H2. exact Hm.
    + rewrite (Hout n L) in Hm. destruct Hm.
  - intros n. destruct (Nat.lt_ge_cases n (length G)) as [L|L].
    + specialize (H n (Hin n L)). rewrite !andb_true_iff in H. destruct H as [_ H3].
      apply Nat.leb_le. exact H3.
    + unfold table_fn. rewrite nth_overflow by lia. lia.
Qed.

(** the statement used by C03 / C06: a grammar whose certificate checks never runs out of
    the standard fuel, on any input, from any non-terminal *)
Theorem certified_grammar_terminates G nulls ranks R :
  cert_okb G nulls ranks R = true -> forall n s, run G R n s <> Oof.
Proof. intros H n s. eapply run_no_oof. apply cert_okb_sound. exact H. Qed.
