(** * C14 for histories that contain calls on the read-only maps of a document type (Model/DomReadOnly.v):
    such a call changes nothing, so the order invariant lifts from the histories of Model/DomNormalize.v *)
From Coq Require Import List NArith Bool.
From XmlRs Require Import Base.CPred Model.Store Model.StoreCheck Model.DomOps Model.DomNormalize Model.DomReadOnly
  Proofs.DomTree Proofs.DomOpsInv Proofs.DomCheck Proofs.DomOrder Proofs.DomOrderInv Proofs.DomC14
  Proofs.DomNormalizeHist Proofs.DomNormalizeC14 Proofs.DomReadOnly.
Import ListNotations.
Open Scope N_scope.

Theorem good_reachable_with_readonly : forall init xs, WGood init -> WGood (run_x init xs).
Proof. intros init xs. apply (run_x_invariant WGood). intros nops w. apply good_reachable_with_normalize. Qed.

Theorem order_inv_reachable_with_readonly :
  forall init xs k s, WGood init -> doc_at (run_x init xs) k = Some s -> OrderInv s.
Proof.
  intros init xs k s Hi D. rewrite run_x_erase in D.
  exact (order_inv_reachable_with_normalize init (nops_of xs) k s Hi D).
Qed.

Theorem keys_after_any_history_with_readonly :
  forall init xs k s, WGood init -> doc_at (run_x init xs) k = Some s ->
    Walk s (sroot s) (preorder s)
    /\ (forall x, In x (preorder s) <-> attached s x)
    /\ (forall x, attached s x -> Store.key s x <> 0)
    /\ (forall l1 x l2 y l3, preorder s = l1 ++ x :: l2 ++ y :: l3 -> Store.key s x < Store.key s y)
    /\ (forall x, ~ attached s x -> Store.key s x = 0).
Proof.
  intros init xs k s Hi D. rewrite run_x_erase in D.
  exact (keys_after_any_history_with_normalize init (nops_of xs) k s Hi D).
Qed.

(** a refused call on a read-only map does not move a key *)
Theorem readonly_keys_unchanged : forall w o k s x,
  doc_at w k = Some s -> exists s', doc_at (fst (step_ro w o)) k = Some s' /\ Store.key s' x = Store.key s x.
Proof. intros w o k s x D. exists s. rewrite step_ro_world. split; [exact D | reflexivity]. Qed.

(** the example world and history of Proofs/DomReadOnly.v: after the history (the document type was removed) the
    keys of document 0 are those of the walk document, r, text; the removed document type has key 0 *)
Example ro_good : WGood ro_world.
Proof.
  constructor; [|constructor; [|constructor]];
    (split; [apply tree_inv_b_sound; vm_compute; reflexivity | apply store_of_list_order_ok]).
Qed.

Example ro_example_keys :
  forall s, doc_at (run_x ro_world ro_ops) 0 = Some s ->
    OrderInv s /\ map (Store.key s) [1; 2; 3; 4] = [1; 0; 2; 3].
Proof.
  intros s D. split; [exact (order_inv_reachable_with_readonly ro_world ro_ops 0 s ro_good D)|].
  vm_compute in D. injection D as <-. vm_compute. reflexivity.
Qed.
