(** * [xeval a] and [xeval (norm a)] have the same successful outcomes -- with the namespace axis and
    nodes of order key 0 (C08).

    The instance of Proofs/XPathSpelling.v [xeval_norm_gen] for ALL rows of a well-formed table and
    every axis; the statement about paths comes from Proofs/XPathReachOrd.v.  Hypotheses on the
    table: [DocOrd doc] = [DocWf] + non-zero order keys identify rows + every
    descendant-or-self list is key-sorted; decidable: [doc_ord_b]. *)
From Coq Require Import List NArith ZArith Bool Lia Sorting.Sorted Sorting.Permutation.
From XmlRs Require Import Base.CPred Base.NList Base.Float64.
From XmlRs Require Import Spec.XPathSyntax.
From XmlRs Require Import Spec.XPathCore Model.XPathFuncs.
From XmlRs Require Import Model.XPathAst Model.XDoc Model.XDocCheck Model.XPathScalar Model.XPathEval Model.XPathAstAbs.
From XmlRs Require Import Proofs.XPathEvalEqs Proofs.XPathNav Proofs.XPathSort Proofs.XPathCtx Proofs.XPathAstPred
  Proofs.XPathInv Proofs.XPathTotal Proofs.XPathCanon Proofs.XPathDocCheck Proofs.XPathAbsEval Proofs.XPathAbsInv
  Proofs.XPathReach Proofs.XPathReachOrd Proofs.XPathSpelling.
From XmlRs Require Proofs.XPathSyntaxLemmas.
Import ListNotations.
Open Scope N_scope.

(** ** the hypotheses on the table, decidable *)
Record DocOrd (doc : xdoc) : Prop := {
  ord_wf : DocWf doc;
  ord_keys : keys_inj doc;
  ord_dos : dos_sorted doc }.

Definition keys_inj_b (doc : xdoc) : bool :=
  forallb (fun i => forallb (fun j => implb ((key doc i =? key doc j) && negb (key doc i =? 0)) (i =? j)) (indices doc)) (indices doc).

Fixpoint nlist_eqb (a b : list N) : bool :=
  match a, b with
  | [], [] => true
  | x :: a', y :: b' => (x =? y) && nlist_eqb a' b'
  | _, _ => false
  end.

Lemma nlist_eqb_eq a : forall b, nlist_eqb a b = true -> a = b.
Proof.
  induction a as [|x a IH]; intros [|y b] H; cbn [nlist_eqb] in H; try discriminate; [reflexivity|].
  apply andb_prop in H. destruct H as [H1 H2]. apply N.eqb_eq in H1. subst. f_equal. apply IH, H2.
Qed.

Definition dos_sorted_b (doc : xdoc) : bool :=
  forallb (fun x => nlist_eqb (sort_by_key doc (dosl doc x)) (dosl doc x)) (indices doc).

Definition doc_ord_b (doc : xdoc) : bool := doc_wf_b doc && keys_inj_b doc && dos_sorted_b doc.

Theorem doc_ord_b_sound doc : doc_ord_b doc = true -> DocOrd doc.
Proof.
  unfold doc_ord_b. intros H. apply andb_prop in H. destruct H as [H12 H3]. apply andb_prop in H12. destruct H12 as [H1 H2].
  constructor.
  - apply doc_wf_b_sound, H1.
  - intros i j Vi Vj E Hz. unfold keys_inj_b in H2. rewrite forallb_forall in H2.
    pose proof (H2 i (valid_in_indices doc i Vi)) as Hi. rewrite forallb_forall in Hi. pose proof (Hi j (valid_in_indices doc j Vj)) as Hij.
    rewrite E, N.eqb_refl in Hij. rewrite <- E in Hij. apply N.eqb_neq in Hz. rewrite Hz in Hij. cbn [negb andb implb] in Hij.
    apply N.eqb_eq, Hij.
  - intros x Vx. unfold dos_sorted_b in H3. rewrite forallb_forall in H3. apply nlist_eqb_eq, H3, valid_in_indices, Vx.
Qed.

Section NormOrd.
Variable doc : xdoc.
Hypothesis Hord : DocOrd doc.
Variable ns : list (option str * str).
Let Hwf := ord_wf doc Hord.
Let HK := ord_keys doc Hord.
Let HS := ord_dos doc Hord.
Notation V := (valid doc).
Notation okq := (okq ns).
Notation nstep := XPathSyntaxLemmas.nstep.
Notation F_steps := XPathSyntaxLemmas.F_steps.
Notation SS := (SS doc).
Notation snons := (snons anyax).

Lemma V_axis' a i : any_axis a = true -> V i -> is_ok (axis_nodes doc a i) (Forall V).
Proof. apply (valid_axis doc Hwf). Qed.

Lemma step_axes_any (s : xstep) : step_axes anyax (xaxes anyax) s = true.
Proof.
  destruct s as [a t preds| |]; cbn [step_axes]; try reflexivity. apply forallb_forall. intros q _. apply xaxes_any.
Qed.

Lemma xstep_valid (y : xstep) x : V x -> okgl V (xstepf doc y x).
Proof.
  intros Vx. apply (okgl_xstep doc V any_axis anyax V_axis' (valid_parent doc Hwf) (fun _ _ => eq_refl) y (step_axes_any y) x Vx).
Qed.

Lemma itemsV_xrest (l : list (sep * xstep)) : itemsV doc (xrest doc l).
Proof.
  unfold itemsV, xrest. apply Forall_map. apply Forall_forall. intros [s y] _. cbn [snd]. split; [intros x; apply xstep_restores|].
  intros x Vx. apply xstep_valid, Vx.
Qed.

Lemma itemsV_SS (l : list xstep) : itemsV doc (map SS l).
Proof.
  unfold itemsV. apply Forall_map. apply Forall_forall. intros y _. cbn [XPathSpelling.SS snd]. split; [intros x; apply xstep_restores|].
  intros x Vx. apply xstep_valid, Vx.
Qed.

Lemma NIv_syn c (l : list (sep * xstep)) :
  Forall (fun i => step_eqV doc c (xstepf doc (snd i)) (xstepf doc (nstep (snd i)))) l ->
  NIv doc c (xrest doc l) (map SS (flat_map F_steps l)).
Proof.
  induction 1 as [|[s y] t Hy _ IH]; [constructor|]. cbn [snd] in Hy.
  change (xrest doc ((s, y) :: t)) with ((s, xstepf doc y) :: xrest doc t).
  cbn [flat_map XPathSyntaxLemmas.F_steps]. rewrite map_app. destruct s; cbn [XPathSyntaxLemmas.lead app map].
  - apply NIv_s; assumption.
  - apply (NIv_d doc c (xstepf doc y) (xstepf doc (nstep y))); assumption.
Qed.

Lemma path_norm_ord : path_norm_statement doc ns V anyax.
Proof.
  intros s0 first rest B c Hc VB Hn HB x r Ex v c'.
  pose proof (itemsV_xrest ((s0, first) :: rest)) as W. pose proof (itemsV_SS (x :: r)) as W'.
  change (xrest doc ((s0, first) :: rest)) with ((s0, xstepf doc first) :: xrest doc rest) in W.
  change (map SS (x :: r)) with ((SSlash, xstepf doc x) :: map SS r) in W'.
  apply (path_equivV doc Hwf HK HS c s0 (xstepf doc first) (xrest doc rest) SSlash (xstepf doc x) (map SS r) B v c' W W'); [|exact VB].
  change ((s0, xstepf doc first) :: xrest doc rest) with (xrest doc ((s0, first) :: rest)).
  change ((SSlash, xstepf doc x) :: map SS r) with (map SS (x :: r)). rewrite <- Ex. apply NIv_syn.
  apply Forall_forall. intros i Hi z Vz l. apply (HB i Hi z Vz l).
Qed.

Theorem xeval_norm_ord : forall a n, V n -> okq (xeval doc a n) (xeval doc (norm a) n).
Proof.
  intros a. apply (xeval_norm_gen doc ns V any_axis anyax V_axis' (valid_parent doc Hwf) (root_of_valid doc Hwf)
                     (fun _ _ => eq_refl) eq_refl path_norm_ord a (xaxes_any a)).
Qed.

End NormOrd.
