"""Shared by C03 and C04: document streams for the `parse` domain, the model-vs-implementation
correspondence, and the parsers of the observation line (format: top of
harness/src/domains/parse.rs)."""
import os, re, sys, time
from . import lib
sys.path.insert(0, os.path.join(lib.VERIF, 'tools', 'gen'))
import peggen, docgen

# regression corpus: every defect witness of this area and the shapes the proofs single out
CORPUS = [
    '<a/>', '<a></a>', '<a> </a>', '<p:a xmlns:p="u" p:x="1"/>',
    # D11 (fixed 51d7d56): ATTLIST declarations were not printed
    '<!DOCTYPE a [<!ATTLIST a x CDATA "d">]><a/>',
    '<!DOCTYPE a [<!ATTLIST a x CDATA #REQUIRED y (u|v) "u" z NOTATION (n|m) #IMPLIED xmlns:q CDATA #FIXED "&amp;&#60;" xmlns ID #IMPLIED><!ATTLIST p:b>]><a/>',
    "<!DOCTYPE a [<!ATTLIST a x CDATA 'say \"hi\"' y CDATA \"it's\">]><a/>",
    # D07 (fixed 45f75dc): parameter entities
    '<!DOCTYPE a [<!ENTITY % p "x">]><a/>', '<!DOCTYPE a [%p;]><a/>',
    '<!DOCTYPE a [<!ENTITY e "%p;">]><a x="&e;">&e;</a>',
    # D09 (fixed eee9b52): entity recursion
    '<!DOCTYPE a [<!ENTITY e "&e;">]><a x="&e;"/>',
    '<!DOCTYPE a [<!ENTITY e "&f;"><!ENTITY f "x&e;">]><a>&e;</a>',
    # entity visibility: defaults of ATTLIST are resolved before the doctype is attached
    '<!DOCTYPE a [<!ENTITY e "v"><!ATTLIST a x CDATA "&e;">]><a/>',
    '<!DOCTYPE a [<!ENTITY lt "v"><!ATTLIST a x CDATA "&lt;">]><a y="&lt;"/>',
    '<!DOCTYPE a [<!ENTITY e "1"><!ENTITY e "2">]><a>&e;</a>',
    # character references
    '<a x="&#0;&#1;&#x10FFFF;">&#65;&#x41;&#x0041;&#00065;</a>', '<a>&#xD800;</a>', '<a>&#1114112;</a>',
    '<a>&#99999999999;</a>', '<a x="&#xdfff;"/>',
    # PI / comment / CDATA edge shapes
    '<?x y?><a/>', '<a><?p?><?p ?><?p  ??><? x?><??></a>', '<a><!----><!-- - --><!--a-b--></a>',
    '<a><![CDATA[]]><![CDATA[]]]]><![CDATA[<&>]]></a>', '<a>]]</a>', '<a>]]></a>', '<a>></a>',
    # quotes
    '<a x="\'" y=\'"\' z="&quot;\'" w=\'&apos;"\'/>',
    # declarations
    '<?xml version="1.0"?><a/>', "<?xml version='1.1' encoding='UTF-8' standalone='yes'?><a/>",
    '<?xml version = "1.0" standalone = "no" ?>\n<a/>\n', ' <a/>', '<?xml version="1.0"?><?xml version="1.0"?><a/>',
    '<!DOCTYPE a SYSTEM "s"><a/>', '<!DOCTYPE p:a PUBLIC "p\'" \'s"\' []><p:a/>', "<!DOCTYPE a PUBLIC 'p' 's' [ ]><a/>",
    '<!DOCTYPE a [<!ENTITY u SYSTEM "s" NDATA n><!ENTITY v PUBLIC "p" "s"><!NOTATION n SYSTEM "s"><!NOTATION n PUBLIC "p"><!NOTATION m PUBLIC "p" "s">]><a>&v;</a>',
    '<!DOCTYPE a [<!ENTITY u SYSTEM "s" NDATA >]><a/>',
    '<!DOCTYPE a [<!ELEMENT a (b|(c,d)*)+><!ELEMENT b EMPTY><!ELEMENT c ANY><!ELEMENT d (#PCDATA|a)*><?p d?><!--c-->]><a/>',
    # not well-formed but accepted today (C02 findings of other areas) -- still must round-trip
    '<a></b>', '<a x="1" x="2"/>', '<a>&amp</a>', '<a/>x', '<a/><b/>',
    # garbage
    '', ' ', '<', '<a', '<a>', '&', '<a x=1/>', '<a><b></a></b>', '<!DOCTYPE a [<!ENTITY e "<b>">]><a>&e;</a>',
]


def enc(cps):
    return ','.join(str(c) for c in cps) if cps else '-'

def cps(s):
    return [ord(c) for c in s]

def text_of(cs):
    return ''.join(chr(c) for c in cs)

def scalar_ok(cs):
    return all(peggen.valid_scalar(c) for c in cs)

# ---------------------------------------------------------------------- streams
def stream_structured(rng, n):
    g = docgen.DocGen(rng)
    for _ in range(n):
        t, feats = g.document()
        yield cps(t), 'structured', feats

def stream_grammar(rng, n, mutate_every=3):
    info = peggen.load_info('GrammarXmlGen')
    gen = peggen.Gen(info, rng, max_depth=8)
    k = 0
    while k < n:
        try:
            s = gen.gen('document')
        except RecursionError:
            continue
        if len(s) > 600:
            continue
        kind = 'sentence'
        if k % mutate_every == 1:
            s = peggen.mutate(s, rng, rng.choice([1, 1, 2, 3])); kind = 'sentence-mutated'
        s = [c for c in s if peggen.valid_scalar(c)]
        k += 1
        yield s, kind, []

def stream_mutations(rng, n):
    """token- and character-level mutations of structured documents"""
    g = docgen.DocGen(rng)
    toks = ['<', '>', '</', '/>', '<!--', '-->', '<?', '?>', '<![CDATA[', ']]>', '&', ';', '&#', '&#x', '"', "'", '=',
            '<!DOCTYPE', '<!ENTITY', '<!ATTLIST', '<!ELEMENT', '<!NOTATION', '[', ']', '%', '(', ')', '|', ',', '*', '#PCDATA',
            'NDATA', 'SYSTEM', 'PUBLIC', '#FIXED', 'xml', 'xmlns', ':', ' ', '--', ']]', '?', '\x00', '￾']
    for _ in range(n):
        t, feats = g.document()
        s = cps(t)
        x = rng.random()
        if x < 0.5:
            s = peggen.mutate(s, rng, rng.choice([1, 1, 2, 4]))
        else:
            for _ in range(rng.choice([1, 1, 2])):
                tok = cps(rng.choice(toks))
                i = rng.randint(0, len(s))
                if rng.random() < 0.5:
                    s[i:i] = tok
                else:
                    s[i:i + len(tok)] = tok
        yield [c for c in s if peggen.valid_scalar(c)], 'mutated', feats

def stream_garbage(rng, n):
    for _ in range(n):
        yield [c for c in peggen.garbage(rng, rng.choice([1, 2, 5, 12, 40]))if peggen.valid_scalar(c)], 'garbage', []

# ---------------------------------------------------------------------- running
def run_lines(binary, cases, flags='d', timeout=900, shards=None):
    lines = ['%s %s' % (flags, enc(c)) for c in cases]
    rc, out = lib.run_bin(binary, ['parse'], lines, timeout=timeout, shards=shards or min(8, lib.NPROC))
    return out

def correspond(run, cases, flags='d', tag='parse'):
    """cases: [(cps, kind, feats)] -> [(cps, kind, feats, impl_line, model_line)]; mismatches are tie breaks"""
    docs = [c[0] for c in cases]
    impl = run_lines(lib.rust_bin(), docs, flags)
    model = run_lines(lib.model_bin('pipeline'), docs, flags, shards=lib.NPROC)
    out = []
    bad = 0
    if len(impl) != len(docs) or len(model) != len(docs):
        run.tie_breaks.append('%s correspondence: %d cases, %d implementation lines, %d model lines' % (tag, len(docs), len(impl), len(model)))
    for i, (c, kind, feats) in enumerate(cases):
        a = impl[i] if i < len(impl) else 'missing'
        b = model[i] if i < len(model) else 'missing'
        out.append((c, kind, feats, a, b))
        if a != b and a != 'panic' and a != 'crash':
            bad += 1
            if bad <= 5:
                run.tie_breaks.append('%s correspondence on %r: implementation %s | model %s' % (tag, text_of(c)[:200], first_diff(a, b), ''))
                run.write_replay('tie%d' % bad, {'property': run.prop, 'kind': 'model-vs-implementation', 'document': text_of(c), 'code_points': c,
                                                 'implementation': a, 'model': b})
    run.extra.setdefault('correspondence_mismatches', 0)
    run.extra['correspondence_mismatches'] += bad
    return out

def first_diff(a, b):
    n = min(len(a), len(b))
    i = 0
    while i < n and a[i] == b[i]:
        i += 1
    return 'differs at column %d: ...%s  vs  ...%s' % (i, a[max(0, i - 30):i + 40], b[max(0, i - 30):i + 40])

# ---------------------------------------------------------------------- reading a line
RE_OK = re.compile(r'\|re=ok;rest=(\d+);eq=([01]);fix=([01])')
RE_REJ = re.compile(r'\|re=(rej:[^|]*|panic)')
PP = re.compile(r'\|pp=(ok;rest=(\d+);eq=([01])|rej:[^|]*|panic|-)')

def outcome(line):
    """-> 'panic' | 'crash' | 'parse-error' | 'info-error:<class>' | 'built'"""
    if line in ('panic', 'crash', 'missing', 'badinput'):
        return line
    if line.startswith('rest=- err:parse'):
        return 'parse-error'
    m = re.match(r'rest=(\d+) err:([A-Za-z]+)', line)
    if m:
        return 'info-error:' + m.group(2)
    if line.startswith('rest=') and ' D(' in line:
        return 'built'
    return 'unreadable'

def rest_len(line):
    m = re.match(r'rest=(\d+) ', line)
    return int(m.group(1)) if m else None

def roundtrip(line):
    """C04 oracle on a 'built' line -> None when fine, else a description"""
    m = RE_OK.search(line)
    if m:
        rest, eq, fix = int(m.group(1)), m.group(2), m.group(3)
        bad = []
        if rest: bad.append('re-parse leaves %d characters' % rest)
        if eq != '1': bad.append('re-parsed document is not equal (==) to the first')
        if fix != '1': bad.append('second serialisation differs from the first')
        return '; '.join(bad) or None
    m = RE_REJ.search(line)
    if m:
        return 'serialisation is rejected on re-parse (%s)' % m.group(1)
    return 'no re-parse result on the line'

def pretty_result(line):
    m = PP.search(line)
    if not m:
        return None
    if m.group(1).startswith('ok'):
        return 'ok' if m.group(2) == '0' else 'rest'
    return m.group(1)

def serialisation(line):
    m = re.search(r'\|ser=([0-9,\-]*)', line)
    return lib.dec(m.group(1)) if m else None

# ---------------------------------------------------------------------- shape measures (classifiers)
def nesting_depth(s):
    """maximal element nesting of the text (tags only, cheap scan)"""
    d = m = 0
    i, n = 0, len(s)
    while i < n:
        if s[i] == '<':
            if s.startswith('</', i):
                d -= 1
            elif s.startswith('<!', i) or s.startswith('<?', i):
                pass
            else:
                j = s.find('>', i)
                if j < 0: break
                if s[j - 1] != '/':
                    d += 1; m = max(m, d)
                i = j
        i += 1
    return m

def group_depth(s):
    """maximal nesting of '(' inside <!ELEMENT ...> declarations"""
    best = 0
    for m in re.finditer(r'<!ELEMENT[^>]*>', s):
        d = 0
        for c in m.group(0):
            if c == '(':
                d += 1; best = max(best, d)
            elif c == ')':
                d -= 1
    return best

def choice_group_depth(s):
    """maximal number of CHOICE groups (separator '|' at their own level) along one nesting chain inside an
    <!ELEMENT ...> declaration -- the shape of finding D10: `cp` tries `seq` before `choice`, so the first
    member of a choice group is parsed twice per level; sequence groups are parsed once"""
    best = 0
    for m in re.finditer(r'<!ELEMENT[^>]*>', s):
        stack = []          # per open group: [is_choice, best chain depth among closed children]
        for c in m.group(0):
            if c == '(':
                stack.append([False, 0])
            elif c == '|' and stack:
                stack[-1][0] = True
            elif c == ')' and stack:
                ch, sub = stack.pop()
                d = sub + (1 if ch else 0)
                best = max(best, d)
                if stack:
                    stack[-1][1] = max(stack[-1][1], d)
        while stack:        # unclosed groups (garbage): count what is there
            ch, sub = stack.pop()
            d = sub + (1 if ch else 0)
            best = max(best, d)
            if stack:
                stack[-1][1] = max(stack[-1][1], d)
    return best

def has_attlist(s):
    return '<!ATTLIST' in s

def entity_cycle(s):
    """does the DTD declare a general entity that refers to itself directly or indirectly?"""
    decl = {}
    for m in re.finditer(r'<!ENTITY\s+([^\s%]+)\s+("([^"]*)"|\'([^\']*)\')', s):
        v = m.group(3) if m.group(3) is not None else m.group(4)
        decl.setdefault(m.group(1), re.findall(r'&([^;#&]*);', v))
    def reach(n, path):
        if n in path: return True
        return any(reach(k, path | {n}) for k in decl.get(n, []))
    return any(reach(n, frozenset()) for n in decl)

def uses_parameter_entities(s):
    return bool(re.search(r'<!ENTITY\s+%\s', s) or re.search(r'%[^\s;"\'<>&]*;', s))

def replay_doc(d, flags='d'):
    c = d.get('code_points') or cps(d.get('document', ''))
    print('document: %r' % text_of(c))
    for name, b in (('implementation', lib.rust_bin()), ('model', lib.model_bin('pipeline'))):
        if os.path.exists(b):
            cls, out = lib.run_isolated(b, ['parse'], '%s %s' % (d.get('flags', flags), enc(c)), timeout=30)
            print('%s [%s]: %s' % (name, cls, out[:2000]))
    return 0
