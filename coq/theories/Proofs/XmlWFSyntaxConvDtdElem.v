(** * The converse direction for the DOCTYPE rung, part 3: element type declarations [45]-[51].

    Spec/XmlWF.v reads content models with [p_Name] and does not keep them; the implementation (rightly:
    Namespaces in XML 1.0 [17]-[19]) wants QNames there.  The converse is therefore stated for the STRICT
    recognisers [q_cp], [q_group_rest], [q_mixed_rest], [q_contentspec] defined here -- the functions of the
    specification with "and the name is a QName" added -- which refine the specification's
    ([q_contentspec_spec]). *)
From Coq Require Import List NArith Arith Lia Bool.
From XmlRs Require Import Base.CPred Spec.XmlChars Model.Peg Gen.XmlcharGen Gen.GrammarXmlGen Model.ParseActions Model.Info Model.Display
     Proofs.XmlcharProofs Proofs.PegTermination Proofs.PegLemmas Proofs.PegInv Proofs.Expansion
     Proofs.DisplayLex Proofs.ActionLemmas Proofs.DisplayElem Proofs.DisplayDoc Proofs.DisplayDtd
     Proofs.ParseInv Proofs.ParseInvElem Proofs.ParseInvDtd
     Proofs.XmlWFSyntaxLex Proofs.XmlWFSyntaxElem Proofs.XmlWFSyntaxDtd Proofs.XmlWFSyntaxDtdElem
     Proofs.XmlWFSyntaxConvLex Proofs.XmlWFSyntaxConvElem Proofs.XmlWFSyntaxConvDoc Proofs.XmlWFSyntaxConvDtd.
From XmlRs Require Spec.XmlWF.
Import ListNotations.
Local Open Scope N_scope.

(** ** the strict recognisers *)
Definition q_Name (s : str) : option (str * str) :=
  match W.p_Name s with Some (n, r) => if is_QName n then Some (n, r) else None | None => None end.

Fixpoint q_cp (fuel : nat) (s : str) : option str :=
  match fuel with
  | O => None
  | Datatypes.S f =>
    match s with
    | c :: t =>
      if c =? W.c_lpar then
        W.bind (q_cp f (W.skipS t)) (fun r => W.bind (q_group_rest f None (W.skipS r)) (fun r' => Some (W.skip_occ r')))
      else W.bind (q_Name s) (fun '(_, r) => Some (W.skip_occ r))
    | [] => None
    end
  end
with q_group_rest (fuel : nat) (sep : option char) (s : str) : option str :=
  match fuel with
  | O => None
  | Datatypes.S f =>
    match s with
    | c :: t =>
      if c =? W.c_rpar then Some t
      else if ((c =? W.c_bar) || (c =? W.c_comma)) && match sep with Some x => c =? x | None => true end then
        W.bind (q_cp f (W.skipS t)) (fun r => q_group_rest f (Some c) (W.skipS r))
      else None
    | [] => None
    end
  end.

Fixpoint q_mixed_rest (fuel : nat) (any : bool) (s : str) : option str :=
  match fuel with
  | O => None
  | Datatypes.S f =>
    match W.skipS s with
    | c :: t =>
      if c =? W.c_rpar then
        match t with
        | c2 :: t2 => if c2 =? W.c_star then Some t2 else if any then None else Some t
        | [] => if any then None else Some t
        end
      else if c =? W.c_bar then W.bind (q_Name (W.skipS t)) (fun '(_, r) => q_mixed_rest f true r)
      else None
    | [] => None
    end
  end.

Definition q_contentspec (fuel : nat) (s : str) : option str :=
  match W.strip W.s_EMPTY s with
  | Some r => Some r
  | None =>
    match W.strip W.s_ANY s with
    | Some r => Some r
    | None =>
      match s with
      | c :: t =>
        if c =? W.c_lpar then
          match W.strip W.s_PCDATA (W.skipS t) with
          | Some r => q_mixed_rest fuel false r
          | None => W.bind (q_cp fuel (W.skipS t)) (fun r => W.bind (q_group_rest fuel None (W.skipS r)) (fun r' => Some (W.skip_occ r')))
          end
        else None
      | [] => None
      end
    end
  end.

Lemma q_cp_eq f (s : str) : q_cp (Datatypes.S f) s =
  match s with
  | c :: t =>
    if c =? W.c_lpar then
      W.bind (q_cp f (W.skipS t)) (fun r => W.bind (q_group_rest f None (W.skipS r)) (fun r' => Some (W.skip_occ r')))
    else W.bind (q_Name s) (fun '(_, r) => Some (W.skip_occ r))
  | [] => None
  end.
Proof. reflexivity. Qed.

Lemma q_group_rest_eq f sep (s : str) : q_group_rest (Datatypes.S f) sep s =
  match s with
  | c :: t =>
    if c =? W.c_rpar then Some t
    else if ((c =? W.c_bar) || (c =? W.c_comma)) && match sep with Some x => c =? x | None => true end then
      W.bind (q_cp f (W.skipS t)) (fun r => q_group_rest f (Some c) (W.skipS r))
    else None
  | [] => None
  end.
Proof. reflexivity. Qed.

(** the strict recognisers refine the specification's *)
Lemma q_Name_spec (s : str) n r : q_Name s = Some (n, r) -> W.p_Name s = Some (n, r) /\ is_QName n = true.
Proof. unfold q_Name. destruct (W.p_Name s) as [[n' r']|]; [|discriminate]. destruct (is_QName n') eqn:E; [|discriminate]. intros H. injection H as <- <-. auto. Qed.

Lemma q_cp_spec : forall fuel, (forall s r, q_cp fuel s = Some r -> W.p_cp fuel s = Some r) /\
                               (forall sep s r, q_group_rest fuel sep s = Some r -> W.p_group_rest fuel sep s = Some r).
Proof.
  induction fuel as [|f [IH1 IH2]]; [split; intros; discriminate|]. split.
  - intros s r. rewrite q_cp_eq, cp_eq. destruct s as [|c t]; [discriminate|]. destruct (c =? W.c_lpar).
    + destruct (q_cp f (W.skipS t)) as [r1|] eqn:E1; [|discriminate]. cbn [W.bind]. rewrite (IH1 _ _ E1). cbn [W.bind].
      destruct (q_group_rest f None (W.skipS r1)) as [r2|] eqn:E2; [|discriminate]. cbn [W.bind]. rewrite (IH2 _ _ _ E2). auto.
    + destruct (q_Name (c :: t)) as [[n r1]|] eqn:En; [|discriminate]. cbn [W.bind]. destruct (q_Name_spec _ _ _ En) as [-> _]. auto.
  - intros sep s r. rewrite q_group_rest_eq, group_rest_eq. destruct s as [|c t]; [discriminate|]. destruct (c =? W.c_rpar); [auto|].
    destruct (((c =? W.c_bar) || (c =? W.c_comma)) && match sep with Some x => c =? x | None => true end); [|discriminate].
    destruct (q_cp f (W.skipS t)) as [r1|] eqn:E1; [|discriminate]. cbn [W.bind]. rewrite (IH1 _ _ E1). cbn [W.bind]. apply IH2.
Qed.

Lemma q_mixed_rest_spec : forall fuel any s r, q_mixed_rest fuel any s = Some r -> W.p_mixed_rest fuel any s = Some r.
Proof.
  induction fuel as [|f IH]; intros any s r; [discriminate|]. cbn [q_mixed_rest W.p_mixed_rest]. destruct (W.skipS s) as [|c t]; [discriminate|].
  destruct (c =? W.c_rpar); [auto|]. destruct (c =? W.c_bar); [|discriminate].
  destruct (q_Name (W.skipS t)) as [[n r1]|] eqn:En; [|discriminate]. cbn [W.bind]. destruct (q_Name_spec _ _ _ En) as [-> _]. cbn [W.bind]. apply IH.
Qed.

Lemma q_contentspec_spec fuel s r : q_contentspec fuel s = Some r -> W.p_contentspec fuel s = Some r.
Proof.
  unfold q_contentspec, W.p_contentspec. destruct (W.strip W.s_EMPTY s); [auto|]. destruct (W.strip W.s_ANY s); [auto|].
  destruct s as [|c t]; [discriminate|]. destruct (c =? W.c_lpar); [|discriminate]. destruct (W.strip W.s_PCDATA (W.skipS t)).
  - apply q_mixed_rest_spec.
  - destruct (q_cp fuel (W.skipS t)) as [r1|] eqn:E1; [|discriminate]. cbn [W.bind]. rewrite (proj1 (q_cp_spec fuel) _ _ E1). cbn [W.bind].
    destruct (q_group_rest fuel None (W.skipS r1)) as [r2|] eqn:E2; [|discriminate]. cbn [W.bind]. rewrite (proj2 (q_cp_spec fuel) _ _ _ E2). auto.
Qed.

(** ** occurrence indicators *)
Definition occ_q (s : str) : option str :=
  match s with c :: _ => if (c =? W.c_qm) || (c =? W.c_star) || (c =? W.c_plus) then Some [c] else None | [] => None end.
Definition occ_val (s : str) : val := match occ_q s with Some x => VSome (VStr x) | None => VNone end.

Lemma conv_occ (s : str) : yields occ s (occ_val s) (W.skip_occ s).
Proof.
  unfold occ, occ_val, occ_q, W.skip_occ. destruct s as [|c t].
  - apply yields_opt_none. repeat apply fails_alt; apply fails_tag; reflexivity.
  - destruct (N.eqb_spec c W.c_qm) as [->|H1]; [cbn [orb]; apply yields_opt_some; apply yields_str; apply parses_alt_l; apply (parses_tag G_xml [63] t)|].
    destruct (N.eqb_spec c W.c_star) as [->|H2]; [cbn [orb]; apply yields_opt_some; apply yields_str; apply parses_alt_r; [apply fails_tag; reflexivity|]; apply parses_alt_l; apply (parses_tag G_xml [42] t)|].
    destruct (N.eqb_spec c W.c_plus) as [->|H3]; [cbn [orb]; apply yields_opt_some; apply yields_str; apply parses_alt_r; [apply fails_tag; reflexivity|]; apply parses_alt_r; [apply fails_tag; reflexivity|]; apply (parses_tag G_xml [43] t)|].
    cbn [orb]. apply yields_opt_none. unfold W.c_qm, W.c_star, W.c_plus in *.
    repeat apply fails_alt; apply fails_tag; cbn [prefix]; match goal with |- (if ?x =? c then _ else _) = None => destruct (N.eqb_spec x c) as [<-|]; [contradiction|reflexivity] end.
Qed.

Lemma al_cm_seq (l : list content_item) (s : str) :
  apply_label L_closure_6f80cde5 (VPair (VList (map VContentItem l)) (occ_val s)) = VContentItem (CiSeq l (occ_q s)).
Proof.
  change (apply_label L_closure_6f80cde5 (VPair (VList (map VContentItem l)) (occ_val s)))
    with (match as_list as_content_item (VList (map VContentItem l)), as_opt as_str (occ_val s) with
          | Some x', Some q' => VContentItem (CiSeq x' q') | _, _ => VBad end).
  rewrite as_list_map by reflexivity. unfold occ_val. destruct (occ_q s); reflexivity.
Qed.
Lemma al_cm_choice (l : list content_item) (s : str) :
  apply_label L_closure_d89bea1a (VPair (VList (map VContentItem l)) (occ_val s)) = VContentItem (CiChoice l (occ_q s)).
Proof.
  change (apply_label L_closure_d89bea1a (VPair (VList (map VContentItem l)) (occ_val s)))
    with (match as_list as_content_item (VList (map VContentItem l)), as_opt as_str (occ_val s) with
          | Some x', Some q' => VContentItem (CiChoice x' q') | _, _ => VBad end).
  rewrite as_list_map by reflexivity. unfold occ_val. destruct (occ_q s); reflexivity.
Qed.
Lemma al_cm_name (q : qname) (s : str) :
  apply_label L_closure_82e89c41 (VPair (VQName q) (occ_val s)) = VContentItem (CiName q (occ_q s)).
Proof. unfold occ_val. destruct (occ_q s); reflexivity. Qed.

(** ** groups *)
Lemma group_open_parses (t : str) : exists tg, P group_open (40 :: t) tg (W.skipS t).
Proof. destruct (conv_ws0 t) as [a Pa]. eexists. unfold group_open. eapply parses_seq; [apply (parses_tag G_xml [40] t)|exact Pa]. Qed.

Lemma group_close_parses (s t : str) : W.skipS s = 41 :: t -> exists tc, P group_close s tc t.
Proof. intros E. destruct (conv_ws0 s) as [a Pa]. rewrite E in Pa. eexists. unfold group_close. eapply parses_seq; [exact Pa|apply (parses_tag G_xml [41] t)]. Qed.

Lemma sep_item_fails (c : N) (s : str) d t : W.skipS s = d :: t -> d <> c -> F (sep_item c) s.
Proof.
  intros E Hd. destruct (conv_ws0 s) as [a Pa]. rewrite E in Pa. unfold sep_item. apply fails_seqr_l. eapply fails_seq_r; [exact Pa|].
  apply fails_seq_l. apply fails_tag. cbn [prefix]. destruct (N.eqb_spec c d) as [->|]; [contradiction|reflexivity].
Qed.

Lemma group_close_fails (s : str) d t : W.skipS s = d :: t -> d <> 41 -> F group_close s.
Proof.
  intros E Hd. destruct (conv_ws0 s) as [a Pa]. rewrite E in Pa. unfold group_close. eapply fails_seq_r; [exact Pa|].
  apply fails_tag. cbn [prefix]. destruct (N.eqb_spec 41 d) as [<-|]; [contradiction|reflexivity].
Qed.

Lemma sep_item_yields (c : N) (s t : str) ci r : W.skipS s = c :: t -> yields (NT nt_cp) (W.skipS t) (VContentItem ci) r ->
  yields (sep_item c) s (VContentItem ci) r /\ (length r < length s)%nat.
Proof.
  intros E Y. destruct (conv_ws0 s) as [a Pa]. rewrite E in Pa. destruct (conv_ws0 t) as [a2 Pa2]. split.
  - unfold sep_item. eapply yields_seqr; [|exact Y]. eapply parses_seq; [exact Pa|]. eapply parses_seq; [apply (parses_tag G_xml [c] t)|exact Pa2].
  - pose proof (yields_length (NT nt_cp) _ _ _ eq_refl Y) as L1. pose proof (P_length (Chars0 ws) _ _ _ eq_refl Pa2) as L2.
    pose proof (P_length (Chars0 ws) _ _ _ eq_refl Pa) as L3. cbn [length] in L3. unfold str, char in *. lia.
Qed.

Definition cp_conv (f : nat) : Prop := forall s r, q_cp f s = Some r -> exists ci, yields (NT nt_cp) s (VContentItem ci) r.
Definition items_conv (f : nat) : Prop := forall c, c = 124 \/ c = 44 -> forall s0 rest, q_group_rest f (Some c) (W.skipS s0) = Some rest ->
  exists cis r2 tc, many_yields (sep_item c) s0 (map VContentItem cis) r2 /\ P group_close r2 tc rest.

Lemma sep_cases c : ((c =? W.c_bar) || (c =? W.c_comma)) = true -> c = 124 \/ c = 44.
Proof. intros H. apply orb_prop in H. destruct H as [H|H]; apply N.eqb_eq in H; [left|right]; exact H. Qed.

Lemma items_step f : cp_conv f -> items_conv f -> items_conv (Datatypes.S f).
Proof.
  intros H1 H2 c Hc s0 rest H. rewrite q_group_rest_eq in H. destruct (W.skipS s0) as [|d t] eqn:E; [discriminate|].
  destruct (N.eqb_spec d W.c_rpar) as [->|Hd].
  - injection H as <-. destruct (group_close_parses s0 t E) as [tc Pc]. exists [], s0, tc. split; [|exact Pc].
    apply my_stop. apply (sep_item_fails c s0 41 t E). destruct Hc as [->| ->]; discriminate.
  - destruct ((d =? W.c_bar) || (d =? W.c_comma)) eqn:Esep; [|discriminate]. destruct (N.eqb_spec d c) as [->|]; [|discriminate]. cbn [andb] in H.
    destruct (q_cp f (W.skipS t)) as [r1|] eqn:E1; [|discriminate]. cbn [W.bind] in H.
    destruct (H1 _ _ E1) as [ci Yci]. destruct (H2 c Hc r1 rest H) as (cis & r2 & tc & Hm & Pc).
    destruct (sep_item_yields c s0 t ci r1 E Yci) as [Ys Hl].
    exists (ci :: cis), r2, tc. split; [|exact Pc]. cbn [map]. eapply my_step; eassumption.
Qed.

(** a parenthesised group after its first content particle: a sequence, or a choice (on which `seq` fails) *)
Lemma group_conv f (t r1 rest : str) ci1 : cp_conv f -> items_conv f ->
  yields (NT nt_cp) (W.skipS t) (VContentItem ci1) r1 -> q_group_rest (Datatypes.S f) None (W.skipS r1) = Some rest ->
  (exists cis, yields (NT nt_seq) (40 :: t) (VList (map VContentItem (ci1 :: cis))) rest) \/
  (exists cis, F (NT nt_seq) (40 :: t) /\ yields (NT nt_choice) (40 :: t) (VList (map VContentItem (ci1 :: cis))) rest).
Proof.
  intros H1 H2 Y1 H. rewrite q_group_rest_eq in H. destruct (W.skipS r1) as [|d t'] eqn:E; [discriminate|].
  destruct (group_open_parses t) as [tg Pg].
  destruct (N.eqb_spec d W.c_rpar) as [->|Hd].
  - injection H as <-. left. exists []. destruct (group_close_parses r1 t' E) as [tc Pc].
    apply yields_nt. rewrite body_seq. apply (yields_map' (VPair (VContentItem ci1) (VList []))); [reflexivity|].
    eapply yields_seqr; [exact Pg|]. eapply yields_seql; [|exact Pc]. eapply yields_seq; [exact Y1|].
    apply yields_many0. apply my_stop. apply (sep_item_fails 44 r1 41 t' E). discriminate.
  - destruct ((d =? W.c_bar) || (d =? W.c_comma)) eqn:Esep; [|discriminate]. cbn [andb] in H.
    destruct (q_cp f (W.skipS t')) as [r2|] eqn:E2; [|discriminate]. cbn [W.bind] in H.
    destruct (H1 _ _ E2) as [ci2 Y2]. destruct (sep_cases d Esep) as [->| ->].
    + (* a choice *) right. destruct (H2 124 (or_introl eq_refl) r2 rest H) as (cis & r3 & tc & Hm & Pc).
      destruct (sep_item_yields 124 r1 t' ci2 r2 E Y2) as [Ys Hl].
      exists (ci2 :: cis). split.
      * apply fails_nt. rewrite body_seq. apply fails_map. eapply fails_seqr_r; [exact Pg|].
        destruct Y1 as [t1 [P1 _]].
        destruct (yields_many0 (sep_item 44) r1 [] r1 (my_stop _ _ (sep_item_fails 44 r1 124 t' E ltac:(discriminate)))) as [tm [Pm _]].
        eapply fails_seql_r; [eapply parses_seq; [exact P1|exact Pm]|]. apply (group_close_fails r1 124 t' E). discriminate.
      * apply yields_nt. rewrite body_choice. apply (yields_map' (VPair (VContentItem ci1) (VList (map VContentItem (ci2 :: cis))))); [reflexivity|].
        eapply yields_seqr; [exact Pg|]. eapply yields_seql; [|exact Pc]. eapply yields_seq; [exact Y1|].
        destruct Ys as [ts [Ps Es]].
        assert (exists tl, many_parses G_xml (sep_item 124) r2 tl r3 /\ map eval_tree tl = map VContentItem cis) as [tl [Pl El]].
        { clear - Hm. induction Hm as [s Hf|s v r1 vs r [t [Ht Et]] Hlt _ [ts [Hp Hm']]].
          - exists []. split; [constructor; exact Hf|reflexivity].
          - exists (t :: ts). split; [econstructor; eassumption|cbn [map]; rewrite Et, Hm'; reflexivity]. }
        exists (TList (ts :: tl)). split; [eapply parses_many1; eassumption|]. cbn [eval_tree map]. rewrite Es, El. reflexivity.
    + (* a sequence *) left. destruct (H2 44 (or_intror eq_refl) r2 rest H) as (cis & r3 & tc & Hm & Pc).
      destruct (sep_item_yields 44 r1 t' ci2 r2 E Y2) as [Ys Hl].
      exists (ci2 :: cis). apply yields_nt. rewrite body_seq.
      apply (yields_map' (VPair (VContentItem ci1) (VList (map VContentItem (ci2 :: cis))))); [reflexivity|].
      eapply yields_seqr; [exact Pg|]. eapply yields_seql; [|exact Pc]. eapply yields_seq; [exact Y1|].
      apply yields_many0. cbn [map]. eapply my_step; eassumption.
Qed.

Lemma no_paren_fails (s : str) : prefix [40] s = None -> F (NT nt_seq) s /\ F (NT nt_choice) s.
Proof.
  intros H. split; apply fails_nt; [rewrite body_seq|rewrite body_choice]; apply fails_map; apply fails_seqr_l; unfold group_open; apply fails_seq_l; apply fails_tag; exact H.
Qed.

Theorem cm_conv : forall f, cp_conv f /\ items_conv f.
Proof.
  induction f as [f IH] using (well_founded_induction lt_wf).
  assert (Hitems : items_conv f).
  { destruct f as [|f']; [intros c Hc s0 rest H; discriminate H|]. destruct (IH f' ltac:(lia)) as [H1 H2]. apply items_step; assumption. }
  split; [|exact Hitems].
  intros s r H. destruct f as [|f']; [discriminate|]. rewrite q_cp_eq in H. destruct s as [|c t]; [discriminate|].
  destruct (N.eqb_spec c W.c_lpar) as [->|Hc].
  - destruct (q_cp f' (W.skipS t)) as [r1|] eqn:E1; [|discriminate]. cbn [W.bind] in H.
    destruct (q_group_rest f' None (W.skipS r1)) as [r'|] eqn:E2; [|discriminate]. cbn [W.bind] in H. injection H as <-.
    destruct (IH f' ltac:(lia)) as [H1 _]. destruct (H1 _ _ E1) as [ci1 Y1].
    destruct f' as [|f'']; [discriminate E2|]. destruct (IH f'' ltac:(lia)) as [H1' H2'].
    destruct (group_conv f'' t r1 r' ci1 H1' H2' Y1 E2) as [[cis Ys]|[cis [Fs Yc]]].
    + exists (CiSeq (ci1 :: cis) (occ_q r')). apply yields_nt. rewrite body_cp. apply yields_alt_l.
      eapply yields_map'; [apply (al_cm_seq (ci1 :: cis) r')|]. eapply yields_seq; [exact Ys|apply conv_occ].
    + exists (CiChoice (ci1 :: cis) (occ_q r')). apply yields_nt. rewrite body_cp.
      apply yields_alt_r; [apply fails_map; apply fails_seq_l; exact Fs|]. apply yields_alt_l.
      eapply yields_map'; [apply (al_cm_choice (ci1 :: cis) r')|]. eapply yields_seq; [exact Yc|apply conv_occ].
  - destruct (q_Name (c :: t)) as [[n r1]|] eqn:En; [|discriminate]. cbn [W.bind] in H. injection H as <-.
    destruct (q_Name_spec _ _ _ En) as [Hn Hq]. destruct (p_Name_inv _ _ _ Hn) as [Es [_ Hst]]. destruct (QName_qname n Hq) as [q [Hqo Eq]].
    assert (prefix [40] (c :: t) = None) as Hp.
    { cbn [prefix]. destruct (N.eqb_spec 40 c) as [<-|]; [exfalso; apply Hc; reflexivity|reflexivity]. }
    destruct (no_paren_fails _ Hp) as [Fs Fc].
    exists (CiName q (occ_q r1)). apply yields_nt. rewrite body_cp.
    apply yields_alt_r; [apply fails_map; apply fails_seq_l; exact Fs|]. apply yields_alt_r; [apply fails_map; apply fails_seq_l; exact Fc|].
    eapply yields_map'; [apply (al_cm_name q r1)|]. eapply yields_seq; [|apply conv_occ].
    exists (tree_qname q). split; [|apply eval_tree_qname]. rewrite Es, <- Eq. apply parses_qname; [exact Hqo|exact Hst].
Qed.

(** ** [51] Mixed *)
Lemma mixed_item_fails (s : str) d t : W.skipS s = d :: t -> d <> 124 -> F mixed_item s.
Proof.
  intros E Hd. destruct (conv_ws0 s) as [a Pa]. rewrite E in Pa. unfold mixed_item. apply fails_seqr_l. eapply fails_seq_r; [exact Pa|].
  apply fails_seq_l. apply fails_tag. cbn [prefix]. destruct (N.eqb_spec 124 d) as [<-|]; [contradiction|reflexivity].
Qed.

Lemma conv_mixed_rest : forall fuel any (s r : str), q_mixed_rest fuel any s = Some r ->
  exists (qs : list qname) (s2 t : str), many_yields mixed_item s (map VQName qs) s2 /\ W.skipS s2 = 41 :: t /\
    ((t = 42 :: r) \/ (any = false /\ qs = [] /\ r = t /\ prefix [42] t = None)).
Proof.
  induction fuel as [|f IH]; intros any s r H; [discriminate|]. cbn [q_mixed_rest] in H.
  destruct (W.skipS s) as [|c t0] eqn:E; [discriminate|]. destruct (N.eqb_spec c W.c_rpar) as [->|Hc].
  - exists [], s, t0. split; [apply my_stop; apply (mixed_item_fails s 41 t0 E); discriminate|]. split; [exact E|].
    destruct t0 as [|c2 t2].
    + destruct any; [discriminate|]. injection H as <-. right. auto.
    + destruct (N.eqb_spec c2 W.c_star) as [->|Hs]; [injection H as <-; left; reflexivity|].
      destruct any; [discriminate|]. injection H as <-. right. repeat split. cbn [prefix]. destruct (N.eqb_spec 42 c2) as [<-|]; [exfalso; apply Hs; reflexivity|reflexivity].
  - destruct (N.eqb_spec c W.c_bar) as [->|]; [|discriminate]. destruct (q_Name (W.skipS t0)) as [[n r1]|] eqn:En; [|discriminate]. cbn [W.bind] in H.
    destruct (IH _ _ _ H) as (qs & s2 & t & Hm & Es & Hend).
    destruct (q_Name_spec _ _ _ En) as [Hn Hq]. destruct (p_Name_inv _ _ _ Hn) as [Es0 [_ Hst]]. destruct (QName_qname n Hq) as [q [Hqo Eq]].
    destruct (conv_ws0 s) as [a Pa]. rewrite E in Pa. destruct (conv_ws0 t0) as [a2 Pa2].
    exists (q :: qs), s2, t. split; [|split; [exact Es|]].
    + cbn [map]. eapply my_step; [| |exact Hm].
      * unfold mixed_item. eapply yields_seqr; [eapply parses_seq; [exact Pa|eapply parses_seq; [apply (parses_tag G_xml [124] t0)|exact Pa2]]|].
        exists (tree_qname q). split; [|apply eval_tree_qname]. rewrite Es0, <- Eq. apply parses_qname; [exact Hqo|exact Hst].
      * pose proof (P_length (Chars0 ws) _ _ _ eq_refl Pa2) as L2. pose proof (P_length (Chars0 ws) _ _ _ eq_refl Pa) as L3. cbn [length] in L3.
        assert (length r1 <= length (W.skipS t0))%nat as L1 by (rewrite Es0, app_length; lia). unfold str, char in *. lia.
    + destruct Hend as [Ht|[Hany _]]; [left; exact Ht|discriminate Hany].
Qed.

Lemma al_mixed_some (qs : list qname) : apply_label L_model_DeclarationContent_Mixed (VSome (VList (map VQName qs))) = VDeclContent (DcMixed (Some qs)).
Proof.
  change (apply_label L_model_DeclarationContent_Mixed (VSome (VList (map VQName qs))))
    with (ret (fun m => VDeclContent (DcMixed m)) (as_opt (as_list as_qname) (VSome (VList (map VQName qs))))).
  cbn [as_opt]. rewrite as_list_map by reflexivity. reflexivity.
Qed.

Lemma conv_mixed fuel (t r0 r : str) : W.strip W.s_PCDATA (W.skipS t) = Some r0 -> q_mixed_rest fuel false r0 = Some r ->
  exists m, yields (NT nt_mixed) (40 :: t) m r /\ exists o, apply_label L_model_DeclarationContent_Mixed m = VDeclContent (DcMixed o).
Proof.
  intros Hp H. rewrite Wstrip_same in Hp. apply prefix_decomp in Hp. destruct (conv_ws0 t) as [a Pa]. rewrite Hp in Pa.
  destruct (conv_mixed_rest _ _ _ _ H) as (qs & s2 & t2 & Hm & Es & Hend). destruct (conv_ws0 s2) as [a2 Pa2]. rewrite Es in Pa2.
  destruct Hend as [->|[_ [-> [-> Hns]]]].
  - exists (VSome (VList (map VQName qs))). split; [|exists (Some qs); apply al_mixed_some].
    apply yields_nt. rewrite body_mixed. apply yields_alt_l. apply (yields_map' (VList (map VQName qs))); [reflexivity|].
    eapply yields_seqr; [eapply parses_seq; [apply (parses_tag G_xml [40] t)|eapply parses_seq; [exact Pa|apply (parses_tag G_xml [35;80;67;68;65;84;65] r0)]]|].
    eapply yields_seql; [apply yields_many0; exact Hm|]. eapply parses_seq; [exact Pa2|apply (parses_tag G_xml [41;42] r)].
  - exists VNone. split; [|exists None; reflexivity].
    inversion Hm as [s Hf E1 E2 E3|]; subst.
    apply yields_nt. rewrite body_mixed. apply yields_alt_r.
    + apply fails_map. eapply fails_seqr_r; [eapply parses_seq; [apply (parses_tag G_xml [40] t)|eapply parses_seq; [exact Pa|apply (parses_tag G_xml [35;80;67;68;65;84;65] s2)]]|].
      destruct (yields_many0 mixed_item s2 [] s2 (my_stop _ _ Hf)) as [tm [Pm _]].
      eapply fails_seql_r; [exact Pm|]. eapply fails_seq_r; [exact Pa2|]. apply fails_tag. cbn [prefix]. change (41 =? 41) with true. cbv iota. exact Hns.
    + apply (yields_map' (VPair (VStr [40]) (VPair (VStr a) (VPair (VStr [35;80;67;68;65;84;65]) (VPair (VStr a2) (VStr [41])))))); [reflexivity|].
      exists (TPair (TStr [40]) (TPair (TStr a) (TPair (TStr [35;80;67;68;65;84;65]) (TPair (TStr a2) (TStr [41]))))). split; [|reflexivity].
      eapply parses_seq; [apply (parses_tag G_xml [40] t)|]. eapply parses_seq; [exact Pa|]. eapply parses_seq; [apply (parses_tag G_xml [35;80;67;68;65;84;65] s2)|].
      eapply parses_seq; [exact Pa2|apply (parses_tag G_xml [41] t2)].
Qed.

(** ** [46] contentspec, [45] elementdecl *)
Lemma conv_contentspec fuel (s r : str) : q_contentspec fuel s = Some r -> exists dc, yields (NT nt_content_spec) s (VDeclContent dc) r.
Proof.
  unfold q_contentspec. rewrite ?Wstrip_same. destruct (prefix W.s_EMPTY s) as [r0|] eqn:E1; cbv beta iota; rewrite ?Wstrip_same.
  { intros H. injection H as <-. apply prefix_decomp in E1. subst s. exists DcEmpty. apply yields_nt. rewrite body_content_spec. apply yields_alt_l.
    apply (yields_map' (VStr W.s_EMPTY)); [reflexivity|]. apply yields_str. apply parses_tag. }
  destruct (prefix W.s_ANY s) as [r0|] eqn:E2; cbv beta iota.
  { intros H. injection H as <-. apply prefix_decomp in E2. subst s. exists DcAny. apply yields_nt. rewrite body_content_spec.
    apply yields_alt_r; [apply fails_map; apply fails_tag; reflexivity|]. apply yields_alt_l.
    apply (yields_map' (VStr W.s_ANY)); [reflexivity|]. apply yields_str. apply parses_tag. }
  destruct s as [|c t]; [discriminate|]. destruct (N.eqb_spec c W.c_lpar) as [->|]; [|discriminate].
  destruct (W.strip W.s_PCDATA (W.skipS t)) as [r0|] eqn:E3.
  - intros H. destruct (conv_mixed _ _ _ _ E3 H) as [m [Ym [o Ho]]]. exists (DcMixed o). apply yields_nt. rewrite body_content_spec.
    apply yields_alt_r; [apply fails_map; apply fails_tag; reflexivity|]. apply yields_alt_r; [apply fails_map; apply fails_tag; reflexivity|].
    apply yields_alt_l. eapply yields_map'; [exact Ho|exact Ym].
  - destruct (q_cp fuel (W.skipS t)) as [r1|] eqn:Ec; [|discriminate]. cbn [W.bind].
    destruct (q_group_rest fuel None (W.skipS r1)) as [r'|] eqn:Eg; [|discriminate]. cbn [W.bind]. intros H. injection H as <-.
    destruct (proj1 (cm_conv fuel) _ _ Ec) as [ci1 Y1]. destruct fuel as [|f]; [discriminate Eg|]. destruct (cm_conv f) as [H1 H2].
    assert (F (Map L_model_DeclarationContent_Mixed (NT nt_mixed)) (40 :: t)) as Fm.
    { apply fails_map. apply fails_nt. rewrite body_mixed. destruct (conv_ws0 t) as [a Pa]. rewrite Wstrip_same in E3.
      apply fails_alt; apply fails_map.
      - apply fails_seqr_l. eapply fails_seq_r; [apply (parses_tag G_xml [40] t)|]. eapply fails_seq_r; [exact Pa|]. apply fails_tag. exact E3.
      - eapply fails_seq_r; [apply (parses_tag G_xml [40] t)|]. eapply fails_seq_r; [exact Pa|]. apply fails_seq_l. apply fails_tag. exact E3. }
    destruct (group_conv f t r1 r' ci1 H1 H2 Y1 Eg) as [[cis Ys]|[cis [Fs Yc]]].
    + exists (DcChildren (CiSeq (ci1 :: cis) (occ_q r'))). apply yields_nt. rewrite body_content_spec.
      apply yields_alt_r; [apply fails_map; apply fails_tag; reflexivity|]. apply yields_alt_r; [apply fails_map; apply fails_tag; reflexivity|].
      apply yields_alt_r; [exact Fm|]. apply (yields_map' (VContentItem (CiSeq (ci1 :: cis) (occ_q r')))); [reflexivity|].
      apply yields_nt. rewrite body_children. apply yields_alt_l. eapply yields_map'; [apply (al_cm_seq (ci1 :: cis) r')|].
      eapply yields_seq; [exact Ys|apply conv_occ].
    + exists (DcChildren (CiChoice (ci1 :: cis) (occ_q r'))). apply yields_nt. rewrite body_content_spec.
      apply yields_alt_r; [apply fails_map; apply fails_tag; reflexivity|]. apply yields_alt_r; [apply fails_map; apply fails_tag; reflexivity|].
      apply yields_alt_r; [exact Fm|]. apply (yields_map' (VContentItem (CiChoice (ci1 :: cis) (occ_q r')))); [reflexivity|].
      apply yields_nt. rewrite body_children. apply yields_alt_r; [apply fails_map; apply fails_seq_l; exact Fs|].
      eapply yields_map'; [apply (al_cm_choice (ci1 :: cis) r')|]. eapply yields_seq; [exact Yc|apply conv_occ].
Qed.

(** the element type declaration as the strict specification reads it, after `<!ELEMENT` *)
Definition q_elementdecl (fuel : nat) (r : str) : option (W.decl * str) :=
  W.bind (W.p_S r) (fun r1 => W.bind (W.p_Name r1) (fun '(nm, r2) => W.bind (W.p_S r2) (fun r3 =>
  W.bind (q_contentspec fuel r3) (fun r4 => W.bind (W.p_close r4) (fun r5 => Some (W.DElement nm, r5)))))).

Lemma markupdecl_element fuel r : W.p_markupdecl fuel (W.s_element ++ r) =
  W.bind (W.p_S r) (fun r1 => W.bind (W.p_Name r1) (fun '(nm, r2) => W.bind (W.p_S r2) (fun r3 =>
  W.bind (W.p_contentspec fuel r3) (fun r4 => W.bind (W.p_close r4) (fun r5 => Some (W.DElement nm, r5)))))).
Proof. reflexivity. Qed.

Lemma q_elementdecl_spec fuel r d r' : q_elementdecl fuel r = Some (d, r') -> W.p_markupdecl fuel (W.s_element ++ r) = Some (d, r').
Proof.
  rewrite markupdecl_element. unfold q_elementdecl. destruct (W.p_S r) as [r1|]; [|discriminate]. cbn [W.bind].
  destruct (W.p_Name r1) as [[nm r2]|]; [|discriminate]. cbn [W.bind]. destruct (W.p_S r2) as [r3|]; [|discriminate]. cbn [W.bind].
  destruct (q_contentspec fuel r3) as [r4|] eqn:Eq; [|discriminate]. cbn [W.bind]. rewrite (q_contentspec_spec _ _ _ Eq). auto.
Qed.

Lemma conv_element_decl fuel (s' : str) d r : q_elementdecl fuel s' = Some (d, r) ->
  match d with W.DElement nm => is_QName nm = true | _ => True end ->
  exists de, yields (NT nt_element_decl) (W.s_element ++ s') (VDeclElement de) r /\ d = W.DElement (d_qname (del_name de)) /\ qname_ok (del_name de).
Proof.
  unfold q_elementdecl. destruct (W.p_S s') as [r1|] eqn:E1; [|discriminate]. cbn [W.bind].
  destruct (W.p_Name r1) as [[nm r2]|] eqn:En; [|discriminate]. cbn [W.bind]. destruct (W.p_S r2) as [r3|] eqn:E3; [|discriminate]. cbn [W.bind].
  destruct (q_contentspec fuel r3) as [r4|] eqn:Eq; [|discriminate]. cbn [W.bind]. destruct (W.p_close r4) as [r5|] eqn:Ec; [|discriminate]. cbn [W.bind].
  intros H. injection H as <- <-. intros Hq.
  destruct (conv_contentspec _ _ _ Eq) as [dc Yc]. destruct (conv_ws1 _ _ E1) as [a1 P1]. destruct (conv_ws1 _ _ E3) as [a3 P3]. destruct (conv_close _ _ Ec) as [tc Pc].
  destruct (p_Name_inv _ _ _ En) as [Es [_ Hst]]. destruct (QName_qname nm Hq) as [q [Hqo Eqn]].
  exists (DeclElement q dc). split; [|split; [cbn [del_name]; rewrite Eqn; reflexivity|exact Hqo]].
  apply yields_nt. rewrite body_element_decl. apply (yields_map' (VPair (VQName q) (VDeclContent dc))); [reflexivity|].
  eapply yields_seqr; [eapply parses_seq; [apply (parses_tag G_xml [60;33;69;76;69;77;69;78;84])|exact P1]|].
  eapply yields_seql; [|exact Pc]. eapply yields_seq; [|eapply yields_seqr; [exact P3|exact Yc]].
  exists (tree_qname q). split; [|apply eval_tree_qname]. rewrite Es, <- Eqn. apply parses_qname; [exact Hqo|exact Hst].
Qed.
