(** * C02 -- ill-formed input is never reported as a completely parsed document.

    Full statement (DESIGN 5.2), over the model of the implementation
    (Model/Info.v [from_raw], written from the repaired code):

      accepted_is_wellformed : forall s d, from_raw s = OOk ([], d) -> wf s = true.

    The faithful model REFUTES it ([accepted_is_wellformed_refuted] and the witnesses per
    finding that stays: D04, WF13, WFNS20-23).  What is proved, closed and for all strings:

    (1) the LEXICAL RUNG of the language inclusion between the regenerated grammar [G_xml]
        (semantics [run] of Model/Peg.v) and the recognisers of Spec/XmlWF.v: S, Eq, CharRef,
        CDSect, CharData, Comment exactly; PI, Reference, AttValue exactly outside finding D04
        (the parser's `name` production), with the refuting witnesses;
    (2) the inputs of every repaired defect are rejected by the model and ill-formed per spec;
    (3) the two levels of the specification nest ([wf_is_wf_xml10]);
    (4) round 2 -- the conditional theorem FOR EVERY DOCUMENT WITHOUT A DOCUMENT TYPE DECLARATION,
        all three rungs, any size and nesting depth:
          accepted_is_wellformed_nodoctype_partial :
            forall s d, from_raw s = OOk ([], d) -> nodoctype s = true ->
              KnownD04_nodoctype s = false -> KnownNS s = false -> wf s = true
        with its XML 1.0 half [accepted_is_wf_xml10_nodoctype_partial] (no namespace hypothesis), the
        variant whose hypothesis is on the text ([..._text_partial]: the nine characters of the
        DOCTYPE keyword do not occur in s) and the variant on the infoset ([doc_doctype d = None]).
        It is composed of
          rung 2, syntax ([syntax_nodoctype_partial]): when the production `document` of G_xml
            derives the whole string (through the big-step success relation of Proofs/PegInv.v, by
            inversion of every production involved and induction on the length of the input),
            [Spec.XmlWF.parse_document] accepts it and returns the translation [x_doc_nodt] of the
            typed document of Model/ParseActions.v: XML declaration, Misc, element, attributes,
            content with nested elements, references, CDATA sections, comments, PIs, character data;
          rung 3, constraints ([constraints_nodoctype_partial]): the checks of Model/Info.v
            [build_document] (unique attribute names, legal characters, entity lookup) and nom's
            `verify` in `element` imply [Spec.XmlWF.check_doc]: Element Type Match, Unique Att Spec,
            No < in Attribute Values, Legal Character, Entity Declared.
        Exclusions, all decidable: [KnownD04_nodoctype s] -- some PI target or entity-reference name
        the parser read with its production `name` is not a [5] Name (finding D04); [KnownNS s] --
        s is well-formed XML 1.0 and violates a namespace constraint (the classifiers of findings
        WFNS20-23 are exactly this).  WF13 cannot occur without a DOCTYPE.

    (5) round 2 -- RUNG 2 (SYNTAX) FOR EVERY DOCUMENT, with or without a document type declaration
        ([syntax_partial], [accepted_is_syntactically_wellformed_partial]): every accepted input outside
        finding D04 ([KnownD04_doc s = false]: the names at the eight Name positions -- entity, notation,
        NDATA and NOTATION-type names, PI targets, entity references in content, attribute values,
        default values and entity values -- are Names) is accepted by the GRAMMAR of the specification,
        [Spec.XmlWF.parse_document s = Some (x_doc pd)], where [x_doc pd] is the translation of the typed
        document: DOCTYPE with external identifier, internal subset with ELEMENT (EMPTY, ANY, Mixed,
        children: cp / choice / seq to any depth), ATTLIST (all attribute types and defaults), general
        ENTITY (literal, external, unparsed), NOTATION, PIs, comments.  Parameter-entity declarations
        and references are refused by XmlDocument::new ([build_document_ok]), so no hypothesis about
        them is left.

    (6) round 2 -- THE CONDITIONAL THEOREM FOR DOCUMENTS WITH A DOCTYPE whose declared internal general
        entities have PLAIN replacement text ([plain_entities s]: the replacement text of every
        `<!ENTITY n "...">` is a string of Chars without `&`, `<` and `]]>`, written directly or as a
        character reference), all three rungs:
          accepted_is_wellformed_plain_partial :
            forall s d, from_raw s = OOk ([], d) -> KnownD04_doc s = false -> plain_entities s = true ->
              KnownNS s = false -> wf s = true
        ([accepted_is_wf_xml10_plain_partial] without the namespace hypothesis).  Rung 3 here
        ([constraints_plain_partial]): the internal subset in declaration order (Legal Character in
        entity values; default values checked against the entities declared BEFORE the ATTLIST:
        No < in Attribute Values, No External Entity References, Entity Declared), then the element
        tree against the declared + predefined entities (Entity Declared also when an external
        subset / standalone changes what must be declared, Parsed Entity, replacement text matches
        content), Element Type Match, Unique Att Spec.  It subsumes (4).
        [plain_entities] excludes finding WF13 (a referenced entity whose replacement text contains
        `&` or `<`) and MORE: every document that declares an entity with markup or a nested
        reference in its value, well-formed or not.

    (7) round 2 -- THE STRONGEST CONDITIONAL THEOREM: entity values may contain references to other
        general entities, to any depth ([simple_entities s]: the replacement text of every declared
        internal general entity consists of Chars other than `&` and `<`, written directly or as
        character references, and of references `&n;` with n a Name; no `]]>`):
          accepted_is_wellformed_simple_partial :
            forall s d, from_raw s = OOk ([], d) -> KnownD04_doc s = false -> simple_entities s = true ->
              KnownNS s = false -> wf s = true
        It adds WFC No Recursion and the entity constraints THROUGH nested references (Entity
        Declared, Parsed Entity, No External Entity References, No < in Attribute Values) to (6), and
        subsumes (4) and (6).  Method (Proofs/XmlWFSyntaxEntRec.v): [model_recursion_check_is_sound] --
        the depth-first check of XmlDocument::new with its memory of finished / unfinished entities
        answers Ok only for entities that are GOOD at some height ([goodb], a memoryless boolean
        function of the table), by induction on its fuel; a good entity is expanded ([expand_good]) and
        re-read in attribute values ([av_good]) by the specification without error, by induction on the
        height, the path of the specification being duplicate-free and made of declared names, so
        that its fuel suffices.
        What [simple_entities] still excludes: `<` in replacement text (markup inside entity values)
        and `&` produced by a character reference (double-escaped references) -- these two are exactly
        the ways finding WF13 arises (the implementation does not re-read replacement text), but the
        exclusion is wider than the finding: a well-formed document with markup in an entity value is
        not covered either.

    (7') round 2 -- ENTITY VALUES WITH MARKUP ([markup_entities s], Proofs/XmlWFSyntaxEntMarkup.v):
          accepted_is_wellformed_markup_partial :
            forall s d, from_raw s = OOk ([], d) -> KnownD04_doc s = false -> markup_entities s = true ->
              KnownNS s = false -> wf s = true
        Entity values may now contain elements, comments, PIs, CDATA sections and `<` written as a
        character reference, besides nested references.  XmlDocument::new re-reads the replacement text of
        an entity referenced in content against the production `content`; by rung 2 ([syn_content]) the
        specification reads the same text and builds the translated tree, which it then expands
        recursively.  [markup_entities] asks of every declared internal general entity: every reference of
        the literal has a Name; when the replacement text is content for the parser, in that content
        (i) the names at the D04 positions are Names, (ii) the attributes of an element have DISTINCT
        NAMES AND VALUES WITHOUT ENTITY REFERENCES, (iii) every entity reference in content is a reference
        of the literal, (iv) every character reference is a legal character; and when the replacement
        text holds no `<`, re-read as an attribute value it is read to its end with (iii) and (iv).
        A `&` obtained from a character reference is therefore allowed when what it starts is legal:
        the usual <!ENTITY lt "&#38;#60;"> is covered.  These conditions fence off finding WF13 (the
        implementation looks for references in the literal, treats them all as references in content,
        and never checks constraints inside the markup of replacement text); they still exclude
        well-formed documents whose entity values contain tags with entity references in
        attribute values.  [markup_entities] and [simple_entities] are
        not comparable as stated (7 keeps its own theorem); [markup_hypotheses_satisfiable] is a document
        that (7) does not cover.

    (8) round 2 -- THE CONVERSE FOR DOCUMENTS WITHOUT DOCTYPE, so that (4) is tight:
          nodoctype_exactly_wellformed_partial :
            forall s, (wf s = true /\ spec_nodoctype s = true) <->
                      ((exists d, from_raw s = OOk ([], d)) /\ nodoctype s = true /\
                       KnownD04_nodoctype s = false /\ KnownNS s = false)
        ([spec_nodoctype s]: the specification's own parse of s has no document type declaration).
        On this class the model accepts EXACTLY the namespace-well-formed documents, outside the two
        findings; the half from right to left is (4), the half from left to right
        ([wellformed_nodoctype_is_accepted_partial], also re-exported by Properties/C01.v) says that
        the exclusions of (4) remove nothing that is well-formed.  Method (Proofs/XmlWFSyntaxConv*.v):
        inversion of every function of the specification's recursive descent, then the printer
        lemmas of C04 (`yields_*`, `parses_*`) and failure lemmas for the alternatives the PEG tries
        first ([fails_of_no_succ] derives failure from termination when only non-success is known);
        by induction on the fuel of the specification; the constraints by induction on the typed tree.

    (8') round 2 -- THE CONVERSE WITH A DOCTYPE, so that (7) is tight on simple entities:
          doctype_exactly_wellformed_partial :
            forall s, strict_cm s = true -> conv_hyps s = true ->
              (wf s = true <-> ((exists d, from_raw s = OOk ([], d)) /\ KnownD04_doc s = false /\ KnownNS s = false))
        On documents without external subset (or standalone), without parameter-entity declarations, with simple
        general entities and QNames inside content models (all decidable on the specification's parse:
        [conv_hyps], [strict_cm]; Properties/C01.v (j)), the model accepts EXACTLY the namespace-well-formed
        documents outside findings D04 and WFNS20-23.  The hypotheses are needed: each one fences off a
        difference in the OTHER direction (well-formed documents rejected), see Properties/C01.v (h), (i).

    Missing for the full conditional theorem
      forall s d, Known_C02 s = false -> from_raw s = OOk ([], d) -> wf s = true :
    entity values whose markup has entity references in attribute values, for which the
    statement needs the narrow classifier of WF13 (checks/C02.py) instead of [markup_entities] / [simple_entities].  Documents with a DOCTYPE are covered by the failing-input search of checks/C02.py
    (specification vs implementation, with expat as independent oracle of the specification). *)
From Coq Require Import List NArith Bool.
From XmlRs Require Import Base.CPred Spec.XmlChars Spec.XmlWF Model.Peg Gen.GrammarXmlGen Model.ParseActions Model.Info
  Proofs.NameLanguage Proofs.XmlWFLexical Proofs.XmlWFModel Proofs.ParseInvElem
  Proofs.XmlWFSyntaxLex Proofs.XmlWFSyntaxElem Proofs.XmlWFSyntaxDoc Proofs.XmlWFSyntaxCheck
  Proofs.XmlWFSyntaxDtd Proofs.XmlWFSyntaxDtdElem Proofs.XmlWFSyntaxDtdDoc Proofs.XmlWFSyntaxDtdCheck
  Proofs.XmlWFSyntaxEntRec Proofs.XmlWFSyntaxDtdFull Proofs.XmlWFSyntaxEntMarkup Proofs.XmlWFSyntaxDtdMarkup
  Proofs.XmlWFSyntaxConvLex Proofs.XmlWFSyntaxConvElem Proofs.XmlWFSyntaxConvDoc Proofs.XmlWFSyntaxConvCheck
  Proofs.XmlWFSyntaxConvDtdDoc Proofs.XmlWFSyntaxConvDtdCheck.
Import ListNotations.

(** ** (3) *)
Theorem wf_is_wf_xml10 : forall s, wf s = true -> wf_xml10 s = true.
Proof. exact wf_is_wf_xml10_aux. Qed.

(** ** (1) lexical rung: [rest_of (run G_xml R nt_p s)] is what production p of the real parser leaves
    unread ([None] when it fails), the right-hand sides are the recognisers of Spec/XmlWF.v *)
Theorem lex_S : forall f s, rest_of (denote G_xml f (Chars1 ws) s) = spec_S s.
Proof. exact S_language. Qed.
Theorem lex_Eq : forall s, rest_of (run G_xml R nt_eq s) = spec_Eq s.
Proof. exact eq_language. Qed.
Theorem lex_CharRef : forall s, rest_of (run G_xml R nt_char_ref s) = charref_rest s.
Proof. exact char_ref_language. Qed.
Theorem lex_CharRef_is_spec : forall u, spec_reference (38 :: 35 :: u)%N = charref_rest (38 :: 35 :: u)%N.
Proof. exact spec_reference_charref. Qed.
Theorem lex_CDSect : forall s, rest_of (run G_xml R nt_cdsect s) = spec_cdsect s.
Proof. exact cdsect_language. Qed.
Theorem lex_CharData : forall s, rest_of (run G_xml R nt_char_data s) = Some (spec_chardata s).
Proof. exact char_data_language. Qed.
Theorem lex_Comment : forall s, rest_of (run G_xml R nt_comment s) = spec_comment s.
Proof. exact comment_language. Qed.
Theorem lex_PI_except_D04 : forall s r0, prefix [60;63]%N s = Some r0 ->
  KnownD04 (fst (span NC r0)) = false -> rest_of (run G_xml R nt_pi s) = spec_pi s.
Proof. exact pi_language_except_D04. Qed.
Theorem lex_PI_refuted : exists s r, rest_of (run G_xml R nt_pi s) = Some r /\ spec_pi s = None.
Proof. exact pi_language_refuted. Qed.
Theorem lex_Reference_except_D04 : forall s, ref_D04 s = false ->
  rest_of (run G_xml R nt_reference s) = spec_reference s.
Proof. exact reference_language_except_D04. Qed.
Theorem lex_Reference_refuted : exists s r,
  rest_of (run G_xml R nt_reference s) = Some r /\ spec_reference s = None /\ ref_D04 s = true.
Proof. exact reference_language_refuted. Qed.
Theorem lex_AttValue_except_D04 : forall s, no_D04 s = true ->
  rest_of (run G_xml R nt_att_value s) = spec_attvalue s.
Proof. exact att_value_language_except_D04. Qed.
Theorem lex_AttValue_refuted : exists s r,
  rest_of (run G_xml R nt_att_value s) = Some r /\ spec_attvalue s = None /\ no_D04 s = false.
Proof. exact att_value_language_refuted. Qed.

(** the hypotheses are satisfiable by non-trivial strings *)
Example lex_nontrivial :
  rest_of (run G_xml R nt_comment [60;33;45;45;32;97;45;98;32;45;45;62;120]%N) = Some [120%N] /\
  no_D04 [34;97;38;108;116;59;38;35;120;52;49;59;34;62]%N = true /\
  rest_of (run G_xml R nt_att_value [34;97;38;108;116;59;38;35;120;52;49;59;34;62]%N) = Some [62%N].
Proof. repeat split; vm_compute; reflexivity. Qed.

(** ** the full statement is refuted on the model; the witnesses per finding *)
Theorem accepted_is_wellformed_refuted : ~ (forall s d, from_raw s = OOk ([], d) -> wf s = true).
Proof. exact XmlWFModel.accepted_is_wellformed_refuted. Qed.
Theorem refuted_by_D04 : exists s d, from_raw s = OOk ([], d) /\ wf_xml10 s = false.
Proof. exact accepted_is_wellformed_refuted_D04. Qed.
Theorem refuted_by_WF13 : exists s d, from_raw s = OOk ([], d) /\ wf_xml10 s = false.
Proof. exact accepted_is_wellformed_refuted_WF13. Qed.
Theorem refuted_by_namespace_constraints : forall w, In w [w_ns20; w_ns21; w_ns22; w_ns23] ->
  (exists d, from_raw w = OOk ([], d)) /\ wf_xml10 w = true /\ wf w = false.
Proof. exact accepted_is_wellformed_refuted_NS. Qed.

(** ** (2) *)
Theorem repaired_defects_are_rejected : forall x,
  In x [x_d01; x_d02; x_d05; x_d05e; x_d06; x_unparsed; x_extattr; x_recursion; x_undeclared_inner; x_unbalanced; x_pe_in_value] ->
  accepted x = false /\ wf_xml10 x = false.
Proof. exact repaired_defects_rejected. Qed.

(** ** (4) documents without a document type declaration: rungs 2 and 3, and the conditional theorem *)
Theorem syntax_nodoctype_partial : forall (s : str) (pd : pdoc),
  ParseActions.parse_document s = POk (pd, []) -> pr_declaration_doc (d_prolog pd) = None -> d04_doc_nodt pd = true ->
  Spec.XmlWF.parse_document s = Some (x_doc_nodt pd).
Proof. exact parse_document_syntax_nodoctype. Qed.

Theorem constraints_nodoctype_partial : forall (pd : pdoc) (d : document),
  p_element_ok (d_element pd) -> pr_declaration_doc (d_prolog pd) = None -> build_document pd = IOk d ->
  exists root, check_doc (x_doc_nodt pd) = inr root.
Proof. exact check_doc_nodoctype. Qed.

Theorem accepted_is_wf_xml10_nodoctype_partial : forall (s : str) (d : document),
  from_raw s = OOk ([], d) -> nodoctype s = true -> KnownD04_nodoctype s = false -> wf_xml10 s = true.
Proof. exact accepted_wf10_nodoctype. Qed.

Theorem accepted_is_wellformed_nodoctype_partial : forall (s : str) (d : document),
  from_raw s = OOk ([], d) -> nodoctype s = true -> KnownD04_nodoctype s = false -> KnownNS s = false -> wf s = true.
Proof. exact accepted_wf_nodoctype. Qed.

(** the hypothesis "no DOCTYPE" on the text, and on the infoset *)
Theorem accepted_is_wellformed_nodoctype_text_partial : forall (s : str) (d : document),
  from_raw s = OOk ([], d) -> find_sub s_doctype s = None -> KnownD04_nodoctype s = false -> KnownNS s = false -> wf s = true.
Proof. intros s d H Hf. apply (accepted_wf_nodoctype s d H). exact (nodoctype_of_text s d Hf H). Qed.

Theorem accepted_is_wellformed_nodoctype_infoset_partial : forall (s : str) (d : document),
  from_raw s = OOk ([], d) -> doc_doctype d = None -> KnownD04_nodoctype s = false -> KnownNS s = false -> wf s = true.
Proof. intros s d H Hd. apply (accepted_wf_nodoctype s d H). exact (doc_doctype_none s d H Hd). Qed.

(** non-vacuous: an XML declaration, a comment, attributes with references and a namespace declaration, a
    prefixed child, text, a predefined entity, a CDATA section and a PI *)
Example nodoctype_hypotheses_satisfiable :
  (exists d, from_raw ex_nodoctype = OOk ([], d)) /\ nodoctype ex_nodoctype = true /\ KnownD04_nodoctype ex_nodoctype = false
  /\ KnownNS ex_nodoctype = false /\ find_sub s_doctype ex_nodoctype = None.
Proof. exact nodoctype_nonvacuous. Qed.

(** ** (5) rung 2 (syntax) for EVERY document, with or without a document type declaration *)
Theorem syntax_partial : forall (s : str) (pd : pdoc),
  ParseActions.parse_document s = POk (pd, []) -> ok_doc pd = true -> Spec.XmlWF.parse_document s = Some (x_doc pd).
Proof. exact parse_document_syntax. Qed.

(** what the document's acceptance by XmlDocument::new adds: no parameter entities; the exclusion left is D04 *)
Theorem accepted_is_syntactically_wellformed_partial : forall (s : str) (d : document),
  from_raw s = OOk ([], d) -> KnownD04_doc s = false ->
  exists pd, ParseActions.parse_document s = POk (pd, []) /\ build_document pd = IOk d /\ Spec.XmlWF.parse_document s = Some (x_doc pd).
Proof. exact accepted_syntax. Qed.

Example doctype_hypotheses_satisfiable :
  (exists d, from_raw ex_doctype = OOk ([], d)) /\ KnownD04_doc ex_doctype = false /\ nodoctype ex_doctype = false.
Proof. exact accepted_syntax_nonvacuous. Qed.

(** ** (6) rungs 2 and 3 for documents WITH a document type declaration whose internal general entities
    have plain replacement text (Chars without `&`, `<`, `]]>`) *)
Theorem constraints_plain_partial : forall (pd : pdoc) (d : document),
  ParseInvDoc.p_doc_ok pd -> ok_doc pd = true -> plain_doc pd = true -> build_document pd = IOk d ->
  exists root, check_doc (x_doc pd) = inr root.
Proof. exact check_doc_plain. Qed.

Theorem accepted_is_wf_xml10_plain_partial : forall (s : str) (d : document),
  from_raw s = OOk ([], d) -> KnownD04_doc s = false -> plain_entities s = true -> wf_xml10 s = true.
Proof. exact accepted_wf10_plain. Qed.

Theorem accepted_is_wellformed_plain_partial : forall (s : str) (d : document),
  from_raw s = OOk ([], d) -> KnownD04_doc s = false -> plain_entities s = true -> KnownNS s = false -> wf s = true.
Proof. exact accepted_wf_plain. Qed.

Example plain_hypotheses_satisfiable :
  (exists d, from_raw ex_doctype = OOk ([], d)) /\ KnownD04_doc ex_doctype = false /\ plain_entities ex_doctype = true
  /\ KnownNS ex_doctype = false.
Proof.
  split; [exact (proj1 accepted_syntax_nonvacuous)|]. split; [exact (proj1 (proj2 accepted_syntax_nonvacuous))|].
  split; [exact (proj1 accepted_wf_plain_nonvacuous)|exact (proj1 (proj2 accepted_wf_plain_nonvacuous))].
Qed.

(** ** (7) the same with NESTED entity references: WFC No Recursion *)
Theorem model_recursion_check_is_sound : forall ents ext attr fuel seen e seen',
  lookup ents (en_name e) = Some e -> seen_inv ents ext attr seen ->
  check_entity_ref fuel ents ext attr seen e true = IOk seen' ->
  seen_inv ents ext attr seen' /\ exists h, goodb ents ext attr h e = true.
Proof. exact cer_sound. Qed.

Theorem constraints_simple_partial : forall (pd : pdoc) (d : document),
  ParseInvDoc.p_doc_ok pd -> ok_doc pd = true -> simple_doc pd = true -> build_document pd = IOk d ->
  exists root, check_doc (x_doc pd) = inr root.
Proof. exact check_doc_simple. Qed.

Theorem accepted_is_wf_xml10_simple_partial : forall (s : str) (d : document),
  from_raw s = OOk ([], d) -> KnownD04_doc s = false -> simple_entities s = true -> wf_xml10 s = true.
Proof. exact accepted_wf10_simple. Qed.

Theorem accepted_is_wellformed_simple_partial : forall (s : str) (d : document),
  from_raw s = OOk ([], d) -> KnownD04_doc s = false -> simple_entities s = true -> KnownNS s = false -> wf s = true.
Proof. exact accepted_wf_simple. Qed.

Example simple_hypotheses_satisfiable :
  (exists d, from_raw ex_nested = OOk ([], d)) /\ KnownD04_doc ex_nested = false /\ simple_entities ex_nested = true
  /\ plain_entities ex_nested = false /\ KnownNS ex_nested = false.
Proof. exact accepted_wf_simple_nonvacuous. Qed.

(** ** (7') entity values with markup *)
Theorem constraints_markup_partial : forall (pd : pdoc) (d : document), ParseInvDoc.p_doc_ok pd -> ok_doc pd = true -> markup_doc pd = true ->
  build_document pd = IOk d -> exists root, check_doc (x_doc pd) = inr root.
Proof. exact check_doc_markup. Qed.

Theorem accepted_is_wf_xml10_markup_partial : forall s d,
  from_raw s = OOk ([], d) -> KnownD04_doc s = false -> markup_entities s = true -> wf_xml10 s = true.
Proof. exact accepted_wf10_markup. Qed.

Theorem accepted_is_wellformed_markup_partial : forall s d,
  from_raw s = OOk ([], d) -> KnownD04_doc s = false -> markup_entities s = true -> KnownNS s = false -> wf s = true.
Proof. exact accepted_wf_markup. Qed.

Example markup_hypotheses_satisfiable :
  (exists d, from_raw ex_markup = OOk ([], d)) /\ KnownD04_doc ex_markup = false /\ markup_entities ex_markup = true
  /\ simple_entities ex_markup = false /\ KnownNS ex_markup = false.
Proof. exact accepted_wf_markup_nonvacuous. Qed.

Print Assumptions constraints_markup_partial.
Print Assumptions accepted_is_wf_xml10_markup_partial.
Print Assumptions accepted_is_wellformed_markup_partial.

(** ** (8) the converse for documents without DOCTYPE *)
Theorem wellformed_nodoctype_is_accepted_partial : forall s, wf s = true -> spec_nodoctype s = true ->
  exists d, from_raw s = OOk ([], d) /\ nodoctype s = true /\ KnownD04_nodoctype s = false.
Proof. exact wf_nodoctype_accepted. Qed.

Theorem nodoctype_exactly_wellformed_partial : forall s,
  (wf s = true /\ spec_nodoctype s = true) <->
  ((exists d, from_raw s = OOk ([], d)) /\ nodoctype s = true /\ KnownD04_nodoctype s = false /\ KnownNS s = false).
Proof. exact nodoctype_language. Qed.

Theorem doctype_exactly_wellformed_partial : forall s, strict_cm s = true -> conv_hyps s = true ->
  (wf s = true <-> ((exists d, from_raw s = OOk ([], d)) /\ KnownD04_doc s = false /\ KnownNS s = false)).
Proof. exact doctype_language. Qed.

Print Assumptions doctype_exactly_wellformed_partial.
Print Assumptions wellformed_nodoctype_is_accepted_partial.
Print Assumptions nodoctype_exactly_wellformed_partial.
Print Assumptions wf_is_wf_xml10.
Print Assumptions model_recursion_check_is_sound.
Print Assumptions constraints_simple_partial.
Print Assumptions accepted_is_wf_xml10_simple_partial.
Print Assumptions accepted_is_wellformed_simple_partial.
Print Assumptions constraints_plain_partial.
Print Assumptions accepted_is_wf_xml10_plain_partial.
Print Assumptions accepted_is_wellformed_plain_partial.
Print Assumptions syntax_partial.
Print Assumptions accepted_is_syntactically_wellformed_partial.
Print Assumptions syntax_nodoctype_partial.
Print Assumptions constraints_nodoctype_partial.
Print Assumptions accepted_is_wf_xml10_nodoctype_partial.
Print Assumptions accepted_is_wellformed_nodoctype_partial.
Print Assumptions accepted_is_wellformed_nodoctype_text_partial.
Print Assumptions accepted_is_wellformed_nodoctype_infoset_partial.
Print Assumptions lex_Comment.
Print Assumptions lex_CharData.
Print Assumptions lex_CDSect.
Print Assumptions lex_CharRef.
Print Assumptions lex_PI_except_D04.
Print Assumptions lex_Reference_except_D04.
Print Assumptions lex_AttValue_except_D04.
Print Assumptions accepted_is_wellformed_refuted.
Print Assumptions repaired_defects_are_rejected.
