(** * C10, part 3: whole documents -- the per-element observations and the selection by a name test;
      invariance under consistent prefix renaming of the document and of the expression. *)
From Coq Require Import List NArith Bool Lia.
From XmlRs Require Import Base.CPred Spec.AttrNorm Spec.Namespaces Model.NsModel
  Proofs.AttrNormProofs Proofs.NamespacesScope Proofs.NamespacesNames.
Import ListNotations.
Open Scope N_scope.

(** ** induction on rose trees *)
Fixpoint tree_ind' (P : tree -> Prop) (H : forall x kids, Forall P kids -> P (Node x kids)) (t : tree) : P t :=
  match t with
  | Node x kids =>
      H x kids ((fix go (l : list tree) : Forall P l :=
                   match l with [] => Forall_nil P | k :: r => Forall_cons k (tree_ind' P H k) (go r) end) kids)
  end.

(** ** the top-down specification visits the ancestor chains *)
Definition obs_of_chain (c : list elem) : list elem_obs := opt_list (spec_obs c).

Lemma spec_doc_chains t : forall up,
  spec_doc_env (env_of up) t = flat_map obs_of_chain (chains up t).
Proof.
  induction t as [x kids IH] using tree_ind'. intros up. cbn [spec_doc_env chains flat_map].
  change (el_decls x ++ env_of up) with (env_of (x :: up)).
  unfold obs_of_chain at 1. cbn [spec_obs opt_list app]. f_equal.
  induction IH as [|k r Hk _ IHr]; [reflexivity|]. cbn [flat_map]. rewrite flat_map_app, <- IHr, Hk. reflexivity.
Qed.

Lemma spec_doc_flat t : spec_doc t = flat_map obs_of_chain (chains [] t).
Proof. exact (spec_doc_chains t []). Qed.

Lemma chains_ok t : forall up, tree_ok t = true -> chain_ok up = true ->
  Forall (fun c => chain_ok c = true /\ c <> []) (chains up t).
Proof.
  induction t as [x kids IH] using tree_ind'. intros up Ht Hup. cbn [tree_ok] in Ht.
  apply andb_prop in Ht as [Hx Hk]. cbn [chains].
  assert (Hc : chain_ok (x :: up) = true) by (cbn [chain_ok forallb]; rewrite Hx; exact Hup).
  constructor; [split; [exact Hc|discriminate]|].
  rewrite forallb_forall in Hk. rewrite Forall_forall in IH. apply Forall_forall. intros c Hcin.
  apply in_flat_map in Hcin as (k & Hkin & Hcin).
  specialize (IH k Hkin (x :: up) (Hk k Hkin) Hc). rewrite Forall_forall in IH. exact (IH c Hcin).
Qed.

(** ** namespace-well-formed: every name resolves *)
Definition obs_resolved (o : elem_obs) : bool :=
  match eo_name o with Some _ => true | None => false end
  && forallb (fun qa => match snd qa with Some _ => true | None => false end) (eo_attrs o).
Definition doc_nswf (t : tree) : bool := forallb obs_resolved (spec_doc t).

Lemma map_filter_map_ext {A B C D} (h : A -> B) (h' : A -> C) (g : B -> bool) (g' : C -> bool)
      (f : B -> D) (f' : C -> D) l :
  (forall x, In x l -> g (h x) = g' (h' x) /\ f (h x) = f' (h' x)) ->
  map f (filter g (map h l)) = map f' (filter g' (map h' l)).
Proof.
  induction l as [|x r IH]; intros H; [reflexivity|]. cbn [map filter].
  destruct (H x (or_introl eq_refl)) as [Hg Hf]. rewrite <- Hg.
  assert (IH' := IH (fun y (Hy : In y r) => H y (or_intror Hy))).
  destruct (g (h x)); cbn [map]; rewrite ?Hf, IH'; reflexivity.
Qed.

Lemma matches_refines b t n : NoDup (map fst b) -> m_matches (m_ctx_of b) t n = matches b t n.
Proof. intros H. destruct n as [n|]; [|reflexivity]. cbn [m_matches matches]. rewrite name_test_refines by exact H. reflexivity. Qed.

(** one element: what the model selects is what the specification selects *)
Lemma select_one b t (attrs : bool) k x up : NoDup (map fst b) -> chain_ok (x :: up) = true ->
  obs_resolved (spec_obs_env (env_of (x :: up)) x) = true ->
  (if attrs then map (fun qa : qname * ename * ename => RAttr k (fst (fst qa)))
                     (filter (fun qa => m_matches (m_ctx_of b) t (Some (snd (fst qa))))
                             (map (fun q => (q, m_attr_dom (x :: up) q, m_attr_info (x :: up) q)) (el_attrs x)))
   else if m_matches (m_ctx_of b) t (m_elem_dom (x :: up)) then [RElem k] else [])
  = (if attrs then map (fun qa : qname * option ename => RAttr k (fst qa))
                       (filter (fun qa => matches b t (snd qa))
                               (map (fun q => (q, resolve_attr (env_of (x :: up)) q)) (el_attrs x)))
     else if matches b t (resolve_elem (env_of (x :: up)) (el_name x)) then [RElem k] else []).
Proof.
  intros Hb Hok Hres. unfold obs_resolved in Hres. cbn [spec_obs_env eo_name eo_attrs] in Hres.
  apply andb_prop in Hres as [Hn Ha]. destruct attrs.
  - apply map_filter_map_ext. intros q Hq. cbn [fst snd].
    rewrite forallb_forall in Ha.
    specialize (Ha (q, resolve_attr (env_of (x :: up)) q)).
    rewrite in_map_iff in Ha. specialize (Ha (ex_intro _ q (conj eq_refl Hq))). cbn [snd] in Ha.
    destruct (resolve_attr (env_of (x :: up)) q) as [en|] eqn:Er; [|discriminate].
    destruct (attr_name_refines x up q en Hok Hq Er) as [-> _].
    rewrite matches_refines by exact Hb. auto.
  - destruct (resolve_elem (env_of (x :: up)) (el_name x)) as [en|] eqn:Er; [|discriminate].
    destruct (elem_name_refines x up en Hok Er) as [-> _]. rewrite matches_refines by exact Hb. reflexivity.
Qed.

Lemma select_chains b t attrs L : NoDup (map fst b) ->
  Forall (fun c => chain_ok c = true /\ c <> []) L ->
  forallb obs_resolved (flat_map obs_of_chain L) = true ->
  forall k, m_select_from (m_ctx_of b) t attrs k (map model_obs L) = select_from b t attrs k (flat_map obs_of_chain L).
Proof.
  intros Hb HL. induction HL as [|c r [Hc Hne] _ IH]; intros Hres k; [reflexivity|].
  destruct c as [|x up]; [congruence|]. cbn [map flat_map] in *.
  unfold obs_of_chain at 1 in Hres. unfold obs_of_chain at 1. cbn [spec_obs opt_list app] in *.
  cbn [forallb] in Hres. apply andb_prop in Hres as [Hx Hr].
  cbn [model_obs m_select_from select_from mo_attrs mo_dom spec_obs_env eo_attrs eo_name].
  rewrite (select_one b t attrs k x up Hb Hc Hx). f_equal. apply IH. exact Hr.
Qed.

Lemma test_ok_refines b t : NoDup (map fst b) -> m_test_ok (m_ctx_of b) t = test_ok b t.
Proof.
  intros H. destruct t as [|p|[p|] l]; cbn [m_test_ok test_ok]; try reflexivity; rewrite ctx_lookup by exact H; reflexivity.
Qed.

(** *** selection by a name test: model = specification on namespace-well-formed documents *)
Theorem select_refines_proof : forall b t attrs d,
  NoDup (map fst b) -> tree_ok d = true -> doc_nswf d = true -> test_ok b t = true ->
  model_select b t attrs d = spec_select b t attrs d.
Proof.
  intros b t attrs d Hb Hd Hn Ht. unfold model_select, spec_select.
  rewrite test_ok_refines by exact Hb. rewrite Ht. cbn [orb]. f_equal.
  unfold model_doc. rewrite spec_doc_flat. unfold doc_nswf in Hn. rewrite spec_doc_flat in Hn.
  apply select_chains; [exact Hb| |exact Hn]. apply chains_ok; [exact Hd|reflexivity].
Qed.

(** *** the per-element dump: names agree, scopes are the same sets *)
Theorem doc_refines_proof : forall d, tree_ok d = true ->
  Forall (fun c =>
    match c with
    | x :: up =>
        (forall en, resolve_elem (env_of c) (el_name x) = Some en -> m_elem_dom c = Some en /\ m_elem_info c = Some en) /\
        (forall q en, In q (el_attrs x) -> resolve_attr (env_of c) q = Some en -> m_attr_dom c q = en /\ m_attr_info c q = en) /\
        NoDup (map fst (m_in_scope c)) /\
        (forall p u, In (p, u) (m_in_scope c) <-> In (p, u) (in_scope (env_of c)))
    | [] => False
    end) (chains [] d).
Proof.
  intros d Hd. pose proof (chains_ok d [] Hd eq_refl) as H. rewrite Forall_forall in *. intros c Hc.
  destruct (H c Hc) as [Hok Hne]. destruct c as [|x up]; [congruence|]. repeat split.
  - apply (elem_name_refines x up en Hok). assumption.
  - apply (elem_name_refines x up en Hok). assumption.
  - apply (attr_name_refines x up q en Hok); assumption.
  - apply (attr_name_refines x up q en Hok); assumption.
  - apply (in_scope_refines_proof (x :: up) Hne Hok).
  - apply (in_scope_refines_proof (x :: up) Hne Hok).
  - apply (in_scope_refines_proof (x :: up) Hne Hok).
Qed.

(** ** renaming the prefixes of the expression and of the caller's bindings *)
Lemma str_eqb_inj (f : str -> str) ps a b : injective_on f ps -> In a ps -> In b ps ->
  str_eqb (f a) (f b) = str_eqb a b.
Proof.
  intros H Ha Hb. destruct (str_eqb a b) eqn:E.
  - apply str_eqb_eq in E. subst. apply str_eqb_refl.
  - destruct (str_eqb (f a) (f b)) eqn:E2; [|reflexivity]. apply str_eqb_eq in E2.
    rewrite (H a b Ha Hb E2), str_eqb_refl in E. discriminate.
Qed.

Lemma binding_rn f b p ps : injective_on f ps -> incl (map fst b) ps -> In p ps ->
  binding (rn_bindings f b) (f p) = binding b p.
Proof.
  intros Hf Hb Hp. induction b as [|(q, u) r IH]; [reflexivity|]. cbn [rn_bindings map binding fst snd].
  rewrite (str_eqb_inj f ps q p Hf); [|apply Hb; left; reflexivity|exact Hp].
  destruct (str_eqb q p); [reflexivity|]. apply IH. intros x Hx. apply Hb. right. exact Hx.
Qed.

Theorem name_test_rn : forall f b t n, injective_on f (map fst b ++ test_prefixes t) ->
  name_test (rn_bindings f b) (rn_test f t) n = name_test b t n.
Proof.
  intros f b t n Hf. set (ps := map fst b ++ test_prefixes t) in *.
  assert (Hb : incl (map fst b) ps) by (intros x Hx; apply in_or_app; left; exact Hx).
  destruct t as [|p|[p|] l]; cbn [rn_test name_test option_map]; try reflexivity.
  - rewrite (binding_rn f b p ps Hf Hb); [reflexivity|]. apply in_or_app. right. left. reflexivity.
  - rewrite (binding_rn f b p ps Hf Hb); [reflexivity|]. apply in_or_app. right. left. reflexivity.
Qed.

Lemma select_from_ext b1 t1 b2 t2 attrs l : (forall n, name_test b1 t1 n = name_test b2 t2 n) ->
  forall k, select_from b1 t1 attrs k l = select_from b2 t2 attrs k l.
Proof.
  intros H. assert (Hm : forall n, matches b1 t1 n = matches b2 t2 n).
  { intros [n|]; [|reflexivity]. cbn [matches]. rewrite H. reflexivity. }
  induction l as [|o r IH]; intros k; [reflexivity|]. cbn [select_from]. rewrite IH. f_equal.
  destruct attrs; [|rewrite Hm; reflexivity]. f_equal. apply filter_ext. intros qa. apply Hm.
Qed.

Theorem expr_prefix_renaming_proof : forall f b t attrs d,
  injective_on f (map fst b ++ test_prefixes t) ->
  spec_select (rn_bindings f b) (rn_test f t) attrs d = spec_select b t attrs d.
Proof.
  intros f b t attrs d Hf. unfold spec_select.
  assert (Hok : test_ok (rn_bindings f b) (rn_test f t) = test_ok b t).
  { set (ps := map fst b ++ test_prefixes t) in *.
    assert (Hb : incl (map fst b) ps) by (intros x Hx; apply in_or_app; left; exact Hx).
    destruct t as [|p|[p|] l]; cbn [rn_test test_ok option_map]; try reflexivity;
      rewrite (binding_rn f b p ps Hf Hb); try reflexivity; apply in_or_app; right; left; reflexivity. }
  rewrite Hok. destruct (test_ok b t); [|reflexivity]. f_equal.
  apply select_from_ext. intros n. apply name_test_rn. exact Hf.
Qed.

(** ** renaming the prefixes of the document *)
Definition env_strs (e : env) : list str := flat_map (fun d => opt_list (fst d)) e.

Lemma prefix_eqb_rn f ps (a b : prefix) : injective_on f ps ->
  incl (opt_list a) ps -> incl (opt_list b) ps ->
  prefix_eqb (rn_prefix f a) (rn_prefix f b) = prefix_eqb a b.
Proof.
  intros Hf Ha Hb. destruct a as [s|], b as [t|]; cbn [rn_prefix option_map prefix_eqb]; try reflexivity.
  apply (str_eqb_inj f ps); [exact Hf|apply Ha; left; reflexivity|apply Hb; left; reflexivity].
Qed.

Lemma assoc_rn f ps (e : env) (p : prefix) : injective_on f ps ->
  incl (env_strs e) ps -> incl (opt_list p) ps ->
  assoc (map (rn_decl f) e) (rn_prefix f p) = assoc e p.
Proof.
  intros Hf He Hp. induction e as [|(q, u) r IH]; [reflexivity|]. cbn [map rn_decl assoc fst snd].
  rewrite (prefix_eqb_rn f ps q p Hf); [| |exact Hp].
  - destruct (prefix_eqb q p); [reflexivity|]. apply IH. intros x Hx. apply He. cbn [env_strs flat_map fst].
    apply in_or_app. right. exact Hx.
  - intros x Hx. apply He. cbn [env_strs flat_map fst]. apply in_or_app. left. exact Hx.
Qed.

Lemma lookup_rn f ps (e : env) (p : prefix) : injective_on f ps ->
  incl (env_strs e) ps -> incl (opt_list p) ps ->
  ns_lookup (map (rn_decl f) e) (rn_prefix f p) = ns_lookup e p.
Proof. intros Hf He Hp. unfold ns_lookup. rewrite (assoc_rn f ps e p Hf He Hp). reflexivity. Qed.

Lemma resolve_elem_rn f ps e q : injective_on f ps -> incl (env_strs e) ps -> incl (opt_list (qn_prefix q)) ps ->
  resolve_elem (map (rn_decl f) e) (rn_qname f q) = resolve_elem e q.
Proof.
  intros Hf He Hq. unfold resolve_elem. cbn [rn_qname qn_prefix qn_local].
  destruct (qn_prefix q) as [p|] eqn:E; cbn [rn_prefix option_map].
  - change (Some (f p)) with (rn_prefix f (Some p)). rewrite (lookup_rn f ps e (Some p) Hf He Hq). reflexivity.
  - change (@None str) with (rn_prefix f None) at 1. rewrite (lookup_rn f ps e None Hf He); [reflexivity|intros x []].
Qed.

Lemma resolve_attr_rn f ps e q : injective_on f ps -> incl (env_strs e) ps -> incl (opt_list (qn_prefix q)) ps ->
  resolve_attr (map (rn_decl f) e) (rn_qname f q) = resolve_attr e q.
Proof.
  intros Hf He Hq. unfold resolve_attr. cbn [rn_qname qn_prefix qn_local].
  destruct (qn_prefix q) as [p|] eqn:E; cbn [rn_prefix option_map]; [|reflexivity].
  change (Some (f p)) with (rn_prefix f (Some p)). rewrite (lookup_rn f ps e (Some p) Hf He Hq). reflexivity.
Qed.

(** the renamed observation: same expanded names, attribute names renamed *)
Definition strip (o : elem_obs) : option ename * list (qname * option ename) := (eo_name o, eo_attrs o).
Definition rn_strip (f : str -> str) (o : elem_obs) : option ename * list (qname * option ename) :=
  (eo_name o, map (fun qa => (rn_qname f (fst qa), snd qa)) (eo_attrs o)).

Lemma env_strs_app a b : env_strs (a ++ b) = env_strs a ++ env_strs b.
Proof. unfold env_strs. apply flat_map_app. Qed.

Lemma spec_doc_env_rn f ps t : injective_on f ps -> forall e,
  incl (env_strs e) ps -> incl (tree_prefixes t) ps ->
  map strip (spec_doc_env (map (rn_decl f) e) (rn_tree f t)) = map (rn_strip f) (spec_doc_env e t).
Proof.
  intros Hf. induction t as [x kids IH] using tree_ind'. intros e He Ht.
  cbn [rn_tree spec_doc_env map]. cbn [rn_elem el_decls]. rewrite <- map_app.
  assert (Hx : incl (elem_prefixes x) ps).
  { intros p Hp. apply Ht. cbn [tree_prefixes]. apply in_or_app. left. exact Hp. }
  assert (He' : incl (env_strs (el_decls x ++ e)) ps).
  { rewrite env_strs_app. intros p Hp. apply in_app_or in Hp as [Hp|Hp]; [|exact (He p Hp)].
    apply Hx. unfold elem_prefixes. apply in_or_app. right. apply in_or_app. left. exact Hp. }
  f_equal.
  - unfold strip, rn_strip, spec_obs_env. cbn [eo_name eo_attrs rn_elem el_name el_attrs]. f_equal.
    + apply (resolve_elem_rn f ps); [exact Hf|exact He'|]. intros p Hp. apply Hx. unfold elem_prefixes.
      apply in_or_app. left. exact Hp.
    + rewrite !map_map. apply map_ext_in. intros q Hq. cbn [fst snd]. f_equal.
      apply (resolve_attr_rn f ps); [exact Hf|exact He'|]. intros p Hp. apply Hx. unfold elem_prefixes.
      apply in_or_app. right. apply in_or_app. right. apply in_flat_map. exists q. auto.
  - assert (Hk : forall k, In k kids -> incl (tree_prefixes k) ps).
    { intros k Hkin p Hp. apply Ht. cbn [tree_prefixes]. apply in_or_app. right. apply in_flat_map. exists k. auto. }
    clear Ht. induction IH as [|k r Hkk _ IHr]; [reflexivity|].
    pose proof (Hkk (el_decls x ++ e) He' (Hk k (or_introl eq_refl))) as Hk1.
    assert (Hr1 := IHr (fun k' Hk' => Hk k' (or_intror Hk'))).
    set (E' := map (rn_decl f) (el_decls x ++ e)) in *. set (E0 := el_decls x ++ e) in *.
    cbn [map flat_map]. rewrite !map_app, Hk1, Hr1. reflexivity.
Qed.

Lemma consistent_init f ps : consistent f ps -> map (rn_decl f) init_env = init_env.
Proof. intros [H _]. change (map (rn_decl f) init_env) with [(Some (f p_xml), xml_ns)]. rewrite H. reflexivity. Qed.

(** *** expanded names do not depend on the prefixes chosen in the document *)
Theorem doc_prefix_renaming_proof : forall f d, consistent f (tree_prefixes d) ->
  map strip (spec_doc (rn_tree f d)) = map (rn_strip f) (spec_doc d).
Proof.
  intros f d Hc. unfold spec_doc.
  replace (spec_doc_env init_env (rn_tree f d)) with (spec_doc_env (map (rn_decl f) init_env) (rn_tree f d))
    by (rewrite (consistent_init f _ Hc); reflexivity).
  apply (spec_doc_env_rn f (p_xml :: tree_prefixes d)).
  - intros p q Hp Hq. apply (proj2 Hc p q Hp Hq).
  - intros p Hp. cbn in Hp. destruct Hp as [<-|[]]. left. reflexivity.
  - intros p Hp. right. exact Hp.
Qed.

Definition rn_ref (f : str -> str) (r : noderef) : noderef :=
  match r with RElem k => RElem k | RAttr k q => RAttr k (rn_qname f q) end.

Lemma select_from_strip f b t attrs l l' : map strip l' = map (rn_strip f) l ->
  forall k, select_from b t attrs k l' = map (rn_ref f) (select_from b t attrs k l).
Proof.
  revert l'. induction l as [|o r IH]; intros [|o' r'] H k; try discriminate; [reflexivity|].
  cbn [map] in H. injection H as Hn Ha Hr.
  cbn [select_from]. rewrite map_app, (IH r' Hr). f_equal. rewrite Hn, Ha. destruct attrs.
  - rewrite map_map. clear Ha. generalize (eo_attrs o). intros l1.
    induction l1 as [|qa l0 IHl]; [reflexivity|]. cbn [map filter snd fst].
    destruct (matches b t (snd qa)); cbn [map rn_ref fst]; rewrite IHl; reflexivity.
  - destruct (matches b t (eo_name o)); reflexivity.
Qed.

Theorem doc_prefix_renaming_select_proof : forall f b t attrs d, consistent f (tree_prefixes d) ->
  spec_select b t attrs (rn_tree f d) = option_map (map (rn_ref f)) (spec_select b t attrs d).
Proof.
  intros f b t attrs d Hc. unfold spec_select. destruct (test_ok b t); [|reflexivity]. cbn [option_map]. f_equal.
  apply select_from_strip. apply doc_prefix_renaming_proof. exact Hc.
Qed.

Lemma forallb_map' {A B} (g : B -> bool) (h : A -> B) l : forallb g (map h l) = forallb (fun x => g (h x)) l.
Proof. induction l as [|x r IH]; [reflexivity|]. cbn [map forallb]. rewrite IH. reflexivity. Qed.

Lemma nswf_rn f d : consistent f (tree_prefixes d) -> doc_nswf (rn_tree f d) = doc_nswf d.
Proof.
  intros Hc. unfold doc_nswf. pose proof (doc_prefix_renaming_proof f d Hc) as H.
  revert H. generalize (spec_doc (rn_tree f d)), (spec_doc d). intros l' l. revert l'.
  induction l as [|o r IH]; intros [|o' r'] H; try discriminate; [reflexivity|].
  cbn [map] in H. injection H as Hn Ha Hr.
  cbn [forallb]. rewrite (IH r' Hr). f_equal. unfold obs_resolved. rewrite Hn, Ha. f_equal.
  rewrite forallb_map'. reflexivity.
Qed.

(** *** transported to the model *)
Theorem model_doc_renaming_proof : forall f b t attrs d,
  NoDup (map fst b) -> test_ok b t = true ->
  tree_ok d = true -> tree_ok (rn_tree f d) = true -> doc_nswf d = true ->
  consistent f (tree_prefixes d) ->
  model_select b t attrs (rn_tree f d) = option_map (map (rn_ref f)) (model_select b t attrs d).
Proof.
  intros f b t attrs d Hb Ht Hd Hd' Hn Hc.
  rewrite (select_refines_proof b t attrs (rn_tree f d) Hb Hd') by (try rewrite nswf_rn; assumption).
  rewrite (select_refines_proof b t attrs d Hb Hd Hn Ht).
  apply doc_prefix_renaming_select_proof. exact Hc.
Qed.

Lemma rn_bindings_fst f b : map fst (rn_bindings f b) = map f (map fst b).
Proof. unfold rn_bindings. rewrite !map_map. reflexivity. Qed.

Lemma nodup_map_inj {A B} (f : A -> B) l : (forall a b, In a l -> In b l -> f a = f b -> a = b) -> NoDup l -> NoDup (map f l).
Proof.
  intros Hf H. induction H as [|x r Hx Hr IH]; [constructor|]. cbn [map]. constructor.
  - intros Hin. apply in_map_iff in Hin as (y & E & Hy). apply Hx.
    rewrite <- (Hf y x (or_intror Hy) (or_introl eq_refl) E). exact Hy.
  - apply IH. intros a b Ha Hb. apply Hf; right; assumption.
Qed.

Theorem model_expr_renaming_proof : forall f b t attrs d,
  NoDup (map fst b) -> test_ok b t = true -> tree_ok d = true -> doc_nswf d = true ->
  injective_on f (map fst b ++ test_prefixes t) ->
  model_select (rn_bindings f b) (rn_test f t) attrs d = model_select b t attrs d.
Proof.
  intros f b t attrs d Hb Ht Hd Hn Hf.
  assert (Hb' : NoDup (map fst (rn_bindings f b))).
  { rewrite rn_bindings_fst. apply nodup_map_inj; [|exact Hb].
    intros x y Hx Hy. apply Hf; apply in_or_app; left; assumption. }
  assert (Ht' : test_ok (rn_bindings f b) (rn_test f t) = true).
  { pose proof (expr_prefix_renaming_proof f b t attrs d Hf) as H. unfold spec_select in H.
    rewrite Ht in H. destruct (test_ok (rn_bindings f b) (rn_test f t)); [reflexivity|discriminate]. }
  rewrite (select_refines_proof _ _ attrs d Hb' Hd Hn Ht'), (select_refines_proof b t attrs d Hb Hd Hn Ht).
  apply expr_prefix_renaming_proof. exact Hf.
Qed.
