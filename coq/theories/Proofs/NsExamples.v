(** * C10: sanity facts about the specification, and non-trivial values satisfying the hypotheses. *)
From Coq Require Import List NArith Bool Lia.
From XmlRs Require Import Base.CPred Spec.AttrNorm Spec.Namespaces Model.NsModel
  Proofs.AttrNormProofs Proofs.NamespacesScope Proofs.NamespacesNames Proofs.NamespacesDoc.
Import ListNotations.
Open Scope N_scope.

(** ** what the sentences of the property say, as facts about the specification *)
Lemma default_not_for_attributes_proof : forall e l, resolve_attr e {| qn_prefix := None; qn_local := l |} = Some (l, None).
Proof. reflexivity. Qed.

Lemma default_for_elements_proof : forall e l, resolve_elem e {| qn_prefix := None; qn_local := l |} = Some (l, ns_lookup e None).
Proof. reflexivity. Qed.

Lemma undeclare_default_proof : forall e, ns_lookup ((None, []) :: e) None = None.
Proof. reflexivity. Qed.

Lemma nearest_declaration_proof : forall p u decls outer, ns_lookup ((Some p, u) :: decls ++ outer) (Some p) = match u with [] => None | _ => Some u end.
Proof. intros. unfold ns_lookup. cbn [assoc prefix_eqb]. rewrite str_eqb_refl. destruct u; reflexivity. Qed.

Lemma xml_always_bound_proof : forall chain,
  (forall x, In x chain -> ~ In (Some p_xml) (map fst (el_decls x))) ->
  ns_lookup (env_of chain) (Some p_xml) = Some xml_ns.
Proof.
  induction chain as [|x up IH]; intros H; [reflexivity|]. cbn [env_of]. unfold ns_lookup. rewrite assoc_app.
  assert (Hx : assoc (el_decls x) (Some p_xml) = None).
  { apply assoc_none, has_prefix_false. apply H. left. reflexivity. }
  rewrite Hx. apply IH. intros y Hy. apply H. right. exact Hy.
Qed.

Lemma inherited_proof : forall x up p, assoc (el_decls x) p = None -> ns_lookup (env_of (x :: up)) p = ns_lookup (env_of up) p.
Proof. intros x up p H. unfold ns_lookup. cbn [env_of]. rewrite assoc_app, H. reflexivity. Qed.

(** ** a document with shadowing, undeclaration, an attribute under a default namespace, xml:lang
    <a xmlns="d" xmlns:p="u" y="1"><b xmlns="" p:z="2"><p:c xmlns:p="v" xml:lang="en" w="3"/></b><p:e/></a> *)
Definition s_a : str := [97].  Definition s_b : str := [98].  Definition s_c : str := [99].
Definition s_d : str := [100]. Definition s_e : str := [101]. Definition s_p : str := [112].
Definition s_q : str := [113]. Definition s_u : str := [117]. Definition s_v : str := [118].
Definition s_w : str := [119]. Definition s_y : str := [121]. Definition s_z : str := [122].
Definition s_lang : str := [108; 97; 110; 103].
Definition qn (p : option str) (l : str) : qname := {| qn_prefix := p; qn_local := l |}.

Definition ex_doc : tree :=
  Node {| el_name := qn None s_a; el_decls := [(None, s_d); (Some s_p, s_u)]; el_attrs := [qn None s_y] |}
    [ Node {| el_name := qn None s_b; el_decls := [(None, [])]; el_attrs := [qn (Some s_p) s_z] |}
        [ Node {| el_name := qn (Some s_p) s_c; el_decls := [(Some s_p, s_v)];
                  el_attrs := [qn (Some p_xml) s_lang; qn None s_w] |} [] ];
      Node {| el_name := qn (Some s_p) s_e; el_decls := []; el_attrs := [] |} [] ].

Example ex_doc_ok : tree_ok ex_doc = true /\ doc_nswf ex_doc = true.
Proof. split; vm_compute; reflexivity. Qed.

Example ex_doc_names :
  map strip (spec_doc ex_doc) =
  [ (Some (s_a, Some s_d), [(qn None s_y, Some (s_y, None))]);
    (Some (s_b, None), [(qn (Some s_p) s_z, Some (s_z, Some s_u))]);
    (Some (s_c, Some s_v), [(qn (Some p_xml) s_lang, Some (s_lang, Some xml_ns)); (qn None s_w, Some (s_w, None))]);
    (Some (s_e, Some s_u), []) ].
Proof. vm_compute. reflexivity. Qed.

Example ex_doc_scope_b :
  map eo_scope (spec_doc ex_doc) =
  [ [(None, s_d); (Some s_p, s_u); (Some p_xml, xml_ns)];
    [(Some s_p, s_u); (Some p_xml, xml_ns)];
    [(Some s_p, s_v); (Some p_xml, xml_ns)];
    [(None, s_d); (Some s_p, s_u); (Some p_xml, xml_ns)] ].
Proof. vm_compute. reflexivity. Qed.

(** [//q:*] with q bound to u selects e (rank 3) only; [//@q:z] selects p:z of b *)
Example ex_select :
  spec_select [(s_q, s_u)] (NTPrefixAny s_q) false ex_doc = Some [RElem 3] /\
  spec_select [(s_q, s_u)] (NTName (Some s_q) s_z) true ex_doc = Some [RAttr 1 (qn (Some s_p) s_z)] /\
  spec_select [] (NTName None s_y) true ex_doc = Some [RAttr 0 (qn None s_y)] /\
  spec_select [] (NTName (Some s_q) s_z) true ex_doc = None /\
  model_select [(s_q, s_u)] (NTPrefixAny s_q) false ex_doc = Some [RElem 3].
Proof. repeat split; vm_compute; reflexivity. Qed.

(** a consistent renaming of the document: p -> q (q does not occur) *)
Definition ex_rn (s : str) : str := if str_eqb s s_p then s_q else s.

Example ex_rn_consistent : consistent ex_rn (tree_prefixes ex_doc).
Proof.
  split; [reflexivity|]. intros p q Hp Hq. vm_compute in Hp, Hq.
  repeat (destruct Hp as [<-|Hp]); try destruct Hp; repeat (destruct Hq as [<-|Hq]); try destruct Hq;
    vm_compute; intros E; try reflexivity; discriminate E.
Qed.

(** a renaming of the expression side: q -> p *)
Definition ex_rn_e (s : str) : str := if str_eqb s s_q then s_p else s.
Example ex_rn_e_injective : injective_on ex_rn_e (map fst [(s_q, s_u)] ++ test_prefixes (NTPrefixAny s_q)).
Proof.
  intros p q Hp Hq. vm_compute in Hp, Hq.
  repeat (destruct Hp as [<-|Hp]); try destruct Hp; repeat (destruct Hq as [<-|Hq]); try destruct Hq;
    vm_compute; intros E; try reflexivity; discriminate E.
Qed.

(** a renaming that is NOT consistent (p -> xml) changes the names: the hypothesis is needed *)
Definition bad_rn (s : str) : str := if str_eqb s s_p then p_xml else s.
Example bad_rn_changes : map strip (spec_doc (rn_tree bad_rn ex_doc)) <> map (rn_strip bad_rn) (spec_doc ex_doc).
Proof. vm_compute. discriminate. Qed.
