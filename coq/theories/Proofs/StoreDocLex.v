(** * C15: the lexical invariant of the store ([item_ok], [item_ok15]) gives the lexical hypotheses
    of the print -> parse direction of C04 (Proofs/DisplayLex.v).

    The store side is written with the predicates of the recommendation (Spec/XmlChars.v) and the
    string checks of Model/CharData.v, the parser side with the generated character classes and
    [find_sub]; this file is the dictionary. *)
From Coq Require Import List NArith Bool Lia.
From XmlRs Require Import Base.CPred Spec.XmlChars Spec.DomCharData Gen.XmlcharGen Model.Peg Model.ParseActions Model.Info Model.Display.
From XmlRs Require Import Proofs.XmlcharProofs Proofs.PegLemmas Proofs.DisplayLex Proofs.CharDataProofs.
From XmlRs Require Import Model.PrintableCheck Model.StoreDoc.
From XmlRs Require Model.CharData.
Import ListNotations.
Open Scope N_scope.

Lemma peg_str_eqb_eq (a : str) : forall b : str, Peg.str_eqb a b = true <-> a = b.
Proof.
  induction a as [|x a IH]; intros [|y b]; cbn [Peg.str_eqb]; split; intros H; try reflexivity; try discriminate.
  - apply andb_prop in H. destruct H as [H1 H2]. apply N.eqb_eq in H1. apply IH in H2. congruence.
  - inversion H; subst. rewrite N.eqb_refl. cbn [andb]. apply IH. reflexivity.
Qed.

(** ** characters *)
Lemma xml_char_is_char c : CharData.is_xml_char c = eval is_char c.
Proof. rewrite is_xml_char_spec. unfold isChar. symmetry. apply is_char_equiv. Qed.

Lemma forallb_impl {A} (f g : A -> bool) l : (forall x, f x = true -> g x = true) -> forallb f l = true -> forallb g l = true.
Proof.
  intros H. induction l as [|x l IH]; cbn [forallb]; [auto|]. intros E. apply andb_prop in E. destruct E as [E1 E2].
  rewrite (H x E1), (IH E2). reflexivity.
Qed.

Lemma forallb_in {A} (f : A -> bool) l x : forallb f l = true -> In x l -> f x = true.
Proof. intros H. rewrite forallb_forall in H. apply H. Qed.

Lemma chars_is_char (d : str) : forallb CharData.is_xml_char d = true -> forallb (eval is_char) d = true.
Proof. apply forallb_impl. intros c H. rewrite <- xml_char_is_char. exact H. Qed.

(** a character class minus listed characters *)
Lemma char_except ex c : CharData.is_xml_char c = true -> existsb (N.eqb c) ex = false -> eval (is_char_except ex) c = true.
Proof.
  intros H1 H2. rewrite is_char_except_equiv. rewrite <- is_char_equiv, <- xml_char_is_char, H1, H2. reflexivity.
Qed.

(** ** text *)
Lemma text_lex_chars (d : str) : text_lex d = true -> forallb (eval (is_char_except [60;38])) d = true.
Proof.
  unfold text_lex. apply forallb_impl. intros c H. apply andb_prop in H. destruct H as [H H38].
  apply andb_prop in H. destruct H as [Hc H60]. apply char_except; [exact Hc|].
  cbn [existsb]. apply negb_true_iff in H60. apply negb_true_iff in H38. rewrite H60, H38. reflexivity.
Qed.

Lemma text_lex_chars_q (q : N) (d : str) :
  text_lex d = true -> existsb (N.eqb q) d = false -> forallb (eval (is_char_except [60;38;q])) d = true.
Proof.
  unfold text_lex. intros H Hq. apply forallb_forall. intros c Hin.
  pose proof (forallb_in _ _ c H Hin) as Hc. cbn beta in Hc.
  apply andb_prop in Hc. destruct Hc as [Hc H38]. apply andb_prop in Hc. destruct Hc as [Hc H60].
  apply char_except; [exact Hc|]. cbn [existsb]. apply negb_true_iff in H60. apply negb_true_iff in H38. rewrite H60, H38.
  cbn [orb]. rewrite orb_false_r.
  destruct (N.eqb_spec c q) as [->|]; [|reflexivity].
  exfalso. assert (existsb (N.eqb q) d = true) as X; [|congruence].
  apply existsb_exists. exists q. split; [exact Hin | apply N.eqb_refl].
Qed.

(** ** substrings: [has_sub] (store side) and [find_sub] (parser side) *)
Lemma prefix_of_prefix (p : str) : forall s : str, CharData.prefix_of p s = false -> prefix p s = None.
Proof.
  induction p as [|a p IH]; intros s H; [destruct s; discriminate|].
  destruct s as [|b s]; [reflexivity|]. cbn [CharData.prefix_of prefix] in *.
  destruct (N.eqb_spec a b) as [->|]; [|reflexivity]. cbn [andb] in H. apply IH. exact H.
Qed.

Lemma has_sub_find (p s : str) : CharData.has_sub p s = false -> find_sub p s = None.
Proof.
  induction s as [|b s IH]; intros H.
  - cbn [CharData.has_sub] in H. rewrite orb_false_r in H. cbn [find_sub]. rewrite (prefix_of_prefix p [] H). reflexivity.
  - cbn [CharData.has_sub] in H. apply orb_false_iff in H. destruct H as [H1 H2].
    cbn [find_sub]. rewrite (prefix_of_prefix p (b :: s) H1). rewrite (IH H2). reflexivity.
Qed.

(** ** CDATA sections, comments *)
Lemma check_cdata_ok (d : str) : CharData.check_cdata d = true -> cdata_ok d.
Proof.
  unfold CharData.check_cdata, CharData.has_cdend. intros H. apply andb_prop in H. destruct H as [H1 H2]. split.
  - apply chars_is_char. exact H1.
  - apply has_sub_find. apply negb_true_iff. exact H2.
Qed.

Lemma nondash_char c : CharData.is_xml_char c = true -> c <> 45 -> eval nondash c = true.
Proof.
  intros H1 H2. unfold nondash. apply char_except; [exact H1|]. cbn [existsb]. rewrite orb_false_r.
  apply N.eqb_neq. exact H2.
Qed.

Lemma check_comment_ok (c : str) : CharData.check_comment c = true -> comment_ok c.
Proof.
  unfold CharData.check_comment, comment_ok, CharData.has_double_hyphen. intros H.
  apply andb_prop in H. destruct H as [H H3]. apply andb_prop in H. destruct H as [H1 H2].
  apply negb_true_iff in H2. apply negb_true_iff in H3.
  induction c as [|x c IH]; [reflexivity|].
  cbn [forallb] in H1. apply andb_prop in H1. destruct H1 as [Hx H1].
  cbn [CharData.has_sub] in H2. apply orb_false_iff in H2. destruct H2 as [Hp H2].
  cbn [comment_okb]. apply andb_true_intro. split.
  - destruct (N.eqb_spec x 45) as [->|Hne].
    + destruct c as [|y c].
      * cbn in H3. discriminate.
      * cbn [forallb] in H1. apply andb_prop in H1. destruct H1 as [Hy _].
        apply nondash_char; [exact Hy|]. intros ->. cbn in Hp. discriminate.
    + apply nondash_char; assumption.
  - destruct c as [|y c]; [reflexivity|]. apply IH; [exact H1 | exact H2|].
    cbn [CharData.ends_with_hyphen] in H3. exact H3.
Qed.

(** ** names *)
Lemma is_Name_ok (n : str) : is_Name n = true -> name_ok n.
Proof.
  unfold is_Name, name_ok. destruct n as [|c t]; [discriminate|]. intros H. apply andb_prop in H. destruct H as [H1 H2].
  cbn [forallb]. apply andb_true_intro. split.
  - apply name_start_is_name. rewrite is_name_start_char_equiv. exact H1.
  - eapply forallb_impl; [|exact H2]. intros x Hx. rewrite is_name_char_equiv. exact Hx.
Qed.

Lemma is_NCName_ok (n : str) : is_NCName n = true -> ncname_ok n.
Proof.
  unfold is_NCName, is_Name, ncname_ok. destruct n as [|c t]; [discriminate|]. intros H.
  apply andb_prop in H. destruct H as [H H3]. apply andb_prop in H. destruct H as [H1 H2].
  apply negb_true_iff in H3. cbn [existsb] in H3. apply orb_false_iff in H3. destruct H3 as [Hc Ht].
  split.
  - rewrite is_name_start_char_except_equiv, H1. cbn [existsb]. rewrite orb_false_r.
    unfold colon in Hc. rewrite N.eqb_sym in Hc. rewrite Hc. reflexivity.
  - apply forallb_forall. intros x Hin. rewrite is_name_char_except_equiv.
    rewrite (forallb_in _ _ x H2 Hin). cbn [existsb]. rewrite orb_false_r.
    destruct (N.eqb_spec x 58) as [->|]; [|reflexivity].
    exfalso. assert (existsb (N.eqb colon) t = true) as X; [|congruence].
    apply existsb_exists. exists 58. split; [exact Hin | reflexivity].
Qed.

Lemma qname_ok_ok (p : option str) (l : str) : PrintableCheck.qname_ok p l = true ->
  match p with Some x => ncname_ok x /\ ncname_ok l | None => ncname_ok l end.
Proof.
  unfold PrintableCheck.qname_ok. intros H. apply andb_prop in H. destruct H as [H1 H2].
  destruct p as [x|]; [split|]; apply is_NCName_ok; assumption.
Qed.

(** ** processing instructions *)
Lemma not_xml_ci (t : str) : is_xml_ci t = false -> ci_reject [120;109;108] t = false.
Proof.
  unfold ci_reject. destruct t as [|a [|b [|c [|d t]]]]; try (intros _; cbn [length Nat.eqb]; apply andb_false_r).
  - intros H. cbn [is_xml_ci] in H. cbn [ci_zip_eq length Nat.eqb]. rewrite andb_true_r.
    change (Peg.lower 120) with 120. change (Peg.lower 109) with 109. change (Peg.lower 108) with 108.
    change (Peg.lower a) with (XmlChars.lower a). change (Peg.lower b) with (XmlChars.lower b).
    change (Peg.lower c) with (XmlChars.lower c).
    rewrite (N.eqb_sym 120), (N.eqb_sym 109), (N.eqb_sym 108). rewrite andb_true_r, andb_assoc. exact H.
Qed.

Lemma ws_is_ws c : eval ws c = is_ws c.
Proof.
  unfold ws, is_ws. cbn [eval existsb]. unfold in_range. cbn [fst snd]. rewrite orb_false_r.
  assert (E : forall a, (a <=? c) && (c <? a + 1) = (c =? a)).
  { intros a. destruct (N.leb_spec a c), (N.ltb_spec c (a + 1)), (N.eqb_spec c a); cbn; try reflexivity; lia. }
  rewrite !E. rewrite !orb_assoc. reflexivity.
Qed.

Lemma pi_data_ok_of (d : str) :
  PrintableCheck.pi_ok d = true -> match d with c :: _ => negb (is_ws c) | [] => true end = true -> pi_data_ok d.
Proof.
  unfold PrintableCheck.pi_ok. intros H Hw. apply andb_prop in H. destruct H as [H1 H2]. split; [|split].
  - apply chars_is_char. exact H1.
  - apply has_sub_find. apply negb_true_iff. exact H2.
  - destruct d as [|c d]; [exact I|]. cbn [stops]. rewrite ws_is_ws. apply negb_true_iff. exact Hw.
Qed.

(** ** character references *)
Lemma dec_digit_ok c : dec_digit c = true -> eval dec_digits c = true.
Proof.
  unfold dec_digit, dec_digits. cbn [eval existsb]. unfold in_range. cbn [fst snd]. intros H. apply andb_prop in H. destruct H as [H1 H2].
  rewrite H1. apply N.leb_le in H2. rewrite orb_false_r. cbn [andb]. apply N.ltb_lt. lia.
Qed.

Lemma hex_digit_ok c : hex_digit c = true -> eval hex_digits c = true.
Proof.
  unfold hex_digit, dec_digit, hex_digits. cbn [eval existsb]. unfold in_range. cbn [fst snd]. rewrite orb_false_r. intros H.
  assert (E : forall a b, (a <=? c) && (c <=? b) = (a <=? c) && (c <? b + 1)).
  { intros a b. f_equal. destruct (N.leb_spec c b), (N.ltb_spec c (b + 1)); try reflexivity; lia. }
  rewrite !E in H. rewrite <- orb_assoc in H. exact H.
Qed.

Lemma charref_ok_ref (name data : str) : charref_ok name data = true ->
  reference_ok (RefChar (fst (cr_parts name)) (snd (cr_parts name)))
  /\ (exists c, char_from (fst (cr_parts name)) (snd (cr_parts name)) = IOk c /\ data = [c])
  /\ d_charref (fst (cr_parts name)) (snd (cr_parts name)) = 38 :: name ++ [59].
Proof.
  unfold charref_ok. destruct name as [|h t]; [discriminate|]. intros H.
  apply andb_prop in H. destruct H as [H H4]. apply andb_prop in H. destruct H as [H H3].
  apply andb_prop in H. destruct H as [H1 H2]. apply N.eqb_eq in H1. subst h.
  split; [|split].
  - set (pr := cr_parts _) in *. clearbody pr. destruct pr as [num r]. cbn [fst snd] in *. destruct r; unfold reference_ok, digit_of in *.
    + split; [destruct num; [discriminate H2 | discriminate]|].
      eapply forallb_impl; [|exact H3]. apply dec_digit_ok.
    + split; [destruct num; [discriminate H2 | discriminate]|].
      eapply forallb_impl; [|exact H3]. apply hex_digit_ok.
  - destruct (char_from _ _) as [c| | |]; try discriminate. exists c. split; [reflexivity|].
    apply peg_str_eqb_eq. exact H4.
  - unfold cr_parts in *. destruct t as [|x num]; [cbn in H2; discriminate|].
    destruct (N.eqb_spec x 120) as [->|]; reflexivity.
Qed.
