(** * Namespaces in XML 1.0 (3rd ed.) sections 3, 5, 6 and XPath 1.0 section 2.3 (node tests) over an
      abstract document.  Specification for property C10; independent of /repo.

    ** Abstract documents.  An element carries only what namespace processing looks at: its qualified
    name, its namespace declarations ([xmlns="u"] is [(None, u)], [xmlns:p="u"] is [(Some p, u)]) and
    the qualified names of its other attributes.  A document is a rose tree of such elements; an
    element is addressed by its ancestor chain, itself first.

    ** Readings.
    N1.  [xmlns=""] removes the default namespace (6.2); the empty value for a prefixed declaration is
         not legal in Namespaces 1.0 and is treated the same way (the prefix becomes unbound).
    N2.  The prefix [xml] is bound to the XML namespace without declaration (3); a document is
         *namespace-well-formed* only if every prefix it uses is bound -- [resolve_*] answer [None]
         otherwise; the prefix [xmlns] is reserved and must not be declared or used ([chain_ok]).
    N3.  XPath 1.0 2.3: a QName of a node test is expanded with the caller's prefix bindings; an
         unprefixed name has a null namespace URI (no default namespace on the expression side);
         a prefix without binding is an error.  [*] matches every node of the axis' principal type,
         [p:*] every one whose namespace URI is the binding of [p]. *)
From Coq Require Import List NArith Bool.
From XmlRs Require Import Base.CPred Spec.AttrNorm.
Import ListNotations.
Open Scope N_scope.

Definition uri := str.
Definition prefix := option str.

Record qname := { qn_prefix : prefix; qn_local : str }.
Definition nsdecl := (prefix * uri)%type.
Record elem := { el_name : qname; el_decls : list nsdecl; el_attrs : list qname }.
Inductive tree := Node (e : elem) (kids : list tree).

(** an expanded name: local part and namespace name ([None] = no namespace) *)
Definition ename := (str * option uri)%type.

Definition p_xml : str := [120; 109; 108].
Definition p_xmlns : str := [120; 109; 108; 110; 115].
(** "http://www.w3.org/XML/1998/namespace" *)
Definition xml_ns : uri :=
  [104;116;116;112;58;47;47;119;119;119;46;119;51;46;111;114;103;47;88;77;76;47;49;57;57;56;47;110;97;109;101;115;112;97;99;101].

Definition prefix_eqb (a b : prefix) : bool :=
  match a, b with
  | None, None => true
  | Some x, Some y => str_eqb x y
  | _, _ => false
  end.

(** ** environments: the declarations in force, innermost first *)
Definition env := list nsdecl.
Definition init_env : env := [(Some p_xml, xml_ns)].

Fixpoint assoc (e : env) (p : prefix) : option uri :=
  match e with
  | [] => None
  | (q, u) :: r => if prefix_eqb q p then Some u else assoc r p
  end.

(** the namespace name a prefix (or the default namespace, [None]) denotes; N1 *)
Definition ns_lookup (e : env) (p : prefix) : option uri :=
  match assoc e p with
  | Some [] => None
  | Some u => Some u
  | None => None
  end.

(** the environment of an element given its ancestor chain (itself first): "the scope of a namespace
    declaration extends from the beginning of the start-tag in which it appears to the end of the
    corresponding end-tag" -- inner declarations shadow outer ones *)
Fixpoint env_of (chain : list elem) : env :=
  match chain with
  | [] => init_env
  | e :: up => el_decls e ++ env_of up
  end.

(** ** expanded names (6.1, 6.2) *)
Definition resolve_elem (e : env) (q : qname) : option ename :=
  match qn_prefix q with
  | None => Some (qn_local q, ns_lookup e None)               (* the default namespace applies *)
  | Some p => match ns_lookup e (Some p) with
              | Some u => Some (qn_local q, Some u)
              | None => None                                   (* unbound prefix: N2 *)
              end
  end.

(** "Default namespace declarations do not apply directly to attribute names" *)
Definition resolve_attr (e : env) (q : qname) : option ename :=
  match qn_prefix q with
  | None => Some (qn_local q, None)
  | Some p => match ns_lookup e (Some p) with
              | Some u => Some (qn_local q, Some u)
              | None => None
              end
  end.

(** ** in-scope namespaces of an element: one (prefix, name) per prefix with a non-empty binding *)
Fixpoint in_scope_from (seen : list prefix) (e : env) : list nsdecl :=
  match e with
  | [] => []
  | (p, u) :: r =>
      if existsb (prefix_eqb p) seen then in_scope_from seen r
      else match u with
           | [] => in_scope_from (p :: seen) r
           | _ => (p, u) :: in_scope_from (p :: seen) r
           end
  end.
Definition in_scope (e : env) : list nsdecl := in_scope_from [] e.

(** ** what is reported for one element, given its chain *)
Record elem_obs := {
  eo_name : option ename;
  eo_scope : list nsdecl;
  eo_attrs : list (qname * option ename)
}.

Definition spec_obs_env (e : env) (x : elem) : elem_obs :=
  {| eo_name := resolve_elem e (el_name x);
     eo_scope := in_scope e;
     eo_attrs := map (fun q => (q, resolve_attr e q)) (el_attrs x) |}.

Definition spec_obs (chain : list elem) : option elem_obs :=
  match chain with
  | [] => None
  | x :: _ => Some (spec_obs_env (env_of chain) x)
  end.

(** the document, top-down: every element in document order with the environment passed down *)
Fixpoint spec_doc_env (outer : env) (t : tree) : list elem_obs :=
  match t with
  | Node x kids =>
      let e := el_decls x ++ outer in
      spec_obs_env e x :: flat_map (spec_doc_env e) kids
  end.
Definition spec_doc (t : tree) : list elem_obs := spec_doc_env init_env t.

(** ** XPath name tests against caller bindings (N3) *)
Inductive nametest :=
| NTAny                               (* *      *)
| NTPrefixAny (p : str)               (* p:*    *)
| NTName (p : option str) (l : str).  (* l, p:l *)

Definition bindings := list (str * uri).

Fixpoint binding (b : bindings) (p : str) : option uri :=
  match b with
  | [] => None
  | (q, u) :: r => if str_eqb q p then Some u else binding r p
  end.

Definition ouri_eqb (a b : option uri) : bool :=
  match a, b with
  | None, None => true
  | Some x, Some y => str_eqb x y
  | _, _ => false
  end.

(** [None] = the expression is in error (prefix without binding) *)
Definition name_test (b : bindings) (t : nametest) (n : ename) : option bool :=
  match t with
  | NTAny => Some true
  | NTPrefixAny p => match binding b p with
                     | Some u => Some (ouri_eqb (snd n) (Some u))
                     | None => None
                     end
  | NTName None l => Some (str_eqb (fst n) l && ouri_eqb (snd n) None)
  | NTName (Some p) l => match binding b p with
                         | Some u => Some (str_eqb (fst n) l && ouri_eqb (snd n) (Some u))
                         | None => None
                         end
  end.

(** nodes are named by the rank of their element in document order, attributes also by their name *)
Inductive noderef := RElem (rank : nat) | RAttr (rank : nat) (q : qname).

Definition test_ok (b : bindings) (t : nametest) : bool :=
  match t with
  | NTAny | NTName None _ => true
  | NTPrefixAny p | NTName (Some p) _ => match binding b p with Some _ => true | None => false end
  end.

Definition matches (b : bindings) (t : nametest) (n : option ename) : bool :=
  match n with
  | Some n => match name_test b t n with Some true => true | _ => false end
  | None => false
  end.

Fixpoint select_from (b : bindings) (t : nametest) (attrs : bool) (rank : nat) (l : list elem_obs) : list noderef :=
  match l with
  | [] => []
  | o :: r =>
      (if attrs then map (fun qa => RAttr rank (fst qa)) (filter (fun qa => matches b t (snd qa)) (eo_attrs o))
       else if matches b t (eo_name o) then [RElem rank] else [])
      ++ select_from b t attrs (S rank) r
  end.

(** [//T] ([attrs = false]) and [//@T] ([attrs = true]) over a document; [None] = error *)
Definition spec_select (b : bindings) (t : nametest) (attrs : bool) (d : tree) : option (list noderef) :=
  if test_ok b t then Some (select_from b t attrs 0 (spec_doc d)) else None.

(** ** prefix renaming *)
Definition rn_prefix (f : str -> str) (p : prefix) : prefix := option_map f p.
Definition rn_qname (f : str -> str) (q : qname) : qname :=
  {| qn_prefix := rn_prefix f (qn_prefix q); qn_local := qn_local q |}.
Definition rn_decl (f : str -> str) (d : nsdecl) : nsdecl := (rn_prefix f (fst d), snd d).
Definition rn_elem (f : str -> str) (x : elem) : elem :=
  {| el_name := rn_qname f (el_name x); el_decls := map (rn_decl f) (el_decls x);
     el_attrs := map (rn_qname f) (el_attrs x) |}.
Fixpoint rn_tree (f : str -> str) (t : tree) : tree :=
  match t with Node x kids => Node (rn_elem f x) (map (rn_tree f) kids) end.

Definition rn_test (f : str -> str) (t : nametest) : nametest :=
  match t with
  | NTAny => NTAny
  | NTPrefixAny p => NTPrefixAny (f p)
  | NTName p l => NTName (option_map f p) l
  end.
Definition rn_bindings (f : str -> str) (b : bindings) : bindings := map (fun pu => (f (fst pu), snd pu)) b.

(** the prefixes a document / an expression with its bindings mentions *)
Definition opt_list {A} (o : option A) : list A := match o with Some a => [a] | None => [] end.
Definition elem_prefixes (x : elem) : list str :=
  opt_list (qn_prefix (el_name x)) ++ flat_map (fun d => opt_list (fst d)) (el_decls x)
  ++ flat_map (fun q => opt_list (qn_prefix q)) (el_attrs x).
Fixpoint tree_prefixes (t : tree) : list str :=
  match t with Node x kids => elem_prefixes x ++ flat_map tree_prefixes kids end.
Definition test_prefixes (t : nametest) : list str :=
  match t with NTAny => [] | NTPrefixAny p => [p] | NTName p _ => opt_list p end.

(** a renaming is consistent on a set of prefixes when it is injective on it, keeps [xml] (which is bound
    implicitly) and maps nothing else to it *)
Definition consistent (f : str -> str) (ps : list str) : Prop :=
  f p_xml = p_xml /\ forall p q, In p (p_xml :: ps) -> In q (p_xml :: ps) -> f p = f q -> p = q.
Definition injective_on (f : str -> str) (ps : list str) : Prop :=
  forall p q, In p ps -> In q ps -> f p = f q -> p = q.

(** ** well-formedness of the abstract document (what XML 1.0 / Namespaces guarantee syntactically) *)
Definition not_xmlns (p : prefix) : bool := match p with Some s => negb (str_eqb s p_xmlns) | None => true end.
Fixpoint nodup_prefixes (l : list nsdecl) : bool :=
  match l with
  | [] => true
  | (p, _) :: r => negb (existsb (fun d => prefix_eqb (fst d) p) r) && nodup_prefixes r
  end.
Definition elem_ok (x : elem) : bool :=
  nodup_prefixes (el_decls x) && forallb (fun d => not_xmlns (fst d)) (el_decls x)
  && not_xmlns (qn_prefix (el_name x)) && forallb (fun q => not_xmlns (qn_prefix q)) (el_attrs x).
Definition chain_ok (chain : list elem) : bool := forallb elem_ok chain.
Fixpoint tree_ok (t : tree) : bool :=
  match t with Node x kids => elem_ok x && forallb tree_ok kids end.

(** ** attribute defaults of the DTD, applied BEFORE namespace processing
    (XML 1.0 3.3, 3.3.2; Namespaces in XML 1.0 section 3: a namespace is declared by an attribute
    "directly or by default").

    An attribute definition names the element type (a raw qualified name: DTDs are not namespace-aware),
    the attribute -- already classified, as in [elem], into a namespace declaration [xmlns] / [xmlns:p]
    and an ordinary attribute name -- and its default.  A [nsdtd] lists the definitions of all
    attribute-list declarations in document order.

    Readings.
    N4.  3.3: "When more than one definition is provided for the same attribute of a given element type,
         the first declaration is binding and later declarations are ignored" -- also when the first one
         has no default value and a later one has.
    N5.  3.3.2: only a declared default VALUE (["v"] or [#FIXED "v"]) supplies an attribute that is not
         written; [#REQUIRED] and [#IMPLIED] supply nothing.  A written attribute (or declaration of the same
         prefix) wins.
    N6.  XML Infoset 2.2: a namespace declaration, written or defaulted, is no member of [attributes]. *)
Inductive attname := ANDecl (p : prefix) | ANAttr (q : qname).
Inductive nsdefault := NDValue (v : str) | NDFixed (v : str) | NDRequired | NDImplied.
Record nsdef := { nd_elem : qname; nd_name : attname; nd_default : nsdefault }.
Definition nsdtd := list nsdef.

Definition qname_eqb (a b : qname) : bool :=
  prefix_eqb (qn_prefix a) (qn_prefix b) && str_eqb (qn_local a) (qn_local b).
Definition attname_eqb (a b : attname) : bool :=
  match a, b with
  | ANDecl p, ANDecl q => prefix_eqb p q
  | ANAttr p, ANAttr q => qname_eqb p q
  | _, _ => false
  end.

(** two definitions of the same attribute of the same element type *)
Definition same_def (a b : nsdef) : bool :=
  qname_eqb (nd_elem a) (nd_elem b) && attname_eqb (nd_name a) (nd_name b).

(** N4: the binding definitions, in document order *)
Fixpoint binding_defs (seen : nsdtd) (d : nsdtd) : nsdtd :=
  match d with
  | [] => []
  | a :: r => if existsb (same_def a) seen then binding_defs seen r else a :: binding_defs (a :: seen) r
  end.

Definition default_of (k : nsdefault) : option str :=
  match k with NDValue v | NDFixed v => Some v | NDRequired | NDImplied => None end.

(** is the attribute written in the start-tag? *)
Definition written (x : elem) (n : attname) : bool :=
  match n with
  | ANDecl p => existsb (fun d => prefix_eqb (fst d) p) (el_decls x)
  | ANAttr q => existsb (qname_eqb q) (el_attrs x)
  end.

(** N5: the attributes supplied by default to one element, with their values *)
Definition defaulted (d : nsdtd) (x : elem) : list (attname * str) :=
  flat_map (fun a =>
    if qname_eqb (nd_elem a) (el_name x) && negb (written x (nd_name a))
    then match default_of (nd_default a) with Some v => [(nd_name a, v)] | None => [] end
    else []) (binding_defs [] d).

Definition decls_in (l : list (attname * str)) : list nsdecl :=
  flat_map (fun nv => match fst nv with ANDecl p => [(p, snd nv)] | ANAttr _ => [] end) l.
Definition attrs_in (l : list (attname * str)) : list qname :=
  flat_map (fun nv => match fst nv with ANAttr q => [q] | ANDecl _ => [] end) l.

(** the element "as though the attribute were present with the declared default value"; N6 *)
Definition default_elem (d : nsdtd) (x : elem) : elem :=
  {| el_name := el_name x;
     el_decls := el_decls x ++ decls_in (defaulted d x);
     el_attrs := el_attrs x ++ attrs_in (defaulted d x) |}.
Fixpoint default_tree (d : nsdtd) (t : tree) : tree :=
  match t with Node x kids => Node (default_elem d x) (map (default_tree d) kids) end.

(** a document with its DTD: defaulting, then namespace processing *)
Definition spec_ddoc (d : nsdtd) (t : tree) : list elem_obs := spec_doc (default_tree d t).
Definition spec_dselect (b : bindings) (t : nametest) (attrs : bool) (d : nsdtd) (doc : tree) : option (list noderef) :=
  spec_select b t attrs (default_tree d doc).

(** renaming of the prefixes of a DTD *)
Definition rn_attname (f : str -> str) (n : attname) : attname :=
  match n with ANDecl p => ANDecl (rn_prefix f p) | ANAttr q => ANAttr (rn_qname f q) end.
Definition rn_nsdef (f : str -> str) (a : nsdef) : nsdef :=
  {| nd_elem := rn_qname f (nd_elem a); nd_name := rn_attname f (nd_name a); nd_default := nd_default a |}.
Definition rn_nsdtd (f : str -> str) (d : nsdtd) : nsdtd := map (rn_nsdef f) d.

Definition attname_prefixes (n : attname) : list str :=
  match n with ANDecl p => opt_list p | ANAttr q => opt_list (qn_prefix q) end.
Definition nsdtd_prefixes (d : nsdtd) : list str :=
  flat_map (fun a => opt_list (qn_prefix (nd_elem a)) ++ attname_prefixes (nd_name a)) d.

(** syntax: the reserved prefix xmlns is neither declared nor used by an attribute definition *)
Definition attname_ok (n : attname) : bool :=
  match n with ANDecl p => not_xmlns p | ANAttr q => not_xmlns (qn_prefix q) end.
Definition nsdtd_ok (d : nsdtd) : bool := forallb (fun a => attname_ok (nd_name a)) d.
