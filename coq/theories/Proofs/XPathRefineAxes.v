(** * C05, round 2: every axis except [namespace], at the level of LISTS.

    For a tree node [i] ([T i]) and every axis [a] other than the namespace axis:
    the model's [axis_nodes] returns a duplicate-free list of tree nodes, the specification's
    [s_axis] is an increasing list of rows, and the two have the same elements ([axis_agrees]).
    Hence what the model does after the node test -- sort by order key, reverse for a reverse
    axis -- yields exactly the list the specification numbers the predicates along. *)
From Coq Require Import List NArith Bool Lia Sorting.Sorted Sorting.Permutation.
From XmlRs Require Import Base.CPred Base.NList Base.Float64.
From XmlRs Require Import Spec.XPathCore Model.XPathFuncs.
From XmlRs Require Import Model.XPathAst Model.XDoc Model.XPathScalar Model.XPathEval.
From XmlRs Require Import Spec.XPath10.
From XmlRs Require Import Proofs.XPathNav Proofs.XPathSort Proofs.XPathAstPred Proofs.XPathCanon
  Proofs.XPathRefine Proofs.XPathRefinePaths Proofs.XPathRefineTree.
Import ListNotations.
Open Scope N_scope.

Lemma NoDup_app_intro {A} (a b : list A) :
  NoDup a -> NoDup b -> (forall x, In x a -> In x b -> False) -> NoDup (a ++ b).
Proof.
  induction a as [|x t IH]; intros Ha Hb Hd; cbn [app]; [exact Hb|].
  inversion Ha as [|x' t' Hx Ht]; subst. constructor.
  - intros Hin. apply in_app_or in Hin. destruct Hin as [Hin|Hin]; [contradiction|]. apply (Hd x); [left; reflexivity|exact Hin].
  - apply IH; [exact Ht|exact Hb|]. intros y Hy1 Hy2. apply (Hd y); [right; exact Hy1|exact Hy2].
Qed.

Lemma flat_map_res_eq (g : node -> res (list node)) (h : node -> list node) l :
  (forall x, In x l -> g x = Ok (h x)) -> flat_map_res g l = Ok (flat_map h l).
Proof.
  induction l as [|x t IH]; intros H; cbn [flat_map_res flat_map]; [reflexivity|].
  rewrite (H x (or_introl eq_refl)). cbn [bind]. rewrite IH; [reflexivity|]. intros y Hy. apply H. right. exact Hy.
Qed.

Lemma bind_ok {A B} (a : A) (f : A -> res B) : bind (Ok a) f = f a.
Proof. reflexivity. Qed.

Section Axes.
Variable doc : xdoc.
Hypothesis Hinv : DocInv doc.
Hypothesis Hshape : SpecShape doc.
Let Hwf := inv_wf doc Hinv.

Notation xch := (xchildren doc).
Notation attrs := (attributes doc).
Notation D := (desc doc).
Notation W := (W doc).
Notation T := (T doc).
Notation nonattr := (nonattr doc).

Let TV := T_valid doc Hinv Hshape.

(** ** the specification's filters over the walk, on rows *)
Lemma filter_walk (P : snode -> bool) (L : list snode) :
  filter (fun m => P m && negb (is_attr_or_ns doc m)) L =
  map Row (filter (fun x => P (Row x) && nonattr x) (rows_of L)).
Proof.
  induction L as [|m t IH]; [reflexivity|]. cbn [filter]. destruct m as [i|e j].
  - change (rows_of (Row i :: t)) with (i :: rows_of t). cbn [filter]. cbn [is_attr_or_ns]. fold (nonattr i).
    destruct (P (Row i) && nonattr i); [cbn [map]; f_equal; exact IH|exact IH].
  - change (rows_of (NsOf e j :: t)) with (rows_of t). cbn [is_attr_or_ns negb]. rewrite andb_false_r. exact IH.
Qed.

Lemma sn_mem_rows x l : sn_mem doc (Row x) (map Row l) = existsb (N.eqb x) l.
Proof.
  unfold sn_mem. induction l as [|y t IH]; [reflexivity|]. cbn [map existsb]. rewrite sn_eqb_row, IH. reflexivity.
Qed.

Lemma existsb_eqb_in x l : existsb (N.eqb x) l = true <-> In x l.
Proof.
  rewrite existsb_exists. split.
  - intros [y [Hy E]]. apply N.eqb_eq in E. subst. exact Hy.
  - intros H. exists x. split; [exact H|apply N.eqb_refl].
Qed.

(** ** the parent chain *)
Inductive chain : node -> list node -> Prop :=
| chain_root i : parent_node doc i = None -> chain i []
| chain_step i p al : parent_node doc i = Some p -> chain p al -> chain i (p :: al).

Lemma ancestor_chain : forall fuel i, T i -> (N.to_nat i < fuel)%nat ->
  exists al, ancestor_fuel doc fuel i = Ok al /\ chain i al.
Proof.
  induction fuel as [|f IH]; intros i Ti Hlt; [lia|]. cbn [ancestor_fuel]. unfold xp_parent.
  destruct (parent_node doc i) as [p|] eqn:Ep.
  - destruct (T_parent_T doc Hinv Hshape i p Ti Ep) as [Tp _].
    destruct (wf_parent doc Hwf i p (TV i Ti) Ep) as [_ Hpi].
    destruct (IH p Tp) as [al [E Hc]]; [lia|]. rewrite E. cbn [bind]. exists (p :: al). split; [reflexivity|].
    apply chain_step; assumption.
  - exists []. split; [reflexivity|apply chain_root; exact Ep].
Qed.

Lemma ancestor_ok_chain i : T i -> exists al, ancestor doc i = Ok al /\ chain i al.
Proof.
  intros Ti. apply ancestor_chain; [exact Ti|]. pose proof (TV i Ti) as V. unfold valid in V. unfold nav_fuel. lia.
Qed.

Lemma chain_T i al : chain i al -> T i -> Forall T al.
Proof.
  intros Hc. induction Hc as [i E|i p al E Hc IH]; intros Ti; [constructor|].
  destruct (T_parent_T doc Hinv Hshape i p Ti E) as [Tp _]. constructor; [exact Tp|apply IH; exact Tp].
Qed.

Lemma chain_lt i al : chain i al -> T i -> forall x, In x al -> x < i.
Proof.
  intros Hc. induction Hc as [i E|i p al E Hc IH]; intros Ti x Hx; [destruct Hx|].
  destruct (T_parent_T doc Hinv Hshape i p Ti E) as [Tp _].
  destruct (wf_parent doc Hwf i p (TV i Ti) E) as [_ Hpi].
  destruct Hx as [->|Hx]; [exact Hpi|]. specialize (IH Tp x Hx). lia.
Qed.

Lemma chain_NoDup i al : chain i al -> T i -> NoDup al.
Proof.
  intros Hc. induction Hc as [i E|i p al E Hc IH]; intros Ti; [constructor|].
  destruct (T_parent_T doc Hinv Hshape i p Ti E) as [Tp _]. constructor; [|apply IH; exact Tp].
  intros Hin. pose proof (chain_lt p al Hc Tp p Hin). lia.
Qed.

Lemma chain_root_is_root i : chain i [] -> T i -> i = doc_root.
Proof.
  intros Hc Ti. inversion Hc as [i' E|]; subst.
  destruct (N.eq_dec i doc_root) as [E0|Hne]; [exact E0|].
  destruct (T_parent doc Hinv Hshape i Ti Hne) as [p [_ [Ep _]]]. rewrite E in Ep. discriminate.
Qed.

(** the parent of the specification ([s_parent]: the first row of the walk that lists [i] among its
    children or attributes) is the parent observation: a listing row is the parent observation of
    what it lists ([sh_child_parent], [sh_attr_parent]) *)
Lemma spec_parent (i : node) : T i -> s_parent doc (Row i) = option_map Row (parent_node doc i).
Proof.
  intros Ti. unfold s_parent.
  set (P := fun j => existsb (N.eqb i) (xch j) || (nkind_eqb (kind doc j) KElement && existsb (N.eqb i) (attrs j))).
  assert (Psound : forall j, T j -> P j = true -> parent_node doc i = Some j).
  { intros j Tj Hj. unfold P in Hj. apply orb_prop in Hj. destruct Hj as [Hj|Hj].
    - apply existsb_eqb_in in Hj. apply (xch_kind doc Hshape j i (TV j Tj) Hj).
    - apply andb_prop in Hj. destruct Hj as [_ Hj]. apply existsb_eqb_in in Hj.
      apply (sh_attr_parent doc Hshape j i (TV j Tj) Hj). }
  rewrite <- (W_root doc).
  destruct (parent_node doc i) as [p|] eqn:Ep; cbn [option_map].
  - destruct (T_parent_T doc Hinv Hshape i p Ti Ep) as [Tp Hip].
    assert (Pp : P p = true).
    { unfold P. destruct Hip as [Hip|Hip].
      - apply orb_true_intro. left. apply existsb_eqb_in. exact Hip.
      - apply orb_true_intro. right.
        assert (Kp : kind doc p = KElement).
        { destruct (kind doc p) eqn:Ek; try reflexivity; exfalso;
            rewrite (sh_attrs doc Hshape p (TV p Tp)) in Hip by (rewrite Ek; discriminate); destruct Hip. }
        rewrite Kp. cbn [nkind_eqb andb]. apply existsb_eqb_in. exact Hip. }
    destruct (find P (W doc_root)) as [j|] eqn:Ef.
    + apply find_some in Ef. destruct Ef as [Hj Pj]. pose proof (Psound j Hj Pj) as E. inversion E. reflexivity.
    + pose proof (find_none _ _ Ef p Tp) as E. rewrite Pp in E. discriminate.
  - destruct (find P (W doc_root)) as [j|] eqn:Ef; [|reflexivity].
    apply find_some in Ef. destruct Ef as [Hj Pj]. pose proof (Psound j Hj Pj) as E. discriminate.
Qed.

Lemma spec_ancestors_chain : forall fuel (i : node) al, T i -> chain i al -> (length al < fuel)%nat ->
  ancestors_fuel doc fuel (Row i) = map Row al.
Proof.
  induction fuel as [|f IH]; intros i al Ti Hc Hlt; [lia|]. cbn [ancestors_fuel]. rewrite (spec_parent i Ti).
  inversion Hc as [i' E|i' p al' E Hc']; subst; rewrite E; cbn [option_map map].
  - reflexivity.
  - destruct (T_parent_T doc Hinv Hshape i p Ti E) as [Tp _]. f_equal. apply (IH p al' Tp Hc'). cbn [length] in Hlt. lia.
Qed.

Lemma chain_length i al : chain i al -> T i -> (length al <= N.to_nat i)%nat.
Proof.
  intros Hc. induction Hc as [i E|i p al E Hc IH]; intros Ti; cbn [length]; [lia|].
  destruct (T_parent_T doc Hinv Hshape i p Ti E) as [Tp _].
  destruct (wf_parent doc Hwf i p (TV i Ti) E) as [_ Hpi]. specialize (IH Tp). lia.
Qed.

Lemma spec_ancestors (i : node) al : T i -> ancestor doc i = Ok al -> ancestors doc (Row i) = map Row al.
Proof.
  intros Ti E. destruct (ancestor_ok_chain i Ti) as [al' [E' Hc]]. rewrite E in E'. inversion E'; subst al'.
  unfold ancestors, fuel0. apply (spec_ancestors_chain _ i al Ti Hc).
  pose proof (chain_length i al Hc Ti). pose proof (TV i Ti) as V. unfold valid in V. lia.
Qed.

(** ** sibling loops walk the child list of the parent *)
Lemma child_list_kind p : valid doc p -> child_nodes doc p <> [] -> has_child_list (kind doc p) = true.
Proof.
  intros Vp Hne. pose proof (sh_leaves doc Hshape p Vp) as H.
  destruct (kind doc p) eqn:Ek; try reflexivity; exfalso; apply Hne; apply H; discriminate.
Qed.

Lemma sibling_step_exact (rv : bool) p l1 x l2 : valid doc p ->
  (if rv then rev (child_nodes doc p) else child_nodes doc p) = l1 ++ x :: l2 ->
  (if rv then previous_sibling doc x else next_sibling doc x) = hd_error l2.
Proof.
  intros Vp E.
  assert (Hx : In x (child_nodes doc p)).
  { assert (H : In x (l1 ++ x :: l2)) by (apply in_or_app; right; left; reflexivity). rewrite <- E in H.
    destruct rv; [apply in_rev; exact H|exact H]. }
  assert (Hne : child_nodes doc p <> []) by (intros F; rewrite F in Hx; destruct Hx).
  assert (Hnd : NoDup (map (nid doc) (l1 ++ x :: l2))).
  { rewrite <- E. pose proof (wf_sibling_ids doc Hwf p Vp) as H. destruct rv; [rewrite map_rev; apply NoDup_rev; exact H|exact H]. }
  pose proof (skip_while_id_split doc (l1 ++ x :: l2) l1 l2 x Hnd eq_refl) as Hs.
  pose proof (sh_child_nav doc Hshape p x Vp Hx) as Hnav.
  pose proof (sh_child_parent doc Hshape p x Vp Hx) as Hpar.
  destruct rv; unfold previous_sibling, next_sibling, sibling_child; rewrite Hnav, Hpar, (child_list_kind p Vp Hne), E, Hs;
    destruct l2; reflexivity.
Qed.

Lemma sibling_loop_exact (rv : bool) p : valid doc p ->
  forall l2 l1 x fuel, (if rv then rev (child_nodes doc p) else child_nodes doc p) = l1 ++ x :: l2 ->
  (length l2 < fuel)%nat ->
  sibling_loop (if rv then previous_sibling doc else next_sibling doc) fuel (Some x) = Ok (x :: l2).
Proof.
  intros Vp l2. induction l2 as [|y l3 IH]; intros l1 x fuel E Hf; (destruct fuel as [|f]; [lia|]); cbn [sibling_loop].
  - pose proof (sibling_step_exact rv p l1 x [] Vp E) as Hs. cbn [hd_error] in Hs.
    destruct rv; rewrite Hs; destruct f; reflexivity.
  - pose proof (sibling_step_exact rv p l1 x (y :: l3) Vp E) as Hs. cbn [hd_error] in Hs.
    assert (E' : (if rv then rev (child_nodes doc p) else child_nodes doc p) = (l1 ++ [x]) ++ y :: l3)
      by (rewrite <- app_assoc; exact E).
    cbn [length] in Hf. specialize (IH (l1 ++ [x]) y f E').
    destruct rv; rewrite Hs, IH by lia; reflexivity.
Qed.

Lemma child_count p : valid doc p -> (length (child_nodes doc p) <= length doc)%nat.
Proof.
  intros Vp. apply valid_count.
  - apply (NoDup_map_inv' (nid doc)). apply (wf_sibling_ids doc Hwf p Vp).
  - apply Forall_forall. intros c Hc. apply (wf_children doc Hwf p c Vp Hc).
Qed.

(** from [x] onwards *)
Lemma sibling_axis_exact (rv : bool) p l1 x l2 : valid doc p ->
  (if rv then rev (child_nodes doc p) else child_nodes doc p) = l1 ++ x :: l2 ->
  sibling_loop (if rv then previous_sibling doc else next_sibling doc) (nav_fuel doc)
    ((if rv then previous_sibling doc else next_sibling doc) x) = Ok l2.
Proof.
  intros Vp E.
  assert (Hs : (if rv then previous_sibling doc else next_sibling doc) x = hd_error l2).
  { pose proof (sibling_step_exact rv p l1 x l2 Vp E) as H. destruct rv; exact H. }
  rewrite Hs. destruct l2 as [|y l3]; cbn [hd_error]; [reflexivity|].
  apply (sibling_loop_exact rv p Vp l3 (l1 ++ [x]) y); [rewrite <- app_assoc; exact E|].
  pose proof (child_count p Vp) as Hc.
  assert (Hl : length (if rv then rev (child_nodes doc p) else child_nodes doc p) = length (child_nodes doc p))
    by (destruct rv; [apply rev_length|reflexivity]).
  rewrite E, app_length in Hl. cbn [length] in Hl. unfold nav_fuel. lia.
Qed.

Lemma not_doctype_app l1 l2 : not_doctype doc (l1 ++ l2) = not_doctype doc l1 ++ not_doctype doc l2.
Proof. unfold not_doctype. apply filter_app. Qed.

Lemma not_doctype_rev l : not_doctype doc (rev l) = rev (not_doctype doc l).
Proof.
  unfold not_doctype. induction l as [|x t IH]; [reflexivity|]. cbn [rev filter]. rewrite filter_app, IH. cbn [filter].
  destruct (negb (nkind_eqb (kind doc x) KDocumentType)); cbn [rev]; [reflexivity|rewrite app_nil_r; reflexivity].
Qed.

Lemma xch_not_doctype p : In p (W p) -> xch p <> [] -> xch p = not_doctype doc (child_nodes doc p).
Proof.
  intros _ Hne. unfold xchildren in *. destruct (kind doc p); try (exfalso; apply Hne; reflexivity); reflexivity.
Qed.

(** the siblings after / before a child [i] of [p], as the model and the specification have them *)
Definition fsib (i : node) : list node :=
  match parent_node doc i with Some p => after i (xch p) | None => [] end.
Definition psib (i : node) : list node :=
  if nonattr i then match parent_node doc i with Some p => rev (before i (xch p)) | None => [] end else [].

Lemma child_split p i : T p -> In i (xch p) ->
  exists l1 l2, child_nodes doc p = l1 ++ i :: l2 /\
                xch p = not_doctype doc l1 ++ i :: not_doctype doc l2 /\ ~ In i (not_doctype doc l1).
Proof.
  intros Tp Hi. pose proof (TV p Tp) as Vp.
  destruct (in_split i (child_nodes doc p) (xchildren_incl doc p i Hi)) as [l1 [l2 E]].
  exists l1, l2. split; [exact E|].
  assert (Hx : xch p = not_doctype doc l1 ++ i :: not_doctype doc l2).
  { rewrite (xch_not_doctype p (W_self doc Hinv Hshape p Vp)) by (intros F; rewrite F in Hi; destruct Hi).
    rewrite E, not_doctype_app. f_equal. unfold not_doctype. cbn [filter].
    destruct (xch_kind doc Hshape p i Vp Hi) as [_ [_ [Hd _]]].
    destruct (nkind_eqb (kind doc i) KDocumentType) eqn:Ed; [apply nkind_eqb_true in Ed; contradiction|reflexivity]. }
  split; [exact Hx|]. pose proof (inc_NoDup _ (xch_inc doc Hinv Hshape p Tp)) as Hnd. rewrite Hx in Hnd.
  apply NoDup_remove_2 in Hnd. intros Hin. apply Hnd. apply in_or_app. left. exact Hin.
Qed.

Lemma nonattr_xch p i : valid doc p -> In i (xch p) -> nonattr i = true.
Proof. intros Vp Hi. apply nonattr_true. apply (xch_kind doc Hshape p i Vp Hi). Qed.

Lemma attr_not_xch p q i : valid doc p -> In i (attrs p) -> valid doc q -> ~ In i (xch q).
Proof.
  intros Vp Hi Vq Hin. destruct (xch_kind doc Hshape q i Vq Hin) as [H _]. apply H.
  apply (sh_attr_kind doc Hshape p i Vp Hi).
Qed.

Lemma following_sibling_exact i : T i -> following_sibling doc i = Ok (fsib i).
Proof.
  intros Ti. unfold following_sibling, fsib.
  destruct (T_kind doc Hinv Hshape i Ti) as [[-> _]|[[Ka [_ [_ [p [Tp Hp]]]]]|[_ [_ [_ [p [Tp Hp]]]]]]].
  - unfold next_sibling. rewrite (root_no_parent doc Hinv). destruct (sibling_nav_kind (kind doc doc_root)); reflexivity.
  - unfold next_sibling. rewrite Ka. cbn [sibling_nav_kind sibling_loop bind not_doctype filter].
    rewrite (sh_attr_parent doc Hshape p i (TV p Tp) Hp).
    rewrite after_notin; [reflexivity|]. apply (attr_not_xch p p i (TV p Tp) Hp (TV p Tp)).
  - destruct (child_split p i Tp Hp) as [l1 [l2 [E [Ex Hni]]]].
    destruct (xch_kind doc Hshape p i (TV p Tp) Hp) as [_ [_ [_ [_ [Epar _]]]]]. rewrite Epar.
    pose proof (sibling_axis_exact false p l1 i l2 (TV p Tp) E) as Hs. cbn beta iota in Hs. rewrite Hs. cbn [bind].
    rewrite Ex, after_split by exact Hni. reflexivity.
Qed.

Lemma preceding_sibling_exact i : T i -> preceding_sibling doc i = Ok (psib i).
Proof.
  intros Ti. unfold preceding_sibling, psib.
  destruct (T_kind doc Hinv Hshape i Ti) as [[-> _]|[[Ka [_ [_ [p [Tp Hp]]]]]|[_ [_ [_ [p [Tp Hp]]]]]]].
  - unfold previous_sibling. rewrite (root_no_parent doc Hinv).
    destruct (sibling_nav_kind (kind doc doc_root)); destruct (nonattr doc_root); reflexivity.
  - unfold previous_sibling, XPathRefineTree.nonattr. rewrite Ka. reflexivity.
  - destruct (child_split p i Tp Hp) as [l1 [l2 [E [Ex Hni]]]].
    destruct (xch_kind doc Hshape p i (TV p Tp) Hp) as [_ [_ [_ [_ [Epar _]]]]]. rewrite Epar.
    rewrite (nonattr_xch p i (TV p Tp) Hp).
    assert (E' : rev (child_nodes doc p) = rev l2 ++ i :: rev l1).
    { rewrite E, rev_app_distr. cbn [rev]. rewrite <- app_assoc. reflexivity. }
    pose proof (sibling_axis_exact true p (rev l2) i (rev l1) (TV p Tp) E') as Hs. cbn beta iota in Hs. rewrite Hs. cbn [bind].
    rewrite Ex, before_split by exact Hni. rewrite not_doctype_rev. reflexivity.
Qed.

Lemma fsib_split p l1 i l2 : T p -> xch p = l1 ++ i :: l2 -> fsib i = l2.
Proof.
  intros Tp E. assert (Hi : In i (xch p)) by (rewrite E; apply in_or_app; right; left; reflexivity).
  unfold fsib. destruct (xch_kind doc Hshape p i (TV p Tp) Hi) as [_ [_ [_ [_ [Epar _]]]]]. rewrite Epar, E.
  apply after_split. pose proof (inc_NoDup _ (xch_inc doc Hinv Hshape p Tp)) as Hnd. rewrite E in Hnd.
  apply NoDup_remove_2 in Hnd. intros Hin. apply Hnd. apply in_or_app. left. exact Hin.
Qed.

Lemma psib_split p l1 i l2 : T p -> xch p = l1 ++ i :: l2 -> psib i = rev l1.
Proof.
  intros Tp E. assert (Hi : In i (xch p)) by (rewrite E; apply in_or_app; right; left; reflexivity).
  unfold psib. rewrite (nonattr_xch p i (TV p Tp) Hi).
  destruct (xch_kind doc Hshape p i (TV p Tp) Hi) as [_ [_ [_ [_ [Epar _]]]]]. rewrite Epar, E.
  f_equal. apply before_split. pose proof (inc_NoDup _ (xch_inc doc Hinv Hshape p Tp)) as Hnd. rewrite E in Hnd.
  apply NoDup_remove_2 in Hnd. intros Hin. apply Hnd. apply in_or_app. left. exact Hin.
Qed.

(** ** descendant-or-self of a list of tree nodes *)
Lemma das_exact s : T s -> descendant_and_self doc s = Ok (s :: D s).
Proof.
  intros Ts. destruct (axis_descendant_or_self_agrees doc Hinv Hshape s (TV s Ts)) as [E _]. exact E.
Qed.

Lemma das_list_exact l : Forall T l -> flat_map_res (descendant_and_self doc) l = Ok (flat_map (fun s => s :: D s) l).
Proof. intros H. apply flat_map_res_eq. intros x Hx. apply das_exact. rewrite Forall_forall in H. apply H. exact Hx. Qed.

Lemma descendant_exact s : T s -> descendant doc s = Ok (D s).
Proof.
  intros Ts. destruct (axis_descendant_agrees doc Hinv Hshape s (TV s Ts)) as [E _]. exact E.
Qed.

(** a piece of the child list: the non-attribute rows of the subtrees, increasing *)
Lemma das_piece_inc p l1 l2 l3 : T p -> xch p = l1 ++ l2 ++ l3 -> inc (flat_map (fun s => s :: D s) l2).
Proof.
  intros Tp E. rewrite (das_filter doc Hinv Hshape p l2 (TV p Tp)).
  - apply inc_filter. destruct (T_pieces doc Hinv Hshape p Tp) as [_ [H _]]. rewrite E, !flat_map_app in H.
    apply inc_app in H. destruct H as [_ [H _]]. apply inc_app in H. apply H.
  - intros c Hc. rewrite E. apply in_or_app. right. apply in_or_app. left. exact Hc.
Qed.

Lemma das_piece_in p l m : T p -> (forall c, In c l -> In c (xch p)) ->
  In m (flat_map (fun s => s :: D s) l) ->
  T m /\ kind doc m <> KAttribute /\ exists s, In s l /\ In m (W s).
Proof.
  intros Tp Hl Hm. apply in_flat_map in Hm. destruct Hm as [s [Hs Hm]].
  pose proof (T_child doc Hinv Hshape p s Tp (Hl s Hs)) as Ts.
  destruct Hm as [<-|Hm].
  - split; [exact Ts|]. split; [apply (xch_kind doc Hshape p s (TV p Tp) (Hl s Hs))|].
    exists s. split; [exact Hs|apply W_self; [exact Hinv|exact Hshape|apply TV; exact Ts]].
  - destruct (D_in_W doc Hinv Hshape s m (TV s Ts) Hm) as [Hw Hk]. split; [apply (T_sub doc Hinv Hshape s m Ts Hw)|].
    split; [exact Hk|]. exists s. split; assumption.
Qed.

Lemma W_child_sub p c x : T p -> In c (xch p) -> In x (W c) -> In x (W p).
Proof.
  intros Tp Hc Hx. apply (W_in doc Hinv Hshape p x (TV p Tp)). right. right. exists c. split; assumption.
Qed.

Lemma parent_lt p i : T p -> In i (xch p) \/ In i (attrs p) -> p < i.
Proof.
  intros Tp Hi. apply (W_lt doc Hinv Hshape p i Tp).
  - apply (W_in doc Hinv Hshape p i (TV p Tp)). right. destruct Hi as [Hi|Hi]; [right|left; exact Hi].
    exists i. split; [exact Hi|]. apply W_self; [exact Hinv|exact Hshape|]. apply (xch_valid doc Hinv p i (TV p Tp) Hi).
  - intros ->. destruct Hi as [Hi|Hi].
    + pose proof (xch_valid doc Hinv p p (TV p Tp) Hi) as [_ H]. lia.
    + destruct (attr_leaf doc Hinv Hshape p p (TV p Tp) Hi) as [_ [_ E]]. rewrite E in Hi. destruct Hi.
Qed.

(** ** following *)
Definition Gf (a : node) : list node := flat_map (fun s => s :: D s) (fsib a).

Lemma foll_chain : forall a al, chain a al -> T a -> kind doc a <> KAttribute ->
  NoDup (flat_map Gf (a :: al)) /\
  forall m, In m (flat_map Gf (a :: al)) <-> (T m /\ kind doc m <> KAttribute /\ forall x, In x (W a) -> x < m).
Proof.
  intros a al Hc. induction Hc as [a E|a p al E Hc IH]; intros Ta Ka.
  - pose proof (chain_root_is_root a (chain_root a E) Ta) as ->.
    assert (Eg : Gf doc_root = []) by (unfold Gf, fsib; rewrite E; reflexivity).
    cbn [flat_map]. rewrite Eg. cbn [app]. split; [constructor|]. intros m. split; [intros []|].
    intros [Tm [_ H]]. specialize (H m Tm). lia.
  - destruct (T_parent_T doc Hinv Hshape a p Ta E) as [Tp [Hap|Hap]].
    2:{ exfalso. apply Ka. apply (sh_attr_kind doc Hshape p a (TV p Tp) Hap). }
    assert (Kp : kind doc p <> KAttribute).
    { destruct (xch_kind doc Hshape p a (TV p Tp) Hap) as [_ [_ [_ [_ [_ [Kp|Kp]]]]]]; rewrite Kp; discriminate. }
    destruct (IH Tp Kp) as [IHnd IHin].
    destruct (in_split a (xch p) Hap) as [l1 [l2 Ex]].
    pose proof (fsib_split p l1 a l2 Tp Ex) as Ef.
    assert (Hl2 : forall c, In c l2 -> In c (xch p)) by (intros c Hc'; rewrite Ex; apply in_or_app; right; right; exact Hc').
    change (flat_map Gf (a :: p :: al)) with (Gf a ++ flat_map Gf (p :: al)).
    assert (Hga : forall m, In m (Gf a) -> T m /\ kind doc m <> KAttribute /\ In m (W p) /\ forall x, In x (W a) -> x < m).
    { intros m Hm. unfold Gf in Hm. rewrite Ef in Hm. destruct (das_piece_in p l2 m Tp Hl2 Hm) as [Tm [Km [s [Hs Hms]]]].
      split; [exact Tm|]. split; [exact Km|]. split; [apply (W_child_sub p s m Tp (Hl2 s Hs) Hms)|].
      intros x Hx. apply (siblings_ordered doc Hinv Hshape p l1 a l2 s x m Tp Ex Hs Hx Hms). }
    split.
    + apply NoDup_app_intro; [|exact IHnd|].
      * unfold Gf. rewrite Ef. apply inc_NoDup. apply (das_piece_inc p (l1 ++ [a]) l2 [] Tp).
        rewrite app_nil_r, <- app_assoc. exact Ex.
      * intros m Hm1 Hm2. destruct (Hga m Hm1) as [_ [_ [Hwp _]]]. apply IHin in Hm2. destruct Hm2 as [_ [_ H]].
        specialize (H m Hwp). lia.
    + intros m. rewrite in_app_iff, IHin. split.
      * intros [Hm|[Tm [Km H]]].
        -- destruct (Hga m Hm) as [Tm [Km [_ H]]]. split; [exact Tm|split; [exact Km|exact H]].
        -- split; [exact Tm|]. split; [exact Km|]. intros x Hx. apply H. apply (W_child_sub p a x Tp Hap Hx).
      * intros [Tm [Km H]].
        assert (Ham : a < m) by (apply H; apply W_self; [exact Hinv|exact Hshape|apply TV; exact Ta]).
        pose proof (parent_lt p a Tp (or_introl Hap)) as Hpa.
        destruct (T_outside doc Hinv Hshape p m Tp Tm) as [Hin|[Hlt|Hgt]].
        -- left. apply (W_in doc Hinv Hshape p m (TV p Tp)) in Hin. destruct Hin as [->|[Hin|[c [Hc' Hmc]]]]; [lia| |].
           ++ exfalso. apply Km. apply (sh_attr_kind doc Hshape p m (TV p Tp) Hin).
           ++ rewrite Ex in Hc'. apply in_app_or in Hc'. destruct Hc' as [Hc'|[<-|Hc']].
              ** exfalso. destruct (in_split c l1 Hc') as [u [v Eu]].
                 assert (Ex' : xch p = u ++ c :: (v ++ a :: l2)) by (rewrite Ex, Eu, <- app_assoc; reflexivity).
                 assert (Hlt : m < a).
                 { apply (siblings_ordered doc Hinv Hshape p u c (v ++ a :: l2) a m a Tp Ex'); [apply in_or_app; right; left; reflexivity|exact Hmc|].
                   apply W_self; [exact Hinv|exact Hshape|apply TV; exact Ta]. }
                 lia.
              ** exfalso. specialize (H m Hmc). lia.
              ** unfold Gf. rewrite Ef. apply in_flat_map. exists c. split; [exact Hc'|].
                 pose proof (T_child doc Hinv Hshape p c Tp (Hl2 c Hc')) as Tc.
                 destruct (W_nonattr doc Hinv Hshape c m (TV c Tc) Hmc Km) as [->|Hd]; [left; reflexivity|right; exact Hd].
        -- lia.
        -- right. split; [exact Tm|]. split; [exact Km|exact Hgt].
Qed.

(** ** preceding *)
Definition Gp (a : node) : list node := flat_map (fun s => rev (s :: D s)) (psib a).

Lemma Gp_rev a : Gp a = rev (flat_map (fun s => s :: D s) (rev (psib a))).
Proof. unfold Gp. rewrite <- (rev_involutive (psib a)) at 1. apply flat_map_rev. Qed.

Lemma prec_chain : forall a al, chain a al -> T a ->
  NoDup (flat_map Gp (a :: al)) /\
  forall m, In m (flat_map Gp (a :: al)) <-> (T m /\ kind doc m <> KAttribute /\ m < a /\ ~ In m al).
Proof.
  intros a al Hc. induction Hc as [a E|a p al E Hc IH]; intros Ta.
  - pose proof (chain_root_is_root a (chain_root a E) Ta) as ->.
    assert (Eg : Gp doc_root = []) by (unfold Gp, psib; rewrite E; destruct (nonattr doc_root); reflexivity).
    cbn [flat_map]. rewrite Eg. cbn [app]. split; [constructor|]. intros m. split; [intros []|].
    intros [_ [_ [H _]]]. unfold doc_root in H. lia.
  - destruct (T_parent_T doc Hinv Hshape a p Ta E) as [Tp Hap].
    destruct (IH Tp) as [IHnd IHin].
    pose proof (parent_lt p a Tp Hap) as Hpa.
    pose proof (chain_lt p al Hc Tp) as Hal.
    change (flat_map Gp (a :: p :: al)) with (Gp a ++ flat_map Gp (p :: al)).
    destruct Hap as [Hap|Hap].
    + destruct (in_split a (xch p) Hap) as [l1 [l2 Ex]].
      pose proof (psib_split p l1 a l2 Tp Ex) as Ef.
      assert (Hl1 : forall c, In c l1 -> In c (xch p)) by (intros c Hc'; rewrite Ex; apply in_or_app; left; exact Hc').
      assert (Eg : Gp a = rev (flat_map (fun s => s :: D s) l1)) by (rewrite Gp_rev, Ef, rev_involutive; reflexivity).
      assert (Hga : forall m, In m (Gp a) -> T m /\ kind doc m <> KAttribute /\ In m (W p) /\ p < m /\ m < a).
      { intros m Hm. rewrite Eg in Hm. apply in_rev in Hm.
        destruct (das_piece_in p l1 m Tp Hl1 Hm) as [Tm [Km [s [Hs Hms]]]].
        pose proof (W_child_sub p s m Tp (Hl1 s Hs) Hms) as Hwp.
        split; [exact Tm|]. split; [exact Km|]. split; [exact Hwp|]. split.
        - pose proof (T_child doc Hinv Hshape p s Tp (Hl1 s Hs)) as Ts.
          pose proof (W_min doc Hinv Hshape s m Ts Hms). pose proof (parent_lt p s Tp (or_introl (Hl1 s Hs))). lia.
        - destruct (in_split s l1 Hs) as [u [v Eu]].
          assert (Ex' : xch p = u ++ s :: (v ++ a :: l2)) by (rewrite Ex, Eu, <- app_assoc; reflexivity).
          apply (siblings_ordered doc Hinv Hshape p u s (v ++ a :: l2) a m a Tp Ex'); [apply in_or_app; right; left; reflexivity|exact Hms|].
          apply W_self; [exact Hinv|exact Hshape|apply TV; exact Ta]. }
      split.
      * apply NoDup_app_intro; [|exact IHnd|].
        -- rewrite Eg. apply NoDup_rev. apply inc_NoDup. apply (das_piece_inc p [] l1 (a :: l2) Tp). exact Ex.
        -- intros m Hm1 Hm2. destruct (Hga m Hm1) as [_ [_ [_ [H1 _]]]]. apply IHin in Hm2. destruct Hm2 as [_ [_ [H2 _]]]. lia.
      * intros m. rewrite in_app_iff, IHin. split.
        -- intros [Hm|[Tm [Km [Hlt Hni]]]].
           ++ destruct (Hga m Hm) as [Tm [Km [_ [H1 H2]]]]. split; [exact Tm|]. split; [exact Km|]. split; [exact H2|].
              intros [->|Hin]; [lia|]. specialize (Hal m Hin). lia.
           ++ split; [exact Tm|]. split; [exact Km|]. split; [lia|]. intros [->|Hin]; [lia|contradiction].
        -- intros [Tm [Km [Hlt Hni]]].
           destruct (T_outside doc Hinv Hshape p m Tp Tm) as [Hin|[Hlt'|Hgt]].
           ++ left. apply (W_in doc Hinv Hshape p m (TV p Tp)) in Hin. destruct Hin as [->|[Hin|[c [Hc' Hmc]]]].
              ** exfalso. apply Hni. left. reflexivity.
              ** exfalso. apply Km. apply (sh_attr_kind doc Hshape p m (TV p Tp) Hin).
              ** rewrite Ex in Hc'. apply in_app_or in Hc'. destruct Hc' as [Hc'|[<-|Hc']].
                 --- rewrite Eg. apply -> in_rev. apply in_flat_map. exists c. split; [exact Hc'|].
                     pose proof (T_child doc Hinv Hshape p c Tp (Hl1 c Hc')) as Tc.
                     destruct (W_nonattr doc Hinv Hshape c m (TV c Tc) Hmc Km) as [->|Hd]; [left; reflexivity|right; exact Hd].
                 --- exfalso. pose proof (W_min doc Hinv Hshape a m Ta Hmc). lia.
                 --- exfalso.
                     assert (a < m).
                     { apply (siblings_ordered doc Hinv Hshape p l1 a l2 c a m Tp Ex Hc'); [|exact Hmc].
                       apply W_self; [exact Hinv|exact Hshape|apply TV; exact Ta]. }
                     lia.
           ++ right. split; [exact Tm|]. split; [exact Km|]. split; [exact Hlt'|]. intros Hin. apply Hni. right. exact Hin.
           ++ exfalso. assert (a < m).
              { apply Hgt. apply (W_in doc Hinv Hshape p a (TV p Tp)). right. right. exists a. split; [exact Hap|].
                apply W_self; [exact Hinv|exact Hshape|apply TV; exact Ta]. }
              lia.
    + assert (Eg : Gp a = []).
      { unfold Gp, psib, XPathRefineTree.nonattr. rewrite (sh_attr_kind doc Hshape p a (TV p Tp) Hap). reflexivity. }
      rewrite Eg. cbn [app]. split; [exact IHnd|]. intros m. rewrite IHin. split.
      * intros [Tm [Km [Hlt Hni]]]. split; [exact Tm|]. split; [exact Km|]. split; [lia|].
        intros [->|Hin]; [lia|contradiction].
      * intros [Tm [Km [Hlt Hni]]]. split; [exact Tm|]. split; [exact Km|].
        assert (Hni' : ~ In m al) by (intros Hin; apply Hni; right; exact Hin).
        split; [|exact Hni'].
        destruct (T_outside doc Hinv Hshape p m Tp Tm) as [Hin|[Hlt'|Hgt]]; [|exact Hlt'|].
        -- exfalso. apply (W_in doc Hinv Hshape p m (TV p Tp)) in Hin. destruct Hin as [->|[Hin|[c [Hc' Hmc]]]].
           ++ apply Hni. left. reflexivity.
           ++ apply Km. apply (sh_attr_kind doc Hshape p m (TV p Tp) Hin).
           ++ pose proof (attr_before_child doc Hinv Hshape p a c m Tp Hap Hc' Hmc). lia.
        -- exfalso. assert (a < m).
           { apply Hgt. apply (W_in doc Hinv Hshape p a (TV p Tp)). right. left. exact Hap. }
           lia.
Qed.

(** ** the twelve axes *)
Definition axis_ok (a : axis_spec) (i : node) : Prop :=
  exists l l', axis_nodes doc a i = Ok l /\ NoDup l /\ Forall T l /\
               s_axis doc (axis_of a) (Row i) = map Row l' /\ inc l' /\ (forall x, In x l' <-> In x l).

Lemma axis_ok_same a i l : axis_nodes doc a i = Ok l -> inc l -> Forall T l ->
  s_axis doc (axis_of a) (Row i) = map Row l -> axis_ok a i.
Proof.
  intros E Hi Ht Es. exists l, l. split; [exact E|]. split; [apply inc_NoDup; exact Hi|]. split; [exact Ht|].
  split; [exact Es|]. split; [exact Hi|]. intros x. reflexivity.
Qed.

Lemma T_list_children i : T i -> Forall T (xch i).
Proof. intros Ti. apply Forall_forall. intros c Hc. apply (T_child doc Hinv Hshape i c Ti Hc). Qed.

Lemma T_list_attrs i : T i -> Forall T (attrs i).
Proof. intros Ti. apply Forall_forall. intros c Hc. apply (T_attr doc Hinv Hshape i c Ti Hc). Qed.

Lemma T_list_desc i : T i -> Forall T (D i).
Proof. intros Ti. apply Forall_forall. intros c Hc. apply (D_T doc Hinv Hshape i c Ti Hc). Qed.

Lemma child_axis_ok a i : T i -> axis_nodes doc a i = Ok (xp_child doc i) -> axis_of a = AxChild -> axis_ok a i.
Proof.
  intros Ti E Ea. rewrite (xp_child_xchildren doc Hshape i (TV i Ti)) in E.
  apply (axis_ok_same a i (xch i) E); [apply (xch_inc doc Hinv Hshape i Ti)|apply T_list_children; exact Ti|].
  rewrite Ea. reflexivity.
Qed.

Lemma attribute_axis_ok a i : T i -> axis_nodes doc a i = Ok (attrs i) -> axis_of a = AxAttribute -> axis_ok a i.
Proof.
  intros Ti E Ea.
  apply (axis_ok_same a i (attrs i) E); [apply (attrs_inc doc Hinv Hshape i Ti)|apply T_list_attrs; exact Ti|].
  rewrite Ea. apply (attribute_axis_agrees doc Hshape i (TV i Ti)).
Qed.

Lemma n_nodeset_inc l : inc (n_nodeset l).
Proof. apply n_nodeset_sorted. Qed.

Lemma following_spec i :
  s_axis doc AxFollowing (Row i) =
  map Row (filter (fun x => ((i <? x) && negb (existsb (N.eqb x) (D i))) && nonattr x) (W doc_root)).
Proof.
  cbn [s_axis]. rewrite (filter_walk (fun m => sn_ltb doc (Row i) m && negb (sn_mem doc m (s_descendants doc (Row i))))).
  rewrite <- (W_root doc). f_equal. apply filter_ext. intros x. cbn [s_descendants]. rewrite sn_ltb_row, sn_mem_rows. reflexivity.
Qed.

Lemma preceding_spec i al : T i -> ancestor doc i = Ok al ->
  s_axis doc AxPreceding (Row i) =
  map Row (filter (fun x => ((x <? i) && negb (existsb (N.eqb x) al)) && nonattr x) (W doc_root)).
Proof.
  intros Ti Ea. cbn [s_axis]. rewrite (filter_walk (fun m => sn_ltb doc m (Row i) && negb (sn_mem doc m (ancestors doc (Row i))))).
  rewrite <- (W_root doc). f_equal. apply filter_ext. intros x. rewrite (spec_ancestors i al Ti Ea), sn_ltb_row, sn_mem_rows. reflexivity.
Qed.

Theorem axis_agrees a (i : node) : T i -> not_ns_axis a = true -> axis_ok a i.
Proof.
  intros Ti Hns. pose proof (TV i Ti) as Vi.
  destruct a as [ax|s].
  2:{ cbn [axis_of]. destruct (str_eqb s [64]) eqn:Es.
      - apply attribute_axis_ok; [exact Ti| |cbn [axis_of]; rewrite Es; reflexivity].
        cbn [axis_nodes]. unfold s_at. rewrite Es. reflexivity.
      - apply child_axis_ok; [exact Ti| |cbn [axis_of]; rewrite Es; reflexivity].
        cbn [axis_nodes]. unfold s_at. rewrite Es. reflexivity. }
  destruct ax; try discriminate Hns.
  - (* ancestor *)
    destruct (ancestor_ok_chain i Ti) as [al [Ea Hc]].
    exists al, (n_nodeset al). split; [exact Ea|]. split; [apply (chain_NoDup i al Hc Ti)|]. split; [apply (chain_T i al Hc Ti)|].
    split; [|split; [apply n_nodeset_inc|intros x; apply n_nodeset_in]].
    cbn [axis_of s_axis]. rewrite (spec_ancestors i al Ti Ea). apply nodeset_rows.
  - (* ancestor-or-self *)
    destruct (ancestor_ok_chain i Ti) as [al [Ea Hc]].
    exists (i :: al), (n_nodeset (i :: al)). split; [cbn [axis_nodes]; unfold ancestor_and_self; rewrite Ea; reflexivity|].
    split.
    { constructor; [|apply (chain_NoDup i al Hc Ti)]. intros Hin. pose proof (chain_lt i al Hc Ti i Hin). lia. }
    split; [constructor; [exact Ti|apply (chain_T i al Hc Ti)]|].
    split; [|split; [apply n_nodeset_inc|intros x; apply n_nodeset_in]].
    cbn [axis_of s_axis]. rewrite (spec_ancestors i al Ti Ea). apply (nodeset_rows doc (i :: al)).
  - apply attribute_axis_ok; [exact Ti|reflexivity|reflexivity].
  - apply child_axis_ok; [exact Ti|reflexivity|reflexivity].
  - (* descendant *)
    destruct (axis_descendant_agrees doc Hinv Hshape i Vi) as [E1 E2].
    apply (axis_ok_same _ i (D i) E1); [apply (D_inc doc Hinv Hshape i Ti)|apply T_list_desc; exact Ti|exact E2].
  - (* descendant-or-self *)
    destruct (axis_descendant_or_self_agrees doc Hinv Hshape i Vi) as [E1 E2].
    apply (axis_ok_same _ i (i :: D i) E1); [apply (D_self_inc doc Hinv Hshape i Ti)| |exact E2].
    constructor; [exact Ti|apply T_list_desc; exact Ti].
  - (* following *)
    destruct (ancestor_ok_chain i Ti) as [al [Ea Hc]].
    assert (Hrest : flat_map_res (fun a => bind (following_sibling doc a) (flat_map_res (descendant_and_self doc))) (i :: al)
                    = Ok (flat_map Gf (i :: al))).
    { apply flat_map_res_eq. intros a Ha.
      assert (Ta : T a).
      { destruct Ha as [<-|Ha]; [exact Ti|]. pose proof (chain_T i al Hc Ti) as H. rewrite Forall_forall in H. apply H. exact Ha. }
      rewrite (following_sibling_exact a Ta). cbn [bind]. unfold Gf. apply das_list_exact.
      apply Forall_forall. intros s Hs. unfold fsib in Hs. destruct (parent_node doc a) as [p|] eqn:Ep; [|destruct Hs].
      destruct (T_parent_T doc Hinv Hshape a p Ta Ep) as [Tp _].
      apply (T_child doc Hinv Hshape p s Tp).
      assert (Hsub : forall l, In s (after a l) -> In s l).
      { induction l as [|y t IHl]; cbn [after]; [intros []|]. destruct (y =? a); intros H; [right; exact H|right; apply IHl; exact H]. }
      apply Hsub. exact Hs. }
    set (l' := filter (fun x => ((i <? x) && negb (existsb (N.eqb x) (D i))) && nonattr x) (W doc_root)).
    assert (Hl' : forall x, In x l' <-> (T x /\ i < x /\ ~ In x (D i) /\ kind doc x <> KAttribute)).
    { intros x. unfold l'. rewrite filter_In, !andb_true_iff, N.ltb_lt, negb_true_iff, nonattr_true.
      rewrite <- not_true_iff_false, existsb_eqb_in. unfold XPathRefineTree.T. tauto. }
    assert (Hinc : inc l') by (apply inc_filter; apply (root_inc doc Hshape)).
    destruct (T_kind doc Hinv Hshape i Ti) as [[Er Kr]|[[Ka [Ex [Eat [p [Tp Hp]]]]]|[Ka _]]].
    + (* the root *)
      assert (Kna : kind doc i <> KAttribute) by (rewrite Kr; discriminate).
      destruct (foll_chain i al Hc Ti Kna) as [Hnd Hin].
      exists (flat_map Gf (i :: al)), l'.
      split.
      { cbn [axis_nodes]. unfold following. rewrite Kr. rewrite bind_ok. unfold ancestor_and_self. rewrite Ea. rewrite !bind_ok.
        rewrite Hrest. reflexivity. }
      split; [exact Hnd|]. split; [apply Forall_forall; intros x Hx; apply Hin in Hx; apply Hx|].
      split; [apply following_spec|]. split; [exact Hinc|].
      intros x. rewrite Hl', Hin. split.
      * intros [Tx [Hlt [Hnd' Kx]]]. split; [exact Tx|]. split; [exact Kx|]. intros y Hy.
        destruct (T_outside doc Hinv Hshape i x Ti Tx) as [Hw|[Hlt'|Hgt]]; [|lia|apply Hgt; exact Hy].
        exfalso. destruct (W_nonattr doc Hinv Hshape i x Vi Hw Kx) as [->|Hd]; [lia|contradiction].
      * intros [Tx [Kx H]]. split; [exact Tx|]. split; [apply H; apply W_self; [exact Hinv|exact Hshape|exact Vi]|].
        split; [|exact Kx]. intros Hd. destruct (D_in_W doc Hinv Hshape i x Vi Hd) as [Hw _]. specialize (H x Hw). lia.
    + (* an attribute: the content of its element, then what follows the element *)
      pose proof (sh_attr_parent doc Hshape p i (TV p Tp) Hp) as Epar.
      assert (Hal : exists al', al = p :: al' /\ chain p al').
      { inversion Hc as [i' E0|i' q al' E0 Hc']; subst; rewrite Epar in E0; [discriminate|]. inversion E0; subst q.
        exists al'. split; [reflexivity|exact Hc']. }
      destruct Hal as [al' [-> Hcp]].
      assert (Kp : kind doc p <> KAttribute).
      { intros F. pose proof (sh_attrs doc Hshape p (TV p Tp)) as H. rewrite H in Hp; [destruct Hp|]. rewrite F. discriminate. }
      destruct (foll_chain p al' Hcp Tp Kp) as [Hnd Hin].
      assert (Egi : Gf i = []).
      { unfold Gf, fsib. rewrite Epar, after_notin; [reflexivity|]. apply (attr_not_xch p p i (TV p Tp) Hp (TV p Tp)). }
      assert (Edi : D i = []) by (rewrite (D_eq doc Hinv i Vi), Ex; reflexivity).
      exists (D p ++ flat_map Gf (p :: al')), l'.
      split.
      { cbn [axis_nodes]. unfold following, xp_parent. rewrite Ka, Epar, (descendant_exact p Tp). rewrite bind_ok.
        unfold ancestor_and_self. rewrite Ea. rewrite !bind_ok. rewrite Hrest. cbn [flat_map]. rewrite Egi. reflexivity. }
      assert (Hdp : forall m, In m (D p) -> T m /\ kind doc m <> KAttribute /\ In m (W p) /\ i < m).
      { intros m Hm. destruct (D_in_W doc Hinv Hshape p m (TV p Tp) Hm) as [Hw Km].
        split; [apply (D_T doc Hinv Hshape p m Tp Hm)|]. split; [exact Km|]. split; [exact Hw|].
        apply (W_in doc Hinv Hshape p m (TV p Tp)) in Hw. destruct Hw as [->|[Hw|[c [Hc' Hmc]]]].
        - pose proof (D_gt doc Hinv Hshape p p Tp Hm). lia.
        - exfalso. apply Km. apply (sh_attr_kind doc Hshape p m (TV p Tp) Hw).
        - apply (attr_before_child doc Hinv Hshape p i c m Tp Hp Hc' Hmc). }
      split.
      { apply NoDup_app_intro; [apply inc_NoDup; apply (D_inc doc Hinv Hshape p Tp)|exact Hnd|].
        intros m Hm1 Hm2. destruct (Hdp m Hm1) as [_ [_ [Hw _]]]. apply Hin in Hm2. destruct Hm2 as [_ [_ H]]. specialize (H m Hw). lia. }
      split.
      { apply Forall_app. split; [apply T_list_desc; exact Tp|]. apply Forall_forall. intros x Hx. apply Hin in Hx. apply Hx. }
      split; [apply following_spec|]. split; [exact Hinc|].
      pose proof (parent_lt p i Tp (or_intror Hp)) as Hpi.
      intros x. rewrite Hl', in_app_iff, Hin, Edi. split.
      * intros [Tx [Hlt [_ Kx]]].
        destruct (T_outside doc Hinv Hshape p x Tp Tx) as [Hw|[Hlt'|Hgt]]; [|lia|].
        -- left. destruct (W_nonattr doc Hinv Hshape p x (TV p Tp) Hw Kx) as [->|Hd]; [lia|exact Hd].
        -- right. split; [exact Tx|]. split; [exact Kx|exact Hgt].
      * intros [Hd|[Tx [Kx H]]].
        -- destruct (Hdp x Hd) as [Tx [Kx [_ Hlt]]]. split; [exact Tx|]. split; [exact Hlt|]. split; [intros []|exact Kx].
        -- split; [exact Tx|]. split; [|split; [intros []|exact Kx]].
           apply H. apply (W_in doc Hinv Hshape p i (TV p Tp)). right. left. exact Hp.
    + (* a child *)
      destruct (foll_chain i al Hc Ti Ka) as [Hnd Hin].
      exists (flat_map Gf (i :: al)), l'.
      split.
      { cbn [axis_nodes]. unfold following.
        assert (Epre : match kind doc i, xp_parent doc i with
                       | KAttribute, Some owner => descendant doc owner
                       | _, _ => Ok []
                       end = Ok []) by (destruct (kind doc i); try reflexivity; contradiction).
        rewrite Epre. rewrite bind_ok. unfold ancestor_and_self. rewrite Ea. rewrite !bind_ok. rewrite Hrest. reflexivity. }
      split; [exact Hnd|]. split; [apply Forall_forall; intros x Hx; apply Hin in Hx; apply Hx|].
      split; [apply following_spec|]. split; [exact Hinc|].
      intros x. rewrite Hl', Hin. split.
      * intros [Tx [Hlt [Hnd' Kx]]]. split; [exact Tx|]. split; [exact Kx|]. intros y Hy.
        destruct (T_outside doc Hinv Hshape i x Ti Tx) as [Hw|[Hlt'|Hgt]]; [|lia|apply Hgt; exact Hy].
        exfalso. destruct (W_nonattr doc Hinv Hshape i x Vi Hw Kx) as [->|Hd]; [lia|contradiction].
      * intros [Tx [Kx H]]. split; [exact Tx|]. split; [apply H; apply W_self; [exact Hinv|exact Hshape|exact Vi]|].
        split; [|exact Kx]. intros Hd. destruct (D_in_W doc Hinv Hshape i x Vi Hd) as [Hw _]. specialize (H x Hw). lia.
  - (* following-sibling *)
    apply (axis_ok_same _ i (fsib i)).
    + cbn [axis_nodes]. apply following_sibling_exact. exact Ti.
    + unfold fsib. destruct (parent_node doc i) as [p|] eqn:Ep; [|constructor].
      destruct (T_parent_T doc Hinv Hshape i p Ti Ep) as [Tp _].
      pose proof (xch_inc doc Hinv Hshape p Tp) as H.
      assert (Hgen : forall l, inc l -> inc (after i l)).
      { induction l as [|y t IHl]; intros Hl; cbn [after]; [constructor|]. inversion Hl; subst. destruct (y =? i); [assumption|apply IHl; assumption]. }
      apply Hgen. exact H.
    + apply Forall_forall. intros s Hs. unfold fsib in Hs. destruct (parent_node doc i) as [p|] eqn:Ep; [|destruct Hs].
      destruct (T_parent_T doc Hinv Hshape i p Ti Ep) as [Tp _]. apply (T_child doc Hinv Hshape p s Tp).
      assert (Hsub : forall l, In s (after i l) -> In s l).
      { induction l as [|y t IHl]; cbn [after]; [intros []|]. destruct (y =? i); intros H; [right; exact H|right; apply IHl; exact H]. }
      apply Hsub. exact Hs.
    + cbn [axis_of s_axis is_attr_or_ns]. rewrite (spec_parent i Ti). unfold fsib.
      destruct (nkind_eqb (kind doc i) KAttribute) eqn:Ek.
      * apply nkind_eqb_true in Ek.
        destruct (T_kind doc Hinv Hshape i Ti) as [[_ Kr]|[[_ [_ [_ [p [Tp Hp]]]]]|[Ka _]]]; [rewrite Kr in Ek; discriminate| |contradiction].
        rewrite (sh_attr_parent doc Hshape p i (TV p Tp) Hp).
        rewrite after_notin; [reflexivity|]. apply (attr_not_xch p p i (TV p Tp) Hp (TV p Tp)).
      * destruct (parent_node doc i); reflexivity.
  - (* parent *)
    apply (axis_ok_same _ i (opt_list (xp_parent doc i))); [reflexivity| | |].
    + destruct (xp_parent doc i); cbn [opt_list]; repeat constructor.
    + unfold xp_parent. destruct (parent_node doc i) as [p|] eqn:Ep; cbn [opt_list]; [|constructor].
      destruct (T_parent_T doc Hinv Hshape i p Ti Ep) as [Tp _]. constructor; [exact Tp|constructor].
    + cbn [axis_of s_axis]. rewrite (spec_parent i Ti). unfold xp_parent. destruct (parent_node doc i); reflexivity.
  - (* preceding *)
    destruct (ancestor_ok_chain i Ti) as [al [Ea Hc]].
    assert (Hrest : flat_map_res (fun a => bind (preceding_sibling doc a)
                      (flat_map_res (fun p => bind (descendant_and_self doc p) (fun d => Ok (rev d))))) (i :: al)
                    = Ok (flat_map Gp (i :: al))).
    { apply flat_map_res_eq. intros a Ha.
      assert (Ta : T a).
      { destruct Ha as [<-|Ha]; [exact Ti|]. pose proof (chain_T i al Hc Ti) as H. rewrite Forall_forall in H. apply H. exact Ha. }
      rewrite (preceding_sibling_exact a Ta). cbn [bind]. unfold Gp. apply flat_map_res_eq. intros s Hs.
      assert (Ts : T s).
      { unfold psib in Hs. destruct (nonattr a); [|destruct Hs]. destruct (parent_node doc a) as [p|] eqn:Ep; [|destruct Hs].
        destruct (T_parent_T doc Hinv Hshape a p Ta Ep) as [Tp _]. apply (T_child doc Hinv Hshape p s Tp).
        apply in_rev in Hs.
        assert (Hsub : forall l, In s (before a l) -> In s l).
        { induction l as [|y t IHl]; cbn [before]; [intros []|]. destruct (y =? a); [intros []|]. intros [->|H]; [left; reflexivity|right; apply IHl; exact H]. }
        apply Hsub. exact Hs. }
      rewrite (das_exact s Ts). reflexivity. }
    destruct (prec_chain i al Hc Ti) as [Hnd Hin].
    set (l' := filter (fun x => ((x <? i) && negb (existsb (N.eqb x) al)) && nonattr x) (W doc_root)).
    exists (flat_map Gp (i :: al)), l'.
    split; [cbn [axis_nodes]; unfold preceding, ancestor_and_self; rewrite Ea; rewrite !bind_ok; exact Hrest|].
    split; [exact Hnd|]. split; [apply Forall_forall; intros x Hx; apply Hin in Hx; apply Hx|].
    split; [apply (preceding_spec i al Ti Ea)|]. split; [apply inc_filter; apply (root_inc doc Hshape)|].
    intros x. rewrite Hin. unfold l'. rewrite filter_In, !andb_true_iff, N.ltb_lt, negb_true_iff, nonattr_true.
    rewrite <- not_true_iff_false, existsb_eqb_in. unfold XPathRefineTree.T. tauto.
  - (* preceding-sibling *)
    exists (psib i), (rev (psib i)).
    split; [cbn [axis_nodes]; apply preceding_sibling_exact; exact Ti|].
    assert (Hb : forall l, inc l -> inc (before i l)).
    { induction l as [|y t IHl]; intros Hl; cbn [before]; [constructor|]. inversion Hl as [|y' t' Ht Hy]; subst.
      destruct (y =? i); [constructor|]. constructor; [apply IHl; exact Ht|].
      apply Forall_forall. intros z Hz. rewrite Forall_forall in Hy. apply Hy.
      clear -Hz. induction t as [|w t IHt]; cbn [before] in Hz; [destruct Hz|]. destruct (w =? i); [destruct Hz|].
      destruct Hz as [->|Hz]; [left; reflexivity|right; apply IHt; exact Hz]. }
    assert (Hsub : forall s l, In s (before i l) -> In s l).
    { intros s. induction l as [|y t IHl]; cbn [before]; [intros []|]. destruct (y =? i); [intros []|]. intros [->|H]; [left; reflexivity|right; apply IHl; exact H]. }
    assert (Hinc : inc (rev (psib i))).
    { unfold psib. destruct (nonattr i); [|constructor]. destruct (parent_node doc i) as [p|] eqn:Ep; [|constructor].
      rewrite rev_involutive. destruct (T_parent_T doc Hinv Hshape i p Ti Ep) as [Tp _]. apply Hb. apply (xch_inc doc Hinv Hshape p Tp). }
    split; [rewrite <- (rev_involutive (psib i)); apply NoDup_rev; apply inc_NoDup; exact Hinc|].
    split.
    { apply Forall_forall. intros s Hs. unfold psib in Hs. destruct (nonattr i); [|destruct Hs].
      destruct (parent_node doc i) as [p|] eqn:Ep; [|destruct Hs].
      destruct (T_parent_T doc Hinv Hshape i p Ti Ep) as [Tp _]. apply (T_child doc Hinv Hshape p s Tp).
      apply in_rev in Hs. apply (Hsub s _ Hs). }
    split; [|split; [exact Hinc|intros x; symmetry; apply in_rev]].
    cbn [axis_of s_axis is_attr_or_ns]. rewrite (spec_parent i Ti). unfold psib, XPathRefineTree.nonattr.
    destruct (nkind_eqb (kind doc i) KAttribute); cbn [negb]; [reflexivity|].
    destruct (parent_node doc i); cbn [option_map]; [rewrite rev_involutive; reflexivity|reflexivity].
  - (* self *)
    apply (axis_ok_same _ i [i]); [reflexivity|constructor; [constructor|constructor]|constructor; [exact Ti|constructor]|reflexivity].
Qed.

End Axes.
