(** * A cost measure for the PEG interpreter, and a calculus of lower bounds (C03, cost part).

    [cost G fuel e s] = the number of non-terminal calls that [denote G fuel e s] performs: it is
    defined by the same recursion as [denote] and reads the outcome of every sub-run from
    [denote] itself, so a sub-expression is counted exactly when [denote] evaluates it (the
    second operand of a sequence only after the first succeeded, the second alternative only
    after the first failed, the next repetition only after the previous one made progress).
    Separated lists are not counted (G_xml has none).

    [lb f e s n]: at fuel [f], if the run does not stop for lack of fuel, it costs at least [n]. *)
From Coq Require Import List NArith Arith Lia Bool.
From XmlRs Require Import Base.CPred Model.Peg Proofs.PegTermination Proofs.PegLemmas.
Import ListNotations.
Local Open Scope nat_scope.

Fixpoint many_cost (k : nat) (p : str -> res (tree * str)) (c : str -> nat) (s : str) : nat :=
  match k with
  | O => 0
  | S k' => c s + match p s with
                  | Ok x => if Nat.ltb (length (snd x)) (length s) then many_cost k' p c (snd x) else 0
                  | _ => 0
                  end
  end.

Section C.
Variable G : list pexpr.
Notation denote := (denote G).

Fixpoint cost (fuel : nat) : pexpr -> str -> nat :=
  fix go (e : pexpr) (s : str) {struct e} : nat :=
  match e with
  | Tag _ | Chars0 _ | Chars1 _ => 0
  | Seq a b | SeqL a b | SeqR a b => go a s + match denote fuel a s with Ok x => go b (snd x) | _ => 0 end
  | Alt a b => go a s + match denote fuel a s with Fail => go b s | _ => 0 end
  | Many0 p => many_cost (S (length s)) (denote fuel p) (go p) s
  | Many1 p => go p s + match denote fuel p s with
                        | Ok x => many_cost (S (length (snd x))) (denote fuel p) (go p) (snd x)
                        | _ => 0
                        end
  | Opt p | Recognize p | Map _ p | TakeUntil p _ | TakeExcept p _ | VerifyEq _ _ p => go p s
  | SepBy0 _ _ | SepBy1 _ _ => 0
  | NT n => match fuel with O => 0 | S f => S (cost f (body G n) s) end
  end.

Lemma cost_seq f a b s : cost f (Seq a b) s = cost f a s + match denote f a s with Ok x => cost f b (snd x) | _ => 0 end.
Proof. destruct f; reflexivity. Qed.
Lemma cost_seql f a b s : cost f (SeqL a b) s = cost f a s + match denote f a s with Ok x => cost f b (snd x) | _ => 0 end.
Proof. destruct f; reflexivity. Qed.
Lemma cost_seqr f a b s : cost f (SeqR a b) s = cost f a s + match denote f a s with Ok x => cost f b (snd x) | _ => 0 end.
Proof. destruct f; reflexivity. Qed.
Lemma cost_alt f a b s : cost f (Alt a b) s = cost f a s + match denote f a s with Fail => cost f b s | _ => 0 end.
Proof. destruct f; reflexivity. Qed.
Lemma cost_many0 f p s : cost f (Many0 p) s = many_cost (S (length s)) (denote f p) (cost f p) s.
Proof. destruct f; reflexivity. Qed.
Lemma cost_opt f p s : cost f (Opt p) s = cost f p s.
Proof. destruct f; reflexivity. Qed.
Lemma cost_map f l p s : cost f (Map l p) s = cost f p s.
Proof. destruct f; reflexivity. Qed.
Lemma cost_nt f n s : cost (S f) (NT n) s = S (cost f (body G n) s).
Proof. reflexivity. Qed.

Definition lb (f : nat) (e : pexpr) (s : str) (n : nat) : Prop := denote f e s <> Oof -> n <= cost f e s.

Lemma lb_zero f e s : lb f e s 0.
Proof. intros _. lia. Qed.

Lemma lb_weaken f e s n m : m <= n -> lb f e s n -> lb f e s m.
Proof. intros Hm H Hn. specialize (H Hn). lia. Qed.

Local Ltac step H := rewrite (denote_eq G) in H; cbn [Peg.den1] in H.

Lemma lb_nt f n s m : (forall f', lb f' (body G n) s m) -> lb f (NT n) s (S m).
Proof.
  intros H Hn. destruct f as [|f]; [step Hn; cbn [callnt] in Hn; contradiction|].
  rewrite cost_nt. step Hn. cbn [callnt] in Hn. specialize (H f Hn). lia.
Qed.

Lemma lb_map f l e s n : lb f e s n -> lb f (Map l e) s n.
Proof. intros H Hn. rewrite cost_map. step Hn. apply bind_noof in Hn. apply H. exact Hn. Qed.

Lemma lb_opt f e s n : lb f e s n -> lb f (Opt e) s n.
Proof.
  intros H Hn. rewrite cost_opt. step Hn. apply H. intros E. rewrite E in Hn. contradiction.
Qed.

Lemma lb_seq_l f a b s n : lb f a s n -> lb f (Seq a b) s n.
Proof. intros H Hn. rewrite cost_seq. step Hn. apply bind_noof in Hn. specialize (H Hn). lia. Qed.
Lemma lb_seql_l f a b s n : lb f a s n -> lb f (SeqL a b) s n.
Proof. intros H Hn. rewrite cost_seql. step Hn. apply bind_noof in Hn. specialize (H Hn). lia. Qed.
Lemma lb_seqr_l f a b s n : lb f a s n -> lb f (SeqR a b) s n.
Proof. intros H Hn. rewrite cost_seqr. step Hn. apply bind_noof in Hn. specialize (H Hn). lia. Qed.

Lemma lb_seq_r f a b s t r n : parses G a s t r -> lb f b r n -> lb f (Seq a b) s n.
Proof.
  intros Hp H Hn. rewrite cost_seq. step Hn. pose proof (bind_noof _ _ Hn) as Ha.
  rewrite (parses_at G a s t r f Hp Ha) in *. cbn [bind fst snd] in *. apply bind_noof in Hn. specialize (H Hn). lia.
Qed.
Lemma lb_seql_r f a b s t r n : parses G a s t r -> lb f b r n -> lb f (SeqL a b) s n.
Proof.
  intros Hp H Hn. rewrite cost_seql. step Hn. pose proof (bind_noof _ _ Hn) as Ha.
  rewrite (parses_at G a s t r f Hp Ha) in *. cbn [bind fst snd] in *. apply bind_noof in Hn. specialize (H Hn). lia.
Qed.
Lemma lb_seqr_r f a b s t r n : parses G a s t r -> lb f b r n -> lb f (SeqR a b) s n.
Proof.
  intros Hp H Hn. rewrite cost_seqr. step Hn. pose proof (bind_noof _ _ Hn) as Ha.
  rewrite (parses_at G a s t r f Hp Ha) in *. cbn [bind fst snd] in *. apply bind_noof in Hn. specialize (H Hn). lia.
Qed.

Lemma alt_noof_l f a b s : denote f (Alt a b) s <> Oof -> denote f a s <> Oof.
Proof. intros Hn E. step Hn. rewrite E in Hn. contradiction. Qed.

Lemma lb_alt_l f a b s n : lb f a s n -> lb f (Alt a b) s n.
Proof. intros H Hn. rewrite cost_alt. specialize (H (alt_noof_l _ _ _ _ Hn)). lia. Qed.

(** the first alternative fails: both are paid for *)
Lemma lb_alt_both f a b s n m : fails G a s -> lb f a s n -> lb f b s m -> lb f (Alt a b) s (n + m).
Proof.
  intros Hf Ha Hb Hn. rewrite cost_alt. pose proof (alt_noof_l _ _ _ _ Hn) as Hna.
  specialize (Ha Hna). step Hn. rewrite (fails_at G a s f Hf Hna) in *. specialize (Hb Hn). lia.
Qed.

Lemma lb_alt_r f a b s m : fails G a s -> lb f b s m -> lb f (Alt a b) s m.
Proof. intros Hf Hb. apply (lb_alt_both f a b s 0 m Hf (lb_zero _ _ _) Hb). Qed.

(** the first round of a repetition *)
Lemma lb_many0_first f p s n : lb f p s n -> lb f (Many0 p) s n.
Proof.
  intros H Hn. rewrite cost_many0. cbn [many_cost]. step Hn. cbn [many_loop] in Hn.
  assert (denote f p s <> Oof) as Hp by (intros E; rewrite E in Hn; contradiction).
  specialize (H Hp). lia.
Qed.

End C.
