(* xparse: `<mode> <expr> [<doc>]` -> the observation of harness/src/domains/xparse.rs restricted to
   the parser: `P <ast> R<rest>` | `P err` (modes d, v) or `ok <rest>` | `err` (mode s).
   The AST is printed in the same prefix notation (every list preceded by its length). *)
let xp_buf = Buffer.create 1024
let w s = if Buffer.length xp_buf > 0 then Buffer.add_char xp_buf ' '; Buffer.add_string xp_buf s
let wi n = w (string_of_int n)

let xp_qname q = match q with
  | QPrefixed (p, l) -> w "qp"; w (enc p); w (enc l)
  | QUnprefixed l -> w "qu"; w (enc l)

let lpop o = match o with LpCurrent -> "/" | LpDescendantOrSelfNode -> "//"

let rec exprs_len l = match l with ExprNil -> 0 | ExprCons (_, t) -> 1 + exprs_len t

let rec xp_or e = match e with
  | EOr (a, rest) ->
    let rec len l = match l with AndNil -> 0 | AndCons (_, t) -> 1 + len t in
    w "or"; wi (1 + len rest); xp_and a;
    let rec go l = match l with AndNil -> () | AndCons (x, t) -> xp_and x; go t in go rest
and xp_and e = match e with
  | EAnd (a, rest) ->
    let rec len l = match l with EqNil -> 0 | EqCons (_, t) -> 1 + len t in
    w "and"; wi (1 + len rest); xp_eq a;
    let rec go l = match l with EqNil -> () | EqCons (x, t) -> xp_eq x; go t in go rest
and xp_eq e = match e with
  | EEq (a, ops) ->
    let rec len l = match l with EqopNil -> 0 | EqopCons (_, _, t) -> 1 + len t in
    w "eq"; xp_rel a; wi (len ops);
    let rec go l = match l with EqopNil -> () | EqopCons (o, x, t) ->
      w (match o with OpEqual -> "=" | OpNotEqual -> "!="); xp_rel x; go t in go ops
and xp_rel e = match e with
  | ERel (a, ops) ->
    let rec len l = match l with RelopNil -> 0 | RelopCons (_, _, t) -> 1 + len t in
    w "rel"; xp_add a; wi (len ops);
    let rec go l = match l with RelopNil -> () | RelopCons (o, x, t) ->
      w (match o with OpLessThan -> "<" | OpGreaterThan -> ">" | OpLessEqual -> "<=" | OpGreaterEqual -> ">=");
      xp_add x; go t in go ops
and xp_add e = match e with
  | EAdd (a, ops) ->
    let rec len l = match l with AddopNil -> 0 | AddopCons (_, _, t) -> 1 + len t in
    w "add"; xp_mul a; wi (len ops);
    let rec go l = match l with AddopNil -> () | AddopCons (o, x, t) ->
      w (match o with OpAdd -> "+" | OpSub -> "-"); xp_mul x; go t in go ops
and xp_mul e = match e with
  | EMul (a, ops) ->
    let rec len l = match l with MulopNil -> 0 | MulopCons (_, _, t) -> 1 + len t in
    w "mul"; xp_unary a; wi (len ops);
    let rec go l = match l with MulopNil -> () | MulopCons (o, x, t) ->
      w (match o with OpMul -> "*" | OpDiv -> "div" | OpMod -> "mod"); xp_unary x; go t in go ops
and xp_unary e = match e with
  | EUnary (n, u) -> w "un"; wi (int_of_n n); xp_union u
and xp_union e = match e with
  | EUnion ps ->
    let rec len l = match l with PathNil -> 0 | PathCons (_, t) -> 1 + len t in
    w "union"; wi (len ps);
    let rec go l = match l with PathNil -> () | PathCons (x, t) -> xp_path x; go t in go ps
and xp_path e = match e with
  | PRoot -> w "root"
  | PFilter f -> w "pfilter"; xp_filter f
  | PRel l -> w "prel"; xp_relpath l
  | PAbs (o, l) -> w "pabs"; w (lpop o); xp_relpath l
  | PFilterPath (f, o, l) -> w "pfpath"; xp_filter f; w (lpop o); xp_relpath l
and xp_filter e = match e with
  | EFilter (p, preds) -> w "filter"; xp_primary p; xp_exprs preds
and xp_exprs l =
  wi (exprs_len l);
  let rec go l = match l with ExprNil -> () | ExprCons (x, t) -> xp_or x; go t in go l
and xp_primary e = match e with
  | PrimVariable q -> w "var"; xp_qname q
  | PrimExpr x -> w "paren"; xp_or x
  | PrimLiteral s -> w "lit"; w (enc s)
  | PrimNumber s -> w "num"; w (enc s)
  | PrimFunction (n, args) -> w "fn"; xp_qname n; xp_exprs args
and xp_relpath e = match e with
  | ERelPath (s, ops) ->
    let rec len l = match l with StepopNil -> 0 | StepopCons (_, _, t) -> 1 + len t in
    w "relpath"; xp_step s; wi (len ops);
    let rec go l = match l with StepopNil -> () | StepopCons (o, x, t) -> w (lpop o); xp_step x; go t in go ops
and xp_step e = match e with
  | StepCurrent -> w "dot"
  | StepParent -> w "dotdot"
  | StepTest (a, t, preds) ->
    w "step";
    (match a with
     | AxisAbbreviated s -> w "abbr"; w (enc s)
     | AxisName n -> w "axis"; w (match n with
         | AxAncestor -> "ancestor" | AxAncestorOrSelf -> "ancestor-or-self" | AxAttribute -> "attribute"
         | AxChild -> "child" | AxDescendant -> "descendant" | AxDescendantOrSelf -> "descendant-or-self"
         | AxFollowing -> "following" | AxFollowingSibling -> "following-sibling" | AxNamespace -> "namespace"
         | AxParent -> "parent" | AxPreceding -> "preceding" | AxPrecedingSibling -> "preceding-sibling"
         | AxCurrent -> "self"));
    (match t with
     | TestName NameAll -> w "t*"
     | TestName (NameNamespace p) -> w "tns"; w (enc p)
     | TestName (NameQName q) -> w "tq"; xp_qname q
     | TestType ty -> w "tt"; w (match ty with NtComment -> "comment" | NtText -> "text" | NtPI -> "pi" | NtNode -> "node")
     | TestPI s -> w "tpi"; w (enc s));
    xp_exprs preds

let xp_dump e = Buffer.clear xp_buf; xp_or e; Buffer.contents xp_buf

let () = register "xparse" (fun words ->
  match words with
  | mode :: e :: _ ->
    let r = parse_expr (dec e) in
    (match mode with
     | "s" -> (match r with
         | POk (_, rest) -> "ok " ^ string_of_int (List.length rest)
         | PErr -> "err" | PPanic -> "panic" | POof -> "oof" | PBad -> "bad")
     | _ -> (match r with
         | POk (x, rest) -> "P " ^ xp_dump x ^ " R" ^ string_of_int (List.length rest)
         | PErr -> "P err" | PPanic -> "panic" | POof -> "P oof" | PBad -> "P bad"))
  | _ -> "badinput")
