(** * C13: the model refines the abstract DOM of Spec/DomL1.v -- proved rungs

    Full statement ([step_refines], Properties/C13.v): for every world that satisfies the tree
    invariant and every operation, [abs] commutes with the step and the outcome classes agree.
    Proved here:
    - the lemmas that relate the two state spaces ([node_abs], [aget_abs], [abs_set_doc],
      [abs_store_put_data]);
    - rung "character data" ([step_refines_partial_data]): SetData, AppendData, InsertData,
      DeleteData, ReplaceData on every receiver, every offset and count, every string --
      unconditional (no facts about strings are involved: the model checks the strings, and its
      checks are the storability predicates of the specification, Proofs/CharDataProofs.v);
    - rung "remove_child" ([step_refines_partial_remove]);
    - rung "text factories" ([step_refines_partial_factories]): create_text_node, create_comment,
      create_cdata_section (for storable arguments; otherwise the model panics, D42),
      create_document_fragment.
    NOT proved (checked on the implementation by checks/C13.py, call by call against the extracted
    [dom_step]): the insertion calls (append_child, insert_before, replace_child -- they need the
    equivalence of the two ancestor walks and are refuted on the Document cardinality rule, finding
    C13-DOC-MOVE), the attribute calls and the factories that take names (they need the agreement
    of the parser facts with the grammar of the specification). *)
From Coq Require Import List NArith Bool Lia PeanoNat.
From XmlRs Require Import Base.CPred Base.NList Model.Store Model.DomOps Proofs.DomBase Proofs.DomTree
  Proofs.DomOpsInv Proofs.CharDataProofs Proofs.DomL1Abs Proofs.DomL1Atomic Proofs.DomL1NoPanic.
From XmlRs Require Spec.DomCharData Spec.DomL1 Model.CharData.
Import ListNotations.
Open Scope N_scope.

(** ** the two state spaces *)
Lemma nth_error_map_seq {A} (f : nat -> A) m k :
  nth_error (map f (seq 0 m)) k = if (k <? m)%nat then Some (f k) else None.
Proof.
  destruct (Nat.ltb_spec k m) as [H|H].
  - rewrite nth_error_map. rewrite nth_error_nth' with (d := O) by (rewrite seq_length; exact H).
    rewrite seq_nth by exact H. reflexivity.
  - apply nth_error_None. rewrite map_length, seq_length. exact H.
Qed.

Lemma node_abs_raw s i :
  DomL1.node (abs_store s) i = if i <? next s then option_map abs_item (get s i) else None.
Proof.
  unfold DomL1.node, abs_store. cbn [DomL1.d_nodes]. rewrite nth_error_map_seq.
  destruct (N.ltb_spec i (next s)) as [H|H].
  - assert ((N.to_nat i <? N.to_nat (next s))%nat = true) as -> by (apply Nat.ltb_lt; lia).
    rewrite N2Nat.id. destruct (get s i); reflexivity.
  - assert ((N.to_nat i <? N.to_nat (next s))%nat = false) as -> by (apply Nat.ltb_ge; lia). reflexivity.
Qed.

Lemma node_abs s i : TreeInv s -> DomL1.node (abs_store s) i = option_map abs_item (get s i).
Proof.
  intros T. rewrite node_abs_raw. destruct (N.ltb_spec i (next s)) as [H|H]; [reflexivity|].
  destruct (get s i) as [it|] eqn:E; [|reflexivity]. pose proof (ti_bound s T i it E). lia.
Qed.

Lemma doc_of_abs w k : DomL1.doc_of (abs w) k = option_map abs_store (doc_at w k).
Proof. unfold DomL1.doc_of, abs, doc_at. apply nth_error_map. Qed.

Lemma aget_abs w (n : nref) s : WInv w -> doc_at w (fst n) = Some s -> DomL1.aget (abs w) n = option_map abs_item (get s (snd n)).
Proof.
  intros Hw D. unfold DomL1.aget. rewrite doc_of_abs. change (@fst N N n) with (@fst N id n). rewrite D. cbn.
  apply node_abs. exact (doc_at_P TreeInv w _ s Hw D).
Qed.

Lemma aget_abs_none w (n : nref) : doc_at w (fst n) = None -> DomL1.aget (abs w) n = None.
Proof. intros D. unfold DomL1.aget. rewrite doc_of_abs. change (@fst N N n) with (@fst N id n). rewrite D. reflexivity. Qed.

Lemma map_set_nth {A B} (f : A -> B) x : forall n l, map f (DomOps.set_nth n x l) = DomL1.set_nth n (f x) (map f l).
Proof. induction n as [|n IH]; intros [|y t]; cbn; try reflexivity. f_equal. apply IH. Qed.

Lemma abs_set_doc w k s : abs (set_doc w k s) = DomL1.set_doc (abs w) k (abs_store s).
Proof. unfold abs, set_doc, DomL1.set_doc. cbn. apply map_set_nth. Qed.

Lemma nth_error_eq_ext {A} : forall l l' : list A, (forall n, nth_error l n = nth_error l' n) -> l = l'.
Proof.
  induction l as [|a l IH]; intros [|b l'] H; [reflexivity | specialize (H O); discriminate | specialize (H O); discriminate |].
  pose proof (H O) as H0. cbn in H0. inversion H0; subst. f_equal. apply IH. intros n. exact (H (S n)).
Qed.

Lemma set_nth_map_seq {A} (f : nat -> A) y : forall m k, (k < m)%nat ->
  DomL1.set_nth k y (map f (seq 0 m)) = map (fun j => if (j =? k)%nat then y else f j) (seq 0 m).
Proof.
  intros m k H. apply nth_error_eq_ext. intros j.
  rewrite nth_error_map_seq.
  assert (G : forall (l : list A) k j, (k < length l)%nat ->
              nth_error (DomL1.set_nth k y l) j = if (j =? k)%nat then Some y else nth_error l j).
  { clear. induction l as [|a l IH]; intros [|k] [|j] H; cbn in *; try lia; try reflexivity.
    apply IH. lia. }
  rewrite G by (rewrite map_length, seq_length; exact H). rewrite nth_error_map_seq.
  destruct (Nat.eqb_spec j k) as [->|Hne].
  - apply Nat.ltb_lt in H. rewrite H. reflexivity.
  - reflexivity.
Qed.

(** storing new data in an existing character-data item *)
Lemma abs_store_put_data s n it d :
  TreeInv s -> get s n = Some it -> abs_value (with_data d (iflag it) it) = d ->
  abs_store (set_str s n d) = DomL1.set_node (abs_store s) n (DomL1.set_value d (abs_item it)).
Proof.
  intros T Hit Hv. unfold DomL1.set_node, abs_store. cbn [DomL1.d_nodes DomL1.d_root].
  unfold set_str. rewrite next_upd, sroot_upd. f_equal.
  pose proof (ti_bound s T n it Hit) as Hb.
  rewrite set_nth_map_seq by lia. apply map_ext_in. intros j Hj.
  rewrite get_upd. destruct (Nat.eqb_spec j (N.to_nat n)) as [->|Hne].
  - rewrite N2Nat.id, N.eqb_refl, Hit. cbn [option_map]. f_equal.
    unfold abs_item, DomL1.set_value. cbn. f_equal. exact Hv.
  - destruct (N.eqb_spec (N.of_nat j) n) as [E|E]; [exfalso; apply Hne; subst n; rewrite Nat2N.id; reflexivity | reflexivity].
Qed.

(** ** strings *)
Lemma mlen_len (d : str) : DomOps.len d = NList.len d.
Proof. unfold DomOps.len. symmetry. apply len_length. Qed.

Lemma firstn_take n (d : str) : firstn (N.to_nat n) d = take n d.
Proof. symmetry. apply take_firstn. Qed.
Lemma skipn_drop n (d : str) : skipn (N.to_nat n) d = drop n d.
Proof. symmetry. apply drop_skipn. Qed.

Lemma edit_string (d : str) off cnt x : off <= NList.len d ->
  splice (cut d off cnt) off x = take off d ++ x ++ drop (N.min (off + cnt) (NList.len d)) d.
Proof.
  intros H. unfold splice, cut. rewrite !firstn_take, !skipn_drop, !mlen_len.
  replace (N.min off (NList.len d)) with off by lia.
  set (en := N.min (off + cnt) (NList.len d)).
  assert (Hl : NList.len (take off d) = off) by (rewrite len_take; lia).
  rewrite len_app, Hl. replace (N.min off (off + NList.len (drop en d))) with off by lia.
  replace (take off (take off d ++ drop en d)) with (take (NList.len (take off d)) (take off d ++ drop en d))
    by (rewrite Hl; reflexivity).
  replace (drop off (take off d ++ drop en d)) with (drop (NList.len (take off d)) (take off d ++ drop en d))
    by (rewrite Hl; reflexivity).
  rewrite take_app_exact, drop_app_exact. reflexivity.
Qed.

Lemma valid_str_storable k r : chardata k = true ->
  valid_str k r = DomCharData.storable (DomL1.data_kind (abs_type k)) r.
Proof.
  destruct k; try discriminate; intros _; cbn [valid_str abs_type DomL1.data_kind DomCharData.storable].
  - apply check_text_spec.
  - apply check_cdata_spec.
  - apply check_comment_spec.
Qed.

(** ** one character-data edit: the model's primitive against [store_data] of the specification *)
Lemma edit_refines w r s it off cnt x :
  WInv w -> doc_at w (fst r) = Some s -> get s (snd r) = Some it -> chardata (ikind it) = true ->
  let m := edit_data s (snd r) (ikind it) off cnt x in
  let a := DomL1.store_data (abs w) r (abs_store s) (abs_item it) (DomCharData.dom_replace (idata it) off cnt x) in
  abs (set_doc w (fst r) (fst m)) = fst a /\ outcome_class (snd m) = snd a.
Proof.
  intros Hw D Hit Hk. cbn zeta.
  pose proof (doc_at_P TreeInv w _ s Hw D) as T.
  unfold edit_data, data_of. rewrite Hit, mlen_len.
  unfold DomL1.store_data.
  destruct (N.ltb_spec (NList.len (idata it)) off) as [Hoff|Hoff].
  - assert (DomCharData.dom_replace (idata it) off cnt x = None) as ->.
    { unfold DomCharData.dom_replace. destruct (N.ltb_spec (NList.len (idata it)) off); [reflexivity | lia]. }
    cbn [fst snd]. split; [rewrite (set_doc_same w (fst r) s D); reflexivity | reflexivity].
  - rewrite dom_replace_formula by exact Hoff. rewrite edit_string by exact Hoff.
    set (res := take off (idata it) ++ x ++ drop (N.min (off + cnt) (NList.len (idata it))) (idata it)).
    assert (Hty : DomL1.n_type (abs_item it) = abs_type (ikind it)) by reflexivity.
    rewrite Hty, <- valid_str_storable by exact Hk.
    destruct (valid_str (ikind it) res) eqn:V; cbn [fst snd].
    + split; [|reflexivity]. rewrite abs_set_doc. f_equal. apply abs_store_put_data; [exact T | exact Hit|].
      unfold abs_value. cbn [ikind with_data idata]. destruct (ikind it); try discriminate; reflexivity.
    + split; [rewrite (set_doc_same w (fst r) s D); reflexivity | reflexivity].
Qed.

Lemma offers_chardata_abs k : DomL1.offers_chardata (abs_type k) = chardata k.
Proof. destruct k; reflexivity. Qed.

(** every character-data call of the model is [edit_data] with an offset and a count that may
    depend on the current data; the specification computes [res] from the current data *)
Lemma data_op_refines w r (off cnt : str -> N) x (res : str -> option str) :
  WInv w -> (forall d, res d = DomCharData.dom_replace d (off d) (cnt d) x) ->
  let m := on_node w r (fun s k => if chardata k
                                   then edit_data s (snd r) k (off (data_of s (snd r))) (cnt (data_of s (snd r))) x
                                   else (s, NotApplicable)) in
  let a := DomL1.on_chardata (abs w) r (fun d rn => DomL1.store_data (abs w) r d rn (res (DomL1.n_value rn))) in
  abs (fst m) = fst a /\ outcome_class (snd m) = snd a.
Proof.
  intros Hw Hres. cbn zeta. unfold on_node, DomL1.on_chardata.
  destruct (doc_at w (fst r)) as [s|] eqn:D.
  - rewrite doc_of_abs. change (@fst N N r) with (@fst N id r). rewrite D. cbn [option_map]. rewrite (aget_abs w r s Hw D).
    change (@snd N N r) with (@snd N id r). unfold kind_of. destruct (get s (snd r)) as [it|] eqn:Hit; cbn [option_map]; [|split; reflexivity].
    change (DomL1.n_type (abs_item it)) with (abs_type (ikind it)). rewrite offers_chardata_abs.
    destruct (chardata (ikind it)) eqn:Hk.
    + assert (Hv : DomL1.n_value (abs_item it) = idata it).
      { unfold abs_item, abs_value. cbn. destruct (ikind it); try discriminate; reflexivity. }
      rewrite Hv, Hres.
      assert (Hd : data_of s (snd r) = idata it) by (unfold data_of; rewrite Hit; reflexivity).
      rewrite Hd.
      pose proof (edit_refines w r s it (off (idata it)) (cnt (idata it)) x Hw D Hit Hk) as E. cbn zeta in E.
      destruct (edit_data s (snd r) (ikind it) (off (idata it)) (cnt (idata it)) x) as [s1 o]. exact E.
    + cbn [fst snd]. rewrite (set_doc_same w (fst r) s D). split; reflexivity.
  - rewrite doc_of_abs. change (@fst N N r) with (@fst N id r). rewrite D. split; reflexivity.
Qed.

(** ** rung "character data" *)
Definition is_data_op (o : op) : bool :=
  match o with
  | SetData _ _ | AppendData _ _ | InsertData _ _ _ | DeleteData _ _ _ | ReplaceData _ _ _ _ => true
  | _ => false
  end.

Theorem step_refines_partial_data : forall w o ao,
  WInv w -> is_data_op o = true -> abs_op o = Some ao -> refines_on w o ao.
Proof.
  intros w o ao Hw Hd Ha. unfold refines_on. destruct o; try discriminate; cbn [abs_op] in Ha; inversion Ha; subst ao; clear Ha;
    cbn [step DomL1.dom_step].
  - (* SetData: replace_data 0 length *)
    apply (data_op_refines w r (fun _ => 0) (fun d => DomOps.len d) (d_str v) (fun _ => Some (d_str v)) Hw).
    intros d. rewrite mlen_len. symmetry. apply dom_replace_all.
  - (* AppendData: insert_data length *)
    apply (data_op_refines w r (fun d => DomOps.len d) (fun _ => 0) (d_str v)
                           (fun d => Some (DomCharData.dom_append d (d_str v))) Hw).
    intros d. rewrite mlen_len. apply dom_append_replace.
  - (* InsertData *)
    apply (data_op_refines w r (fun _ => off) (fun _ => 0) (d_str v) (fun d => DomCharData.dom_insert d off (d_str v)) Hw).
    intros d. apply dom_insert_replace.
  - (* DeleteData: the kind is read from the store *)
    pose proof (data_op_refines w r (fun _ => off) (fun _ => cnt) [] (fun d => DomCharData.dom_delete d off cnt) Hw
                                (fun d => dom_delete_replace d off cnt)) as H. cbn zeta in H.
    assert (E : on_node w r (fun s k => if chardata k then delete_data s (snd r) off cnt else (s, NotApplicable))
              = on_node w r (fun s k => if chardata k then edit_data s (snd r) k off cnt [] else (s, NotApplicable))).
    { unfold on_node. destruct (doc_at w (fst r)) as [s|]; [|reflexivity].
      destruct (kind_of s (snd r)) as [k|] eqn:K; [|reflexivity]. unfold delete_data. rewrite K. reflexivity. }
    rewrite E. exact H.
  - (* ReplaceData *)
    apply (data_op_refines w r (fun _ => off) (fun _ => cnt) (d_str v) (fun d => DomCharData.dom_replace d off cnt (d_str v)) Hw).
    intros d. reflexivity.
Qed.

(** ** updating one item *)
Definition Bounded (s : store) : Prop := forall i it, get s i = Some it -> i < next s.

Lemma bounded_of_inv s : TreeInv s -> Bounded s.
Proof. intros T. exact (ti_bound s T). Qed.

Lemma bounded_upd s i f : Bounded s -> Bounded (upd s i f).
Proof.
  intros B j it H. rewrite next_upd. rewrite get_upd in H. destruct (N.eqb_spec j i) as [->|].
  - destruct (get s i) as [x|] eqn:E; [|discriminate]. exact (B i x E).
  - exact (B j it H).
Qed.

Lemma node_abs_b s i : Bounded s -> DomL1.node (abs_store s) i = option_map abs_item (get s i).
Proof.
  intros B. rewrite node_abs_raw. destruct (N.ltb_spec i (next s)) as [H|H]; [reflexivity|].
  destruct (get s i) as [it|] eqn:E; [|reflexivity]. pose proof (B i it E). lia.
Qed.

Lemma abs_store_upd s i f f' :
  Bounded s -> (forall it, get s i = Some it -> abs_item (f it) = f' (abs_item it)) ->
  abs_store (upd s i f) = DomL1.upd_node (abs_store s) i f'.
Proof.
  intros B Hf. unfold DomL1.upd_node. rewrite (node_abs_b s i B).
  destruct (get s i) as [it|] eqn:Hit; cbn [option_map].
  - unfold DomL1.set_node, abs_store. cbn [DomL1.d_nodes DomL1.d_root]. rewrite next_upd, sroot_upd. f_equal.
    pose proof (B i it Hit) as Hb. rewrite set_nth_map_seq by lia. apply map_ext_in. intros j Hj.
    rewrite get_upd. destruct (Nat.eqb_spec j (N.to_nat i)) as [->|Hne].
    + rewrite N2Nat.id, N.eqb_refl, Hit. cbn [option_map]. rewrite (Hf it eq_refl). reflexivity.
    + destruct (N.eqb_spec (N.of_nat j) i) as [E|E]; [exfalso; apply Hne; subst i; rewrite Nat2N.id; reflexivity | reflexivity].
  - unfold upd. rewrite Hit. reflexivity.
Qed.

Lemma abs_store_invalidate s : abs_store (invalidate s) = abs_store s.
Proof. reflexivity. Qed.

Lemma filter_all_true {A} (f : A -> bool) : forall l, (forall z, In z l -> f z = true) -> filter f l = l.
Proof.
  induction l as [|a l IH]; intros H; cbn [filter]; [reflexivity|].
  rewrite (H a (or_introl eq_refl)). f_equal. apply IH. intros z Hz. apply H. right. exact Hz.
Qed.

Lemma remove_first_filter x : forall l, NoDup l -> remove_first x l = DomL1.remove_id x l.
Proof.
  unfold DomL1.remove_id. induction l as [|y t IH]; intros Hnd; cbn [remove_first filter]; [reflexivity|].
  inversion Hnd as [|? ? Hy Ht]; subst. destruct (N.eqb_spec y x) as [->|Hne]; cbn [negb].
  - symmetry. apply filter_all_true. intros z Hz.
    destruct (N.eqb_spec z x) as [->|]; [contradiction | reflexivity].
  - f_equal. apply IH. exact Ht.
Qed.

(** removing a listed child: [delete_by_id] is [detach] *)
Lemma abs_delete_by_id s p x pit :
  TreeInv s -> get s p = Some pit -> In x (ichildren pit) ->
  abs_store (delete_by_id s p x) = DomL1.detach (abs_store s) x.
Proof.
  intros T Hp Hin.
  assert (Hpar : par s x p) by (apply (ti_lists_par s T); exists pit; split; [exact Hp | left; exact Hin]).
  destruct Hpar as [xit [Hx Hxp]].
  unfold delete_by_id, children_of. rewrite Hp.
  assert (M : mem x (ichildren pit) = true) by (apply mem_spec; exact Hin). rewrite M.
  unfold DomL1.detach, DomL1.parent. rewrite (node_abs s x T), Hx. cbn [option_map abs_item DomL1.n_parent]. rewrite Hxp.
  pose proof (bounded_of_inv s T) as B.
  rewrite (abs_store_upd _ x (with_parent None) (DomL1.set_parent None));
    [| apply bounded_upd; exact B | intros; reflexivity].
  f_equal.
  apply (abs_store_upd s p (fun it => with_children (remove_first x (ichildren it)) it)
                       (fun pn => DomL1.set_children (DomL1.remove_id x (DomL1.n_children pn)) pn) B).
  intros it Hit. rewrite Hp in Hit. inversion Hit; subst it.
  unfold abs_item, DomL1.set_children. cbn. f_equal.
  apply remove_first_filter. exact (ti_nodup_c s T p pit Hp).
Qed.

(** ** rung "remove_child" *)
Lemma exists_in_false_aget w n : WInv w -> exists_in w n = false -> DomL1.aget (abs w) n = None.
Proof.
  intros Hw H. unfold exists_in in H. destruct (doc_at w (fst n)) as [s|] eqn:D.
  - rewrite (aget_abs w n s Hw D). destruct (get s (snd n)); [discriminate | reflexivity].
  - apply aget_abs_none. exact D.
Qed.

Lemma exists_in_true_aget w n : WInv w -> exists_in w n = true ->
  exists s it, doc_at w (fst n) = Some s /\ get s (snd n) = Some it /\ DomL1.aget (abs w) n = Some (abs_item it).
Proof.
  intros Hw H. unfold exists_in in H. destruct (doc_at w (fst n)) as [s|] eqn:D; [|discriminate].
  destruct (get s (snd n)) as [it|] eqn:G; [|discriminate]. exists s, it. split; [reflexivity|]. split; [exact G|].
  rewrite (aget_abs w n s Hw D), G. reflexivity.
Qed.

Lemma node_mut_abs k : DomL1.offers_node_mut (abs_type k) = node_mut k.
Proof. destruct k; reflexivity. Qed.
Lemma container_abs k : DomL1.can_have_children (abs_type k) = container k.
Proof. destruct k; reflexivity. Qed.

Lemma wrong_doc_abs w r x : WInv w -> exists_in w x = true -> DomL1.wrong_document (abs w) r x = wrong_doc w r x.
Proof.
  intros Hw Hx. destruct (exists_in_true_aget w x Hw Hx) as [s [it [D [G A]]]].
  unfold DomL1.wrong_document, wrong_doc, kind_in. rewrite A, D. unfold kind_of. rewrite G. cbn [option_map abs_item DomL1.n_type].
  destruct (ikind it); reflexivity.
Qed.

Lemma memN_mem x l : DomL1.memN x l = mem x l.
Proof. reflexivity. Qed.

(** the finding class C13-LEAF-RM: [remove_child] on a node that cannot have children *)
Definition KnownLeafRm (w : world) (o : op) : bool :=
  match o with
  | RemoveChild r _ => match kind_in w r with Some k => node_mut k && negb (container k) | None => false end
  | _ => false
  end.

Theorem step_refines_partial_remove : forall w r x,
  WInv w -> KnownLeafRm w (RemoveChild r x) = false -> refines_on w (RemoveChild r x) (DomL1.ARemoveChild r x).
Proof.
  intros w r x Hw Hk. unfold refines_on. cbn [step DomL1.dom_step KnownLeafRm] in *. unfold DomL1.remove_child.
  unfold kind_in in *. rewrite doc_of_abs. change (@fst N N r) with (@fst N id r).
  destruct (doc_at w (fst r)) as [s|] eqn:D; cbn [option_map]; [|split; reflexivity].
  pose proof (doc_at_P TreeInv w _ s Hw D) as T.
  rewrite (aget_abs w r s Hw D). change (@snd N N r) with (@snd N id r).
  unfold kind_of in *. destruct (get s (snd r)) as [rit|] eqn:Hr; cbn [option_map] in *; [|split; reflexivity].
  change (DomL1.n_type (abs_item rit)) with (abs_type (ikind rit)). rewrite node_mut_abs, container_abs.
  destruct (node_mut (ikind rit)) eqn:Hnm; cbn [negb].
  2:{ destruct (DomL1.aget (abs w) x); split; reflexivity. }
  cbn [andb] in Hk. apply negb_false_iff in Hk.
  destruct (exists_in w x) eqn:Ex.
  2:{ rewrite (exists_in_false_aget w x Hw Ex). split; reflexivity. }
  destruct (exists_in_true_aget w x Hw Ex) as [sx [xit [Dx [Gx Ax]]]]. rewrite Ax.
  unfold dom_remove_child, kind_in. rewrite D. unfold kind_of. rewrite Hr. cbn [option_map]. rewrite Hk. cbn [andb].
  rewrite (wrong_doc_abs w r x Hw Ex).
  destruct (wrong_doc w r x) eqn:Wd; [split; reflexivity|].
  cbn [abs_item DomL1.n_children]. rewrite memN_mem. unfold info_delete, children_of. rewrite Hr.
  change (@snd N N x) with (@snd N id x). change (@fst N N r) with (@fst N id r).
  destruct (mem (snd x) (ichildren rit)) eqn:M; cbn [negb fst snd]; [|split; reflexivity].
  split; [|reflexivity]. rewrite abs_set_doc. f_equal. rewrite abs_store_invalidate.
  apply (abs_delete_by_id s (snd r) (snd x) rit T Hr). apply mem_spec. exact M.
Qed.

(** ** rung "text factories" *)
Lemma seq_snoc n : seq 0 (S n) = seq 0 n ++ [n].
Proof. rewrite seq_S. reflexivity. Qed.

Lemma abs_create s it :
  Bounded s ->
  DomL1.new_node (abs_store s) (abs_item it) = (next s, abs_store (snd (create s it))).
Proof.
  intros B. unfold DomL1.new_node, create, alloc. cbn [snd]. f_equal.
  - unfold abs_store. cbn [DomL1.d_nodes]. rewrite len_length, map_length, seq_length. lia.
  - unfold abs_store. cbn [DomL1.d_nodes DomL1.d_root]. unfold put, set_items. cbn [next sroot get items].
    f_equal. replace (N.to_nat (next s + 1)) with (S (N.to_nat (next s))) by lia.
    rewrite seq_snoc, map_app. cbn [map]. rewrite N2Nat.id. rewrite N.eqb_refl. cbn [option_map].
    f_equal. apply map_ext_in. intros j Hj. apply in_seq in Hj. unfold get.
    destruct (N.eqb_spec (N.of_nat j) (next s)) as [E|E]; [lia | reflexivity].
Qed.

Lemma factory_refines w (d : nref) s it :
  WInv w -> doc_at w (fst d) = Some s ->
  let m := factory (fst d) s it in
  let a := DomL1.make (abs w) (fst d) (abs_store s) (abs_item it) in
  abs (set_doc w (fst d) (fst m)) = fst a /\ outcome_class (snd m) = snd a.
Proof.
  intros Hw D. cbn zeta. unfold factory, DomL1.make.
  rewrite (abs_create s it (bounded_of_inv s (doc_at_P TreeInv w _ s Hw D))).
  destruct (create s it) as [i s1] eqn:C.
  assert (Hi : i = next s) by (unfold create, alloc in C; inversion C; reflexivity). subst i.
  cbn [fst snd]. split; [apply abs_set_doc | reflexivity].
Qed.

Lemma on_document_refines w (d : nref) f g :
  WInv w ->
  (forall s, doc_at w (fst d) = Some s ->
     abs (set_doc w (fst d) (fst (f s))) = fst (g (abs_store s)) /\ outcome_class (snd (f s)) = snd (g (abs_store s))) ->
  abs (fst (on_document w d f)) = fst (DomL1.on_document (abs w) d g)
  /\ outcome_class (snd (on_document w d f)) = snd (DomL1.on_document (abs w) d g).
Proof.
  intros Hw H. unfold on_document, on_node, DomL1.on_document. rewrite doc_of_abs. change (@fst N N d) with (@fst N id d).
  destruct (doc_at w (fst d)) as [s|] eqn:D; cbn [option_map]; [|split; reflexivity].
  rewrite (aget_abs w d s Hw D). unfold kind_of. destruct (get s (snd d)) as [it|] eqn:G; cbn [option_map]; [|split; reflexivity].
  change (DomL1.n_type (abs_item it)) with (abs_type (ikind it)).
  destruct (ikind it); cbn [abs_type fst snd]; try (rewrite (set_doc_same w (fst d) s D); split; reflexivity).
  specialize (H s eq_refl). destruct (f s) as [s1 o]. exact H.
Qed.

Definition is_text_factory (o : op) : bool :=
  match o with
  | CreateTextNode _ _ | CreateComment _ _ | CreateCDataSection _ _ | CreateDocumentFragment _ => true
  | _ => false
  end.

Theorem step_refines_partial_factories : forall w o ao,
  WInv w -> is_text_factory o = true -> Known42 o = false -> abs_op o = Some ao -> refines_on w o ao.
Proof.
  intros w o ao Hw Hf Hk Ha. unfold refines_on.
  destruct o; try discriminate; cbn [abs_op] in Ha; inversion Ha; subst ao; clear Ha;
    cbn [step DomL1.dom_step]; cbn [Known42] in Hk; try apply negb_false_iff in Hk.
  - apply on_document_refines; [exact Hw|]. intros s D. rewrite Hk.
    assert (DomCharData.storable DomCharData.KText (d_str data) = true) as ->
      by (rewrite <- (valid_str_storable KTx) by reflexivity; exact Hk).
    apply (factory_refines w d s (new_item KTx None [] (d_str data) false None) Hw D).
  - apply on_document_refines; [exact Hw|]. intros s D. rewrite Hk.
    assert (DomCharData.storable DomCharData.KComment (d_str data) = true) as ->
      by (rewrite <- (valid_str_storable KCm) by reflexivity; exact Hk).
    apply (factory_refines w d s (new_item KCm None [] (d_str data) false None) Hw D).
  - apply on_document_refines; [exact Hw|]. intros s D. rewrite Hk.
    assert (DomCharData.storable DomCharData.KCData (d_str data) = true) as ->
      by (rewrite <- (valid_str_storable KCd) by reflexivity; exact Hk).
    apply (factory_refines w d s (new_item KCd None [] (d_str data) false None) Hw D).
  - apply on_document_refines; [exact Hw|]. intros s D.
    apply (factory_refines w d s (new_item KFr None [] [] false None) Hw D).
Qed.
