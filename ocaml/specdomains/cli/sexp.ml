(* s-expressions of the cli dumps (harness/src/domains/cli.rs) *)
type sx = A of string | L of sx list

let parse_sx (s : string) : sx =
  let n = String.length s in
  let pos = ref 0 in
  let rec skip () = while !pos < n && s.[!pos] = ' ' do incr pos done
  and one () : sx =
    skip ();
    if s.[!pos] = '(' then begin
      incr pos;
      let items = ref [] in
      skip ();
      while s.[!pos] <> ')' do items := one () :: !items; skip () done;
      incr pos;
      L (List.rev !items)
    end else begin
      let st = !pos in
      while !pos < n && s.[!pos] <> ' ' && s.[!pos] <> '(' && s.[!pos] <> ')' do incr pos done;
      A (String.sub s st (!pos - st))
    end in
  one ()

let rec nat_of_int (n : int) : nat = if n <= 0 then O else S (nat_of_int (n - 1))
let rec int_of_nat (n : nat) : int = match n with O -> 0 | S m -> 1 + int_of_nat m

(* dump -> (xdoc, selected ids with kinds in pre-order) ; identifiers are pre-order ranks from 1,
   the document node is 0 *)
let counter = ref 0
let selected : nat list ref = ref []
let fresh star k = incr counter; let i = nat_of_int !counter in (if star then selected := i :: !selected); i

let rec node_of (x : sx) : xn =
  match x with
  | L [A ("e" | "e*" as h); A name; L attrs; L ch] ->
    let i = fresh (h = "e*") () in
    let attrs = List.map (fun a -> match a with
        | L [A ("a" | "a*" as h); A n; A v] -> let j = fresh (h = "a*") () in ((j, dec n), dec v)
        | _ -> failwith "attr") attrs in
    let ch = List.map node_of ch in
    E (i, dec name, attrs, ch)
  | L [A "t"; A s] -> T (dec s)
  | L [A "c"; A s] -> Cm (dec s)
  | L [A "p"; A t; A d] -> P (dec t, dec d)
  | L [A "r"; A n] -> Rf (dec n)
  | L [A "d"; A s] -> D (dec s)
  | L [A "x"; A s] -> X (dec s)
  | _ -> failwith "node"

let doc_of (x : sx) : xdoc * nat list =
  counter := 0; selected := [];
  match x with
  | L [A ("doc" | "doc*" as h); L ch] ->
    (if h = "doc*" then selected := [O]);
    let ch = List.map node_of ch in
    ({ did = O; dchildren = ch }, List.rev !selected)
  | _ -> failwith "doc"

let rec fnode_of (x : sx) : fnode =
  match x with
  | L [A "t"; A s] -> FT (dec s)
  | L [A "cd"; A s] -> FCd (dec s)
  | L [A "c"; A s] -> FC (dec s)
  | L [A "p"; A t; A d] -> FP (dec t, dec d)
  | L [A "r"; A n] -> FR (dec n)
  | L [A "e"; A name; L attrs; L ch] ->
    FE (dec name, List.map (fun a -> match a with L [A "a"; A n; A v] -> (dec n, dec v) | _ -> failwith "fattr") attrs,
        List.map fnode_of ch)
  | _ -> FX

let frag_of (x : sx) : fnode list = match x with L l -> List.map fnode_of l | _ -> failwith "frag"

(* printing back, without identifiers and stars, attributes sorted by name as the harness does *)
let cmp_str (a : n list) (b : n list) = compare (List.map int_of_n a) (List.map int_of_n b)
let rec show (x : xn) : string =
  match x with
  | E (_, name, attrs, ch) ->
    let attrs = List.sort (fun ((_, a), _) ((_, b), _) -> cmp_str a b) attrs in
    "(e " ^ enc name ^ " (" ^ String.concat "" (List.map (fun ((_, n), v) -> "(a " ^ enc n ^ " " ^ enc v ^ ")") attrs) ^ ") ("
    ^ String.concat "" (List.map show ch) ^ "))"
  | T s -> "(t " ^ enc s ^ ")"
  | Cm s -> "(c " ^ enc s ^ ")"
  | P (t, d) -> "(p " ^ enc t ^ " " ^ enc d ^ ")"
  | Rf n -> "(r " ^ enc n ^ ")"
  | D s -> "(d " ^ enc s ^ ")"
  | X s -> "(x " ^ enc s ^ ")"
let show_doc (d : xdoc) : string = "(doc (" ^ String.concat "" (List.map show d.dchildren) ^ "))"
