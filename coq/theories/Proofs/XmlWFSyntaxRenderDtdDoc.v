(** * C01, the DTD rung of [render_wf], part 3: every declaration, the internal subset, the document type
    declaration and the whole document are read back by the STRICT variant of the specification's grammar
    ([q_parse_document], Proofs/XmlWFSyntaxConvDtdDoc.v), with the tree that is read known explicitly. *)
From Coq Require Import List NArith Arith Lia Bool Permutation.
From XmlRs Require Import Base.CPred Spec.XmlChars Spec.XmlWF Spec.Infoset Proofs.XmlWFRender
  Proofs.XmlWFSyntaxRenderNode Proofs.XmlWFSyntaxRenderCheck Proofs.XmlWFSyntaxRenderDoc Proofs.XmlWFSyntaxRenderDtd
  Proofs.XmlWFSyntaxRenderDtdElem.
From XmlRs Require Proofs.XmlWFSyntaxConvDtdElem Proofs.XmlWFSyntaxConvDtdDoc.
Import ListNotations.
Local Open Scope nat_scope.
Module QD := XmlWFSyntaxConvDtdDoc.

(** ** what a rendered declaration is read back as *)
Definition decl_read (d : adecl) (d' : decl) : Prop :=
  match d with
  | ADEntity nm v => exists q c p i, quote q /\ d' = DEntity nm (EdValue (ent_items_pieces q c p i v))
  | ADAttlist el defs => exists l', Forall2 attdef_read defs l' /\ d' = DAttlist el l'
  | _ => d' = to_decl d
  end.

Lemma decl_ok_attdefs (defs : list (str * atttype * adefault)) :
  forallb (fun '(nm, ty, df) =>
             is_QName nm
             && match ty with
                | ATNotation l => Nat.leb 1 (length l) && forallb is_NCName l
                | ATEnum l => Nat.leb 1 (length l) && forallb is_Nmtoken l
                | _ => true end
             && match df with DfValue _ v => items_ok v | _ => true end) defs = forallb attdef_okb defs.
Proof. induction defs as [|[[nm ty] df] l IH]; [reflexivity|]. cbn [forallb]. rewrite IH. reflexivity. Qed.

Lemma render_decl_len c p (d : adecl) : 1 <= length (render_decl c p d).
Proof.
  destruct d; cbn [render_decl]; unfold render_comment, render_pi, s_entity, s_notation_decl, s_attlist, s_element, s_comment_open, s_pi_open; cbn [app length]; lia.
Qed.

Lemma render_decl_head c p (d : adecl) : exists r, render_decl c p d = c_lt :: r.
Proof. destruct d; cbn [render_decl]; unfold render_comment, render_pi; eexists; reflexivity. Qed.

Theorem markupdecl_reads c p (d : adecl) T fuel : Infoset.decl_ok d = true -> length (render_decl c p d) <= fuel ->
  exists d', decl_read d d' /\ QD.q_markupdecl fuel (render_decl c p d ++ T) = Some (d', T).
Proof.
  intros Hok Hf. unfold QD.q_markupdecl. destruct d as [nm v|nm pub sys nd|nm pub sys|el defs|nm spec|s|t x]; cbn [Infoset.decl_ok] in Hok.
  - apply andb_true_iff in Hok. destruct Hok as [Hn Hv]. destruct (entity_decl_reads c p nm v T Hn Hv) as (q & Hq & Hr).
    eexists. split; [cbn [decl_read]; exists q, c, (1%N :: 2%N :: p), 0%N; split; [exact Hq|reflexivity]|].
    specialize (Hr fuel Hf). cbn [render_decl] in *. rewrite <- ?app_assoc in *. change (strip s_element (s_entity ++ ?X)) with (@None str). exact Hr.
  - apply andb_true_iff in Hok. destruct Hok as [Hok Hnd]. apply andb_true_iff in Hok. destruct Hok as [Hok Hpub]. apply andb_true_iff in Hok. destruct Hok as [Hn Hsys].
    exists (to_decl (ADExtEntity nm pub sys nd)). split; [reflexivity|].
    pose proof (ext_entity_decl_reads c p nm pub sys nd T Hn ltac:(unfold extid_ok; destruct pub; [now rewrite Hpub, Hsys|exact Hsys]) ltac:(destruct nd; [exact Hnd|exact I]) fuel) as Hr.
    cbn [render_decl] in *. rewrite <- ?app_assoc in *. change (strip s_element (s_entity ++ ?X)) with (@None str). exact Hr.
  - apply andb_true_iff in Hok. destruct Hok as [Hok Hboth]. apply andb_true_iff in Hok. destruct Hok as [Hok Hsys]. apply andb_true_iff in Hok. destruct Hok as [Hn Hpub].
    exists (to_decl (ADNotation nm pub sys)). split; [reflexivity|].
    assert (Hx : extid_ok pub sys = true).
    { unfold extid_ok. destruct pub as [pb|], sys as [sy|]; [now rewrite Hpub, Hsys|exact Hpub|exact Hsys|discriminate Hboth]. }
    pose proof (notation_decl_reads c p nm pub sys T Hn Hx fuel) as Hr.
    cbn [render_decl] in *. rewrite <- ?app_assoc in *. change (strip s_element (s_notation_decl ++ ?X)) with (@None str). exact Hr.
  - apply andb_true_iff in Hok. destruct Hok as [Hn Hd]. rewrite decl_ok_attdefs in Hd.
    destruct (attlist_decl_reads c p el defs T fuel Hn Hd Hf) as (l' & Hl' & Hr).
    exists (DAttlist el l'). split; [cbn [decl_read]; exists l'; auto|].
    rewrite render_attlist_eq in *. rewrite <- ?app_assoc in *. change (strip s_element (s_attlist ++ ?X)) with (@None str). exact Hr.
  - apply andb_true_iff in Hok. destruct Hok as [Hn Hs]. exists (DElement nm). split; [reflexivity|].
    pose proof (element_decl_reads c p nm spec T fuel Hn Hs Hf) as Hr.
    cbn [render_decl]. rewrite <- ?app_assoc. rewrite strip_app. cbn [app]. exact Hr.
  - exists (DComment s). split; [reflexivity|]. cbn [render_decl]. unfold render_comment. rewrite <- ?app_assoc.
    change (strip s_element (s_comment_open ++ ?X)) with (@None str). cbv iota. unfold p_markupdecl.
    change (strip s_element (s_comment_open ++ ?X)) with (@None str). change (strip s_attlist (s_comment_open ++ ?X)) with (@None str).
    change (strip s_entity (s_comment_open ++ ?X)) with (@None str). change (strip s_notation_decl (s_comment_open ++ ?X)) with (@None str). cbv iota.
    rewrite strip_app. unfold comment_ok in Hok.
    apply andb_true_iff in Hok. destruct Hok as [Hx He]. apply andb_true_iff in Hx. destruct Hx as [Hx Hd].
    apply andb_true_iff in Hx. destruct Hx as [Hc _]. apply negb_true_iff in Hd, He.
    pose proof (comment_body_render (length s) s (le_n _) Hc Hd He T) as Hb. unfold str, char in *. rewrite Hb. reflexivity.
  - exists (DPI t x). split; [reflexivity|]. cbn [render_decl]. unfold render_pi. rewrite <- ?app_assoc.
    change (strip s_element (s_pi_open ++ ?X)) with (@None str). cbv iota. unfold p_markupdecl.
    change (strip s_element (s_pi_open ++ ?X)) with (@None str). change (strip s_attlist (s_pi_open ++ ?X)) with (@None str).
    change (strip s_entity (s_pi_open ++ ?X)) with (@None str). change (strip s_notation_decl (s_pi_open ++ ?X)) with (@None str).
    change (strip s_comment_open (s_pi_open ++ ?X)) with (@None str). cbv iota. rewrite strip_app. cbn [bind].
    pose proof (pi_body_render c p t x T Hok) as Hb. unfold str, char in *. rewrite Hb. reflexivity.
Qed.

(** ** [28b] the internal subset *)
Fixpoint render_subset (c : choices) (p : list N) (i : N) (l : list adecl) : str :=
  match l with [] => [] | d :: t => S0 c (i :: 4%N :: p) ++ render_decl c (i :: 5%N :: p) d ++ render_subset c p (i + 1) t end.

Lemma subset_go_eq c p : forall l i,
  (fix go (i : N) (l : list adecl) : str :=
     match l with [] => [] | d :: t => S0 c (i :: 4%N :: p) ++ render_decl c (i :: 5%N :: p) d ++ go (i + 1)%N t end) i l = render_subset c p i l.
Proof. induction l as [|d l IH]; intros i; [reflexivity|]. cbn [render_subset]. rewrite <- IH. reflexivity. Qed.

Lemma subset_reads c p : forall l i T fuel, forallb Infoset.decl_ok l = true -> length (render_subset c p i l) < fuel ->
  exists l', Forall2 decl_read l l' /\
    QD.q_intsubset fuel (render_subset c p i l ++ S0 c (6%N :: p) ++ c_rbr :: T) = Some (l', T).
Proof.
  induction l as [|d l IH]; intros i T fuel Hok Hf; (destruct fuel as [|f]; [lia|]); rewrite QD.q_intsubset_eq.
  - exists []. split; [constructor|]. cbn [render_subset app]. rewrite S0_then by reflexivity. reflexivity.
  - cbn [forallb] in Hok. apply andb_true_iff in Hok. destruct Hok as [Hd Hl]. cbn [render_subset] in *. rewrite !app_length in Hf.
    pose proof (render_decl_len c (i :: 5%N :: p) d) as Hlen.
    destruct (IH (i + 1)%N T f Hl ltac:(unfold str, char in *; lia)) as (l' & Hl' & Hr).
    destruct (markupdecl_reads c (i :: 5%N :: p) d (render_subset c p (i + 1) l ++ S0 c (6%N :: p) ++ c_rbr :: T) f Hd ltac:(unfold str, char in *; lia)) as (d' & Hd' & Hm).
    exists (d' :: l'). split; [constructor; assumption|]. rewrite <- ?app_assoc.
    destruct (render_decl_head c (i :: 5%N :: p) d) as [r Er].
    assert (Hsk : skipS (S0 c (i :: 4%N :: p) ++ render_decl c (i :: 5%N :: p) d ++ render_subset c p (i + 1) l ++ S0 c (6%N :: p) ++ c_rbr :: T)
                  = render_decl c (i :: 5%N :: p) d ++ render_subset c p (i + 1) l ++ S0 c (6%N :: p) ++ c_rbr :: T).
    { apply S0_then. rewrite Er. reflexivity. }
    unfold str, char in *. rewrite Hsk. rewrite Er at 1. cbn [app]. change (c_lt =? c_rbr)%N with false. change (c_lt =? c_pct)%N with false. cbv iota.
    rewrite Hm. cbn [bind]. rewrite Hr. reflexivity.
Qed.

(** ** [28] doctypedecl *)
Definition doctype_okb (dt : adoctype) : bool :=
  is_QName (ad_name dt)
  && match ad_pub dt, ad_sys dt with
     | Some p, Some s => pubid_ok p && sysid_ok s
     | None, Some s => sysid_ok s
     | None, None => true
     | Some _, None => false end
  && forallb Infoset.decl_ok (opt_list (ad_subset dt)).

Lemma render_doctype_eq c p dt : render_doctype c p dt =
  s_doctype ++ S1 c (0%N :: p) ++ ad_name dt
  ++ match ad_sys dt with Some _ => S1 c (1%N :: p) ++ render_extid c (2%N :: p) (ad_pub dt) (ad_sys dt) | None => [] end
  ++ S0 c (3%N :: p)
  ++ match ad_subset dt with
     | Some l => c_lbr :: render_subset c p 0 l ++ S0 c (6%N :: p) ++ c_rbr :: S0 c (7%N :: p)
     | None => [] end
  ++ [c_gt].
Proof.
  unfold render_doctype. do 5 f_equal. destruct (ad_subset dt) as [l|]; [|reflexivity].
  exact (f_equal (fun z => (c_lbr :: z ++ S0 c (6%N :: p) ++ c_rbr :: S0 c (7%N :: p)) ++ [c_gt]) (subset_go_eq c p l 0%N)).
Qed.

Lemma no_extid_S0 c p X : (exists r, X = c_lbr :: r \/ X = c_gt :: r) -> bind (p_S (S0 c p ++ X)) (fun r' => p_ExternalID false r') = None.
Proof.
  intros (r & HX). assert (HnS : nonS X) by (destruct HX as [-> | ->]; reflexivity).
  assert (HE : p_ExternalID false X = None) by (destruct HX as [-> | ->]; reflexivity).
  destruct (S0 c p) as [|w ws] eqn:E.
  - cbn [app]. rewrite (p_S_none X HnS). reflexivity.
  - rewrite <- E. assert (Hne : S0 c p <> []) by (rewrite E; discriminate). rewrite (p_S_run (S0 c p) X Hne (S0_S _ _) HnS). cbn [bind]. exact HE.
Qed.

Theorem doctype_reads c p dt T fuel : doctype_okb dt = true -> length (render_doctype c p dt) <= fuel ->
  exists l', Forall2 decl_read (opt_list (ad_subset dt)) l' /\
    QD.q_doctype fuel (S1 c (0%N :: p) ++ ad_name dt
        ++ match ad_sys dt with Some _ => S1 c (1%N :: p) ++ render_extid c (2%N :: p) (ad_pub dt) (ad_sys dt) | None => [] end
        ++ S0 c (3%N :: p)
        ++ match ad_subset dt with
           | Some l => c_lbr :: render_subset c p 0 l ++ S0 c (6%N :: p) ++ c_rbr :: S0 c (7%N :: p)
           | None => [] end
        ++ c_gt :: T)
    = Some ({| dt_name := ad_name dt; dt_extid := extid_of (ad_pub dt) (ad_sys dt); dt_subset := l' |}, T).
Proof.
  intros Hok Hf. unfold doctype_okb in Hok. apply andb_true_iff in Hok. destruct Hok as [Hok Hsub]. apply andb_true_iff in Hok. destruct Hok as [Hn Hid].
  pose proof (QName_Name _ Hn) as Hnm. rewrite render_doctype_eq in Hf. destruct dt as [nm pub sys sub]. cbn [ad_name ad_pub ad_sys ad_subset] in *.
  set (TAIL := match sub with
               | Some l => c_lbr :: render_subset c p 0 l ++ S0 c (6%N :: p) ++ c_rbr :: S0 c (7%N :: p)
               | None => [] end ++ c_gt :: T).
  assert (HT : exists r, TAIL = c_lbr :: r \/ TAIL = c_gt :: r) by (unfold TAIL; destruct sub; cbn [app]; eexists; eauto).
  (* the tail: the subset and the closing *)
  assert (Htail : exists l', Forall2 decl_read (opt_list sub) l' /\
            forall id, match skipS (S0 c (3%N :: p) ++ TAIL) with
            | c0 :: t =>
              if (c0 =? c_lbr)%N then
                bind (QD.q_intsubset fuel t) (fun '(l, r3) => bind (p_close r3) (fun r4 =>
                Some ({| dt_name := nm; dt_extid := id; dt_subset := l |}, r4)))
              else if (c0 =? c_gt)%N then Some ({| dt_name := nm; dt_extid := id; dt_subset := [] |}, t)
              else None
            | [] => None
            end = Some ({| dt_name := nm; dt_extid := id; dt_subset := l' |}, T)).
  { unfold TAIL. destruct sub as [l|]; cbn [opt_list].
    - rewrite !app_length in Hf. cbn [length] in Hf. rewrite !app_length in Hf.
      destruct (subset_reads c p l 0%N (S0 c (7%N :: p) ++ c_gt :: T) fuel Hsub ltac:(unfold s_doctype in Hf; cbn [length] in Hf; unfold str, char in *; lia)) as (l' & Hl' & Hr).
      exists l'. split; [exact Hl'|]. intros id. rewrite S0_then by reflexivity. cbn [app]. change (c_lbr =? c_lbr)%N with true. cbv iota.
      rewrite <- ?app_assoc. cbn [app]. unfold str, char in *. rewrite Hr. cbn [bind]. rewrite close_reads. reflexivity.
    - exists []. split; [constructor|]. intros id. cbn [app]. rewrite S0_then by reflexivity. reflexivity. }
  destruct Htail as (l' & Hl' & Htail). exists l'. split; [exact Hl'|]. fold TAIL. unfold QD.q_doctype.
  rewrite (p_S_S1 c (0%N :: p)) by (apply name_nonS; exact Hnm). cbn [bind].
  destruct sys as [sy|].
  - rewrite <- ?app_assoc. rewrite (name_then_S1 nm c (1%N :: p) _ Hnm). cbn [bind].
    assert (Hx : extid_ok pub (Some sy) = true) by (unfold extid_ok; destruct pub; exact Hid).
    rewrite (p_S_S1 c (1%N :: p)) by (unfold render_extid; destruct pub; reflexivity). cbn [bind].
    rewrite (extid_reads false c (2%N :: p) pub sy _ Hx). cbn [bind]. apply Htail.
  - destruct pub; [discriminate Hid|]. cbn [app].
    assert (En : p_Name (nm ++ S0 c (3%N :: p) ++ TAIL) = Some (nm, S0 c (3%N :: p) ++ TAIL)).
    { apply p_Name_app; [exact Hnm|]. apply S0_stops. destruct HT as (r & [-> | ->]); reflexivity. }
    pose proof (no_extid_S0 c (3%N :: p) TAIL HT) as HnE. unfold str, char in *. rewrite En. cbn [bind]. rewrite HnE. cbn [bind]. apply Htail.
Qed.

(** ** [1] the document with a document type declaration *)
Lemma misc_stop_doctype Y : misc_stop (s_doctype ++ Y).
Proof. split; [reflexivity|]. intros F HF. destruct F; [lia|]. reflexivity. Qed.

Lemma no_xmldecl2 c (m1 : list anode) h Y :
  forallb misc_ok m1 = true -> (h =? c_qm)%N = false ->
  let Z := S0 c [1%N] ++ render_miscs c [2%N] 0 m1 ++ c_lt :: h :: Y in
  match strip s_xmldecl_open Z with
  | Some r => match p_xmldecl r with Some (d, r') => Some (Some d, r') | None => Some (None, Z) end
  | None => Some (None, Z) end = Some (@None xmldecl, Z).
Proof.
  intros Hm Hq Z. unfold Z. destruct (S0 c [1%N]) as [|w ws] eqn:E.
  - cbn [app]. destruct m1 as [|m m1].
    + cbn [render_miscs app]. unfold s_xmldecl_open. cbn [strip]. change (N.eqb 60 c_lt) with true. cbv iota.
      rewrite (N.eqb_sym 63 h). fold c_qm. rewrite Hq. reflexivity.
    + cbn [forallb] in Hm. apply andb_true_iff in Hm. destruct Hm as [Hm _]. cbn [render_miscs].
      destruct m as [s|nm|s|t' d|nm atts kids]; try discriminate Hm; cbn [render_node].
      * reflexivity.
      * cbn [misc_ok node_ok] in Hm. unfold pi_ok in Hm. apply andb_true_iff in Hm. destruct Hm as [Hm _]. apply andb_true_iff in Hm. destruct Hm as [Ht _].
        unfold render_pi. rewrite <- !app_assoc. apply pi_not_xmldecl; [exact Ht|].
        destruct d as [dd|].
        -- pose proof (S1_ne c [0%N; 0%N; 2%N]) as Hne. pose proof (S1_S c [0%N; 0%N; 2%N]) as HS.
           destruct (S1 c [0%N; 0%N; 2%N]) as [|h' r] eqn:E1; [now elim Hne|]. cbn [forallb] in HS. apply andb_true_iff in HS. destruct HS as [Hh _].
           rewrite <- !app_assoc. cbn [app]. eexists; eexists; split; [reflexivity|left; exact Hh].
        -- cbn [app]. unfold s_pi_close. cbn [app]. eexists; eexists; split; [reflexivity|right; reflexivity].
  - pose proof (S0_S c [1%N]) as HS. rewrite E in HS. cbn [forallb] in HS. apply andb_true_iff in HS. destruct HS as [Hw _].
    cbn [app]. unfold s_xmldecl_open. cbn [strip]. destruct (N.eqb 60 w) eqn:E60; [|reflexivity]. apply N.eqb_eq in E60. subst w. discriminate Hw.
Qed.

Lemma q_parse_doc_assemble (s : str) F xd Y m1 r dtv T2 m2 R root T3 m3 : F = S (length s) ->
  match strip s_xmldecl_open s with
  | Some r => match p_xmldecl r with Some (d, r') => Some (Some d, r') | None => Some (None, s) end
  | None => Some (None, s) end = Some (xd, Y) ->
  p_miscs F Y = (m1, s_doctype ++ r) -> QD.q_doctype F r = Some (dtv, T2) -> p_miscs F T2 = (m2, R) ->
  p_element F R = Some (root, T3) -> p_miscs F T3 = (m3, []) ->
  QD.q_parse_document s = Some {| x_decl := xd; x_misc1 := m1; x_doctype := Some dtv; x_misc2 := m2; x_root := root; x_misc3 := m3 |}.
Proof.
  intros -> H1 H2 H3 H4 H5 H6. unfold QD.q_parse_document. cbv zeta. unfold str, char in *. rewrite H1. cbn [bind]. rewrite H2, strip_app. cbn [bind].
  rewrite H3. cbn [bind]. rewrite H4. cbn [bind]. rewrite H5. cbn [bind]. rewrite H6. reflexivity.
Qed.

Theorem render_parse_dtd (d : adoc) (c : choices) dt : shape_ok d = true -> a_doctype d = Some dt ->
  exists item l', reads (a_root d) [item] /\ Forall2 decl_read (opt_list (ad_subset dt)) l' /\
    QD.q_parse_document (render d c) =
    Some {| x_decl := x_decl (to_xdoc d); x_misc1 := flat_map to_x (a_misc1 d);
            x_doctype := Some {| dt_name := ad_name dt; dt_extid := extid_of (ad_pub dt) (ad_sys dt); dt_subset := l' |};
            x_misc2 := flat_map to_x (a_misc2 d); x_root := item; x_misc3 := flat_map to_x (a_misc3 d) |}.
Proof.
  destruct d as [ver enc sa m1 dt0 m2 root m3]. cbn [a_doctype]. intros Hs ->. unfold shape_ok in Hs.
  cbn [a_version a_encoding a_standalone a_misc1 a_misc2 a_misc3 a_root a_doctype] in Hs.
  apply andb_true_iff in Hs. destruct Hs as [Hs Hdt]. apply andb_true_iff in Hs. destruct Hs as [Hs Hroot].
  apply andb_true_iff in Hs. destruct Hs as [Hs Hm3]. apply andb_true_iff in Hs. destruct Hs as [Hs Hm2].
  apply andb_true_iff in Hs. destruct Hs as [Hver Hm1].
  assert (Hdok : doctype_okb dt = true).
  { do 2 (apply andb_true_iff in Hdt; destruct Hdt as [Hdt _]). exact Hdt. }
  destruct root as [s|nm|s|t0 d0|nm atts kids]; try discriminate Hroot.
  destruct (valid_node_reads (AElem nm atts kids) Hroot c [6%N]) as (items & n & m & Hrd & Hn & _ & (item & -> & Hel)).
  assert (Hnm : is_Name nm = true).
  { cbn [node_ok] in Hroot. do 3 (apply andb_true_iff in Hroot; destruct Hroot as [Hroot _]). now apply QName_Name. }
  destruct (name_head nm Hnm) as (x & t & -> & Hx).
  set (T3 := S0 c [7%N] ++ render_miscs c [8%N] 0 m3).
  set (RN := render_node c [6%N] (AElem (x :: t) atts kids)) in *.
  assert (ERN : exists Y0, RN = c_lt :: (x :: t) ++ Y0).
  { unfold RN. rewrite render_node_elem. unfold render_open. destruct kids; [destruct (N.eqb _ _)|]; cbn [app]; rewrite <- ?app_assoc; eexists; reflexivity. }
  destruct ERN as [Y0 ERN].
  set (R := RN ++ T3).
  set (T2 := S0 c [4%N] ++ render_miscs c [5%N] 0 m2 ++ R).
  set (DB := S1 c [0%N; 3%N] ++ ad_name dt
        ++ match ad_sys dt with Some _ => S1 c [1%N; 3%N] ++ render_extid c [2%N; 3%N] (ad_pub dt) (ad_sys dt) | None => [] end
        ++ S0 c [3%N; 3%N]
        ++ match ad_subset dt with
           | Some l => c_lbr :: render_subset c [3%N] 0 l ++ S0 c [6%N; 3%N] ++ c_rbr :: S0 c [7%N; 3%N]
           | None => [] end
        ++ c_gt :: T2).
  set (Y := S0 c [1%N] ++ render_miscs c [2%N] 0 m1 ++ s_doctype ++ DB).
  set (X := match ver with Some v => render_xmldecl c [0%N] v enc sa | None => [] end).
  assert (Es : render {| a_version := ver; a_encoding := enc; a_standalone := sa; a_misc1 := m1; a_doctype := Some dt; a_misc2 := m2; a_root := AElem (x :: t) atts kids; a_misc3 := m3 |} c
               = X ++ Y).
  { unfold render, X, Y, DB, T2, R, T3, RN. cbn [a_version a_encoding a_standalone a_misc1 a_misc2 a_misc3 a_root a_doctype].
    rewrite render_doctype_eq. rewrite <- ?app_assoc. cbn [app]. reflexivity. }
  assert (ER : R = c_lt :: (x :: t) ++ (Y0 ++ T3)) by (unfold R; rewrite ERN; cbn [app]; rewrite <- app_assoc; reflexivity).
  assert (Hlen : length (render_doctype c [3%N] dt) + length RN + 2 * length m1 + 2 * length m2 + 2 * length m3 <= length (X ++ Y)).
  { rewrite <- Es. unfold render. cbn [a_version a_encoding a_standalone a_misc1 a_misc2 a_misc3 a_root a_doctype]. fold RN. rewrite !app_length.
    pose proof (render_miscs_len c [2%N] m1 0%N Hm1). pose proof (render_miscs_len c [5%N] m2 0%N Hm2). pose proof (render_miscs_len c [8%N] m3 0%N Hm3). lia. }
  assert (HRN : 2 <= length RN) by (rewrite ERN; cbn [length app]; lia).
  destruct (doctype_reads c [3%N] dt T2 (S (length (X ++ Y))) Hdok ltac:(unfold str, char in *; lia)) as (l' & Hl' & Hdr). fold DB in Hdr.
  exists item, l'. split; [exact Hrd|]. split; [exact Hl'|]. rewrite Es.
  remember (S (length (X ++ Y))) as F eqn:EF.
  assert (HF : length RN + 2 * length m1 + 2 * length m2 + 2 * length m3 + 1 <= F) by (unfold str, char in *; lia). clear Hlen.
  apply (q_parse_doc_assemble (X ++ Y) F _ Y _ DB _ T2 _ R item T3 _ EF).
  - unfold X. cbn [to_xdoc x_decl a_version a_encoding a_standalone]. destruct ver as [v|].
    + apply andb_true_iff in Hver. destruct Hver as [Hv He]. rewrite render_xmldecl_eq. rewrite <- app_assoc. rewrite strip_app.
      rewrite (xmldecl_reads c [0%N] v enc sa Y Hv) by (destruct enc; [exact He|exact I]). reflexivity.
    + cbn [app]. unfold Y. exact (no_xmldecl2 c m1 c_bang _ Hm1 eq_refl).
  - unfold Y. apply (miscs_skip c [1%N] _ (2 * length m1 + 1)).
    + apply render_miscs_nonS; [exact Hm1|reflexivity].
    + intros F' HF'. apply miscs_read; [exact Hm1|apply misc_stop_doctype|exact HF'].
    + unfold str, char in *; lia.
  - exact Hdr.
  - unfold T2. apply (miscs_skip c [4%N] _ (2 * length m2 + 1)).
    + apply render_miscs_nonS; [exact Hm2|]. rewrite ER. reflexivity.
    + intros F' HF'. apply miscs_read; [exact Hm2| |exact HF']. rewrite ER. apply misc_stop_elem. exact Hx.
    + unfold str, char in *; lia.
  - unfold R. rewrite ERN. cbn [app p_element]. rewrite N.eqb_refl.
    specialize (Hel F T3 ltac:(unfold str, char in *; lia)). rewrite ERN in Hel. cbn [tl] in Hel. exact Hel.
  - unfold T3. apply (miscs_skip c [7%N] _ (2 * length m3 + 1)).
    + rewrite <- (app_nil_r (render_miscs c [8%N] 0 m3)). apply render_miscs_nonS; [exact Hm3|exact I].
    + intros F' HF'. rewrite <- (app_nil_r (render_miscs c [8%N] 0 m3)). apply miscs_read; [exact Hm3|apply misc_stop_nil|exact HF'].
    + unfold str, char in *; lia.
Qed.
