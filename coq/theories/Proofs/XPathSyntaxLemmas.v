(** * The minimal-parentheses spelling of Spec/XPathSyntax.v is a spelling (C08).

    [paren a] inserts parentheses only where the precedence ladder or the lexical rules of
    XPath 1.0 section 3.7 demand them.  For every tree [a] whose leaves are lexically valid
    ([leaves_ok]): [paren a] is derivable from the grammar ([paren_wf]) and equivalent to [a]
    ([paren_equiv], in fact they have the same normal form).  Together with the round trip
    theorem this gives the general form of "operators bind and associate as the grammar
    prescribes": the unparenthesised spelling of ANY tree parses back to that tree. *)
From Coq Require Import List NArith Arith Lia Bool.
From XmlRs Require Import Base.CPred Spec.XmlChars Spec.XPathSyntax Proofs.XPathParseMain.
Import ListNotations.

Lemma xexpr_size_ind (Pr : xexpr -> Prop) :
  (forall a, (forall b, (size b < size a)%nat -> Pr b) -> Pr a) -> forall a, Pr a.
Proof.
  intros H a. assert (G : forall n b, (size b < n)%nat -> Pr b).
  { induction n as [|n IH]; intros b Hb; [lia|]. apply H. intros c Hc. apply IH. lia. }
  apply (G (S (size a))). lia.
Qed.

Lemma forallb_map_in {A B} (f : A -> B) (g : B -> bool) l :
  (forall x, In x l -> g (f x) = true) -> forallb g (map f l) = true.
Proof.
  induction l as [|x l IH]; intros H; [reflexivity|]. cbn [map forallb].
  rewrite (H x (or_introl eq_refl)). apply IH. intros y Hy. apply H. right. exact Hy.
Qed.

(** ** lexically valid leaves *)
Definition step_leaves (f : xexpr -> bool) (s : xstep) : bool :=
  match s with XStep _ t preds => wf_ntest t && forallb f preds | _ => true end.

Fixpoint leaves_ok (a : xexpr) : bool :=
  match a with
  | XBin _ a b => leaves_ok a && leaves_ok b
  | XNeg a => leaves_ok a
  | XLit s => wf_lit s
  | XNum s => is_number s
  | XVar q => wf_qname q
  | XCall f args => wf_fname f && forallb leaves_ok args
  | XParen a => leaves_ok a
  | XFilter p preds => leaves_ok p && nonempty preds && forallb leaves_ok preds
  | XRoot => true
  | XPath st first rest =>
      match st with SFrom f _ => leaves_ok f | _ => true end
      && step_leaves leaves_ok first
      && forallb (fun x : sep * xstep => let (_, s) := x in step_leaves leaves_ok s) rest
  end.

(** ** [paren] preserves the normal form *)
Lemma norm_wrap c a : norm (wrap_if c a) = norm a.
Proof. destruct c; reflexivity. Qed.

Definition pstep (s : xstep) : xstep :=
  match s with XStep a t preds => XStep a t (map paren preds) | XDot => XDot | XDotDot => XDotDot end.

Definition nstep (s : xstep) : xstep :=
  match s with
  | XStep a t preds => XStep (norm_axis a) t (map (fun q => norm_pred_top (norm q)) preds)
  | XDot => XStep (AFull XSelf) (TType KNode) []
  | XDotDot => XStep (AFull XParent) (TType KNode) []
  end.

Definition lead (s : sep) : list xstep := match s with SSlash => [] | SDSlash => [dos_step] end.

Lemma norm_path_eq st first rest :
  norm (XPath st first rest) =
  match (match st with SRel => [] | SAbs s => lead s | SFrom _ s => lead s end)
        ++ nstep first :: flat_map (fun x : sep * xstep => let (s, y) := x in lead s ++ [nstep y]) rest with
  | [] => XRoot
  | x :: r => XPath (match st with SRel => SRel | SAbs _ => SAbs SSlash | SFrom f _ => SFrom (norm f) SSlash end)
                    x (map (fun y => (SSlash, y)) r)
  end.
Proof. reflexivity. Qed.

Lemma paren_path_eq st first rest :
  paren (XPath st first rest) =
  XPath (match st with
         | SRel => SRel
         | SAbs s => SAbs s
         | SFrom f s => let f' := paren f in SFrom (wrap_if (negb (is_filter f')) f') s
         end)
        (pstep first) (map (fun x : sep * xstep => let (s, y) := x in (s, pstep y)) rest).
Proof. reflexivity. Qed.

Theorem norm_paren : forall a, norm (paren a) = norm a.
Proof.
  apply xexpr_size_ind. intros a IH.
  assert (Hl : forall l, (list_sum (map size l) < size a)%nat -> forall x, In x l -> norm (paren x) = norm x).
  { intros l Hsz x Hx. apply IH. pose proof (size_in x l Hx). lia. }
  assert (Hpreds : forall l, (list_sum (map size l) < size a)%nat ->
            map (fun q => norm_pred_top (norm q)) (map paren l) = map (fun q => norm_pred_top (norm q)) l).
  { intros l Hsz. rewrite map_map. apply map_ext_in. intros x Hx. now rewrite (Hl l Hsz x Hx). }
  assert (Hstep : forall s, (step_size size s < size a)%nat -> nstep (pstep s) = nstep s).
  { intros s Hsz. destruct s as [ax t preds| |]; [|reflexivity|reflexivity]. cbn [pstep nstep]. f_equal.
    apply Hpreds. cbn [step_size] in Hsz. lia. }
  destruct a as [o l r|a'|s|s|q|f args|a'|p preds| |st first rest]; try reflexivity.
  - cbn [paren norm size] in *. rewrite !norm_wrap, (IH l), (IH r) by lia. reflexivity.
  - cbn [paren norm size] in *. rewrite norm_wrap, (IH a') by lia. reflexivity.
  - cbn [paren norm size] in *. f_equal. rewrite map_map. apply map_ext_in. intros x Hx. apply (Hl args); [lia|exact Hx].
  - cbn [paren norm size] in *. apply IH. lia.
  - cbn [paren size] in *. cbn [norm]. rewrite norm_wrap, (IH p) by lia.
    destruct preds as [|x preds']; [reflexivity|]. cbn [map]. f_equal.
    change (norm_pred_top (norm (paren x)) :: map (fun q => norm_pred_top (norm q)) (map paren preds'))
      with (map (fun q => norm_pred_top (norm q)) (map paren (x :: preds'))).
    rewrite Hpreds by lia. reflexivity.
  - rewrite paren_path_eq, !norm_path_eq. cbn [size] in IH, Hl, Hpreds, Hstep.
    assert (Hfirst : nstep (pstep first) = nstep first) by (apply Hstep; lia).
    assert (Hrest : flat_map (fun x : sep * xstep => let (s, y) := x in lead s ++ [nstep y])
                      (map (fun x : sep * xstep => let (s, y) := x in (s, pstep y)) rest)
                    = flat_map (fun x : sep * xstep => let (s, y) := x in lead s ++ [nstep y]) rest).
    { assert (Hin : forall y, In y rest -> nstep (pstep (snd y)) = nstep (snd y)).
      { intros y Hy. apply Hstep. pose proof (size_in_rest y rest Hy). lia. }
      clear -Hin. induction rest as [|[sp y] rest IHr]; [reflexivity|]. cbn [map flat_map].
      pose proof (Hin (sp, y) (or_introl eq_refl)) as E. cbn [snd] in E. rewrite E. f_equal. apply IHr. intros z Hz. apply Hin. right. exact Hz. }
    rewrite Hfirst, Hrest.
    destruct st as [|sp|f sp]; try reflexivity.
    cbv beta iota zeta. rewrite norm_wrap, (IH f) by (cbn [size]; lia). reflexivity.
Qed.

Theorem paren_equiv : forall a, paren a ≈ a.
Proof. intros a. unfold xequiv. apply norm_paren. Qed.

(** ** [paren] yields a derivable tree *)
Lemma level_paren_le8 a : (level a <= 8)%nat.
Proof. destruct a as [o| | | | | | | | |]; cbn [level]; try lia. destruct o; cbn; lia. Qed.

Lemma lvl_le7 o : (lvl o <= 7)%nat.
Proof. destruct o; cbn; lia. Qed.

Lemma wfb_wrap c a : wfb (wrap_if c a) = wfb a.
Proof. destruct c; reflexivity. Qed.

Theorem paren_wf : forall a, leaves_ok a = true -> wfb (paren a) = true.
Proof.
  apply (xexpr_size_ind (fun a => leaves_ok a = true -> wfb (paren a) = true)). intros a IH Hl.
  assert (Hlist : forall l, (list_sum (map size l) < size a)%nat -> forallb leaves_ok l = true ->
            forallb wfb (map paren l) = true).
  { intros l Hsz Hok. apply forallb_map_in. intros x Hx. rewrite forallb_forall in Hok.
    apply IH; [pose proof (size_in x l Hx); lia|apply Hok, Hx]. }
  assert (Hstep : forall s, (step_size size s < size a)%nat -> step_leaves leaves_ok s = true ->
            match pstep s with XStep _ t preds => wf_ntest t && forallb wfb preds | _ => true end = true).
  { intros s Hsz Hok. destruct s as [ax t preds| |]; [|reflexivity|reflexivity]. cbn [pstep step_leaves] in *.
    apply andb_true_iff in Hok. destruct Hok as [Ht Hp]. rewrite Ht. cbn [andb]. apply Hlist; [cbn [step_size] in Hsz; lia|exact Hp]. }
  destruct a as [o l r|a'|s|s|q|f args|a'|p preds| |st first rest]; cbn [leaves_ok size] in *; try (cbn [paren wfb]; exact Hl); try reflexivity.
  - apply andb_true_iff in Hl. destruct Hl as [Hll Hlr].
    pose proof (IH l ltac:(lia) Hll) as Wl. pose proof (IH r ltac:(lia) Hlr) as Wr.
    cbn [paren]. set (l' := paren l) in *. set (r' := paren r) in *. cbn [wfb]. rewrite !wfb_wrap, Wl, Wr, !andb_true_r.
    pose proof (lvl_le7 o) as L7.
    assert (H1 : (lvl o <=? level (wrap_if ((level l' <? lvl o)%nat || bad_after_root o && ends_root l') l'))%nat = true).
    { destruct ((level l' <? lvl o)%nat) eqn:E; cbn [orb wrap_if level].
      - apply Nat.leb_le. lia.
      - destruct (bad_after_root o && ends_root l'); cbn [wrap_if level]; apply Nat.leb_le; [lia|apply Nat.ltb_ge in E; exact E]. }
    assert (H2 : (lvl o <? level (wrap_if (level r' <=? lvl o)%nat r'))%nat = true).
    { destruct ((level r' <=? lvl o)%nat) eqn:E; cbn [wrap_if level]; apply Nat.ltb_lt; [lia|apply Nat.leb_gt in E; exact E]. }
    assert (H3 : negb (bad_after_root o && ends_root (wrap_if ((level l' <? lvl o)%nat || bad_after_root o && ends_root l') l')) = true).
    { destruct (bad_after_root o) eqn:Eb; [|reflexivity]. cbn [andb].
      destruct (ends_root l') eqn:Er; [rewrite orb_true_r; reflexivity|].
      destruct ((level l' <? lvl o)%nat); cbn [orb wrap_if ends_root]; [reflexivity|now rewrite Er]. }
    now rewrite H1, H2, H3.
  - pose proof (IH a' ltac:(lia) Hl) as Wa. cbn [paren]. set (x := paren a') in *. cbn [wfb]. rewrite wfb_wrap, Wa, andb_true_r.
    destruct ((level x <? 6)%nat) eqn:E; cbn [wrap_if level]; [reflexivity|apply Nat.leb_le; apply Nat.ltb_ge in E; exact E].
  - apply andb_true_iff in Hl. destruct Hl as [Hf Hargs]. cbn [paren wfb]. rewrite Hf. cbn [andb]. apply Hlist; [lia|exact Hargs].
  - cbn [paren wfb]. apply IH; [lia|exact Hl].
  - rewrite !andb_true_iff in Hl. destruct Hl as [[Hp Hne] Hpreds].
    pose proof (IH p ltac:(lia) Hp) as Wp. cbn [paren]. set (p' := paren p) in *. cbn [wfb]. rewrite wfb_wrap, Wp.
    rewrite (Hlist preds ltac:(lia) Hpreds), !andb_true_r.
    apply andb_true_iff. split.
    + destruct (is_primary p') eqn:E; cbn [negb wrap_if]; [exact E|reflexivity].
    + destruct preds; [discriminate|reflexivity].
  - rewrite !andb_true_iff in Hl. destruct Hl as [[Hst Hfirst] Hrest].
    rewrite paren_path_eq. cbn [wfb].
    rewrite (Hstep first ltac:(lia) Hfirst), andb_true_r.
    apply andb_true_iff. split.
    + destruct st as [|sp|f sp]; [reflexivity|reflexivity|].
      pose proof (IH f ltac:(cbn [size]; lia) Hst) as Wf. cbn zeta. set (f' := paren f) in *. rewrite wfb_wrap, Wf, andb_true_r.
      destruct (is_filter f') eqn:E; cbn [negb wrap_if]; [exact E|reflexivity].
    + rewrite forallb_forall in Hrest. apply forallb_map_in. intros [sp y] Hy.
      pose proof (size_in_rest (sp, y) rest Hy) as Hsz. cbn [snd] in Hsz.
      apply (Hstep y); [lia|apply (Hrest (sp, y) Hy)].
Qed.

(** [paren] introduces no function name *)
Lemma nfc_wrap c a : no_fname_case (wrap_if c a) = no_fname_case a.
Proof. destruct c; reflexivity. Qed.

Theorem nfc_paren : forall a, no_fname_case (paren a) = no_fname_case a.
Proof.
  apply xexpr_size_ind. intros a IH.
  assert (Hlist : forall l, (list_sum (map size l) < size a)%nat ->
            forallb no_fname_case (map paren l) = forallb no_fname_case l).
  { intros l Hsz. induction l as [|x l IHl]; [reflexivity|].
    change (list_sum (map size (x :: l))) with (size x + list_sum (map size l))%nat in Hsz.
    cbn [map forallb]. rewrite (IH x) by lia. f_equal. apply IHl. lia. }
  assert (Hstep : forall s, (step_size size s < size a)%nat ->
            match pstep s with XStep _ _ preds => forallb no_fname_case preds | _ => true end
            = match s with XStep _ _ preds => forallb no_fname_case preds | _ => true end).
  { intros s Hsz. destruct s as [ax t preds| |]; [|reflexivity|reflexivity]. cbn [pstep]. apply Hlist. cbn [step_size] in Hsz. lia. }
  destruct a as [o l r|a'|s|s|q|f args|a'|p preds| |st first rest]; cbn [size] in *; try reflexivity.
  - cbn [paren no_fname_case]. rewrite !nfc_wrap, (IH l), (IH r) by lia. reflexivity.
  - cbn [paren no_fname_case]. rewrite nfc_wrap. apply IH. lia.
  - cbn [paren no_fname_case]. f_equal. apply Hlist. lia.
  - cbn [paren no_fname_case]. apply IH. lia.
  - cbn [paren no_fname_case]. rewrite nfc_wrap, (IH p), Hlist by lia. reflexivity.
  - rewrite paren_path_eq. cbn [no_fname_case].
    rewrite (Hstep first) by lia. f_equal; [f_equal|].
    + destruct st as [|sp|f sp]; [reflexivity|reflexivity|]. cbn zeta. rewrite nfc_wrap. apply IH. cbn [size]. lia.
    + assert (Hin : forall y, In y rest ->
               match pstep (snd y) with XStep _ _ preds => forallb no_fname_case preds | _ => true end
               = match snd y with XStep _ _ preds => forallb no_fname_case preds | _ => true end).
      { intros y Hy. apply Hstep. pose proof (size_in_rest y rest Hy). lia. }
      clear -Hin. induction rest as [|[sp y] rest IHr]; [reflexivity|]. cbn [map forallb].
      pose proof (Hin (sp, y) (or_introl eq_refl)) as E. cbn [snd] in E. rewrite E. f_equal. apply IHr.
      intros z Hz. apply Hin. right. exact Hz.
Qed.

(** ** [abbreviate] preserves the normal form *)
Definition apred (q : xexpr) : xexpr := abbr_pred_top (abbreviate q).

Definition astep (s : xstep) : xstep :=
  match s with
  | XStep a t preds =>
      match a, t, preds with
      | AFull XSelf, TType KNode, [] => XDot
      | AFull XParent, TType KNode, [] => XDotDot
      | _, _, _ =>
          XStep (match a with AFull XChild => AOmit | AFull XAttribute => AAt | _ => a end) t (map apred preds)
      end
  | XDot => XDot
  | XDotDot => XDotDot
  end.

Definition arest (rest : list (sep * xstep)) : list (sep * xstep) :=
  map (fun x : sep * xstep => let (s, y) := x in (s, astep y)) rest.

Lemma abbreviate_path_eq st first rest :
  abbreviate (XPath st first rest) =
  match st with
  | SAbs SSlash =>
      match abbr_steps ((SSlash, astep first) :: arest rest) with
      | (s, x) :: r => XPath (SAbs s) x r
      | [] => XPath st (astep first) []
      end
  | SFrom f SSlash =>
      match abbr_steps ((SSlash, astep first) :: arest rest) with
      | (s, x) :: r => XPath (SFrom (abbreviate f) s) x r
      | [] => XPath (SFrom (abbreviate f) SSlash) (astep first) []
      end
  | SFrom f SDSlash => XPath (SFrom (abbreviate f) SDSlash) (astep first) (abbr_steps (arest rest))
  | _ => XPath st (astep first) (abbr_steps (arest rest))
  end.
Proof. reflexivity. Qed.

Lemma str_eqb_true (a b : str) : str_eqb a b = true -> a = b.
Proof.
  revert b; induction a as [|x a IH]; intros [|y b]; cbn [str_eqb]; try discriminate; [reflexivity|].
  intros H. apply andb_true_iff in H. destruct H as [Hx Hr]. apply N.eqb_eq in Hx. subst. f_equal. apply IH, Hr.
Qed.

Lemma norm_abbr_pred_top q : norm_pred_top (norm (abbr_pred_top q)) = norm_pred_top (norm q).
Proof.
  destruct q as [o a b| | | | | | | | |]; try reflexivity.
  destruct o; try reflexivity. destruct a as [| | | | |f args| | | |]; try reflexivity.
  destruct f as [[p|] f]; try reflexivity. destruct args; try reflexivity. destruct b; try reflexivity.
  cbn [abbr_pred_top]. destruct (str_eqb f t_position) eqn:E; [|reflexivity].
  apply str_eqb_true in E. subst. reflexivity.
Qed.

Definition F_steps (x : sep * xstep) : list xstep := let (s, y) := x in lead s ++ [nstep y].

Lemma is_dos_eq d : is_dos d = true -> d = dos_step.
Proof.
  destruct d as [a t preds| |]; try discriminate. destruct a as [x| |]; try discriminate.
  destruct x; try discriminate. destruct t as [| | |k|]; try discriminate. destruct k; try discriminate.
  destruct preds; [reflexivity|discriminate].
Qed.

Lemma flat_map_abbr_steps : forall n l, (length l <= n)%nat -> flat_map F_steps (abbr_steps l) = flat_map F_steps l.
Proof.
  induction n as [|n IH]; intros l Hl.
  - destruct l; [reflexivity|cbn in Hl; lia].
  - destruct l as [|[s d] l]; [reflexivity|]. cbn [length] in Hl.
    destruct s.
    + destruct l as [|[s2 x] r].
      * reflexivity.
      * destruct s2.
        -- cbn [abbr_steps]. destruct (is_dos d) eqn:Ed.
           ++ apply is_dos_eq in Ed. subst d. cbn [flat_map]. rewrite (IH r) by (cbn [length] in Hl; lia). reflexivity.
           ++ change (flat_map F_steps ((SSlash, d) :: abbr_steps ((SSlash, x) :: r)) = flat_map F_steps ((SSlash, d) :: (SSlash, x) :: r)).
              cbn [flat_map]. f_equal. apply (IH ((SSlash, x) :: r)). cbn [length] in *. lia.
        -- change (abbr_steps ((SSlash, d) :: (SDSlash, x) :: r)) with ((SSlash, d) :: abbr_steps ((SDSlash, x) :: r)).
           cbn [flat_map]. f_equal. apply (IH ((SDSlash, x) :: r)). cbn [length] in *. lia.
    + change (abbr_steps ((SDSlash, d) :: l)) with ((SDSlash, d) :: abbr_steps l).
      cbn [flat_map]. f_equal. apply IH. lia.
Qed.

Lemma abbr_steps_nonempty x l : abbr_steps (x :: l) <> [].
Proof.
  destruct x as [s d]. destruct s; [|discriminate]. destruct l as [|[s2 y] r]; [discriminate|].
  destruct s2; cbn [abbr_steps]; [destruct (is_dos d)|]; discriminate.
Qed.

Lemma norm_path_steps st first rest :
  norm (XPath st first rest) =
  match (match st with SRel => [] | SAbs s => lead s | SFrom _ s => lead s end)
        ++ nstep first :: flat_map F_steps rest with
  | [] => XRoot
  | x :: r => XPath (match st with SRel => SRel | SAbs _ => SAbs SSlash | SFrom f _ => SFrom (norm f) SSlash end)
                    x (map (fun y => (SSlash, y)) r)
  end.
Proof. reflexivity. Qed.

Theorem norm_abbreviate : forall a, norm (abbreviate a) = norm a.
Proof.
  apply xexpr_size_ind. intros a IH.
  assert (Hpred : forall q, (size q < size a)%nat -> norm_pred_top (norm (apred q)) = norm_pred_top (norm q)).
  { intros q Hq. unfold apred. rewrite norm_abbr_pred_top, (IH q Hq). reflexivity. }
  assert (Hpreds : forall l, (list_sum (map size l) < size a)%nat ->
            map (fun q => norm_pred_top (norm q)) (map apred l) = map (fun q => norm_pred_top (norm q)) l).
  { intros l Hsz. rewrite map_map. apply map_ext_in. intros x Hx. apply Hpred. pose proof (size_in x l Hx). lia. }
  assert (Hstep : forall s, (step_size size s < size a)%nat -> nstep (astep s) = nstep s).
  { intros s Hsz. destruct s as [ax t preds| |]; [|reflexivity|reflexivity]. cbn [step_size] in Hsz.
    assert (Hgen : nstep (XStep (match ax with AFull XChild => AOmit | AFull XAttribute => AAt | _ => ax end) t (map apred preds))
                   = nstep (XStep ax t preds)).
    { cbn [nstep]. rewrite Hpreds by lia. f_equal. destruct ax as [x| |]; [destruct x|..]; reflexivity. }
    cbn [astep]. destruct ax as [x| |]; try exact Hgen.
    destruct x; try exact Hgen; destruct t as [| | |k|]; try exact Hgen; destruct k; try exact Hgen;
      destruct preds; try exact Hgen; reflexivity. }
  destruct a as [o l r|a'|s|s|q|f args|a'|p preds| |st first rest]; try reflexivity.
  - cbn [abbreviate norm size] in *. rewrite (IH l), (IH r) by lia. reflexivity.
  - cbn [abbreviate norm size] in *. rewrite (IH a') by lia. reflexivity.
  - cbn [abbreviate norm size] in *. f_equal. rewrite map_map. apply map_ext_in. intros x Hx. apply IH.
    pose proof (size_in x args Hx). lia.
  - cbn [abbreviate norm size] in *. apply IH. lia.
  - cbn [abbreviate size] in *. cbn [norm]. rewrite (IH p) by lia.
    destruct preds as [|x preds']; [reflexivity|].
    change (map (fun q => abbr_pred_top (abbreviate q)) (x :: preds')) with (map apred (x :: preds')).
    cbn [map]. f_equal.
    change (norm_pred_top (norm (apred x)) :: map (fun q => norm_pred_top (norm q)) (map apred preds'))
      with (map (fun q => norm_pred_top (norm q)) (map apred (x :: preds'))).
    rewrite Hpreds by lia. reflexivity.
  - cbn [size] in IH, Hpred, Hpreds, Hstep.
    assert (Hfirst : nstep (astep first) = nstep first) by (apply Hstep; lia).
    assert (Hrest : flat_map F_steps (arest rest) = flat_map F_steps rest).
    { assert (Hin : forall y, In y rest -> nstep (astep (snd y)) = nstep (snd y)).
      { intros y Hy. apply Hstep. pose proof (size_in_rest y rest Hy). lia. }
      clear -Hin. unfold arest. induction rest as [|[sp y] rest IHr]; [reflexivity|]. cbn [map flat_map F_steps].
      pose proof (Hin (sp, y) (or_introl eq_refl)) as E. cbn [snd] in E. rewrite E. f_equal. apply IHr.
      intros z Hz. apply Hin. right. exact Hz. }
    assert (Hfull : flat_map F_steps (abbr_steps ((SSlash, astep first) :: arest rest)) = nstep first :: flat_map F_steps rest).
    { rewrite (flat_map_abbr_steps _ _ (Nat.le_refl _)). cbn [flat_map F_steps lead app]. now rewrite Hfirst, Hrest. }
    assert (Htail : flat_map F_steps (abbr_steps (arest rest)) = flat_map F_steps rest).
    { rewrite (flat_map_abbr_steps _ _ (Nat.le_refl _)). exact Hrest. }
    rewrite abbreviate_path_eq. rewrite (norm_path_steps st first rest).
    destruct st as [|sp|f sp].
    + rewrite norm_path_steps, Hfirst, Htail. reflexivity.
    + destruct sp.
      * destruct (abbr_steps ((SSlash, astep first) :: arest rest)) as [|[s x] r] eqn:E; [exfalso; eapply abbr_steps_nonempty, E|].
        rewrite norm_path_steps. cbn [flat_map F_steps] in Hfull. cbn [lead app].
        change (lead s ++ nstep x :: flat_map F_steps r) with (lead s ++ [nstep x] ++ flat_map F_steps r).
        rewrite app_assoc. rewrite Hfull. reflexivity.
      * rewrite norm_path_steps, Hfirst, Htail. reflexivity.
    + assert (Hf : norm (abbreviate f) = norm f) by (apply IH; cbn [size]; lia).
      destruct sp.
      * destruct (abbr_steps ((SSlash, astep first) :: arest rest)) as [|[s x] r] eqn:E; [exfalso; eapply abbr_steps_nonempty, E|].
        rewrite norm_path_steps. cbn [flat_map F_steps] in Hfull. cbn [lead app].
        change (lead s ++ nstep x :: flat_map F_steps r) with (lead s ++ [nstep x] ++ flat_map F_steps r).
        rewrite app_assoc. rewrite Hfull, Hf. reflexivity.
      * rewrite norm_path_steps, Hfirst, Htail, Hf. reflexivity.
Qed.

Theorem abbreviate_equiv : forall a, abbreviate a ≈ a.
Proof. intros a. unfold xequiv. apply norm_abbreviate. Qed.

(** ** [abbreviate] yields a derivable tree *)
Lemma abbreviate_is_path st first rest : exists st' f' r', abbreviate (XPath st first rest) = XPath st' f' r'.
Proof.
  rewrite abbreviate_path_eq. destruct st as [|sp|f sp]; [eauto|destruct sp|destruct sp]; eauto;
  destruct (abbr_steps ((SSlash, astep first) :: arest rest)) as [|[s x] r]; eauto.
Qed.

Lemma abbr_shape : forall a,
  level (abbreviate a) = level a /\ ends_root (abbreviate a) = ends_root a /\
  is_primary (abbreviate a) = is_primary a /\ is_filter (abbreviate a) = is_filter a.
Proof.
  induction a as [o a IHa b IHb|a IHa|s|s|q|f args|a IHa|p IHp preds| |st first rest]; try (repeat split; reflexivity).
  - cbn [abbreviate level ends_root is_primary is_filter]. repeat split; try reflexivity. apply IHb.
  - cbn [abbreviate level ends_root is_primary is_filter]. repeat split; try reflexivity. apply IHa.
  - destruct (abbreviate_is_path st first rest) as (st' & f' & r' & ->). repeat split; reflexivity.
Qed.

Lemma wfb_abbr_pred_top q : wfb q = true -> wfb (abbr_pred_top q) = true.
Proof.
  intros H. destruct q as [o a b| | | | | | | | |]; try exact H.
  destruct o; try exact H. destruct a as [| | | | |f args| | | |]; try exact H.
  destruct f as [[p|] f]; try exact H. destruct args; try exact H. destruct b; try exact H.
  cbn [abbr_pred_top]. destruct (str_eqb f t_position); [|exact H].
  cbn [wfb] in H. rewrite !andb_true_iff in H. apply H.
Qed.

Definition step_ok (Q : xexpr -> bool) (s : xstep) : bool :=
  match s with XStep _ t preds => wf_ntest t && forallb Q preds | _ => true end.

Lemma abbr_steps_forall (Pq : sep * xstep -> bool) : (forall s1 s2 y, Pq (s1, y) = Pq (s2, y)) ->
  forall n l, (length l <= n)%nat -> forallb Pq l = true -> forallb Pq (abbr_steps l) = true.
Proof.
  intros Hsep. induction n as [|n IH]; intros l Hl Hall.
  - destruct l; [reflexivity|cbn in Hl; lia].
  - destruct l as [|[s d] l]; [reflexivity|]. cbn [length] in Hl. cbn [forallb] in Hall.
    apply andb_true_iff in Hall. destruct Hall as [Hd Hrest].
    destruct s.
    + destruct l as [|[s2 x] r]; [cbn [abbr_steps forallb]; now rewrite Hd|].
      destruct s2.
      * cbn [abbr_steps]. cbn [forallb] in Hrest. apply andb_true_iff in Hrest. destruct Hrest as [Hx Hr].
        destruct (is_dos d).
        -- cbn [forallb]. rewrite (Hsep SDSlash SSlash x), Hx. apply IH; [cbn [length] in Hl; lia|exact Hr].
        -- change (forallb Pq ((SSlash, d) :: abbr_steps ((SSlash, x) :: r)) = true). cbn [forallb]. rewrite Hd.
           apply (IH ((SSlash, x) :: r)); [cbn [length] in *; lia|cbn [forallb]; now rewrite Hx, Hr].
      * change (abbr_steps ((SSlash, d) :: (SDSlash, x) :: r)) with ((SSlash, d) :: abbr_steps ((SDSlash, x) :: r)).
        cbn [forallb]. rewrite Hd. apply (IH ((SDSlash, x) :: r)); [cbn [length] in *; lia|exact Hrest].
    + change (abbr_steps ((SDSlash, d) :: l)) with ((SDSlash, d) :: abbr_steps l).
      cbn [forallb]. rewrite Hd. apply IH; [lia|exact Hrest].
Qed.

Lemma wfb_path_eq st first rest :
  wfb (XPath st first rest) =
  (match st with SRel => true | SAbs _ => true | SFrom f _ => is_filter f && wfb f end
   && step_ok wfb first
   && forallb (fun x : sep * xstep => let (_, s) := x in step_ok wfb s) rest).
Proof. reflexivity. Qed.

Theorem abbreviate_wf : forall a, wfb a = true -> wfb (abbreviate a) = true.
Proof.
  apply (xexpr_size_ind (fun a => wfb a = true -> wfb (abbreviate a) = true)). intros a IH Hwf.
  assert (Hpreds : forall l, (list_sum (map size l) < size a)%nat -> forallb wfb l = true -> forallb wfb (map apred l) = true).
  { intros l Hsz Hok. apply forallb_map_in. intros x Hx. rewrite forallb_forall in Hok. unfold apred.
    apply wfb_abbr_pred_top, IH; [pose proof (size_in x l Hx); lia|apply Hok, Hx]. }
  assert (Hstep : forall s, (step_size size s < size a)%nat -> step_ok wfb s = true -> step_ok wfb (astep s) = true).
  { intros s Hsz Hok. destruct s as [ax t preds| |]; [|reflexivity|reflexivity]. cbn [step_size step_ok] in *.
    apply andb_true_iff in Hok. destruct Hok as [Ht Hp].
    assert (Hgen : step_ok wfb (XStep (match ax with AFull XChild => AOmit | AFull XAttribute => AAt | _ => ax end) t (map apred preds)) = true).
    { cbn [step_ok]. rewrite Ht. apply Hpreds; [lia|exact Hp]. }
    cbn [astep]. destruct ax as [x| |]; try exact Hgen.
    destruct x; try exact Hgen; destruct t as [| | |k|]; try exact Hgen; destruct k; try exact Hgen;
      destruct preds; try exact Hgen; reflexivity. }
  destruct a as [o l r|a'|s|s|q|f args|a'|p preds| |st first rest]; try exact Hwf.
  - cbn [abbreviate wfb size] in *. rewrite !andb_true_iff in Hwf. destruct Hwf as [[[[H1 H2] H3] Hl] Hr].
    destruct (abbr_shape l) as (E1 & E2 & _). destruct (abbr_shape r) as (E3 & _).
    rewrite E1, E2, E3, H1, H2, H3, (IH l) by (lia || assumption). rewrite (IH r) by (lia || assumption). reflexivity.
  - cbn [abbreviate wfb size] in *. apply andb_true_iff in Hwf. destruct Hwf as [H1 Ha].
    destruct (abbr_shape a') as (E1 & _). rewrite E1, H1, (IH a') by (lia || assumption). reflexivity.
  - cbn [abbreviate wfb size] in *. apply andb_true_iff in Hwf. destruct Hwf as [Hf Hargs]. rewrite Hf. cbn [andb].
    apply forallb_map_in. intros x Hx. rewrite forallb_forall in Hargs.
    apply IH; [pose proof (size_in x args Hx); lia|apply Hargs, Hx].
  - cbn [abbreviate wfb size] in *. apply IH; [lia|exact Hwf].
  - cbn [abbreviate wfb size] in *. rewrite !andb_true_iff in Hwf. destruct Hwf as [[[Hprim Hp] Hne] Hpreds'].
    destruct (abbr_shape p) as (_ & _ & E3 & _). rewrite E3, Hprim, (IH p) by (lia || assumption).
    change (map (fun q => abbr_pred_top (abbreviate q)) preds) with (map apred preds).
    rewrite (Hpreds preds) by (lia || assumption). destruct preds; [discriminate|reflexivity].
  - rewrite wfb_path_eq in Hwf. rewrite !andb_true_iff in Hwf. destruct Hwf as [[Hst Hfirst] Hrest]. cbn [size] in *.
    assert (Hfirst' : step_ok wfb (astep first) = true) by (apply Hstep; [lia|exact Hfirst]).
    assert (Hrest' : forallb (fun x : sep * xstep => let (_, s) := x in step_ok wfb s) (arest rest) = true).
    { unfold arest. apply forallb_map_in. intros [sp y] Hy. rewrite forallb_forall in Hrest.
      pose proof (size_in_rest (sp, y) rest Hy) as Hsz. cbn [snd] in Hsz. apply Hstep; [lia|apply (Hrest (sp, y) Hy)]. }
    assert (Hsep : forall (s1 s2 : sep) (y : xstep),
              (let (_, s) := (s1, y) in step_ok wfb s) = (let (_, s) := (s2, y) in step_ok wfb s)) by reflexivity.
    assert (Htail : forallb (fun x : sep * xstep => let (_, s) := x in step_ok wfb s) (abbr_steps (arest rest)) = true).
    { apply (abbr_steps_forall _ Hsep _ _ (Nat.le_refl _)), Hrest'. }
    assert (Hfull : forallb (fun x : sep * xstep => let (_, s) := x in step_ok wfb s) (abbr_steps ((SSlash, astep first) :: arest rest)) = true).
    { apply (abbr_steps_forall _ Hsep _ _ (Nat.le_refl _)). cbn [forallb]. now rewrite Hfirst', Hrest'. }
    rewrite abbreviate_path_eq. destruct st as [|sp|f sp].
    + rewrite wfb_path_eq, Hfirst', Htail. reflexivity.
    + destruct sp.
      * destruct (abbr_steps ((SSlash, astep first) :: arest rest)) as [|[s x] r] eqn:E; [exfalso; eapply abbr_steps_nonempty, E|].
        cbn [forallb] in Hfull. apply andb_true_iff in Hfull. destruct Hfull as [Hx Hr].
        rewrite wfb_path_eq, Hx, Hr. reflexivity.
      * rewrite wfb_path_eq, Hfirst', Htail. reflexivity.
    + apply andb_true_iff in Hst. destruct Hst as [Hff Hwf'].
      destruct (abbr_shape f) as (_ & _ & _ & E4).
      assert (Hf' : wfb (abbreviate f) = true) by (apply IH; [lia|exact Hwf']).
      destruct sp.
      * destruct (abbr_steps ((SSlash, astep first) :: arest rest)) as [|[s x] r] eqn:E; [exfalso; eapply abbr_steps_nonempty, E|].
        cbn [forallb] in Hfull. apply andb_true_iff in Hfull. destruct Hfull as [Hx Hr].
        rewrite wfb_path_eq, E4, Hff, Hf', Hx, Hr. reflexivity.
      * rewrite wfb_path_eq, E4, Hff, Hf', Hfirst', Htail. reflexivity.
Qed.

(** [abbreviate] introduces no function name *)
Lemma nfc_abbr_pred_top q : no_fname_case q = true -> no_fname_case (abbr_pred_top q) = true.
Proof.
  intros H. destruct q as [o a b| | | | | | | | |]; try exact H.
  destruct o; try exact H. destruct a as [| | | | |f args| | | |]; try exact H.
  destruct f as [[p|] f]; try exact H. destruct args; try exact H. destruct b; try exact H.
  cbn [abbr_pred_top]. destruct (str_eqb f t_position); [reflexivity|exact H].
Qed.

Definition step_nfc (s : xstep) : bool :=
  match s with XStep _ _ preds => forallb no_fname_case preds | _ => true end.

Lemma nfc_path_eq st first rest :
  no_fname_case (XPath st first rest) =
  (match st with SFrom f _ => no_fname_case f | _ => true end
   && step_nfc first && forallb (fun x : sep * xstep => let (_, s) := x in step_nfc s) rest).
Proof. reflexivity. Qed.

Theorem abbreviate_nfc : forall a, no_fname_case a = true -> no_fname_case (abbreviate a) = true.
Proof.
  apply (xexpr_size_ind (fun a => no_fname_case a = true -> no_fname_case (abbreviate a) = true)). intros a IH Hn.
  assert (Hpreds : forall l, (list_sum (map size l) < size a)%nat -> forallb no_fname_case l = true ->
            forallb no_fname_case (map apred l) = true).
  { intros l Hsz Hok. apply forallb_map_in. intros x Hx. rewrite forallb_forall in Hok. unfold apred.
    apply nfc_abbr_pred_top, IH; [pose proof (size_in x l Hx); lia|apply Hok, Hx]. }
  assert (Hstep : forall s, (step_size size s < size a)%nat -> step_nfc s = true -> step_nfc (astep s) = true).
  { intros s Hsz Hok. destruct s as [ax t preds| |]; [|reflexivity|reflexivity]. cbn [step_size step_nfc] in *.
    assert (Hgen : step_nfc (XStep (match ax with AFull XChild => AOmit | AFull XAttribute => AAt | _ => ax end) t (map apred preds)) = true).
    { cbn [step_nfc]. apply Hpreds; [lia|exact Hok]. }
    cbn [astep]. destruct ax as [x| |]; try exact Hgen.
    destruct x; try exact Hgen; destruct t as [| | |k|]; try exact Hgen; destruct k; try exact Hgen;
      destruct preds; try exact Hgen; reflexivity. }
  destruct a as [o l r|a'|s|s|q|f args|a'|p preds| |st first rest]; try exact Hn.
  - cbn [abbreviate no_fname_case size] in *. apply andb_true_iff in Hn. destruct Hn as [Hl Hr].
    rewrite (IH l), (IH r) by (lia || assumption). reflexivity.
  - cbn [abbreviate no_fname_case size] in *. apply IH; [lia|exact Hn].
  - cbn [abbreviate no_fname_case size] in *. apply andb_true_iff in Hn. destruct Hn as [Hf Hargs]. rewrite Hf. cbn [andb].
    apply forallb_map_in. intros x Hx. rewrite forallb_forall in Hargs.
    apply IH; [pose proof (size_in x args Hx); lia|apply Hargs, Hx].
  - cbn [abbreviate no_fname_case size] in *. apply IH; [lia|exact Hn].
  - cbn [abbreviate no_fname_case size] in *. apply andb_true_iff in Hn. destruct Hn as [Hp Hpr].
    rewrite (IH p) by (lia || assumption).
    change (map (fun q => abbr_pred_top (abbreviate q)) preds) with (map apred preds).
    rewrite (Hpreds preds) by (lia || assumption). reflexivity.
  - rewrite nfc_path_eq in Hn. rewrite !andb_true_iff in Hn. destruct Hn as [[Hst Hfirst] Hrest]. cbn [size] in *.
    assert (Hfirst' : step_nfc (astep first) = true) by (apply Hstep; [lia|exact Hfirst]).
    assert (Hrest' : forallb (fun x : sep * xstep => let (_, s) := x in step_nfc s) (arest rest) = true).
    { unfold arest. apply forallb_map_in. intros [sp y] Hy. rewrite forallb_forall in Hrest.
      pose proof (size_in_rest (sp, y) rest Hy) as Hsz. cbn [snd] in Hsz. apply Hstep; [lia|apply (Hrest (sp, y) Hy)]. }
    assert (Hsep : forall (s1 s2 : sep) (y : xstep),
              (let (_, s) := (s1, y) in step_nfc s) = (let (_, s) := (s2, y) in step_nfc s)) by reflexivity.
    assert (Htail : forallb (fun x : sep * xstep => let (_, s) := x in step_nfc s) (abbr_steps (arest rest)) = true).
    { apply (abbr_steps_forall _ Hsep _ _ (Nat.le_refl _)), Hrest'. }
    assert (Hfull : forallb (fun x : sep * xstep => let (_, s) := x in step_nfc s) (abbr_steps ((SSlash, astep first) :: arest rest)) = true).
    { apply (abbr_steps_forall _ Hsep _ _ (Nat.le_refl _)). cbn [forallb]. now rewrite Hfirst', Hrest'. }
    rewrite abbreviate_path_eq. destruct st as [|sp|f sp].
    + rewrite nfc_path_eq, Hfirst', Htail. reflexivity.
    + destruct sp.
      * destruct (abbr_steps ((SSlash, astep first) :: arest rest)) as [|[s x] r] eqn:E; [exfalso; eapply abbr_steps_nonempty, E|].
        cbn [forallb] in Hfull. apply andb_true_iff in Hfull. destruct Hfull as [Hx Hr].
        rewrite nfc_path_eq, Hx, Hr. reflexivity.
      * rewrite nfc_path_eq, Hfirst', Htail. reflexivity.
    + assert (Hf' : no_fname_case (abbreviate f) = true) by (apply IH; [lia|exact Hst]).
      destruct sp.
      * destruct (abbr_steps ((SSlash, astep first) :: arest rest)) as [|[s x] r] eqn:E; [exfalso; eapply abbr_steps_nonempty, E|].
        cbn [forallb] in Hfull. apply andb_true_iff in Hfull. destruct Hfull as [Hx Hr].
        rewrite nfc_path_eq, Hf', Hx, Hr. reflexivity.
      * rewrite nfc_path_eq, Hf', Hfirst', Htail. reflexivity.
Qed.
