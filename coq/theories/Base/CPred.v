(** * Character predicates as data, and a verified equivalence check.

    A [cpred] is the image of a Rust predicate [fn is_x(value: char) -> bool] built from
    [matches!(value as u32, a..=b | c)], [value == 'x'], [is_ascii_*], [||], [&&], [!],
    [excepts.contains(value)] and calls to sibling predicates (the translator T1,
    tools/rs2v/xmlchar.py, emits them).  [equiv_sound] decides extensional equality of two
    predicates for EVERY code point [c : N] by comparing them on finitely many thresholds,
    so the class theorems of C18 do not depend on how the ranges are ordered or grouped
    in the source. *)
From Coq Require Import List NArith Lia Bool.
Import ListNotations.
Open Scope N_scope.

Definition char := N.
Definition str := list char.

Inductive cpred :=
| InR (l : list (N * N))          (* union of inclusive ranges *)
| Or (a b : cpred) | And (a b : cpred) | Not (a : cpred)
| NotIn (l : list N).             (* !excepts.contains(c) *)

Definition in_range (c : N) (r : N * N) : bool := (fst r <=? c) && (c <? snd r + 1).

Fixpoint eval (p : cpred) (c : N) : bool :=
  match p with
  | InR l => existsb (in_range c) l
  | Or a b => eval a c || eval b c
  | And a b => eval a c && eval b c
  | Not a => negb (eval a c)
  | NotIn l => negb (existsb (fun x => (x <=? c) && (c <? x + 1)) l)
  end.

(** thresholds [t] such that [eval p c] looks at [c] only through [t <=? c] *)
Fixpoint bps (p : cpred) : list N :=
  match p with
  | InR l => flat_map (fun r => [fst r; snd r + 1]) l
  | Or a b | And a b => bps a ++ bps b
  | Not a => bps a
  | NotIn l => flat_map (fun x => [x; x + 1]) l
  end.

Definition same_side (l : list N) (c c' : N) : Prop :=
  forall b, In b l -> (b <=? c) = (b <=? c').

Lemma ltb_as_leb c t : (c <? t) = negb (t <=? c).
Proof. destruct (N.ltb_spec c t), (N.leb_spec t c); try reflexivity; lia. Qed.

Lemma eval_same p : forall c c', same_side (bps p) c c' -> eval p c = eval p c'.
Proof.
  induction p as [l|a IHa b IHb|a IHa b IHb|a IHa|l]; intros c c' H; cbn [eval bps] in *.
  - induction l as [|r l IH]; cbn [existsb flat_map] in *; [reflexivity|].
    unfold in_range at 1 3. rewrite !ltb_as_leb.
    rewrite (H (fst r)) by (cbn; auto). rewrite (H (snd r + 1)) by (cbn; auto).
    f_equal. apply IH. intros b Hb. apply H. cbn. auto.
  - rewrite (IHa c c'), (IHb c c'); [reflexivity| |]; intros x Hx; apply H; apply in_or_app; auto.
  - rewrite (IHa c c'), (IHb c c'); [reflexivity| |]; intros x Hx; apply H; apply in_or_app; auto.
  - f_equal; apply IHa; exact H.
  - f_equal. induction l as [|x l IH]; cbn [existsb flat_map] in *; [reflexivity|].
    rewrite !ltb_as_leb. rewrite (H x) by (cbn; auto). rewrite (H (x + 1)) by (cbn; auto).
    f_equal. apply IH. intros b Hb. apply H. cbn. auto.
Qed.

(** representative of [c]: the largest threshold below it, or 0 *)
Fixpoint floor_bp (l : list N) (c : N) : N :=
  match l with
  | [] => 0
  | b :: l' => let m := floor_bp l' c in if b <=? c then N.max b m else m
  end.

Lemma floor_le l c : floor_bp l c <= c.
Proof. induction l as [|b l IH]; cbn [floor_bp]; [lia|]. destruct (N.leb_spec b c); lia. Qed.

Lemma floor_in l c : floor_bp l c = 0 \/ In (floor_bp l c) l.
Proof.
  induction l as [|b l IH]; cbn [floor_bp]; [auto|]. destruct (b <=? c).
  - destruct (N.max_spec b (floor_bp l c)) as [[_ ->]|[_ ->]];
      [destruct IH; [auto|right; right; auto]|right; left; reflexivity].
  - destruct IH; [auto|right; right; auto].
Qed.

Lemma floor_side l c : same_side l c (floor_bp l c).
Proof.
  intros b Hb. pose proof (floor_le l c).
  destruct (N.leb_spec b c) as [L|L]; destruct (N.leb_spec b (floor_bp l c)) as [L'|L'];
    try reflexivity; try lia.
  exfalso. revert L'. induction l as [|x l IH]; [destruct Hb|]. cbn [floor_bp].
  destruct Hb as [->|Hb].
  - destruct (N.leb_spec b c); lia.
  - destruct (N.leb_spec x c); intros;
      [apply IH; auto; [apply floor_le|lia]|apply IH; auto; apply floor_le].
Qed.

Definition agree_on (p q : cpred) (l : list N) : bool :=
  forallb (fun b => Bool.eqb (eval p b) (eval q b)) l.
Definition equiv_check (p q : cpred) : bool := agree_on p q (0 :: bps p ++ bps q).

Theorem equiv_sound p q : equiv_check p q = true -> forall c, eval p c = eval q c.
Proof.
  intros H c. set (l := bps p ++ bps q).
  assert (Hs : same_side l c (floor_bp l c)) by apply floor_side.
  rewrite (eval_same p c (floor_bp l c)) by (intros b Hb; apply Hs; apply in_or_app; auto).
  rewrite (eval_same q c (floor_bp l c)) by (intros b Hb; apply Hs; apply in_or_app; auto).
  unfold equiv_check, agree_on in H. rewrite forallb_forall in H.
  apply Bool.eqb_prop, H. fold l.
  destruct (floor_in l c) as [->|Hin]; [left; reflexivity|right; exact Hin].
Qed.

(** the smallest-index threshold on which two predicates differ: the replay of a broken
    class theorem (evaluated by the check, confirmed on the Rust function) *)
Definition first_diff (p q : cpred) : option N :=
  find (fun b => negb (Bool.eqb (eval p b) (eval q b))) (0 :: bps p ++ bps q).

(** completeness of the check, so that a failing check is a genuine difference *)
Lemma equiv_complete p q : equiv_check p q = false -> exists c, eval p c <> eval q c.
Proof.
  unfold equiv_check, agree_on. intros H.
  destruct (forallb_forall (fun b => Bool.eqb (eval p b) (eval q b)) (0 :: bps p ++ bps q)) as [_ Hf].
  destruct (existsb (fun b => negb (Bool.eqb (eval p b) (eval q b))) (0 :: bps p ++ bps q)) eqn:E.
  - apply existsb_exists in E. destruct E as [c [_ Hc]]. exists c. intros Heq.
    rewrite Heq in Hc. rewrite Bool.eqb_reflx in Hc. discriminate.
  - exfalso. rewrite Hf in H; [discriminate|]. intros x Hx.
    assert (Hn : negb (Bool.eqb (eval p x) (eval q x)) = false).
    { destruct (negb (Bool.eqb (eval p x) (eval q x))) eqn:En; [|reflexivity].
      assert (existsb (fun b => negb (Bool.eqb (eval p b) (eval q b))) (0 :: bps p ++ bps q) = true)
        by (apply existsb_exists; exists x; auto). congruence. }
    destruct (Bool.eqb (eval p x) (eval q x)); [reflexivity|discriminate].
Qed.

Definition scalar (c : N) : Prop := c < 0xD800 \/ (0xE000 <= c /\ c <= 0x10FFFF).
Definition scalarb (c : N) : bool := (c <? 0xD800) || ((0xE000 <=? c) && (c <=? 0x10FFFF)).
