(** * C01, the DOM view of the element tree.

    For every element [e] of the typed parse model that [XmlElement::node] ([build_element]) accepts, the
    dump of the built item through the DOM accessors ([Model.DomView.item_dump]) is
      - in the raw view, after the merging of checks/C01.py ([mr]): the tokens [Spec.Infoset.item_tokens] of the
        tree that the specification builds from the same text ([x_elem e], entity references expanded);
      - in the merged-text view: the tokens [item_tokens2] of that tree (= the specification's tokens, with a text
        token for every maximal run of character data that has an item, also when it has no character: WF14).
    The section is parametrised by what a resolved entity reference in content expands to ([Hcont]) and by the
    rows of the attributes of one element ([Hattrs]); both are instantiated without a document type declaration
    here (only the predefined entities; no defaults, no declared types) and with one in Proofs/DomViewDtd.v. *)
From Coq Require Import List NArith Arith Lia Bool Permutation.
From XmlRs Require Import Base.CPred Spec.XmlChars Model.Peg Gen.XmlcharGen Gen.GrammarXmlGen Model.ParseActions Model.Info Model.DomView
     Proofs.PipelineTotal Proofs.DisplayLex Proofs.ParseInvElem Proofs.ParseInvBuild
     Proofs.XmlWFSyntaxLex Proofs.XmlWFSyntaxElem Proofs.XmlWFSyntaxCheck Proofs.DomViewBase.
From XmlRs Require Spec.XmlWF Spec.Infoset Proofs.Expansion Proofs.XmlWFSyntaxRenderCheck.
Import ListNotations.
Local Open Scope N_scope.

(** ** the two local loops of [item_dump] as functions *)
Fixpoint kids_raw (dt : option doctype) (l : list item) : list dtoken :=
  match l with [] => [] | y :: t => item_dump dt false y ++ kids_raw dt t end.

Fixpoint kids_merged (dt : option doctype) (l : list item) (run : option (option str)) : list dtoken :=
  match l with
  | [] => flush_run run
  | y :: t => match run_data (ents_of dt) y with
              | Some d => kids_merged dt t (push_run run d)
              | None => flush_run run ++ item_dump dt true y ++ kids_merged dt t None
              end
  end.

Lemma go_raw dt : forall l,
  (fix go (l : list item) : list dtoken := match l with [] => [] | y :: t => item_dump dt false y ++ go t end) l = kids_raw dt l.
Proof.
  induction l as [|y l IH]; [reflexivity|]. cbn [kids_raw].
  match goal with |- ?L = _ => let L' := eval cbv beta iota fix in L in change L with L' end.
  rewrite IH. reflexivity.
Qed.

Lemma go_merged dt : forall l run,
  (fix go (l : list item) (run : option (option str)) : list dtoken :=
     match l with
     | [] => flush_run run
     | y :: t => match run_data (ents_of dt) y with
                 | Some d => go t (push_run run d)
                 | None => flush_run run ++ item_dump dt true y ++ go t None
                 end
     end) l run = kids_merged dt l run.
Proof.
  induction l as [|y l IH]; intros run; [reflexivity|]. cbn [kids_merged].
  match goal with |- ?L = _ => let L' := eval cbv beta iota fix in L in change L with L' end.
  destruct (run_data (ents_of dt) y); rewrite IH; reflexivity.
Qed.

Lemma item_dump_elem_raw dt local prefix attrs children : item_dump dt false (ItElement local prefix attrs children) =
  KTok (Infoset.TElem (qn local prefix)) :: attr_rows dt local prefix attrs ++ kids_raw dt children ++ [KTok Infoset.TEndElem].
Proof. cbn [item_dump]. rewrite go_raw. reflexivity. Qed.

Lemma item_dump_elem_merged dt local prefix attrs children : item_dump dt true (ItElement local prefix attrs children) =
  KTok (Infoset.TElem (qn local prefix)) :: attr_rows dt local prefix attrs ++ kids_merged dt children None ++ [KTok Infoset.TEndElem].
Proof. cbn [item_dump]. rewrite go_merged. reflexivity. Qed.

(** [kids_merged] with the pending run as a result *)
Fixpoint km (dt : option doctype) (l : list item) (run : option (option str)) : list dtoken * option (option str) :=
  match l with
  | [] => ([], run)
  | y :: t => match run_data (ents_of dt) y with
              | Some d => km dt t (push_run run d)
              | None => let (o, r) := km dt t None in (flush_run run ++ item_dump dt true y ++ o, r)
              end
  end.

Lemma kids_merged_km dt : forall l run, kids_merged dt l run = fst (km dt l run) ++ flush_run (snd (km dt l run)).
Proof.
  induction l as [|y l IH]; intros run; [reflexivity|]. cbn [kids_merged km]. destruct (run_data (ents_of dt) y) as [d|].
  - apply IH.
  - rewrite IH. destruct (km dt l None) as [o r]. cbn [fst snd]. now rewrite <- !app_assoc.
Qed.

Lemma km_app dt : forall a b run, km dt (a ++ b) run =
  let (o1, r1) := km dt a run in let (o2, r2) := km dt b r1 in (o1 ++ o2, r2).
Proof.
  induction a as [|y a IH]; intros b run.
  - cbn [app km]. destruct (km dt b run); reflexivity.
  - cbn [app km]. destruct (run_data (ents_of dt) y) as [d|]; [apply IH|]. rewrite IH.
    destruct (km dt a None) as [o1 r1]. destruct (km dt b r1) as [o2 r2]. now rewrite <- !app_assoc.
Qed.

Lemma km_elem dt lo pr at' ch run :
  km dt [ItElement lo pr at' ch] run = (flush_run run ++ item_dump dt true (ItElement lo pr at' ch), None).
Proof. cbn [km run_data]. now rewrite app_nil_r. Qed.

Lemma kids_raw_app dt : forall a b, kids_raw dt (a ++ b) = kids_raw dt a ++ kids_raw dt b.
Proof. induction a as [|y a IH]; intros b; [reflexivity|]. cbn [app kids_raw]. now rewrite IH, app_assoc. Qed.

(** the run of the merged view that corresponds to the state of [item_tokens2] *)
Definition run_of (st : bool) (acc : str) : option (option str) := if st then Some (Some (rev acc)) else None.

Lemma flush_run_of st acc : flush_run (run_of st acc) = map KTok (fl2 st acc).
Proof. destruct st; reflexivity. Qed.

Lemma push_run_of st acc s : inv2 st acc -> push_run (run_of st acc) (Some s) = run_of true (rev s ++ acc).
Proof.
  intros Hi. destruct st; cbn [run_of push_run].
  - now rewrite rev_app_distr, rev_involutive.
  - rewrite (Hi eq_refl), app_nil_r, rev_involutive. reflexivity.
Qed.

Lemma map_plain_KTok (l : list Infoset.token) : map plain_token (map KTok l) = l.
Proof. rewrite map_map. apply map_id. Qed.

(** attribute tokens are attribute tokens *)
Lemma attr_tokens_marks fuel en sub nm atts : forallb is_mark (map KTok (Infoset.attr_tokens fuel en sub nm atts)) = true.
Proof.
  unfold Infoset.attr_tokens. cbv zeta. apply forallb_forall. intros t Ht.
  apply in_map_iff in Ht. destruct Ht as [t0 [<- Ht]]. apply in_map_iff in Ht. destruct Ht as [[k t'] [<- Hin]].
  match type of Hin with In _ (Infoset.sort_by _ ?L) => pose proof (RT.sort_perm fst L) as Hp end.
  apply (Permutation_in _ Hp) in Hin. apply in_app_or in Hin. destruct Hin as [Hin|Hin]; apply in_map_iff in Hin; destruct Hin as [[a v] [E _]];
    injection E as _ <-; reflexivity.
Qed.

(** ** names *)
Lemma qn_qname (n : qname) : qn (fst (qname_parts n)) (snd (qname_parts n)) = d_qname n.
Proof. destruct n; reflexivity. Qed.

Lemma qn_attname (n : att_name) : qn (fst (attribute_name n)) (snd (attribute_name n)) = x_attname n.
Proof. destruct n as [|s|[p l|x]]; reflexivity. Qed.

Lemma lookup2_name ents nm e d : lookup_entity2 ents nm = IOk (e, d) -> en_name e = nm.
Proof.
  unfold lookup_entity2. destruct (find (fun e0 => str_eqb (en_name e0) nm) ents) as [e0|] eqn:Ef.
  - intros H. injection H as <- _. apply find_some in Ef. destruct Ef as [_ Ef]. now apply Proofs.Expansion.str_eqb_eq in Ef.
  - unfold predefined, builtin_entity.
    repeat match goal with |- (match (if ?b then _ else _) with _ => _ end) = _ -> _ => destruct b; [intros H; injection H as <- _; reflexivity|] end.
    intros H; discriminate H.
Qed.

Lemma resolve_name ents ext a nm e : resolve_ref ents ext a nm = IOk e -> en_name e = nm.
Proof.
  unfold resolve_ref. intros H. apply ibind_ok in H. destruct H as [[e0 d] [H1 H2]]. apply ibind_ok in H2. destruct H2 as [s [_ H2]].
  cbn [fst] in H2. injection H2 as <-. eapply lookup2_name. exact H1.
Qed.

(** ** trees on which the two sides are compared: no unexpanded reference (a reference to an external parsed entity is
    not included), and at every element the condition [okattrs] on its name and attributes (no listed finding) *)
Fixpoint tree_good (okattrs : str -> list (str * list W.avpiece) -> bool) (x : W.xcontent) : bool :=
  match x with
  | W.XEntRef _ => false
  | W.XElem nm atts _ kids => okattrs nm atts && forallb (tree_good okattrs) kids
  | W.XExp _ items => forallb (tree_good okattrs) items
  | _ => true
  end.

Lemma tree_good_nu okattrs : forall x, tree_good okattrs x = true -> Infoset.no_unexp x = true.
Proof.
  apply (CV.xcontent_ind2 (fun x => tree_good okattrs x = true -> Infoset.no_unexp x = true)).
  intros x Hk. destruct x as [c|s|n|nm|s|tg d|nm atts et kids|nm items]; cbn [tree_good Infoset.no_unexp]; intros H; try reflexivity; try discriminate H.
  - apply andb_prop in H. destruct H as [_ H]. induction Hk as [|y kids Hy _ IH]; [reflexivity|]. cbn [forallb] in *. apply andb_prop in H. destruct H as [H1 H2].
    rewrite (Hy H1), (IH H2). reflexivity.
  - induction Hk as [|y items Hy _ IH]; [reflexivity|]. cbn [forallb] in *. apply andb_prop in H. destruct H as [H1 H2].
    rewrite (Hy H1), (IH H2). reflexivity.
Qed.

Lemma tree_good_true : forall x, Infoset.no_unexp x = true -> tree_good (fun _ _ => true) x = true.
Proof.
  apply (CV.xcontent_ind2 (fun x => Infoset.no_unexp x = true -> tree_good (fun _ _ => true) x = true)).
  intros x Hk. destruct x as [c|s|n|nm|s|tg d|nm atts et kids|nm items]; cbn [tree_good Infoset.no_unexp]; intros H; try reflexivity; try discriminate H.
  - induction Hk as [|y kids Hy _ IH]; [reflexivity|]. cbn [forallb] in *. apply andb_prop in H. destruct H as [H1 H2].
    rewrite (Hy H1). exact (IH H2).
  - induction Hk as [|y items Hy _ IH]; [reflexivity|]. cbn [forallb] in *. apply andb_prop in H. destruct H as [H1 H2].
    rewrite (Hy H1), (IH H2). reflexivity.
Qed.

(** ** the element tree *)
Section Elems.
Variable dt : option doctype.
Variable ext : bool.
Variable en : W.env.
Variable fuel : nat.
Variable sub : list W.decl.
Variable okattrs : str -> list (str * list W.avpiece) -> bool.
Notation ents := (ents_of dt).
Notation good := (tree_good okattrs).

Hypothesis Hcont : forall nm e, resolve_ref ents ext false nm = IOk e ->
  exists x', W.expand fuel en [] (W.XEntRef nm) = inr x' /\
    (Infoset.no_unexp x' = true -> exists v, Info.expand ents nm = IOk v /\
       (forall acc, Infoset.item_tokens fuel en sub x' acc = ([], rev v ++ acc)) /\
       (forall st acc, item_tokens2 fuel en sub x' st acc = ([], (true, rev v ++ acc)))).

Hypothesis Hattrs : forall n attrs attrs', qname_ok n -> Forall p_attribute_ok' attrs -> build_attrs ents ext attrs = IOk attrs' ->
  okattrs (d_qname n) (map x_att attrs) = true ->
  attr_rows dt (fst (qname_parts n)) (snd (qname_parts n)) attrs' = map KTok (Infoset.attr_tokens fuel en sub (d_qname n) (map x_att attrs)).

Hypothesis Hexp_elem : forall nm atts et kids, W.expand fuel en [] (W.XElem nm atts et kids) =
  match W.mapM (W.expand fuel en []) kids with inl r => inl r | inr kids' => inr (W.XElem nm atts et kids') end.
Hypothesis Hexp_leaf : forall x, match x with W.XElem _ _ _ _ | W.XEntRef _ | W.XExp _ _ => False | _ => True end ->
  W.expand fuel en [] x = inr x.

(** raw view of a list of built items against the expanded items of the specification *)
Definition raw_rel (its : list item) (xs : list W.xcontent) : Prop :=
  forall acc, exists a', mr (kids_raw dt its) acc = (fst (items_tokens fuel en sub xs (rev (ostr acc))), a')
                         /\ snd (items_tokens fuel en sub xs (rev (ostr acc))) = rev (ostr a').
(** merged view *)
Definition mer_rel (its : list item) (xs : list W.xcontent) : Prop :=
  forall st acc, inv2 st acc ->
    km dt its (run_of st acc) = (map KTok (fst (items_tokens2 fuel en sub xs st acc)),
                                 run_of (fst (snd (items_tokens2 fuel en sub xs st acc))) (snd (snd (items_tokens2 fuel en sub xs st acc))))
    /\ inv2 (fst (snd (items_tokens2 fuel en sub xs st acc))) (snd (snd (items_tokens2 fuel en sub xs st acc))).

Lemma raw_rel_nil : raw_rel [] [].
Proof. intros acc. exists acc. split; reflexivity. Qed.
Lemma mer_rel_nil : mer_rel [] [].
Proof. intros st acc Hi. split; [reflexivity|exact Hi]. Qed.

Lemma raw_rel_app a xa b xb : raw_rel a xa -> raw_rel b xb -> raw_rel (a ++ b) (xa ++ xb).
Proof.
  intros Ha Hb acc. rewrite kids_raw_app, mr_app, items_tokens_app. destruct (Ha acc) as (a1 & E1 & E2).
  rewrite E1. destruct (items_tokens fuel en sub xa (rev (ostr acc))) as [o1 r1]. cbn [fst snd] in *. subst r1.
  destruct (Hb a1) as (a2 & F1 & F2). rewrite F1. destruct (items_tokens fuel en sub xb (rev (ostr a1))) as [o2 r2]. cbn [fst snd] in *.
  exists a2. split; [reflexivity|exact F2].
Qed.

Lemma mer_rel_app a xa b xb : mer_rel a xa -> mer_rel b xb -> mer_rel (a ++ b) (xa ++ xb).
Proof.
  intros Ha Hb st acc Hi. rewrite km_app, items_tokens2_app. destruct (Ha st acc Hi) as (E1 & I1). rewrite E1.
  destruct (items_tokens2 fuel en sub xa st acc) as [o1 [s1 b1]]. cbn [fst snd] in *.
  destruct (Hb s1 b1 I1) as (F1 & I2). rewrite F1. destruct (items_tokens2 fuel en sub xb s1 b1) as [o2 [s2 b2]]. cbn [fst snd] in *.
  split; [now rewrite map_app|exact I2].
Qed.

(** character data *)
Lemma text_tokens (t : str) : forall acc, items_tokens fuel en sub (map W.XChar t) acc = ([], rev t ++ acc).
Proof.
  induction t as [|c t IH]; intros acc; [reflexivity|]. cbn [map items_tokens Infoset.item_tokens]. rewrite IH. cbn [rev app]. now rewrite <- app_assoc.
Qed.
Lemma text_tokens2 (t : str) : forall st acc, items_tokens2 fuel en sub (map W.XChar t) st acc =
  ([], (match t with [] => st | _ => true end, rev t ++ acc)).
Proof.
  induction t as [|c t IH]; intros st acc; [reflexivity|]. cbn [map items_tokens2 item_tokens2 fst snd]. rewrite IH. cbn [rev app].
  rewrite <- app_assoc. destruct t; reflexivity.
Qed.

Lemma raw_text (o : option str) : raw_rel (text_item o) (x_text o).
Proof.
  intros acc. destruct o as [[|c t]|]; cbn [text_item x_text map]; try (exists acc; split; reflexivity).
  change (W.XChar c :: map W.XChar t) with (map W.XChar (c :: t)). rewrite text_tokens. cbn [kids_raw item_dump app mr fst snd].
  exists (add acc (c :: t)). split; [reflexivity|]. now rewrite ostr_add.
Qed.

Lemma mer_text (o : option str) : mer_rel (text_item o) (x_text o).
Proof.
  intros st acc Hi. destruct o as [[|c t]|]; cbn [text_item x_text map]; try (split; [reflexivity|exact Hi]).
  change (W.XChar c :: map W.XChar t) with (map W.XChar (c :: t)). rewrite text_tokens2. cbn [km run_data fst snd map].
  rewrite (push_run_of st acc (c :: t) Hi). split; [reflexivity|]. intros E; discriminate E.
Qed.

(** one item that is character data with the characters [v] *)
Lemma raw_chars it x (v : str) : (forall acc, Infoset.item_tokens fuel en sub x acc = ([], rev v ++ acc)) ->
  (forall acc, mr (item_dump dt false it) acc = ([], add acc v)) -> raw_rel [it] [x].
Proof.
  intros Hx Hit acc. cbn [kids_raw items_tokens]. rewrite app_nil_r, Hit, Hx. cbn [fst snd app].
  exists (add acc v). split; [reflexivity|]. now rewrite ostr_add.
Qed.

Lemma mer_chars it x (v : str) : (forall st acc, item_tokens2 fuel en sub x st acc = ([], (true, rev v ++ acc))) ->
  run_data ents it = Some (Some v) -> mer_rel [it] [x].
Proof.
  intros Hx Hit st acc Hi. cbn [km items_tokens2]. rewrite Hit, Hx. cbn [fst snd app map].
  rewrite (push_run_of st acc v Hi). split; [reflexivity|]. intros E; discriminate E.
Qed.

(** one item that is markup with the token [t] *)
Lemma raw_mark it x t : (forall acc, Infoset.item_tokens fuel en sub x acc = (Infoset.flush acc ++ [t], [])) ->
  item_dump dt false it = [KTok t] -> is_mark (KTok t) = true -> raw_rel [it] [x].
Proof.
  intros Hx Hit Hm acc. cbn [kids_raw items_tokens]. rewrite app_nil_r, Hit, Hx, (mr_mark _ _ _ Hm). cbn [mr fst snd app plain_token].
  rewrite app_nil_r, flush_fl. exists None. split; reflexivity.
Qed.

Lemma mer_mark it x t : (forall st acc, item_tokens2 fuel en sub x st acc = (fl2 st acc ++ [t], (false, []))) ->
  item_dump dt true it = [KTok t] -> run_data ents it = None -> mer_rel [it] [x].
Proof.
  intros Hx Hit Hr st acc Hi. cbn [km items_tokens2]. rewrite Hr, Hit, Hx. cbn [fst snd app].
  rewrite !app_nil_r, flush_run_of, map_app. split; [reflexivity|]. intros _; reflexivity.
Qed.

Definition is_xelem (x : W.xcontent) : Prop := match x with W.XElem _ _ _ _ => True | _ => False end.

Definition elem_viewed (e : element) : Prop :=
  p_element_ok e -> forall el, build_element ents ext e = IOk el ->
  exists x', W.expand fuel en [] (x_elem e) = inr x' /\ is_xelem x' /\
    (good x' = true -> raw_rel [el] [x'] /\ mer_rel [el] [x']).

Lemma cells_viewed (cells : list cell) : cells_all elem_viewed cells -> cells_ok p_element_ok cells ->
  forall ch, build_cells (build_element ents ext) ents ext cells = IOk ch ->
  exists kids', W.mapM (W.expand fuel en []) (x_cells x_elem cells) = inr kids' /\
    (forallb good kids' = true -> raw_rel ch kids' /\ mer_rel ch kids').
Proof.
  induction 1 as [|[c tl] l Hc _ IH]; intros Hok ch Hb.
  - cbn [build_cells] in Hb. injection Hb as <-. exists []. split; [reflexivity|]. intros _. split; [apply raw_rel_nil|apply mer_rel_nil].
  - cbn [cells_ok] in Hok. destruct Hok as [Hc_ok [_ Hl_ok]]. cbn [build_cells] in Hb.
    apply ibind_ok in Hb. destruct Hb as [it [Hit Hb]]. apply ibind_ok in Hb. destruct Hb as [r [Hr Hb]]. injection Hb as <-.
    destruct (IH Hl_ok r Hr) as (kl & Ekl & RMkl).
    assert (Et : W.mapM (W.expand fuel en []) (x_text tl) = inr (x_text tl)).
    { apply mapM_id. intros x Hx. destruct tl as [t|]; [|destruct Hx]. apply in_map_iff in Hx. destruct Hx as [c0 [<- _]]. apply Hexp_leaf. exact I. }
    assert (exists x', W.expand fuel en [] (x_contents x_elem c) = inr x' /\ (good x' = true -> raw_rel [it] [x'] /\ mer_rel [it] [x'])) as (x' & Ex & RMx).
    { cbn [fst] in Hc. destruct c as [e'|[num rd|n]|s|p|s]; cbn [build_child x_contents contents_ok] in *.
      - destruct (Hc Hc_ok it Hit) as (x0 & E0 & _ & RM0). exists x0. auto.
      - apply ibind_ok in Hit. destruct Hit as [c0 [Hc0 Hit]]. injection Hit as <-. destruct (char_from_spec _ _ _ Hc_ok Hc0) as [E Hch].
        exists (W.XCharRef c0). split; [|intros _; split].
        + unfold x_refitem. destruct rd; cbn [x_ref radix_n] in *; rewrite E; apply Hexp_leaf; exact I.
        + apply (raw_chars _ _ [c0]); intros acc; reflexivity.
        + apply (mer_chars _ _ [c0]); [intros st acc; reflexivity|reflexivity].
      - apply ibind_ok in Hit. destruct Hit as [e0 [He0 Hit]]. injection Hit as <-.
        destruct (Hcont n e0 He0) as (x0 & E1 & P0). pose proof (resolve_name _ _ _ _ _ He0) as Hn.
        exists x0. split; [unfold x_refitem; cbn [x_ref]; exact E1|]. intros Hnu. destruct (P0 (tree_good_nu _ _ Hnu)) as (v & E2 & T1 & T2). split.
        + apply (raw_chars _ _ v); [exact T1|]. intros acc. cbn [item_dump mr]. rewrite Hn, E2. reflexivity.
        + apply (mer_chars _ _ v); [exact T2|]. cbn [run_data]. rewrite Hn, E2. reflexivity.
      - injection Hit as <-. exists (W.XCData s). split; [apply Hexp_leaf; exact I|]. intros _. split.
        + apply (raw_chars _ _ s); intros acc; reflexivity.
        + apply (mer_chars _ _ s); [intros st acc; reflexivity|reflexivity].
      - injection Hit as <-. exists (x_pi p). split; [apply Hexp_leaf; exact I|]. intros _. split.
        + apply (raw_mark _ _ (Infoset.TPI (pi_target p) (Infoset.opt_str (pi_value p)))); [intros acc; reflexivity| |reflexivity].
          cbn [item_dump]. unfold pi_token, Infoset.opt_str. reflexivity.
        + apply (mer_mark _ _ (Infoset.TPI (pi_target p) (Infoset.opt_str (pi_value p)))); [intros st acc; reflexivity| |reflexivity].
          cbn [item_dump]. unfold pi_token, Infoset.opt_str. reflexivity.
      - injection Hit as <-. exists (W.XComment s). split; [apply Hexp_leaf; exact I|]. intros _. split.
        + apply (raw_mark _ _ (Infoset.TComment s)); [intros acc; reflexivity|reflexivity|reflexivity].
        + apply (mer_mark _ _ (Infoset.TComment s)); [intros st acc; reflexivity|reflexivity|reflexivity]. }
    cbn [x_cells]. exists (x' :: x_text tl ++ kl). split; [cbn [W.mapM]; rewrite Ex; rewrite (mapM_app _ _ _ _ _ Et Ekl); reflexivity|].
    intros Hnu. cbn [forallb] in Hnu. apply andb_prop in Hnu. destruct Hnu as [Hnx Hnu]. rewrite forallb_app in Hnu. apply andb_prop in Hnu. destruct Hnu as [_ Hnk].
    destruct (RMx Hnx) as [Rx Mx]. destruct (RMkl Hnk) as [Rkl Mkl]. split.
    + change (it :: text_item tl ++ r) with ([it] ++ text_item tl ++ r). change (x' :: x_text tl ++ kl) with ([x'] ++ x_text tl ++ kl).
      apply raw_rel_app; [exact Rx|]. apply raw_rel_app; [apply raw_text|exact Rkl].
    + change (it :: text_item tl ++ r) with ([it] ++ text_item tl ++ r). change (x' :: x_text tl ++ kl) with ([x'] ++ x_text tl ++ kl).
      apply mer_rel_app; [exact Mx|]. apply mer_rel_app; [apply mer_text|exact Mkl].
Qed.

(** an element with built children [ch] against the specification's element with the expanded children [kl] *)
Lemma elem_rel n a attrs' (ch : list item) et (kl : list W.xcontent) : qname_ok n -> Forall p_attribute_ok' a -> build_attrs ents ext a = IOk attrs' ->
  okattrs (d_qname n) (map x_att a) = true -> raw_rel ch kl -> mer_rel ch kl ->
  raw_rel [ItElement (fst (qname_parts n)) (snd (qname_parts n)) attrs' ch] [W.XElem (d_qname n) (map x_att a) et kl]
  /\ mer_rel [ItElement (fst (qname_parts n)) (snd (qname_parts n)) attrs' ch] [W.XElem (d_qname n) (map x_att a) et kl].
Proof.
  intros Hq Ha Hat Hokat Rk Mk. pose proof (Hattrs n a attrs' Hq Ha Hat Hokat) as Hrows. split.
  - intros acc. cbn [kids_raw items_tokens]. rewrite app_nil_r, item_dump_elem_raw, item_tokens_elem, Hrows, qn_qname.
    rewrite mr_mark by reflexivity. rewrite mr_app, (mr_marks _ (attr_tokens_marks _ _ _ _ _)), map_plain_KTok, mr_app.
    destruct (Rk None) as (a1 & E1 & E2). cbn [ostr rev] in E1, E2. rewrite E1.
    destruct (items_tokens fuel en sub kl []) as [o a0]. cbn [fst snd] in *. subst a0.
    rewrite mr_mark by reflexivity. cbn [mr plain_token fst snd]. rewrite !flush_fl, !app_nil_r.
    exists None. split; reflexivity.
  - intros st acc Hi. cbn [km items_tokens2 run_data]. rewrite item_dump_elem_merged, item_tokens2_elem, Hrows, qn_qname, kids_merged_km.
    destruct (Mk false [] (fun _ => eq_refl)) as (E1 & I1). change (run_of false []) with (@None (option str)) in E1. rewrite E1.
    destruct (items_tokens2 fuel en sub kl false []) as [o [s1 b1]]. cbn [fst snd] in *.
    rewrite !app_nil_r, !flush_run_of. split; [|intros _; reflexivity].
    rewrite !map_app. cbn [map]. rewrite !map_app. cbn [map app]. now rewrite <- !app_assoc.
Qed.

Theorem element_viewed : forall e, elem_viewed e.
Proof.
  apply element_ind2.
  - intros n a [Hq [Ha _]] el Hb. cbn [build_element] in Hb. apply ibind_ok in Hb. destruct Hb as [attrs' [Hat Hb]]. injection Hb as <-.
    cbn [x_elem]. rewrite Hexp_elem. cbn [W.mapM]. eexists. split; [reflexivity|]. split; [exact I|]. intros Hg.
    cbn [tree_good] in Hg. apply andb_prop in Hg. destruct Hg as [Hg _].
    exact (elem_rel n a attrs' [] None [] Hq Ha Hat Hg raw_rel_nil mer_rel_nil).
  - intros n a h cells Hcells [Hq [Ha [Hh Hcs]]] el Hb. cbn [build_element] in Hb.
    apply ibind_ok in Hb. destruct Hb as [attrs' [Hat Hb]]. apply ibind_ok in Hb. destruct Hb as [ch [Hch Hb]]. injection Hb as <-.
    destruct (cells_viewed cells Hcells Hcs ch Hch) as (kl & Ekl & RMkl).
    assert (Et : W.mapM (W.expand fuel en []) (x_text h) = inr (x_text h)).
    { apply mapM_id. intros x Hx. destruct h as [t|]; [|destruct Hx]. apply in_map_iff in Hx. destruct Hx as [c0 [<- _]]. apply Hexp_leaf. exact I. }
    cbn [x_elem]. rewrite Hexp_elem. rewrite (mapM_app _ _ _ _ _ Et Ekl). eexists. split; [reflexivity|]. split; [exact I|].
    intros Hnu. cbn [tree_good] in Hnu. apply andb_prop in Hnu. destruct Hnu as [Hg Hnu]. rewrite forallb_app in Hnu. apply andb_prop in Hnu. destruct Hnu as [_ Hnk]. destruct (RMkl Hnk) as [Rkl Mkl].
    apply (elem_rel n a attrs' (text_item h ++ ch) (Some (d_qname n)) (x_text h ++ kl) Hq Ha Hat Hg).
    + apply raw_rel_app; [apply raw_text|exact Rkl].
    + apply mer_rel_app; [apply mer_text|exact Mkl].
Qed.
End Elems.

(** ** when every resolved reference is included, the expanded tree has no unexpanded reference *)
Section NoUnexp.
Variable ents : list entity.
Variable ext : bool.
Variable en : W.env.
Variable fuel : nat.
Hypothesis Hnu : forall nm e, resolve_ref ents ext false nm = IOk e -> forall x', W.expand fuel en [] (W.XEntRef nm) = inr x' -> Infoset.no_unexp x' = true.
Hypothesis Hexp_elem : forall nm atts et kids, W.expand fuel en [] (W.XElem nm atts et kids) =
  match W.mapM (W.expand fuel en []) kids with inl r => inl r | inr kids' => inr (W.XElem nm atts et kids') end.
Hypothesis Hexp_leaf : forall x, match x with W.XElem _ _ _ _ | W.XEntRef _ | W.XExp _ _ => False | _ => True end ->
  W.expand fuel en [] x = inr x.

Definition elem_nu (e : element) : Prop :=
  p_element_ok e -> forall el, build_element ents ext e = IOk el -> forall x', W.expand fuel en [] (x_elem e) = inr x' -> Infoset.no_unexp x' = true.

Lemma text_nu (o : option str) kids' : W.mapM (W.expand fuel en []) (x_text o) = inr kids' -> forallb Infoset.no_unexp kids' = true.
Proof.
  intros H. assert (E : W.mapM (W.expand fuel en []) (x_text o) = inr (x_text o)).
  { apply mapM_id. intros x Hx. destruct o as [t|]; [|destruct Hx]. apply in_map_iff in Hx. destruct Hx as [c0 [<- _]]. apply Hexp_leaf. exact I. }
  rewrite E in H. injection H as <-. clear E. destruct o as [t|]; [|reflexivity]. cbn [x_text]. induction t as [|c t IH]; [reflexivity|exact IH].
Qed.

Lemma cells_nu (cells : list cell) : cells_all elem_nu cells -> cells_ok p_element_ok cells ->
  forall ch, build_cells (build_element ents ext) ents ext cells = IOk ch ->
  forall kids', W.mapM (W.expand fuel en []) (x_cells x_elem cells) = inr kids' -> forallb Infoset.no_unexp kids' = true.
Proof.
  induction 1 as [|[c tl] l Hc _ IH]; intros Hok ch Hb kids' Hm.
  - cbn [x_cells W.mapM] in Hm. injection Hm as <-. reflexivity.
  - cbn [cells_ok] in Hok. destruct Hok as [Hc_ok [_ Hl_ok]]. cbn [build_cells] in Hb.
    apply ibind_ok in Hb. destruct Hb as [it [Hit Hb]]. apply ibind_ok in Hb. destruct Hb as [r [Hr _]].
    cbn [x_cells] in Hm. apply CV.mapM_cons_inv in Hm. destruct Hm as (y & ys & Ey & Eys & ->).
    apply CV.mapM_app_inv in Eys. destruct Eys as (yt & yl & Et & El & ->).
    cbn [forallb]. rewrite forallb_app, (text_nu tl yt Et), (IH Hl_ok r Hr yl El), !andb_true_r.
    cbn [fst] in Hc. destruct c as [e'|[num rd|n]|s|p|s]; cbn [build_child x_contents contents_ok] in *.
    + exact (Hc Hc_ok it Hit y Ey).
    + unfold x_refitem in Ey. destruct rd; cbn [x_ref] in Ey; rewrite Hexp_leaf in Ey by exact I; injection Ey as <-; reflexivity.
    + apply ibind_ok in Hit. destruct Hit as [e0 [He0 _]]. unfold x_refitem in Ey. cbn [x_ref] in Ey. exact (Hnu n e0 He0 y Ey).
    + rewrite Hexp_leaf in Ey by exact I. injection Ey as <-. reflexivity.
    + unfold x_pi in Ey. rewrite Hexp_leaf in Ey by exact I. injection Ey as <-. reflexivity.
    + rewrite Hexp_leaf in Ey by exact I. injection Ey as <-. reflexivity.
Qed.

Theorem element_no_unexp : forall e, elem_nu e.
Proof.
  apply element_ind2.
  - intros n a _ el _ x' Hx. cbn [x_elem] in Hx. rewrite Hexp_elem in Hx. cbn [W.mapM] in Hx. injection Hx as <-. reflexivity.
  - intros n a h cells Hcells [_ [_ [_ Hcs]]] el Hb x' Hx. cbn [build_element] in Hb.
    apply ibind_ok in Hb. destruct Hb as [attrs' [_ Hb]]. apply ibind_ok in Hb. destruct Hb as [ch [Hch _]].
    cbn [x_elem] in Hx. rewrite Hexp_elem in Hx. destruct (W.mapM (W.expand fuel en []) (x_text h ++ x_cells x_elem cells)) as [r|kids'] eqn:Ek; [discriminate|].
    injection Hx as <-. cbn [Infoset.no_unexp]. apply CV.mapM_app_inv in Ek. destruct Ek as (yt & yl & Et & El & ->).
    rewrite forallb_app, (text_nu h yt Et), (cells_nu cells Hcells Hcs ch Hch yl El). reflexivity.
Qed.
End NoUnexp.
