(** * What [normalize] can change (Model/DomNormalize.v): the frame [NF]

    [NF s s']: no identifier is handed out, the same identifiers are in use, every item keeps its kind,
    prefix, local name, flag, attribute list and entity table; an item that is no Text node keeps its data and
    its parent; a Text node keeps its parent or loses it (it was merged away); an item that is no Element keeps its
    child list; the child list of an Element is a sub-list of the old one from which only Text nodes are missing
    (the other children are the same, in the same order).  [normalize_frame]: every document of the world
    after [normalize] is related by [NF] to what it was, whatever the world (no invariant needed). *)
From Coq Require Import List NArith Bool Lia.
From XmlRs Require Import Base.CPred Model.Store Model.DomOps Model.DomNormalize Proofs.DomBase.
Import ListNotations.
Open Scope N_scope.

Definition nontext (s : store) (x : id) : bool := negb (has_kind s KTx x).

Record item_frame (s : store) (a b : item) : Prop := mkIF {
  if_kind : ikind b = ikind a;
  if_prefix : iprefix b = iprefix a;
  if_local : ilocal b = ilocal a;
  if_flag : iflag b = iflag a;
  if_attrs : iattrs b = iattrs a;
  if_ents : ients b = ients a;
  if_data : ikind a <> KTx -> idata b = idata a;
  if_parent : iparent b = iparent a \/ (ikind a = KTx /\ iparent b = None);
  if_children : ikind a <> KEl -> ichildren b = ichildren a;
  if_nontext : filter (nontext s) (ichildren b) = filter (nontext s) (ichildren a);
  if_incl : incl (ichildren b) (ichildren a)
}.

Definition NF (s s' : store) : Prop :=
  next s' = next s /\ sroot s' = sroot s /\ sdecl s' = sdecl s /\
  forall i, match get s i with
            | None => get s' i = None
            | Some a => exists b, get s' i = Some b /\ item_frame s a b
            end.

Lemma item_frame_refl s a : item_frame s a a.
Proof. constructor; try reflexivity; try (intros; reflexivity); [left; reflexivity | apply incl_refl]. Qed.

Lemma NF_refl s : NF s s.
Proof.
  repeat split. intros i. destruct (get s i) as [a|]; [|reflexivity]. exists a. split; [reflexivity | apply item_frame_refl].
Qed.

Lemma NF_has_kind s s' k x : NF s s' -> has_kind s' k x = has_kind s k x.
Proof.
  intros [_ [_ [_ H]]]. specialize (H x). unfold has_kind. destruct (get s x) as [a|].
  - destruct H as [b [E F]]. rewrite E, (if_kind _ _ _ F). reflexivity.
  - rewrite H. reflexivity.
Qed.

Lemma NF_kind_of s s' x : NF s s' -> kind_of s' x = kind_of s x.
Proof.
  intros [_ [_ [_ H]]]. specialize (H x). unfold kind_of. destruct (get s x) as [a|].
  - destruct H as [b [E F]]. rewrite E. cbn [option_map]. rewrite (if_kind _ _ _ F). reflexivity.
  - rewrite H. reflexivity.
Qed.

Lemma NF_nontext s s' : NF s s' -> forall x, nontext s' x = nontext s x.
Proof. intros H x. unfold nontext. rewrite (NF_has_kind s s' KTx x H). reflexivity. Qed.

Lemma item_frame_trans s s' a b c :
  (forall x, nontext s' x = nontext s x) -> item_frame s a b -> item_frame s' b c -> item_frame s a c.
Proof.
  intros Hn F G. destruct F, G. constructor; try congruence.
  - intros K. rewrite if_data1; [apply if_data0; exact K | congruence].
  - destruct if_parent1 as [E|[K E]].
    + rewrite E. exact if_parent0.
    + right. split; [congruence | exact E].
  - intros K. rewrite if_children1; [apply if_children0; exact K | congruence].
  - rewrite <- if_nontext0. rewrite (filter_ext _ _ (fun x => eq_sym (Hn x)) (ichildren c)).
    rewrite (filter_ext _ _ (fun x => eq_sym (Hn x)) (ichildren b)). exact if_nontext1.
  - eapply incl_tran; eassumption.
Qed.

Lemma NF_trans s1 s2 s3 : NF s1 s2 -> NF s2 s3 -> NF s1 s3.
Proof.
  intros H12 H23. pose proof (NF_nontext _ _ H12) as Hn.
  destruct H12 as [A1 [A2 [A3 A4]]], H23 as [B1 [B2 [B3 B4]]].
  split; [congruence|]. split; [congruence|]. split; [congruence|].
  intros i. specialize (A4 i). specialize (B4 i). destruct (get s1 i) as [a|].
  - destruct A4 as [b [E F]]. rewrite E in B4. destruct B4 as [c [E' G]]. exists c. split; [exact E'|].
    eapply item_frame_trans; eassumption.
  - rewrite A4 in B4. exact B4.
Qed.

(** ** the two editing steps *)
Lemma has_kind_get s k x : has_kind s k x = true -> exists it, get s x = Some it /\ ikind it = k.
Proof.
  unfold has_kind. destruct (get s x) as [it|]; [|discriminate]. intros H. exists it. split; [reflexivity|].
  destruct (kind_eqb_spec (ikind it) k) as [E|E]; [exact E | discriminate].
Qed.

Lemma sdecl_upd s i f : sdecl (upd s i f) = sdecl s.
Proof. unfold upd. destruct (get s i); reflexivity. Qed.

Lemma NF_set_str s p d : has_kind s KTx p = true -> NF s (set_str s p d).
Proof.
  intros K. destruct (has_kind_get _ _ _ K) as [pit [G Kp]]. unfold set_str.
  split; [apply next_upd|]. split; [apply sroot_upd|]. split; [apply sdecl_upd|].
  intros i. destruct (N.eq_dec i p) as [->|Ne].
  - rewrite G, get_upd_same, G. cbn [option_map]. eexists. split; [reflexivity|].
    constructor; cbn; try reflexivity; try (intros; reflexivity); try (intros C; contradiction);
      [left; reflexivity | apply incl_refl].
  - rewrite (get_upd_other _ _ _ _ Ne). destruct (get s i) as [a|]; [|reflexivity].
    exists a. split; [reflexivity | apply item_frame_refl].
Qed.

Lemma filter_remove_first (f : id -> bool) c l : f c = false -> filter f (remove_first c l) = filter f l.
Proof.
  intros Hc. induction l as [|y t IH]; [reflexivity|]. cbn [remove_first].
  destruct (N.eqb_spec y c) as [->|Ne].
  - cbn [filter]. rewrite Hc. reflexivity.
  - cbn [filter]. rewrite IH. reflexivity.
Qed.

Lemma NF_invalidate s : NF s (invalidate s).
Proof.
  repeat split. intros i. rewrite get_invalidate. destruct (get s i) as [a|]; [|reflexivity].
  exists a. split; [reflexivity | apply item_frame_refl].
Qed.

Lemma NF_delete s r c :
  has_kind s KEl r = true -> has_kind s KTx c = true -> NF s (delete_by_id s r c).
Proof.
  intros Kr Kc. destruct (has_kind_get _ _ _ Kr) as [rit [Gr Kr']]. destruct (has_kind_get _ _ _ Kc) as [cit [Gc Kc']].
  assert (Ne : r <> c) by (intros ->; rewrite Gr in Gc; inversion Gc; subst; congruence).
  unfold delete_by_id. destruct (mem c (children_of s r)); [|apply NF_refl].
  split; [rewrite !next_upd; reflexivity|]. split; [rewrite !sroot_upd; reflexivity|].
  split; [rewrite !sdecl_upd; reflexivity|].
  intros i. destruct (N.eq_dec i c) as [->|Nc].
  - rewrite Gc, get_upd_same, get_upd_other, Gc by (intros E; apply Ne; symmetry; exact E). cbn [option_map].
    eexists. split; [reflexivity|].
    constructor; cbn; try reflexivity; try (intros; reflexivity); [right; split; [exact Kc' | reflexivity] | apply incl_refl].
  - rewrite (get_upd_other _ _ _ _ Nc). destruct (N.eq_dec i r) as [->|Nr].
    + rewrite Gr, get_upd_same, Gr. cbn [option_map]. eexists. split; [reflexivity|].
      constructor; cbn; try reflexivity; try (intros; reflexivity).
      * left; reflexivity.
      * intros C. contradiction.
      * apply filter_remove_first. unfold nontext. rewrite Kc. reflexivity.
      * intros x Hx. eapply remove_first_in. exact Hx.
    + rewrite (get_upd_other _ _ _ _ Nr). destruct (get s i) as [a|]; [|reflexivity].
      exists a. split; [reflexivity | apply item_frame_refl].
Qed.

(** ** worlds *)
Definition WNF (w w' : world) : Prop := Forall2 NF (docs w) (docs w').

Lemma WNF_refl w : WNF w w.
Proof. unfold WNF. induction (docs w); constructor; [apply NF_refl | assumption]. Qed.

Lemma WNF_trans w1 w2 w3 : WNF w1 w2 -> WNF w2 w3 -> WNF w1 w3.
Proof.
  unfold WNF. generalize (docs w1) (docs w2) (docs w3). intros l1 l2 l3 H. revert l3.
  induction H as [|a b l1' l2' Hab _ IH]; intros l3 H23; inversion H23; subst; constructor.
  - eapply NF_trans; eassumption.
  - apply IH. assumption.
Qed.

Lemma Forall2_set_nth (l : list store) : forall n s s1, nth_error l n = Some s -> NF s s1 -> Forall2 NF l (set_nth n s1 l).
Proof.
  induction l as [|y t IH]; intros [|n] s s1 H1 H2; cbn in *; try discriminate.
  - inversion H1; subst. constructor; [exact H2|]. clear. induction t; constructor; [apply NF_refl | assumption].
  - constructor; [apply NF_refl | eapply IH; eassumption].
Qed.

Lemma WNF_set_doc w k s s1 : doc_at w k = Some s -> NF s s1 -> WNF w (set_doc w k s1).
Proof. intros D H. unfold WNF, set_doc. cbn [docs]. eapply Forall2_set_nth; eassumption. Qed.

Lemma WNF_doc_at w w' k : WNF w w' ->
  match doc_at w k with
  | Some s => exists s', doc_at w' k = Some s' /\ NF s s'
  | None => doc_at w' k = None
  end.
Proof.
  unfold WNF, doc_at. generalize (N.to_nat k) as n. intros n H. revert n.
  induction H as [|a b l l' Hab _ IH]; intros [|n]; cbn; try reflexivity.
  - exists b. split; [reflexivity | exact Hab].
  - apply IH.
Qed.

Lemma WNF_kind_in w w' n : WNF w w' -> kind_in w' n = kind_in w n.
Proof.
  intros H. pose proof (WNF_doc_at w w' (fst n) H) as D. unfold kind_in. destruct (doc_at w (fst n)) as [s|].
  - destruct D as [s' [E F]]. rewrite E. apply NF_kind_of. exact F.
  - rewrite D. reflexivity.
Qed.

Lemma kind_in_inv w n k : kind_in w n = Some k -> exists s, doc_at w (fst n) = Some s /\ kind_of s (snd n) = Some k.
Proof. unfold kind_in. destruct (doc_at w (fst n)) as [s|]; [|discriminate]. intros H. exists s. split; [reflexivity | exact H]. Qed.

Lemma kind_of_has_kind s x k : kind_of s x = Some k -> has_kind s k x = true.
Proof.
  unfold kind_of, has_kind. destruct (get s x) as [it|]; [|discriminate]. cbn. intros H. inversion H. apply kind_eqb_refl.
Qed.

Lemma WNF_append w p d : kind_in w p = Some KTx -> WNF w (fst (step w (AppendData p d))).
Proof.
  intros K. destruct (kind_in_inv _ _ _ K) as [s [D Ks]]. cbn [step]. unfold on_node. rewrite D, Ks. cbn [chardata].
  unfold insert_data, edit_data.
  destruct (len (data_of s (snd p)) <? len (data_of s (snd p))); cbn [fst]; [apply (WNF_set_doc _ _ s); [exact D | apply NF_refl]|].
  destruct (valid_str KTx _); cbn [fst].
  - apply (WNF_set_doc _ _ s); [exact D|]. apply NF_set_str. apply kind_of_has_kind. exact Ks.
  - apply (WNF_set_doc _ _ s); [exact D | apply NF_refl].
Qed.

Lemma WNF_remove w r c :
  kind_in w r = Some KEl -> kind_in w (fst r, c) = Some KTx -> WNF w (fst (step w (RemoveChild r (fst r, c)))).
Proof.
  intros Kr Kc. destruct (kind_in_inv _ _ _ Kr) as [s [D Ks]]. destruct (kind_in_inv _ _ _ Kc) as [s' [D' Kcs]].
  cbn [fst snd] in D', Kcs. rewrite D in D'. inversion D'; subst s'. clear D'.
  cbn [step]. rewrite Kr. cbn [node_mut].
  destruct (exists_in w (fst r, c)); [|apply WNF_refl].
  unfold dom_remove_child. rewrite D, Kr. cbn [container].
  destruct (wrong_doc w r (fst r, c)); [apply WNF_refl|].
  unfold info_delete. cbn [snd]. destruct (mem c (children_of s (snd r))) eqn:M; cbn [fst]; [|apply WNF_refl].
  apply (WNF_set_doc _ _ s); [exact D|]. eapply NF_trans; [|apply NF_invalidate].
  apply NF_delete; apply kind_of_has_kind; assumption.
Qed.

(** ** the loop, the recursion, the call *)
Lemma norm_children_frame (rec : world -> nref -> world) :
  (forall w r, WNF w (rec w r)) ->
  forall l w r prev, kind_in w r = Some KEl -> (forall p, prev = Some p -> kind_in w (fst r, p) = Some KTx) ->
  WNF w (norm_children rec w r prev l).
Proof.
  intros Hrec. induction l as [|v t IH]; intros w r prev Kr Kp; cbn [norm_children]; [apply WNF_refl|].
  destruct v as [c|c]; [|apply IH; [exact Kr | intros p E; discriminate]].
  destruct (kind_in w (fst r, c)) as [k|] eqn:Kc; [|apply IH; [exact Kr | intros p E; discriminate]].
  destruct k; try (apply IH; [exact Kr | intros p E; discriminate]).
  - (* element child *)
    eapply WNF_trans; [apply (Hrec w (fst r, c))|].
    apply IH; [rewrite (WNF_kind_in _ _ r (Hrec w (fst r, c))); exact Kr | intros p E; discriminate].
  - (* text child *)
    destruct prev as [p|]; [|apply IH; [exact Kr | intros p E; inversion E; subst; exact Kc]].
    pose proof (WNF_append w (fst r, p) (text_arg (data_in w (fst r, c))) (Kp p eq_refl)) as Ha.
    destruct (step w (AppendData (fst r, p) (text_arg (data_in w (fst r, c))))) as [w1 oc]. cbn [fst] in Ha.
    assert (Kr1 : kind_in w1 r = Some KEl) by (rewrite (WNF_kind_in _ _ r Ha); exact Kr).
    assert (Kc1 : kind_in w1 (fst r, c) = Some KTx) by (rewrite (WNF_kind_in _ _ _ Ha); exact Kc).
    assert (Kp1 : kind_in w1 (fst r, p) = Some KTx) by (rewrite (WNF_kind_in _ _ _ Ha); exact (Kp p eq_refl)).
    destruct oc as [rt|e| |];
      try (eapply WNF_trans; [exact Ha|]; apply IH; [exact Kr1 | intros q E; inversion E; subst; exact Kc1]).
    pose proof (WNF_remove w1 r c Kr1 Kc1) as Hb.
    eapply WNF_trans; [exact Ha|]. eapply WNF_trans; [exact Hb|].
    apply IH; [rewrite (WNF_kind_in _ _ r Hb); exact Kr1 | intros q E; inversion E; subst; rewrite (WNF_kind_in _ _ _ Hb); exact Kp1].
Qed.

Theorem normalize_run_frame merged : forall fuel w r, WNF w (normalize_run merged fuel w r).
Proof.
  induction fuel as [|f IH]; intros w r; cbn [normalize_run]; [apply WNF_refl|].
  destruct (doc_at w (fst r)) as [s|] eqn:D; [|apply WNF_refl].
  destruct (kind_of s (snd r)) as [k|] eqn:K; [|apply WNF_refl].
  destruct k; try apply WNF_refl.
  apply norm_children_frame; [exact IH | unfold kind_in; rewrite D; exact K | intros p E; discriminate].
Qed.

Theorem normalize_frame : forall merged w r k s, doc_at w k = Some s ->
  exists s', doc_at (fst (normalize merged w r)) k = Some s' /\ NF s s'.
Proof.
  intros merged w r k s D.
  assert (H : WNF w (fst (normalize merged w r))).
  { unfold normalize. destruct (kind_in w r) as [kd|]; [|apply WNF_refl]. destruct kd; try apply WNF_refl.
    cbn [fst]. apply normalize_run_frame. }
  pose proof (WNF_doc_at _ _ k H) as X. rewrite D in X. exact X.
Qed.

(** [NF], field by field *)
Theorem NF_items : forall s s', NF s s' ->
  next s' = next s /\ sroot s' = sroot s /\ sdecl s' = sdecl s
  /\ (forall i, get s i = None -> get s' i = None)
  /\ (forall i a, get s i = Some a -> exists b, get s' i = Some b
        /\ ikind b = ikind a /\ iprefix b = iprefix a /\ ilocal b = ilocal a /\ iflag b = iflag a
        /\ iattrs b = iattrs a /\ ients b = ients a
        /\ (ikind a <> KTx -> idata b = idata a /\ iparent b = iparent a)
        /\ (ikind a = KTx -> iparent b = iparent a \/ iparent b = None)
        /\ (ikind a <> KEl -> ichildren b = ichildren a)
        /\ filter (nontext s) (ichildren b) = filter (nontext s) (ichildren a)
        /\ incl (ichildren b) (ichildren a)).
Proof.
  intros s s' [H1 [H2 [H3 H4]]]. split; [exact H1|]. split; [exact H2|]. split; [exact H3|]. split.
  - intros i G. specialize (H4 i). rewrite G in H4. exact H4.
  - intros i a G. specialize (H4 i). rewrite G in H4. destruct H4 as [b [E F]]. exists b. split; [exact E|].
    destruct F. repeat (split; [assumption|]). split.
    + intros K. split; [apply if_data0; exact K|]. destruct if_parent0 as [P|[K' _]]; [exact P | contradiction].
    + split; [intros _; destruct if_parent0 as [P|[_ P]]; [left | right]; exact P|].
      split; [exact if_children0|]. split; assumption.
Qed.
