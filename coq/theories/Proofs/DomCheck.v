(** * Soundness of the executable tree-invariant check *)
From Coq Require Import List NArith Bool Lia.
From XmlRs Require Import Base.CPred Model.Store Model.StoreCheck Proofs.DomBase Proofs.DomTree Proofs.DomAnc Proofs.DomOrder.
Import ListNotations.
Open Scope N_scope.

Lemma lookup_in l i it : lookup l i = Some it -> exists j, j = i /\ In (j, it) l /\ lookup l j = Some it.
Proof.
  induction l as [|[j x] t IH]; cbn [lookup]; [discriminate|].
  destruct (N.eqb_spec i j) as [->|Hne].
  - intros E. inversion E; subst. exists j. split; [reflexivity|]. split; [left; reflexivity|]. cbn. rewrite N.eqb_refl. reflexivity.
  - intros E. destruct (IH E) as [k [-> [Hin Hl]]]. exists i. split; [reflexivity|]. split; [right; exact Hin|].
    cbn. destruct (N.eqb_spec i j); [contradiction | exact E].
Qed.

Lemma nodupb_sound l : nodupb l = true -> NoDup l.
Proof.
  induction l as [|x t IH]; cbn [nodupb]; intros H; [constructor|].
  apply andb_true_iff in H. destruct H as [H1 H2]. constructor; [|apply IH; exact H2].
  apply negb_true_iff in H1. apply mem_false. exact H1.
Qed.

Lemma child_okb_eq pk ck : child_okb pk ck = child_ok pk ck.
Proof. reflexivity. Qed.

Lemma opt_eqb_sound a b : opt_eqb a b = true -> a = Some b.
Proof. destruct a as [x|]; cbn; [intros H; apply N.eqb_eq in H; congruence | discriminate]. Qed.

Lemma cycle_rotate s j p : par s j p -> anc s j j -> anc s p p.
Proof.
  intros Hp Ha. destruct (anc_up s j p j Hp Ha) as [E|H].
  - subst p. exact Ha.
  - eapply anc_trans; [exact H | apply anc1; exact Hp].
Qed.

Lemma terminates_sound s f : forall j, terminates f s j = true -> ~ anc s j j.
Proof.
  induction f as [|f IH]; intros j H Ha; [discriminate|].
  assert (exists p, par s j p) as [p Hp] by (inversion Ha; eauto).
  cbn [terminates] in H. destruct Hp as [it [Hg Hpar]]. rewrite Hg, Hpar in H.
  apply (IH p H). eapply cycle_rotate; [exists it; split; eassumption | exact Ha].
Qed.

Lemma one_kind_sound s k l x y :
  one_kind s k l = true -> In x l -> In y l -> has_kind s k x = true -> has_kind s k y = true -> x = y.
Proof.
  intros H Hx Hy Kx Ky. unfold one_kind in H. rewrite forallb_forall in H. specialize (H x Hx).
  rewrite forallb_forall in H. specialize (H y Hy). rewrite Kx, Ky in H. cbn in H. apply N.eqb_eq. exact H.
Qed.

Section Sound.
  Variables (l : list (id * item)) (nx root : id).
  Let s := store_of_list l nx [] root.
  Hypothesis H : tree_inv_b l nx root = true.

  Lemma all_items : forall i it, get s i = Some it -> check_item s nx root (S (length l)) (i, it) = true.
  Proof.
    intros i it Hg. unfold tree_inv_b in H. apply andb_true_iff in H. destruct H as [Hall _].
    destruct (lookup_in l i it Hg) as [j [-> [Hin _]]]. rewrite forallb_forall in Hall. apply Hall. exact Hin.
  Qed.

  Lemma item_facts i it : get s i = Some it ->
    i < nx
    /\ (forall c, In c (ichildren it) -> exists cit, get s c = Some cit /\ iparent cit = Some i /\ child_ok (ikind it) (ikind cit) = true)
    /\ (forall a, In a (iattrs it) -> exists ait, get s a = Some ait /\ iparent ait = Some i /\ ikind it = KEl /\ ikind ait = KAt)
    /\ (forall p, iparent it = Some p -> exists pit, get s p = Some pit /\ (In i (ichildren pit) \/ In i (iattrs pit)))
    /\ NoDup (ichildren it) /\ NoDup (iattrs it)
    /\ ~ anc s i i
    /\ (ikind it = KDoc -> i = root).
  Proof.
    intros Hg. pose proof (all_items i it Hg) as C. unfold check_item in C. rewrite Hg in C.
    repeat (apply andb_true_iff in C; let X := fresh "C" in destruct C as [C X]).
    split; [apply N.ltb_lt; exact C|].
    split.
    { intros c Hc. rewrite forallb_forall in C6. specialize (C6 c Hc).
      destruct (get s c) as [cit|]; [|discriminate]. apply andb_true_iff in C6. destruct C6 as [E1 E2].
      exists cit. split; [reflexivity|]. split; [apply opt_eqb_sound; exact E1 | exact E2]. }
    split.
    { intros a Ha. rewrite forallb_forall in C5. specialize (C5 a Ha).
      destruct (get s a) as [ait|]; [|discriminate].
      apply andb_true_iff in C5. destruct C5 as [E12 E3]. apply andb_true_iff in E12. destruct E12 as [E1 E2].
      exists ait. split; [reflexivity|]. split; [apply opt_eqb_sound; exact E1|].
      split; [destruct (kind_eqb_spec (ikind it) KEl); [assumption | discriminate] | destruct (kind_eqb_spec (ikind ait) KAt); [assumption | discriminate]]. }
    split.
    { intros p Hp. rewrite Hp in C4. destruct (get s p) as [pit|]; [|discriminate].
      exists pit. split; [reflexivity|]. apply orb_true_iff in C4. destruct C4 as [E|E]; apply mem_spec in E; [left | right]; exact E. }
    split; [apply nodupb_sound; exact C3|].
    split; [apply nodupb_sound; exact C2|].
    split; [eapply terminates_sound; exact C1|].
    intros K. rewrite K in C0. cbn in C0. apply N.eqb_eq. exact C0.
  Qed.

  Theorem tree_inv_b_sound0 : TreeInv s.
  Proof.
    pose proof H as H0. unfold tree_inv_b in H0. apply andb_true_iff in H0. destruct H0 as [_ Hroot]. fold s in Hroot.
    destruct (get s root) as [rit|] eqn:Hr; [|discriminate].
    apply andb_true_iff in Hroot. destruct Hroot as [Hk12 Hdt]. apply andb_true_iff in Hk12. destruct Hk12 as [Hk Hel].
    constructor.
    - intros i it Hg. apply (item_facts i it Hg).
    - intros p c [pit [Hp [Hc|Ha]]].
      + destruct (item_facts p pit Hp) as [_ [F _]]. destruct (F c Hc) as [cit [E1 [E2 _]]]. exists cit. split; assumption.
      + destruct (item_facts p pit Hp) as [_ [_ [F _]]]. destruct (F c Ha) as [cit [E1 [E2 _]]]. exists cit. split; assumption.
    - intros c p [cit [Hc Hp]]. destruct (item_facts c cit Hc) as [_ [_ [_ [F _]]]]. exact (F p Hp).
    - intros p pit Hp. apply (item_facts p pit Hp).
    - intros p pit Hp. apply (item_facts p pit Hp).
    - intros p pit c cit Hp Hc Hcg. destruct (item_facts p pit Hp) as [_ [F _]]. destruct (F c Hc) as [cit' [E1 [_ E3]]].
      rewrite Hcg in E1. inversion E1; subst. exact E3.
    - intros p pit a ait Hp Ha Hag. destruct (item_facts p pit Hp) as [_ [_ [F _]]]. destruct (F a Ha) as [ait' [E1 [_ [E3 E4]]]].
      rewrite Hag in E1. inversion E1; subst. split; assumption.
    - intros i Ha. assert (exists p, par s i p) as [p [it [Hg _]]] by (inversion Ha; eauto).
      destruct (item_facts i it Hg) as [_ [_ [_ [_ [_ [_ [F _]]]]]]]. exact (F Ha).
    - exists rit. split; [exact Hr|]. destruct (kind_eqb_spec (ikind rit) KDoc); [assumption | discriminate].
    - intros i it Hg K. destruct (item_facts i it Hg) as [_ [_ [_ [_ [_ [_ [_ F]]]]]]]. exact (F K).
    - intros rit' x y Hr' Hx Hy Kx Ky. change (sroot s) with root in Hr'. rewrite Hr in Hr'. inversion Hr'; subst rit'.
      eapply (one_kind_sound s KEl); eassumption.
    - intros rit' x y Hr' Hx Hy Kx Ky. change (sroot s) with root in Hr'. rewrite Hr in Hr'. inversion Hr'; subst rit'.
      eapply (one_kind_sound s KDt); eassumption.
  Qed.
End Sound.

Theorem tree_inv_b_sound l nx root decl :
  tree_inv_b l nx root = true -> TreeInv (store_of_list l nx decl root).
Proof.
  intros H. pose proof (tree_inv_b_sound0 l nx root H) as T.
  apply (shape_inv (store_of_list l nx [] root) (store_of_list l nx decl root) T); [|reflexivity|reflexivity].
  exact (shape_rel_refl (store_of_list l nx [] root)).
Qed.

(** stores built by [store_of_list] start with a stale order vector *)
Lemma store_of_list_order_ok l nx decl root : OrderOK (store_of_list l nx decl root).
Proof. left. reflexivity. Qed.
