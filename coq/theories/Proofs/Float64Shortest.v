(** * number -> string: totality and minimality of the shortest-digits search of Base/Float64.v.

    For a valid finite non-zero double x = m * 2^e (value v):
    - [e10] is the decimal exponent: 10^E <= v < 10^(E+1), -324 <= E <= 308;
    - at every level n the two decimals [lo * 10^k], [(lo+1) * 10^k] (k = E - n + 1) bracket v,
      lo has exactly n digits, and both are outside the cut-offs of [f64_of_decimal];
    - the set of decimals that read back as x is convex (monotonicity of round-to-nearest), so a
      decimal of at most n digits that reads back as x forces [lo] or [lo+1] of level n to read
      back as x (minimality), and the one chosen is a closest one;
    - at level 17 the closer of the two is nearer to v than half the distance to the neighbouring
      doubles (10^16 > 2^53), so the search always answers (totality).

    Correct rounding of [f64_of_decimal] comes from Proofs/Float64Flocq.v, hence these theorems
    depend on the four axioms of the standard library's real numbers listed there. *)
From Coq Require Import ZArith Reals Lia Lra Psatz Bool List.
From Coq Require Import Floats.SpecFloat.
From Flocq Require Import Core.Core IEEE754.BinarySingleNaN.
From XmlRs Require Import Base.CPred Base.Float64 Proofs.XPathFuncsRound Proofs.Float64Int
  Proofs.Float64Flocq.
Open Scope Z_scope.

Local Instance Hprec : FLX.Prec_gt_0 prec := eq_refl.
Local Instance Hmax : Prec_lt_emax prec emax := eq_refl.

Notation fexp64 := (SpecFloat.fexp prec emax).
Notation fmt := (generic_format radix2 fexp64).

(** ** powers of ten and two as ratios of integers *)
Definition T (k : Z) : R := bpow ten k.

Lemma T_pos k : (0 < T k)%R.
Proof. apply bpow_gt_0. Qed.

Lemma T_nonneg_exp k : 0 <= k -> T k = IZR (10 ^ k).
Proof. intros Hk. unfold T. change (10 ^ k) with (Zpower ten k). now rewrite IZR_Zpower. Qed.

Lemma T_neg_exp k : k <= 0 -> T k = (/ IZR (10 ^ (- k)))%R.
Proof.
  intros Hk. unfold T. change (10 ^ (- k)) with (Zpower ten (- k)).
  rewrite IZR_Zpower by lia. now rewrite <- bpow_opp, Z.opp_involutive.
Qed.

Lemma T_add a b : T (a + b) = (T a * T b)%R.
Proof. apply bpow_plus. Qed.

Lemma T_le a b : a <= b -> (T a <= T b)%R.
Proof. apply bpow_le. Qed.

Lemma T_lt a b : a < b -> (T a < T b)%R.
Proof. apply bpow_lt. Qed.

Lemma T_lt_inv a b : (T a < T b)%R -> a < b.
Proof. apply lt_bpow. Qed.

Lemma pow10_IZR_pos k : 0 <= k -> (0 < IZR (10 ^ k))%R.
Proof. intros Hk. apply IZR_lt. apply Z.pow_pos_nonneg; lia. Qed.

(** [pow10_le t N Dn] decides 10^t <= N / Dn *)
Lemma pow10_le_R t N Dn : 0 < Dn ->
  (pow10_le t N Dn = true <-> (T t <= IZR N / IZR Dn)%R).
Proof.
  intros HD. assert (HDr : (0 < IZR Dn)%R) by now apply IZR_lt.
  unfold pow10_le. destruct (Z.leb_spec 0 t) as [Ht|Ht].
  - rewrite T_nonneg_exp by assumption. rewrite Z.leb_le. split.
    + intros H. apply IZR_le in H. rewrite mult_IZR in H.
      apply Rmult_le_reg_r with (IZR Dn); [assumption|].
      unfold Rdiv. rewrite Rmult_assoc, Rinv_l by lra. lra.
    + intros H. apply le_IZR. rewrite mult_IZR.
      apply Rmult_le_compat_r with (r := IZR Dn) in H; [|lra].
      unfold Rdiv in H. rewrite Rmult_assoc, Rinv_l in H by lra. lra.
  - rewrite T_neg_exp by lia. pose proof (pow10_IZR_pos (- t) ltac:(lia)) as HP.
    rewrite Z.leb_le. split.
    + intros H. apply IZR_le in H. rewrite mult_IZR in H.
      apply Rmult_le_reg_r with (IZR Dn * IZR (10 ^ (- t)))%R; [now apply Rmult_lt_0_compat|].
      field_simplify; lra.
    + intros H. apply le_IZR. rewrite mult_IZR.
      apply Rmult_le_compat_r with (r := (IZR Dn * IZR (10 ^ (- t)))%R) in H;
        [|apply Rlt_le; now apply Rmult_lt_0_compat].
      field_simplify in H; lra.
Qed.

Lemma pow10_le_R_false t N Dn : 0 < Dn ->
  (pow10_le t N Dn = false <-> (IZR N / IZR Dn < T t)%R).
Proof.
  intros HD. pose proof (pow10_le_R t N Dn HD) as H.
  destruct (pow10_le t N Dn); split; intros H'; try discriminate; try reflexivity.
  - exfalso. apply (Rlt_irrefl (T t)). apply Rle_lt_trans with (2 := H'). now apply H.
  - apply Rnot_le_lt. intros Hc. apply H in Hc. discriminate.
Qed.

(** ** the decimal-exponent search *)
Lemma e10_search_spec fuel : forall t N Dn,
  pow10_le t N Dn = true -> pow10_le (t + Z.of_nat fuel + 1) N Dn = false ->
  let E := e10_search fuel t N Dn in
  pow10_le E N Dn = true /\ pow10_le (E + 1) N Dn = false /\ t <= E <= t + Z.of_nat fuel.
Proof.
  induction fuel as [|fuel IH]; intros t N Dn Ht Hu; cbn [e10_search].
  - cbv zeta. replace (t + Z.of_nat 0 + 1) with (t + 1) in Hu by lia. repeat split; try assumption; lia.
  - destruct (pow10_le (t + 1) N Dn) eqn:H1.
    + specialize (IH (t + 1) N Dn H1). cbv zeta in IH |- *.
      replace (t + 1 + Z.of_nat fuel + 1) with (t + Z.of_nat (S fuel) + 1) in IH by lia.
      destruct (IH Hu) as (A & B & C). repeat split; try assumption; lia.
    + cbv zeta. repeat split; try assumption; lia.
Qed.

(** the starting point of the search is at most 8 below the decimal exponent, for every binary
    exponent L of a double: 10^t0 <= 2^L and 2^(L+1) <= 10^(t0+9).  This is a statement about
    the 2098 integers L in [-1074, 1023] only (not about doubles); it is decided exhaustively. *)
Definition e10_start (L : Z) : Z := L * 30103 / 100000 - 2.

Definition pw (b k : Z) : Z * Z := if 0 <=? k then (b ^ k, 1) else (1, b ^ (- k)).

Definition start_ok (L : Z) : bool :=
  let t0 := e10_start L in
  let '(a, b) := pw 10 t0 in let '(c, d) := pw 2 L in
  let '(a', b') := pw 10 (t0 + 9) in let '(c', d') := pw 2 (L + 1) in
  (a * d <=? c * b) && (c' * b' <=? a' * d').

Fixpoint all_from (fuel : nat) (L : Z) (f : Z -> bool) : bool :=
  match fuel with
  | O => true
  | S n => f L && all_from n (L + 1) f
  end.

Lemma all_from_spec fuel f : forall L0 L,
  all_from fuel L0 f = true -> L0 <= L < L0 + Z.of_nat fuel -> f L = true.
Proof.
  induction fuel as [|fuel IH]; intros L0 L H HL; [lia|].
  cbn [all_from] in H. apply andb_true_iff in H as [H1 H2].
  destruct (Z.eq_dec L L0) as [->|Hne]; [exact H1|].
  apply (IH (L0 + 1)); [exact H2|lia].
Qed.

Lemma start_ok_all L : -1074 <= L <= 1023 -> start_ok L = true.
Proof.
  intros HL. apply (all_from_spec 2098 start_ok (-1074)); [vm_compute; reflexivity|lia].
Qed.

Lemma pw_R (b : radix) k : let '(p, q) := pw b k in
  (0 < p /\ 0 < q /\ bpow b k = (IZR p / IZR q)%R).
Proof.
  unfold pw. destruct (Z.leb_spec 0 k) as [Hk|Hk].
  - split; [|split; [lia|]].
    + apply Z.pow_pos_nonneg; [apply radix_gt_0|assumption].
    + change (b ^ k) with (Zpower b k). rewrite IZR_Zpower by assumption. field.
  - split; [lia|split].
    + apply Z.pow_pos_nonneg; [apply radix_gt_0|lia].
    + change (b ^ (- k)) with (Zpower b (- k)). rewrite IZR_Zpower by lia.
      rewrite bpow_opp. field. apply Rgt_not_eq, bpow_gt_0.
Qed.

Lemma ratio_le a b c d : 0 < b -> 0 < d -> a * d <= c * b -> (IZR a / IZR b <= IZR c / IZR d)%R.
Proof.
  intros Hb Hd H. apply IZR_le in H. rewrite !mult_IZR in H.
  apply IZR_lt in Hb, Hd.
  apply Rmult_le_reg_r with (IZR b * IZR d)%R; [now apply Rmult_lt_0_compat|].
  field_simplify; lra.
Qed.

Lemma start_ok_R L : -1074 <= L <= 1023 ->
  (T (e10_start L) <= bpow radix2 L /\ bpow radix2 (L + 1) <= T (e10_start L + 9))%R.
Proof.
  intros HL. pose proof (start_ok_all L HL) as H. unfold start_ok in H.
  pose proof (pw_R ten (e10_start L)) as H1. pose proof (pw_R radix2 L) as H2.
  pose proof (pw_R ten (e10_start L + 9)) as H3. pose proof (pw_R radix2 (L + 1)) as H4.
  change (radix_val ten) with 10 in H1, H3. change (radix_val radix2) with 2 in H2, H4.
  unfold T.
  destruct (pw 10 (e10_start L)) as [a b]. destruct (pw 2 L) as [c d].
  destruct (pw 10 (e10_start L + 9)) as [a' b']. destruct (pw 2 (L + 1)) as [c' d'].
  apply andb_true_iff in H as [Ha Hb]. apply Z.leb_le in Ha, Hb.
  destruct H1 as (? & ? & ->), H2 as (? & ? & ->), H3 as (? & ? & ->), H4 as (? & ? & ->).
  split; apply ratio_le; assumption.
Qed.

(** ** the same comparisons in integer arithmetic only (no real numbers: the lemmas below and what
    is built on them in Float64ShortestMin.v, [e10_correct_Z], are closed under the global context) *)
Lemma pow10_le_pw t N Dn :
  pow10_le t N Dn = (fst (pw 10 t) * Dn <=? N * snd (pw 10 t)).
Proof.
  unfold pow10_le, pw. destruct (0 <=? t); cbn [fst snd].
  - now rewrite Z.mul_1_r.
  - now rewrite Z.mul_1_l.
Qed.

Lemma pw_pos b k : 0 < b -> 0 < fst (pw b k) /\ 0 < snd (pw b k).
Proof.
  intros Hb. unfold pw. destruct (Z.leb_spec 0 k); cbn [fst snd]; split; try lia;
    apply Z.pow_pos_nonneg; lia.
Qed.

(** a/b <= c/d <= e/f gives a/b <= e/f (cross-multiplied, positive denominators) *)
Lemma qle_trans a b c d e f : 0 < b -> 0 < d -> 0 < f ->
  a * d <= c * b -> c * f <= e * d -> a * f <= e * b.
Proof.
  intros Hb Hd Hf H1 H2. apply Z.mul_le_mono_pos_r with d; [exact Hd|].
  apply Z.le_trans with (c * b * f).
  - replace (a * f * d) with (a * d * f) by ring. apply Z.mul_le_mono_nonneg_r; lia.
  - replace (c * b * f) with (c * f * b) by ring. replace (e * b * d) with (e * d * b) by ring.
    apply Z.mul_le_mono_nonneg_r; lia.
Qed.

Lemma qlt_le_trans a b c d e f : 0 < b -> 0 < d -> 0 < f ->
  a * d < c * b -> c * f <= e * d -> a * f < e * b.
Proof.
  intros Hb Hd Hf H1 H2. apply Z.mul_lt_mono_pos_r with d; [exact Hd|].
  apply Z.lt_le_trans with (c * b * f).
  - replace (a * f * d) with (a * d * f) by ring. apply Z.mul_lt_mono_pos_r; lia.
  - replace (c * b * f) with (c * f * b) by ring. replace (e * b * d) with (e * d * b) by ring.
    apply Z.mul_le_mono_nonneg_r; lia.
Qed.

Lemma start_ok_Z L : -1074 <= L <= 1023 ->
  fst (pw 10 (e10_start L)) * snd (pw 2 L) <= fst (pw 2 L) * snd (pw 10 (e10_start L)) /\
  fst (pw 2 (L + 1)) * snd (pw 10 (e10_start L + 9)) <=
    fst (pw 10 (e10_start L + 9)) * snd (pw 2 (L + 1)).
Proof.
  intros HL. pose proof (start_ok_all L HL) as H. unfold start_ok in H.
  destruct (pw 10 (e10_start L)) as [a b]. destruct (pw 2 L) as [c d].
  destruct (pw 10 (e10_start L + 9)) as [a' b']. destruct (pw 2 (L + 1)) as [c' d'].
  apply andb_true_iff in H as [Ha Hb]. apply Z.leb_le in Ha, Hb. cbn [fst snd]. split; assumption.
Qed.

(** 2^j against m * 2^e = N / Dn, for j >= e: (2^j) * Dn * m = 2^(j-e) * N * (denominator of 2^j) *)
Lemma pw2_identity m e j : e <= j ->
  let '(N, Dn) := f64_ratio_of m e in
  fst (pw 2 j) * Dn * Zpos m = 2 ^ (j - e) * (N * snd (pw 2 j)).
Proof.
  intros Hj. unfold f64_ratio_of, pw.
  destruct (Z.leb_spec 0 e) as [He|He]; destruct (Z.leb_spec 0 j) as [Hj0|Hj0]; cbn [fst snd].
  - replace j with ((j - e) + e) at 1 by lia. rewrite Z.pow_add_r by lia. ring.
  - lia.
  - replace (j - e) with (j + - e) by lia. rewrite Z.pow_add_r by lia. ring.
  - replace (- e) with ((j - e) + - j) at 1 by lia. rewrite Z.pow_add_r by lia. ring.
Qed.
