(** C09, D32: the repaired [round] of the implementation,
      [if v.fract() == -0.5 { v.trunc() } else { v.round() }],
    equals the XPath 1.0 [round] (nearest integer, ties towards positive infinity, signed zero as
    in 4.4) on EVERY binary64 value.  Exact integer arithmetic only: no real numbers, no axioms.
    The floating-point part is [neg_half_iff]: the fractional part [x - trunc x], computed by the
    standard library's rounding function, compares equal to -0.5 exactly on the negative ties. *)
From Coq Require Import ZArith NArith List Bool Lia Zpower.
From Coq Require Import Floats.SpecFloat.
From XmlRs Require Import Base.CPred Base.Float64 Spec.XPathCore Model.XPathFuncs.
Open Scope Z_scope.

(** digits *)
Lemma digits2_size p : digits2_pos p = Pos.size p.
Proof. induction p as [p IH|p IH|]; cbn [digits2_pos Pos.size]; now rewrite ?IH. Qed.

Lemma digits_bounds p : 2 ^ (Zpos (digits2_pos p) - 1) <= Zpos p < 2 ^ Zpos (digits2_pos p).
Proof.
  rewrite digits2_size. pose proof (Pos.size_gt p) as H1. pose proof (Pos.size_le p) as H2.
  assert (E : Zpos (2 ^ Pos.size p) = 2 ^ Zpos (Pos.size p)) by (rewrite Pos2Z.inj_pow; reflexivity).
  split.
  - assert (2 ^ Zpos (Pos.size p) <= 2 * Zpos p) by (rewrite <- E; exact H2).
    replace (Zpos (Pos.size p)) with (Zpos (Pos.size p) - 1 + 1) in H by lia.
    rewrite Z.pow_add_r in H by lia. lia.
  - rewrite <- E. exact H1.
Qed.

Lemma digits_shift d p : digits2_pos (shift_pos d p) = (digits2_pos p + d)%positive.
Proof.
  unfold shift_pos. induction d as [|d IH] using Pos.peano_ind.
  - cbn [Pos.iter digits2_pos]. lia.
  - rewrite Pos.iter_succ. cbn [digits2_pos]. rewrite IH. lia.
Qed.

Lemma shift_pos_Z d p : Zpos (shift_pos d p) = Zpos p * 2 ^ Zpos d.
Proof. rewrite shift_pos_correct. change (Z.pow_pos 2 d) with (2 ^ Zpos d). lia. Qed.

(** a mantissa that already sits at its canonical exponent is returned unchanged *)
Lemma binary_round_aux_exact s mz ez :
  fexp prec emax (Zpos (digits2_pos mz) + ez) = ez -> ez <= emax - prec ->
  binary_round_aux prec emax s (Zpos mz) ez loc_Exact = S754_finite s mz ez.
Proof.
  intros Hc He. unfold binary_round_aux, shr_fexp. cbn [Zdigits2].
  rewrite Hc, Z.sub_diag. cbn [shr shr_record_of_loc shr_m loc_of_shr_record round_nearest_even Zdigits2].
  rewrite Hc, Z.sub_diag. cbn [shr shr_record_of_loc shr_m].
  destruct (Z.leb_spec ez (emax - prec)); [reflexivity|lia].
Qed.

Lemma binary_round_exact s p e :
  let fe := fexp prec emax (Zpos (digits2_pos p) + e) in
  fe <= e -> fe <= emax - prec ->
  binary_round prec emax s p e = S754_finite s (Z.to_pos (Zpos p * 2 ^ (e - fe))) fe.
Proof.
  intros fe H1 H2. unfold binary_round. fold fe. unfold shl_align.
  destruct (fe - e) as [|d|d] eqn:Hd; try lia.
  - assert (fe = e) by lia. rewrite binary_round_aux_exact; [|fold fe; lia|lia].
    replace (e - fe) with 0 by lia. rewrite Z.mul_1_r. cbn [Z.to_pos]. now rewrite H.
  - rewrite binary_round_aux_exact; [| |assumption].
    + f_equal. replace (e - fe) with (Zpos d) by lia. rewrite <- shift_pos_Z. reflexivity.
    + rewrite digits_shift. rewrite Pos2Z.inj_add.
      replace (Zpos (digits2_pos p) + Zpos d + fe) with (Zpos (digits2_pos p) + e) by lia. reflexivity.
Qed.

(** ** integer facts: with P = 2^(k-1), the value is num / 2P *)
Lemma tie_trunc num P : 0 < P -> Z.rem num (2 * P) = - P ->
  Z.quot num (2 * P) = (2 * num + 2 * P) / (4 * P).
Proof.
  intros HP Hr. pose proof (Z.quot_rem' num (2 * P)) as E. rewrite Hr in E.
  set (q := Z.quot num (2 * P)) in *.
  assert (2 * num + 2 * P = q * (4 * P)) as -> by (rewrite E at 1; ring).
  rewrite Z.div_mul; lia.
Qed.

Lemma away_up_pos num P : 0 < P -> 0 <= num ->
  Z.sgn num * ((2 * Z.abs num + 2 * P) / (4 * P)) = (2 * num + 2 * P) / (4 * P).
Proof.
  intros HP Hn. rewrite Z.abs_eq by lia. destruct (Z.eq_dec num 0) as [->|Hz].
  - cbn [Z.sgn]. rewrite Z.mul_0_l. rewrite Z.div_small; lia.
  - rewrite Z.sgn_pos by lia. apply Z.mul_1_l.
Qed.

Lemma away_up_neg a P : 0 < P -> 0 < a -> Z.rem (- a) (2 * P) <> - P ->
  Z.sgn (- a) * ((2 * Z.abs (- a) + 2 * P) / (4 * P)) = (2 * (- a) + 2 * P) / (4 * P).
Proof.
  intros HP Ha Hr. rewrite Z.sgn_neg by lia. rewrite Z.abs_neq by lia.
  replace (- - a) with a by lia.
  pose proof (Z.div_mod (2 * a + 2 * P) (4 * P) ltac:(lia)) as E.
  pose proof (Z.mod_pos_bound (2 * a + 2 * P) (4 * P) ltac:(lia)) as B.
  set (Q := (2 * a + 2 * P) / (4 * P)) in *. set (R := (2 * a + 2 * P) mod (4 * P)) in *.
  assert (HR : R <> 0).
  { intros HR0. apply Hr. rewrite Z.rem_opp_l by lia.
    (* a = 2P * Q - P, so a rem 2P = P *)
    assert (Ea : a = (2 * P) * (Q - 1) + P) by lia.
    assert (HQ : 1 <= Q) by nia.
    rewrite Z.rem_mod_nonneg by lia. rewrite Ea.
    rewrite Z.add_comm, Z.mul_comm, Z.mod_add by lia. rewrite Z.mod_small; lia. }
  apply Z.div_unique with (r := 4 * P - R); [left; lia|]. lia.
Qed.


(** ** the fractional part equals -0.5 exactly on the negative ties *)
Lemma round_aux_sign sx mx ex lx :
  match binary_round_aux prec emax sx mx ex lx with
  | S754_zero s | S754_infinity s | S754_finite s _ _ => s = sx
  | S754_nan => True
  end.
Proof.
  unfold binary_round_aux. destruct (shr_fexp prec emax mx ex lx) as [mrs' e'].
  destruct (shr_fexp prec emax _ e' loc_Exact) as [mrs'' e''].
  destruct (shr_m mrs''); [reflexivity| |exact I].
  destruct (Zle_bool e'' (emax - prec)); reflexivity.
Qed.

Lemma positive_not_neg_half p e : f64_eqb (binary_round prec emax false p e) neg_half = false.
Proof.
  unfold binary_round. destruct (shl_align p e _) as [mz ez].
  pose proof (round_aux_sign false (Zpos mz) ez loc_Exact) as H.
  destruct (binary_round_aux prec emax false (Zpos mz) ez loc_Exact) as [s|s| |s m' e']; try subst s; reflexivity.
Qed.

Lemma canonical_facts m e : bounded prec emax m e = true ->
  Zpos (digits2_pos m) <= 53 /\ -1074 <= e <= 971.
Proof.
  unfold bounded, canonical_mantissa, fexp, emin, prec, emax. rewrite andb_true_iff.
  intros [H1 H2]. apply Zeq_bool_eq in H1. apply Z.leb_le in H2. lia.
Qed.

Lemma pow2_digits p j : 0 <= j -> Zpos p = 2 ^ j -> Zpos (digits2_pos p) = j + 1.
Proof.
  intros Hj E. pose proof (digits_bounds p) as [B1 B2]. rewrite E in B1, B2.
  set (d := Zpos (digits2_pos p)) in *. assert (1 <= d) by (unfold d; lia).
  apply Z.pow_le_mono_r_iff in B1; try lia. apply Z.pow_lt_mono_r_iff in B2; lia.
Qed.

Lemma cmp_fin mz fe C :
  SFcompare (S754_finite true mz fe) (S754_finite true C (-53)) = Some Eq <-> fe = -53 /\ mz = C.
Proof.
  cbn [SFcompare].
  destruct (Z.compare_spec fe (-53)) as [Hfe|Hfe|Hfe].
  - change (Pos.compare_cont Eq mz C) with (Pos.compare mz C).
    destruct (mz ?= C)%positive eqn:Ec; cbn [CompOpp].
    + apply Pos.compare_eq_iff in Ec. tauto.
    + split; [discriminate|intros [_ E']; rewrite E', Pos.compare_refl in Ec; discriminate].
    + split; [discriminate|intros [_ E']; rewrite E', Pos.compare_refl in Ec; discriminate].
  - split; [discriminate|lia].
  - split; [discriminate|lia].
Qed.

Lemma cmp_neg_half mz fe :
  f64_eqb (S754_finite true mz fe) neg_half = true <-> fe = -53 /\ mz = 4503599627370496%positive.
Proof.
  rewrite <- cmp_fin. unfold f64_eqb, SFeqb, neg_half.
  destruct (SFcompare _ _) as [[| |]|]; split; congruence.
Qed.

Lemma mant_half p e : e < 0 -> -53 <= e ->
  Z.to_pos (Zpos p * 2 ^ (e - -53)) = 4503599627370496%positive <-> Zpos p = 2 ^ (- e - 1).
Proof.
  intros He He'.
  assert (H52 : Zpos 4503599627370496 = 2 ^ 52) by reflexivity.
  assert (0 < Zpos p * 2 ^ (e - -53)) by (apply Z.mul_pos_pos; [lia|apply Z.pow_pos_nonneg; lia]).
  split.
  - intros E. apply (f_equal Zpos) in E. rewrite Z2Pos.id in E by assumption. rewrite H52 in E.
    replace 52 with ((- e - 1) + (e - -53)) in E by lia. rewrite Z.pow_add_r in E by lia.
    apply Z.mul_reg_r in E; [exact E|]. apply Z.pow_nonzero; lia.
  - intros E. apply Pos2Z.inj. rewrite Z2Pos.id by assumption. rewrite E, H52.
    rewrite <- Z.pow_add_r by lia. f_equal. lia.
Qed.

Lemma neg_half_iff m e p : bounded prec emax m e = true -> e < 0 -> Zpos p <= Zpos m ->
  f64_eqb (binary_round prec emax true p e) neg_half = true <-> Zpos p = 2 ^ (- e - 1).
Proof.
  intros Hb He Hp. destruct (canonical_facts m e Hb) as [Hdm [He1 He2]].
  pose proof (digits_bounds p) as [Bp1 Bp2]. pose proof (digits_bounds m) as [Bm1 Bm2].
  pose proof (pow2_digits p (- e - 1) ltac:(lia)) as Hpow.
  set (dp := Zpos (digits2_pos p)) in *. set (dm := Zpos (digits2_pos m)) in *.
  assert (Hdp : dp <= dm).
  { destruct (Z.le_gt_cases dp dm) as [H|H]; [exact H|exfalso].
    assert (2 ^ dm <= 2 ^ (dp - 1)) by (apply Z.pow_le_mono_r; lia). lia. }
  assert (Hdp1 : 1 <= dp) by (unfold dp; lia).
  assert (Hfe : fexp prec emax (dp + e) = Z.max (dp + e - 53) (-1074)) by reflexivity.
  rewrite binary_round_exact; fold dp; rewrite Hfe; try (unfold emax, prec; lia).
  rewrite cmp_neg_half. split.
  - intros [H1 H2]. rewrite H1 in H2. apply mant_half in H2; lia.
  - intros E. specialize (Hpow E). assert (H1 : Z.max (dp + e - 53) (-1074) = -53) by lia.
    split; [exact H1|]. rewrite H1. apply mant_half; lia.
Qed.

Lemma pow_split k : 0 < k -> 2 ^ k = 2 * 2 ^ (k - 1) /\ 2 ^ (k + 1) = 4 * 2 ^ (k - 1) /\ 0 < 2 ^ (k - 1).
Proof.
  intros Hk. replace k with ((k - 1) + 1) at 1 by lia. replace (k + 1) with ((k - 1) + 2) by lia.
  rewrite !Z.pow_add_r by lia. change (2 ^ 1) with 2. change (2 ^ 2) with 4.
  pose proof (Z.pow_pos_nonneg 2 (k - 1) ltac:(lia) ltac:(lia)). lia.
Qed.

Lemma rem_abs_le a b : 0 < b -> Z.abs (Z.rem a b) <= Z.abs a.
Proof.
  intros Hb. rewrite <- (Z.abs_eq b) at 1 by lia. rewrite <- Z.rem_abs by lia.
  apply Z.rem_le; lia.
Qed.

(** the repaired [round]: [fract() == -0.5 ? trunc() : round()] is XPath's round on every double *)
Theorem round_refines x : valid_binary prec emax x = true -> m_round_half_up x = f64_xround x.
Proof.
  destruct x as [s|s| |s m e]; intros Hv; try reflexivity.
  cbn [valid_binary] in Hv.
  unfold m_round_half_up, f64_fract, f64_trunc, f64_round_away, f64_xround, f64_int_round.
  destruct (0 <=? e) eqn:He0; [reflexivity|].
  apply Z.leb_gt in He0. set (k := - e). assert (Hk : 0 < k) by (unfold k; lia).
  set (num := cond_Zopp s (Zpos m)).
  destruct (pow_split k Hk) as (E1 & E2 & HP). set (P := 2 ^ (k - 1)) in *.
  assert (Htest : f64_eqb (binary_normalize prec emax (Z.rem num (2 ^ k)) e false) neg_half = true
                  <-> Z.rem num (2 ^ k) = - P).
  { pose proof (rem_abs_le num (2 ^ k) ltac:(lia)) as Hle.
    assert (Z.abs num = Zpos m) as Habs by (unfold num; destruct s; reflexivity).
    destruct (Z.rem num (2 ^ k)) as [|p|p] eqn:Er; cbn [binary_normalize].
    - split; [discriminate|lia].
    - rewrite positive_not_neg_half. split; [discriminate|lia].
    - rewrite (neg_half_iff m e p Hv He0) by lia. unfold P, k.
      replace (- e - 1) with (- e - 1) by lia. split; intros; lia. }
  destruct (f64_eqb (binary_normalize prec emax (Z.rem num (2 ^ k)) e false) neg_half) eqn:Et.
  - f_equal. unfold rnd_trunc, rnd_half_up. rewrite E1, E2. apply tie_trunc; [exact HP|].
    rewrite <- E1. now apply Htest.
  - f_equal. unfold rnd_half_away, rnd_half_up. rewrite E1, E2.
    assert (Hnt : Z.rem num (2 * P) <> - P).
    { rewrite <- E1. intros H. apply Htest in H. discriminate. }
    unfold num in *. destruct s; cbn [cond_Zopp] in *.
    + change (Zneg m) with (- Zpos m) in *. apply away_up_neg; [exact HP|lia|exact Hnt].
    + apply away_up_pos; [exact HP|lia].
Qed.
