(** * C04, converse direction: XmlDocumentTypeDeclaration::node_attached preserves the invariants.

    [p_decl_doc_ok dd] (what the parser guarantees, Proofs/ParseInvDtd.v) and
    [build_doctype false sa dd = IOk dt] give [doctype_wf sa dt], the hypothesis of
    [doctype_round_trip] (Proofs/DisplayDtd.v). *)
From Coq Require Import List NArith Arith Lia Bool.
From XmlRs Require Import Base.CPred Model.Peg Gen.XmlcharGen Gen.GrammarXmlGen Model.ParseActions Model.Info Model.Display
     Proofs.PegLemmas Proofs.Expansion Proofs.DisplayLex Proofs.DisplayElem Proofs.DisplayDoc Proofs.DisplayDtd
     Proofs.ParseInv Proofs.ParseInvElem Proofs.ParseInvBuild Proofs.ParseInvDtd.
Import ListNotations.
Local Open Scope N_scope.

(** ** entity values: the quote the printer picks *)
Lemma reference_no_quote x q : q = 34 \/ q = 39 -> reference_ok x -> existsb (N.eqb q) (d_reference x) = false.
Proof.
  intros Hq. destruct x as [num r|n]; cbn [reference_ok d_reference].
  - intros Hr. destruct r; destruct Hr as [_ Hd];
      [change (38 :: 35 :: num ++ [59]) with ([38;35] ++ num ++ [59])|change (38 :: 35 :: 120 :: num ++ [59]) with ([38;35;120] ++ num ++ [59])];
      (apply existsb_app_false; [destruct Hq as [-> | ->]; reflexivity|];
       apply existsb_app_false; [|destruct Hq as [-> | ->]; reflexivity];
       eapply digits_no_quote; [|exact Hd]; destruct Hq as [-> | ->]; reflexivity).
  - intros Hn. change (38 :: n ++ [59]) with ([38] ++ n ++ [59]).
    apply existsb_app_false; [destruct Hq as [-> | ->]; reflexivity|].
    apply existsb_app_false; [apply name_ok_no_quote; assumption|destruct Hq as [-> | ->]; reflexivity].
Qed.

Lemma ev_no_quote q : q = 34 \/ q = 39 -> forall vs b, ev_ok q b vs -> existsb (N.eqb q) (d_evs vs) = false.
Proof.
  intros Hq. induction vs as [|v vs IH]; intros b H; [reflexivity|]. unfold d_evs. cbn [flat_map]. fold (d_evs vs).
  pose proof (d_ent_value_ref v) as Hv.
  destruct v as [num r|n|n|s]; cbn [ev_ok] in H; try contradiction.
  - destruct H as [Hr H]. apply existsb_app_false; [rewrite Hv; apply reference_no_quote; assumption|eapply IH; exact H].
  - destruct H as [Hr H]. apply existsb_app_false; [rewrite Hv; apply reference_no_quote; assumption|eapply IH; exact H].
  - destruct H as [_ [_ [Hs H]]]. apply existsb_app_false; [|eapply IH; exact H].
    cbn [d_ent_value]. eapply except_no_char; [|exact Hs]. cbn. tauto.
Qed.

Lemma ev_ok_requote q q' : forall vs b, ev_ok q b vs -> existsb (N.eqb q') (d_evs vs) = false -> ev_ok q' b vs.
Proof.
  induction vs as [|v vs IH]; intros b H E; [exact I|]. unfold d_evs in E. cbn [flat_map] in E. fold (d_evs vs) in E.
  rewrite existsb_app in E. apply orb_false_elim in E. destruct E as [E1 E2].
  destruct v as [num r|n|n|s]; cbn [ev_ok] in *; try contradiction.
  - destruct H as [Hr H]. split; [exact Hr|apply IH; assumption].
  - destruct H as [Hr H]. split; [exact Hr|apply IH; assumption].
  - destruct H as [Hb [Hne [Hs H]]]. repeat split; try assumption; [|apply IH; assumption].
    cbn [d_ent_value] in E1. apply (except_swap_gen [37;38] q q' s Hs E1).
Qed.

Lemma ev_ok_swap q vs b : q = 34 \/ q = 39 -> ev_ok q b vs -> ev_ok (str_quote (d_evs vs)) b vs.
Proof.
  intros Hq H. unfold str_quote. destruct (existsb (N.eqb 34) (d_evs vs)) eqn:E.
  - destruct Hq as [-> | ->]; [|exact H]. exfalso. rewrite (ev_no_quote 34 (or_introl eq_refl) vs b H) in E. discriminate.
  - eapply ev_ok_requote; eassumption.
Qed.

Lemma ev_built q : forall l b, p_ev_ok q b l -> check_entity_values l = IOk tt ->
  ev_ok q b (map build_ent_value l)
  /\ Forall (fun v => match v with XvCharacter num r => exists c, char_from num r = IOk c | _ => True end) (map build_ent_value l).
Proof.
  induction l as [|v l IH]; intros b H C; [split; [exact I|constructor]|].
  destruct v as [s|n|[num r|n]]; cbn [p_ev_ok check_entity_values map build_ent_value ev_ok] in *.
  - destruct H as [Hb [Hne [Hs H]]]. destruct (IH true H C) as [H1 H2]. split; [repeat split; assumption|constructor; [exact I|exact H2]].
  - discriminate.
  - apply ibind_ok in C. destruct C as [c [Hc C]]. destruct H as [Hr H]. destruct (IH false H C) as [H1 H2].
    split; [split; assumption|constructor; [eauto|exact H2]].
  - destruct H as [Hr H]. destruct (IH false H C) as [H1 H2]. split; [split; assumption|constructor; [exact I|exact H2]].
Qed.

Theorem entity_built n d : p_ge_ok n d -> check_entity_decl d = IOk tt -> entity_wf (build_entity n d).
Proof.
  intros [Hn [Hne Hd]] C. destruct d as [l|x nd]; cbn [build_entity check_entity_decl p_entity_def_ok] in *; unfold entity_wf;
    cbn [en_name en_values en_system en_public en_notation].
  - destruct Hd as [q [Hq Hl]]. destruct (ev_built q l false Hl C) as [H1 H2].
    repeat split; try assumption. apply (ev_ok_swap q _ false Hq H1).
  - destruct Hd as [Hx Hnd]. repeat split; try assumption. apply ext_ok_of_src. exact Hx.
Qed.

Theorem notation_built d : p_notation_ok d -> notation_wf (build_notation d).
Proof.
  intros [Hn [Hne Hid]]. unfold build_notation, notation_wf. destruct (dn_id d) as [x|p]; cbn [no_name no_system no_public].
  - repeat split; try assumption. apply ext_ok_of_src. exact Hid.
  - repeat split; assumption.
Qed.

(** ** attribute-list declarations *)
Lemma ncname_xmlns : ncname_ok s_xmlns.
Proof. vm_compute. auto. Qed.

Theorem attdef_built acc ext d x : p_att_def_ok d -> build_attdef acc ext d = IOk x -> attdef_wf acc ext x.
Proof.
  intros [Hn [Hty Hdv]] H. unfold build_attdef in H.
  destruct (match ad_name d with DanAttr q => qname_parts q | DanNamespace a => attribute_name a end) as [local prefix] eqn:En.
  apply ibind_ok in H. destruct H as [dv [Hv H]]. injection H as <-. unfold attdef_wf. cbn [xd_local xd_prefix xd_ty xd_value].
  split; [|split; [exact Hty|]].
  - destruct (ad_name d) as [q|a]; cbn [decl_att_name_ok] in Hn.
    + replace local with (fst (qname_parts q)) by (rewrite En; reflexivity).
      replace prefix with (snd (qname_parts q)) by (rewrite En; reflexivity). rewrite mk_qname_parts. exact Hn.
    + destruct Hn as [Ha [-> |[v ->]]]; cbn [attribute_name] in En; injection En as <- <-; cbn [mk_qname qname_ok].
      * exact ncname_xmlns.
      * split; [exact ncname_xmlns|exact Ha].
  - destruct (ad_value d) as [| |f vs]; cbn [p_att_default_ok] in Hdv.
    + injection Hv as <-. exact I.
    + injection Hv as <-. exact I.
    + apply ibind_ok in Hv. destruct Hv as [vs' [Hvs Hv]]. injection Hv as <-. destruct Hdv as [Hf [q [Hq Hok]]].
      cbn [adefault_wf]. split; [exact Hf|]. apply (values_wf_built acc ext q vs vs' Hq Hok Hvs).
Qed.

Lemma attdefs_built acc ext : forall l xs, Forall p_att_def_ok l -> build_attdefs acc ext l = IOk xs -> Forall (attdef_wf acc ext) xs.
Proof.
  induction l as [|d l IH]; intros xs Hl H; cbn [build_attdefs] in H.
  - injection H as <-. constructor.
  - apply ibind_ok in H. destruct H as [x [Hx H]]. apply ibind_ok in H. destruct H as [r [Hr H]]. injection H as <-.
    inversion Hl; subst. constructor; [eapply attdef_built; eassumption|apply IH; assumption].
Qed.

Theorem attlist_built acc ext d a : p_decl_att_ok d -> build_attlist acc ext d = IOk a -> attlist_wf acc ext a.
Proof.
  intros [Hn Hl] H. unfold build_attlist in H. apply ibind_ok in H. destruct H as [atts [Ha H]]. injection H as <-.
  unfold attlist_wf. cbn [al_local al_prefix al_atts]. rewrite mk_qname_parts. split; [exact Hn|eapply attdefs_built; eassumption].
Qed.

(** ** the internal subset and the declaration *)
Lemma subset_built ext : forall l acc ch, Forall is_ok l -> build_subset false ext acc l = IOk ch -> dtd_wf ext acc ch.
Proof.
  induction l as [|x l IH]; intros acc ch Hl H; cbn [build_subset] in H.
  - injection H as <-. exact I.
  - inversion Hl as [|x' l' Hx Hl']; subst.
    destruct x as [[de|da|[n d|n d]|dn|p|c]|n|w]; cbn [is_ok markup_ok] in Hx.
    + apply IH; assumption.
    + apply ibind_ok in H. destruct H as [a [Ha H]]. apply ibind_ok in H. destruct H as [r [Hr H]]. injection H as <-.
      cbn [dtd_wf]. split; [eapply attlist_built; eassumption|apply IH; assumption].
    + apply ibind_ok in H. destruct H as [[] [Hc H]]. apply ibind_ok in H. destruct H as [r [Hr H]]. injection H as <-.
      cbn [dtd_wf]. split; [apply entity_built; assumption|apply IH; assumption].
    + discriminate.
    + apply ibind_ok in H. destruct H as [r [Hr H]]. injection H as <-.
      cbn [dtd_wf]. split; [apply notation_built; assumption|apply IH; assumption].
    + apply ibind_ok in H. destruct H as [r [Hr H]]. injection H as <-.
      cbn [dtd_wf]. split; [assumption|apply IH; assumption].
    + apply IH; assumption.
    + discriminate.
    + apply IH; assumption.
Qed.

Theorem doctype_built sa dd dt : p_decl_doc_ok dd -> build_doctype false sa dd = IOk dt -> doctype_wf sa dt.
Proof.
  intros [Hn [Hx Hl]] H. unfold build_doctype in H. apply ibind_ok in H. destruct H as [ch [Hch H]]. injection H as <-.
  unfold doctype_wf. cbn [dt_local dt_prefix dt_system dt_public dt_children]. rewrite mk_qname_parts.
  split; [exact Hn|]. split.
  - destruct (dd_external_id dd) as [x|]; [|exact I]. apply ext_ok_of_src. exact Hx.
  - eapply subset_built; eassumption.
Qed.
