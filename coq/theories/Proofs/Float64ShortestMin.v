(** * number -> string: totality and minimality of [f64_shortest] (continued from
    Proofs/Float64Shortest.v, which has the decimal-exponent search).  Depends on the four
    axioms of the standard library's real numbers through Proofs/Float64Flocq.v. *)
From Coq Require Import ZArith Reals Lia Lra Psatz Bool List.
From Coq Require Import Floats.SpecFloat.
From Flocq Require Import Core.Core IEEE754.BinarySingleNaN.
From XmlRs Require Import Base.CPred Base.Float64 Proofs.XPathFuncsRound Proofs.Float64Int
  Proofs.Float64Flocq Proofs.Float64Shortest.
Open Scope Z_scope.

Local Instance Hprec : FLX.Prec_gt_0 prec := eq_refl.
Local Instance Hmax : Prec_lt_emax prec emax := eq_refl.

Lemma big_pow_1 : (bpow radix2 1024 <= T 309)%R.
Proof.
  unfold T. rewrite <- !IZR_Zpower by lia. apply IZR_le. apply Z.leb_le. vm_compute. reflexivity.
Qed.

Lemma big_pow_2 : (T (-324) <= bpow radix2 (-1074))%R.
Proof.
  unfold T. replace (-324) with (- (324)) by reflexivity. replace (-1074) with (- (1074)) by reflexivity.
  rewrite !bpow_opp. apply Rinv_le; [apply bpow_gt_0|].
  rewrite <- !IZR_Zpower by lia. apply IZR_le. apply Z.leb_le. vm_compute. reflexivity.
Qed.

(** ** the search over the levels *)
Lemma search_some fuel : forall y N Dn E n0 d k,
  shortest_search fuel y N Dn E n0 = Some (d, k) ->
  exists n, n0 <= n < n0 + Z.of_nat fuel /\ digits_candidate y N Dn E n = Some (d, k) /\
            forall j, n0 <= j < n -> digits_candidate y N Dn E j = None.
Proof.
  induction fuel as [|fuel IH]; intros y N Dn E n0 d k; cbn [shortest_search]; [discriminate|].
  destruct (digits_candidate y N Dn E n0) as [[d0 k0]|] eqn:Hc.
  - intros [= <- <-]. exists n0. split; [lia|]. split; [exact Hc|]. intros j Hj. lia.
  - intros H. destruct (IH _ _ _ _ _ _ _ H) as (n & Hn & Hs & Hnone).
    exists n. split; [lia|]. split; [exact Hs|]. intros j Hj.
    destruct (Z.eq_dec j n0) as [->|Hne]; [exact Hc|]. apply Hnone. lia.
Qed.

Lemma search_none fuel : forall y N Dn E n0,
  shortest_search fuel y N Dn E n0 = None ->
  forall j, n0 <= j < n0 + Z.of_nat fuel -> digits_candidate y N Dn E j = None.
Proof.
  induction fuel as [|fuel IH]; intros y N Dn E n0; cbn [shortest_search]; [intros _ j Hj; lia|].
  destruct (digits_candidate y N Dn E n0) as [[d0 k0]|] eqn:Hc; [discriminate|].
  intros H j Hj. destruct (Z.eq_dec j n0) as [->|Hne]; [exact Hc|]. apply (IH _ _ _ _ _ H). lia.
Qed.

Section Double.
Variables (m : positive) (e : Z).
Hypothesis Hb : bounded prec emax m e = true.
Let x : f64 := S754_finite false m e.
Let v : R := R_of x.
Let N : Z := fst (f64_ratio_of m e).
Let Dn : Z := snd (f64_ratio_of m e).
Let L : Z := Z.log2 (Zpos m) + e.

Lemma v_def : v = (IZR (Zpos m) * bpow radix2 e)%R.
Proof. reflexivity. Qed.

Lemma v_pos : (0 < v)%R.
Proof. rewrite v_def. apply Rmult_lt_0_compat; [now apply IZR_lt|apply bpow_gt_0]. Qed.

Lemma ratio_facts : 0 < N /\ 0 < Dn /\ v = (IZR N / IZR Dn)%R /\ Z.log2 N - Z.log2 Dn = L.
Proof.
  unfold N, Dn, L, f64_ratio_of. rewrite v_def.
  destruct (Z.leb_spec 0 e) as [He|He]; cbn [fst snd].
  - pose proof (Z.pow_pos_nonneg 2 e ltac:(lia) He) as HP.
    split; [lia|split; [lia|split]].
    + rewrite mult_IZR. change (2 ^ e) with (Zpower radix2 e). rewrite IZR_Zpower by assumption.
      field.
    + rewrite Z.log2_mul_pow2 by lia. change (Z.log2 1) with 0. lia.
  - pose proof (Z.pow_pos_nonneg 2 (- e) ltac:(lia) ltac:(lia)) as HP.
    split; [lia|split; [lia|split]].
    + change (2 ^ (- e)) with (Zpower radix2 (- e)). rewrite IZR_Zpower by lia.
      rewrite bpow_opp. field. apply Rgt_not_eq, bpow_gt_0.
    + rewrite Z.log2_pow2 by lia. lia.
Qed.

Lemma L_range : -1074 <= L <= 1023.
Proof.
  destruct (canonical_facts m e Hb) as [Hd He]. pose proof (digits_bounds m) as [B1 B2].
  assert (Z.log2 (Zpos m) = Zpos (digits2_pos m) - 1).
  { apply Z.log2_unique; [lia|]. unfold Z.succ. replace (Zpos (digits2_pos m) - 1 + 1) with (Zpos (digits2_pos m)) by lia. lia. }
  unfold L. lia.
Qed.

Lemma v_binade : (bpow radix2 L <= v < bpow radix2 (L + 1))%R.
Proof.
  rewrite v_def. unfold L. pose proof (Z.log2_spec (Zpos m) ltac:(lia)) as [H1 H2].
  pose proof (Z.log2_nonneg (Zpos m)) as H0.
  rewrite <- Z.add_1_r in H2.
  apply IZR_le in H1. apply IZR_lt in H2.
  change (2 ^ Z.log2 (Zpos m)) with (Zpower radix2 (Z.log2 (Zpos m))) in H1.
  change (2 ^ (Z.log2 (Zpos m) + 1)) with (Zpower radix2 (Z.log2 (Zpos m) + 1)) in H2.
  rewrite IZR_Zpower in H1, H2 by lia.
  replace (Z.log2 (Zpos m) + e + 1) with (Z.log2 (Zpos m) + 1 + e) by lia.
  rewrite (bpow_plus radix2 (Z.log2 (Zpos m)) e), (bpow_plus radix2 (Z.log2 (Zpos m) + 1) e).
  pose proof (bpow_gt_0 radix2 e) as HP.
  split; [apply Rmult_le_compat_r; lra|apply Rmult_lt_compat_r; lra].
Qed.

Lemma v_lt_emax : (v < bpow radix2 1024)%R.
Proof.
  destruct v_binade as [_ H]. apply Rlt_le_trans with (1 := H). apply bpow_le.
  pose proof L_range. lia.
Qed.

Lemma v_ge_emin : (bpow radix2 (-1074) <= v)%R.
Proof.
  destruct v_binade as [H _]. apply Rle_trans with (2 := H). apply bpow_le.
  pose proof L_range. lia.
Qed.

(** [e10] is the decimal exponent *)
Let E : Z := e10 N Dn.

Lemma e10_correct : (T E <= v < T (E + 1))%R /\ -324 <= E <= 308.
Proof.
  destruct ratio_facts as (HN & HD & Hv & HL). destruct v_binade as [V1 V2].
  destruct (start_ok_R L L_range) as [S1 S2].
  assert (A : pow10_le (e10_start L) N Dn = true).
  { apply pow10_le_R; [assumption|]. rewrite <- Hv. lra. }
  assert (B : pow10_le (e10_start L + Z.of_nat 8 + 1) N Dn = false).
  { apply pow10_le_R_false; [assumption|]. rewrite <- Hv.
    replace (e10_start L + Z.of_nat 8 + 1) with (e10_start L + 9) by lia. lra. }
  pose proof (e10_search_spec 8 _ _ _ A B) as H. cbv zeta in H.
  assert (HE : e10_search 8 (e10_start L) N Dn = E).
  { unfold E, e10, e10_start. now rewrite HL. }
  rewrite HE in H. destruct H as (H1 & H2 & _).
  apply pow10_le_R in H1; [|assumption]. apply pow10_le_R_false in H2; [|assumption].
  rewrite <- Hv in H1, H2. split; [split; assumption|].
  pose proof v_lt_emax as U. pose proof v_ge_emin as Lo.
  pose proof big_pow_1. pose proof big_pow_2. split.
  - destruct (Z.le_gt_cases (-324) E) as [Hc|Hc]; [exact Hc|exfalso].
    assert (T (E + 1) <= T (-324))%R by (apply T_le; lia). lra.
  - assert (E < 309); [|lia]. apply T_lt_inv. lra.
Qed.

(** the same without real numbers (closed under the global context) *)
Lemma ratio_facts_Z : 0 < N /\ 0 < Dn /\ Z.log2 N - Z.log2 Dn = L.
Proof.
  unfold N, Dn, L, f64_ratio_of.
  destruct (Z.leb_spec 0 e) as [He|He]; cbn [fst snd].
  - pose proof (Z.pow_pos_nonneg 2 e ltac:(lia) He) as HP.
    split; [lia|split; [lia|]]. rewrite Z.log2_mul_pow2 by lia. change (Z.log2 1) with 0. lia.
  - pose proof (Z.pow_pos_nonneg 2 (- e) ltac:(lia) ltac:(lia)) as HP.
    split; [lia|split; [lia|]]. rewrite Z.log2_pow2 by lia. lia.
Qed.

Lemma binade_Z :
  fst (pw 2 L) * Dn <= N * snd (pw 2 L) /\ N * snd (pw 2 (L + 1)) < fst (pw 2 (L + 1)) * Dn.
Proof.
  destruct ratio_facts_Z as (HN & HD & _).
  pose proof (Z.log2_spec (Zpos m) ltac:(lia)) as [H1 H2]. pose proof (Z.log2_nonneg (Zpos m)) as H0.
  pose proof (pw2_identity m e L ltac:(unfold L; lia)) as I1.
  pose proof (pw2_identity m e (L + 1) ltac:(unfold L; lia)) as I2.
  fold N Dn in I1, I2. rewrite (surjective_pairing (f64_ratio_of m e)) in I1, I2. fold N Dn in I1, I2.
  replace (L - e) with (Z.log2 (Zpos m)) in I1 by (unfold L; lia).
  replace (L + 1 - e) with (Z.succ (Z.log2 (Zpos m))) in I2 by (unfold L; lia).
  destruct (pw_pos 2 L ltac:(lia)) as [P1 Q1]. destruct (pw_pos 2 (L + 1) ltac:(lia)) as [P2 Q2].
  split.
  - apply Z.mul_le_mono_pos_r with (Zpos m); [lia|]. rewrite I1.
    rewrite (Z.mul_comm (N * snd (pw 2 L))). apply Z.mul_le_mono_nonneg_r; [|exact H1].
    apply Z.lt_le_incl, Z.mul_pos_pos; assumption.
  - apply Z.mul_lt_mono_pos_r with (Zpos m); [lia|]. rewrite I2.
    rewrite (Z.mul_comm (N * snd (pw 2 (L + 1)))). apply Z.mul_lt_mono_pos_r; [|exact H2].
    apply Z.mul_pos_pos; assumption.
Qed.

Lemma e10_correct_Z : pow10_le E N Dn = true /\ pow10_le (E + 1) N Dn = false.
Proof.
  destruct ratio_facts_Z as (HN & HD & HL). destruct binade_Z as [B1 B2].
  destruct (start_ok_Z L L_range) as [S1 S2].
  destruct (pw_pos 2 L ltac:(lia)) as [P1 Q1]. destruct (pw_pos 2 (L + 1) ltac:(lia)) as [P2 Q2].
  destruct (pw_pos 10 (e10_start L) ltac:(lia)) as [P3 Q3].
  destruct (pw_pos 10 (e10_start L + 9) ltac:(lia)) as [P4 Q4].
  assert (A : pow10_le (e10_start L) N Dn = true).
  { rewrite pow10_le_pw. apply Z.leb_le.
    apply (qle_trans _ _ (fst (pw 2 L)) (snd (pw 2 L))); assumption. }
  assert (B : pow10_le (e10_start L + Z.of_nat 8 + 1) N Dn = false).
  { replace (e10_start L + Z.of_nat 8 + 1) with (e10_start L + 9) by lia.
    rewrite pow10_le_pw. apply Z.leb_gt.
    apply (qlt_le_trans _ _ (fst (pw 2 (L + 1))) (snd (pw 2 (L + 1)))); assumption. }
  pose proof (e10_search_spec 8 _ _ _ A B) as H. cbv zeta in H.
  assert (HE : e10_search 8 (e10_start L) N Dn = E).
  { unfold E, e10, e10_start. now rewrite HL. }
  rewrite HE in H. destruct H as (H1 & H2 & _). split; assumption.
Qed.

(** ** x as a point of the binary64 format *)
Lemma x_valid : valid x.
Proof. exact Hb. Qed.

Lemma v_fmt : generic_format radix2 (SpecFloat.fexp prec emax) v.
Proof. unfold v, R_of. rewrite <- (B2R_SF2B prec emax x x_valid). apply generic_format_B2R. Qed.

Lemma v_mag : (mag radix2 v : Z) = L + 1.
Proof.
  apply mag_unique. rewrite Rabs_pos_eq by (apply Rlt_le, v_pos).
  replace (L + 1 - 1) with L by lia. exact v_binade.
Qed.

Lemma v_cexp : cexp radix2 (SpecFloat.fexp prec emax) v = e.
Proof.
  unfold bounded in Hb. apply andb_true_iff in Hb as [Hc _].
  pose proof (canonical_canonical_mantissa prec emax false m e Hc) as H.
  unfold canonical in H. cbn [Fexp cond_Zopp] in H. symmetry. exact H.
Qed.

Lemma v_ulp : ulp radix2 (SpecFloat.fexp prec emax) v = bpow radix2 e.
Proof. rewrite ulp_neq_0 by (apply Rgt_not_eq, v_pos). now rewrite v_cexp. Qed.

Lemma e_ge : L - 52 <= e.
Proof.
  pose proof v_cexp as H. unfold cexp in H. rewrite v_mag in H.
  unfold SpecFloat.fexp, SpecFloat.emin, prec, emax in H. lia.
Qed.

(** the neighbours of v in the format are at least v / 2^53 away *)
Lemma v_succ_gap : (v < bpow radix2 53 * (succ radix2 (SpecFloat.fexp prec emax) v - v))%R.
Proof.
  rewrite succ_eq_pos by (apply Rlt_le, v_pos). rewrite v_ulp.
  replace (v + bpow radix2 e - v)%R with (bpow radix2 e) by ring.
  rewrite <- bpow_plus. destruct v_binade as [_ H]. apply Rlt_le_trans with (1 := H).
  apply bpow_le. pose proof e_ge. lia.
Qed.

Lemma v_pred_gap : (v <= bpow radix2 53 * (v - pred radix2 (SpecFloat.fexp prec emax) v))%R.
Proof.
  rewrite pred_eq_pos by (apply Rlt_le, v_pos). unfold pred_pos. rewrite v_mag.
  replace (L + 1 - 1) with L by lia.
  destruct (Req_bool_spec v (bpow radix2 L)) as [Heq|Hne].
  - replace (v - (v - bpow radix2 (SpecFloat.fexp prec emax L)))%R
      with (bpow radix2 (SpecFloat.fexp prec emax L)) by ring.
    rewrite <- bpow_plus. rewrite Heq at 1. apply bpow_le.
    unfold SpecFloat.fexp, SpecFloat.emin, prec, emax. lia.
  - rewrite v_ulp. replace (v - (v - bpow radix2 e))%R with (bpow radix2 e) by ring.
    rewrite <- bpow_plus. destruct v_binade as [_ H]. apply Rlt_le, Rlt_le_trans with (1 := H).
    apply bpow_le. pose proof e_ge. lia.
Qed.

(** a real closer to v than v / 2^54 rounds to v *)
Lemma rnd_near r : (2 * bpow radix2 53 * Rabs (r - v) < v)%R -> rnd r = v.
Proof.
  intros Hr. pose proof (bpow_gt_0 radix2 53) as HP. set (P := bpow radix2 53) in *.
  pose proof v_succ_gap as Hs. pose proof v_pred_gap as Hp. fold P in Hs, Hp.
  set (sv := succ radix2 (SpecFloat.fexp prec emax) v) in *.
  set (pv := pred radix2 (SpecFloat.fexp prec emax) v) in *.
  assert (H1 : (2 * (r - v) < sv - v)%R).
  { apply Rmult_lt_reg_l with P; [exact HP|].
    apply Rle_lt_trans with (2 * P * Rabs (r - v))%R; [|lra].
    pose proof (Rle_abs (r - v)) as Ha. nra. }
  assert (H2 : (2 * (v - r) < v - pv)%R).
  { apply Rmult_lt_reg_l with P; [exact HP|].
    apply Rle_lt_trans with (2 * P * Rabs (r - v))%R; [|lra].
    pose proof (Rle_abs (- (r - v))) as Ha. rewrite Rabs_Ropp in Ha. nra. }
  apply Rle_antisym.
  - apply round_N_le_midp; [apply BinarySingleNaN.fexp_correct; exact Hprec|exact v_fmt|].
    fold sv. lra.
  - apply round_N_ge_midp; [apply BinarySingleNaN.fexp_correct; exact Hprec|exact v_fmt|].
    fold pv. lra.
Qed.

(** rounding is monotone: the reals that round to v form an interval *)
Lemma rnd_convex r1 r2 r3 : (r1 <= r2 <= r3)%R -> rnd r1 = v -> rnd r3 = v -> rnd r2 = v.
Proof.
  intros [H12 H23] H1 H3. unfold rnd in *.
  assert (Hv : Valid_exp (SpecFloat.fexp prec emax)) by (apply BinarySingleNaN.fexp_correct; exact Hprec).
  apply Rle_antisym.
  - rewrite <- H3. apply round_le; [exact Hv|apply valid_rnd_N|exact H23].
  - rewrite <- H1. apply round_le; [exact Hv|apply valid_rnd_N|exact H12].
Qed.

Lemma rnd_v : rnd v = v.
Proof.
  apply round_generic; [apply valid_rnd_N|exact v_fmt].
Qed.

(** ** reading a decimal back *)
Definition dec (d k : Z) : R := (IZR d * T k)%R.
Definition in_range (d k : Z) : Prop := 0 < d /\ k <= 310 /\ -330 <= k + Z.log2 d / 3 + 1.

Lemma same_value y : valid y -> finite y -> R_of y = v -> y = x.
Proof.
  intros Hy Fy Ry.
  assert (Sy : is_finite_strict_SF y = true).
  { destruct y as [s|s| |s my ey]; try discriminate Fy; [|reflexivity].
    exfalso. pose proof v_pos as Hp. rewrite <- Ry in Hp. unfold R_of, SF2R in Hp. lra. }
  pose proof (B2R_inj prec emax (SF2B y Hy) (SF2B x x_valid)) as H.
  rewrite !is_finite_strict_SF2B, !B2R_SF2B in H. specialize (H Sy eq_refl Ry).
  apply (f_equal (@B2SF prec emax)) in H. now rewrite !B2SF_SF2B in H.
Qed.

Lemma reads_iff d k : in_range d k ->
  (f64_of_decimal false d k = x <-> rnd (dec d k) = v).
Proof.
  intros (Hd & Hk1 & Hk2).
  destruct (of_decimal_correctly_rounded false d k Hd Hk1 Hk2) as [H1 H2].
  cbn [signed] in H1, H2. fold (T k) in H1, H2. fold (dec d k) in H1, H2. split.
  - intros Hr. destruct (fits_dec (dec d k)) as [Hf|Hf].
    + destruct (H1 Hf) as [HR _]. rewrite Hr in HR. symmetry. exact HR.
    + specialize (H2 Hf). rewrite Hr in H2. discriminate H2.
  - intros Hr. assert (Hf : fits (dec d k)).
    { unfold fits. rewrite Hr. rewrite Rabs_pos_eq by (apply Rlt_le, v_pos). exact v_lt_emax. }
    destruct (H1 Hf) as [HR HF]. apply same_value; [apply of_decimal_valid|exact HF|].
    now rewrite HR.
Qed.

(** ** the two candidates of level n: lo * 10^k <= v < (lo+1) * 10^k, k = E - n + 1 *)
Definition cnum (n : Z) : Z := if 0 <=? E - n + 1 then N else N * 10 ^ (- (E - n + 1)).
Definition cden (n : Z) : Z := if 0 <=? E - n + 1 then Dn * 10 ^ (E - n + 1) else Dn.
Definition clo (n : Z) : Z := cnum n / cden n.
Definition ck (n : Z) : Z := E - n + 1.

Lemma digits_candidate_eq n :
  digits_candidate x N Dn E n =
  match f64_eqb (f64_of_decimal false (clo n) (ck n)) x,
        f64_eqb (f64_of_decimal false (clo n + 1) (ck n)) x with
  | true, true => if 2 * (cnum n mod cden n) <? cden n then Some (clo n, ck n) else Some (clo n + 1, ck n)
  | true, false => Some (clo n, ck n)
  | false, true => Some (clo n + 1, ck n)
  | false, false => None
  end.
Proof.
  unfold digits_candidate, clo, cnum, cden, ck. destruct (0 <=? E - n + 1); reflexivity.
Qed.

Lemma T_cancel y k : (y * T (- k) * T k = y)%R.
Proof.
  rewrite Rmult_assoc, <- T_add. replace (- k + k) with 0 by lia. change (T 0) with 1%R. ring.
Qed.

Lemma cand_q n : 0 < cden n /\ (IZR (cnum n) / IZR (cden n) = v * T (- ck n))%R.
Proof.
  destruct ratio_facts as (HN & HD & Hv & _). unfold cnum, cden, ck. set (k := E - n + 1).
  assert (HDr : (0 < IZR Dn)%R) by now apply IZR_lt.
  destruct (Z.leb_spec 0 k) as [Hk|Hk].
  - pose proof (pow10_IZR_pos k Hk) as HP. split.
    + apply Z.mul_pos_pos; [assumption|]. apply Z.pow_pos_nonneg; lia.
    + rewrite mult_IZR, Hv. rewrite (T_neg_exp (- k)) by lia. rewrite Z.opp_involutive.
      field. split; lra.
  - pose proof (pow10_IZR_pos (- k) ltac:(lia)) as HP. split; [assumption|].
    rewrite mult_IZR, Hv. rewrite (T_nonneg_exp (- k)) by lia. field. lra.
Qed.

Lemma cand_floor n :
  (IZR (clo n) <= v * T (- ck n) < IZR (clo n) + 1)%R /\
  (IZR (cnum n mod cden n) = (v * T (- ck n) - IZR (clo n)) * IZR (cden n))%R /\ 0 < cden n.
Proof.
  destruct (cand_q n) as [Hd Hq]. rewrite <- Hq. unfold clo.
  pose proof (Z.div_mod (cnum n) (cden n) ltac:(lia)) as Hdm.
  pose proof (Z.mod_pos_bound (cnum n) (cden n) Hd) as [Hm1 Hm2].
  set (lo := cnum n / cden n) in *. set (r := cnum n mod cden n) in *.
  assert (HDr : (0 < IZR (cden n))%R) by now apply IZR_lt.
  apply (f_equal IZR) in Hdm. rewrite plus_IZR, mult_IZR in Hdm.
  apply IZR_le in Hm1. apply IZR_lt in Hm2.
  assert (Hx : (IZR (cnum n) / IZR (cden n) = IZR lo + IZR r / IZR (cden n))%R).
  { rewrite Hdm. field. lra. }
  assert (H0 : (0 <= IZR r / IZR (cden n) < 1)%R).
  { split.
    - apply Rmult_le_pos; [exact Hm1|]. apply Rlt_le, Rinv_0_lt_compat, HDr.
    - apply Rmult_lt_reg_r with (IZR (cden n)); [exact HDr|].
      unfold Rdiv. rewrite Rmult_assoc, Rinv_l by lra. lra. }
  split; [rewrite Hx; lra|]. split; [|exact Hd].
  rewrite Hx. field_simplify; lra.
Qed.

Lemma cand_bracket n : (dec (clo n) (ck n) <= v < dec (clo n + 1) (ck n))%R.
Proof.
  destruct (cand_floor n) as ([H1 H2] & _). pose proof (T_pos (ck n)) as HP.
  unfold dec. rewrite plus_IZR.
  split; rewrite <- (T_cancel v (ck n)); [apply Rmult_le_compat_r; lra|apply Rmult_lt_compat_r; lra].
Qed.

Lemma dec_step d k : (dec (d + 1) k = dec d k + T k)%R.
Proof. unfold dec. rewrite plus_IZR. ring. Qed.

(** lo has exactly n digits *)
Lemma cand_digits n : 1 <= n -> 10 ^ (n - 1) <= clo n < 10 ^ n.
Proof.
  intros Hn. destruct (cand_floor n) as ([H1 H2] & _). destruct e10_correct as [[E1 E2] _].
  pose proof (T_pos (- ck n)) as HP.
  assert (A : (T (n - 1) <= v * T (- ck n))%R).
  { replace (n - 1) with (E + - ck n) by (unfold ck; lia). rewrite T_add.
    apply Rmult_le_compat_r; lra. }
  assert (B : (v * T (- ck n) < T n)%R).
  { replace n with (E + 1 + - ck n) at 2 by (unfold ck; lia). rewrite T_add.
    apply Rmult_lt_compat_r; lra. }
  rewrite (T_nonneg_exp (n - 1)) in A by lia. rewrite (T_nonneg_exp n) in B by lia. split.
  - assert (10 ^ (n - 1) < clo n + 1); [|lia]. apply lt_IZR. rewrite plus_IZR. lra.
  - apply lt_IZR. lra.
Qed.

Lemma log2_pow10 d n : 1 <= n -> 10 ^ (n - 1) <= d -> n - 1 <= Z.log2 d / 3.
Proof.
  intros Hn Hd. apply Z.div_le_lower_bound; [lia|].
  assert (Hp : 0 < 10 ^ (n - 1)) by (apply Z.pow_pos_nonneg; lia).
  apply Z.log2_le_pow2; [lia|]. rewrite Z.pow_mul_r by lia. change (2 ^ 3) with 8.
  apply Z.le_trans with (2 := Hd). apply Z.pow_le_mono_l. lia.
Qed.

Lemma level_in_range n d : 1 <= n -> 10 ^ (n - 1) <= d -> in_range d (ck n).
Proof.
  intros Hn Hd. destruct e10_correct as [_ HE].
  assert (Hp : 0 < 10 ^ (n - 1)) by (apply Z.pow_pos_nonneg; lia).
  pose proof (log2_pow10 d n Hn Hd). unfold in_range, ck. lia.
Qed.

(** every decimal with at most n digits lies on the level-n grid or below 10^E *)
Lemma grid n d' k' : 1 <= n -> 0 < d' < 10 ^ n ->
  ((dec d' k' <= v)%R -> (dec d' k' <= dec (clo n) (ck n))%R) /\
  ((v <= dec d' k')%R -> v = dec (clo n) (ck n) \/ (dec (clo n + 1) (ck n) <= dec d' k')%R).
Proof.
  intros Hn [Hd1 Hd2]. destruct (cand_floor n) as ([F1 F2] & _).
  destruct (cand_bracket n) as [B1 B2]. destruct (cand_digits n Hn) as [D1 D2].
  destruct e10_correct as [[E1 E2] _]. pose proof (T_pos (ck n)) as HP.
  destruct (Z.le_gt_cases (ck n) k') as [Hk|Hk].
  - (* a multiple of 10^k *)
    set (j := d' * 10 ^ (k' - ck n)).
    assert (Hj : dec d' k' = dec j (ck n)).
    { unfold dec, j. rewrite mult_IZR, <- T_nonneg_exp by lia.
      rewrite Rmult_assoc, <- T_add. f_equal. f_equal. lia. }
    rewrite Hj. unfold dec in *. split.
    + intros Hle. apply Rmult_le_compat_r; [lra|]. apply IZR_le.
      assert (j < clo n + 1); [|lia]. apply lt_IZR. rewrite plus_IZR.
      apply Rmult_lt_reg_r with (T (ck n)); [exact HP|]. rewrite plus_IZR in B2. lra.
    + intros Hge. destruct (Z.le_gt_cases j (clo n)) as [Hjl|Hjl].
      * left. apply IZR_le in Hjl. apply Rle_antisym; [|exact B1].
        apply Rle_trans with (1 := Hge). apply Rmult_le_compat_r; lra.
      * right. apply Rmult_le_compat_r; [lra|]. apply IZR_le. lia.
  - (* below 10^E *)
    assert (Hlt : (dec d' k' < T E)%R).
    { unfold dec. apply Rlt_le_trans with (T n * T k')%R.
      - apply Rmult_lt_compat_r; [apply T_pos|]. rewrite T_nonneg_exp by lia. now apply IZR_lt.
      - rewrite <- T_add. apply T_le. unfold ck in Hk. lia. }
    assert (Hlo : (T E <= dec (clo n) (ck n))%R).
    { unfold dec. replace E with (n - 1 + ck n) at 1 by (unfold ck; lia). rewrite T_add.
      apply Rmult_le_compat_r; [lra|]. rewrite T_nonneg_exp by lia. now apply IZR_le. }
    split; intros H; [lra|exfalso; lra].
Qed.

(** ** which decimals read back as x *)
Lemma eqb_refl_x : f64_eqb x x = true.
Proof.
  unfold f64_eqb, SFeqb, x. cbn [SFcompare]. rewrite Z.compare_refl.
  change (Pos.compare_cont Eq m m) with (Pos.compare m m). now rewrite Pos.compare_refl.
Qed.

Lemma eqb_iff y : f64_eqb y x = true <-> y = x.
Proof. split; [apply eqb_finite_eq|intros ->; apply eqb_refl_x]. Qed.

Lemma reads_in_range d k : f64_of_decimal false d k = x -> in_range d k.
Proof.
  unfold f64_of_decimal, in_range, x.
  destruct (Z.leb_spec d 0); [discriminate|].
  destruct (Z.ltb_spec 310 k); [discriminate|].
  destruct (Z.ltb_spec (k + Z.log2 d / 3 + 1) (-330)); [discriminate|]. intros _. lia.
Qed.

Lemma level_reads n d' k' : 1 <= n -> 0 < d' < 10 ^ n -> f64_of_decimal false d' k' = x ->
  ((dec d' k' <= v)%R ->
     (dec d' k' <= dec (clo n) (ck n))%R /\ rnd (dec (clo n) (ck n)) = v) /\
  ((v <= dec d' k')%R ->
     (v = dec (clo n) (ck n) /\ rnd (dec (clo n) (ck n)) = v) \/
     ((dec (clo n + 1) (ck n) <= dec d' k')%R /\ rnd (dec (clo n + 1) (ck n)) = v)).
Proof.
  intros Hn Hd Hr. pose proof (reads_in_range _ _ Hr) as Hi.
  apply (reads_iff _ _ Hi) in Hr. destruct (grid n d' k' Hn Hd) as [G1 G2].
  destruct (cand_bracket n) as [B1 B2]. split.
  - intros Hle. specialize (G1 Hle). split; [exact G1|].
    apply (rnd_convex (dec d' k') _ v); [lra|exact Hr|exact rnd_v].
  - intros Hge. destruct (G2 Hge) as [Heq|Hbb].
    + left. split; [exact Heq|]. rewrite <- Heq. exact rnd_v.
    + right. split; [exact Hbb|].
      apply (rnd_convex v _ (dec d' k')); [lra|exact rnd_v|exact Hr].
Qed.

Lemma cand_reads_iff n d : 1 <= n -> 10 ^ (n - 1) <= d ->
  (f64_eqb (f64_of_decimal false d (ck n)) x = true <-> rnd (dec d (ck n)) = v).
Proof.
  intros Hn Hd. rewrite eqb_iff. apply reads_iff. now apply level_in_range.
Qed.

(** the tie-break of [digits_candidate] picks a closest one *)
Lemma tie n :
  (2 * (cnum n mod cden n) <? cden n = true ->
     (v - dec (clo n) (ck n) <= dec (clo n + 1) (ck n) - v)%R) /\
  (2 * (cnum n mod cden n) <? cden n = false ->
     (dec (clo n + 1) (ck n) - v <= v - dec (clo n) (ck n))%R).
Proof.
  destruct (cand_floor n) as ([F1 F2] & Fr & Hden). pose proof (T_pos (ck n)) as HP.
  assert (HDr : (0 < IZR (cden n))%R) by now apply IZR_lt.
  rewrite dec_step. unfold dec. set (q := (v * T (- ck n))%R) in *.
  assert (Hv : v = (q * T (ck n))%R) by (unfold q; now rewrite T_cancel).
  set (lo := IZR (clo n)) in *. set (r := cnum n mod cden n) in *.
  assert (Hq : (IZR r / IZR (cden n) = q - lo)%R) by (rewrite Fr; field; lra).
  split; intros H.
  - apply Z.ltb_lt in H. apply IZR_lt in H. rewrite mult_IZR in H.
    assert (Hh : (2 * (q - lo) < 1)%R).
    { rewrite <- Hq. apply Rmult_lt_reg_r with (IZR (cden n)); [exact HDr|].
      unfold Rdiv. rewrite !Rmult_assoc, Rinv_l by lra. lra. }
    rewrite Hv. replace (q * T (ck n) - lo * T (ck n))%R with ((q - lo) * T (ck n))%R by ring.
    replace (lo * T (ck n) + T (ck n) - q * T (ck n))%R with ((lo + 1 - q) * T (ck n))%R by ring.
    apply Rmult_le_compat_r; lra.
  - apply Z.ltb_ge in H. apply IZR_le in H. rewrite mult_IZR in H.
    assert (Hh : (1 <= 2 * (q - lo))%R).
    { rewrite <- Hq. apply Rmult_le_reg_r with (IZR (cden n)); [exact HDr|].
      unfold Rdiv. rewrite !Rmult_assoc, Rinv_l by lra. lra. }
    rewrite Hv. replace (q * T (ck n) - lo * T (ck n))%R with ((q - lo) * T (ck n))%R by ring.
    replace (lo * T (ck n) + T (ck n) - q * T (ck n))%R with ((lo + 1 - q) * T (ck n))%R by ring.
    apply Rmult_le_compat_r; lra.
Qed.

(** a level that answers: the answer is [lo] or [lo+1], reads back as x, and no decimal with at
    most n digits that reads back as x is closer to x *)
Lemma cand_some n d k : 1 <= n -> digits_candidate x N Dn E n = Some (d, k) ->
  k = ck n /\ 10 ^ (n - 1) <= d <= 10 ^ n /\
  (forall d' k', 0 < d' < 10 ^ n -> f64_of_decimal false d' k' = x ->
     (Rabs (dec d k - v) <= Rabs (dec d' k' - v))%R).
Proof.
  intros Hn. rewrite digits_candidate_eq. destruct (cand_digits n Hn) as [D1 D2].
  destruct (cand_bracket n) as [B1 B2].
  destruct (tie n) as [T1 T2].
  pose proof (cand_reads_iff n (clo n) Hn D1) as Rlo.
  pose proof (cand_reads_iff n (clo n + 1) Hn ltac:(lia)) as Rhi.
  set (a := dec (clo n) (ck n)) in *. set (b := dec (clo n + 1) (ck n)) in *.
  assert (Ha : Rabs (a - v) = (v - a)%R) by (rewrite Rabs_minus_sym; apply Rabs_pos_eq; lra).
  assert (Hb' : Rabs (b - v) = (b - v)%R) by (apply Rabs_pos_eq; lra).
  destruct (f64_eqb (f64_of_decimal false (clo n) (ck n)) x) eqn:Elo;
    destruct (f64_eqb (f64_of_decimal false (clo n + 1) (ck n)) x) eqn:Ehi.
  - (* both read back *)
    destruct (2 * (cnum n mod cden n) <? cden n) eqn:Et; intros [= <- <-];
      (split; [reflexivity|split; [lia|]]); intros d' k' Hd' Hr';
      destruct (level_reads n d' k' Hn Hd' Hr') as [L1 L2]; fold a b in L1, L2; fold a b.
    + specialize (T1 eq_refl). rewrite Ha.
      destruct (Rle_or_lt (dec d' k') v) as [Hc|Hc].
      * destruct (L1 Hc) as [Hle _]. rewrite Rabs_minus_sym, Rabs_pos_eq by lra. lra.
      * destruct (L2 (Rlt_le _ _ Hc)) as [[Heq _]|[Hle _]]; rewrite Rabs_pos_eq by lra; lra.
    + specialize (T2 eq_refl). rewrite Hb'.
      destruct (Rle_or_lt (dec d' k') v) as [Hc|Hc].
      * destruct (L1 Hc) as [Hle _]. rewrite Rabs_minus_sym, Rabs_pos_eq by lra. lra.
      * destruct (L2 (Rlt_le _ _ Hc)) as [[Heq _]|[Hle _]]; rewrite Rabs_pos_eq by lra; lra.
  - (* only lo *)
    intros [= <- <-]. split; [reflexivity|split; [lia|]]. intros d' k' Hd' Hr'.
    destruct (level_reads n d' k' Hn Hd' Hr') as [L1 L2]; fold a b in L1, L2. fold a. rewrite Ha.
    destruct (Rle_or_lt (dec d' k') v) as [Hc|Hc].
    + destruct (L1 Hc) as [Hle _]. rewrite Rabs_minus_sym, Rabs_pos_eq by lra. lra.
    + destruct (L2 (Rlt_le _ _ Hc)) as [[Heq _]|[_ Hrb]].
      * rewrite Rabs_pos_eq by lra. lra.
      * apply Rhi in Hrb. discriminate Hrb.
  - (* only lo + 1 *)
    intros [= <- <-]. split; [reflexivity|split; [lia|]]. intros d' k' Hd' Hr'.
    destruct (level_reads n d' k' Hn Hd' Hr') as [L1 L2]; fold a b in L1, L2. fold b. rewrite Hb'.
    destruct (Rle_or_lt (dec d' k') v) as [Hc|Hc].
    + destruct (L1 Hc) as [_ Hra]. apply Rlo in Hra. discriminate Hra.
    + destruct (L2 (Rlt_le _ _ Hc)) as [[_ Hra]|[Hle _]].
      * apply Rlo in Hra. discriminate Hra.
      * rewrite Rabs_pos_eq by lra. lra.
  - discriminate.
Qed.

(** a level that does not answer: no decimal with at most n digits reads back as x *)
Lemma cand_none n : 1 <= n -> digits_candidate x N Dn E n = None ->
  forall d' k', 0 < d' < 10 ^ n -> f64_of_decimal false d' k' <> x.
Proof.
  intros Hn. rewrite digits_candidate_eq. destruct (cand_digits n Hn) as [D1 D2].
  pose proof (cand_reads_iff n (clo n) Hn D1) as Rlo.
  pose proof (cand_reads_iff n (clo n + 1) Hn ltac:(lia)) as Rhi.
  destruct (f64_eqb (f64_of_decimal false (clo n) (ck n)) x) eqn:Elo;
    destruct (f64_eqb (f64_of_decimal false (clo n + 1) (ck n)) x) eqn:Ehi;
    try discriminate; [destruct (_ <? _); discriminate|].
  intros _ d' k' Hd' Hr'. destruct (level_reads n d' k' Hn Hd' Hr') as [L1 L2].
  destruct (Rle_or_lt (dec d' k') v) as [Hc|Hc].
  - destruct (L1 Hc) as [_ Hra]. apply Rlo in Hra. discriminate Hra.
  - destruct (L2 (Rlt_le _ _ Hc)) as [[_ Hra]|[_ Hrb]].
    + apply Rlo in Hra. discriminate Hra.
    + apply Rhi in Hrb. discriminate Hrb.
Qed.

(** level 17 always answers: 10^16 > 2^53 *)
Lemma pow53_lt : (bpow radix2 53 < T 16)%R.
Proof.
  unfold T. rewrite <- !IZR_Zpower by lia. apply IZR_lt. apply Z.ltb_lt. vm_compute. reflexivity.
Qed.

Lemma cand_17 : digits_candidate x N Dn E 17 <> None.
Proof.
  rewrite digits_candidate_eq. destruct (cand_digits 17 ltac:(lia)) as [D1 D2].
  destruct (cand_bracket 17) as [B1 B2].
  pose proof (cand_reads_iff 17 (clo 17) ltac:(lia) D1) as Rlo.
  pose proof (cand_reads_iff 17 (clo 17 + 1) ltac:(lia) ltac:(lia)) as Rhi.
  pose proof (dec_step (clo 17) (ck 17)) as Hstep.
  set (a := dec (clo 17) (ck 17)) in *. set (b := dec (clo 17 + 1) (ck 17)) in *.
  pose proof pow53_lt as HP. pose proof (bpow_gt_0 radix2 53) as HP0. pose proof (T_pos (ck 17)) as HT.
  (* 2^53 * 10^k < 10^16 * 10^k <= a <= v *)
  assert (Hgap : (bpow radix2 53 * T (ck 17) < v)%R).
  { apply Rlt_le_trans with (T 16 * T (ck 17))%R; [apply Rmult_lt_compat_r; lra|].
    apply Rle_trans with (2 := B1). unfold a, dec. apply Rmult_le_compat_r; [lra|].
    rewrite T_nonneg_exp by lia. apply IZR_le. exact D1. }
  assert (Hor : rnd a = v \/ rnd b = v).
  { destruct (Rle_or_lt (v - a) (b - v)) as [Hc|Hc].
    - left. apply rnd_near. rewrite Rabs_minus_sym, Rabs_pos_eq by lra.
      apply Rle_lt_trans with (2 := Hgap). nra.
    - right. apply rnd_near. rewrite Rabs_pos_eq by lra.
      apply Rle_lt_trans with (2 := Hgap). nra. }
  destruct (f64_eqb (f64_of_decimal false (clo 17) (ck 17)) x) eqn:Elo;
    destruct (f64_eqb (f64_of_decimal false (clo 17 + 1) (ck 17)) x) eqn:Ehi;
    try (destruct (_ <? _)); try discriminate.
  exfalso. destruct Hor as [H|H]; [apply Rlo in H|apply Rhi in H]; discriminate H.
Qed.

(** ** the two results for x *)
Lemma shortest_total_x : shortest_search 17 x N Dn E 1 <> None.
Proof.
  intros H. apply cand_17. apply (search_none 17 _ _ _ _ _ H). lia.
Qed.

Lemma shortest_minimal_x d k : shortest_search 17 x N Dn E 1 = Some (d, k) ->
  exists n, 1 <= n <= 17 /\ k = E - n + 1 /\ 10 ^ (n - 1) <= d <= 10 ^ n /\
    (forall d' k', d' < 10 ^ (n - 1) -> f64_of_decimal false d' k' <> x) /\
    (forall d' k', 0 < d' < 10 ^ n -> f64_of_decimal false d' k' = x ->
       (Rabs (dec d k - v) <= Rabs (dec d' k' - v))%R).
Proof.
  intros H. destruct (search_some 17 _ _ _ _ _ _ _ H) as (n & Hn & Hs & Hnone).
  exists n. split; [lia|]. destruct (cand_some n d k ltac:(lia) Hs) as (Hk & Hd & Hclose).
  split; [exact Hk|]. split; [exact Hd|]. split; [|exact Hclose].
  intros d' k' Hd' Hr'. destruct (reads_in_range _ _ Hr') as [Hpos _].
  destruct (Z.eq_dec n 1) as [->|Hn1].
  - change (10 ^ (1 - 1)) with 1 in Hd'. lia.
  - assert (Hnone' : digits_candidate x N Dn E (n - 1) = None) by (apply Hnone; lia).
    exact (cand_none (n - 1) ltac:(lia) Hnone' d' k' ltac:(lia) Hr').
Qed.

End Double.

(** ** exported statements *)

(** [e10] is the decimal exponent of a valid finite double: 10^E <= |x| < 10^(E+1) *)
Theorem e10_decimal_exponent m e : bounded prec emax m e = true ->
  let E := e10 (fst (f64_ratio_of m e)) (snd (f64_ratio_of m e)) in
  (bpow ten E <= R_of (S754_finite false m e) < bpow ten (E + 1))%R /\ -324 <= E <= 308.
Proof. intros Hb. exact (e10_correct m e Hb). Qed.

(** the same in the integer arithmetic of the search: it stops (within its 8 steps) at the E with
    10^E <= N/Dn and not 10^(E+1) <= N/Dn *)
Theorem e10_search_suffices m e : bounded prec emax m e = true ->
  let N := fst (f64_ratio_of m e) in let Dn := snd (f64_ratio_of m e) in let E := e10 N Dn in
  pow10_le E N Dn = true /\ pow10_le (E + 1) N Dn = false.
Proof. intros Hb. exact (e10_correct_Z m e Hb). Qed.

(** totality: 17 significant digits always suffice *)
Theorem shortest_total s m e : bounded prec emax m e = true ->
  f64_shortest (S754_finite s m e) <> None.
Proof.
  intros Hb. unfold f64_shortest. rewrite (surjective_pairing (f64_ratio_of m e)).
  exact (shortest_total_x m e Hb).
Qed.

(** minimality: the answer comes from the first level n (n digits, 10^(n-1) <= d <= 10^n) such
    that some decimal with at most n digits reads back as |x|: no decimal with fewer digits does,
    and no decimal with at most n digits that reads back as |x| is closer to |x| *)
Theorem shortest_minimal s m e d k : bounded prec emax m e = true ->
  f64_shortest (S754_finite s m e) = Some (d, k) ->
  exists n, 1 <= n <= 17 /\
    k = e10 (fst (f64_ratio_of m e)) (snd (f64_ratio_of m e)) - n + 1 /\
    10 ^ (n - 1) <= d <= 10 ^ n /\
    (forall d' k', d' < 10 ^ (n - 1) -> f64_of_decimal false d' k' <> S754_finite false m e) /\
    (forall d' k', 0 < d' < 10 ^ n -> f64_of_decimal false d' k' = S754_finite false m e ->
       (Rabs (IZR d * bpow ten k - R_of (S754_finite false m e)) <=
        Rabs (IZR d' * bpow ten k' - R_of (S754_finite false m e)))%R).
Proof.
  intros Hb. unfold f64_shortest. rewrite (surjective_pairing (f64_ratio_of m e)).
  intros H. exact (shortest_minimal_x m e Hb d k H).
Qed.

(** in terms of digit counts: whenever a decimal d' * 10^k' with d' < 10^n' reads back as |x|,
    the answer d is below 10^n' or is 10^n' itself (one significant digit) *)
Corollary shortest_fewest_digits s m e d k : bounded prec emax m e = true ->
  f64_shortest (S754_finite s m e) = Some (d, k) ->
  forall d' k' n', 0 <= n' -> d' < 10 ^ n' ->
    f64_of_decimal false d' k' = S754_finite false m e -> 0 < d <= 10 ^ n'.
Proof.
  intros Hb H d' k' n' Hn' Hd' Hr.
  destruct (shortest_minimal s m e d k Hb H) as (n & Hn & _ & Hd & Hfew & _).
  assert (Hp : 0 < 10 ^ (n - 1)) by (apply Z.pow_pos_nonneg; lia).
  split; [lia|]. destruct (Z.le_gt_cases n n') as [Hle|Hgt].
  - apply Z.le_trans with (10 ^ n); [lia|]. apply Z.pow_le_mono_r; lia.
  - exfalso. apply (Hfew d' k'); [|exact Hr].
    apply Z.lt_le_trans with (1 := Hd'). apply Z.pow_le_mono_r; lia.
Qed.

(** the hypotheses are satisfiable: 0.1 (one digit), -0.30000000000000004 (17 digits),
    1e23 (the answer is lo + 1 = 10^n: one significant digit), the smallest subnormal *)
Example shortest_examples :
  (bounded prec emax 7205759403792794 (-56) = true /\
   f64_shortest (S754_finite false 7205759403792794 (-56)) = Some (1, -1)) /\
  (bounded prec emax 5404319552844596 (-54) = true /\
   f64_shortest (S754_finite true 5404319552844596 (-54)) = Some (30000000000000004, -17)) /\
  (bounded prec emax 5960464477539062 24 = true /\
   f64_shortest (S754_finite false 5960464477539062 24) = Some (10, 22)) /\
  (bounded prec emax 1 (-1074) = true /\
   f64_shortest (S754_finite false 1 (-1074)) = Some (5, -324)).
Proof. repeat split; vm_compute; reflexivity. Qed.
