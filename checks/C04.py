"""C04 -- serialization round-trips: print then parse gives an equal document, printing is a
fixpoint after one round.

Proof: Properties/C04.v: `print_parse` (the full statement, for every accepted input) over the model
Display . Info . ParseActions . G_xml = `print_parse_partial_printable` (print then parse, for
every `printable` document; ladder of `print_parse_partial_<rung>` lemmas) composed with
`accepted_is_printable` (inversion of every production + preservation by XmlDocument::new).
Tie: `parse` domain -- the extracted model (Model.Display.pipeline) and the real crates print the
same observation line (infoset dump, compact and pretty serialisation, re-parse verdicts) for
every generated document.
Search: the round-trip oracle evaluated on the IMPLEMENTATION's own line for every accepted
document of the streams: re-parse accepted, nothing left over, `==`, second print identical."""
import json, os
from . import lib, pipecorr

def classify(doc_text, what):
    """known findings of C04 (none at present: D11 is repaired by 92063b3)"""
    return None

def gen_cases(run):
    thorough = run.tier == 'thorough'
    rng = run.rng
    cases = [(pipecorr.cps(t), 'corpus', []) for t in pipecorr.CORPUS]
    cases += list(pipecorr.stream_structured(rng, 60000 if thorough else 6000))
    cases += list(pipecorr.stream_grammar(rng, 30000 if thorough else 3000))
    cases += list(pipecorr.stream_mutations(rng, 30000 if thorough else 2500))
    return cases

def check(run):
    run.trusted = ['Coq 8.16.1 kernel + VM', 'translators T1 (xmlchar), T2 (grammar): validated by the chars / prod correspondences',
                   'Model/Peg.v combinator semantics, Model/ParseActions.v, Model/Info.v, Model/Display.v: tied by the `parse` correspondence below',
                   'harness/src/domains/parse.rs dump through public accessors; ocaml/domains/pipeline/parse.ml formatting',
                   'extraction (ExtrOcamlBasic only)']
    proved, _ = lib.proof_step(run, 'C04', ['T1', 'T2'])
    okr, mok, sok = lib.build_binaries(run, model_areas=['pipeline', 'peg'])
    if okr and mok.get('pipeline'):
        cases = gen_cases(run)
        out = pipecorr.correspond(run, cases)
        accepted = 0
        for c, kind, feats, impl, model in out:
            run.evaluations += 1
            o = pipecorr.outcome(impl)
            run.count('kind:' + kind)
            run.count('outcome:' + o)
            if o in ('panic', 'crash', 'missing', 'unreadable'):
                # totality is C03's business; here it only means the case could not be evaluated
                run.count('not-evaluated')
                continue
            if o != 'built':
                continue
            accepted += 1
            for f in feats:
                run.count('feature:' + f)
            if len(set(f.split(':')[0] for f in feats)) >= 3 or kind != 'structured':
                run.nontrivial.add(tuple(c))
            if pipecorr.rest_len(impl) == 0:
                run.count('accepted-completely')
            bad = pipecorr.roundtrip(impl)
            pr = pipecorr.pretty_result(impl)
            run.count('pretty:' + str(pr))
            if bad:
                text = pipecorr.text_of(c)
                fid = classify(text, bad)
                if fid:
                    run.known_hits[fid[0]] = (fid[1], run.known_hits.get(fid[0], (None, 0))[1] + 1)
                else:
                    run.failing_inputs.append({'property': 'C04', 'class': bad, 'what': bad, 'document': text, 'code_points': c,
                                               'serialisation': pipecorr.serialisation(impl), 'implementation': impl, 'kind': kind})
            if len(run.samples) < 10 and kind in ('structured', 'sentence') and len(c) < 160:
                run.sample({'document': pipecorr.text_of(c), 'kind': kind, 'serialisation': pipecorr.serialisation(impl),
                            'round_trip': 'ok' if not bad else bad})
        run.extra['accepted_documents'] = accepted
        if accepted < 100:
            run.tie_breaks.append('generator degenerate: only %d accepted documents' % accepted)
    return run.finish(level='proof',
        rule='one case = one document; evaluated = documents run on model and implementation; distinct non-trivial = distinct accepted documents '
             'that use >= 3 feature classes (structured stream) or come from the grammar / mutation streams',
        assumptions=['the model of the nom combinators (Model/Peg.v) and the hand-written models are tied to the crates by correspondence, not proved',
                     'doc_eq is Leibniz equality of the infoset model; the harness additionally requires the real == to answer true'])

def replay(path):
    d = json.load(open(path))
    print(json.dumps({k: v for k, v in d.items() if k not in ('code_points', 'implementation')}, indent=1, ensure_ascii=False))
    return pipecorr.replay_doc(d)
