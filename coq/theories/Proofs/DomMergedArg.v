(** * Insertions whose new child is a merged text node (Model/DomMergedArg.v): the world is unchanged, the call never
    panics and never succeeds, the exception class follows the order of checks of the code; histories that contain such
    calls ([yop], [run_y]) visit the worlds of the history without them, so the invariants of the histories of
    Model/DomReadOnly.v lift (C12 corollaries).  Example world: two documents with runs of text / CDATA / references. *)
From Coq Require Import List NArith Bool.
From XmlRs Require Import Base.CPred Model.Store Model.StoreCheck Model.DomOps Model.DomNormalize Model.DomReadOnly
  Model.DomMergedArg Proofs.DomTree Proofs.DomOpsInv Proofs.DomNav Proofs.DomCheck Proofs.DomC12 Proofs.DomReadOnly
  Proofs.DomReadOnlyC13.
Import ListNotations.
Open Scope N_scope.

(** the call can be written *)
Definition mx_applicable (w : world) (o : mx_op) : bool :=
  match o with
  | MxOp call r c k ref =>
    match kind_in w r with
    | Some kd =>
      node_mut kd && mx_shape call ref
      && match merged_entry w c k with Some _ => true | None => false end
      && match mx_ref_wrong w r ref with Some _ => true | None => false end
    | None => false
    end
  end.

(** ** one call *)
Theorem step_mx_world : forall w o, fst (step_mx w o) = w.
Proof.
  intros w [call r c k ref]. cbn [step_mx].
  destruct (kind_in w r) as [kd|]; [|reflexivity].
  destruct (node_mut kd && mx_shape call ref); [|reflexivity].
  destruct (merged_entry w c k) as [i|]; [|reflexivity].
  destruct (mx_ref_wrong w r ref) as [rw|]; [|reflexivity].
  destruct (container kd); [|reflexivity].
  destruct (negb (fst c =? fst r)); [reflexivity|].
  destruct rw; reflexivity.
Qed.

(** the outcome, by receiver kind and document identity *)
Theorem step_mx_outcome : forall w call r c k ref,
  snd (step_mx w (MxOp call r c k ref)) =
  if mx_applicable w (MxOp call r c k ref) then
    match kind_in w r with
    | Some kd =>
      if container kd then
        if negb (fst c =? fst r) then MFailed (MExc (XExc WrongDocumentErr))
        else match mx_ref_wrong w r ref with
             | Some true => MFailed (MExc (XExc WrongDocumentErr))
             | _ => MFailed MNotSupportErr
             end
      else MFailed (MExc (XExc HierarchyRequestErr))
    | None => MNotApplicable
    end
  else MNotApplicable.
Proof.
  intros w call r c k ref. cbn [step_mx mx_applicable].
  destruct (kind_in w r) as [kd|]; [|reflexivity].
  destruct (node_mut kd && mx_shape call ref); [|reflexivity].
  destruct (merged_entry w c k) as [i|]; [|reflexivity].
  destruct (mx_ref_wrong w r ref) as [rw|]; [|reflexivity].
  cbn [andb].
  destruct (container kd); [|reflexivity].
  destruct (negb (fst c =? fst r)); [reflexivity|].
  destruct rw; reflexivity.
Qed.

Theorem step_mx_cases : forall w o,
  snd (step_mx w o) = MNotApplicable
  \/ snd (step_mx w o) = MFailed (MExc (XExc HierarchyRequestErr))
  \/ snd (step_mx w o) = MFailed (MExc (XExc WrongDocumentErr))
  \/ snd (step_mx w o) = MFailed MNotSupportErr.
Proof.
  intros w [call r c k ref]. cbn [step_mx].
  destruct (kind_in w r) as [kd|]; [|left; reflexivity].
  destruct (node_mut kd && mx_shape call ref); [|left; reflexivity].
  destruct (merged_entry w c k) as [i|]; [|left; reflexivity].
  destruct (mx_ref_wrong w r ref) as [rw|]; [|left; reflexivity].
  destruct (container kd); [|right; left; reflexivity].
  destruct (negb (fst c =? fst r)); [right; right; left; reflexivity|].
  destruct rw; [right; right; left; reflexivity | right; right; right; reflexivity].
Qed.

Theorem step_mx_no_panic : forall w o, snd (step_mx w o) <> MPanicked.
Proof. intros w o. destruct (step_mx_cases w o) as [E|[E|[E|E]]]; rewrite E; discriminate. Qed.

(** a merged text node is never inserted *)
Theorem step_mx_never_ok : forall w o r, snd (step_mx w o) <> MOk r.
Proof. intros w o r. destruct (step_mx_cases w o) as [E|[E|[E|E]]]; rewrite E; discriminate. Qed.

(** a call that can be written is refused *)
Theorem step_mx_applicable_refused : forall w o, mx_applicable w o = true -> exists e, snd (step_mx w o) = MFailed e.
Proof.
  intros w [call r c k ref] A. rewrite step_mx_outcome, A.
  unfold mx_applicable in A. destruct (kind_in w r) as [kd|]; [|discriminate].
  destruct (container kd); [|eexists; reflexivity].
  destruct (negb (fst c =? fst r)); [eexists; reflexivity|].
  destruct (mx_ref_wrong w r ref) as [[|]|]; eexists; reflexivity.
Qed.

(** NOT_SUPPORTED_ERR is the answer exactly for a receiver that can have children and arguments of its document *)
Theorem step_mx_not_supported : forall w call r c k ref,
  snd (step_mx w (MxOp call r c k ref)) = MFailed MNotSupportErr <->
  mx_applicable w (MxOp call r c k ref) = true
  /\ (exists kd, kind_in w r = Some kd /\ container kd = true)
  /\ fst c = fst r
  /\ mx_ref_wrong w r ref = Some false.
Proof.
  intros w call r c k ref. rewrite step_mx_outcome.
  unfold mx_applicable.
  destruct (kind_in w r) as [kd|]; [|split; [discriminate | intros [A _]; discriminate]].
  destruct (node_mut kd && mx_shape call ref); cbn [andb];
    [|split; [discriminate | intros [A _]; discriminate]].
  destruct (merged_entry w c k) as [i|]; cbn [andb];
    [|split; [discriminate | intros [A _]; discriminate]].
  destruct (mx_ref_wrong w r ref) as [rw|];
    [|split; [discriminate | intros [A _]; discriminate]].
  destruct (container kd) eqn:C.
  - destruct (fst c =? fst r) eqn:E; cbn [negb].
    + apply N.eqb_eq in E. destruct rw.
      * split; [discriminate | intros [_ [_ [_ F]]]; discriminate].
      * split; [intros _|reflexivity]. split; [reflexivity|]. split; [exists kd; split; [reflexivity | exact C]|].
        split; [exact E | reflexivity].
    + apply N.eqb_neq in E. split; [discriminate | intros [_ [_ [F _]]]; contradiction].
  - split; [discriminate | intros [_ [[kd' [K C']] _]]]. injection K as <-. rewrite C in C'. discriminate.
Qed.

(** ** histories *)
Lemma run_y_cons w o t : run_y w (o :: t) = run_y (fst (step_y w o)) t.
Proof. reflexivity. Qed.

Lemma run_y_app a b w : run_y w (a ++ b) = run_y (run_y w a) b.
Proof. unfold run_y. apply fold_left_app. Qed.

Lemma step_y_mx_world w o : fst (step_y w (YMx o)) = w.
Proof. cbn [step_y]. apply step_mx_world. Qed.

Lemma step_y_x_world w o : fst (step_y w (YX o)) = fst (step_x w o).
Proof. reflexivity. Qed.

(** a history with insertions of merged text nodes ends in the world of the history without them *)
Theorem run_y_erase : forall ops w, run_y w ops = run_x w (xops_of ops).
Proof.
  induction ops as [|[o|o] t IH]; intros w.
  - reflexivity.
  - rewrite run_y_cons, step_y_x_world. cbn [xops_of]. rewrite run_x_cons. apply IH.
  - rewrite run_y_cons, step_y_mx_world. cbn [xops_of]. apply IH.
Qed.

Theorem run_y_invariant (P : world -> Prop) :
  (forall xops w, P w -> P (run_x w xops)) -> forall ops w, P w -> P (run_y w ops).
Proof. intros H ops w Hw. rewrite run_y_erase. apply H. exact Hw. Qed.

(** along a history: the call leaves the reached world as it is, whatever it answers (failure atomicity), and
    does not panic *)
Theorem merged_argument_atomic_reachable : forall init ys o,
  fst (step_y (run_y init ys) (YMx o)) = run_y init ys.
Proof. intros init ys o. apply step_y_mx_world. Qed.

Theorem merged_argument_no_panic_reachable : forall init ys o,
  snd (step_y (run_y init ys) (YMx o)) <> MPanicked.
Proof. intros init ys o. cbn [step_y]. apply step_mx_no_panic. Qed.

(** ** C12: the tree invariant and the navigation clauses along histories with insertions of merged text nodes *)
Theorem tree_inv_reachable_with_merged_argument : forall init ys, WInv init -> WInv (run_y init ys).
Proof. intros init ys. apply (run_y_invariant WInv). intros xops w. apply tree_inv_reachable_with_readonly. Qed.

Theorem navigation_agrees_reachable_with_merged_argument :
  forall init ys k s, WInv init -> doc_at (run_y init ys) k = Some s -> NavAgree s.
Proof.
  intros init ys k s Hi D. rewrite run_y_erase in D.
  exact (navigation_agrees_reachable_with_readonly init (xops_of ys) k s Hi D).
Qed.

(** ** the example: document 0 = [<r k="v">a<![CDATA[b]]><i/>c<!--m--></r>] (ids: 1 document, 2 r, 3 attribute k, 4 its
    value text, 5 text a, 6 CDATA b, 7 i, 8 text c, 9 comment), document 1 = [<q>u</q>] (1 document, 2 q, 3 text u).
    Merged child list of r: [Merged 5; Plain 7; Merged 8; Plain 9]. *)
Definition mx_items0 : list (id * item) :=
  [ (1, mkItem KDoc None [] [] false None [2] [] []);
    (2, mkItem KEl None [114] [] false (Some 1) [5; 6; 7; 8; 9] [3] []);
    (3, mkItem KAt None [107] [] false (Some 2) [4] [] []);
    (4, mkItem KTx None [] [118] false (Some 3) [] [] []);
    (5, mkItem KTx None [] [97] false (Some 2) [] [] []);
    (6, mkItem KCd None [] [98] false (Some 2) [] [] []);
    (7, mkItem KEl None [105] [] false (Some 2) [] [] []);
    (8, mkItem KTx None [] [99] false (Some 2) [] [] []);
    (9, mkItem KCm None [] [109] false (Some 2) [] [] []) ].
Definition mx_items1 : list (id * item) :=
  [ (1, mkItem KDoc None [] [] false None [2] [] []);
    (2, mkItem KEl None [113] [] false (Some 1) [3] [] []);
    (3, mkItem KTx None [] [117] false (Some 2) [] [] []) ].

Definition mx_store0 : store := store_of_list mx_items0 10 [] 1.
Definition mx_store1 : store := store_of_list mx_items1 4 [] 1.
Definition mx_world : world := mkWorld [mx_store0; mx_store1].

(** append to the element itself / to the empty element / to the attribute / to the document: not supported;
    to a comment: hierarchy; the merged text of the other document: wrong document; insert_before with a reference
    child of the other document and with the document node: wrong document; with a child and with a merged text as
    reference: not supported; entry 1 is the element i, entry 9 does not exist: no call; then a real edit (remove
    the comment), and the run that now ends the list is still refused as the new child of a replace_child *)
Definition mx_ops : list yop :=
  [ YMx (MxOp MxAppend (0, 2) (0, 2) 0 MxNoRef);
    YMx (MxOp MxAppend (0, 7) (0, 2) 2 MxNoRef);
    YMx (MxOp MxAppend (0, 3) (0, 2) 0 MxNoRef);
    YMx (MxOp MxAppend (0, 1) (0, 2) 0 MxNoRef);
    YMx (MxOp MxAppend (0, 9) (0, 2) 0 MxNoRef);
    YMx (MxOp MxAppend (0, 2) (1, 2) 0 MxNoRef);
    YMx (MxOp MxInsertBefore (0, 2) (0, 2) 0 (MxNode (1, 2)));
    YMx (MxOp MxInsertBefore (0, 2) (0, 2) 0 (MxNode (0, 1)));
    YMx (MxOp MxInsertBefore (0, 2) (0, 2) 0 (MxNode (0, 7)));
    YMx (MxOp MxReplace (0, 2) (0, 2) 0 (MxMergedRef (0, 2) 2));
    YMx (MxOp MxAppend (0, 2) (0, 2) 1 MxNoRef);
    YMx (MxOp MxAppend (0, 2) (0, 2) 9 MxNoRef);
    YX (XN (Op (RemoveChild (0, 2) (0, 9))));
    YMx (MxOp MxReplace (0, 2) (0, 2) 2 (MxNode (0, 7))) ].

Example mx_world_inv : WInv mx_world.
Proof. constructor; [|constructor; [|constructor]]; apply tree_inv_b_sound; vm_compute; reflexivity. Qed.

Example mx_example_outcomes :
  outcomes_y mx_world mx_ops =
  [ MFailed MNotSupportErr; MFailed MNotSupportErr; MFailed MNotSupportErr; MFailed MNotSupportErr;
    MFailed (MExc (XExc HierarchyRequestErr)); MFailed (MExc (XExc WrongDocumentErr));
    MFailed (MExc (XExc WrongDocumentErr)); MFailed (MExc (XExc WrongDocumentErr));
    MFailed MNotSupportErr; MFailed MNotSupportErr; MNotApplicable; MNotApplicable;
    MOk (RNode (0, 9)); MFailed MNotSupportErr ].
Proof. vm_compute. reflexivity. Qed.

Example mx_example_world :
  run_y mx_world mx_ops = fst (step mx_world (RemoveChild (0, 2) (0, 9)))
  /\ WInv (run_y mx_world mx_ops)
  /\ (forall s, doc_at (run_y mx_world mx_ops) 0 = Some s -> NavAgree s).
Proof.
  split; [rewrite run_y_erase; reflexivity|].
  split; [apply tree_inv_reachable_with_merged_argument; exact mx_world_inv|].
  intros s D. exact (navigation_agrees_reachable_with_merged_argument mx_world mx_ops 0 s mx_world_inv D).
Qed.
