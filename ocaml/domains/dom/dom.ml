(* dom: DOM edit histories on the extracted model (Model/Store.v, Model/DomOps.v).
   Input line (built by checks/domlib.py from the implementation's record 0):
     <view> <ndocs> @<description of the parsed documents and string facts, ';'-separated> <op>*
   Output: the same one-line format as harness/src/domains/dom.rs (records joined by " | "),
   record 0 without the description.  The handle table lives here; Coq sees (document, id).
   Op `X:d:v` (no step): the document table the XPath evaluator sees for document d, [xdoc_of_store] of
   Model/StoreView.v, see [table_dump]. *)

let split c s = String.split_on_char c s
let big_usize_max : n = let rec ones k = if k = 1 then XH else XI (ones (k - 1)) in Npos (ones 64)

type hstate = {
  mutable tables : ((n * item) list * n * n) list;   (* per document: bindings, next, root (initial state) *)
  mutable world : world;
  mutable hs : (int * n) array;      (* handle -> (doc, id) *)
  mutable nh : int;
  index : (int * int, int) Hashtbl.t;
  mutable ndocs : int;
}

let kind_name = function
  | KDoc -> "doc" | KEl -> "el" | KAt -> "at" | KTx -> "tx" | KCd -> "cd" | KCr -> "cr" | KEr -> "er"
  | KPi -> "pi" | KCm -> "cm" | KDt -> "dt" | KFr -> "fr"
let kind_of_name = function
  | "doc" -> KDoc | "el" -> KEl | "at" -> KAt | "tx" -> KTx | "cd" -> KCd | "cr" -> KCr | "er" -> KEr
  | "pi" -> KPi | "cm" -> KCm | "dt" -> KDt | "fr" -> KFr | s -> failwith ("kind " ^ s)

let opt_str s = if s = "~" then None else Some (dec s)
let hlist_of s = if s = "-" then [] else List.map int_of_string (split '.' s)

let store_of st d = match doc_at st.world (n_of_int d) with Some s -> s | None -> failwith "no doc"

let find st d (i : n) = Hashtbl.find_opt st.index (d, int_of_n i)
let intern st d (i : n) =
  match find st d i with
  | Some h -> h
  | None ->
    let h = st.nh in
    if h >= Array.length st.hs then begin
      let a = Array.make (2 * Array.length st.hs + 8) (0, N0) in
      Array.blit st.hs 0 a 0 st.nh; st.hs <- a
    end;
    st.hs.(h) <- (d, i); st.nh <- h + 1;
    Hashtbl.replace st.index (d, int_of_n i) h; h

let parts st d (i : n) =
  let s = store_of st d in
  match kind_of s i with
  | Some KEl -> (ns_attrs s i, plain_attrs s i, children_of s i)
  | Some KAt | Some KDoc -> ([], [], children_of s i)
  | _ -> ([], [], [])

let scan st =
  let i = ref 0 in
  while !i < st.nh do
    let (d, x) = st.hs.(!i) in
    let (ns, at, ch) = parts st d x in
    List.iter (fun y -> ignore (intern st d y)) (ns @ at @ ch);
    incr i
  done

let hopt st d = function
  | None -> "~"
  | Some (Plain i) -> (match find st d i with Some h -> string_of_int h | None -> "?")
  | Some (Merged i) -> (match find st d i with Some h -> "*" ^ string_of_int h | None -> "*?")
let hid st d = function None -> "~" | Some i -> hopt st d (Some (Plain i))
let hl st d l = if l = [] then "-" else String.concat "." (List.map (fun v -> hopt st d (Some v)) l)
let str_of s = List.map (fun c -> n_of_int (Char.code c)) (List.init (String.length s) (String.get s))

let node_name (it : item) : n list =
  match it.ikind with
  | KEl | KAt | KPi | KEr | KDt -> it.ilocal
  | KTx -> str_of "#text" | KCd -> str_of "#cdata-section" | KCm -> str_of "#comment"
  | KDoc -> str_of "#document" | KFr -> str_of "#document-fragment"
  | KCr -> str_of "&" @ it.ilocal @ str_of ";"

let dump st =
  let n = st.nh in
  let keys = Array.init n (fun h -> let (d, i) = st.hs.(h) in
    match kind_of (store_of st d) i with Some KFr -> 1 | _ -> int_of_n (key (store_of st d) i)) in
  let per_doc = Hashtbl.create 8 in
  for h = 0 to n - 1 do
    let (d, _) = st.hs.(h) in
    if keys.(h) <> 0 then Hashtbl.replace per_doc d (keys.(h) :: (try Hashtbl.find per_doc d with Not_found -> []))
  done;
  let ranks = Hashtbl.create 8 in
  Hashtbl.iter (fun d l -> Hashtbl.replace ranks d (Array.of_list (List.sort_uniq compare l))) per_doc;
  let rank d k =
    let a = Hashtbl.find ranks d in
    let r = ref 0 in
    Array.iteri (fun i x -> if x = k then r := i + 1) a; !r in
  let b = Buffer.create 4096 in
  for h = 0 to n - 1 do
    let (d, i) = st.hs.(h) in
    let s = store_of st d in
    let it = match get s i with Some it -> it | None -> failwith "dangling handle" in
    if h > 0 then Buffer.add_char b ' ';
    let data = match it.ikind with KTx | KCd | KCm | KPi -> enc it.idata | _ -> "~" in
    Buffer.add_string b (Printf.sprintf "%d=%s/%s/%s/p=%s/c=%s/f=%s/l=%s/pv=%s/nx=%s/k=%s"
      h (kind_name it.ikind) (enc (node_name it)) data
      (hid st d (parent_node s i))
      (hl st d (child_view s false i))
      (hopt st d (first_child s false i)) (hopt st d (last_child s false i))
      (hopt st d (previous_sibling s false i)) (hopt st d (next_sibling s false i))
      (if keys.(h) = 0 then "0" else string_of_int (rank d keys.(h))));
    (match it.ikind with
     | KEl ->
       Buffer.add_string b (Printf.sprintf "/a=%s/n=%s"
         (hl st d (List.map (fun x -> Plain x) (plain_attrs s i)))
         (hl st d (List.map (fun x -> Plain x) (ns_attrs s i))));
       let m = child_view s true i in
       let items = List.map (fun v ->
         let x = (match v with Plain x | Merged x -> x) in
         Printf.sprintf "%s:%s:%s:%s" (hopt st d (Some v)) (hid st d (parent_node s x))
           (hopt st d (previous_sibling s true x)) (hopt st d (next_sibling s true x))) m in
       Buffer.add_string b ("/m=" ^ (if items = [] then "-" else String.concat ";" items));
       (* first_child / last_child in the merged-text view *)
       Buffer.add_string b (Printf.sprintf "/mf=%s:%s" (hopt st d (first_child s true i)) (hopt st d (last_child s true i)))
     | KAt -> Buffer.add_string b (Printf.sprintf "/ow=%s" (hid st d (owner_element s i)))
     | _ -> ())
  done;
  for d = 0 to st.ndocs - 1 do
    Buffer.add_string b (Printf.sprintf " S%d=%s" d (enc (show_doc (store_of st d))))
  done;
  Buffer.contents b

(* ---- the evaluator's document table of a document of the store (op X; Model/StoreView.v) ----
   [xdoc_of_store F merged s] printed in the canonical form of harness/src/domains/xpath.rs
   (Table::dump_canonical): one word `<n>+<row>+...`, row = kind;id;key;parent;children;attrs;nss;name;data,
   references = table positions, id = handle index of the item (`~` for id 0, `?` when the id has no handle),
   key = rank among the distinct non-zero keys of the table.  The string facts F come from the word `F<i>:...`
   of the description (checks/domlib.py copies it from the implementation's result of the same op:
   `a<h>=<normalized value>` / `r<h>=<replacement text>` by HANDLE; an id without a fact gets the empty string). *)
let xkind_name = function
  | KElement -> "El" | KAttribute -> "At" | KText -> "Tx" | KCData -> "Cd" | KEntityReference -> "Er"
  | KEntity -> "En" | KPI -> "Pi" | KComment -> "Co" | KDocument -> "Do" | KDocumentType -> "Dt"
  | KDocumentFragment -> "Df" | KNotation -> "No" | KNamespace -> "Ns" | KExpandedText -> "Xt"

let table_dump st d (facts : string) (merged : bool) : string =
  let fa = Hashtbl.create 16 and fr = Hashtbl.create 4 in
  if facts <> "-" && facts <> "" then List.iter (fun w ->
      match split '=' w with
      | [k; v] when String.length k > 1 ->
        (match int_of_string_opt (String.sub k 1 (String.length k - 1)) with
         | Some h when h >= 0 && h < st.nh ->
           let (hd, id) = st.hs.(h) in
           if hd = d then Hashtbl.replace (if k.[0] = 'a' then fa else fr) (int_of_n id) (if v = "E" then [] else dec v)
         | _ -> ())
      | _ -> ()) (split '^' facts);
  let look t i = match Hashtbl.find_opt t (int_of_n i) with Some s -> s | None -> [] in
  let f = { sf_attr = look fa; sf_ref = look fr } in
  let doc = xdoc_of_store f merged (store_of st d) in
  let keys = List.sort_uniq compare (List.filter (fun k -> k <> 0) (List.map (fun r -> int_of_n r.n_key) doc)) in
  let rank k = if k = 0 then 0 else
      let rec go i = function [] -> 0 | x :: t -> if x = k then i else go (i + 1) t in go 1 keys in
  let l v = if v = [] then "-" else String.concat "." (List.map (fun x -> string_of_int (int_of_n x)) v) in
  let o = function None -> "~" | Some x -> enc x in
  let row r =
    String.concat ";" [
      xkind_name r.n_kind;
      (if int_of_n r.n_id = 0 then "~" else match find st d r.n_id with Some h -> string_of_int h | None -> "?");
      string_of_int (rank (int_of_n r.n_key));
      (match r.n_parent with None -> "-" | Some p -> string_of_int (int_of_n p));
      l r.n_children; l r.n_attrs;
      (match r.n_nss with None -> "E" | Some v -> l v);
      (match r.n_name with XNameNone -> "!" | XNameErr -> "E" | XName (a, p, u) -> enc a ^ "/" ^ o p ^ "/" ^ o u);
      (match r.n_data with DataErr -> "E" | DataComputed -> "~" | DataStr x -> enc x) ] in
  String.concat "+" (string_of_int (List.length doc) :: List.map row doc)

(* ---- string facts ---- *)
let qn s = if s = "~" then None else
  match split '_' s with
  | [p; l] -> Some ((if p = "~" then None else Some (dec p)), dec l)
  | _ -> failwith ("qname digest " ^ s)

let parse_digest (raw : n list) (dg : string) : name_info * data_info =
  let f = Array.of_list (split '/' dg) in
  let tl s = String.sub s 1 (String.length s - 1) in
  let pc = tl f.(7) in
  let d_pi = if pc = "~" then None else if pc = "n" then Some None else Some (Some (dec (tl pc))) in
  let av = tl f.(8) in
  let d_attr =
    if av = "~" then None
    else if av = "." then Some []
    else Some (List.map (fun it ->
        let body = tl it in
        match it.[0] with
        | 't' -> VText (dec body)
        | 'e' -> VEnt (dec body)
        | 'c' -> (match split '_' body with
            | [nm; ch] -> VChar (dec nm, (if ch = "~" then None else Some (dec ch)))
            | _ -> failwith "char item")
        | _ -> failwith "value item") (split '^' av)) in
  ({ n_str = raw; n_elem = qn (tl f.(0)); n_attr = qn (tl f.(1));
     n_pi = (let p = tl f.(2) in if p = "~" then None else Some (dec p)); n_ref = (tl f.(3) = "1") },
   { d_str = raw; d_text = (tl f.(4) = "1"); d_comment = (tl f.(5) = "1"); d_cdata = (tl f.(6) = "1");
     d_pi = d_pi; d_attr = d_attr })

(* ---- building the initial world ---- *)
let build (desc : string) : hstate =
  let words = List.filter (fun w -> w <> "") (split ';' desc) in
  let decls = Hashtbl.create 4 in
  let recs = ref [] in
  List.iter (fun w ->
    match w.[0] with
    | 'D' -> (match split ':' w with [k; d] -> Hashtbl.replace decls (int_of_string (String.sub k 1 (String.length k - 1))) (dec d) | _ -> ())
    | 'I' -> recs := Array.of_list (split ':' w) :: !recs
    | _ -> ()) words;
  let recs = List.rev !recs in
  let nd = Hashtbl.length decls in
  let total = List.length recs in
  let idn h = n_of_int (h + 1) in
  let tbls = Array.init nd (fun _ -> Hashtbl.create 64) in
  let roots = Array.make nd N0 in
  let parent = Hashtbl.create 64 in
  List.iter (fun f ->
    let h = int_of_string (String.sub f.(0) 1 (String.length f.(0) - 1)) in
    List.iter (fun c -> Hashtbl.replace parent c h) (hlist_of f.(7));
    List.iter (fun c -> Hashtbl.replace parent c h) (hlist_of f.(8))) recs;
  let hs = Array.make (total + 16) (0, N0) in
  List.iter (fun f ->
    let h = int_of_string (String.sub f.(0) 1 (String.length f.(0) - 1)) in
    let d = int_of_string f.(1) in
    let k = kind_of_name f.(2) in
    let it = { ikind = k; iprefix = opt_str f.(3); ilocal = dec f.(4); idata = dec f.(5); iflag = (f.(6) = "1");
               iparent = (match Hashtbl.find_opt parent h with Some p -> Some (idn p) | None -> None);
               ichildren = List.map idn (hlist_of f.(7)); iattrs = List.map idn (hlist_of f.(8));
               ients = (if f.(9) = "~" then [] else List.map dec (split '.' f.(9))) } in
    Hashtbl.replace tbls.(d) (h + 1) it;
    if k = KDoc then roots.(d) <- idn h;
    hs.(h) <- (d, idn h)) recs;
  let docs = List.init nd (fun d ->
    let t = tbls.(d) in
    let s0 = { items = (fun j -> Hashtbl.find_opt t (int_of_n j)); next = n_of_int (total + 1);
               sdecl = (try Hashtbl.find decls d with Not_found -> []); sroot = roots.(d); order = []; dirty = true } in
    s0) in
  let tables = List.init nd (fun d ->
    (List.sort compare (Hashtbl.fold (fun k v acc -> (k, v) :: acc) tbls.(d) [])
     |> List.map (fun (k, v) -> (n_of_int k, v)), n_of_int (total + 1), roots.(d))) in
  let st = { tables = tables; world = docs; hs = hs; nh = total; index = Hashtbl.create 64; ndocs = nd } in
  for h = 0 to total - 1 do let (d, i) = hs.(h) in Hashtbl.replace st.index (d, int_of_n i) h done;
  st

(* the hypothesis of the history theorems (C12 tree_inv_reachable, C14 order_inv_reachable),
   decided by the extracted checker on every initial store: one bit per document *)
let check_init st =
  String.concat "" (List.map (fun (l, nx, root) -> if tree_inv_b l nx root then "1" else "0") st.tables)

(* the hypothesis of C15 printable_reachable: the lexical invariant of every stored string, one bit per document *)
let check_printable st =
  String.concat "" (List.map (fun (l, _, _) -> if printable_b l then "1" else "0") st.tables)

let exc_name = function
  | IndexSizeErr -> "err:IndexSizeErr" | HierarchyRequestErr -> "err:HierarchyRequestErr"
  | WrongDocumentErr -> "err:WrongDocumentErr" | InvalidCharacterErr -> "err:InvalidCharacterErr"
  | NoDataAllowedErr -> "err:NoDataAllowedErr" | NotFoundErr -> "err:NotFoundErr"
  | InuseAttributeErr -> "err:InuseAttributeErr" | InfoErr -> "err:info"

(* NZ:r  Element::normalize -- the extracted [normalize] of Model/DomNormalize.v (a derived program over [step]:
   append_data on the Text node in front, remove_child on the element), in the view of the case *)
let run_normalize st (view : string) (r : (n * n) option) : string =
  match r with
  | None -> "na"
  | Some r ->
    let merged = String.length view > 0 && view.[0] = 'm' in
    let (w1, oc) = normalize merged st.world r in
    st.world <- w1;
    (match oc with Ok _ -> "ok" | Panicked -> "panic" | _ -> "na")

(* ES / ESI / ER / TS / TSI / TR: the mutators of the read-only maps of a document type -- the extracted [step_ro] of
   Model/DomReadOnly.v.  The names in notations() are not in the store: the words T<h>:<names> of the description
   (one per document type handle) give the fact [declared] of the TS / TSI calls. *)
let run_ro st (desc : string) (f : string array) (h : int -> (n * n) option) : string =
  let fld k = if k < Array.length f then f.(k) else "" in
  let notation_names (src : (n * n)) : n list list =
    (* the document type [src] stands for (extracted [doctype_ref]), as a handle *)
    let dt = (match doctype_ref st.world src with Some (d, id) -> find st (int_of_n d) id | None -> None) in
    match dt with
    | None -> []
    | Some hd ->
      let key = "T" ^ string_of_int hd in
      List.fold_left (fun acc w -> match split ':' w with
          | [k; l] when k = key -> if l = "~" then [] else List.map dec (split '.' l)
          | _ -> acc) [] (split ';' desc) in
  let m = if f.(0).[0] = 'E' then MEntities else MNotations in
  let op : ro_op option =
    match f.(0), h 1 with
    | ("ER" | "TR"), Some r -> Some (MapRemoveNamedItem (m, r, dec (fld 2)))
    | ("ES" | "TS" | "ESI" | "TSI"), Some r ->
      (match h 2 with
       | None -> None
       | Some src ->
         let byname = String.length f.(0) = 2 in
         let names = if m = MNotations then notation_names src else [] in
         let idx = (match int_of_string_opt (fld 3) with Some x when x >= 0 -> x | _ -> max_int) in
         let declared = if byname then List.mem (dec (fld 3)) names else idx < List.length names in
         let k = if byname then ByName (dec (fld 3)) else ByIndex (if idx = max_int then big_usize_max else n_of_int idx) in
         Some (MapSetNamedItem (m, r, src, k, declared)))
    | _ -> None in
  match op with
  | None -> "na"
  | Some o ->
    let (w1, oc) = step_ro st.world o in
    st.world <- w1;
    (match oc with
     | XOk RUnit -> "ok" | XOk RNone -> "ok:~" | XOk (RNode _) -> "ok:item"
     | XFailed XNoModificationAllowedErr -> "err:NoModificationAllowedErr"
     | XFailed (XExc e) -> exc_name e
     | XPanicked -> "panic"
     | XNotApplicable -> "na")

(* ACX / IBX / IBXX / RCX / RCXX: append_child / insert_before / replace_child whose new_child is entry k of the merged
   child list of handle c -- the extracted [step_mx] of Model/DomMergedArg.v (world unchanged; the outcome by receiver
   kind and document identity; NOT_SUPPORTED_ERR since /repo aa36908) *)
let run_mx st (f : string array) (h : int -> (n * n) option) : string =
  let idx k = if k < Array.length f then (match int_of_string_opt f.(k) with Some x when x >= 0 -> Some (n_of_int x) | _ -> None) else None in
  let call = (match f.(0) with "ACX" -> MxAppend | "IBX" | "IBXX" -> MxInsertBefore | _ -> MxReplace) in
  let op : mx_op option =
    match h 1, h 2, idx 3 with
    | Some r, Some c, Some k ->
      (match f.(0) with
       | "ACX" -> Some (MxOp (call, r, c, k, MxNoRef))
       | "IBX" | "RCX" -> (match h 4 with Some x -> Some (MxOp (call, r, c, k, MxNode x)) | None -> None)
       | _ -> (match h 4, idx 5 with Some c2, Some k2 -> Some (MxOp (call, r, c, k, MxMergedRef (c2, k2))) | _ -> None))
    | _ -> None in
  match op with
  | None -> "na"
  | Some o ->
    let (w1, oc) = step_mx st.world o in
    st.world <- w1;
    (match oc with
     | MOk _ -> "ok"
     | MFailed MNotSupportErr -> "err:NotSupportErr"
     | MFailed (MExc (XExc e)) -> exc_name e
     | MFailed (MExc XNoModificationAllowedErr) -> "err:NoModificationAllowedErr"
     | MPanicked -> "panic"
     | MNotApplicable -> "na")

let () = register "dom" (fun words ->
  match words with
  | view :: _nd :: desc :: ops when String.length desc > 0 && desc.[0] = '@' ->
    let from = (match split '!' view with [_; k] -> (try int_of_string k with _ -> 0) | _ -> 0) in
    let desc = String.sub desc 1 (String.length desc - 1) in
    let st = build desc in
    let digests = Hashtbl.create 16 in
    List.iter (fun w -> if w <> "" && w.[0] = 'O' then
      match split ':' w with
      | [k; d] -> Hashtbl.replace digests (int_of_string (String.sub k 1 (String.length k - 1))) (Array.of_list (split '+' d))
      | _ -> ()) (split ';' desc);
    let tfacts = Hashtbl.create 16 in
    List.iter (fun w -> if w <> "" && w.[0] = 'F' then
      match split ':' w with
      | [k; d] -> Hashtbl.replace tfacts (int_of_string (String.sub k 1 (String.length k - 1))) d
      | _ -> ()) (split ';' desc);
    let out = Buffer.create 65536 in
    Buffer.add_string out ("init ti=" ^ check_init st ^ " pr=" ^ check_printable st ^ " # " ^ (if from = 0 then dump st else "-"));
    List.iteri (fun i opw ->
      let f = Array.of_list (split ':' opw) in
      let h k = if k < Array.length f then (match int_of_string_opt f.(k) with
          | Some x when x >= 0 && x < st.nh -> Some (let (d, id) = st.hs.(x) in (n_of_int d, id)) | _ -> None) else None in
      let num k = if k < Array.length f then (if f.(k) = "max" then big_usize_max else
          match int_of_string_opt f.(k) with Some x -> n_of_int x | None -> N0) else N0 in
      let dg k = (* facts about string field k *)
        let raw = if k < Array.length f then dec f.(k) else [] in
        match Hashtbl.find_opt digests i with
        | Some a when k - 2 < Array.length a && a.(k - 2) <> "~" -> parse_digest raw a.(k - 2)
        | _ -> parse_digest raw "e~/a~/p~/r0/t0/c0/d0/P~/A~" in
      let raw k = if k < Array.length f then dec f.(k) else [] in
      let op : op option =
        match f.(0), h 1 with
        | _, None -> None
        | "AC", Some r -> (match h 2 with Some n -> Some (AppendChild (r, n)) | None -> None)
        | "RM", Some r -> (match h 2 with Some n -> Some (RemoveChild (r, n)) | None -> None)
        | "IB", Some r -> (match h 2, h 3 with Some n, Some x -> Some (InsertBefore (r, n, x)) | _ -> None)
        | "RC", Some r -> (match h 2, h 3 with Some n, Some x -> Some (ReplaceChild (r, n, x)) | _ -> None)
        | "SA", Some r -> Some (SetAttribute (r, fst (dg 2), snd (dg 3)))
        | "RA", Some r -> Some (RemoveAttribute (r, raw 2))
        | "NR", Some r -> Some (RemoveNamedItem (r, raw 2))
        | "SAN", Some r -> (match h 2 with Some a -> Some (SetAttributeNode (r, a)) | None -> None)
        | "RAN", Some r -> (match h 2 with Some a -> Some (RemoveAttributeNode (r, a)) | None -> None)
        | "NS", Some r -> (match h 2 with Some a -> Some (SetNamedItem (r, a)) | None -> None)
        | "CE", Some r -> Some (CreateElement (r, fst (dg 2)))
        | "CA", Some r -> Some (CreateAttribute (r, fst (dg 2)))
        | "CT", Some r -> Some (CreateTextNode (r, snd (dg 2)))
        | "CC", Some r -> Some (CreateComment (r, snd (dg 2)))
        | "CD", Some r -> Some (CreateCDataSection (r, snd (dg 2)))
        | "CP", Some r -> Some (CreateProcessingInstruction (r, fst (dg 2), snd (dg 3)))
        | "CR", Some r -> Some (CreateEntityReference (r, fst (dg 2)))
        | "CF", Some r -> Some (CreateDocumentFragment r)
        | "SV", Some r -> Some (SetNodeValue (r, snd (dg 2)))
        | "SD", Some r -> Some (SetData (r, snd (dg 2)))
        | "AD", Some r -> Some (AppendData (r, snd (dg 2)))
        | "ID", Some r -> Some (InsertData (r, num 2, snd (dg 3)))
        | "DD", Some r -> Some (DeleteData (r, num 2, num 3))
        | "RD", Some r -> Some (ReplaceData (r, num 2, num 3, snd (dg 4)))
        | "ST", Some r -> Some (SplitText (r, num 2))
        | "PD", Some r -> Some (PISetData (r, snd (dg 2)))
        | "Q", Some r -> Some (Query r)
        | _ -> None in
      let res =
        match op with
        | None when f.(0) = "X" ->
          (* the table of document d as the model sees it; no step *)
          (match h 1 with
           | Some (d, id) when kind_of (store_of st (int_of_n d)) id = Some KDoc ->
             let merged = Array.length f > 2 && f.(2) = "1" in
             let facts = (match Hashtbl.find_opt tfacts i with Some x -> x | None -> "-") in
             "x:" ^ (if merged then "1" else "0") ^ ":" ^ table_dump st (int_of_n d) facts merged
           | _ -> "na")
        | None when f.(0) = "NZ" -> run_normalize st view (h 1)
        | None when List.mem f.(0) ["ES"; "ESI"; "ER"; "TS"; "TSI"; "TR"] -> run_ro st desc f h
        | None when List.mem f.(0) ["ACX"; "IBX"; "IBXX"; "RCX"; "RCXX"] -> run_mx st f h
        | None -> "na"
        | Some (Query _) -> "q"
        | Some o ->
          let (w1, oc) = step st.world o in
          st.world <- w1;
          (match oc with
           | Ok RUnit -> "ok"
           | Ok RNone -> "ok:~"
           | Ok (RNode (d, id)) -> "ok:" ^ string_of_int (intern st (int_of_n d) id)
           | Failed e -> exc_name e
           | Panicked -> "panic"
           | NotApplicable -> "na") in
      scan st;
      Buffer.add_string out (" | " ^ res ^ " # " ^ (if i + 1 < from then "-" else dump st))) ops;
    Buffer.contents out
  | _ -> "skip")
