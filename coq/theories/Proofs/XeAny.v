(** * xe on ANY selection (C17): document node together with elements and attributes, in any
    order, with duplicates and identifiers that do not occur; and the total case analysis of
    the tool's outcome.

    [xe_effect_any]   : whenever the model of xe's loop ends with [Done d'], [d'] is the document
                        [replace_spec] prescribes -- for every selection.
    [xe_outcome_cases]: which of Done / Refused / Unmodelled the loop answers is a function of the
                        kinds of the selected nodes, of the replacement and of one bit of the
                        document (has it a document element); [xe_done_iff], [xe_refused_reasons],
                        [xe_unmodelled_reason] say it without reference to the loop.
    [xe_complete]     : where [replace_spec] is defined the loop answers that document unless it
                        answers Refused (reasons listed) or Unmodelled.
    [xe_done_iff_strict]: the loop answers [Done d'] exactly when the stricter specification
                        [replace_spec_strict] (Spec/XeStrict.v: every selected attribute anywhere in
                        the document can hold the replacement) answers [Some d'] -- outside D48, for
                        selections of elements, attributes and the document node that occur.

    How the document node mixes with other nodes.  The document step replaces ALL children by the
    freshly converted replacement [new] (identifiers 0).  Whatever was edited before is gone,
    whatever is edited afterwards is a detached node: [edit_elem i] / [edit_attr i] with [i <> 0]
    are the identity on fresh trees ([map_edit_fresh], [map_edit_attr_fresh]), and a second
    document step installs the same [new] again.  So from the first document step on the state of
    the loop is constant ([xe_loop_fixed]) and the answer is [new] -- which is what [replace_spec]
    says when the document node is a member of the selection. *)
From Coq Require Import List NArith Bool Arith Lia.
From XmlRs Require Import Base.CPred Spec.XeSpec Spec.XeStrict Model.Cli Proofs.XeProofs.
Import ListNotations.
Local Open Scope nat_scope.

(** ** kinds in a selection *)
Definition has_doc (sel : list (nat * kind)) : bool :=
  existsb (fun p => match snd p with KDoc => true | _ => false end) sel.
Definition has_elem (sel : list (nat * kind)) : bool :=
  existsb (fun p => match snd p with KElem => true | _ => false end) sel.
Definition has_attr (sel : list (nat * kind)) : bool :=
  existsb (fun p => match snd p with KAttr => true | _ => false end) sel.
Definition has_other (sel : list (nat * kind)) : bool :=
  existsb (fun p => match snd p with KOther => true | _ => false end) sel.

(** identifiers as the dump assigns them: 0 is the document node and nothing else (fresh nodes of
    the replacement carry 0 as well: they are never selected) *)
Definition sel_wf (sel : list (nat * kind)) : Prop :=
  Forall (fun p => match snd p with
                   | KDoc => fst p = 0
                   | KElem | KAttr => fst p <> 0
                   | KOther => True
                   end) sel.

(** what the document node accepts as children (the test in the KDoc step of the loop) *)
Definition doc_item (n : xn) : bool := match n with E _ _ _ _ | Cm _ | P _ _ => true | _ => false end.
Definition doc_accepts (new : list xn) : bool :=
  forallb doc_item new && Nat.leb (length (filter is_elem new)) 1.

(** ** the edits keep the kinds of the top-level items *)
Lemma edit_elem_is_elem i new n : is_elem (edit_elem i new n) = is_elem n.
Proof. destruct n; cbn [edit_elem is_elem]; try reflexivity. destruct (Nat.eqb i id); reflexivity. Qed.

Lemma edit_attr_is_elem i v n : is_elem (edit_attr i v n) = is_elem n.
Proof. destruct n; reflexivity. Qed.

Lemma existsb_is_elem_edit_elem i new l : existsb is_elem (map (edit_elem i new) l) = existsb is_elem l.
Proof. induction l as [|c r IH]; [reflexivity|]. cbn [map existsb]. now rewrite edit_elem_is_elem, IH. Qed.

Lemma existsb_is_elem_edit_attr i v l : existsb is_elem (map (edit_attr i v) l) = existsb is_elem l.
Proof. induction l as [|c r IH]; [reflexivity|]. cbn [map existsb]. now rewrite edit_attr_is_elem, IH. Qed.

Lemma map_conv_fresh2 frag : Forall fresh2 (map conv frag).
Proof. induction frag as [|f r IH]; cbn [map]; constructor; [apply conv_fresh2|exact IH]. Qed.

Lemma fresh2_all_fresh l : Forall fresh2 l -> all_fresh l.
Proof. intros H. unfold all_fresh. eapply Forall_impl; [|exact H]. apply fresh2_fresh. Qed.

(** ** after a document step nothing changes any more *)
Lemma xe_loop_fixed frag new : conv_list frag = Some (Some new) -> Forall fresh2 new ->
  forall rest did0 d', sel_wf rest ->
  xe_loop {| did := did0; dchildren := new |} rest frag = Done d' ->
  d' = {| did := did0; dchildren := new |} /\ existsb is_elem new = true.
Proof.
  intros Hc Hf. induction rest as [|[i k] rest IH]; intros did0 d' Hwf Hm.
  - cbn [xe_loop] in Hm. unfold finish in Hm. cbn [dchildren] in Hm.
    destruct (existsb is_elem new); [|discriminate]. injection Hm as <-. split; reflexivity.
  - inversion Hwf as [|? ? Hw1 Hw2]; subst. cbn [fst snd] in Hw1.
    destruct k; cbn [xe_loop] in Hm.
    + (* document again *)
      rewrite Hc in Hm. cbn [did dchildren] in Hm.
      destruct (forallb _ new && _); [|discriminate]. exact (IH did0 d' Hw2 Hm).
    + (* a detached element *)
      rewrite Hc in Hm. cbn [did dchildren] in Hm.
      rewrite (map_edit_fresh i (merge_text new) new Hw1 (fresh2_all_fresh _ Hf)) in Hm.
      exact (IH did0 d' Hw2 Hm).
    + (* a detached attribute *)
      destruct (attr_text frag) as [v|]; [|discriminate]. cbn [did dchildren] in Hm.
      rewrite (map_edit_attr_fresh i v new Hw1 Hf) in Hm.
      exact (IH did0 d' Hw2 Hm).
    + discriminate.
Qed.

(** ** a selection that contains the document node *)
Lemma xe_loop_with_doc frag : forall sel x d', sel_wf sel -> has_doc sel = true ->
  xe_loop x sel frag = Done d' ->
  exists new, conv_list frag = Some (Some new) /\ doc_accepts new = true /\
              existsb is_elem new = true /\ d' = {| did := did x; dchildren := new |}.
Proof.
  induction sel as [|[i k] sel IH]; intros x d' Hwf Hd Hm; [discriminate|].
  inversion Hwf as [|? ? Hw1 Hw2]; subst.
  destruct k; cbn [xe_loop] in Hm.
  - destruct (conv_list frag) as [[new|]|] eqn:Ec; try discriminate.
    change (forallb _ new && Nat.leb (length (filter is_elem new)) 1) with (doc_accepts new) in Hm.
    destruct (doc_accepts new) eqn:Eok; [|discriminate].
    assert (Hf : Forall fresh2 new) by (rewrite <- (conv_list_map _ _ Ec); apply map_conv_fresh2).
    destruct (xe_loop_fixed frag new Ec Hf sel (did x) d' Hw2 Hm) as [-> He].
    exists new. repeat split; assumption.
  - destruct (conv_list frag) as [[new|]|] eqn:Ec; try discriminate.
    unfold has_doc in Hd. cbn [existsb snd orb] in Hd.
    destruct (IH _ d' Hw2 Hd Hm) as (new' & H1 & H2 & H3 & H4). cbn [did] in H4.
    exists new'. repeat split; assumption.
  - destruct (attr_text frag) as [v|]; [|discriminate].
    unfold has_doc in Hd. cbn [existsb snd orb] in Hd.
    destruct (IH _ d' Hw2 Hd Hm) as (new' & H1 & H2 & H3 & H4). cbn [did] in H4.
    exists new'. repeat split; assumption.
  - discriminate.
Qed.

Lemma has_doc_memb sel : sel_wf sel -> has_doc sel = true -> memb 0 (map fst sel) = true.
Proof.
  intros Hwf. induction Hwf as [|[i k] r Hw1 Hw2 IH]; intros Hd; [discriminate|].
  cbn [map fst]. rewrite memb_cons. cbn [fst snd] in Hw1. unfold has_doc in Hd. cbn [existsb snd] in Hd.
  destruct k; cbn [orb] in Hd; try (rewrite (IH Hd); apply orb_true_r).
  subst i. reflexivity.
Qed.

Lemma doc_accepts_spec new : doc_accepts new = true -> existsb is_elem new = true ->
  merge_text new = new /\ doc_children_ok new = true.
Proof.
  unfold doc_accepts. intros H He. apply andb_true_iff in H. destruct H as [Hk Hle]. apply Nat.leb_le in Hle.
  split; [exact (merge_text_no_text _ Hk)|].
  unfold doc_children_ok. fold doc_item. rewrite Hk, (filter_elem_length _ He Hle). reflexivity.
Qed.

Theorem xe_effect_with_doc : forall (d : xdoc) (sel : list (nat * kind)) (frag : list fnode) (d' : xdoc),
  did d = 0 -> sel_wf sel -> has_doc sel = true ->
  xe_model d sel frag = Done d' -> replace_spec (map fst sel) frag d = Some d'.
Proof.
  intros [did0 ch0] sel frag d' Hd Hwf Hdoc Hm. cbn [did] in Hd. subst did0. unfold xe_model in Hm.
  destruct (xe_loop_with_doc frag sel _ d' Hwf Hdoc Hm) as (new & Hc & Hok & He & ->). cbn [did].
  unfold replace_spec. cbn [did dchildren]. rewrite (has_doc_memb sel Hwf Hdoc).
  destruct (doc_accepts_spec new Hok He) as [Hmt Hdc].
  unfold conv_children. rewrite (conv_list_map _ _ Hc), Hmt, Hdc. reflexivity.
Qed.

(** ** a selection without the document node *)
Lemma xe_loop_done_no_other frag : forall sel x d', xe_loop x sel frag = Done d' -> has_other sel = false.
Proof.
  induction sel as [|[i k] sel IH]; intros x d' Hm; [reflexivity|].
  unfold has_other. cbn [existsb snd]. destruct k; cbn [xe_loop orb] in Hm |- *.
  - destruct (conv_list frag) as [[new|]|]; try discriminate.
    destruct (forallb _ new && _); [|discriminate]. exact (IH _ _ Hm).
  - destruct (conv_list frag) as [[new|]|]; try discriminate. exact (IH _ _ Hm).
  - destruct (attr_text frag) as [v|]; [|discriminate]. exact (IH _ _ Hm).
  - discriminate.
Qed.

Lemma xe_loop_nodoc_root frag : forall sel x d', has_doc sel = false -> xe_loop x sel frag = Done d' ->
  existsb is_elem (dchildren x) = true.
Proof.
  induction sel as [|[i k] sel IH]; intros x d' Hd Hm.
  - cbn [xe_loop] in Hm. unfold finish in Hm. destruct (existsb is_elem (dchildren x)); [reflexivity|discriminate].
  - unfold has_doc in Hd. cbn [existsb snd] in Hd. destruct k; cbn [xe_loop orb] in Hm, Hd.
    + discriminate.
    + destruct (conv_list frag) as [[new|]|]; try discriminate.
      pose proof (IH _ _ Hd Hm) as H. cbn [dchildren] in H. now rewrite existsb_is_elem_edit_elem in H.
    + destruct (attr_text frag) as [v|]; [|discriminate].
      pose proof (IH _ _ Hd Hm) as H. cbn [dchildren] in H. now rewrite existsb_is_elem_edit_attr in H.
    + discriminate.
Qed.

Lemma no_doc_other_of_has sel : has_doc sel = false -> has_other sel = false -> no_doc_other sel.
Proof.
  unfold no_doc_other. induction sel as [|[i k] sel IH]; intros Hd Ho; [constructor|].
  unfold has_doc in Hd. unfold has_other in Ho. cbn [existsb snd] in Hd, Ho.
  destruct k; cbn [orb] in Hd, Ho; try discriminate; (constructor; [exact I|exact (IH Hd Ho)]).
Qed.

Lemma sel_wf_no_zero sel : sel_wf sel -> no_doc_other sel -> ~ In 0 (map fst sel).
Proof.
  intros Hwf Hk. induction Hwf as [|[i k] r Hw1 Hw2 IH]; [intros []|].
  inversion Hk as [|? ? Hk1 Hk2]; subst. cbn [fst snd] in Hw1, Hk1. cbn [map fst].
  intros [H|H]; [|exact (IH Hk2 H)]. subst i. destruct k; try contradiction; apply Hw1; reflexivity.
Qed.

(** ** (a) the effect theorem for every selection *)
Theorem xe_effect_any : forall (d : xdoc) (sel : list (nat * kind)) (frag : list fnode) (d' : xdoc),
  did d = 0 ->                                   (* identifiers as dumped: 0 is the document node ... *)
  sel_wf sel ->                                  (* ... and only the document node *)
  (has_doc sel = false ->                        (* identifiers have the kind the selection says *)
   Forall (kinds_ok (rev (elems_of sel)) (rev (attrs_of sel))) (dchildren d)) ->
  xe_model d sel frag = Done d' ->
  replace_spec (map fst sel) frag d = Some d'.
Proof.
  intros d sel frag d' Hd Hwf Hkinds Hm.
  destruct (has_doc sel) eqn:Edoc.
  - exact (xe_effect_with_doc d sel frag d' Hd Hwf Edoc Hm).
  - pose proof (xe_loop_done_no_other frag sel d d' Hm) as Ho.
    pose proof (no_doc_other_of_has sel Edoc Ho) as Hk.
    apply xe_effect_mixed; try assumption.
    + exact (sel_wf_no_zero sel Hwf Hk).
    + exact (Hkinds eq_refl).
    + exact (xe_loop_nodoc_root frag sel d d' Edoc Hm).
Qed.

(** ** (b) which outcome: the replacement, as the tool's conversion sees it *)
Fixpoint convertible (f : fnode) : bool :=
  match f with
  | FT _ | FCd _ | FC _ => true
  | FP _ _ | FX => false
  | FR name => match predefined name with Some _ => true | None => false end
  | FE name attrs ch =>
      negb (has_colon name || existsb (fun a => has_colon (fst a)) attrs) && forallb convertible ch
  end.

(** items the tool refuses (known finding D48): processing instructions, references other than the
    five predefined ones, anything the dump does not name *)
Fixpoint unsupported (f : fnode) : bool :=
  match f with
  | FP _ _ | FX => true
  | FR name => match predefined name with Some _ => false | None => true end
  | FE _ _ ch => existsb unsupported ch
  | _ => false
  end.

(** prefixed element or attribute names (the model does not carry namespaces: D48) *)
Fixpoint prefixed (f : fnode) : bool :=
  match f with
  | FE name attrs ch => (has_colon name || existsb (fun a => has_colon (fst a)) attrs) || existsb prefixed ch
  | _ => false
  end.

Definition cm_spec (f : fnode) : Prop :=
  match conv_model f with
  | CNode n => convertible f = true /\ n = conv f
  | CRefused => convertible f = false /\ unsupported f = true
  | CUnmodelled => convertible f = false /\ prefixed f = true
  end.

Definition cl_spec (l : list fnode) : Prop :=
  match conv_list l with
  | Some (Some new) => forallb convertible l = true /\ new = map conv l
  | Some None => forallb convertible l = false /\ existsb unsupported l = true
  | None => forallb convertible l = false /\ existsb prefixed l = true
  end.

Lemma conv_list_cases_aux l : Forall cm_spec l -> cl_spec l.
Proof.
  unfold cl_spec. induction 1 as [|f r Hf Hr IH]; [split; reflexivity|].
  cbn [conv_list forallb existsb map]. unfold cm_spec in Hf.
  destruct (conv_model f) as [n| |]; destruct Hf as [Hf1 Hf2]; rewrite Hf1.
  - destruct (conv_list r) as [[l'|]|]; destruct IH as [I1 I2]; cbn [andb].
    + split; [exact I1|]. now rewrite Hf2, I2.
    + split; [exact I1|]. rewrite I2. apply orb_true_r.
    + split; [exact I1|]. rewrite I2. apply orb_true_r.
  - cbn [andb]. rewrite Hf2. split; reflexivity.
  - cbn [andb]. rewrite Hf2. split; reflexivity.
Qed.

Lemma conv_model_cases : forall f, cm_spec f.
Proof.
  induction f as [name attrs ch IH|s|s|s|t d|nm|] using fnode_ind'; unfold cm_spec;
    cbn [conv_model convertible unsupported prefixed conv]; try (split; reflexivity).
  - destruct (has_colon name || existsb (fun a => has_colon (fst a)) attrs) eqn:Ecol; cbn [negb andb orb].
    + split; reflexivity.
    + fold go_model. rewrite go_model_conv_list.
      pose proof (conv_list_cases_aux ch IH) as Hl. unfold cl_spec in Hl.
      destruct (conv_list ch) as [[l'|]|]; destruct Hl as [H1 H2]; rewrite H1; (split; [reflexivity|]).
      * now rewrite H2.
      * exact H2.
      * exact H2.
  - destruct (predefined nm); split; reflexivity.
Qed.

Lemma conv_list_cases frag : cl_spec frag.
Proof. apply conv_list_cases_aux. apply Forall_forall. intros f _. apply conv_model_cases. Qed.

Lemma conv_list_convertible frag :
  forallb convertible frag = true <-> conv_list frag = Some (Some (map conv frag)).
Proof.
  pose proof (conv_list_cases frag) as H. unfold cl_spec in H.
  destruct (conv_list frag) as [[new|]|]; destruct H as [H1 H2]; split; intros H; congruence.
Qed.

Lemma attr_frag_text : forall frag, attr_text frag = frag_text frag.
Proof.
  induction frag as [|f r IH]; [reflexivity|]. destruct f; cbn [attr_text frag_text]; try reflexivity; now rewrite IH.
Qed.

(** ** the first selected node at which the loop stops *)
Inductive stop := SRefused | SUnmodelled.

Definition stop_at (k : kind) (frag : list fnode) : option stop :=
  match k with
  | KOther => Some SRefused
  | KElem => match conv_list frag with
             | None => Some SUnmodelled | Some None => Some SRefused | Some (Some _) => None
             end
  | KAttr => match frag_text frag with None => Some SRefused | Some _ => None end
  | KDoc => match conv_list frag with
            | None => Some SUnmodelled | Some None => Some SRefused
            | Some (Some new) => if doc_accepts new then None else Some SRefused
            end
  end.

Fixpoint first_stop (ks : list kind) (frag : list fnode) : option stop :=
  match ks with
  | [] => None
  | k :: r => match stop_at k frag with Some s => Some s | None => first_stop r frag end
  end.

(** is there a document element when the loop is through *)
Definition root_after (d : xdoc) (sel : list (nat * kind)) (frag : list fnode) : bool :=
  if has_doc sel then existsb is_elem (map conv frag) else existsb is_elem (dchildren d).

Lemma xe_loop_cases frag : forall sel x,
  match first_stop (map snd sel) frag with
  | Some SUnmodelled => xe_loop x sel frag = Unmodelled
  | Some SRefused => xe_loop x sel frag = Refused
  | None => exists x', xe_loop x sel frag = finish x' /\ did x' = did x /\
                       existsb is_elem (dchildren x') = root_after x sel frag
  end.
Proof.
  induction sel as [|[i k] sel IH]; intros x.
  - cbn [map first_stop xe_loop]. exists x. repeat split.
  - cbn [map snd first_stop]. destruct k; cbn [stop_at xe_loop].
    + (* document *)
      destruct (conv_list frag) as [[new|]|] eqn:Ec; try reflexivity.
      change (forallb _ new && Nat.leb (length (filter is_elem new)) 1) with (doc_accepts new).
      destruct (doc_accepts new); [|reflexivity].
      specialize (IH {| did := did x; dchildren := new |}).
      destruct (first_stop (map snd sel) frag) as [[|]|]; try exact IH.
      destruct IH as (x' & H1 & H2 & H3). exists x'. split; [exact H1|]. split; [exact H2|].
      rewrite H3. unfold root_after, has_doc. cbn [existsb snd orb dchildren]. fold (has_doc sel).
      rewrite (conv_list_map _ _ Ec). destruct (has_doc sel); reflexivity.
    + (* element *)
      destruct (conv_list frag) as [[new|]|] eqn:Ec; try reflexivity.
      specialize (IH {| did := did x; dchildren := map (edit_elem i (merge_text new)) (dchildren x) |}).
      destruct (first_stop (map snd sel) frag) as [[|]|]; try exact IH.
      destruct IH as (x' & H1 & H2 & H3). exists x'. split; [exact H1|]. split; [exact H2|].
      rewrite H3. unfold root_after, has_doc. cbn [existsb snd orb dchildren]. fold (has_doc sel).
      now rewrite existsb_is_elem_edit_elem.
    + (* attribute *)
      change (attr_text frag) with (frag_text frag). destruct (frag_text frag) as [v|]; [|reflexivity].
      specialize (IH {| did := did x; dchildren := map (edit_attr i v) (dchildren x) |}).
      destruct (first_stop (map snd sel) frag) as [[|]|]; try exact IH.
      destruct IH as (x' & H1 & H2 & H3). exists x'. split; [exact H1|]. split; [exact H2|].
      rewrite H3. unfold root_after, has_doc. cbn [existsb snd orb dchildren]. fold (has_doc sel).
      now rewrite existsb_is_elem_edit_attr.
    + reflexivity.
Qed.

(** total case analysis: the outcome is decided by the kinds of the selected nodes in the order
    given, the replacement, and whether a document element is left *)
Theorem xe_outcome_cases : forall (d : xdoc) (sel : list (nat * kind)) (frag : list fnode),
  match first_stop (map snd sel) frag with
  | Some SUnmodelled => xe_model d sel frag = Unmodelled
  | Some SRefused => xe_model d sel frag = Refused
  | None => if root_after d sel frag
            then exists d', xe_model d sel frag = Done d' /\ did d' = did d
            else xe_model d sel frag = Refused
  end.
Proof.
  intros d sel frag. unfold xe_model. pose proof (xe_loop_cases frag sel d) as H.
  destruct (first_stop (map snd sel) frag) as [[|]|]; try exact H.
  destruct H as (x' & H1 & H2 & H3). rewrite H1. unfold finish. rewrite H3.
  destruct (root_after d sel frag); [|reflexivity]. exists x'. split; [reflexivity|exact H2].
Qed.

(** ** the same without the loop: what each kind of selected node accepts *)
Definition accepts (k : kind) (frag : list fnode) : bool :=
  match k with
  | KOther => false
  | KElem => forallb convertible frag
  | KAttr => match frag_text frag with Some _ => true | None => false end
  | KDoc => forallb convertible frag && doc_accepts (map conv frag)
  end.

Lemma stop_at_accepts k frag : stop_at k frag = None <-> accepts k frag = true.
Proof.
  pose proof (conv_list_cases frag) as Hc. unfold cl_spec in Hc.
  destruct k; cbn [stop_at accepts].
  - destruct (conv_list frag) as [[new|]|]; destruct Hc as [H1 H2]; rewrite H1; cbn [andb].
    + subst new. destruct (doc_accepts (map conv frag)); split; intros H; congruence.
    + split; intros H; discriminate.
    + split; intros H; discriminate.
  - destruct (conv_list frag) as [[new|]|]; destruct Hc as [H1 H2]; rewrite H1; split; intros H; congruence.
  - destruct (frag_text frag); split; intros H; congruence.
  - split; intros H; discriminate.
Qed.

Lemma first_stop_none (sel : list (nat * kind)) frag :
  first_stop (map snd sel) frag = None <-> forallb (fun p => accepts (snd p) frag) sel = true.
Proof.
  induction sel as [|[i k] sel IH]; [split; reflexivity|].
  cbn [map snd first_stop forallb]. pose proof (stop_at_accepts k frag) as Hk.
  destruct (stop_at k frag) as [s|].
  - destruct (accepts k frag); [destruct Hk as [_ Hk]; discriminate (Hk eq_refl)|]. split; intros H; discriminate.
  - destruct Hk as [Hk _]. rewrite (Hk eq_refl). cbn [andb]. exact IH.
Qed.

Theorem xe_done_iff : forall (d : xdoc) (sel : list (nat * kind)) (frag : list fnode),
  (exists d', xe_model d sel frag = Done d') <->
  forallb (fun p => accepts (snd p) frag) sel = true /\ root_after d sel frag = true.
Proof.
  intros d sel frag. pose proof (xe_outcome_cases d sel frag) as H.
  rewrite <- first_stop_none.
  destruct (first_stop (map snd sel) frag) as [[|]|].
  - split; [intros [d' Hd]; congruence|intros [Hx _]; discriminate].
  - split; [intros [d' Hd]; congruence|intros [Hx _]; discriminate].
  - destruct (root_after d sel frag).
    + destruct H as (d' & Hd & _). split; [intros _; split; reflexivity|intros _; exists d'; exact Hd].
    + split; [intros [d' Hd]; congruence|intros [_ Hx]; discriminate].
Qed.

(** reasons, as properties of the selection as a whole *)
Lemma first_stop_some ks frag s : first_stop ks frag = Some s -> exists k, In k ks /\ stop_at k frag = Some s.
Proof.
  induction ks as [|k r IH]; intros H; [discriminate|]. cbn [first_stop] in H.
  destruct (stop_at k frag) as [s'|] eqn:Ek.
  - injection H as <-. exists k. split; [left; reflexivity|exact Ek].
  - destruct (IH H) as (k' & Hin & Hs). exists k'. split; [right; exact Hin|exact Hs].
Qed.

Lemma in_kind_has sel k : In k (map snd sel) ->
  match k with KDoc => has_doc sel | KElem => has_elem sel | KAttr => has_attr sel | KOther => has_other sel end = true.
Proof.
  intros H. apply in_map_iff in H. destruct H as ([i k'] & Hk & Hin). cbn [snd] in Hk. subst k'.
  destruct k; apply existsb_exists; eexists; (split; [exact Hin|reflexivity]).
Qed.

Lemma doc_accepts_children_ok new : doc_children_ok new = doc_accepts new && existsb is_elem new.
Proof.
  unfold doc_children_ok, doc_accepts. fold doc_item. destruct (forallb doc_item new); [|reflexivity]. cbn [andb].
  destruct (existsb is_elem new) eqn:Ee.
  - destruct (Nat.leb_spec (length (filter is_elem new)) 1) as [Hle|Hgt].
    + rewrite (filter_elem_length _ Ee Hle). reflexivity.
    + destruct (Nat.eqb_spec (length (filter is_elem new)) 1); [lia|reflexivity].
  - rewrite andb_false_r. destruct (filter is_elem new) as [|a r] eqn:Ef; [reflexivity|].
    exfalso. assert (Hin : In a (filter is_elem new)) by (rewrite Ef; left; reflexivity).
    apply filter_In in Hin. destruct Hin as [Hin Ha].
    assert (Ht : existsb is_elem new = true) by (apply existsb_exists; exists a; split; assumption).
    congruence.
Qed.

Theorem xe_refused_reasons : forall (d : xdoc) (sel : list (nat * kind)) (frag : list fnode),
  xe_model d sel frag = Refused ->
     has_other sel = true                                           (* a text node, comment, ... is selected *)
  \/ ((has_elem sel || has_doc sel) = true /\ existsb unsupported frag = true)      (* D48 *)
  \/ (has_attr sel = true /\ frag_text frag = None)                (* not a text-only value for an attribute *)
  \/ (has_doc sel = true /\ forallb convertible frag = true /\ doc_children_ok (map conv frag) = false)
  \/ (has_doc sel = false /\ existsb is_elem (dchildren d) = false).
Proof.
  intros d sel frag Hm. pose proof (xe_outcome_cases d sel frag) as H.
  destruct (first_stop (map snd sel) frag) as [[|]|] eqn:Efs.
  - destruct (first_stop_some _ _ _ Efs) as (k & Hin & Hs). pose proof (in_kind_has sel k Hin) as Hk.
    pose proof (conv_list_cases frag) as Hc. unfold cl_spec in Hc.
    destruct k; cbn [stop_at] in Hs.
    + destruct (conv_list frag) as [[new|]|]; destruct Hc as [H1 H2]; try discriminate.
      * destruct (doc_accepts new) eqn:Eok; [discriminate|]. subst new.
        right; right; right; left. repeat split; try assumption.
        rewrite doc_accepts_children_ok, Eok. reflexivity.
      * right; left. rewrite Hk, orb_true_r. split; [reflexivity|exact H2].
    + destruct (conv_list frag) as [[new|]|]; destruct Hc as [H1 H2]; try discriminate.
      right; left. rewrite Hk. split; [reflexivity|exact H2].
    + destruct (frag_text frag) eqn:Eft; [discriminate|]. right; right; left. split; [exact Hk|reflexivity].
    + left. exact Hk.
  - congruence.
  - unfold root_after in H. destruct (has_doc sel) eqn:Edoc.
    + destruct (existsb is_elem (map conv frag)) eqn:Ee; [destruct H as (d' & Hd & _); congruence|].
      apply first_stop_none in Efs.
      assert (Hacc : accepts KDoc frag = true).
      { unfold has_doc in Edoc. apply existsb_exists in Edoc. destruct Edoc as ([i k] & Hin & Hk). cbn [snd] in Hk.
        destruct k; try discriminate. rewrite forallb_forall in Efs. exact (Efs _ Hin). }
      cbn [accepts] in Hacc. apply andb_true_iff in Hacc. destruct Hacc as [Hcv _].
      right; right; right; left. repeat split; try assumption.
      rewrite doc_accepts_children_ok, Ee. apply andb_false_r.
    + destruct (existsb is_elem (dchildren d)) eqn:Ee; [destruct H as (d' & Hd & _); congruence|].
      right; right; right; right. split; reflexivity.
Qed.

Theorem xe_unmodelled_reason : forall (d : xdoc) (sel : list (nat * kind)) (frag : list fnode),
  xe_model d sel frag = Unmodelled ->
  (has_elem sel || has_doc sel) = true /\ existsb prefixed frag = true.
Proof.
  intros d sel frag Hm. pose proof (xe_outcome_cases d sel frag) as H.
  destruct (first_stop (map snd sel) frag) as [[|]|] eqn:Efs.
  - congruence.
  - destruct (first_stop_some _ _ _ Efs) as (k & Hin & Hs). pose proof (in_kind_has sel k Hin) as Hk.
    pose proof (conv_list_cases frag) as Hc. unfold cl_spec in Hc.
    destruct k; cbn [stop_at] in Hs.
    + destruct (conv_list frag) as [[new|]|]; destruct Hc as [H1 H2]; try discriminate.
      * destruct (doc_accepts new); discriminate.
      * rewrite Hk, orb_true_r. split; [reflexivity|exact H2].
    + destruct (conv_list frag) as [[new|]|]; destruct Hc as [H1 H2]; try discriminate.
      rewrite Hk. split; [reflexivity|exact H2].
    + destruct (frag_text frag); discriminate.
    + discriminate.
  - destruct (root_after d sel frag); [destruct H as (d' & Hd & _)|]; congruence.
Qed.

(** none of the reasons is compatible with [Done]: the list is exact *)
Theorem xe_done_excludes_reasons : forall (d : xdoc) (sel : list (nat * kind)) (frag : list fnode) (d' : xdoc),
  xe_model d sel frag = Done d' ->
  has_other sel = false /\
  ((has_elem sel || has_doc sel) = true -> forallb convertible frag = true /\ existsb unsupported frag = false
                                           /\ existsb prefixed frag = false) /\
  (has_attr sel = true -> frag_text frag <> None) /\
  (has_doc sel = true -> doc_children_ok (map conv frag) = true) /\
  (has_doc sel = false -> existsb is_elem (dchildren d) = true).
Proof.
  intros d sel frag d' Hm.
  destruct (proj1 (xe_done_iff d sel frag) (ex_intro _ d' Hm)) as [Hacc Hroot].
  rewrite forallb_forall in Hacc.
  assert (Hk : forall k, match k with KDoc => has_doc sel | KElem => has_elem sel | KAttr => has_attr sel | KOther => has_other sel end = true ->
                         accepts k frag = true).
  { intros k Hh. assert (He : exists p, In p sel /\ snd p = k).
    { destruct k; apply existsb_exists in Hh; destruct Hh as ([i k'] & Hin & Hk'); cbn [snd] in Hk';
        destruct k'; try discriminate; eexists; split; try exact Hin; reflexivity. }
    destruct He as (p & Hin & <-). exact (Hacc p Hin). }
  assert (Hconv : forallb convertible frag = true -> existsb unsupported frag = false /\ existsb prefixed frag = false).
  { intros Hcv.
    (* a convertible item is neither unsupported nor prefixed *)
    assert (Hf : forall f, convertible f = true -> unsupported f = false /\ prefixed f = false).
    { induction f as [name attrs ch IH|s|s|s|t dd|nm|] using fnode_ind'; cbn [convertible unsupported prefixed];
        intros Hx; try discriminate; try (split; reflexivity).
      - apply andb_true_iff in Hx. destruct Hx as [Hn Hch]. apply negb_true_iff in Hn. rewrite Hn. cbn [orb].
        rewrite forallb_forall in Hch. rewrite Forall_forall in IH.
        split; apply not_true_is_false; intros Hex; apply existsb_exists in Hex; destruct Hex as (c & Hin & Hc');
          destruct (IH c Hin (Hch c Hin)) as [I1 I2]; congruence.
      - destruct (predefined nm); [split; reflexivity|discriminate]. }
    rewrite forallb_forall in Hcv.
    split; apply not_true_is_false; intros Hex; apply existsb_exists in Hex; destruct Hex as (c & Hin & Hc');
      destruct (Hf c (Hcv c Hin)) as [I1 I2]; congruence. }
  split; [|split; [|split; [|split]]].
  - apply not_true_is_false. intros Eo. pose proof (Hk KOther Eo) as H. discriminate.
  - intros Hh. apply orb_true_iff in Hh.
    assert (Hcv : forallb convertible frag = true).
    { destruct Hh as [Hh|Hh]; [exact (Hk KElem Hh)|]. pose proof (Hk KDoc Hh) as H. cbn [accepts] in H.
      apply andb_true_iff in H. exact (proj1 H). }
    destruct (Hconv Hcv) as [H1 H2]. repeat split; assumption.
  - intros Hh. pose proof (Hk KAttr Hh) as H. cbn [accepts] in H. destruct (frag_text frag); discriminate.
  - intros Hh. pose proof (Hk KDoc Hh) as H. cbn [accepts] in H. apply andb_true_iff in H. destruct H as [_ Hok].
    unfold root_after in Hroot. rewrite Hh in Hroot. rewrite doc_accepts_children_ok, Hok, Hroot. reflexivity.
  - intros Hh. unfold root_after in Hroot. rewrite Hh in Hroot. exact Hroot.
Qed.

(** completeness: where the specification is defined, the loop answers that document, or one of
    the two other answers (whose reasons are listed above) *)
Theorem xe_complete : forall (d : xdoc) (sel : list (nat * kind)) (frag : list fnode) (d' : xdoc),
  did d = 0 -> sel_wf sel ->
  (has_doc sel = false -> Forall (kinds_ok (rev (elems_of sel)) (rev (attrs_of sel))) (dchildren d)) ->
  replace_spec (map fst sel) frag d = Some d' ->
  xe_model d sel frag = Done d' \/ xe_model d sel frag = Refused \/ xe_model d sel frag = Unmodelled.
Proof.
  intros d sel frag d' Hd Hwf Hkinds Hs.
  destruct (xe_model d sel frag) as [d''| |] eqn:Em; [left|right; left; reflexivity|right; right; reflexivity].
  pose proof (xe_effect_any d sel frag d'' Hd Hwf Hkinds Em) as H. congruence.
Qed.

(** ** examples *)

(** the hypotheses of [xe_effect_any] hold for: an element, then the document node, then an element
    nested in the first, an attribute-free duplicate of the document node, an identifier that does
    not occur *)
Example xe_any_hypotheses :
  let d := {| did := 0; dchildren := [Cm [116%N]; E 1 [114%N] [] [E 2 [97%N] [(3, [112%N], [49%N])] [T [120%N]; E 4 [97%N] [] []]; E 5 [99%N] [] []]] |} in
  let sel := [(2, KElem); (0, KDoc); (4, KElem); (0, KDoc); (77, KElem)] in
  let frag := [FC [99%N]; FE [107%N] [([97%N], [49%N])] [FT [121%N]; FCd []; FR [108%N; 116%N]]] in
  did d = 0 /\ sel_wf sel /\
  (has_doc sel = false -> Forall (kinds_ok (rev (elems_of sel)) (rev (attrs_of sel))) (dchildren d)) /\
  xe_model d sel frag = Done {| did := 0; dchildren := [Cm [99%N]; E 0 [107%N] [(0, [97%N], [49%N])] [T [121%N; 60%N]]] |}.
Proof.
  cbv zeta. split; [reflexivity|]. split; [|split].
  - repeat constructor; cbn; discriminate.
  - intros H. discriminate H.
  - vm_compute. reflexivity.
Qed.

(** document node AFTER an element and an attribute were edited: everything is replaced *)
Example xe_any_doc_last :
  let d := {| did := 0; dchildren := [E 1 [114%N] [(2, [112%N], [49%N])] [E 3 [97%N] [] []]] |} in
  xe_model d [(3, KElem); (0, KDoc)] [FE [107%N] [] []] = Done {| did := 0; dchildren := [E 0 [107%N] [] []] |}
  /\ replace_spec [3; 0] [FE [107%N] [] []] d = Some {| did := 0; dchildren := [E 0 [107%N] [] []] |}.
Proof. split; vm_compute; reflexivity. Qed.

(** Where [replace_spec] is defined and the loop answers Refused although nothing is unsupported:
    the three shapes.  (1) a selected attribute the specification does not reach -- it lies below
    a selected element -- and a replacement that is no attribute value; (2) the same below the
    selected document node; (3) an empty CDATA section next to the element under the document
    node: no node in the merged view, a node for the tool. *)
Example xe_refused_spec_defined_nested_attr :
  let d := {| did := 0; dchildren := [E 1 [114%N] [] [E 2 [97%N] [] [E 3 [98%N] [(4, [112%N], [49%N])] []]]] |} in
  let sel := [(2, KElem); (4, KAttr)] in
  let frag := [FE [107%N] [] []] in
  did d = 0 /\ sel_wf sel /\ Forall (kinds_ok (rev (elems_of sel)) (rev (attrs_of sel))) (dchildren d) /\
  xe_model d sel frag = Refused /\
  replace_spec (map fst sel) frag d = Some {| did := 0; dchildren := [E 1 [114%N] [] [E 2 [97%N] [] [E 0 [107%N] [] []]]] |}.
Proof.
  cbv zeta. split; [reflexivity|]. split; [repeat constructor; cbn; discriminate|]. split; [|split; vm_compute; reflexivity].
  repeat (constructor; cbn; repeat split; try reflexivity).
Qed.

Example xe_refused_spec_defined_doc_attr :
  let d := {| did := 0; dchildren := [E 1 [114%N] [(2, [112%N], [49%N])] []] |} in
  let sel := [(0, KDoc); (2, KAttr)] in
  let frag := [FE [107%N] [] []] in
  did d = 0 /\ sel_wf sel /\ xe_model d sel frag = Refused /\
  replace_spec (map fst sel) frag d = Some {| did := 0; dchildren := [E 0 [107%N] [] []] |}.
Proof.
  cbv zeta. split; [reflexivity|]. split; [repeat constructor; cbn; discriminate|]. split; vm_compute; reflexivity.
Qed.

Example xe_refused_spec_defined_empty_cdata :
  let d := {| did := 0; dchildren := [E 1 [114%N] [] []] |} in
  let sel := [(0, KDoc)] in
  let frag := [FCd []; FE [107%N] [] []] in
  did d = 0 /\ sel_wf sel /\ xe_model d sel frag = Refused /\
  replace_spec (map fst sel) frag d = Some {| did := 0; dchildren := [E 0 [107%N] [] []] |}.
Proof.
  cbv zeta. split; [reflexivity|]. split; [repeat constructor|]. split; vm_compute; reflexivity.
Qed.

Theorem xe_refused_where_spec_defined :
  (exists d sel frag d', did d = 0 /\ sel_wf sel /\
     Forall (kinds_ok (rev (elems_of sel)) (rev (attrs_of sel))) (dchildren d) /\
     has_doc sel = false /\ existsb unsupported frag = false /\
     xe_model d sel frag = Refused /\ replace_spec (map fst sel) frag d = Some d') /\
  (exists d sel frag d', did d = 0 /\ sel_wf sel /\ has_doc sel = true /\ has_attr sel = true /\
     existsb unsupported frag = false /\
     xe_model d sel frag = Refused /\ replace_spec (map fst sel) frag d = Some d') /\
  (exists d frag d', did d = 0 /\ existsb unsupported frag = false /\
     xe_model d [(0, KDoc)] frag = Refused /\ replace_spec [0] frag d = Some d').
Proof.
  split; [|split].
  - pose proof xe_refused_spec_defined_nested_attr as H. cbv zeta in H. destruct H as (H1 & H2 & H3 & H4 & H5).
    do 4 eexists. repeat split; try eassumption; reflexivity.
  - pose proof xe_refused_spec_defined_doc_attr as H. cbv zeta in H. destruct H as (H1 & H2 & H3 & H4).
    do 4 eexists. repeat split; try eassumption; reflexivity.
  - pose proof xe_refused_spec_defined_empty_cdata as H. cbv zeta in H. destruct H as (H1 & H2 & H3 & H4).
    do 3 eexists. repeat split; try eassumption; reflexivity.
Qed.

(** * The stricter specification (Spec/XeStrict.v): the tool answers a document exactly when
    [replace_spec_strict] does *)
Theorem strict_refines : forall sel frag d d',
  replace_spec_strict sel frag d = Some d' -> replace_spec sel frag d = Some d'.
Proof.
  intros sel frag d d'. unfold replace_spec_strict.
  destruct (existsb (attr_sel sel) (dchildren d) && _); [discriminate|].
  destruct (memb (did d) sel && _); [discriminate|]. exact (fun H => H).
Qed.

(** a selected attribute and a replacement that is no attribute value: never [Done], wherever the
    attribute lies (below another selected node, or nowhere) *)
Theorem xe_attr_needs_text : forall (d : xdoc) (sel : list (nat * kind)) (frag : list fnode) (d' : xdoc),
  has_attr sel = true -> frag_text frag = None -> xe_model d sel frag <> Done d'.
Proof.
  intros d sel frag d' Ha Hf Hm.
  destruct (xe_done_excludes_reasons d sel frag d' Hm) as (_ & _ & H & _). exact (H Ha Hf).
Qed.

(** attribute identifiers of the document are not 0 (0 is the document node) *)
Fixpoint attr_ids_nz (n : xn) : bool :=
  match n with
  | E _ _ attrs ch => forallb (fun a => negb (Nat.eqb (fst (fst a)) 0)) attrs && forallb attr_ids_nz ch
  | _ => true
  end.

Lemma memb_sel_kinds sel i : sel_wf sel -> has_other sel = false -> i <> 0 ->
  memb i (map fst sel) = true -> memb i (elems_of sel) = true \/ has_attr sel = true.
Proof.
  intros Hwf. induction Hwf as [|[j k] r Hw1 Hw2 IH]; intros Ho Hi Hm; [discriminate|].
  cbn [map fst] in Hm. rewrite memb_cons in Hm. cbn [fst snd] in Hw1.
  unfold has_other in Ho. cbn [existsb snd] in Ho.
  unfold elems_of, has_attr. cbn [filter snd existsb].
  destruct k; cbn [orb] in Ho |- *; try discriminate.
  - subst j. destruct (Nat.eqb_spec i 0) as [E0|_]; [contradiction|]. cbn [orb] in Hm. exact (IH Ho Hi Hm).
  - cbn [map fst]. rewrite memb_cons. destruct (Nat.eqb i j); [left; reflexivity|]. cbn [orb] in Hm |- *.
    exact (IH Ho Hi Hm).
  - right. reflexivity.
Qed.

Lemma memb_zero_has_doc sel : sel_wf sel -> has_other sel = false -> memb 0 (map fst sel) = true -> has_doc sel = true.
Proof.
  intros Hwf. induction Hwf as [|[j k] r Hw1 Hw2 IH]; intros Ho Hm; [discriminate|].
  cbn [map fst] in Hm. rewrite memb_cons in Hm. cbn [fst snd] in Hw1.
  unfold has_other in Ho. cbn [existsb snd] in Ho. unfold has_doc. cbn [existsb snd].
  destruct k; cbn [orb] in Ho |- *; try discriminate; try reflexivity.
  - destruct (Nat.eqb_spec 0 j) as [E0|_]; [symmetry in E0; contradiction|]. cbn [orb] in Hm. exact (IH Ho Hm).
  - destruct (Nat.eqb_spec 0 j) as [E0|_]; [symmetry in E0; contradiction|]. cbn [orb] in Hm. exact (IH Ho Hm).
Qed.

Lemma attr_sel_has_attr sel : sel_wf sel -> has_other sel = false ->
  forall n, attr_ids_nz n = true -> kinds_ok (rev (elems_of sel)) (rev (attrs_of sel)) n ->
  attr_sel (map fst sel) n = true -> has_attr sel = true.
Proof.
  intros Hwf Ho. induction n as [j name attrs ch IH|s|s|t dd|m|s|s] using xn_ind'; intros Hnz Hk Hs;
    try discriminate.
  cbn [attr_ids_nz] in Hnz. apply andb_true_iff in Hnz. destruct Hnz as [Hnza Hnzc].
  apply kinds_ok_E in Hk. destruct Hk as (_ & Hka & Hkc).
  cbn [attr_sel] in Hs. apply orb_true_iff in Hs. destruct Hs as [Hs|Hs].
  - apply existsb_exists in Hs. destruct Hs as (a & Hin & Hm).
    rewrite forallb_forall in Hnza. pose proof (Hnza a Hin) as Hnz. apply negb_true_iff in Hnz. apply Nat.eqb_neq in Hnz.
    rewrite Forall_forall in Hka. pose proof (Hka a Hin) as Hne. cbn beta in Hne. rewrite memb_rev in Hne.
    destruct (memb_sel_kinds sel _ Hwf Ho Hnz Hm) as [He|Ha]; [congruence|exact Ha].
  - apply existsb_exists in Hs. destruct Hs as (c & Hin & Hc).
    rewrite Forall_forall in IH, Hkc. rewrite forallb_forall in Hnzc.
    exact (IH c Hin (Hnzc c Hin) (Hkc c Hin) Hc).
Qed.

(** identifiers as the dump assigns them *)
Definition dump_ok (d : xdoc) (sel : list (nat * kind)) : Prop :=
  did d = 0 /\ sel_wf sel /\ forallb attr_ids_nz (dchildren d) = true /\
  Forall (kinds_ok (rev (elems_of sel)) (rev (attrs_of sel))) (dchildren d).

Theorem xe_effect_strict : forall (d : xdoc) (sel : list (nat * kind)) (frag : list fnode) (d' : xdoc),
  dump_ok d sel ->
  xe_model d sel frag = Done d' -> replace_spec_strict (map fst sel) frag d = Some d'.
Proof.
  intros d sel frag d' (Hd & Hwf & Hnz & Hkinds) Hm.
  pose proof (xe_effect_any d sel frag d' Hd Hwf (fun _ => Hkinds) Hm) as Hs.
  destruct (xe_done_excludes_reasons d sel frag d' Hm) as (Ho & _ & Hat & Hdoc & _).
  unfold replace_spec_strict.
  destruct (existsb (attr_sel (map fst sel)) (dchildren d)) eqn:Ea; cbn [andb].
  - apply existsb_exists in Ea. destruct Ea as (n & Hin & Hn).
    rewrite forallb_forall in Hnz. rewrite Forall_forall in Hkinds.
    pose proof (attr_sel_has_attr sel Hwf Ho n (Hnz n Hin) (Hkinds n Hin) Hn) as Ha.
    destruct (frag_text frag) eqn:Eft; [|exfalso; exact (Hat Ha eq_refl)].
    destruct (memb (did d) (map fst sel)) eqn:Em; cbn [andb]; [|exact Hs].
    rewrite Hd in Em. rewrite (Hdoc (memb_zero_has_doc sel Hwf Ho Em)). exact Hs.
  - destruct (memb (did d) (map fst sel)) eqn:Em; cbn [andb]; [|exact Hs].
    rewrite Hd in Em. rewrite (Hdoc (memb_zero_has_doc sel Hwf Ho Em)). exact Hs.
Qed.

Theorem xe_strict_complete : forall (d : xdoc) (sel : list (nat * kind)) (frag : list fnode) (d' : xdoc),
  did d = 0 -> sel_wf sel ->
  has_other sel = false ->                                          (* elements, attributes, the document node *)
  ((has_elem sel || has_doc sel) = true -> forallb convertible frag = true) ->       (* outside D48 *)
  (has_attr sel = true -> existsb (attr_sel (map fst sel)) (dchildren d) = true) ->  (* a selected attribute occurs *)
  (has_doc sel = false -> existsb is_elem (dchildren d) = true) ->  (* the input has a document element *)
  replace_spec_strict (map fst sel) frag d = Some d' ->
  exists d'', xe_model d sel frag = Done d''.
Proof.
  intros d sel frag d' Hd Hwf Ho Hconv Hocc Hroot Hs.
  apply xe_done_iff. unfold replace_spec_strict in Hs.
  assert (Hat : has_attr sel = true -> exists v, frag_text frag = Some v).
  { intros Ha. rewrite (Hocc Ha) in Hs. cbn [andb] in Hs. destruct (frag_text frag) as [v|]; [eauto|discriminate]. }
  assert (Hdoc : has_doc sel = true -> doc_children_ok (map conv frag) = true).
  { intros Hh. destruct (existsb (attr_sel (map fst sel)) (dchildren d) && _); [discriminate|].
    rewrite Hd, (has_doc_memb sel Hwf Hh) in Hs. cbn [andb] in Hs.
    destruct (doc_children_ok (map conv frag)); [reflexivity|discriminate]. }
  split.
  - apply forallb_forall. intros [i k] Hin. cbn [snd].
    assert (Hk : match k with KDoc => has_doc sel | KElem => has_elem sel | KAttr => has_attr sel | KOther => has_other sel end = true).
    { apply in_kind_has. apply in_map_iff. exists (i, k). split; [reflexivity|exact Hin]. }
    destruct k; cbn [accepts].
    + rewrite Hconv by (rewrite Hk; apply orb_true_r). cbn [andb].
      pose proof (Hdoc Hk) as H. rewrite doc_accepts_children_ok in H. apply andb_true_iff in H. exact (proj1 H).
    + apply Hconv. rewrite Hk. reflexivity.
    + destruct (Hat Hk) as [v Hv]. now rewrite Hv.
    + congruence.
  - unfold root_after. destruct (has_doc sel) eqn:Edoc; [|exact (Hroot eq_refl)].
    pose proof (Hdoc eq_refl) as H. rewrite doc_accepts_children_ok in H. apply andb_true_iff in H. exact (proj2 H).
Qed.

(** the tool answers a document exactly when the strict specification does, and then the same *)
Theorem xe_done_iff_strict : forall (d : xdoc) (sel : list (nat * kind)) (frag : list fnode) (d' : xdoc),
  dump_ok d sel ->
  has_other sel = false ->
  ((has_elem sel || has_doc sel) = true -> forallb convertible frag = true) ->
  (has_attr sel = true -> existsb (attr_sel (map fst sel)) (dchildren d) = true) ->
  (has_doc sel = false -> existsb is_elem (dchildren d) = true) ->
  (xe_model d sel frag = Done d' <-> replace_spec_strict (map fst sel) frag d = Some d').
Proof.
  intros d sel frag d' Hdump Ho Hconv Hocc Hroot. split.
  - exact (xe_effect_strict d sel frag d' Hdump).
  - intros Hs. destruct Hdump as (Hd & Hwf & Hnz & Hkinds).
    destruct (xe_strict_complete d sel frag d' Hd Hwf Ho Hconv Hocc Hroot Hs) as [d'' Hm].
    pose proof (xe_effect_strict d sel frag d'' (conj Hd (conj Hwf (conj Hnz Hkinds))) Hm) as Hs'. congruence.
Qed.

(** the hypotheses of [xe_done_iff_strict] hold on the coordinator's shape (`//*|//@*` on
    `<a><x1 id='1'/></a>` with `two<k/><k/>`): both sides say no; and on a text value: both say yes *)
Example xe_strict_hypotheses :
  let d := {| did := 0; dchildren := [E 1 [97%N] [] [E 2 [120%N; 49%N] [(3, [105%N; 100%N], [49%N])] []]] |} in
  let sel := [(1, KElem); (2, KElem); (3, KAttr)] in
  let markup := [FT [116%N]; FE [107%N] [] []; FE [107%N] [] []] in
  let text := [FT [116%N]; FR [97%N; 109%N; 112%N]] in
  dump_ok d sel /\ has_other sel = false /\
  ((has_elem sel || has_doc sel) = true -> forallb convertible markup = true) /\
  ((has_elem sel || has_doc sel) = true -> forallb convertible text = true) /\
  (has_attr sel = true -> existsb (attr_sel (map fst sel)) (dchildren d) = true) /\
  (has_doc sel = false -> existsb is_elem (dchildren d) = true) /\
  xe_model d sel markup = Refused /\ replace_spec_strict (map fst sel) markup d = None /\
  (exists d', replace_spec (map fst sel) markup d = Some d') /\
  xe_model d sel text = Done {| did := 0; dchildren := [E 1 [97%N] [] [T [116%N; 38%N]]] |} /\
  replace_spec_strict (map fst sel) text d = Some {| did := 0; dchildren := [E 1 [97%N] [] [T [116%N; 38%N]]] |}.
Proof.
  cbv zeta. split; [|repeat split; try (intros _; reflexivity); try (vm_compute; reflexivity)].
  - split; [reflexivity|]. split; [repeat constructor; cbn; discriminate|]. split; [reflexivity|].
    repeat (constructor; cbn; repeat split; try reflexivity).
  - eexists. vm_compute. reflexivity.
Qed.
