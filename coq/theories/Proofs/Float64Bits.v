(** every 64-bit pattern decodes to an IEEE double ([valid_binary]): the numbers that enter the
    models through the wire protocol satisfy the hypothesis of the refinement theorems *)
From Coq Require Import ZArith NArith List Bool Lia.
From Coq Require Import Floats.SpecFloat.
From XmlRs Require Import Base.CPred Base.Float64 Proofs.XPathFuncsRound.
Open Scope Z_scope.

Lemma bounded_intro m e : fexp prec emax (Zpos (digits2_pos m) + e) = e -> e <= emax - prec ->
  bounded prec emax m e = true.
Proof.
  intros H1 H2. unfold bounded, canonical_mantissa. rewrite H1.
  rewrite andb_true_iff. split; [apply Zeq_is_eq_bool; reflexivity|now apply Z.leb_le].
Qed.

Theorem of_bits_valid z : valid_binary prec emax (f64_of_bits z) = true.
Proof.
  unfold f64_of_bits.
  set (ex := (z / 2 ^ 52) mod 2 ^ 11). set (mant := z mod 2 ^ 52).
  assert (Hex : 0 <= ex < 2 ^ 11) by (apply Z.mod_pos_bound; reflexivity).
  assert (Hm : 0 <= mant < 2 ^ 52) by (apply Z.mod_pos_bound; reflexivity).
  destruct (Z.eqb_spec ex 0) as [E0|E0].
  - destruct mant as [|p|p] eqn:Ep; try reflexivity. cbn [valid_binary].
    pose proof (digits_bounds p) as [B1 B2]. set (dp := Zpos (digits2_pos p)) in *.
    assert (dp <= 52).
    { destruct (Z.le_gt_cases dp 52) as [H|H]; [exact H|exfalso].
      assert (2 ^ 52 <= 2 ^ (dp - 1)) by (apply Z.pow_le_mono_r; lia). lia. }
    apply bounded_intro; unfold fexp, emin, prec, emax; fold dp; lia.
  - destruct (Z.eqb_spec ex 2047) as [E1|E1]; [destruct (mant =? 0); reflexivity|].
    destruct (mant + 2 ^ 52) as [|p|p] eqn:Ep; try reflexivity. cbn [valid_binary].
    pose proof (digits_bounds p) as [B1 B2]. set (dp := Zpos (digits2_pos p)) in *.
    assert (Hp : 2 ^ 52 <= Zpos p < 2 ^ 53).
    { rewrite <- Ep. change (2 ^ 53) with (2 ^ 52 + 2 ^ 52). lia. }
    assert (dp = 53).
    { assert (dp <= 53).
      { destruct (Z.le_gt_cases dp 53) as [H|H]; [exact H|exfalso].
        assert (2 ^ 53 <= 2 ^ (dp - 1)) by (apply Z.pow_le_mono_r; lia). lia. }
      assert (53 <= dp).
      { destruct (Z.le_gt_cases 53 dp) as [H'|H']; [exact H'|exfalso].
        assert (2 ^ dp <= 2 ^ 52) by (apply Z.pow_le_mono_r; lia). lia. }
      lia. }
    change (2 ^ 11) with 2048 in Hex.
    apply bounded_intro; unfold fexp, emin, prec, emax; fold dp; lia.
Qed.
