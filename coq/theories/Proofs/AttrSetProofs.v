(** * C11: the attribute set of an element -- defaulting from all attribute-list declarations.
    The model materialises [#REQUIRED] attributes that are not written (defect D36, pinned by an existing
    test of /repo): the refinement holds outside [Known36] and is refuted inside. *)
From Coq Require Import List NArith Bool Lia.
From XmlRs Require Import Base.CPred Spec.AttrNorm Model.AttrModel Proofs.AttrTokenProofs Proofs.AttrNormProofs.
Import ListNotations.
Open Scope N_scope.

Definition of_item (a : attr_item) : m_attr :=
  {| ma_name := ai_name a; ma_value := ai_value a; ma_ispec := ai_specified a;
     ma_dspec := ai_specified a; ma_type := ai_type a |}.

Definition map_ares {A B} (f : A -> B) (x : ares A) : ares B := bind x (fun a => Ok (f a)).

(** finding class D36: a [#REQUIRED] definition (after merging) whose attribute is not written *)
Definition is_written (written : list (name * list piece)) (a : name) : bool :=
  existsb (fun nl => str_eqb (fst nl) a) written.
Definition Known36 (d : dtd_doc) (el : name) (written : list (name * list piece)) : bool :=
  existsb (fun x => match ad_default x with Required => negb (is_written written (ad_name x)) | _ => false end)
          (defs_for d el).

(** no attribute-list declaration declares a namespace declaration ([xmlns], [xmlns:p]): a hypothesis of the
    theorems until /repo commit bf629dc (D67); kept for the examples *)
Definition no_ns_defs (d : dtd_doc) (el : name) : Prop :=
  forall x, In x (defs_for d el) -> is_nsdecl (ad_name x) = false.

(** ** the merged definitions *)
Lemma push_defs_add atts : forall defs, m_push_defs defs atts = add_defs defs atts.
Proof. induction atts as [|a r IH]; intros defs; [reflexivity|]. cbn [m_push_defs add_defs]. rewrite !IH. reflexivity. Qed.

Lemma att_defs_merged d el : forall acc, declaration_att_defs acc d el = merged_defs acc d el.
Proof.
  induction d as [|x r IH]; intros acc; [reflexivity|].
  destruct x as [n lit|e defs]; cbn [declaration_att_defs merged_defs]; rewrite ?push_defs_add, !IH; reflexivity.
Qed.

Definition names_of (defs : list attdef) : list name := map ad_name defs.

Lemma existsb_name_in (defs : list attdef) a :
  existsb (fun x => str_eqb (ad_name x) a) defs = false -> ~ In a (names_of defs).
Proof.
  induction defs as [|x r IH]; cbn [existsb names_of map]; [intros _ []|].
  intros H [E|Hin]; apply orb_false_iff in H as [H1 H2].
  - rewrite E, str_eqb_refl in H1. discriminate.
  - exact (IH H2 Hin).
Qed.

Lemma nodup_snoc {A} (l : list A) a : NoDup l -> ~ In a l -> NoDup (l ++ [a]).
Proof.
  induction l as [|x r IH]; intros Hnd Hin; cbn [app]; [constructor; [intros []|constructor]|].
  inversion Hnd as [|? ? Hx Hr]; subst. constructor.
  - intros H. apply in_app_or in H as [H|[<-|[]]]; [exact (Hx H)|]. apply Hin. left. reflexivity.
  - apply IH; [exact Hr|]. intros H. apply Hin. right. exact H.
Qed.

Lemma add_defs_nodup defs : forall acc, NoDup (names_of acc) -> NoDup (names_of (add_defs acc defs)).
Proof.
  induction defs as [|x r IH]; intros acc H; [exact H|]. cbn [add_defs].
  destruct (existsb (fun y => str_eqb (ad_name y) (ad_name x)) acc) eqn:E; [apply IH; exact H|].
  apply IH. unfold names_of. rewrite map_app. cbn [map].
  apply nodup_snoc; [exact H|]. apply existsb_name_in. exact E.
Qed.

Lemma merged_defs_nodup d el : forall acc, NoDup (names_of acc) -> NoDup (names_of (merged_defs acc d el)).
Proof.
  induction d as [|x r IH]; intros acc H; [exact H|].
  destruct x as [n lit|e defs]; cbn [merged_defs]; [apply IH; exact H|].
  destruct (str_eqb e el); apply IH; [apply add_defs_nodup|]; exact H.
Qed.

Lemma defs_for_nodup d el : NoDup (names_of (defs_for d el)).
Proof. apply merged_defs_nodup. constructor. Qed.

Lemma find_nodup (defs : list attdef) x :
  NoDup (names_of defs) -> In x defs -> find (fun v => str_eqb (ad_name v) (ad_name x)) defs = Some x.
Proof.
  induction defs as [|y r IH]; intros Hnd Hin; [destruct Hin|].
  cbn [names_of map] in Hnd. inversion Hnd as [|? ? Hy Hr]; subst. cbn [find].
  destruct Hin as [->|Hin]; [rewrite str_eqb_refl; reflexivity|].
  destruct (str_eqb (ad_name y) (ad_name x)) eqn:E.
  - exfalso. apply str_eqb_eq in E. apply Hy. rewrite E. apply in_map. exact Hin.
  - apply IH; assumption.
Qed.

(** ** the checks made when the nodes are built pass on well-formed tables, and so do the specification's *)
Lemma predefined_agree n : (match m_predefined n with Some _ => true | None => false end)
                         = (match predefined n with Some _ => true | None => false end).
Proof.
  unfold m_predefined, predefined.
  destruct (str_eqb n n_lt); [reflexivity|]. destruct (str_eqb n n_gt); [reflexivity|].
  destruct (str_eqb n n_amp); [reflexivity|]. destruct (str_eqb n n_apos); [reflexivity|].
  destruct (str_eqb n n_quot); reflexivity.
Qed.

Lemma forallb_ext {A} (f g : A -> bool) l : (forall a, f a = g a) -> forallb f l = forallb g l.
Proof. intros H. induction l as [|x r IH]; [reflexivity|]. cbn [forallb]. rewrite H, IH. reflexivity. Qed.

Lemma no_lt_text (s : str) : forallb (fun c => negb (markup_char c)) s = true -> existsb (fun c => c =? 60) s = false.
Proof.
  induction s as [|c r IH]; intros H; [reflexivity|]. cbn [forallb existsb] in *.
  apply andb_prop in H as [Hc Hr]. unfold markup_char in Hc. apply negb_true_iff, orb_false_iff in Hc as [_ H60].
  rewrite H60, IH by exact Hr. reflexivity.
Qed.

Lemma check_loop_ok (rec : name -> ares unit) (vals : list piece) :
  forallb simple_piece vals = true -> (forall m, In m (refs_of vals) -> rec m = Ok tt) -> check_loop rec vals = Ok tt.
Proof.
  induction vals as [|p r IH]; intros Hs Hr; [reflexivity|].
  cbn [forallb] in Hs. apply andb_prop in Hs as [Hp Hs]. destruct p as [s|c|v]; cbn [check_loop simple_piece] in *.
  - rewrite (no_lt_text s Hp). apply IH; [exact Hs|exact Hr].
  - unfold markup_char in Hp. apply negb_true_iff, orb_false_iff in Hp as [_ H60]. rewrite H60.
    apply IH; [exact Hs|exact Hr].
  - rewrite (Hr v) by (cbn [refs_of flat_map app]; left; reflexivity). cbn [bind].
    apply IH; [exact Hs|]. intros m Hm. apply Hr. cbn [refs_of flat_map app]. right. exact Hm.
Qed.

Lemma check_entity_ok (T : table) : wf_table T ->
  forall fuel n visiting,
    (declared T n <> None \/ predefined n <> None) ->
    NoDup visiting ->
    (forall p, In p visiting -> declared T p <> None /\ reaches T p n) ->
    (length visiting + fuel > length T)%nat ->
    check_entity_ref fuel T visiting n = Ok tt.
Proof.
  intros Hwf. induction fuel as [|f IH]; intros n visiting Hn Hnd Hv Hlen.
  - exfalso. assert (Hincl : incl visiting (map fst T)).
    { intros p Hp. apply declared_name_in. apply (Hv p Hp). }
    pose proof (NoDup_incl_length Hnd Hincl) as Hle. rewrite map_length in Hle. lia.
  - cbn [check_entity_ref]. rewrite find_entity_declared.
    destruct (declared T n) as [lit|] eqn:E.
    + destruct (existsb (str_eqb n) visiting) eqn:Ex.
      { exfalso. apply existsb_str_in in Ex. exact (wf_acyclic T Hwf n (proj2 (Hv n Ex))). }
      pose proof (declared_in _ _ _ E) as Hin.
      apply check_loop_ok; [exact (wf_simple T Hwf n lit Hin)|]. intros m Hm.
      assert (Hnm : refers T n m) by (exists lit; auto).
      apply IH.
      * exact (wf_declared T Hwf n lit m Hin Hm).
      * apply nodup_snoc; [exact Hnd|]. intros Hp. exact (wf_acyclic T Hwf n (proj2 (Hv n Hp))).
      * intros p Hp. apply in_app_or in Hp as [Hp|[<-|[]]].
        -- destruct (Hv p Hp) as [Hd Hr]. split; [exact Hd|]. eapply reaches_snoc; eauto.
        -- split; [congruence|apply reach_step; exact Hnm].
      * rewrite app_length. cbn [length]. lia.
    + destruct Hn as [Hn|Hn]; [congruence|]. pose proof (predefined_agree n) as Ha.
      destruct (m_predefined n); [reflexivity|]. destruct (predefined n); [discriminate|congruence].
Qed.

Lemma refs_found_ok (T : table) lit : wf_table T -> lit_declared T lit -> m_refs_found T lit = true.
Proof.
  intros Hwf Hl. unfold m_refs_found. apply forallb_forall. intros p Hp. destruct p as [s|c|n]; try reflexivity.
  rewrite (check_entity_ok T Hwf (S (length T)) n []); [reflexivity| |constructor|intros q []|cbn [length]; lia].
  apply Hl. apply in_flat_map. exists (EntRef n). split; [exact Hp|left; reflexivity].
Qed.

Lemma lit_expands_ok (T : table) lit : wf_table T -> lit_declared T lit -> lit_expands T lit = true.
Proof.
  intros Hwf Hl. unfold lit_expands. destruct (fuel_suffices_proof T None lit Hwf Hl) as [s Hs].
  unfold spec_value, spec_value_f in Hs. apply bind_ok in Hs as (v & Hv & _). rewrite Hv. reflexivity.
Qed.

(** the documents the refinement theorem speaks about: the general entities are declared before the
    attribute-list declarations, the entity table is well-formed, every literal refers to declared entities *)
Definition is_attlist (x : decl) : bool := match x with DAttlist _ _ => true | DEntity _ _ => false end.
Fixpoint entities_first (d : dtd_doc) : bool :=
  match d with
  | [] => true
  | DEntity _ _ :: r => entities_first r
  | DAttlist _ _ :: r => forallb is_attlist r
  end.
Definition default_lits (d : dtd_doc) : list (list piece) :=
  flat_map (fun x => match x with
                     | DAttlist _ defs => flat_map (fun a => match ad_default a with Default _ lit => [lit] | _ => [] end) defs
                     | DEntity _ _ => [] end) d.
Record doc_wf (d : dtd_doc) (written : list (name * list piece)) : Prop := {
  dw_first : entities_first d = true;
  dw_table : wf_table (entities_of d);
  dw_defaults : forall lit, In lit (default_lits d) -> lit_declared (entities_of d) lit;
  dw_written : forall nl, In nl written -> lit_declared (entities_of d) (snd nl)
}.

Lemma attlists_no_entities r : forallb is_attlist r = true -> entities_of r = [].
Proof.
  induction r as [|x r IH]; intros H; [reflexivity|]. cbn [forallb] in H. apply andb_prop in H as [Hx Hr].
  destruct x; [discriminate|]. cbn [entities_of]. auto.
Qed.

Lemma attlists_checks (T : table) r : wf_table T -> forallb is_attlist r = true ->
  (forall lit, In lit (default_lits r) -> lit_declared T lit) ->
  defaults_ok T r = true /\ m_doctype_ok T r = true.
Proof.
  intros Hwf. induction r as [|x r IH]; intros Hr Hl; [split; reflexivity|].
  cbn [forallb] in Hr. apply andb_prop in Hr as [Hx Hr]. destruct x as [|e defs]; [discriminate|].
  destruct IH as [IH1 IH2]; [exact Hr| |].
  { intros lit Hin. apply Hl. cbn [default_lits flat_map]. apply in_or_app. right. exact Hin. }
  cbn [defaults_ok m_doctype_ok]. rewrite IH1, IH2, !andb_true_r.
  split; apply forallb_forall; intros a Ha; destruct (ad_default a) as [| |fx lit] eqn:Ed; try reflexivity.
  - apply lit_expands_ok; [exact Hwf|]. apply Hl. cbn [default_lits flat_map]. apply in_or_app. left.
    apply in_flat_map. exists a. split; [exact Ha|]. rewrite Ed. left. reflexivity.
  - apply refs_found_ok; [exact Hwf|]. apply Hl. cbn [default_lits flat_map]. apply in_or_app. left.
    apply in_flat_map. exists a. split; [exact Ha|]. rewrite Ed. left. reflexivity.
Qed.

Lemma doctype_checks d : forall seen, entities_first d = true -> wf_table (seen ++ entities_of d) ->
  (forall lit, In lit (default_lits d) -> lit_declared (seen ++ entities_of d) lit) ->
  defaults_ok seen d = true /\ m_doctype_ok seen d = true.
Proof.
  induction d as [|x r IH]; intros seen Hf Hwf Hl; [split; reflexivity|].
  destruct x as [n lit|e defs].
  - cbn [defaults_ok m_doctype_ok entities_first entities_of default_lits flat_map app] in *.
    apply IH; [exact Hf| |]; rewrite <- app_assoc; cbn [app]; assumption.
  - cbn [entities_first] in Hf. pose proof (attlists_no_entities r Hf) as Hno.
    cbn [entities_of] in *. rewrite Hno, app_nil_r in *.
    apply (attlists_checks seen (DAttlist e defs :: r)); [exact Hwf|cbn [forallb is_attlist]; exact Hf|exact Hl].
Qed.

(** ** the defaulting loop *)
Definition mrow (base : list m_node) (x : attdef) : list m_node :=
  if m_namespace (ad_name x) then [] else
  if existsb (fun v => str_eqb (mn_name v) (ad_name x)) base then []
  else match ad_default x with
       | Implied => []
       | Required => [{| mn_name := ad_name x; mn_vals := []; mn_from_dtd := true |}]
       | Default _ lit => [{| mn_name := ad_name x; mn_vals := lit; mn_from_dtd := true |}]
       end.

Lemma existsb_extra_false (extra : list m_node) a :
  (forall e, In e extra -> mn_name e <> a) -> existsb (fun v => str_eqb (mn_name v) a) extra = false.
Proof.
  induction extra as [|e r IH]; intros H; [reflexivity|]. cbn [existsb].
  rewrite IH by (intros e' He'; apply H; right; exact He').
  destruct (str_eqb (mn_name e) a) eqn:E; [|reflexivity].
  exfalso. apply (H e); [left; reflexivity|]. apply str_eqb_eq. exact E.
Qed.

Lemma m_defaults_flat defs : forall base extra,
  NoDup (names_of defs) ->
  (forall e, In e extra -> ~ In (mn_name e) (names_of defs)) ->
  m_defaults (base ++ extra) defs = base ++ extra ++ flat_map (mrow base) defs.
Proof.
  induction defs as [|x r IH]; intros base extra Hnd Hex.
  - cbn [m_defaults flat_map]. rewrite app_nil_r. reflexivity.
  - cbn [names_of map] in Hnd. inversion Hnd as [|? ? Hx Hr]; subst.
    assert (Hex' : forall e, In e extra -> ~ In (mn_name e) (names_of r)).
    { intros e He Hin. apply (Hex e He). right. exact Hin. }
    assert (Hpres : existsb (fun v => str_eqb (mn_name v) (ad_name x)) (base ++ extra)
                    = existsb (fun v => str_eqb (mn_name v) (ad_name x)) base).
    { rewrite existsb_app, (existsb_extra_false extra); [apply orb_false_r|].
      intros e He E. apply (Hex e He). left. symmetry. exact E. }
    cbn [m_defaults flat_map]. rewrite Hpres. unfold mrow at 1.
    destruct (m_namespace (ad_name x)); [cbn [app]; apply IH; assumption|].
    destruct (existsb (fun v => str_eqb (mn_name v) (ad_name x)) base) eqn:Eb.
    + destruct (ad_default x); cbn [app]; apply IH; assumption.
    + destruct (ad_default x) as [| |fx lit].
      * cbn [app]. apply IH; assumption.
      * rewrite <- app_assoc. rewrite IH; [|exact Hr|].
        -- rewrite <- !app_assoc. reflexivity.
        -- intros e He. apply in_app_or in He as [He|[<-|[]]]; [exact (Hex' e He)|exact Hx].
      * rewrite <- app_assoc. rewrite IH; [|exact Hr|].
        -- rewrite <- !app_assoc. reflexivity.
        -- intros e He. apply in_app_or in He as [He|[<-|[]]]; [exact (Hex' e He)|exact Hx].
Qed.

Lemma map_flat_map_ext {A B C D} (f1 : A -> list B) (f2 : A -> list C) (g : B -> D) (h : C -> D) l :
  (forall x, In x l -> map g (f1 x) = map h (f2 x)) -> map g (flat_map f1 l) = map h (flat_map f2 l).
Proof.
  induction l as [|x r IH]; intros H; [reflexivity|]. cbn [flat_map]. rewrite !map_app.
  rewrite (H x) by (left; reflexivity). rewrite IH; [reflexivity|]. intros y Hy. apply H. right. exact Hy.
Qed.

Lemma namespace_is_nsdecl a : m_namespace a = is_nsdecl a.
Proof. reflexivity. Qed.

Lemma written_base (written : list (name * list piece)) a : is_nsdecl a = false ->
  existsb (fun v => str_eqb (mn_name v) a)
          (map (fun nl => {| mn_name := fst nl; mn_vals := snd nl; mn_from_dtd := false |})
               (filter (fun nl => negb (m_namespace (fst nl))) written))
  = is_written written a.
Proof.
  intros Ha. unfold is_written. induction written as [|[n l] r IH]; [reflexivity|].
  cbn [filter existsb fst]. destruct (str_eqb n a) eqn:E.
  - apply str_eqb_eq in E. subst n. rewrite namespace_is_nsdecl, Ha. cbn [negb map existsb mn_name fst].
    rewrite str_eqb_refl. reflexivity.
  - cbn [orb]. destruct (negb (m_namespace n)); [|exact IH].
    cbn [map existsb mn_name fst]. rewrite E. exact IH.
Qed.

(** ** the theorem *)
Lemma rows_refine d el written :
  simple_table (entities_of d) -> acyclic (entities_of d) -> Known36 d el written = false ->
  map (m_observe d el) (m_attributes_nodes d el written) = map of_item (spec_attrs_items d el written).
Proof.
  intros Hs Hac Hk.
  unfold m_attributes_nodes, spec_attrs_items. rewrite att_defs_merged. fold (defs_for d el).
  set (defs := defs_for d el) in *.
  set (base := map (fun nl => {| mn_name := fst nl; mn_vals := snd nl; mn_from_dtd := false |})
                   (filter (fun nl => negb (m_namespace (fst nl))) written)).
  pose proof (defs_for_nodup d el) as Hnd. fold defs in Hnd.
  rewrite <- (app_nil_r base). rewrite (m_defaults_flat defs base [] Hnd) by (intros e []).
  cbn [app]. rewrite !map_app. f_equal.
  - (* written attributes *)
    unfold base. rewrite !map_map. apply map_ext. intros [n l].
    unfold m_observe, of_item. cbn [mn_name mn_vals mn_from_dtd ai_name ai_value ai_specified ai_type fst snd negb].
    rewrite att_defs_merged. fold (defs_for d el). fold defs.
    unfold declaration_type, def_of. f_equal.
    apply (normalized_value_refines_f (entities_of d) Hs Hac).
  - (* defaults *)
    apply map_flat_map_ext. intros x Hx.
    unfold mrow. rewrite namespace_is_nsdecl. destruct (is_nsdecl (ad_name x)) eqn:Hnsx.
    { rewrite orb_true_r. destruct (ad_default x); reflexivity. }
    unfold base. rewrite (written_base written (ad_name x) Hnsx). fold (is_written written (ad_name x)).
    rewrite orb_false_r.
    destruct (is_written written (ad_name x)) eqn:Ew; [destruct (ad_default x); reflexivity|].
    assert (Hty : declaration_type (declaration_att_defs [] d el) (ad_name x) = Some (ad_type x)).
    { rewrite att_defs_merged. fold (defs_for d el). fold defs. unfold declaration_type.
      rewrite (find_nodup defs x Hnd Hx). reflexivity. }
    destruct (ad_default x) as [| |fx lit] eqn:Ed.
    + reflexivity.
    + exfalso. unfold Known36 in Hk. fold defs in Hk.
      assert (Hc : existsb (fun x0 => match ad_default x0 with
                       | Required => negb (is_written written (ad_name x0)) | _ => false end) defs = true).
      { apply existsb_exists. exists x. split; [exact Hx|]. rewrite Ed, Ew. reflexivity. }
      rewrite Hc in Hk. discriminate.
    + cbn [map]. unfold m_observe, of_item.
      cbn [mn_name mn_vals mn_from_dtd ai_name ai_value ai_specified ai_type negb].
      rewrite Hty. f_equal. f_equal.
      apply (normalized_value_refines_f (entities_of d) Hs Hac).
Qed.

Theorem attribute_set_refines_proof : forall d el written,
  doc_wf d written -> Known36 d el written = false ->
  model_attrs d el written = map_ares (map of_item) (spec_attrs d el written).
Proof.
  intros d el written [Hf Hwf Hd Hw] Hk. unfold model_attrs, spec_attrs.
  destruct (doctype_checks d [] Hf Hwf Hd) as [H1 H2]. rewrite H1, H2. cbn [andb].
  assert (Hw1 : forallb (fun nl => m_refs_found (entities_of d) (snd nl)) written = true).
  { apply forallb_forall. intros nl Hnl. apply refs_found_ok; [exact Hwf|exact (Hw nl Hnl)]. }
  assert (Hw2 : forallb (fun nl => lit_expands (entities_of d) (snd nl)) written = true).
  { apply forallb_forall. intros nl Hnl. apply lit_expands_ok; [exact Hwf|exact (Hw nl Hnl)]. }
  rewrite Hw1, Hw2. cbn [map_ares bind]. f_equal.
  apply rows_refine; [apply wf_simple_table; exact Hwf|apply wf_acyclic_table; exact Hwf|exact Hk].
Qed.

(** both [specified] flags of the model always agree (xml-info and xml-dom, after fix D54) *)
Theorem specified_flags_agree d el written l :
  model_attrs d el written = Ok l -> Forall (fun a => ma_ispec a = ma_dspec a) l.
Proof.
  unfold model_attrs. destruct (_ && _); [|discriminate]. intros H. injection H as <-.
  apply Forall_forall. intros a Ha. apply in_map_iff in Ha as (n & <- & _). reflexivity.
Qed.
