(** * IEEE 754 binary64 for the XPath models: [SpecFloat.spec_float] at prec 53, emax 1024.

    Pure Gallina (no primitive floats), extracts with ExtrOcamlBasic.  [+ - * div] and the
    comparisons are the standard library's [SFadd SFsub SFmul SFdiv SFcompare]
    (Proofs/Float64Flocq.v connects them to Flocq's correctly-rounded operations); everything
    else -- remainder, the roundings to an integer, casts, bit patterns, decimal -> binary
    (correctly rounded) and binary -> shortest decimal -- is exact [Z] arithmetic written here.

    A finite value [S754_finite s m e] denotes (-1)^s * m * 2^e.  The functions are total on
    every [spec_float]; the ones produced by [f64_of_bits] are canonical ([valid_binary]). *)
From Coq Require Import ZArith NArith List Bool Lia.
From Coq Require Import Floats.SpecFloat.
From XmlRs Require Import Base.CPred.
Import ListNotations.
Open Scope Z_scope.

Definition prec : Z := 53.
Definition emax : Z := 1024.
Definition f64 := spec_float.

(** ** constants *)
Definition f64_zero : f64 := S754_zero false.
Definition f64_nzero : f64 := S754_zero true.
Definition f64_nan : f64 := S754_nan.
Definition f64_inf : f64 := S754_infinity false.
Definition f64_ninf : f64 := S754_infinity true.

(** ** IEEE arithmetic and comparison (standard library) *)
Definition f64_add : f64 -> f64 -> f64 := SFadd prec emax.
Definition f64_sub : f64 -> f64 -> f64 := SFsub prec emax.
Definition f64_mul : f64 -> f64 -> f64 := SFmul prec emax.
Definition f64_div : f64 -> f64 -> f64 := SFdiv prec emax.
Definition f64_neg : f64 -> f64 := SFopp.
Definition f64_abs : f64 -> f64 := SFabs.
Definition f64_compare : f64 -> f64 -> option comparison := SFcompare.
Definition f64_eqb : f64 -> f64 -> bool := SFeqb.
Definition f64_ltb : f64 -> f64 -> bool := SFltb.
Definition f64_leb : f64 -> f64 -> bool := SFleb.
Definition f64_is_nan (x : f64) : bool := match x with S754_nan => true | _ => false end.

(** an integer, rounded to nearest-even when it does not fit (Rust [n as f64]) *)
Definition f64_of_Z (z : Z) : f64 := binary_normalize prec emax z 0 false.
Definition f64_of_N (n : N) : f64 := f64_of_Z (Z.of_N n).
Definition f64_one : f64 := S754_finite false 4503599627370496 (-52).
Definition f64_half : f64 := S754_finite false 4503599627370496 (-53).

(** ** remainder: Rust [%] on f64 = C [fmod] (truncated quotient, sign of the dividend, exact) *)
Definition f64_rem (x y : f64) : f64 :=
  match x, y with
  | S754_nan, _ | _, S754_nan => S754_nan
  | S754_infinity _, _ => S754_nan
  | _, S754_zero _ => S754_nan
  | _, S754_infinity _ => x
  | S754_zero _, _ => x
  | S754_finite sx mx ex, S754_finite _ my ey =>
      let e := Z.min ex ey in
      let X := Zpos mx * 2 ^ (ex - e) in
      let Y := Zpos my * 2 ^ (ey - e) in
      binary_normalize prec emax (cond_Zopp sx (Z.rem X Y)) e sx
  end.

(** ** rounding to an integral value.
    [mode num k] receives the signed numerator and [k > 0]: the value is [num / 2^k]. *)
Definition f64_int_round (mode : Z -> Z -> Z) (x : f64) : f64 :=
  match x with
  | S754_finite s m e =>
      if 0 <=? e then x
      else binary_normalize prec emax (mode (cond_Zopp s (Zpos m)) (- e)) 0 s
  | _ => x
  end.

Definition rnd_floor (num k : Z) : Z := num / 2 ^ k.
Definition rnd_ceil (num k : Z) : Z := - ((- num) / 2 ^ k).
Definition rnd_trunc (num k : Z) : Z := Z.quot num (2 ^ k).
(** nearest, ties away from zero *)
Definition rnd_half_away (num k : Z) : Z := Z.sgn num * ((2 * Z.abs num + 2 ^ k) / 2 ^ (k + 1)).
(** nearest, ties towards positive infinity: floor (v + 1/2) *)
Definition rnd_half_up (num k : Z) : Z := (2 * num + 2 ^ k) / 2 ^ (k + 1).

Definition f64_floor : f64 -> f64 := f64_int_round rnd_floor.
Definition f64_ceil : f64 -> f64 := f64_int_round rnd_ceil.
Definition f64_trunc : f64 -> f64 := f64_int_round rnd_trunc.
(** Rust [f64::round] *)
Definition f64_round_away : f64 -> f64 := f64_int_round rnd_half_away.
(** XPath 1.0 4.4 [round]: the closest integer, of two the one closest to positive infinity;
    NaN, the infinities and both zeros are returned unchanged; an argument in [-0.5, -0)
    gives negative zero (the zero takes the sign of the argument). *)
Definition f64_xround : f64 -> f64 := f64_int_round rnd_half_up.

(** Rust [f64::fract] = [x - x.trunc()]; the difference is always representable, so exact *)
Definition f64_fract (x : f64) : f64 :=
  match x with
  | S754_nan | S754_infinity _ => S754_nan
  | S754_zero _ => S754_zero false
  | S754_finite s m e =>
      if 0 <=? e then S754_zero false
      else binary_normalize prec emax (Z.rem (cond_Zopp s (Zpos m)) (2 ^ (- e))) e false
  end.

(** ** saturating casts (Rust [as usize], [as i64]: NaN -> 0, out of range -> nearest bound) *)
Definition f64_trunc_Z (s : bool) (m : positive) (e : Z) : Z :=
  cond_Zopp s (if 0 <=? e then Zpos m * 2 ^ e else Zpos m / 2 ^ (- e)).

Definition usize_max : Z := 18446744073709551615.
Definition i64_max : Z := 9223372036854775807.
Definition i64_min : Z := -9223372036854775808.

Definition f64_to_usize (x : f64) : N :=
  match x with
  | S754_nan | S754_zero _ => 0%N
  | S754_infinity s => if s then 0%N else Z.to_N usize_max
  | S754_finite s m e => Z.to_N (Z.min usize_max (Z.max 0 (f64_trunc_Z s m e)))
  end.

Definition f64_to_i64 (x : f64) : Z :=
  match x with
  | S754_nan | S754_zero _ => 0
  | S754_infinity s => if s then i64_min else i64_max
  | S754_finite s m e => Z.min i64_max (Z.max i64_min (f64_trunc_Z s m e))
  end.

(** ** IEEE bit patterns (the wire format of the correspondence check) *)
Definition f64_of_bits (z : Z) : f64 :=
  let s := Z.odd (z / 2 ^ 63) in
  let ex := (z / 2 ^ 52) mod 2 ^ 11 in
  let mant := z mod 2 ^ 52 in
  if ex =? 0 then
    match mant with Zpos p => S754_finite s p (-1074) | _ => S754_zero s end
  else if ex =? 2047 then
    (if mant =? 0 then S754_infinity s else S754_nan)
  else
    match mant + 2 ^ 52 with Zpos p => S754_finite s p (ex - 1075) | _ => S754_nan end.

Definition sign_bit (s : bool) : Z := if s then 2 ^ 63 else 0.
Definition nan_bits : Z := 0x7ff8000000000000.

Definition f64_to_bits (x : f64) : Z :=
  match x with
  | S754_nan => nan_bits
  | S754_zero s => sign_bit s
  | S754_infinity s => sign_bit s + 2047 * 2 ^ 52
  | S754_finite s m e =>
      match binary_normalize prec emax (Zpos m) e false with
      | S754_finite _ m' e' =>
          if Zpos m' <? 2 ^ 52 then sign_bit s + Zpos m'
          else sign_bit s + (e' + 1075) * 2 ^ 52 + (Zpos m' - 2 ^ 52)
      | S754_infinity _ => sign_bit s + 2047 * 2 ^ 52
      | S754_zero _ => sign_bit s
      | S754_nan => nan_bits
      end
  end.

(** ** decimal -> binary64, correctly rounded (nearest, ties to even)

    [f64_of_ratio neg n d] is the double nearest to n/d (n >= 0, d > 0): the quotient is computed
    with at least 64 significant bits and the remainder is handed to the standard library's
    rounding function as a location, exactly as [SFdiv] does. *)
Definition f64_of_ratio (neg : bool) (n d : Z) : f64 :=
  if n <=? 0 then S754_zero neg else
  let s := Z.max 0 (64 + Z.log2 d - Z.log2 n) in
  let '(q, r) := Z.div_eucl (n * 2 ^ s) d in
  binary_round_aux prec emax neg q (- s) (new_location d r).

(** the double nearest to [D * 10^k] ([D >= 0]); the two cut-offs avoid computing astronomically
    large powers: D * 10^k >= 10^311 overflows, D * 10^k < 10^-330 rounds to zero
    (D < 2^(log2 D + 1) <= 10^(log2 D / 3 + 1)). *)
Definition f64_of_decimal (neg : bool) (D k : Z) : f64 :=
  if D <=? 0 then S754_zero neg
  else if 310 <? k then S754_infinity neg
  else if k + Z.log2 D / 3 + 1 <? -330 then S754_zero neg
  else if 0 <=? k then f64_of_ratio neg (D * 10 ^ k) 1
  else f64_of_ratio neg D (10 ^ (- k)).

(** ** binary64 -> shortest decimal that reads back as the same double

    For x > 0 written N/Dn, [e10] is the decimal exponent (10^E <= x < 10^(E+1)).  For
    n = 1, 2, ... 17 digits the two n-digit decimals around x are [lo * 10^k] and
    [(lo+1) * 10^k] with k = E - n + 1; the first n for which one of them reads back as x
    (by [f64_of_decimal]) wins, and if both do, the closer one.  This is the "as many digits
    as are needed to uniquely distinguish the number" of XPath 1.0 4.2 and what Rust's
    [Display] for f64 prints (shortest round-trip digits, closest to the value). *)
Definition f64_ratio_of (m : positive) (e : Z) : Z * Z :=
  if 0 <=? e then (Zpos m * 2 ^ e, 1) else (Zpos m, 2 ^ (- e)).

Definition pow10_le (t N Dn : Z) : bool :=
  if 0 <=? t then 10 ^ t * Dn <=? N else Dn <=? N * 10 ^ (- t).

Fixpoint e10_search (fuel : nat) (t N Dn : Z) : Z :=
  match fuel with
  | O => t
  | S f => if pow10_le (t + 1) N Dn then e10_search f (t + 1) N Dn else t
  end.

Definition e10 (N Dn : Z) : Z :=
  e10_search 8 ((Z.log2 N - Z.log2 Dn) * 30103 / 100000 - 2) N Dn.

Definition digits_candidate (x : f64) (N Dn E n : Z) : option (Z * Z) :=
  let k := E - n + 1 in
  let '(num, den) := if 0 <=? k then (N, Dn * 10 ^ k) else (N * 10 ^ (- k), Dn) in
  let lo := num / den in
  let r := num mod den in
  let lo_ok := f64_eqb (f64_of_decimal false lo k) x in
  let hi_ok := f64_eqb (f64_of_decimal false (lo + 1) k) x in
  match lo_ok, hi_ok with
  | true, true => if 2 * r <? den then Some (lo, k) else Some (lo + 1, k)
  | true, false => Some (lo, k)
  | false, true => Some (lo + 1, k)
  | false, false => None
  end.

Fixpoint shortest_search (fuel : nat) (x : f64) (N Dn E n : Z) : option (Z * Z) :=
  match fuel with
  | O => None
  | S f =>
      match digits_candidate x N Dn E n with
      | Some r => Some r
      | None => shortest_search f x N Dn E (n + 1)
      end
  end.

(** digits and decimal exponent of |x| (finite, non-zero): |x| reads back from digits * 10^exp *)
Definition f64_shortest (x : f64) : option (Z * Z) :=
  match x with
  | S754_finite _ m e =>
      let '(N, Dn) := f64_ratio_of m e in
      shortest_search 17 (S754_finite false m e) N Dn (e10 N Dn) 1
  | _ => None
  end.

(** decimal digits (values 0..9, most significant first) of a positive integer *)
Fixpoint Z_digits_aux (fuel : nat) (z : Z) (acc : list N) : list N :=
  match fuel with
  | O => acc
  | S f => if z <? 10 then Z.to_N z :: acc else Z_digits_aux f (z / 10) (Z.to_N (z mod 10) :: acc)
  end.
Definition Z_digits (z : Z) : list N := Z_digits_aux (S (Z.to_nat (Z.log2 z))) z [].

Fixpoint strip_zeros_rev (rds : list N) (k : Z) : list N * Z :=
  match rds with
  | 0%N :: (_ :: _) as tl => strip_zeros_rev tl (k + 1)
  | _ => (rev rds, k)
  end.
Definition strip_trailing_zeros (ds : list N) (k : Z) : list N * Z := strip_zeros_rev (rev ds) k.

Definition digit_char (d : N) : char := (48 + d)%N.

(** positional notation without exponent of [ds * 10^k] ([ds] non-empty digit values) *)
Definition f64_fmt_digits (ds : list N) (k : Z) : str :=
  let n := Z.of_nat (length ds) in
  let cs := map digit_char ds in
  if 0 <=? k then cs ++ repeat 48%N (Z.to_nat k)
  else if 0 <? n + k then firstn (Z.to_nat (n + k)) cs ++ 46%N :: skipn (Z.to_nat (n + k)) cs
  else 48%N :: 46%N :: repeat 48%N (Z.to_nat (- (n + k))) ++ cs.

(** |x| in positional decimal notation, shortest digits (x finite and non-zero; "" otherwise) *)
Definition f64_fmt_decimal (x : f64) : str :=
  match f64_shortest x with
  | Some (d, k) => let '(ds, k') := strip_trailing_zeros (Z_digits d) k in f64_fmt_digits ds k'
  | None => []
  end.

Definition f64_sign (x : f64) : bool :=
  match x with
  | S754_zero s | S754_infinity s | S754_finite s _ _ => s
  | S754_nan => false
  end.
