(** * The converse direction for the DOCTYPE rung, part 2: attribute-list declarations [52]-[60]. *)
From Coq Require Import List NArith Arith Lia Bool.
From XmlRs Require Import Base.CPred Spec.XmlChars Model.Peg Gen.XmlcharGen Gen.GrammarXmlGen Model.ParseActions Model.Info Model.Display
     Proofs.XmlcharProofs Proofs.PegTermination Proofs.PegLemmas Proofs.PegInv Proofs.Expansion
     Proofs.DisplayLex Proofs.ActionLemmas Proofs.DisplayElem Proofs.DisplayDoc Proofs.DisplayDtd
     Proofs.ParseInv Proofs.ParseInvElem Proofs.ParseInvDtd
     Proofs.XmlWFSyntaxLex Proofs.XmlWFSyntaxElem Proofs.XmlWFSyntaxDtd
     Proofs.XmlWFSyntaxConvLex Proofs.XmlWFSyntaxConvElem Proofs.XmlWFSyntaxConvDoc Proofs.XmlWFSyntaxConvDtd.
From XmlRs Require Spec.XmlWF.
Import ListNotations.
Local Open Scope N_scope.

(** ** lists of tokens separated by `|` *)
Section Alts.
Variable tok : str -> option (str * str).
Variable it : pexpr.
Variable Q : str -> Prop.
Hypothesis Hnosep : nosep it = true.
Hypothesis Htok : forall (s x r : str), tok s = Some (x, r) -> P it s (TStr x) r /\ Q x.

Lemma conv_alts : forall fuel (s : str) l rest, W.p_alts fuel tok s = Some (l, rest) ->
  exists x l' r1 r2 tc, l = x :: l' /\ P it (W.skipS s) (TStr x) r1 /\ many_yields (SeqR bar_sep it) r1 (map VStr l') r2
    /\ P (Seq (Chars0 ws) (Tag [41])) r2 tc rest /\ Forall Q l.
Proof.
  induction fuel as [|f IH]; intros s l rest H; [discriminate|]. cbn [W.p_alts] in H.
  destruct (tok (W.skipS s)) as [[x r]|] eqn:Et; [|discriminate]. cbn [W.bind] in H. destruct (Htok _ _ _ Et) as [Px Qx].
  destruct (conv_ws0 r) as [a Pa]. destruct (W.skipS r) as [|c t] eqn:Er; [discriminate|].
  destruct (N.eqb_spec c W.c_rpar) as [->|Hc].
  - injection H as <- <-. exists x, [], r, r. eexists. split; [reflexivity|]. split; [exact Px|]. split; [|split].
    + apply my_stop. apply fails_seqr_l. unfold bar_sep. eapply fails_seq_r; [exact Pa|]. apply fails_seq_l. apply fails_tag. reflexivity.
    + eapply parses_seq; [exact Pa|apply (parses_tag G_xml [41] t)].
    + constructor; [exact Qx|constructor].
  - destruct (N.eqb_spec c W.c_bar) as [->|]; [|discriminate]. destruct (W.p_alts f tok t) as [[l2 rest2]|] eqn:E2; [|discriminate].
    cbn [W.bind] in H. injection H as <- <-. destruct (IH _ _ _ E2) as (x2 & l2' & r1 & r2 & tc & -> & Px2 & Hm & Pc & HQ).
    destruct (conv_ws0 t) as [a2 Pa2].
    exists x, (x2 :: l2'), r, r2, tc. split; [reflexivity|]. split; [exact Px|]. split; [|split; [exact Pc|constructor; assumption]].
    cbn [map]. eapply my_step; [| |exact Hm].
    + apply yields_str. eapply parses_seqr; [|exact Px2]. unfold bar_sep. eapply parses_seq; [exact Pa|].
      eapply parses_seq; [apply (parses_tag G_xml [124] t)|exact Pa2].
    + pose proof (P_length _ _ _ _ Hnosep Px2) as L1. pose proof (P_length (Chars0 ws) _ _ _ eq_refl Pa2) as L2. pose proof (P_length (Chars0 ws) _ _ _ eq_refl Pa) as L3.
      cbn [length] in L3. unfold str, char in *. lia.
Qed.
End Alts.

Lemma tok_name_conv (s x r : str) : W.p_Name s = Some (x, r) -> P (NT nt_name) s (TStr x) r /\ is_Name x = true.
Proof. intros H. destruct (name_parses _ _ _ H) as [Hp [Hn _]]. auto. Qed.

Lemma tok_nmtoken_conv (s x r : str) : W.p_Nmtoken s = Some (x, r) -> P (NT nt_nmtoken) s (TStr x) r /\ True.
Proof.
  unfold W.p_Nmtoken. destruct (W.span (eval spec_NameChar) s) as [a b] eqn:E. destruct (Wspan_inv _ _ _ _ E) as [-> [Ha Hb]].
  destruct a as [|c a]; [discriminate|]. intros H. injection H as <- <-. split; [|exact I]. apply parses_nmtoken.
  - split; [discriminate|]. unfold name_ok. revert Ha. apply forallb_impl. intros c0 H0. rewrite is_name_char_equiv. exact H0.
  - eapply stops_ext; [|exact Hb]. intros c0. symmetry. apply is_name_char_equiv.
Qed.

(** ** [54] AttType *)
Lemma conv_att_type fuel (s : str) ty r : W.p_AttType fuel s = Some (ty, r) ->
  exists mty, yields (NT nt_att_type) s (VAttType mty) r /\ x_atttype mty = ty /\ d04_atttype mty = true.
Proof.
  unfold W.p_AttType. cbv zeta beta. rewrite ?Wstrip_same.
  assert (Hkw : forall (k : str) L mty (r0 : str), prefix k s = Some r0 -> apply_label L (VStr k) = VAttType mty ->
            yields (Map L (Tag k)) s (VAttType mty) r0).
  { intros k L mty r0 Hp HL. apply prefix_decomp in Hp. subst s. eapply yields_map'; [exact HL|]. apply yields_str. apply parses_tag. }
  assert (Hf : forall (k : str) L, prefix k s = None -> F (Map L (Tag k)) s) by (intros k L Hp; apply fails_map; apply fails_tag; exact Hp).
  destruct (prefix W.s_CDATA s) as [r0|] eqn:E1; cbv beta iota; rewrite ?Wstrip_same.
  { intros H. injection H as <- <-. exists AtCdata. split; [|split; reflexivity]. apply yields_nt. rewrite body_att_type.
    apply yields_alt_r; [apply fails_enumerated_type; apply prefix_decomp in E1; subst s; reflexivity|]. apply yields_alt_l. apply (Hkw _ _ _ _ E1). reflexivity. }
  destruct (prefix W.s_IDREFS s) as [r0|] eqn:E2; cbv beta iota; rewrite ?Wstrip_same.
  { intros H. injection H as <- <-. exists AtIdRefs. split; [|split; reflexivity]. apply yields_nt. rewrite body_att_type.
    apply yields_alt_r; [apply fails_enumerated_type; apply prefix_decomp in E2; subst s; reflexivity|].
    apply yields_alt_r; [apply Hf; exact E1|]. apply yields_alt_l. apply (Hkw _ _ _ _ E2). reflexivity. }
  destruct (prefix W.s_IDREF s) as [r0|] eqn:E3; cbv beta iota; rewrite ?Wstrip_same.
  { intros H. injection H as <- <-. exists AtIdRef. split; [|split; reflexivity]. apply yields_nt. rewrite body_att_type.
    apply yields_alt_r; [apply fails_enumerated_type; apply prefix_decomp in E3; subst s; reflexivity|].
    apply yields_alt_r; [apply Hf; exact E1|]. apply yields_alt_r; [apply Hf; exact E2|]. apply yields_alt_l. apply (Hkw _ _ _ _ E3). reflexivity. }
  destruct (prefix W.s_ID s) as [r0|] eqn:E4; cbv beta iota; rewrite ?Wstrip_same.
  { intros H. injection H as <- <-. exists AtId. split; [|split; reflexivity]. apply yields_nt. rewrite body_att_type.
    apply yields_alt_r; [apply fails_enumerated_type; apply prefix_decomp in E4; subst s; reflexivity|].
    apply yields_alt_r; [apply Hf; exact E1|]. apply yields_alt_r; [apply Hf; exact E2|]. apply yields_alt_r; [apply Hf; exact E3|].
    apply yields_alt_l. apply (Hkw _ _ _ _ E4). reflexivity. }
  destruct (prefix W.s_ENTITIES s) as [r0|] eqn:E5; cbv beta iota; rewrite ?Wstrip_same.
  { intros H. injection H as <- <-. exists AtEntities. split; [|split; reflexivity]. apply yields_nt. rewrite body_att_type.
    apply yields_alt_r; [apply fails_enumerated_type; apply prefix_decomp in E5; subst s; reflexivity|].
    apply yields_alt_r; [apply Hf; exact E1|]. apply yields_alt_r; [apply Hf; exact E2|]. apply yields_alt_r; [apply Hf; exact E3|].
    apply yields_alt_r; [apply Hf; exact E4|]. apply yields_alt_l. apply (Hkw _ _ _ _ E5). reflexivity. }
  destruct (prefix W.s_ENTITY s) as [r0|] eqn:E6; cbv beta iota; rewrite ?Wstrip_same.
  { intros H. injection H as <- <-. exists AtEntity. split; [|split; reflexivity]. apply yields_nt. rewrite body_att_type.
    apply yields_alt_r; [apply fails_enumerated_type; apply prefix_decomp in E6; subst s; reflexivity|].
    apply yields_alt_r; [apply Hf; exact E1|]. apply yields_alt_r; [apply Hf; exact E2|]. apply yields_alt_r; [apply Hf; exact E3|].
    apply yields_alt_r; [apply Hf; exact E4|]. apply yields_alt_r; [apply Hf; exact E5|]. apply yields_alt_l. apply (Hkw _ _ _ _ E6). reflexivity. }
  destruct (prefix W.s_NMTOKENS s) as [r0|] eqn:E7; cbv beta iota; rewrite ?Wstrip_same.
  { intros H. injection H as <- <-. exists AtNmTokens. split; [|split; reflexivity]. apply yields_nt. rewrite body_att_type.
    apply yields_alt_r; [apply fails_enumerated_type; apply prefix_decomp in E7; subst s; reflexivity|].
    apply yields_alt_r; [apply Hf; exact E1|]. apply yields_alt_r; [apply Hf; exact E2|]. apply yields_alt_r; [apply Hf; exact E3|].
    apply yields_alt_r; [apply Hf; exact E4|]. apply yields_alt_r; [apply Hf; exact E5|]. apply yields_alt_r; [apply Hf; exact E6|].
    apply yields_alt_l. apply (Hkw _ _ _ _ E7). reflexivity. }
  destruct (prefix W.s_NMTOKEN s) as [r0|] eqn:E8; cbv beta iota; rewrite ?Wstrip_same.
  { intros H. injection H as <- <-. exists AtNmToken. split; [|split; reflexivity]. apply yields_nt. rewrite body_att_type.
    apply yields_alt_r; [apply fails_enumerated_type; apply prefix_decomp in E8; subst s; reflexivity|].
    apply yields_alt_r; [apply Hf; exact E1|]. apply yields_alt_r; [apply Hf; exact E2|]. apply yields_alt_r; [apply Hf; exact E3|].
    apply yields_alt_r; [apply Hf; exact E4|]. apply yields_alt_r; [apply Hf; exact E5|]. apply yields_alt_r; [apply Hf; exact E6|].
    apply yields_alt_r; [apply Hf; exact E7|]. apply (Hkw _ _ _ _ E8). reflexivity. }
  destruct (prefix W.s_NOTATION s) as [r0|] eqn:E9; cbv beta iota.
  - apply prefix_decomp in E9. subst s. destruct (W.p_S r0) as [r1|] eqn:Es; [|discriminate]. cbn [W.bind].
    destruct r1 as [|c t]; [discriminate|]. destruct (N.eqb_spec c W.c_lpar) as [->|]; [|discriminate].
    destruct (W.p_alts fuel W.p_Name t) as [[l rest]|] eqn:Ea; [|discriminate]. cbn [W.bind]. intros H. injection H as <- <-.
    destruct (conv_alts W.p_Name (NT nt_name) (fun x => is_Name x = true) eq_refl tok_name_conv _ _ _ _ Ea) as (x & l' & r1 & r2 & tc & -> & Px & Hm & Pc & HQ).
    destruct (conv_ws1 _ _ Es) as [a Pa]. destruct (conv_ws0 t) as [a0 Pa0].
    exists (AtNotation (x :: l')). split; [|split; [reflexivity|]].
    + apply yields_nt. rewrite body_att_type. apply yields_alt_l. apply yields_nt. rewrite body_enumerated_type. apply yields_alt_l.
      eapply yields_map'; [apply al_notation_type|]. apply yields_nt. rewrite body_notation_type.
      eapply yields_map'; [apply al_441e|].
      eapply yields_seqr.
      * eapply parses_seq; [apply (parses_tag G_xml [78;79;84;65;84;73;79;78])|]. eapply parses_seq; [exact Pa|].
        eapply parses_seq; [apply (parses_tag G_xml [40] t)|exact Pa0].
      * eapply yields_seql; [|exact Pc]. eapply yields_seq; [apply yields_str; exact Px|apply yields_many0; exact Hm].
    + cbn [d04_atttype]. apply forallb_forall. intros y Hy. rewrite Forall_forall in HQ. apply HQ. exact Hy.
  - destruct s as [|c t]; [discriminate|]. destruct (N.eqb_spec c W.c_lpar) as [->|]; [|discriminate].
    destruct (W.p_alts fuel W.p_Nmtoken t) as [[l rest]|] eqn:Ea; [|discriminate]. cbn [W.bind]. intros H. injection H as <- <-.
    destruct (conv_alts W.p_Nmtoken (NT nt_nmtoken) (fun _ => True) eq_refl tok_nmtoken_conv _ _ _ _ Ea) as (x & l' & r1 & r2 & tc & -> & Px & Hm & Pc & _).
    destruct (conv_ws0 t) as [a0 Pa0].
    exists (AtEnumeration (x :: l')). split; [|split; reflexivity].
    apply yields_nt. rewrite body_att_type. apply yields_alt_l. apply yields_nt. rewrite body_enumerated_type.
    apply yields_alt_r; [apply fails_map; apply fails_nt; rewrite body_notation_type; apply fails_map; apply fails_seqr_l; apply fails_seq_l; apply fails_tag; reflexivity|].
    eapply yields_map'; [apply al_enumeration_type|]. apply yields_nt. rewrite body_enumeration.
    eapply yields_map'; [apply al_441e|].
    eapply yields_seqr; [eapply parses_seq; [apply (parses_tag G_xml [40] t)|exact Pa0]|].
    eapply yields_seql; [|exact Pc]. eapply yields_seq; [apply yields_str; exact Px|apply yields_many0; exact Hm].
Qed.

(** ** [60] DefaultDecl *)
Definition default_wf (md : att_default) : Prop :=
  match md with AdValue _ l => exists q, (q = 34 \/ q = 39) /\ av_ok q false l | _ => True end.

Lemma conv_default_decl fuel (s : str) df r : W.p_DefaultDecl fuel s = Some (df, r) ->
  exists md, yields (NT nt_default_decl) s (VAttDefault md) r /\ x_attdefault md = df /\ d04_attdefault md = true /\ default_wf md.
Proof.
  unfold W.p_DefaultDecl. rewrite ?Wstrip_same. destruct (prefix W.s_REQUIRED s) as [r0|] eqn:E1; cbv beta iota; rewrite ?Wstrip_same.
  { intros H. injection H as <- <-. apply prefix_decomp in E1. subst s. exists AdRequired. split; [|repeat split; reflexivity].
    apply yields_nt. rewrite body_default_decl. apply yields_alt_l. apply (yields_map' (VStr W.s_REQUIRED)); [reflexivity|]. apply yields_str. apply parses_tag. }
  destruct (prefix W.s_IMPLIED s) as [r0|] eqn:E2; cbv beta iota; rewrite ?Wstrip_same.
  { intros H. injection H as <- <-. apply prefix_decomp in E2. subst s. exists AdImplied. split; [|repeat split; reflexivity].
    apply yields_nt. rewrite body_default_decl. apply yields_alt_r; [apply fails_map; apply fails_tag; reflexivity|].
    apply yields_alt_l. apply (yields_map' (VStr W.s_IMPLIED)); [reflexivity|]. apply yields_str. apply parses_tag. }
  destruct (prefix W.s_FIXED s) as [r0|] eqn:E3; cbv beta iota.
  - apply prefix_decomp in E3. subst s. destruct (W.p_S r0) as [r1|] eqn:Es; [|discriminate]. cbn [W.bind].
    destruct (W.p_AttValue fuel r1) as [[v r2]|] eqn:Ev; [|discriminate]. cbn [W.bind]. intros H. injection H as <- <-.
    destruct (conv_att_value _ _ _ _ Ev) as [l [Y [Hx [Hd Hq]]]]. destruct (conv_ws1 _ _ Es) as [a Pa].
    exists (AdValue (Some W.s_FIXED) l). split; [|split; [cbn [x_attdefault]; rewrite Hx; reflexivity|split; [exact Hd|exact Hq]]].
    apply yields_nt. rewrite body_default_decl. apply yields_alt_r; [apply fails_map; apply fails_tag; reflexivity|].
    apply yields_alt_r; [apply fails_map; apply fails_tag; reflexivity|].
    eapply yields_map'; [apply (al_default_value (Some W.s_FIXED) l)|].
    eapply yields_seq; [|exact Y]. apply yields_opt_some. apply yields_str. eapply parses_seql; [apply (parses_tag G_xml [35;70;73;88;69;68])|exact Pa].
  - destruct (W.p_AttValue fuel s) as [[v r2]|] eqn:Ev; [|discriminate]. cbn [W.bind]. intros H. injection H as <- <-.
    destruct (conv_att_value _ _ _ _ Ev) as [l [Y [Hx [Hd Hq]]]].
    exists (AdValue None l). split; [|split; [cbn [x_attdefault]; rewrite Hx; reflexivity|split; [exact Hd|exact Hq]]].
    apply yields_nt. rewrite body_default_decl. apply yields_alt_r; [apply fails_map; apply fails_tag; exact E1|].
    apply yields_alt_r; [apply fails_map; apply fails_tag; exact E2|].
    eapply yields_map'; [apply (al_default_value None l)|].
    eapply yields_seq; [|exact Y]. apply yields_opt_none. apply fails_seql_l. apply fails_tag. exact E3.
Qed.

(** ** [53] AttDef, [52] AttlistDecl *)
Lemma p_S_skipS (s r : str) : W.p_S s = Some r -> W.skipS s = r.
Proof. intros H. destruct (p_S_inv _ _ H) as [a [_ [Ha [Hr ->]]]]. apply skipS_app; assumption. Qed.

Definition attdef_wf' (d : att_def) : Prop :=
  (exists q, ad_name d = DanAttr q /\ qname_ok q) /\ default_wf (ad_value d).

Lemma conv_attdefs : forall fuel (s : str) l r, W.p_attdefs fuel s = Some (l, r) -> forallb (fun '(a, _, _) => is_QName a) l = true ->
  exists defs tc r1, many_yields (NT nt_att_def) s (map VAttDef defs) r1 /\ P (Seq (Chars0 ws) (Tag [62])) r1 tc r
    /\ map x_attdef defs = l /\ forallb d04_attdef defs = true /\ Forall attdef_wf' defs.
Proof.
  induction fuel as [|f IH]; intros s l r H Hq; [discriminate|]. cbn [W.p_attdefs] in H.
  destruct (conv_ws0 s) as [a0 Pa0]. destruct (W.skipS s) as [|c t] eqn:Esk; [discriminate|].
  destruct (N.eqb_spec c W.c_gt) as [->|Hc].
  - injection H as <- <-. exists [], (TPair (TStr a0) (TStr [62])), s. split; [|split; [|split; [reflexivity|split; [reflexivity|constructor]]]].
    + apply my_stop. apply fails_nt. rewrite body_att_def. apply fails_map. apply fails_seq_l.
      destruct (W.p_S s) as [r'|] eqn:Eps.
      * destruct (conv_ws1 _ _ Eps) as [a Pa]. eapply fails_seqr_r; [exact Pa|]. apply p_S_skipS in Eps. rewrite Esk in Eps. subst r'.
        apply fails_alt; apply fails_map.
        -- apply fails_qname. reflexivity.
        -- apply fails_nt. rewrite body_ns_att_name. apply fails_alt; apply fails_map; [apply fails_seqr_l|]; apply fails_tag; reflexivity.
      * apply fails_seqr_l. apply fails_chars1. unfold W.p_S in Eps. destruct (W.span W.isS s) as [a b] eqn:E.
        destruct (Wspan_inv _ _ _ _ E) as [-> [Ha Hb]]. destruct a; [exact Hb|discriminate].
    + eapply parses_seq; [exact Pa0|apply (parses_tag G_xml [62] t)].
  - destruct (W.p_S s) as [r0|] eqn:Eps; [|discriminate]. cbn [W.bind] in H. rewrite <- Esk in H.
    destruct (W.p_Name (W.skipS s)) as [[nm r1]|] eqn:En; [|discriminate]. cbn [W.bind] in H.
    destruct (W.p_S r1) as [r2|] eqn:E2; [|discriminate]. cbn [W.bind] in H.
    destruct (W.p_AttType f r2) as [[ty r3]|] eqn:Et; [|discriminate]. cbn [W.bind] in H.
    destruct (W.p_S r3) as [r4|] eqn:E4; [|discriminate]. cbn [W.bind] in H.
    destruct (W.p_DefaultDecl f r4) as [[df r5]|] eqn:Ed; [|discriminate]. cbn [W.bind] in H.
    destruct (W.p_attdefs f r5) as [[l' rest]|] eqn:Er; [|discriminate]. cbn [W.bind] in H. injection H as <- <-.
    cbn [forallb] in Hq. apply andb_prop in Hq. destruct Hq as [Hqn Hql].
    destruct (IH _ _ _ Er Hql) as (defs & tc & r1' & Hm & Pc & Hx & Hd & Hwf).
    destruct (conv_att_type _ _ _ _ Et) as [mty [Yt [Xt Dt]]]. destruct (conv_default_decl _ _ _ _ Ed) as [md [Yd [Xd [Dd Wd]]]].
    destruct (conv_ws1 _ _ Eps) as [a1 P1]. destruct (conv_ws1 _ _ E2) as [a2 P2]. destruct (conv_ws1 _ _ E4) as [a4 P4].
    pose proof (p_S_skipS _ _ Eps) as Esk'. rewrite Esk' in En.
    destruct (p_Name_inv _ _ _ En) as [Er0 [_ Hst]]. destruct (QName_qname nm Hqn) as [q [Hqo Eq]].
    exists (AttDef (DanAttr q) mty md :: defs), tc, r1'. split; [|split; [exact Pc|split; [|split]]].
    + cbn [map]. eapply my_step; [| |exact Hm].
      * apply yields_nt. rewrite body_att_def. apply (yields_map' (VPair (VDeclAttName (DanAttr q)) (VPair (VAttType mty) (VAttDefault md)))); [reflexivity|].
        eapply yields_seq.
        -- eapply yields_seqr; [exact P1|]. apply yields_alt_l. apply (yields_map' (VQName q)); [reflexivity|].
           exists (tree_qname q). split; [|apply eval_tree_qname]. rewrite Er0, <- Eq. apply parses_qname; [exact Hqo|exact Hst].
        -- eapply yields_seq; [eapply yields_seqr; [exact P2|exact Yt]|eapply yields_seqr; [exact P4|exact Yd]].
      * pose proof (P_length (Chars1 ws) _ _ _ eq_refl P1) as L1. destruct (p_S_inv _ _ Eps) as [a [Hne [_ [_ Es]]]].
        pose proof (yields_length (NT nt_default_decl) _ _ _ eq_refl Yd) as L5. pose proof (P_length (Chars1 ws) _ _ _ eq_refl P4) as L4.
        pose proof (yields_length (NT nt_att_type) _ _ _ eq_refl Yt) as L3. pose proof (P_length (Chars1 ws) _ _ _ eq_refl P2) as L2.
        assert (length r1 <= length r0)%nat as Ln by (rewrite Er0, app_length; lia).
        rewrite Es, app_length. destruct a; [contradiction|cbn [length]]. unfold str, char in *. lia.
    + cbn [map]. rewrite Hx. unfold x_attdef at 1. cbn [ad_name ad_ty ad_value x_danname]. rewrite Eq, Xt, Xd. reflexivity.
    + cbn [forallb]. unfold d04_attdef at 1. cbn [ad_ty ad_value]. rewrite Dt, Dd, Hd. reflexivity.
    + constructor; [|exact Hwf]. split; [exists q; split; [reflexivity|exact Hqo]|exact Wd].
Qed.

Definition attlist_wf' (d : decl_att) : Prop := qname_ok (da_name d) /\ Forall attdef_wf' (da_defs d).

Lemma conv_attlist_decl fuel (s' : str) d r : W.p_markupdecl fuel (W.s_attlist ++ s') = Some (d, r) ->
  match d with W.DAttlist el defs => is_QName el && forallb (fun '(a, _, _) => is_QName a) defs = true | _ => True end ->
  exists da, yields (NT nt_attlist_decl) (W.s_attlist ++ s') (VDeclAtt da) r /\ d = x_attlist da /\ d04_attlist da = true /\ attlist_wf' da.
Proof.
  rewrite markupdecl_attlist. destruct (W.p_S s') as [r1|] eqn:E1; [|discriminate]. cbn [W.bind].
  destruct (W.p_Name r1) as [[nm r2]|] eqn:En; [|discriminate]. cbn [W.bind].
  destruct (W.p_attdefs fuel r2) as [[l r3]|] eqn:Ed; [|discriminate]. cbn [W.bind]. intros H. injection H as <- <-. intros Hq.
  apply andb_prop in Hq. destruct Hq as [Hqn Hql].
  destruct (conv_attdefs _ _ _ _ Ed Hql) as (defs & tc & r1' & Hm & Pc & Hx & Hd & Hwf).
  destruct (conv_ws1 _ _ E1) as [a1 P1]. destruct (p_Name_inv _ _ _ En) as [Er1 [_ Hst]]. destruct (QName_qname nm Hqn) as [q [Hqo Eq]].
  exists (DeclAtt q defs). split; [|split; [unfold x_attlist; cbn [da_name da_defs]; rewrite Eq, Hx; reflexivity|split; [exact Hd|split; assumption]]].
  apply yields_nt. rewrite body_attlist_decl. eapply yields_map'; [apply (al_decl_att q defs)|].
  eapply yields_seqr; [eapply parses_seq; [apply (parses_tag G_xml [60;33;65;84;84;76;73;83;84])|exact P1]|].
  eapply yields_seql; [|exact Pc]. eapply yields_seq; [|apply yields_many0; exact Hm].
  exists (tree_qname q). split; [|apply eval_tree_qname]. rewrite Er1, <- Eq. apply parses_qname; [exact Hqo|exact Hst].
Qed.
