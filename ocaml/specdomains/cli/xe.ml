(* cli spec: `<doc dump> | <frag dump> | <kinds>` -> done:<dump> | refuse *)
let () = register_line "xe" (fun line ->
  match String.split_on_char '|' line with
  | [d; f; kinds] ->
    (try
       let (doc, sel) = doc_of (parse_sx (String.trim d)) in
       let frag = frag_of (parse_sx (String.trim f)) in
       if String.contains kinds 'o' then "refuse"
       else (match replace_spec sel frag doc with
        | Some d' -> "done:" ^ show_doc d'
        | None -> "refuse")
     with Failure m -> "badinput:" ^ m)
  | _ -> "badinput")
