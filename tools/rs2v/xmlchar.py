#!/usr/bin/env python3
"""T1: nom/src/xmlchar.rs character predicates -> Gen/XmlcharGen.v (cpred terms).

Fragment understood (anything else stops with file:line):
  fn is_X(value: char [, excepts: &str]) -> bool { EXPR }
  EXPR  := TERM ('||' TERM)*
  TERM  := FACT ('&&' FACT)*
  FACT  := '!' FACT | '(' EXPR ')' | value == 'c' | value.is_ascii_{uppercase,lowercase,digit,alphabetic,alphanumeric,hexdigit}()
         | matches!(value as u32, PAT ('|' PAT)*)   PAT := NUM | NUM ..= NUM
         | is_Y(value [, excepts]) | excepts.contains(value)
"""
import sys, os
sys.path.insert(0, os.path.dirname(__file__))
from rustlex import lex, strip_test_modules, functions

class TError(Exception):
    pass

ASCII = {
    'is_ascii_uppercase': [(65, 90)],
    'is_ascii_lowercase': [(97, 122)],
    'is_ascii_digit': [(48, 57)],
    'is_ascii_alphabetic': [(65, 90), (97, 122)],
    'is_ascii_alphanumeric': [(48, 57), (65, 90), (97, 122)],
    'is_ascii_hexdigit': [(48, 57), (65, 70), (97, 102)],
}

class P:
    def __init__(self, toks, fname, path, known):
        self.t, self.i, self.fname, self.path, self.known = toks, 0, fname, path, known
    def peek(self, k=0):
        return self.t[self.i + k].text if self.i + k < len(self.t) else None
    def err(self, msg):
        line = self.t[min(self.i, len(self.t) - 1)].line if self.t else 0
        raise TError('%s:%d: in %s: %s' % (self.path, line, self.fname, msg))
    def eat(self, text):
        if self.peek() != text:
            self.err('expected %r, found %r' % (text, self.peek()))
        self.i += 1
    def expr(self):
        a = self.term()
        while self.peek() == '||':
            self.i += 1
            a = ('Or', a, self.term())
        return a
    def term(self):
        a = self.fact()
        while self.peek() == '&&':
            self.i += 1
            a = ('And', a, self.fact())
        return a
    def num(self):
        tok = self.t[self.i]
        if tok.kind == 'num' and isinstance(tok.val, int):
            self.i += 1; return tok.val
        if tok.kind == 'char':
            self.i += 1; return tok.val
        self.err('expected a number, found %r' % tok.text)
    def fact(self):
        p = self.peek()
        if p == '!':
            self.i += 1
            a = self.fact()
            return a[1] if a[0] == 'Not' else ('Not', a)
        if p == '(':
            self.i += 1; a = self.expr(); self.eat(')'); return a
        if p == 'value':
            if self.peek(1) == '==':
                self.i += 2
                tok = self.t[self.i]
                if tok.kind != 'char': self.err('expected a char literal')
                self.i += 1
                return ('InR', [(tok.val, tok.val)])
            if self.peek(1) == '.':
                m = self.peek(2)
                if m in ASCII:
                    self.i += 3; self.eat('('); self.eat(')')
                    return ('InR', ASCII[m])
            self.err('unsupported use of `value`')
        if p == 'matches':
            self.i += 1; self.eat('!'); self.eat('(')
            self.eat('value'); self.eat('as'); self.eat('u32'); self.eat(',')
            rs = []
            while True:
                lo = self.num()
                hi = lo
                if self.peek() == '..=':
                    self.i += 1; hi = self.num()
                elif self.peek() == '..':
                    self.err('half-open range pattern not in the fragment')
                rs.append((lo, hi))
                if self.peek() == '|':
                    self.i += 1; continue
                break
            if self.peek() == ',': self.i += 1
            self.eat(')')
            return ('InR', rs)
        if p in ('excepts', 'except'):
            self.i += 1; self.eat('.'); self.eat('contains'); self.eat('('); self.eat('value'); self.eat(')')
            return ('Not', ('NotIn',))
        if p is not None and p.startswith('is_'):
            name = p
            if name not in self.known:
                self.err('call to unknown predicate %s' % name)
            self.i += 1; self.eat('('); self.eat('value')
            has_ex = False
            if self.peek() == ',':
                self.i += 1; self.eat('excepts'); has_ex = True
            self.eat(')')
            if has_ex != self.known[name]:
                self.err('arity mismatch calling %s' % name)
            return ('Call', name, has_ex)
        self.err('construct outside the fragment: %r' % p)

def show(e):
    k = e[0]
    if k == 'InR':
        return '(InR [' + ';'.join('(%d,%d)' % r for r in e[1]) + '])'
    if k in ('Or', 'And'):
        return '(%s %s %s)' % (k, show(e[1]), show(e[2]))
    if k == 'Not':
        return '(Not %s)' % show(e[1])
    if k == 'NotIn':
        return '(NotIn excepts)'
    if k == 'Call':
        return '(%s excepts)' % e[1] if e[2] else e[1]
    raise TError('show ' + k)

def translate(path):
    src = open(path, encoding='utf-8').read()
    toks = strip_test_modules(lex(src))
    fns = functions(toks)
    known = {}
    defs = []
    sigs = []
    for name, header, body, line in fns:
        if not name.startswith('is_'):
            continue
        h = [t.text for t in header]
        # header: fn name ( value : char [, excepts : & str] ) -> bool
        try:
            lp = h.index('('); rp = h.index(')')
        except ValueError:
            raise TError('%s:%d: cannot read header of %s' % (path, line, name))
        params = h[lp + 1:rp]
        if params[:3] != ['value', ':', 'char']:
            raise TError('%s:%d: %s: first parameter must be `value: char`' % (path, line, name))
        rest = params[3:]
        if rest in ([], [',']):
            has_ex = False
        elif rest[:5] == [',', 'excepts', ':', '&', 'str']:
            has_ex = True
        else:
            raise TError('%s:%d: %s: unsupported parameters %r' % (path, line, name, rest))
        if h[rp + 1:] != ['->', 'bool']:
            raise TError('%s:%d: %s: must return bool' % (path, line, name))
        known[name] = has_ex
        sigs.append((name, has_ex, body, line))
    for name, has_ex, body, line in sigs:
        p = P(body, name, path, known)
        e = p.expr()
        if p.i != len(body):
            p.err('trailing tokens after the expression')
        defs.append((name, has_ex, e, line))
    # topological order (Coq needs callees first); a cycle is outside the fragment
    def calls(e):
        if e[0] == 'Call': return {e[1]}
        if e[0] in ('Or', 'And'): return calls(e[1]) | calls(e[2])
        if e[0] == 'Not': return calls(e[1])
        return set()
    byname = {d[0]: d for d in defs}
    order, state = [], {}
    def visit(n):
        if state.get(n) == 2: return
        if state.get(n) == 1: raise TError('%s: recursive predicate %s' % (path, n))
        state[n] = 1
        for c in sorted(calls(byname[n][2])): visit(c)
        state[n] = 2; order.append(byname[n])
    for d in defs: visit(d[0])
    return order

def evaluator(defs):
    """python evaluation of the translated predicates: f(name, c, excepts=()) -> bool"""
    by = {d[0]: d for d in defs}
    def ev(e, c, ex):
        k = e[0]
        if k == 'InR': return any(lo <= c <= hi for lo, hi in e[1])
        if k == 'Or': return ev(e[1], c, ex) or ev(e[2], c, ex)
        if k == 'And': return ev(e[1], c, ex) and ev(e[2], c, ex)
        if k == 'Not': return not ev(e[1], c, ex)
        if k == 'NotIn': return c not in ex
        if k == 'Call': return ev(by[e[1]][2], c, ex)
        raise TError('eval ' + k)
    return lambda name, c, ex=(): ev(by[name][2], c, ex)

def emit(defs, src_path):
    lines = ['(* GENERATED by tools/rs2v/xmlchar.py from %s -- do not edit *)' % src_path,
             'From Coq Require Import List NArith.',
             'From XmlRs Require Import Base.CPred.',
             'Import ListNotations.',
             'Open Scope N_scope.',
             '']
    for name, has_ex, e, line in defs:
        if has_ex:
            lines.append('Definition %s (excepts : list N) : cpred := %s.' % (name, show(e)))
        else:
            lines.append('Definition %s : cpred := %s.' % (name, show(e)))
    lines.append('')
    lines.append('Definition xmlchar_predicates : list (list N * cpred) := [')
    items = []
    for name, has_ex, e, line in defs:
        if not has_ex:
            items.append('  ([%s], %s)' % (';'.join(str(ord(c)) for c in name), name))
    lines.append(';\n'.join(items))
    lines.append('].')
    return '\n'.join(lines) + '\n'

def write_if_changed(path, text):
    try:
        if open(path).read() == text:
            return False
    except OSError:
        pass
    with open(path, 'w') as f:
        f.write(text)
    return True

if __name__ == '__main__':
    repo = sys.argv[1] if len(sys.argv) > 1 else '/repo'
    outp = sys.argv[2] if len(sys.argv) > 2 else os.path.join(os.path.dirname(__file__), '../../coq/theories/Gen/XmlcharGen.v')
    srcp = os.path.join(repo, 'nom/src/xmlchar.rs')
    try:
        defs = translate(srcp)
    except Exception as ex:
        print('T1-ERROR: %s' % ex)
        sys.exit(2)
    need = ['is_char', 'is_name_start_char', 'is_name_char', 'is_pubid_char', 'is_enc_name',
            'is_char_except', 'is_name_char_except', 'is_pubid_char_except']
    have = {d[0] for d in defs}
    missing = [n for n in need if n not in have]
    if missing:
        print('T1-ERROR: %s: predicates not found: %s' % (srcp, ' '.join(missing)))
        sys.exit(2)
    write_if_changed(outp, emit(defs, 'nom/src/xmlchar.rs'))
    print('T1 ok: %d predicates' % len(defs))
