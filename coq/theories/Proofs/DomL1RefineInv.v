(** * C13: two more invariants of every reachable world, and the rung "remove_attribute_node"

    [UniqQ s]: within one element no two attributes have the same qualified name (prefix and local
    part) -- the well-formedness constraint "Unique Att Spec" for the parsed document, kept by
    every mutator because [set_attribute_node] / [set_attribute] remove the attribute of the same
    qualified name before they add one (fix D43).
    [EntsOK s] (Proofs/DomL1RefineValue.v): no entity name is listed both as usable and as not
    usable in attribute values; entity tables never change.

    Both are lifted to every operation and every history by a copy of the generic lifting
    [step_P] of Proofs/DomOpsInv.v whose hypothesis about [create] also knows that a new item has
    an empty entity table ([step_P2], [run_P2]).

    [remove_attribute_node] (DOM Level 1: "NOT_FOUND_ERR: Raised if oldAttr is not an attribute of
    the element"): the implementation looks the attribute of the same qualified name up and
    compares identities ([Rc::ptr_eq], fix D57); under [UniqQ] that is membership in the
    attribute list, and removal by qualified name removes exactly that node. *)
From Coq Require Import List NArith Bool Lia PeanoNat.
From XmlRs Require Import Base.CPred Model.Store Model.DomOps Proofs.DomBase Proofs.DomTree
  Proofs.DomOpsInv Proofs.DomL1Abs Proofs.DomL1Atomic Proofs.DomL1Refine Proofs.DomL1RefineInsert
  Proofs.DomL1RefineAttr Proofs.DomL1RefineValue Proofs.DomL1Frame.
From XmlRs Require Spec.DomCharData Spec.DomL1.
Import ListNotations.
Open Scope N_scope.

Definition UniqQ (s : store) : Prop :=
  forall e eit a b ait bit, get s e = Some eit -> In a (iattrs eit) -> In b (iattrs eit) ->
    get s a = Some ait -> get s b = Some bit -> iprefix ait = iprefix bit -> ilocal ait = ilocal bit -> a = b.

Definition Inv2 (s : store) : Prop := TreeInv s /\ UniqQ s /\ EntsOK s.

(** ** functions that satisfy the frame *)
Lemma fr_uniq s s' : TreeInv s -> fr s s' -> UniqQ s -> UniqQ s'.
Proof.
  intros T F U. destruct (F (bounded_of_inv s T)) as [_ [Fw Bw]].
  intros e eit' a b ait' bit' He Ha Hb Hga Hgb Hp Hl.
  destruct (get s e) as [eit|] eqn:He0.
  2:{ destruct (Bw e eit' He He0) as [X _]. rewrite X in Ha. destruct Ha. }
  destruct (Fw e eit He0) as [eit2 [He2 [_ [_ [_ [_ At]]]]]]. rewrite He in He2. inversion He2; subst eit2. rewrite At in Ha, Hb.
  destruct (lists_live_child s T e a) as [ait Hait]; [exists eit; split; [exact He0 | right; exact Ha]|].
  destruct (lists_live_child s T e b) as [bit Hbit]; [exists eit; split; [exact He0 | right; exact Hb]|].
  destruct (Fw a ait Hait) as [ait2 [Ha2 [_ [Pa [La _]]]]]. rewrite Hga in Ha2. inversion Ha2; subst ait2.
  destruct (Fw b bit Hbit) as [bit2 [Hb2 [_ [Pb [Lb _]]]]]. rewrite Hgb in Hb2. inversion Hb2; subst bit2.
  apply (U e eit a b ait bit He0 Ha Hb Hait Hbit); congruence.
Qed.

Lemma fr_ents s s' : TreeInv s -> fr s s' -> EntsOK s -> EntsOK s'.
Proof.
  intros T F E. destruct (F (bounded_of_inv s T)) as [_ [Fw Bw]].
  intros i it' H. destruct (get s i) as [it|] eqn:H0.
  - destruct (Fw i it H0) as [it2 [H2 [_ [_ [_ [Et _]]]]]]. rewrite H in H2. inversion H2; subst it2. rewrite Et. exact (E i it H0).
  - destruct (Bw i it' H H0) as [_ X]. rewrite X. intros n [].
Qed.

Lemma fr_inv2 s s' : Inv2 s -> TreeInv s' -> fr s s' -> Inv2 s'.
Proof. intros [T [U E]] T' F. split; [exact T'|]. split; [exact (fr_uniq s s' T F U) | exact (fr_ents s s' T F E)]. Qed.

(** ** removing and appending attributes *)
Lemma remove_attrs_back s e sel y it' : get (fst (remove_attrs s e sel)) y = Some it' ->
  exists it, get s y = Some it /\ iprefix it' = iprefix it /\ ilocal it' = ilocal it /\ ients it' = ients it
             /\ iattrs it' = (if y =? e then filter (fun a => negb (sel a)) (iattrs it) else iattrs it).
Proof.
  unfold remove_attrs. cbn [fst]. rewrite get_invalidate, fold_unparent_get, get_upd. unfold attrs_of.
  destruct (N.eqb_spec y e) as [->|Hne].
  - destruct (get s e) as [eit|]; [|destruct (mem e _); discriminate].
    destruct (mem e (filter sel (iattrs eit))); cbn [option_map]; intros H; inversion H; subst it'; exists eit;
      (split; [reflexivity|]); cbn; repeat split.
  - destruct (get s y) as [it|]; [|destruct (mem y _); discriminate].
    destruct (mem y _); cbn [option_map]; intros H; inversion H; subst it'; exists it; (split; [reflexivity|]); cbn; repeat split.
Qed.

Lemma remove_attrs_uniq s e sel : UniqQ s -> UniqQ (fst (remove_attrs s e sel)).
Proof.
  intros U e0 eit' a b ait' bit' He Ha Hb Hga Hgb Hp Hl.
  destruct (remove_attrs_back s e sel e0 eit' He) as [eit [He0 [_ [_ [_ At]]]]].
  destruct (remove_attrs_back s e sel a ait' Hga) as [ait [Ha0 [Pa [La _]]]].
  destruct (remove_attrs_back s e sel b bit' Hgb) as [bit [Hb0 [Pb [Lb _]]]].
  assert (Hin : forall x, In x (iattrs eit') -> In x (iattrs eit)).
  { intros x Hx. rewrite At in Hx. destruct (e0 =? e); [|exact Hx]. apply filter_In in Hx. tauto. }
  apply (U e0 eit a b ait bit He0 (Hin a Ha) (Hin b Hb) Ha0 Hb0); congruence.
Qed.

Lemma remove_attrs_ents s e sel : EntsOK s -> EntsOK (fst (remove_attrs s e sel)).
Proof.
  intros E i it' H. destruct (remove_attrs_back s e sel i it' H) as [it [H0 [_ [_ [Et _]]]]]. rewrite Et. exact (E i it H0).
Qed.

Lemma append_attribute_back s e a y it' : get (append_attribute s e a) y = Some it' ->
  exists it, get s y = Some it /\ iprefix it' = iprefix it /\ ilocal it' = ilocal it /\ ients it' = ients it
             /\ iattrs it' = (if y =? e then iattrs it ++ [a] else iattrs it).
Proof.
  unfold append_attribute. rewrite get_invalidate, get_upd.
  destruct (N.eqb_spec y e) as [->|Hne].
  - rewrite get_upd. destruct (N.eqb_spec e a) as [->|Hea].
    + destruct (get s a) as [it|]; [|discriminate]. cbn [option_map]. intros H. inversion H; subst it'. exists it.
      split; [reflexivity|]. cbn. repeat split.
    + destruct (get s e) as [it|]; [|discriminate]. cbn [option_map]. intros H. inversion H; subst it'. exists it.
      split; [reflexivity|]. cbn. repeat split.
  - rewrite get_upd. destruct (N.eqb_spec y a) as [->|Hya].
    + destruct (get s a) as [it|]; [|discriminate]. cbn [option_map]. intros H. inversion H; subst it'. exists it.
      split; [reflexivity|]. cbn. repeat split.
    + intros H. exists it'. split; [exact H|]. repeat split.
Qed.

Lemma append_attribute_uniq s e a :
  UniqQ s ->
  (forall eit x xit ait, get s e = Some eit -> In x (iattrs eit) -> get s x = Some xit -> get s a = Some ait ->
                         iprefix xit = iprefix ait -> ilocal xit = ilocal ait -> x = a) ->
  UniqQ (append_attribute s e a).
Proof.
  intros U Hnew e0 eit' x y xit' yit' He Hx Hy Hgx Hgy Hp Hl.
  destruct (append_attribute_back s e a e0 eit' He) as [eit [He0 [_ [_ [_ At]]]]].
  destruct (append_attribute_back s e a x xit' Hgx) as [xit [Hx0 [Px [Lx _]]]].
  destruct (append_attribute_back s e a y yit' Hgy) as [yit [Hy0 [Py [Ly _]]]].
  rewrite At in Hx, Hy. destruct (N.eqb_spec e0 e) as [->|Hne].
  - apply in_app_single in Hx. apply in_app_single in Hy. destruct Hx as [->|Hx], Hy as [->|Hy].
    + reflexivity.
    + symmetry. apply (Hnew eit y yit xit He0 Hy Hy0 Hx0); congruence.
    + apply (Hnew eit x xit yit He0 Hx Hx0 Hy0); congruence.
    + apply (U e eit x y xit yit He0 Hx Hy Hx0 Hy0); congruence.
  - apply (U e0 eit x y xit yit He0 Hx Hy Hx0 Hy0); congruence.
Qed.

Lemma append_attribute_ents s e a : EntsOK s -> EntsOK (append_attribute s e a).
Proof.
  intros E i it' H. destruct (append_attribute_back s e a i it' H) as [it [H0 [_ [_ [Et _]]]]]. rewrite Et. exact (E i it H0).
Qed.

Lemma qname_is_true s p l x xit : get s x = Some xit -> (qname_is s p l x = true <-> iprefix xit = p /\ ilocal xit = l).
Proof.
  intros H. unfold qname_is. rewrite H. rewrite andb_true_iff, opt_str_eqb_eq, DomL1RefineAttr.str_eqb_eq. tauto.
Qed.

Lemma dom_set_attribute_node_uniq w k s e a :
  UniqQ s -> UniqQ (fst (dom_set_attribute_node w k s e a)).
Proof.
  intros U. unfold dom_set_attribute_node.
  destruct (negb (fst a =? k)); [exact U|].
  destruct (parent_of s (snd a)); [exact U|].
  destruct (get s (snd a)) as [ait|] eqn:Ha; [|exact U].
  destruct (kind_eqb (ikind ait) KAt && has_kind s KEl e); [|exact U].
  pose proof (remove_attrs_uniq s e (qname_is s (iprefix ait) (ilocal ait)) U) as U1.
  pose proof (remove_attrs_back s e (qname_is s (iprefix ait) (ilocal ait))) as Bk.
  fold (remove_attribute_q s e (iprefix ait) (ilocal ait)) in U1, Bk.
  destruct (remove_attribute_q s e (iprefix ait) (ilocal ait)) as [s1 old]. cbn [fst] in *.
  apply append_attribute_uniq; [exact U1|].
  intros eit1 x xit1 ait1 He1 Hx Hgx Hga Hp Hl. exfalso.
  destruct (Bk e eit1 He1) as [eit [He0 [_ [_ [_ At]]]]]. rewrite N.eqb_refl in At.
  destruct (Bk x xit1 Hgx) as [xit [Hx0 [Px [Lx _]]]].
  destruct (Bk (snd a) ait1 Hga) as [ait0 [Ha0 [Pa [La _]]]]. rewrite Ha in Ha0. inversion Ha0; subst ait0.
  rewrite At in Hx. apply filter_In in Hx. destruct Hx as [_ Hx].
  assert (Q : qname_is s (iprefix ait) (ilocal ait) x = true) by (apply (qname_is_true s _ _ x xit Hx0); split; congruence).
  rewrite Q in Hx. discriminate.
Qed.

Lemma dom_set_attribute_node_ents w k s e a :
  EntsOK s -> EntsOK (fst (dom_set_attribute_node w k s e a)).
Proof.
  intros E. unfold dom_set_attribute_node.
  destruct (negb (fst a =? k)); [exact E|].
  destruct (parent_of s (snd a)); [exact E|].
  destruct (get s (snd a)) as [ait|]; [|exact E].
  destruct (kind_eqb (ikind ait) KAt && has_kind s KEl e); [|exact E].
  pose proof (remove_attrs_ents s e (qname_is s (iprefix ait) (ilocal ait)) E) as E1.
  fold (remove_attribute_q s e (iprefix ait) (ilocal ait)) in E1.
  destruct (remove_attribute_q s e (iprefix ait) (ilocal ait)) as [s1 old]. cbn [fst] in *.
  apply append_attribute_ents. exact E1.
Qed.

(** ** the lifting: [step_P] with a hypothesis about [create] that knows the entity table of a new
    item is empty *)
Section Generic2.
  Variable P : store -> Prop.
  Hypothesis H_ib : forall s r x f, P s -> P (fst (info_insert_before s r x f)).
  Hypothesis H_ap : forall s r x, P s -> P (fst (info_append s r x)).
  Hypothesis H_del : forall s r x, P s -> P (fst (info_delete s r x)).
  Hypothesis H_ra : forall s e sel, P s -> P (fst (remove_attrs s e sel)).
  Hypothesis H_san : forall w k s e a, P s -> P (fst (dom_set_attribute_node w k s e a)).
  Hypothesis H_sv : forall s a d, P s -> has_kind s KAt a = true -> P (fst (set_values s a d)).
  Hypothesis H_cr : forall s it, P s -> iparent it = None -> ichildren it = [] -> iattrs it = [] -> ients it = [] -> ikind it <> KDoc ->
                    P (snd (create s it)).
  Hypothesis H_rd : forall s n k off cnt d, P s -> P (fst (replace_data s n k off cnt d)).
  Hypothesis H_id : forall s n k off d, P s -> P (fst (insert_data s n k off d)).
  Hypothesis H_dd : forall s n off cnt, P s -> P (fst (delete_data s n off cnt)).
  Hypothesis H_pi : forall s n d, P s -> P (fst (pi_set s n d)).
  Hypothesis H_st : forall k s n kd off, P s -> P (fst (split_text k s n kd off)).

  Lemma factory_P2 k s it :
    P s -> iparent it = None -> ichildren it = [] -> iattrs it = [] -> ients it = [] -> ikind it <> KDoc -> P (fst (factory k s it)).
  Proof.
    intros T H1 H2 H3 H4 H5. unfold factory. pose proof (H_cr s it T H1 H2 H3 H4 H5) as H.
    destruct (create s it) as [i s1]. exact H.
  Qed.

  Theorem step_P2 w o : WP P w -> WP P (fst (step w o)).
  Proof.
    intros Hw. destruct o; cbn [step].
    - destruct (kind_in w r) as [k|]; [|exact Hw]. destruct (node_mut k); [|exact Hw].
      destruct (exists_in w n); [apply (dom_insert_before_P P H_ib H_ap); exact Hw | exact Hw].
    - destruct (kind_in w r) as [k|]; [|exact Hw]. destruct (node_mut k); [|exact Hw].
      destruct (exists_in w n && exists_in w f); [apply (dom_insert_before_P P H_ib H_ap); exact Hw | exact Hw].
    - destruct (kind_in w r) as [k|]; [|exact Hw]. destruct (node_mut k); [|exact Hw].
      destruct (exists_in w n && exists_in w o); [|exact Hw].
      pose proof (dom_insert_before_P P H_ib H_ap w r n (Some o) Hw) as H1.
      destruct (dom_insert_before w r n (Some o)) as [w1 oc]. cbn [fst] in H1.
      destruct oc; try exact H1. apply (dom_remove_child_P P H_del). exact H1.
    - destruct (kind_in w r) as [k|]; [|exact Hw]. destruct (node_mut k); [|exact Hw].
      destruct (exists_in w o); [apply (dom_remove_child_P P H_del); exact Hw | exact Hw].
    - (* SetAttribute *)
      apply on_element_P; [exact Hw|]. intros s T Ke.
      destruct (n_attr name) as [[p l]|]; [|exact T].
      pose proof (H_cr s (new_item KAt p l [] false None) T eq_refl eq_refl eq_refl eq_refl ltac:(discriminate)) as T1.
      destruct (create_spec s (new_item KAt p l [] false None)) as [Hi [_ [_ [Hg _]]]].
      destruct (create s (new_item KAt p l [] false None)) as [a s1]. cbn [fst snd] in *. subst a.
      assert (Ka : has_kind s1 KAt (next s) = true) by (unfold has_kind; rewrite Hg; reflexivity).
      destruct (attribute_q s1 (snd r) p l) as [present|] eqn:Hpr.
      + assert (Kp : has_kind s1 KAt present = true).
        { unfold attribute_q in Hpr. apply find_some in Hpr. destruct Hpr as [_ Hq].
          apply andb_true_iff in Hq. tauto. }
        pose proof (H_sv s1 present value T1 Kp) as T2.
        destruct (set_values s1 present value) as [s2 [|]]; exact T2.
      + pose proof (H_sv s1 (next s) value T1 Ka) as T2.
        destruct (set_values s1 (next s) value) as [s2 [|]]; cbn [fst] in *; [|exact T2].
        pose proof (H_san w (fst r) s2 (snd r) (fst r, next s) T2) as T3.
        destruct (dom_set_attribute_node w (fst r) s2 (snd r) (fst r, next s)) as [s3 oc]. cbn [fst] in T3.
        destruct oc; exact T3.
    - destruct (attr_local w a) as [nm|]; [|exact Hw]. apply on_element_P; [exact Hw|]. intros s T _.
      apply H_san. exact T.
    - apply on_element_P; [exact Hw|]. intros s T _. cbn [fst]. apply H_ra. exact T.
    - destruct (attr_q w a) as [[p l]|]; [|exact Hw]. apply on_element_P; [exact Hw|]. intros s T _.
      destruct (attribute_q s (snd r) p l) as [f|]; [|exact T].
      destruct ((f =? snd a) && (fst a =? fst r)); cbn [fst]; [apply H_ra; exact T | exact T].
    - destruct (attr_local w a) as [nm|]; [|exact Hw]. apply on_element_P; [exact Hw|]. intros s T _.
      apply H_san. exact T.
    - apply on_element_P; [exact Hw|]. intros s T _.
      destruct (get_attribute_node s (snd r) name); cbn [fst]; [apply H_ra; exact T | exact T].
    - apply on_document_P; [exact Hw|]. intros s T. destruct (n_elem name) as [[p l]|]; [|exact T].
      apply factory_P2; try reflexivity; [exact T | discriminate].
    - apply on_document_P; [exact Hw|]. intros s T. destruct (n_attr name) as [[p l]|]; [|exact T].
      apply factory_P2; try reflexivity; [exact T | discriminate].
    - apply on_document_P; [exact Hw|]. intros s T. destruct (valid_str KTx (d_str data)); [|exact T].
      apply factory_P2; try reflexivity; [exact T | discriminate].
    - apply on_document_P; [exact Hw|]. intros s T. destruct (valid_str KCm (d_str data)); [|exact T].
      apply factory_P2; try reflexivity; [exact T | discriminate].
    - apply on_document_P; [exact Hw|]. intros s T. destruct (valid_str KCd (d_str data)); [|exact T].
      apply factory_P2; try reflexivity; [exact T | discriminate].
    - apply on_document_P; [exact Hw|]. intros s T.
      destruct (n_pi target) as [t|]; [|exact T]. destruct (d_pi data) as [[c|]|]; try exact T;
        (apply factory_P2; try reflexivity; [exact T | discriminate]).
    - apply on_document_P; [exact Hw|]. intros s T. destruct (n_ref name); [|exact T].
      destruct (entity_declared s (n_str name)); [|exact T].
      apply factory_P2; try reflexivity; [exact T | discriminate].
    - apply on_document_P; [exact Hw|]. intros s T. apply factory_P2; try reflexivity; [exact T | discriminate].
    - apply on_node_P; [exact Hw|]. intros s k T K. destruct k; try exact T.
      + pose proof (H_sv s (snd r) v T) as H. rewrite has_kind_kind_of, K in H. specialize (H eq_refl).
        destruct (set_values s (snd r) v) as [s1 [|]]; exact H.
      + apply H_rd. exact T.
      + apply H_rd. exact T.
      + apply H_pi. exact T.
      + apply H_rd. exact T.
    - apply on_node_P; [exact Hw|]. intros s k T _. destruct (chardata k); [apply H_rd; exact T | exact T].
    - apply on_node_P; [exact Hw|]. intros s k T _. destruct (chardata k); [apply H_id; exact T | exact T].
    - apply on_node_P; [exact Hw|]. intros s k T _. destruct (chardata k); [apply H_id; exact T | exact T].
    - apply on_node_P; [exact Hw|]. intros s k T _. destruct (chardata k); [apply H_dd; exact T | exact T].
    - apply on_node_P; [exact Hw|]. intros s k T _. destruct (chardata k); [apply H_rd; exact T | exact T].
    - apply on_node_P; [exact Hw|]. intros s k T _. destruct k; try exact T; apply H_st; exact T.
    - apply on_node_P; [exact Hw|]. intros s k T _. destruct k; try exact T. apply H_pi. exact T.
    - exact Hw.
  Qed.

  Theorem run_P2 ops : forall w, WP P w -> WP P (run w ops).
  Proof.
    induction ops as [|o t IH]; intros w Hw; cbn; [exact Hw|].
    apply IH. apply step_P2. exact Hw.
  Qed.
End Generic2.

(** ** the three invariants together, for every operation and every history *)
Definition WInv2 (w : world) : Prop := WP Inv2 w.

Lemma inv2_ib s r x f : Inv2 s -> Inv2 (fst (info_insert_before s r x f)).
Proof. intros H. eapply (fr_inv2 s); [exact H | apply info_insert_before_inv; apply H | apply fr_info_insert_before]. Qed.
Lemma inv2_ap s r x : Inv2 s -> Inv2 (fst (info_append s r x)).
Proof. intros H. eapply (fr_inv2 s); [exact H | apply info_append_inv; apply H | apply fr_info_append]. Qed.
Lemma inv2_del s r x : Inv2 s -> Inv2 (fst (info_delete s r x)).
Proof. intros H. eapply (fr_inv2 s); [exact H | apply info_delete_inv; apply H | apply fr_info_delete]. Qed.
Lemma inv2_ra s e sel : Inv2 s -> Inv2 (fst (remove_attrs s e sel)).
Proof.
  intros [T [U E]]. split; [apply remove_attrs_inv; exact T|]. split; [apply remove_attrs_uniq; exact U | apply remove_attrs_ents; exact E].
Qed.
Lemma inv2_san w k s e a : Inv2 s -> Inv2 (fst (dom_set_attribute_node w k s e a)).
Proof.
  intros [T [U E]]. split; [apply dom_set_attribute_node_inv; exact T|].
  split; [apply dom_set_attribute_node_uniq; exact U | apply dom_set_attribute_node_ents; exact E].
Qed.
Lemma inv2_sv s a d : Inv2 s -> has_kind s KAt a = true -> Inv2 (fst (set_values s a d)).
Proof. intros H K. eapply (fr_inv2 s); [exact H | apply set_values_inv; [apply H | exact K] | apply fr_set_values]. Qed.
Lemma inv2_cr s it : Inv2 s -> iparent it = None -> ichildren it = [] -> iattrs it = [] -> ients it = [] -> ikind it <> KDoc ->
  Inv2 (snd (create s it)).
Proof.
  intros H H1 H2 H3 H4 H5. eapply (fr_inv2 s); [exact H | apply create_tree_inv; try assumption; apply H | apply fr_create; assumption].
Qed.
Lemma inv2_rd s n k off cnt d : Inv2 s -> Inv2 (fst (replace_data s n k off cnt d)).
Proof. intros H. eapply (fr_inv2 s); [exact H | apply replace_data_inv; apply H | apply fr_edit_data]. Qed.
Lemma inv2_id s n k off d : Inv2 s -> Inv2 (fst (insert_data s n k off d)).
Proof. intros H. eapply (fr_inv2 s); [exact H | apply insert_data_inv; apply H | apply fr_edit_data]. Qed.
Lemma inv2_dd s n off cnt : Inv2 s -> Inv2 (fst (delete_data s n off cnt)).
Proof. intros H. eapply (fr_inv2 s); [exact H | apply delete_data_inv; apply H | apply fr_delete_data]. Qed.
Lemma inv2_pi s n d : Inv2 s -> Inv2 (fst (pi_set s n d)).
Proof. intros H. eapply (fr_inv2 s); [exact H | apply pi_set_inv; apply H | apply fr_pi_set]. Qed.
Lemma inv2_st k s n kd off : Inv2 s -> Inv2 (fst (split_text k s n kd off)).
Proof. intros H. eapply (fr_inv2 s); [exact H | apply split_text_inv; apply H | apply fr_split_text]. Qed.

Theorem step_inv2 w o : WInv2 w -> WInv2 (fst (step w o)).
Proof.
  apply (step_P2 Inv2 inv2_ib inv2_ap inv2_del inv2_ra inv2_san inv2_sv inv2_cr inv2_rd inv2_id inv2_dd inv2_pi inv2_st).
Qed.

Theorem run_inv2 ops w : WInv2 w -> WInv2 (run w ops).
Proof.
  apply (run_P2 Inv2 inv2_ib inv2_ap inv2_del inv2_ra inv2_san inv2_sv inv2_cr inv2_rd inv2_id inv2_dd inv2_pi inv2_st).
Qed.

Lemma winv2_split w : WInv2 w -> WInv w /\ WP UniqQ w /\ WEnts w.
Proof.
  unfold WInv2, WInv, WEnts, WP. intros H. rewrite Forall_forall in H.
  repeat split; apply Forall_forall; intros s Hs; destruct (H s Hs) as [T [U E]]; assumption.
Qed.

Lemma winv2_join w : WInv w -> WP UniqQ w -> WEnts w -> WInv2 w.
Proof.
  unfold WInv2, WInv, WEnts, WP. intros H1 H2 H3. rewrite Forall_forall in *.
  intros s Hs. split; [apply H1; exact Hs|]. split; [apply H2; exact Hs | apply H3; exact Hs].
Qed.

Definition WUniq (w : world) : Prop := WP UniqQ w.

(** ** rung "remove_attribute_node" *)
Lemma filter_single (f : N -> bool) (a : N) : forall l, NoDup l -> In a l -> (forall x, In x l -> (f x = true <-> x = a)) -> filter f l = [a].
Proof.
  induction l as [|y t IH]; intros Hnd Hin Hf; [destruct Hin|]. inversion Hnd as [|? ? Hy Ht]; subst. cbn [filter].
  destruct (N.eq_dec y a) as [->|Hne].
  - assert (f a = true) as -> by (apply Hf; [left; reflexivity | reflexivity]). f_equal.
    apply filter_none. intros x Hx. destruct (f x) eqn:E; [|reflexivity]. exfalso.
    assert (x = a) by (apply Hf; [right; exact Hx | exact E]). subst x. contradiction.
  - assert (f y = false) as ->.
    { destruct (f y) eqn:E; [|reflexivity]. exfalso. apply Hne. apply Hf; [left; reflexivity | exact E]. }
    apply IH; [exact Ht | destruct Hin as [E|Hin]; [contradiction | exact Hin] | intros x Hx; apply Hf; right; exact Hx].
Qed.

Theorem step_refines_partial_remove_attribute_node : forall w (r a : nref),
  WInv w -> WUniq w ->
  refines_on w (RemoveAttributeNode r a) (DomL1.ARemoveAttributeNode r a).
Proof.
  intros w r a Hw Hu. unfold refines_on. cbn [step DomL1.dom_step]. unfold DomL1.remove_attribute_node, attr_q.
  rewrite doc_of_abs. change (@fst N N r) with (@fst N id r).
  destruct (doc_at w (fst a)) as [sa|] eqn:Da.
  2:{ rewrite (aget_abs_none w a Da). destruct (option_map abs_store (doc_at w (fst r))); [destruct (DomL1.aget (abs w) r)|]; split; reflexivity. }
  rewrite (aget_abs w a sa Hw Da). destruct (get sa (snd a)) as [ait|] eqn:Ga; cbn [option_map].
  2:{ destruct (option_map abs_store (doc_at w (fst r))); [destruct (DomL1.aget (abs w) r)|]; split; reflexivity. }
  change (DomL1.n_type (abs_item ait)) with (abs_type (ikind ait)).
  destruct (kind_eqb_spec (ikind ait) KAt) as [Ka|Ka].
  2:{ assert (E : match ikind ait with KAt => Some (iprefix ait, ilocal ait) | _ => None end = None) by (destruct (ikind ait); try reflexivity; contradiction).
      rewrite E. destruct (option_map abs_store (doc_at w (fst r))); [destruct (DomL1.aget (abs w) r) as [rn|]|]; try (split; reflexivity).
      destruct (DomL1.n_type rn); try (split; reflexivity). destruct (ikind ait); try contradiction; split; reflexivity. }
  rewrite Ka. cbn [abs_type].
  unfold on_element, on_node.
  destruct (doc_at w (fst r)) as [s|] eqn:D; cbn [option_map]; [|split; reflexivity].
  pose proof (doc_at_P TreeInv w _ s Hw D) as T. pose proof (doc_at_P UniqQ w _ s Hu D) as U.
  rewrite (aget_abs w r s Hw D). unfold kind_of.
  destruct (get s (snd r)) as [rit|] eqn:Hr; cbn [option_map]; [|split; reflexivity].
  change (DomL1.n_type (abs_item rit)) with (abs_type (ikind rit)).
  destruct (kind_eqb_spec (ikind rit) KEl) as [Kr|Kr].
  2:{ destruct (ikind rit); try contradiction; cbn [abs_type fst snd]; rewrite (set_doc_same w (fst r) s D); split; reflexivity. }
  rewrite Kr. cbn [abs_type abs_item DomL1.n_attrs]. rewrite memN_mem.
  change (@fst N N a) with (@fst N id a). change (@snd N N a) with (@snd N id a). change (@snd N N r) with (@snd N id r).
  destruct (fst a =? fst r) eqn:Ef; cbn [andb].
  - apply N.eqb_eq in Ef. rewrite Ef in Da. rewrite D in Da. inversion Da; subst sa. clear Da.
    destruct (mem (snd a) (iattrs rit)) eqn:M.
    + apply mem_spec in M.
      assert (Hsel : forall x, In x (iattrs rit) -> (qname_is s (iprefix ait) (ilocal ait) x = true <-> x = snd a)).
      { intros x Hx. destruct (attr_live_kind s (snd r) rit x T Hr Hx) as [xit [Hgx _]].
        rewrite (qname_is_true s _ _ x xit Hgx). split.
        - intros [P L]. exact (U (snd r) rit x (snd a) xit ait Hr Hx M Hgx Ga P L).
        - intros ->. rewrite Ga in Hgx. inversion Hgx; subst xit. split; reflexivity. }
      assert (AQ : attribute_q s (snd r) (iprefix ait) (ilocal ait) = Some (snd a)).
      { unfold attribute_q, attrs_of. rewrite Hr.
        destruct (find (fun a0 => has_kind s KAt a0 && qname_is s (iprefix ait) (ilocal ait) a0) (iattrs rit)) as [f|] eqn:F.
        - apply find_some in F. destruct F as [Hin Hf]. apply andb_true_iff in Hf. destruct Hf as [_ Hf].
          f_equal. apply (Hsel f Hin). exact Hf.
        - exfalso. pose proof (find_none _ _ F (snd a) M) as Q. cbn beta in Q.
          assert (has_kind s KAt (snd a) = true) as X by (unfold has_kind; rewrite Ga, Ka; reflexivity).
          rewrite X, (proj2 (Hsel (snd a) M) eq_refl) in Q. discriminate. }
      rewrite AQ, N.eqb_refl. cbn [andb fst snd].
      pose proof (filter_single (qname_is s (iprefix ait) (ilocal ait)) (snd a) (iattrs rit) (ti_nodup_a s T _ _ Hr) M Hsel) as FS.
      destruct (abs_remove_attrs s (snd r) rit (qname_is s (iprefix ait) (ilocal ait)) [snd a] T Hr (eq_sym FS)) as [A1 _].
      fold (remove_attribute_q s (snd r) (iprefix ait) (ilocal ait)) in A1.
      split; [|reflexivity]. rewrite abs_set_doc. f_equal. exact A1.
    + apply mem_false in M.
      assert (G : forall f, attribute_q s (snd r) (iprefix ait) (ilocal ait) = Some f -> (f =? snd a) = false).
      { intros f F. unfold attribute_q, attrs_of in F. rewrite Hr in F. apply find_some in F. destruct F as [Hin _].
        apply N.eqb_neq. intros E. subst f. contradiction. }
      destruct (attribute_q s (snd r) (iprefix ait) (ilocal ait)) as [f|]; [rewrite (G f eq_refl)|];
        cbn [andb fst snd]; rewrite (set_doc_same w (fst r) s D); split; reflexivity.
  - destruct (attribute_q s (snd r) (iprefix ait) (ilocal ait)) as [f|]; [rewrite andb_false_r|];
      cbn [fst snd]; rewrite (set_doc_same w (fst r) s D); split; reflexivity.
Qed.
