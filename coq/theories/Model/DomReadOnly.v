(** * Model of the mutators of the read-only maps of a document type (on top of Model/DomOps.v and
    Model/DomNormalize.v; property C13, exception class "no modification allowed")

    The code (dom/src/lib.rs, [impl DocumentType for XmlDocumentType]): [entities()] and [notations()]
    return an [XmlNamedNodeMap] whose [add] and [remove] closures are

        fn add(_: &XmlNode, _: XmlEntity) -> error::Result<Option<XmlEntity>> { Err(NoModificationAllowedErr)? }
        fn remove(_: &XmlNode, _: &str)   -> error::Result<XmlEntity>         { Err(NoModificationAllowedErr)? }

    and [NamedNodeMapMut::set_named_item] / [remove_named_item] only call them: neither the map, nor the
    argument, nor the name is looked at, nothing is changed, and the answer is always
    [Err(Dom(NoModificationAllowedErr))] -- also for a name that is not in the map, also for an argument that
    comes from the map of another document.  These four closures are the only places of crate [dom] that
    answer [NoModificationAllowedErr].

    What remains to be modelled is when the call can be written at all:
    - the receiver: a [DocumentType] is reached through [Document::doc_type()] (the first document type child of
      the document node, [doc_decl]) or is the node itself (it stays usable after [remove_child] took it out of
      the document).  No document type: no map, no call ([XNotApplicable]);
    - the argument of [set_named_item] is an [XmlEntity] / [XmlNotation] value; the only way to obtain one is
      from such a map ([get_named_item(name)], [item(i)], the iterator) of some document type [src] -- of the
      same or of another document.  An argument that does not exist ([None]): no call.
      The names in [entities()] are in the store (the doctype item lists them, [ients], in map order; an entry
      [0 :: name] = declared but refused in attribute values, see Model/Store.v); the names in [notations()] are
      not: for the notations map the fact "the lookup gave a node" travels with the operation ([declared]), like
      the facts about string arguments of Model/DomOps.v.

    [exc] of Model/DomOps.v has no constructor for this class (the 27 operations of [op] never answer it), and
    [op] / [exc] / [outcome] are left as they are: [xexc] / [xoutcome] extend them from outside, [xop] extends
    the histories of Model/DomNormalize.v.  No proofs in this file. *)
From Coq Require Import List NArith Bool.
From XmlRs Require Import Base.CPred Model.Store Model.DomOps Model.DomNormalize.
Import ListNotations.
Open Scope N_scope.

Inductive ro_map := MEntities | MNotations.

(** how the argument of [set_named_item] was obtained from the map of [src] *)
Inductive ro_key :=
| ByName (name : str)    (* get_named_item(name) *)
| ByIndex (i : N).       (* item(i) *)

Inductive ro_op :=
| MapSetNamedItem (m : ro_map) (r src : nref) (k : ro_key) (declared : bool)
| MapRemoveNamedItem (m : ro_map) (r : nref) (name : str).

(** outcomes: those of [step], and the one exception class [step] does not have *)
Inductive xexc :=
| XExc (e : exc)
| XNoModificationAllowedErr.

Inductive xoutcome :=
| XOk (r : ret)
| XFailed (e : xexc)
| XPanicked
| XNotApplicable.

Definition lift_outcome (o : outcome) : xoutcome :=
  match o with
  | Ok r => XOk r
  | Failed e => XFailed (XExc e)
  | Panicked => XPanicked
  | NotApplicable => XNotApplicable
  end.

(** the document type a handle stands for: [Document::doc_type()] of a document node, the node itself for a
    document type node *)
Definition doctype_ref (w : world) (r : nref) : option nref :=
  match doc_at w (fst r) with
  | Some s =>
    match kind_of s (snd r) with
    | Some KDoc => match doc_decl s with Some d => Some (fst r, d) | None => None end
    | Some KDt => Some r
    | _ => None
    end
  | None => None
  end.

(** the name of an entry of [ients] *)
Definition ent_name (e : str) : str :=
  match e with
  | 0 :: n => n
  | _ => e
  end.

(** the names in [entities()] of the document type node [d], in map order *)
Definition entity_names (w : world) (d : nref) : list str :=
  match doc_at w (fst d) with
  | Some s => match get s (snd d) with Some it => map ent_name (ients it) | None => [] end
  | None => []
  end.

Definition key_present (names : list str) (k : ro_key) : bool :=
  match k with
  | ByName n => existsb (str_eqb n) names
  | ByIndex i => match nth_error names (N.to_nat i) with Some _ => true | None => false end
  end.

(** the lookup that produces the argument gives a node *)
Definition arg_exists (w : world) (m : ro_map) (src : nref) (k : ro_key) (declared : bool) : bool :=
  match doctype_ref w src with
  | Some d => match m with
              | MEntities => key_present (entity_names w d) k
              | MNotations => declared
              end
  | None => false
  end.

Definition step_ro (w : world) (o : ro_op) : world * xoutcome :=
  match o with
  | MapSetNamedItem m r src k declared =>
    match doctype_ref w r with
    | Some _ => if arg_exists w m src k declared then (w, XFailed XNoModificationAllowedErr) else (w, XNotApplicable)
    | None => (w, XNotApplicable)
    end
  | MapRemoveNamedItem m r name =>
    match doctype_ref w r with
    | Some _ => (w, XFailed XNoModificationAllowedErr)
    | None => (w, XNotApplicable)
    end
  end.

(** histories that contain the 27 operations, [normalize] calls and calls on the read-only maps *)
Inductive xop :=
| XN (o : nop)
| XRo (o : ro_op).

Definition step_x (w : world) (o : xop) : world * xoutcome :=
  match o with
  | XN o => (fst (step_n w o), lift_outcome (snd (step_n w o)))
  | XRo o => step_ro w o
  end.

Definition run_x (w : world) (ops : list xop) : world := fold_left (fun a o => fst (step_x a o)) ops w.

(** the history without its calls on the read-only maps *)
Fixpoint nops_of (ops : list xop) : list nop :=
  match ops with
  | [] => []
  | XN o :: t => o :: nops_of t
  | XRo _ :: t => nops_of t
  end.
