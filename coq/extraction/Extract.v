(** Extraction of the executable models and specifications to OCaml (ExtrOcamlBasic only:
    no Extract Constant / Extract Inductive of our own; N, Z, positive, nat stay inductive). *)
From Coq Require Import Extraction ExtrOcamlBasic.
From XmlRs Require Import Base.CPred Model.CharsObs.

Extraction Language OCaml.
Extraction "../ocaml/gen/model.ml" CharsObs.chars_obs.
