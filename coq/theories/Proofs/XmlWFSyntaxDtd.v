(** * C02, rung 2 (syntax), the DOCTYPE rung, part 1: literals, external identifiers, entity values,
    ENTITY and NOTATION declarations -- the productions of the regenerated grammar against
    Spec/XmlWF.v, with the translation of the typed values.

    Parameter entities: XmlDocument::new refuses parameter-entity declarations, parameter-entity
    references between declarations and inside entity values (Model/Info.v [build_subset],
    [check_entity_values]); they are excluded here by hypothesis ([nope_ev] ...), which the
    acceptance of the document implies. *)
From Coq Require Import List NArith Arith Lia Bool.
From XmlRs Require Import Base.CPred Spec.XmlChars Model.Peg Gen.XmlcharGen Gen.GrammarXmlGen Model.ParseActions Model.Info Model.Display
     Proofs.XmlcharProofs Proofs.PegTermination Proofs.PegLemmas Proofs.PegInv Proofs.Expansion
     Proofs.DisplayLex Proofs.ActionLemmas Proofs.DisplayElem Proofs.DisplayDoc Proofs.DisplayDtd
     Proofs.ParseInv Proofs.ParseInvElem Proofs.XmlWFSyntaxLex Proofs.XmlWFSyntaxElem.
From XmlRs Require Spec.XmlWF.
Import ListNotations.
Local Open Scope N_scope.

(** ** translation *)
Definition x_extid (x : external_id) : W.extid :=
  match x with ExSystem s => W.SystemId s | ExPublic p s => W.PublicId p s end.
Definition x_evpiece (v : entity_value) : list W.avpiece :=
  match v with
  | EvText s => map W.AvLit s
  | EvReference r => [W.piece_of_ref (x_ref r)]
  | EvPeReference _ => []
  end.
Definition x_ev (l : list entity_value) : list W.avpiece := flat_map x_evpiece l.
Definition x_entdef (d : entity_def) : W.entdef :=
  match d with
  | EdValue l => W.EdValue (x_ev l)
  | EdExternal x n => W.EdExternal (x_extid x) n
  end.

Definition nope_evpiece (v : entity_value) : bool := match v with EvPeReference _ => false | _ => true end.
Definition nope_ev (l : list entity_value) : bool := forallb nope_evpiece l.
Definition d04_evpiece (v : entity_value) : bool := match v with EvReference r => d04_ref r | _ => true end.
Definition d04_ev (l : list entity_value) : bool := forallb d04_evpiece l.
Definition d04_entdef (d : entity_def) : bool :=
  match d with
  | EdValue l => nope_ev l && d04_ev l
  | EdExternal _ (Some n) => is_Name n
  | EdExternal _ None => true
  end.

(** ** the end of a declaration: S? '>' *)
Lemma p_close_end r rest : tag_end r false rest -> W.p_close r = Some rest.
Proof. intros [a [Ha ->]]. unfold W.p_close. rewrite (skipS_app a _ Ha) by reflexivity. reflexivity. Qed.

Lemma syn_close s t r : S (Seq (Chars0 ws) (Tag [62])) s t r -> tag_end s false r.
Proof.
  intros H. inv H. match goal with H : succ _ (Chars0 ws) _ _ _ |- _ => apply inv_ws0 in H; destruct H as [a [-> [Ha _]]] end.
  match goal with H : succ _ (Tag _) _ _ _ |- _ => inv H end. exists a. split; [exact Ha|reflexivity].
Qed.

(** ** [11] SystemLiteral, [12] PubidLiteral *)
Lemma p_quoted_app (f : char -> bool) (q : N) (a r : str) : q = 34 \/ q = 39 ->
  forallb (fun c => f c && negb (c =? q)) a = true -> W.p_quoted f (q :: a ++ q :: r) = Some (a, r).
Proof.
  intros Hq Ha. unfold W.p_quoted. assert (W.isQuote q = true) as -> by (destruct Hq; subst q; reflexivity).
  rewrite (Wspan_app (fun c => f c && negb (c =? q)) a (q :: r) Ha).
  - rewrite N.eqb_refl. reflexivity.
  - cbn [stops]. rewrite N.eqb_refl. apply andb_false_r.
Qed.

Lemma char_except1 q c : eval (is_char_except [q]) c = W.isChar c && negb (c =? q).
Proof. rewrite is_char_except_equiv. cbn [existsb]. rewrite orb_false_r. reflexivity. Qed.

Lemma syn_system_literal s t r : S (NT nt_system_literal) s t r -> exists x : str, t = TStr x /\ W.p_SystemLiteral s = Some (x, r).
Proof.
  intros H. inv_nt H body_system_literal. unfold xc_char_except0 in *. inv_alt; invs; (eexists; split; [reflexivity|]); cbn [app];
    unfold W.p_SystemLiteral; apply p_quoted_app; auto;
    match goal with Ha : forallb _ ?a = true |- _ => revert Ha; apply forallb_impl; intros c Hc; rewrite <- char_except1; exact Hc end.
Qed.

Lemma pubid_not_quot c : eval is_pubid_char c = true -> (c =? 34) = false.
Proof. intros H. destruct (N.eqb_spec c 34) as [->|]; [vm_compute in H; discriminate|reflexivity]. Qed.

Lemma syn_pubid_literal s t r : S (NT nt_pubid_literal) s t r -> exists x : str, t = TStr x /\ W.p_PubidLiteral s = Some (x, r).
Proof.
  intros H. inv_nt H body_pubid_literal. unfold xc_pubid_char_except0 in *. inv_alt; invs.
  - match goal with H : succ _ (NT nt_multipubidchar0) _ _ _ |- _ => inv_nt H body_multipubidchar0 end. invs.
    eexists. split; [reflexivity|]. cbn [app]. unfold W.p_PubidLiteral. apply p_quoted_app; auto.
    match goal with Ha : forallb _ ?a = true |- _ => revert Ha; apply forallb_impl; intros c Hc end.
    rewrite <- is_pubid_char_equiv, Hc, (pubid_not_quot c Hc). reflexivity.
  - eexists. split; [reflexivity|]. cbn [app]. unfold W.p_PubidLiteral. apply p_quoted_app; auto.
    match goal with Ha : forallb _ ?a = true |- _ => revert Ha; apply forallb_impl; intros c Hc end.
    rewrite is_pubid_char_except_equiv in Hc. cbn [existsb] in Hc. rewrite orb_false_r in Hc. exact Hc.
Qed.

(** ** [75] ExternalID, [83] PublicID *)
Definition ext_pub (x : external_id) : option str := match x with ExSystem _ => None | ExPublic p _ => Some p end.
Definition ext_sys (x : external_id) : str := match x with ExSystem s => s | ExPublic _ s => s end.

Lemma extid_of_x x : W.extid_of (ext_pub x) (Some (ext_sys x)) = Some (x_extid x).
Proof. destruct x; reflexivity. Qed.

Lemma syn_external_id s t r : S (NT nt_external_id) s t r ->
  exists x, eval_tree t = VExternalId x /\ (forall b, W.p_ExternalID b s = Some (ext_pub x, Some (ext_sys x), r))
            /\ (exists s', s = W.s_system ++ s' \/ s = W.s_public ++ s').
Proof.
  intros H. inv_nt H body_external_id. inv_alt.
  - match goal with H : succ _ (Map _ _) _ _ _ |- _ => inv H end.
    match goal with H : succ _ (SeqR _ _) _ _ _ |- _ => inv H end.
    match goal with H : succ _ (Seq (Tag _) _) _ _ _ |- _ => inv H end.
    match goal with H : succ _ (Tag _) _ _ _ |- _ => inv H end.
    match goal with H : succ _ (Chars1 ws) _ _ _ |- _ => apply syn_ws1 in H; destruct H as [Hws _] end.
    match goal with H : succ _ (NT nt_system_literal) _ _ _ |- _ => apply syn_system_literal in H; destruct H as [x [-> Hx]] end.
    exists (ExSystem x). split; [reflexivity|]. split; [|eexists; left; reflexivity].
    intros b. unfold W.p_ExternalID. change W.s_system with [83;89;83;84;69;77]. rewrite Wstrip_app, Hws. cbn [W.bind]. rewrite Hx. reflexivity.
  - match goal with H : succ _ (Map _ _) _ _ _ |- _ => inv H end.
    match goal with H : succ _ (SeqR _ _) _ _ _ |- _ => inv H end.
    match goal with H : succ _ (Seq (Tag _) _) _ _ _ |- _ => inv H end.
    match goal with H : succ _ (Seq (NT nt_pubid_literal) _) _ _ _ |- _ => inv H end.
    match goal with H : succ _ (SeqR (Chars1 ws) _) _ _ _ |- _ => inv H end.
    match goal with H : succ _ (Tag _) _ _ _ |- _ => inv H end.
    match goal with H : succ _ (NT nt_system_literal) _ _ _ |- _ => apply syn_system_literal in H; destruct H as [x [-> Hx]] end.
    match goal with H : succ _ (NT nt_pubid_literal) _ _ _ |- _ => apply syn_pubid_literal in H; destruct H as [p [-> Hp]] end.
    repeat match goal with H : succ _ (Chars1 ws) _ _ _ |- _ => apply syn_ws1 in H; destruct H as [? _] end.
    exists (ExPublic p x). split; [reflexivity|]. split; [|eexists; right; reflexivity].
    intros b. unfold W.p_ExternalID. change (W.strip W.s_system ([80;85;66;76;73;67] ++ r1)) with (@None str).
    change W.s_public with [80;85;66;76;73;67]. rewrite Wstrip_app. cbn [W.bind].
    repeat match goal with H : W.p_S _ = Some _ |- _ => rewrite H; cbn [W.bind]; clear H end.
    rewrite Hp. cbn [W.bind].
    repeat match goal with H : W.p_S _ = Some _ |- _ => rewrite H; cbn [W.bind]; clear H end.
    rewrite Hx. reflexivity.
Qed.

Lemma syn_public_id s t r rest : S (NT nt_public_id) s t r -> tag_end r false rest ->
  exists p : str, t = TStr p /\ W.p_ExternalID true s = Some (Some p, None, r).
Proof.
  intros H He. inv_nt H body_public_id.
  match goal with H : succ _ (SeqR _ _) _ _ _ |- _ => inv H end.
  match goal with H : succ _ (Seq (Tag _) _) _ _ _ |- _ => inv H end.
  match goal with H : succ _ (Tag _) _ _ _ |- _ => inv H end.
  match goal with H : succ _ (Chars1 ws) _ _ _ |- _ => apply syn_ws1 in H; destruct H as [Hws _] end.
  match goal with H : succ _ (NT nt_pubid_literal) _ _ _ |- _ => apply syn_pubid_literal in H; destruct H as [p [-> Hp]] end.
  exists p. split; [reflexivity|]. unfold W.p_ExternalID.
  match goal with |- context [W.strip W.s_system ([80;85;66;76;73;67] ++ ?x)] => change (W.strip W.s_system ([80;85;66;76;73;67] ++ x)) with (@None str) end.
  change W.s_public with [80;85;66;76;73;67]. rewrite Wstrip_app. cbn [W.bind]. rewrite Hws. cbn [W.bind]. rewrite Hp. cbn [W.bind].
  destruct He as [a [Ha ->]].
  assert (W.bind (W.p_S (a ++ 62 :: rest)) (fun r3 => W.p_SystemLiteral r3) = None) as ->; [|reflexivity].
  destruct a as [|c a]; [reflexivity|]. rewrite (p_S_app (c :: a) (62 :: rest)) by (try discriminate; try assumption; reflexivity). reflexivity.
Qed.

(** ** [9] EntityValue (no parameter-entity reference inside) *)
Lemma ev_class q c : eval (is_char_except [37;38;q]) c = true ->
  W.isChar c = true /\ (c =? 37) = false /\ (c =? 38) = false /\ (c =? q) = false.
Proof.
  rewrite is_char_except_equiv. cbn [existsb]. rewrite orb_false_r, !negb_orb. intros H.
  apply andb_prop in H. destruct H as [H1 H]. apply andb_prop in H. destruct H as [H2 H]. apply andb_prop in H. destruct H as [H3 H4].
  rewrite negb_true_iff in *. repeat split; assumption.
Qed.

Lemma ev_pieces_text q (a : str) : forallb (eval (is_char_except [37;38;q])) a = true ->
  forall (r : str) fuel, (length a <= fuel)%nat ->
  W.p_pieces fuel (Some q) W.c_pct (a ++ r) =
  W.bind (W.p_pieces (fuel - length a) (Some q) W.c_pct r) (fun x => Some (map W.AvLit a ++ fst x, snd x)).
Proof.
  induction a as [|c a IH]; intros Ha r fuel Hf.
  - cbn [app length map]. rewrite Nat.sub_0_r. destruct (W.p_pieces fuel (Some q) W.c_pct r) as [[ps rest]|]; reflexivity.
  - cbn [forallb] in Ha. apply andb_prop in Ha. destruct Ha as [Hc Ha]. cbn [length] in Hf. destruct fuel as [|fuel]; [lia|].
    cbn [app length Nat.sub W.p_pieces]. destruct (ev_class q c Hc) as [H1 [H2 [H3 H4]]].
    rewrite H4. unfold W.c_pct, W.c_amp in *. rewrite H2, H3, H1. rewrite (IH Ha r fuel) by lia.
    destruct (W.p_pieces (fuel - length a) (Some q) 37 r) as [[ps rest]|]; reflexivity.
Qed.

Lemma syn_ev_many q s ts r : q = 34 \/ q = 39 -> SM (ev_piece q) s ts r ->
  exists l, map eval_tree ts = map VEntityValue l /\
    (nope_ev l = true -> d04_ev l = true -> forall r2 fuel, r = q :: r2 -> (length s < fuel)%nat ->
       W.p_pieces fuel (Some q) W.c_pct s = Some (x_ev l, r2)).
Proof.
  intros Hq H. remember (ev_piece q) as e eqn:Ee. induction H as [e s|e s t r1 ts r Hs Hlt Hm IH]; subst e.
  - exists []. split; [reflexivity|]. intros _ _ r2 fuel -> Hf. destruct fuel as [|fuel]; [lia|].
    cbn [W.p_pieces]. rewrite N.eqb_refl. reflexivity.
  - destruct (IH eq_refl) as [l [El Hl]]. unfold ev_piece in Hs. inv Hs; [|inv_alt]; invs.
    + (* text *)
      exists (EvText a :: l). split; [cbn [map eval_tree]; rewrite El; reflexivity|].
      cbn [nope_ev d04_ev forallb nope_evpiece d04_evpiece andb]. intros Hn Hd r2 fuel Er Hf. rewrite app_length in Hf.
      match goal with Ha : forallb _ a = true |- _ => rewrite (ev_pieces_text q a Ha r1 fuel) by lia end.
      rewrite (Hl Hn Hd r2 _ Er) by lia. reflexivity.
    + (* parameter-entity reference: excluded *)
      match goal with H : succ _ (NT nt_pe_reference) _ _ _ |- _ => inv_nt H body_pe_reference end. invs.
      match goal with H : succ _ (NT nt_name) _ _ _ |- _ => apply inv_name in H; destruct H as [n [-> _]] end.
      exists (EvPeReference n :: l). split; [cbn [map eval_tree]; rewrite El; reflexivity|].
      cbn [nope_ev forallb nope_evpiece andb]. intros Hn. discriminate Hn.
    + (* reference *)
      match goal with H : succ _ (NT nt_reference) _ _ _ |- _ => apply syn_reference in H; destruct H as [x [Ex [Hx [s' [-> Hp]]]]] end.
      exists (EvReference x :: l). split; [cbn [map eval_tree]; rewrite Ex, El; reflexivity|].
      cbn [nope_ev d04_ev forallb nope_evpiece d04_evpiece andb]. intros Hn Hd r2 fuel Er Hf. apply andb_prop in Hd. destruct Hd as [Hdx Hd].
      destruct fuel as [|fuel]; [lia|]. cbn [W.p_pieces].
      assert ((38 =? q) = false) as -> by (destruct Hq; subst q; reflexivity).
      change (38 =? W.c_pct) with false. change (38 =? W.c_amp) with true. cbv iota.
      rewrite (Hp Hdx). cbn [W.bind]. cbn [length] in Hf, Hlt. rewrite (Hl Hn Hd r2 fuel Er) by lia. reflexivity.
Qed.

Lemma syn_entity_value s t r : S (NT nt_entity_value) s t r ->
  exists l, eval_tree t = VList (map VEntityValue l) /\
    (nope_ev l = true -> d04_ev l = true -> forall fuel, (length s < fuel)%nat -> W.p_EntityValue fuel s = Some (x_ev l, r)).
Proof.
  intros H. inv_nt H body_entity_value. inv_alt; invs.
  - match goal with H : succ_many _ (ev_piece 34) _ _ _ |- _ => destruct (syn_ev_many _ _ _ _ (or_introl eq_refl) H) as [l [El Hl]] end.
    exists l. split; [cbn [eval_tree]; rewrite El; reflexivity|]. intros Hn Hd fuel Hf. cbn [app length] in *.
    unfold W.p_EntityValue. change (W.isQuote 34) with true. cbv iota. apply (Hl Hn Hd); [reflexivity|lia].
  - match goal with H : succ_many _ (ev_piece 39) _ _ _ |- _ => destruct (syn_ev_many _ _ _ _ (or_intror eq_refl) H) as [l [El Hl]] end.
    exists l. split; [cbn [eval_tree]; rewrite El; reflexivity|]. intros Hn Hd fuel Hf. cbn [app length] in *.
    unfold W.p_EntityValue. change (W.isQuote 39) with true. cbv iota. apply (Hl Hn Hd); [reflexivity|lia].
Qed.

(** ** [71] GEDecl *)
Lemma ws_name_end (a r : str) : a <> [] -> forallb (eval ws) a = true -> stops (eval is_name_char) (a ++ r).
Proof.
  intros Hn Ha. destruct a as [|c a]; [contradiction|]. cbn [forallb] in Ha. apply andb_prop in Ha. destruct Ha as [Hc _].
  cbn [app stops]. revert Hc. apply (disj_sound ws is_name_char). vm_compute. reflexivity.
Qed.

Lemma name_start_not_pct c : eval spec_NameStartChar c = true -> (c =? W.c_pct) = false.
Proof. intros H. destruct (N.eqb_spec c W.c_pct) as [->|]; [vm_compute in H; discriminate|reflexivity]. Qed.

Lemma entity_value_none_ext fuel s : (exists s', s = W.s_system ++ s' \/ s = W.s_public ++ s') -> W.p_EntityValue fuel s = None.
Proof. intros [s' [->| ->]]; reflexivity. Qed.

(** the text after `<!ENTITY` S, as Spec.XmlWF.p_markupdecl reads a general entity declaration *)
Definition spec_gedef (fuel : nat) (nm r4 : str) : option (W.decl * str) :=
  match W.p_EntityValue fuel r4 with
  | Some (v, r5) => W.bind (W.p_close r5) (fun r6 => Some (W.DEntity nm (W.EdValue v), r6))
  | None =>
    W.bind (W.p_ExternalID false r4) (fun '(pub, sys, r5) => W.bind (W.extid_of pub sys) (fun id =>
    match W.bind (W.p_S r5) (fun r6 => W.bind (W.strip W.s_NDATA r6) (fun r7 => W.bind (W.p_S r7) (fun r8 => W.p_Name r8))) with
    | Some (n, r9) => W.bind (W.p_close r9) (fun r10 => Some (W.DEntity nm (W.EdExternal id (Some n)), r10))
    | None => W.bind (W.p_close r5) (fun r6 => Some (W.DEntity nm (W.EdExternal id None), r6))
    end))
  end.
Definition spec_gedecl (fuel : nat) (r1 : str) : option (W.decl * str) :=
  match r1 with
  | c :: t =>
    if c =? W.c_pct then None
    else W.bind (W.p_Name r1) (fun '(nm, r3) => W.bind (W.p_S r3) (fun r4 => spec_gedef fuel nm r4))
  | [] => None
  end.

Lemma markupdecl_entity fuel r : W.p_markupdecl fuel (W.s_entity ++ r) =
  W.bind (W.p_S r) (fun r1 =>
    match r1 with
    | c :: t =>
      if c =? W.c_pct then
        W.bind (W.p_S t) (fun r2 => W.bind (W.p_Name r2) (fun '(nm, r3) => W.bind (W.p_S r3) (fun r4 =>
        match W.p_EntityValue fuel r4 with
        | Some (v, r5) => W.bind (W.p_close r5) (fun r6 => Some (W.DPEntity nm (W.EdValue v), r6))
        | None => W.bind (W.p_ExternalID false r4) (fun '(pub, sys, r5) => W.bind (W.extid_of pub sys) (fun id =>
                  W.bind (W.p_close r5) (fun r6 => Some (W.DPEntity nm (W.EdExternal id None), r6))))
        end)))
      else spec_gedecl fuel r1
    | [] => None
    end).
Proof.
  unfold W.p_markupdecl. change (W.strip W.s_element (W.s_entity ++ r)) with (@None str).
  change (W.strip W.s_attlist (W.s_entity ++ r)) with (@None str). rewrite Wstrip_app. cbv iota.
  destruct (W.p_S r) as [[|c t]|]; cbn [W.bind]; try reflexivity. unfold spec_gedecl, spec_gedef. destruct (c =? W.c_pct); reflexivity.
Qed.

Lemma ndata_attempt_fails r rest : tag_end r false rest ->
  W.bind (W.p_S r) (fun r6 => W.bind (W.strip W.s_NDATA r6) (fun r7 => W.bind (W.p_S r7) (fun r8 => W.p_Name r8))) = None.
Proof.
  intros [a [Ha ->]]. destruct a as [|c a]; [reflexivity|].
  rewrite (p_S_app (c :: a) (62 :: rest)) by (try discriminate; try assumption; reflexivity). reflexivity.
Qed.

Lemma syn_entity_def s t r rest : S (NT nt_entity_def) s t r -> tag_end r false rest ->
  exists d, eval_tree t = VEntityDef d /\
    (d04_entdef d = true -> forall fuel nm, (length s < fuel)%nat -> spec_gedef fuel nm s = Some (W.DEntity nm (x_entdef d), rest)).
Proof.
  intros H Hend. inv_nt H body_entity_def. inv_alt.
  - match goal with H : succ _ (Map _ _) _ _ _ |- _ => inv H end.
    match goal with H : succ _ (NT nt_entity_value) _ _ _ |- _ => apply syn_entity_value in H; destruct H as [l [El Hl]] end.
    exists (EdValue l). split; [cbn [eval_tree]; rewrite El; apply al_entity_def_value|].
    cbn [d04_entdef x_entdef]. intros Hd fuel nm Hf. apply andb_prop in Hd. destruct Hd as [Hn Hd].
    unfold spec_gedef. rewrite (Hl Hn Hd fuel Hf). rewrite (p_close_end _ _ Hend). reflexivity.
  - match goal with H : succ _ (Map _ _) _ _ _ |- _ => inv H end.
    match goal with H : succ _ (Seq _ _) _ _ _ |- _ => inv H end.
    match goal with H : succ _ (NT nt_external_id) _ _ _ |- _ => apply syn_external_id in H; destruct H as [x [Ex [Hx Hhead]]] end.
    match goal with H : succ _ (Opt _) _ _ _ |- _ => inv H end.
    + match goal with H : succ _ (NT nt_ndata_decl) _ _ _ |- _ => inv_nt H body_ndata_decl end.
      match goal with H : succ _ (SeqR _ _) _ _ _ |- _ => inv H end.
      match goal with H : succ _ (Seq (Chars1 ws) _) _ _ _ |- _ => inv H end.
      match goal with H : succ _ (Seq (Tag _) _) _ _ _ |- _ => inv H end.
      match goal with H : succ _ (Tag _) _ _ _ |- _ => inv H end.
      repeat match goal with H : succ _ (Chars1 ws) _ _ _ |- _ => apply syn_ws1 in H; destruct H as [? _] end.
      match goal with H : succ _ (NT nt_name) _ _ _ |- _ => apply syn_name in H; destruct H as [n [-> [-> [Hn Hpn]]]] end.
      exists (EdExternal x (Some n)). split; [cbn [eval_tree]; rewrite Ex; reflexivity|].
      cbn [d04_entdef x_entdef]. intros Hd fuel nm Hf. unfold spec_gedef.
      rewrite (entity_value_none_ext fuel _ Hhead). rewrite Hx. cbn [W.bind]. rewrite extid_of_x. cbn [W.bind].
      repeat match goal with H : W.p_S _ = Some _ |- _ => rewrite H; cbn [W.bind]; clear H end.
      change W.s_NDATA with [78;68;65;84;65]. rewrite Wstrip_app. cbn [W.bind].
      repeat match goal with H : W.p_S _ = Some _ |- _ => rewrite H; cbn [W.bind]; clear H end.
      rewrite (Hpn Hd). rewrite (p_close_end _ _ Hend). reflexivity.
    + exists (EdExternal x None). split; [cbn [eval_tree]; rewrite Ex; reflexivity|].
      cbn [d04_entdef x_entdef]. intros _ fuel nm Hf. unfold spec_gedef.
      rewrite (entity_value_none_ext fuel _ Hhead). rewrite Hx. cbn [W.bind]. rewrite extid_of_x. cbn [W.bind].
      rewrite (ndata_attempt_fails _ _ Hend). rewrite (p_close_end _ _ Hend). reflexivity.
Qed.

Lemma syn_ge_decl s t r : S (NT nt_ge_decl) s t r ->
  exists n d s', eval_tree t = VGeneralEntity n d /\ s = W.s_entity ++ s' /\
    (is_Name n = true -> d04_entdef d = true -> forall fuel, (length s <= fuel)%nat ->
       exists r1, W.p_S s' = Some r1 /\ spec_gedecl fuel r1 = Some (W.DEntity n (x_entdef d), r)).
Proof.
  intros H. inv_nt H body_ge_decl.
  match goal with H : succ _ (Map _ _) _ _ _ |- _ => inv H end.
  match goal with H : succ _ (Seq (SeqR _ _) _) _ _ _ |- _ => inv H end.
  match goal with H : succ _ (SeqR (Seq (Tag _) _) _) _ _ _ |- _ => inv H end.
  match goal with H : succ _ (Seq (Tag _) (Chars1 ws)) _ _ _ |- _ => inv H end.
  match goal with H : succ _ (Tag _) _ _ _ |- _ => inv H end.
  match goal with H : succ _ (SeqL (NT nt_name) _) _ _ _ |- _ => inv H end.
  match goal with H : succ _ (SeqL (NT nt_entity_def) _) _ _ _ |- _ => inv H end.
  match goal with H : succ _ (Seq (Chars0 ws) (Tag [62])) _ _ _ |- _ => apply syn_close in H; rename H into Hend end.
  match goal with H : succ _ (NT nt_name) _ _ _ |- _ => apply syn_name in H; destruct H as [n [-> [-> [Hn Hpn]]]] end.
  match goal with H : succ _ (NT nt_entity_def) _ _ _ |- _ => pose proof (succ_suffix _ _ _ _ _ H) as Hsuf; destruct (syn_entity_def _ _ _ _ H Hend) as [d [Ed Hd]] end.
  apply suffix_length in Hsuf.
  match goal with H1 : succ _ (Chars1 ws) ?r2 _ (n ++ ?r3), H2 : succ _ (Chars1 ws) ?r3 _ ?r1 |- _ =>
    pose proof (succ_suffix _ _ _ _ _ H1) as Hs1; pose proof (succ_suffix _ _ _ _ _ H2) as Hs2;
    apply syn_ws1 in H1; destruct H1 as [Hw1 _]; apply syn_ws1 in H2; destruct H2 as [Hw2 _] end.
  apply suffix_length in Hs1. apply suffix_length in Hs2. rewrite app_length in Hs1.
  exists n, d. eexists. split; [cbn [eval_tree]; rewrite Ed; reflexivity|]. split; [reflexivity|].
  intros Hdn Hdd fuel Hf. eexists. split; [exact Hw1|].
  destruct n as [|c n']; [discriminate|]. pose proof Hdn as Hc. cbn [is_Name] in Hc. apply andb_prop in Hc. destruct Hc as [Hc _].
  cbn [app length] in *. unfold spec_gedecl. rewrite (name_start_not_pct c Hc). rewrite (Hpn Hdn). cbn [W.bind]. rewrite Hw2. cbn [W.bind].
  apply (Hd Hdd). slia.
Qed.

(** ** [82] NotationDecl *)
Definition x_notation (d : decl_notation) : W.decl :=
  match dn_id d with
  | NiExternal x => W.DNotation (dn_name d) (ext_pub x) (Some (ext_sys x))
  | NiPublic p => W.DNotation (dn_name d) (Some p) None
  end.

Lemma markupdecl_notation fuel r : W.p_markupdecl fuel (W.s_notation_decl ++ r) =
  W.bind (W.p_S r) (fun r1 => W.bind (W.p_Name r1) (fun '(nm, r2) => W.bind (W.p_S r2) (fun r3 =>
  W.bind (W.p_ExternalID true r3) (fun '(pub, sys, r4) => W.bind (W.p_close r4) (fun r5 => Some (W.DNotation nm pub sys, r5)))))).
Proof. reflexivity. Qed.

Lemma syn_notation_decl s t r : S (NT nt_notation_decl) s t r ->
  exists d, eval_tree t = VDeclNotation d /\
    (is_Name (dn_name d) = true -> forall fuel, W.p_markupdecl fuel s = Some (x_notation d, r)).
Proof.
  intros H. inv_nt H body_notation_decl.
  match goal with H : succ _ (Map _ _) _ _ _ |- _ => inv H end.
  match goal with H : succ _ (Seq (SeqR _ _) _) _ _ _ |- _ => inv H end.
  match goal with H : succ _ (SeqR (Seq (Tag _) _) _) _ _ _ |- _ => inv H end.
  match goal with H : succ _ (Seq (Tag _) (Chars1 ws)) _ _ _ |- _ => inv H end.
  match goal with H : succ _ (Tag _) _ _ _ |- _ => inv H end.
  match goal with H : succ _ (SeqR (Chars1 ws) _) _ _ _ |- _ => inv H end.
  match goal with H : succ _ (SeqL (Alt _ _) _) _ _ _ |- _ => inv H end.
  match goal with H : succ _ (Seq (Chars0 ws) (Tag [62])) _ _ _ |- _ => apply syn_close in H; rename H into Hend end.
  match goal with H : succ _ (NT nt_name) _ _ _ |- _ => apply syn_name in H; destruct H as [n [-> [-> [Hn Hpn]]]] end.
  repeat match goal with H : succ _ (Chars1 ws) _ _ _ |- _ => apply syn_ws1 in H; destruct H as [? _] end.
  inv_alt.
  - match goal with H : succ _ (Map _ _) _ _ _ |- _ => inv H end.
    match goal with H : succ _ (NT nt_external_id) _ _ _ |- _ => apply syn_external_id in H; destruct H as [x [Ex [Hx _]]] end.
    exists (DeclNotation n (NiExternal x)). split; [cbn [eval_tree]; rewrite Ex; reflexivity|].
    cbn [dn_name]. intros Hd fuel. change ([60;33;78;79;84;65;84;73;79;78] ++ ?x) with (W.s_notation_decl ++ x). rewrite markupdecl_notation.
    repeat match goal with H : W.p_S _ = Some _ |- _ => rewrite H; cbn [W.bind]; clear H end. rewrite (Hpn Hd). cbn [W.bind].
    repeat match goal with H : W.p_S _ = Some _ |- _ => rewrite H; cbn [W.bind]; clear H end. rewrite Hx. cbn [W.bind].
    rewrite (p_close_end _ _ Hend). reflexivity.
  - match goal with H : succ _ (Map _ _) _ _ _ |- _ => inv H end.
    match goal with H : succ _ (NT nt_public_id) _ _ _ |- _ => destruct (syn_public_id _ _ _ _ H Hend) as [p [-> Hp]] end.
    exists (DeclNotation n (NiPublic p)). split; [reflexivity|].
    cbn [dn_name]. intros Hd fuel. change ([60;33;78;79;84;65;84;73;79;78] ++ ?x) with (W.s_notation_decl ++ x). rewrite markupdecl_notation.
    repeat match goal with H : W.p_S _ = Some _ |- _ => rewrite H; cbn [W.bind]; clear H end. rewrite (Hpn Hd). cbn [W.bind].
    repeat match goal with H : W.p_S _ = Some _ |- _ => rewrite H; cbn [W.bind]; clear H end. rewrite Hp. cbn [W.bind].
    rewrite (p_close_end _ _ Hend). reflexivity.
Qed.

(** ** [54]-[59] AttType *)
Definition x_atttype (ty : att_type) : W.atttype :=
  match ty with
  | AtCdata => W.ATCData | AtEntities => W.ATEntities | AtEntity => W.ATEntity | AtId => W.ATId
  | AtIdRef => W.ATIdRef | AtIdRefs => W.ATIdRefs | AtNmToken => W.ATNmtoken | AtNmTokens => W.ATNmtokens
  | AtNotation l => W.ATNotation l | AtEnumeration l => W.ATEnum l
  end.
Definition d04_atttype (ty : att_type) : bool := match ty with AtNotation l => forallb is_Name l | _ => true end.

Lemma ws_first_cases (r : str) : (exists a r', a <> [] /\ forallb (eval ws) a = true /\ r = a ++ r') ->
  exists c r0, r = c :: r0 /\ (c = 32 \/ c = 9 \/ c = 13 \/ c = 10).
Proof.
  intros [a [r' [Hn [Ha ->]]]]. destruct a as [|c a]; [contradiction|]. cbn [forallb] in Ha. apply andb_prop in Ha. destruct Ha as [Hc _].
  exists c. eexists. split; [reflexivity|]. apply ws_cases. exact Hc.
Qed.

(** a keyword type followed by white space *)
Lemma att_type_kw fuel (kw : str) (ty : W.atttype) (r : str) :
  In (kw, ty) [(W.s_CDATA, W.ATCData); (W.s_IDREFS, W.ATIdRefs); (W.s_IDREF, W.ATIdRef); (W.s_ID, W.ATId);
               (W.s_ENTITIES, W.ATEntities); (W.s_ENTITY, W.ATEntity); (W.s_NMTOKENS, W.ATNmtokens); (W.s_NMTOKEN, W.ATNmtoken)] ->
  (exists c r0, r = c :: r0 /\ (c = 32 \/ c = 9 \/ c = 13 \/ c = 10)) ->
  W.p_AttType fuel (kw ++ r) = Some (ty, r).
Proof.
  intros Hin [c [r0 [-> Hc]]]. cbn [In] in Hin.
  repeat (destruct Hin as [E|Hin]; [injection E as <- <-; destruct Hc as [->|[->|[->| ->]]]; reflexivity|]). destruct Hin.
Qed.

Section Alts.
Variable it : pexpr.
Variable tok : str -> option (str * str).
Variable good : str -> bool.
Hypothesis Htok : forall s t r, S it s t r -> exists x : str, t = TStr x /\ (good x = true -> tok s = Some (x, r)).

Lemma syn_alts_rest s ts r : SM (SeqR bar_sep it) s ts r ->
  exists l, map eval_tree ts = map VStr l /\
    (forallb good l = true -> forall rest, (exists a, forallb (eval ws) a = true /\ r = a ++ 41 :: rest) ->
       forall fuel x s0, (length s < fuel)%nat -> tok (W.skipS s0) = Some (x, s) -> W.p_alts fuel tok s0 = Some (x :: l, rest)).
Proof.
  intros H. remember (SeqR bar_sep it) as e eqn:Ee. induction H as [e s|e s t r1 ts r Hs Hlt Hm IH]; subst e.
  - exists []. split; [reflexivity|]. intros _ rest [a [Ha ->]] fuel x s0 Hf Hx. destruct fuel as [|f]; [lia|].
    cbn [W.p_alts]. rewrite Hx. cbn [W.bind]. rewrite (skipS_app a _ Ha) by reflexivity. reflexivity.
  - destruct (IH eq_refl) as [l [El Hl]]. inv Hs. unfold bar_sep in *.
    match goal with H : succ _ (Seq (Chars0 ws) _) _ _ _ |- _ => inv H end.
    match goal with H : succ _ (Seq (Tag _) _) _ _ _ |- _ => inv H end.
    match goal with H : succ _ (Tag _) _ _ _ |- _ => inv H end.
    match goal with H : succ _ (Chars0 ws) _ _ (_ ++ _) |- _ => apply inv_ws0 in H; destruct H as [a1 [-> [Ha1 _]]] end.
    match goal with H : succ _ (Chars0 ws) _ _ _ |- _ => apply syn_ws0 in H; rename H into Hw2 end.
    match goal with H : succ _ it _ _ _ |- _ => destruct (Htok _ _ _ H) as [y [-> Hy]] end.
    exists (y :: l). split; [cbn [map eval_tree]; rewrite El; reflexivity|].
    cbn [forallb]. intros Hg rest Hend fuel x s0 Hf Hx. apply andb_prop in Hg. destruct Hg as [Hgy Hgl].
    destruct fuel as [|f]; [lia|]. cbn [W.p_alts]. rewrite Hx. cbn [W.bind]. rewrite (skipS_app a1 _ Ha1) by reflexivity.
    cbn [app]. change (124 =? W.c_rpar) with false. change (124 =? W.c_bar) with true. cbv iota.
    rewrite (Hl Hgl rest Hend f y) ; [reflexivity|slia|]. rewrite Hw2. apply Hy. exact Hgy.
Qed.
End Alts.

Lemma tok_name s t r : S (NT nt_name) s t r -> exists x : str, t = TStr x /\ (is_Name x = true -> W.p_Name s = Some (x, r)).
Proof. intros H. apply syn_name in H. destruct H as [n [-> [_ [_ Hp]]]]. eauto. Qed.

Lemma tok_nmtoken s t r : S (NT nt_nmtoken) s t r -> exists x : str, t = TStr x /\ (true = true -> W.p_Nmtoken s = Some (x, r)).
Proof.
  intros H. inv_nt H body_nmtoken. invs. eexists. split; [reflexivity|]. intros _. unfold W.p_Nmtoken.
  match goal with Ha : forallb (eval is_name_char) ?a = true |- _ => rewrite (Wspan_app (eval spec_NameChar) a r) end.
  - match goal with Hn : ?a <> [] |- _ => destruct a; [contradiction|reflexivity] end.
  - apply (forallb_ext' (eval is_name_char)); [apply is_name_char_equiv|assumption].
  - eapply stops_ext; [|eassumption]. apply is_name_char_equiv.
Qed.

Lemma att_type_notation fuel r : W.p_AttType fuel (W.s_NOTATION ++ r) =
  W.bind (W.p_S r) (fun r1 => match r1 with
    | c :: t => if c =? W.c_lpar then W.bind (W.p_alts fuel W.p_Name t) (fun '(l, rest) => Some (W.ATNotation l, rest)) else None
    | [] => None end).
Proof. reflexivity. Qed.
Lemma att_type_enum fuel t : W.p_AttType fuel (40 :: t) = W.bind (W.p_alts fuel W.p_Nmtoken t) (fun '(l, rest) => Some (W.ATEnum l, rest)).
Proof. reflexivity. Qed.

Lemma syn_att_type s t r : S (NT nt_att_type) s t r ->
  (exists a r', a <> [] /\ forallb (eval ws) a = true /\ r = a ++ r') ->
  exists ty, eval_tree t = VAttType ty /\
    (d04_atttype ty = true -> forall fuel, (length s < fuel)%nat -> W.p_AttType fuel s = Some (x_atttype ty, r)).
Proof.
  intros H Hfol. apply ws_first_cases in Hfol. inv_nt H body_att_type. inv_alt.
  - match goal with H : succ _ (NT nt_enumerated_type) _ _ _ |- _ => inv_nt H body_enumerated_type end. inv_alt.
    + match goal with H : succ _ (Map _ _) _ _ _ |- _ => inv H end.
      match goal with H : succ _ (NT nt_notation_type) _ _ _ |- _ => pose proof (succ_suffix _ _ _ _ _ H) as Hsuf; inv_nt H body_notation_type end.
      match goal with H : succ _ (Map _ _) _ _ _ |- _ => inv H end.
      match goal with H : succ _ (SeqR _ _) _ _ _ |- _ => inv H end.
      match goal with H : succ _ (SeqL _ _) _ _ _ |- _ => inv H end.
      match goal with H : succ _ (Seq (NT nt_name) _) _ _ _ |- _ => inv H end.
      match goal with H : succ _ (Many0 _) _ _ _ |- _ => inv H end.
      match goal with H : succ _ (Seq (Tag [78;79;84;65;84;73;79;78]) _) _ _ _ |- _ => inv H end.
      match goal with H : succ _ (Seq (Chars1 ws) _) _ _ _ |- _ => inv H end.
      match goal with H : succ _ (Seq (Tag [40]) _) _ _ _ |- _ => inv H end.
      repeat match goal with H : succ _ (Tag _) _ _ _ |- _ => inv H end.
      match goal with H : succ _ (Chars1 ws) _ _ _ |- _ => apply syn_ws1 in H; destruct H as [Hw1 _] end.
      match goal with H : succ _ (Seq (Chars0 ws) (Tag [41])) _ _ _ |- _ => inv H end.
      match goal with H : succ _ (Tag _) _ _ _ |- _ => inv H end.
      match goal with H : succ _ (Chars0 ws) _ _ ([41] ++ _) |- _ => apply inv_ws0 in H; destruct H as [a2 [-> [Ha2 _]]] end.
      match goal with H : succ _ (Chars0 ws) _ _ _ |- _ => apply syn_ws0 in H; rename H into Hw0 end.
      match goal with H : succ_many _ _ _ _ _ |- _ => pose proof (syn_alts_rest (NT nt_name) W.p_Name is_Name tok_name _ _ _ H) as [l [El Hl]] end.
      match goal with H : succ _ (NT nt_name) _ _ _ |- _ => pose proof (succ_suffix _ _ _ _ _ H) as Hsuf2; apply tok_name in H; destruct H as [x [-> Hx]] end.
      exists (AtNotation (x :: l)). split.
      { cbn [eval_tree]. rewrite El. rewrite al_441e. apply al_notation_type. }
      cbn [d04_atttype x_atttype forallb]. intros Hd fuel Hf. apply andb_prop in Hd. destruct Hd as [Hdx Hdl].
      change ([78;79;84;65;84;73;79;78] ++ ?y) with (W.s_NOTATION ++ y). rewrite att_type_notation. rewrite Hw1. cbn [W.bind app].
      change (40 =? W.c_lpar) with true. cbv iota.
      apply suffix_length in Hsuf2.
      rewrite (Hl Hdl r) with (x := x); [reflexivity|exists a2; split; [exact Ha2|reflexivity]| |rewrite Hw0; apply Hx; exact Hdx].
      apply p_S_length in Hw1. pose proof (skipS_length r5) as Hl5. rewrite Hw0 in Hl5. cbn [app length] in *. slia.
    + match goal with H : succ _ (Map _ _) _ _ _ |- _ => inv H end.
      match goal with H : succ _ (NT nt_enumeration) _ _ _ |- _ => pose proof (succ_suffix _ _ _ _ _ H) as Hsuf; inv_nt H body_enumeration end.
      match goal with H : succ _ (Map _ _) _ _ _ |- _ => inv H end.
      match goal with H : succ _ (SeqR _ _) _ _ _ |- _ => inv H end.
      match goal with H : succ _ (SeqL _ _) _ _ _ |- _ => inv H end.
      match goal with H : succ _ (Seq (NT nt_nmtoken) _) _ _ _ |- _ => inv H end.
      match goal with H : succ _ (Many0 _) _ _ _ |- _ => inv H end.
      match goal with H : succ _ (Seq (Tag [40]) _) _ _ _ |- _ => inv H end.
      match goal with H : succ _ (Tag _) _ _ _ |- _ => inv H end.
      match goal with H : succ _ (Seq (Chars0 ws) (Tag [41])) _ _ _ |- _ => inv H end.
      match goal with H : succ _ (Tag _) _ _ _ |- _ => inv H end.
      match goal with H : succ _ (Chars0 ws) _ _ ([41] ++ _) |- _ => apply inv_ws0 in H; destruct H as [a2 [-> [Ha2 _]]] end.
      match goal with H : succ _ (Chars0 ws) _ _ _ |- _ => apply syn_ws0 in H; rename H into Hw0 end.
      match goal with H : succ_many _ _ _ _ _ |- _ => pose proof (syn_alts_rest (NT nt_nmtoken) W.p_Nmtoken (fun _ => true) tok_nmtoken _ _ _ H) as [l [El Hl]] end.
      match goal with H : succ _ (NT nt_nmtoken) _ _ _ |- _ => pose proof (succ_suffix _ _ _ _ _ H) as Hsuf2; apply tok_nmtoken in H; destruct H as [x [-> Hx]] end.
      exists (AtEnumeration (x :: l)). split.
      { cbn [eval_tree]. rewrite El. rewrite al_441e. apply al_enumeration_type. }
      cbn [d04_atttype x_atttype]. intros _ fuel Hf. cbn [app]. rewrite att_type_enum.
      apply suffix_length in Hsuf2.
      assert (forallb (fun _ : str => true) l = true) as Hall by (clear; induction l as [|y l IHl]; [reflexivity|exact IHl]).
      rewrite (Hl Hall r) with (x := x); [reflexivity|exists a2; split; [exact Ha2|reflexivity]| |rewrite Hw0; apply Hx; reflexivity].
      match type of Hw0 with W.skipS ?rr = _ => pose proof (skipS_length rr) as Hl5; rewrite Hw0 in Hl5 end. cbn [app length] in *. slia.
  - repeat inv_alt; invs.
    all: match goal with |- exists ty, eval_tree (TMap ?L _) = _ /\ _ => idtac end.
    + exists AtCdata. split; [reflexivity|]. intros _ fuel _. apply att_type_kw; [cbn; tauto|exact Hfol].
    + exists AtIdRefs. split; [reflexivity|]. intros _ fuel _. apply att_type_kw; [cbn; tauto|exact Hfol].
    + exists AtIdRef. split; [reflexivity|]. intros _ fuel _. apply att_type_kw; [cbn; tauto|exact Hfol].
    + exists AtId. split; [reflexivity|]. intros _ fuel _. apply att_type_kw; [cbn; tauto|exact Hfol].
    + exists AtEntities. split; [reflexivity|]. intros _ fuel _. apply att_type_kw; [cbn; tauto|exact Hfol].
    + exists AtEntity. split; [reflexivity|]. intros _ fuel _. apply att_type_kw; [cbn; tauto|exact Hfol].
    + exists AtNmTokens. split; [reflexivity|]. intros _ fuel _. apply att_type_kw; [cbn; tauto|exact Hfol].
    + exists AtNmToken. split; [reflexivity|]. intros _ fuel _. apply att_type_kw; [cbn; tauto|exact Hfol].
Qed.

(** ** [60] DefaultDecl *)
Definition x_attdefault (d : att_default) : W.attdefault :=
  match d with
  | AdRequired => W.ADRequired
  | AdImplied => W.ADImplied
  | AdValue f v => W.ADValue (match f with Some _ => true | None => false end) (x_av v)
  end.
Definition d04_attdefault (d : att_default) : bool := match d with AdValue _ v => d04_av v | _ => true end.

Lemma default_fixed fuel r : W.p_DefaultDecl fuel (W.s_FIXED ++ r) =
  W.bind (W.p_S r) (fun r1 => W.bind (W.p_AttValue fuel r1) (fun '(v, r2) => Some (W.ADValue true v, r2))).
Proof. reflexivity. Qed.

Lemma default_value fuel q r : q = 34 \/ q = 39 -> W.p_DefaultDecl fuel (q :: r) =
  W.bind (W.p_AttValue fuel (q :: r)) (fun '(v, r2) => Some (W.ADValue false v, r2)).
Proof. intros [->| ->]; reflexivity. Qed.

Lemma att_value_head s t r : S (NT nt_att_value) s t r -> exists q s', s = q :: s' /\ (q = 34 \/ q = 39).
Proof. intros H. inv_nt H body_att_value. inv_alt; invs; cbn [app]; eauto. Qed.

Lemma syn_default_decl s t r : S (NT nt_default_decl) s t r ->
  exists d, eval_tree t = VAttDefault d /\
    (d04_attdefault d = true -> forall fuel, (length s < fuel)%nat -> W.p_DefaultDecl fuel s = Some (x_attdefault d, r)).
Proof.
  intros H. inv_nt H body_default_decl. repeat inv_alt.
  - invs. exists AdRequired. split; [reflexivity|]. intros _ fuel _. unfold W.p_DefaultDecl. change W.s_REQUIRED with [35;82;69;81;85;73;82;69;68].
    rewrite Wstrip_app. reflexivity.
  - invs. exists AdImplied. split; [reflexivity|]. intros _ fuel _. unfold W.p_DefaultDecl.
    change (W.strip W.s_REQUIRED ([35;73;77;80;76;73;69;68] ++ r)) with (@None str). change W.s_IMPLIED with [35;73;77;80;76;73;69;68].
    rewrite Wstrip_app. reflexivity.
  - match goal with H : succ _ (Map _ _) _ _ _ |- _ => inv H end.
    match goal with H : succ _ (Seq _ _) _ _ _ |- _ => inv H end.
    match goal with H : succ _ (NT nt_att_value) _ _ _ |- _ => pose proof (att_value_head _ _ _ H) as Hhead; pose proof (succ_suffix _ _ _ _ _ H) as Hsuf;
      apply syn_att_value in H; destruct H as [l [El Hl]] end.
    match goal with H : succ _ (Opt _) _ _ _ |- _ => inv H end.
    + match goal with H : succ _ (SeqL _ _) _ _ _ |- _ => inv H end.
      match goal with H : succ _ (Tag _) _ _ _ |- _ => inv H end.
      match goal with H : succ _ (Chars1 ws) _ _ _ |- _ => pose proof (succ_suffix _ _ _ _ _ H) as Hsuf2; apply syn_ws1 in H; destruct H as [Hw _] end.
      exists (AdValue (Some [35;70;73;88;69;68]) l). split; [cbn [eval_tree]; rewrite El; apply (al_default_value (Some [35;70;73;88;69;68]) l)|].
      cbn [d04_attdefault x_attdefault]. intros Hd fuel Hf. change ([35;70;73;88;69;68] ++ ?y) with (W.s_FIXED ++ y). rewrite default_fixed, Hw. cbn [W.bind].
      apply suffix_length in Hsuf2. cbn [app length] in Hf. rewrite (Hl Hd fuel) by slia. reflexivity.
    + exists (AdValue None l). split; [cbn [eval_tree]; rewrite El; apply (al_default_value None l)|].
      cbn [d04_attdefault x_attdefault]. intros Hd fuel Hf. destruct Hhead as [q [s' [Eq Hq]]]. subst. srw (default_value fuel q s' Hq).
      rewrite (Hl Hd fuel Hf). reflexivity.
Qed.

(** ** [53] AttDef, [52] AttlistDecl *)
Definition x_danname (n : decl_att_name) : str := match n with DanAttr q => d_qname q | DanNamespace a => x_attname a end.
Definition x_attdef (d : att_def) : str * W.atttype * W.attdefault := (x_danname (ad_name d), x_atttype (ad_ty d), x_attdefault (ad_value d)).
Definition d04_attdef (d : att_def) : bool := d04_atttype (ad_ty d) && d04_attdefault (ad_value d).

Lemma ws1_follow s t r : S (Chars1 ws) s t r -> exists a r', a <> [] /\ forallb (eval ws) a = true /\ s = a ++ r'.
Proof. intros H. apply inv_ws1 in H. destruct H as [a [-> [Hn [Ha _]]]]. eauto. Qed.

Lemma syn_ns_att_name s t r : S (NT nt_ns_att_name) s t r -> stops (eval is_name_char) r ->
  exists n, eval_tree t = VAttName n /\ W.p_Name s = Some (x_attname n, r).
Proof.
  intros H Hst. inv_nt H body_ns_att_name. inv_alt; invs.
  - match goal with H : succ _ (NT nt_ncname) _ _ _ |- _ => apply inv_ncname in H; destruct H as [n [-> [Hn [-> _]]]] end.
    exists (AnNamespace n). split; [reflexivity|]. cbn [x_attname].
    change ([120;109;108;110;115;58] ++ n ++ r) with ((W.s_xmlns ++ 58 :: n) ++ r).
    apply p_Name_app; [apply xmlns_colon_name; exact Hn|exact Hst].
  - exists AnDefaultNamespace. split; [reflexivity|]. apply p_Name_app; [reflexivity|exact Hst].
Qed.

Lemma syn_att_def s t r : S (NT nt_att_def) s t r ->
  exists d, eval_tree t = VAttDef d /\ (length r < length s)%nat /\ (exists c s0, s = c :: s0 /\ eval ws c = true) /\
    (d04_attdef d = true -> forall fuel, (length s <= fuel)%nat ->
       exists r1 r2 r3 r4 r5, W.p_S s = Some r1 /\ W.skipS s = r1 /\ W.p_Name r1 = Some (x_danname (ad_name d), r2) /\ W.p_S r2 = Some r3 /\
         W.p_AttType fuel r3 = Some (x_atttype (ad_ty d), r4) /\ W.p_S r4 = Some r5 /\
         W.p_DefaultDecl fuel r5 = Some (x_attdefault (ad_value d), r)).
Proof.
  intros H. pose proof (succ_suffix _ _ _ _ _ H) as Hsuf0. inv_nt H body_att_def.
  match goal with H : succ _ (Map _ _) _ _ _ |- _ => inv H end.
  match goal with H : succ _ (Seq (SeqR _ _) _) _ _ _ |- _ => inv H end.
  match goal with H : succ _ (Seq (SeqR _ _) _) _ _ _ |- _ => inv H end.
  match goal with H : succ _ (SeqR (Chars1 ws) (NT nt_default_decl)) _ _ _ |- _ => inv H end.
  match goal with H : succ _ (SeqR (Chars1 ws) (NT nt_att_type)) _ _ _ |- _ => inv H end.
  match goal with H : succ _ (SeqR (Chars1 ws) (Alt _ _)) _ _ _ |- _ => inv H end.
  match goal with H : succ _ (NT nt_default_decl) _ _ _ |- _ => pose proof (succ_suffix _ _ _ _ _ H) as Hs5; apply syn_default_decl in H; destruct H as [dv [Edv Hdv]] end.
  match goal with H1 : succ _ (NT nt_att_type) _ _ ?r4, H2 : succ _ (Chars1 ws) ?r4 _ _ |- _ =>
    pose proof (succ_suffix _ _ _ _ _ H1) as Hs3; pose proof (succ_suffix _ _ _ _ _ H2) as Hs4;
    destruct (syn_att_type _ _ _ H1 (ws1_follow _ _ _ H2)) as [ty [Ety Hty]]; apply syn_ws1 in H2; destruct H2 as [Hw4 _] end.
  match goal with H1 : succ _ (Alt _ _) _ _ ?r2, H2 : succ _ (Chars1 ws) ?r2 _ _ |- _ =>
    pose proof (succ_suffix _ _ _ _ _ H1) as Hs1; pose proof (succ_suffix _ _ _ _ _ H2) as Hs2;
    assert (stops (eval is_name_char) r2) as Hst by (destruct (ws1_follow _ _ _ H2) as [a [r' [Hn [Ha ->]]]]; apply ws_name_end; assumption);
    apply syn_ws1 in H2; destruct H2 as [Hw2 _] end.
  match goal with H : succ _ (Chars1 ws) _ _ _ |- _ => pose proof (succ_suffix _ _ _ _ _ H) as Hs0; pose proof (ws1_follow _ _ _ H) as Hhead;
    apply syn_ws1 in H; destruct H as [Hw0 Hw0'] end.
  apply suffix_length in Hs0, Hs1, Hs2, Hs3, Hs4, Hs5.
  assert (exists c s0, s = c :: s0 /\ eval ws c = true) as Hfirst.
  { destruct Hhead as [a [r' [Hn [Ha ->]]]]. destruct a as [|c a]; [contradiction|]. cbn [forallb] in Ha. apply andb_prop in Ha. cbn [app]. exists c. eexists. split; [reflexivity|tauto]. }
  assert (length r < length s)%nat as Hlt by (apply p_S_lt in Hw0; slia).
  pose proof (p_S_lt _ _ Hw0) as Hlt0.
  inv_alt.
  - match goal with H : succ _ (Map _ _) _ _ _ |- _ => inv H end.
    match goal with H : succ _ (NT nt_qname) _ _ _ |- _ => apply syn_qname in H; [|exact Hst]; destruct H as [q [-> [Hq [_ Hp]]]] end.
    exists (AttDef (DanAttr q) ty dv). split; [cbn [eval_tree]; rewrite eval_tree_qname, Ety, Edv; reflexivity|]. split; [exact Hlt|]. split; [exact Hfirst|].
    unfold d04_attdef. cbn [ad_name ad_ty ad_value x_danname]. intros Hd fuel Hf. apply andb_prop in Hd. destruct Hd as [Hd1 Hd2].
    do 5 eexists. split; [exact Hw0|]. split; [reflexivity|]. split; [exact Hp|]. split; [exact Hw2|]. split; [apply (Hty Hd1); slia|]. split; [exact Hw4|]. apply (Hdv Hd2). slia.
  - match goal with H : succ _ (Map _ _) _ _ _ |- _ => inv H end.
    match goal with H : succ _ (NT nt_ns_att_name) _ _ _ |- _ => destruct (syn_ns_att_name _ _ _ H Hst) as [an0 [Ean Hp]] end.
    exists (AttDef (DanNamespace an0) ty dv). split; [cbn [eval_tree]; rewrite Ean, Ety, Edv; reflexivity|]. split; [exact Hlt|]. split; [exact Hfirst|].
    unfold d04_attdef. cbn [ad_name ad_ty ad_value x_danname]. intros Hd fuel Hf. apply andb_prop in Hd. destruct Hd as [Hd1 Hd2].
    do 5 eexists. split; [exact Hw0|]. split; [reflexivity|]. split; [exact Hp|]. split; [exact Hw2|]. split; [apply (Hty Hd1); slia|]. split; [exact Hw4|]. apply (Hdv Hd2). slia.
Qed.

Lemma syn_att_defs s ts r rest : SM (NT nt_att_def) s ts r -> tag_end r false rest ->
  exists l, map eval_tree ts = map VAttDef l /\
    (s = r \/ exists c s0, s = c :: s0 /\ eval ws c = true) /\
    (forallb d04_attdef l = true -> forall fuel, (length s < fuel)%nat -> W.p_attdefs fuel s = Some (map x_attdef l, rest)).
Proof.
  intros H Hend. remember (NT nt_att_def) as ex eqn:Ee. induction H as [ex s|ex s t r1 ts r Hs Hlt Hm IH]; subst ex.
  - exists []. split; [reflexivity|]. split; [left; reflexivity|]. intros _ fuel Hf. destruct fuel as [|f]; [lia|].
    destruct Hend as [a [Ha ->]]. cbn [W.p_attdefs]. rewrite (skipS_app a _ Ha) by reflexivity. reflexivity.
  - destruct (IH eq_refl Hend) as [l [El [_ Hl]]]. apply syn_att_def in Hs. destruct Hs as [d [Ed [_ [Hfirst Hd]]]].
    exists (d :: l). split; [cbn [map]; rewrite Ed, El; reflexivity|]. split; [right; exact Hfirst|].
    cbn [forallb]. intros Hdd fuel Hf. apply andb_prop in Hdd. destruct Hdd as [Hd0 Hdl].
    destruct fuel as [|f]; [lia|].
    destruct (Hd Hd0 f ltac:(lia)) as [x1 [x2 [x3 [x4 [x5 [E1 [E2 [E3 [E4 [E5 [E6 E7]]]]]]]]]]].
    destruct (p_Name_first _ _ _ E3) as [c [s0 [Es Hc]]].
    cbn [W.p_attdefs]. rewrite E2, Es.
    assert ((c =? W.c_gt) = false) as -> by (destruct (N.eqb_spec c W.c_gt) as [->|]; [vm_compute in Hc; discriminate|reflexivity]).
    rewrite <- Es. rewrite E1. cbn [W.bind]. rewrite E3. cbn [W.bind]. rewrite E4. cbn [W.bind]. rewrite E5. cbn [W.bind]. rewrite E6. cbn [W.bind].
    rewrite E7. cbn [W.bind]. rewrite (Hl Hdl f) by lia. reflexivity.
Qed.

Definition x_attlist (d : decl_att) : W.decl := W.DAttlist (d_qname (da_name d)) (map x_attdef (da_defs d)).
Definition d04_attlist (d : decl_att) : bool := forallb d04_attdef (da_defs d).

Lemma markupdecl_attlist fuel r : W.p_markupdecl fuel (W.s_attlist ++ r) =
  W.bind (W.p_S r) (fun r1 => W.bind (W.p_Name r1) (fun '(nm, r2) => W.bind (W.p_attdefs fuel r2) (fun '(l, r3) => Some (W.DAttlist nm l, r3)))).
Proof. reflexivity. Qed.

Lemma syn_attlist_decl s t r : S (NT nt_attlist_decl) s t r ->
  exists d, eval_tree t = VDeclAtt d /\
    (d04_attlist d = true -> forall fuel, (length s <= fuel)%nat -> W.p_markupdecl fuel s = Some (x_attlist d, r)).
Proof.
  intros H. inv_nt H body_attlist_decl.
  match goal with H : succ _ (Map _ _) _ _ _ |- _ => inv H end.
  match goal with H : succ _ (SeqR _ _) _ _ _ |- _ => inv H end.
  match goal with H : succ _ (SeqL _ _) _ _ _ |- _ => inv H end.
  match goal with H : succ _ (Seq (Tag _) _) _ _ _ |- _ => inv H end.
  match goal with H : succ _ (Tag _) _ _ _ |- _ => inv H end.
  match goal with H : succ _ (Seq (NT nt_qname) _) _ _ _ |- _ => inv H end.
  match goal with H : succ _ (Many0 _) _ _ _ |- _ => inv H end.
  match goal with H : succ _ (Seq (Chars0 ws) (Tag [62])) _ _ _ |- _ => apply syn_close in H; rename H into Hend end.
  match goal with H : succ_many _ (NT nt_att_def) _ _ _ |- _ => destruct (syn_att_defs _ _ _ _ H Hend) as [l [El [Hfirst Hl]]] end.
  match goal with H : succ _ (Chars1 ws) _ _ _ |- _ => pose proof (succ_suffix _ _ _ _ _ H) as Hs1; apply syn_ws1 in H; destruct H as [Hw _] end.
  match goal with H : succ _ (NT nt_qname) _ _ ?rq |- _ => assert (stops (eval is_name_char) rq) as Hst end.
  { destruct Hfirst as [->|[c [s0 [-> Hc]]]]; [eapply tag_end_stops_name; exact Hend|].
    cbn [stops]. revert Hc. apply (disj_sound ws is_name_char). vm_compute. reflexivity. }
  match goal with H : succ _ (NT nt_qname) _ _ _ |- _ => pose proof (succ_suffix _ _ _ _ _ H) as Hs2; apply syn_qname in H; [|exact Hst];
    destruct H as [q [-> [Hq [_ Hp]]]] end.
  exists (DeclAtt q l). split; [cbn [eval_tree]; rewrite eval_tree_qname, El; apply al_decl_att|].
  unfold d04_attlist, x_attlist. cbn [da_name da_defs]. intros Hd fuel Hf.
  change ([60;33;65;84;84;76;73;83;84] ++ ?y) with (W.s_attlist ++ y). rewrite markupdecl_attlist, Hw. cbn [W.bind]. rewrite Hp. cbn [W.bind].
  apply suffix_length in Hs1, Hs2. cbn [app length] in Hf. rewrite (Hl Hd fuel) by slia. reflexivity.
Qed.
