(** * C13: refinement rung "attribute nodes" -- set_attribute_node and set_named_item

    The model replaces the attribute with the same (prefix, local name); the specification the
    attribute with the same nodeName.  The two agree because names are NCNames with an optional
    NCName prefix ([Printable], Proofs/DomPrintable.v: an invariant of every reachable world whose
    initial documents were parsed): [prefix ":" local] determines prefix and local. *)
From Coq Require Import List NArith Bool Lia PeanoNat.
From XmlRs Require Import Base.CPred Spec.XmlChars Model.Store Model.PrintableCheck Model.DomOps Proofs.DomBase Proofs.DomTree
  Proofs.DomOpsInv Proofs.DomPrintable Proofs.DomL1Abs Proofs.DomL1Atomic Proofs.DomL1Refine Proofs.DomL1RefineInsert.
From XmlRs Require Spec.DomCharData Spec.DomL1.
Import ListNotations.
Open Scope N_scope.

(** ** qualified names *)
Lemma str_eqb_eq a : forall b, Store.str_eqb a b = true <-> a = b.
Proof.
  induction a as [|x a IH]; intros [|y b]; cbn [Store.str_eqb]; try (split; [discriminate | discriminate]); [tauto|].
  rewrite andb_true_iff, N.eqb_eq, IH. split; [intros [-> ->]; reflexivity | intros E; inversion E; tauto].
Qed.

Lemma astr_eqb_eq a : forall b, DomL1.str_eqb a b = true <-> a = b.
Proof.
  induction a as [|x a IH]; intros [|y b]; cbn [DomL1.str_eqb]; try (split; [discriminate | discriminate]); [tauto|].
  rewrite andb_true_iff, N.eqb_eq, IH. split; [intros [-> ->]; reflexivity | intros E; inversion E; tauto].
Qed.

Lemma ncname_no_colon s : is_NCName s = true -> ~ In 58 s.
Proof.
  unfold is_NCName. intros H Hin. apply andb_true_iff in H. destruct H as [_ H]. apply negb_true_iff in H.
  assert (existsb (N.eqb colon) s = true) by (apply existsb_exists; exists 58; split; [exact Hin | reflexivity]). congruence.
Qed.

Lemma app_colon_inj (p1 l1 p2 l2 : str) :
  ~ In 58 p1 -> ~ In 58 p2 -> p1 ++ 58 :: l1 = p2 ++ 58 :: l2 -> p1 = p2 /\ l1 = l2.
Proof.
  revert p2. induction p1 as [|a p1 IH]; intros [|b p2] H1 H2 E; cbn in *.
  - inversion E. tauto.
  - inversion E; subst. exfalso. apply H2. left. reflexivity.
  - inversion E; subst. exfalso. apply H1. left. reflexivity.
  - inversion E; subst. destruct (IH p2) as [-> ->]; [tauto | tauto | assumption | tauto].
Qed.

Lemma qname_inj it1 it2 :
  qname_ok (iprefix it1) (ilocal it1) = true -> qname_ok (iprefix it2) (ilocal it2) = true ->
  (qname it1 = qname it2 <-> iprefix it1 = iprefix it2 /\ ilocal it1 = ilocal it2).
Proof.
  unfold qname_ok, qname. intros H1 H2. apply andb_true_iff in H1. apply andb_true_iff in H2.
  destruct H1 as [P1 L1], H2 as [P2 L2]. apply ncname_no_colon in L1. apply ncname_no_colon in L2.
  destruct (iprefix it1) as [p1|], (iprefix it2) as [p2|]; cbn [app].
  - apply ncname_no_colon in P1. apply ncname_no_colon in P2. split.
    + intros E. destruct (app_colon_inj p1 (ilocal it1) p2 (ilocal it2) P1 P2 E) as [-> ->]. tauto.
    + intros [E1 E2]. inversion E1; subst. rewrite E2. reflexivity.
  - split; [|intros [E _]; discriminate]. intros E. exfalso. apply L2. rewrite <- E. apply in_or_app. right. left. reflexivity.
  - split; [|intros [E _]; discriminate]. intros E. exfalso. apply L1. rewrite E. apply in_or_app. right. left. reflexivity.
  - split; [intros E; tauto | intros [_ E]; exact E].
Qed.

Lemma opt_str_eqb_eq a b : opt_str_eqb a b = true <-> a = b.
Proof.
  destruct a as [x|], b as [y|]; cbn [opt_str_eqb]; try (split; [discriminate | discriminate]); [|tauto].
  rewrite str_eqb_eq. split; [intros ->; reflexivity | intros E; inversion E; reflexivity].
Qed.

(** the two selections pick the same attributes *)
Lemma select_same s e eit ait :
  TreeInv s -> Printable s -> get s e = Some eit -> item_ok ait = true -> ikind ait = KAt ->
  filter (qname_is s (iprefix ait) (ilocal ait)) (iattrs eit)
  = filter (DomL1.named (abs_store s) (abs_name ait)) (iattrs eit).
Proof.
  intros T P He Ha Ka. apply filter_ext_in. intros i Hi.
  destruct (lists_live_child s T e i) as [it Hit]; [exists eit; split; [exact He | right; exact Hi]|].
  destruct (ti_attr_kind s T e eit i it He Hi Hit) as [_ Ki].
  unfold qname_is, DomL1.named, DomL1.name_of. rewrite (node_abs s i T), Hit. cbn [option_map abs_item DomL1.n_name].
  unfold abs_name. rewrite Ki, Ka.
  pose proof (P i it Hit) as Oi. unfold item_ok in Oi, Ha. rewrite Ki in Oi. rewrite Ka in Ha.
  pose proof (qname_inj it ait Oi Ha) as Q.
  apply eq_iff_eq_true. rewrite andb_true_iff, opt_str_eqb_eq, str_eqb_eq, astr_eqb_eq. symmetry. exact Q.
Qed.

(** ** the state *)
Lemma bounded_fold_unparent l : forall s, Bounded s -> Bounded (fold_left (fun acc a => upd acc a (with_parent None)) l s).
Proof. induction l as [|a t IH]; intros s B; cbn [fold_left]; [exact B|]. apply IH. apply bounded_upd. exact B. Qed.

Lemma abs_fold_unparent l : forall s, Bounded s ->
  abs_store (fold_left (fun acc a => upd acc a (with_parent None)) l s)
  = fold_left (fun acc x => DomL1.upd_node acc x (DomL1.set_parent None)) l (abs_store s).
Proof.
  induction l as [|a t IH]; intros s B; cbn [fold_left]; [reflexivity|].
  rewrite IH by (apply bounded_upd; exact B). f_equal. apply abs_store_upd; [exact B | intros; reflexivity].
Qed.

Lemma memN_filter (f : N -> bool) l x : In x l -> DomL1.memN x (filter f l) = f x.
Proof.
  intros Hx. unfold DomL1.memN. destruct (f x) eqn:E.
  - apply existsb_exists. exists x. split; [apply filter_In; split; assumption | apply N.eqb_refl].
  - destruct (existsb (N.eqb x) (filter f l)) eqn:Ex; [|reflexivity]. apply existsb_exists in Ex.
    destruct Ex as [y [Hy Hxy]]. apply N.eqb_eq in Hxy. subst y. apply filter_In in Hy. destruct Hy as [_ Hy]. congruence.
Qed.

(** removing the attributes selected by [sel] = dropping the list the specification selects *)
Lemma abs_remove_attrs s e eit sel l :
  TreeInv s -> get s e = Some eit -> l = filter sel (iattrs eit) ->
  abs_store (fst (remove_attrs s e sel)) = DomL1.drop_attrs (abs_store s) e l
  /\ snd (remove_attrs s e sel) = hd_error l.
Proof.
  intros T He Hl. unfold remove_attrs, attrs_of. rewrite He. cbn [fst snd]. subst l. split; [|reflexivity].
  rewrite abs_store_invalidate. pose proof (bounded_of_inv s T) as B.
  rewrite abs_fold_unparent by (apply bounded_upd; exact B). unfold DomL1.drop_attrs. f_equal.
  apply abs_store_upd; [exact B|]. intros it Hit. rewrite He in Hit. inversion Hit; subst it.
  unfold abs_item, DomL1.set_attrs. cbn. f_equal.
  apply filter_ext_in. intros x Hx. f_equal. symmetry. apply memN_filter. exact Hx.
Qed.

Lemma abs_append_attribute s e a : Bounded s ->
  abs_store (append_attribute s e a) = DomL1.add_attr (abs_store s) e a.
Proof.
  intros B. unfold append_attribute, DomL1.add_attr. rewrite abs_store_invalidate.
  rewrite (abs_store_upd _ e _ (fun en => DomL1.set_attrs (DomL1.n_attrs en ++ [a]) en)).
  - f_equal. apply abs_store_upd; [exact B | intros; reflexivity].
  - apply bounded_upd. exact B.
  - intros; reflexivity.
Qed.

(** ** set_attribute_node / set_named_item *)
Lemma set_attribute_node_refines w (r a : nref) :
  WInv w -> WPrintable w ->
  let m := match attr_local w a with
           | Some _ => on_element w r (fun s => dom_set_attribute_node w (fst r) s (snd r) a)
           | None => (w, NotApplicable)
           end in
  conf (abs w) (DomL1.set_attribute_node (abs w) r a) (abs (fst m)) (outcome_class (snd m)).
Proof.
  intros Hw Hp. cbn zeta. unfold DomL1.set_attribute_node. rewrite doc_of_abs. change (@fst N N r) with (@fst N id r).
  unfold attr_local.
  destruct (doc_at w (fst a)) as [sa|] eqn:Da.
  2:{ rewrite (aget_abs_none w a Da). destruct (option_map abs_store (doc_at w (fst r))); [destruct (DomL1.aget (abs w) r)|];
      apply conf_exact; try discriminate; reflexivity. }
  rewrite (aget_abs w a sa Hw Da).
  destruct (get sa (snd a)) as [ait|] eqn:Ga; cbn [option_map].
  2:{ destruct (option_map abs_store (doc_at w (fst r))); [destruct (DomL1.aget (abs w) r)|];
      apply conf_exact; try discriminate; reflexivity. }
  change (DomL1.n_type (abs_item ait)) with (abs_type (ikind ait)).
  destruct (kind_eqb_spec (ikind ait) KAt) as [Ka|Ka].
  2:{ assert (E : match ikind ait with KAt => Some (ilocal ait) | _ => None end = None) by (destruct (ikind ait); try reflexivity; contradiction).
      rewrite E. destruct (option_map abs_store (doc_at w (fst r))); [destruct (DomL1.aget (abs w) r) as [rn|]|];
        try (apply conf_exact; try discriminate; reflexivity).
      destruct (DomL1.n_type rn); try (apply conf_exact; try discriminate; reflexivity).
      destruct (ikind ait); try contradiction; apply conf_exact; try discriminate; reflexivity. }
  rewrite Ka. cbn [abs_type].
  unfold on_element, on_node.
  destruct (doc_at w (fst r)) as [s|] eqn:D; cbn [option_map]; [|apply conf_exact; [discriminate | reflexivity | reflexivity]].
  pose proof (doc_at_P TreeInv w _ s Hw D) as T.
  pose proof (doc_at_P Printable w _ s Hp D) as P.
  rewrite (aget_abs w r s Hw D). unfold kind_of.
  destruct (get s (snd r)) as [rit|] eqn:Hr; cbn [option_map]; [|apply conf_exact; [discriminate | reflexivity | reflexivity]].
  change (DomL1.n_type (abs_item rit)) with (abs_type (ikind rit)).
  destruct (kind_eqb_spec (ikind rit) KEl) as [Kr|Kr].
  2:{ destruct (ikind rit); try contradiction; cbn [abs_type fst snd]; rewrite (set_doc_same w (fst r) s D);
        apply conf_exact; try discriminate; reflexivity. }
  rewrite Kr. cbn [abs_type].
  unfold dom_set_attribute_node. change (@fst N N a) with (@fst N id a).
  destruct (fst a =? fst r) eqn:Ef; cbn [negb].
  2:{ cbn [fst snd]. rewrite (set_doc_same w (fst r) s D). apply conf_exact; [discriminate | reflexivity | reflexivity]. }
  apply N.eqb_eq in Ef. rewrite Ef in Da. rewrite D in Da. inversion Da; subst sa. clear Da.
  cbn [abs_item DomL1.n_parent]. unfold parent_of. change (@snd N N a) with (@snd N id a). rewrite Ga.
  destruct (iparent ait) as [e'|] eqn:Hpar.
  - (* in use *)
    cbn [fst snd]. rewrite (set_doc_same w (fst r) s D). change (@snd N N r) with (@snd N id r).
    destruct (e' =? snd r).
    + unfold conf. cbn [fst snd]. split; [discriminate | left; reflexivity].
    + apply conf_exact; [discriminate | reflexivity | reflexivity].
  - rewrite Ka. cbn [kind_eqb andb]. unfold has_kind. rewrite Hr, Kr. cbn [kind_eqb].
    pose proof (select_same s (snd r) rit ait T P Hr (P (snd a) ait Ga) Ka) as Sel.
    destruct (abs_remove_attrs s (snd r) rit (qname_is s (iprefix ait) (ilocal ait))
                (filter (qname_is s (iprefix ait) (ilocal ait)) (iattrs rit)) T Hr eq_refl) as [A1 A2].
    fold (remove_attribute_q s (snd r) (iprefix ait) (ilocal ait)) in A1, A2.
    pose proof (remove_attribute_q_inv s (snd r) (iprefix ait) (ilocal ait) T) as T1.
    destruct (remove_attribute_q s (snd r) (iprefix ait) (ilocal ait)) as [s1 old]. cbn [fst snd] in *.
    assert (Hnamed : DomL1.attrs_named (abs_store s) (snd r) (DomL1.n_name (abs_item ait))
                     = filter (qname_is s (iprefix ait) (ilocal ait)) (iattrs rit)).
    { unfold DomL1.attrs_named, DomL1.attrs. rewrite (node_abs s (snd r) T), Hr. cbn [option_map abs_item DomL1.n_attrs DomL1.n_name].
      symmetry. exact Sel. }
    change (@snd N N r) with (@snd N id r). change (@fst N N r) with (@fst N id r).
    rewrite Hnamed.
    apply conf_exact; [discriminate | |].
    + cbn [fst]. rewrite abs_set_doc. f_equal. rewrite (abs_append_attribute s1 (snd r) (snd a) (bounded_of_inv _ T1)).
      rewrite A1. reflexivity.
    + cbn [snd]. rewrite A2. destruct (filter (qname_is s (iprefix ait) (ilocal ait)) (iattrs rit)); reflexivity.
Qed.

Theorem step_refines_partial_set_attribute_node : forall w (r a : nref),
  WInv w -> WPrintable w ->
  DomL1.conforms (abs w) (DomL1.ASetAttributeNode r a) (abs (fst (step w (SetAttributeNode r a))))
                 (outcome_class (snd (step w (SetAttributeNode r a)))).
Proof. intros w r a Hw Hp. rewrite conforms_conf. cbn [step DomL1.dom_step]. apply set_attribute_node_refines; assumption. Qed.

Theorem step_refines_partial_set_named_item : forall w (r a : nref),
  WInv w -> WPrintable w ->
  DomL1.conforms (abs w) (DomL1.ASetNamedItem r a) (abs (fst (step w (SetNamedItem r a))))
                 (outcome_class (snd (step w (SetNamedItem r a)))).
Proof. intros w r a Hw Hp. rewrite conforms_conf. cbn [step DomL1.dom_step]. apply set_attribute_node_refines; assumption. Qed.

(** ** remove_attribute: by-name removal *)
Lemma split_colon_prefix (p l : str) : ~ In 58 p -> split_colon (p ++ 58 :: l) = Some (p, l).
Proof.
  induction p as [|a p IH]; intros H; cbn [app split_colon].
  - unfold colon. rewrite N.eqb_refl. reflexivity.
  - destruct (N.eqb_spec a colon) as [E|E]; [exfalso; apply H; left; unfold colon in E; congruence|].
    rewrite IH by (intros Hin; apply H; right; exact Hin). reflexivity.
Qed.

Lemma split_colon_none (l : str) : ~ In 58 l -> split_colon l = None.
Proof.
  induction l as [|a l IH]; intros H; cbn [split_colon]; [reflexivity|].
  destruct (N.eqb_spec a colon) as [E|E]; [exfalso; apply H; left; unfold colon in E; congruence|].
  rewrite IH by (intros Hin; apply H; right; exact Hin). reflexivity.
Qed.

Lemma local_part_qname it : qname_ok (iprefix it) (ilocal it) = true -> DomL1.local_part (qname it) = ilocal it.
Proof.
  unfold qname_ok, qname, DomL1.local_part. intros H. apply andb_true_iff in H. destruct H as [P L].
  apply ncname_no_colon in L. destruct (iprefix it) as [p|].
  - apply ncname_no_colon in P. cbn [app]. rewrite split_colon_prefix by exact P. try reflexivity.
  - rewrite split_colon_none by exact L. try reflexivity.
Qed.

Lemma str_eqb_same a b : Store.str_eqb a b = DomL1.str_eqb a b.
Proof. reflexivity. Qed.

Lemma attrs_local_abs s e eit name :
  TreeInv s -> Printable s -> get s e = Some eit ->
  DomL1.attrs_local (abs_store s) e name = filter (local_is s name) (iattrs eit).
Proof.
  intros T P He. unfold DomL1.attrs_local, DomL1.attrs. rewrite (node_abs s e T), He. cbn [option_map abs_item DomL1.n_attrs].
  apply filter_ext_in. intros i Hi.
  destruct (lists_live_child s T e i) as [it Hit]; [exists eit; split; [exact He | right; exact Hi]|].
  destruct (ti_attr_kind s T e eit i it He Hi Hit) as [_ Ki].
  unfold DomL1.local_named, DomL1.name_of, local_is. rewrite (node_abs s i T), Hit. cbn [option_map abs_item DomL1.n_name].
  unfold abs_name. rewrite Ki. pose proof (P i it Hit) as Oi. unfold item_ok in Oi. rewrite Ki in Oi.
  rewrite (local_part_qname it Oi). symmetry. apply str_eqb_same.
Qed.

Lemma list_eqb_eq a : forall b, DomL1.list_eqb a b = true -> a = b.
Proof.
  induction a as [|x a IH]; intros [|y b] H; cbn [DomL1.list_eqb] in H; try discriminate; [reflexivity|].
  apply andb_true_iff in H. destruct H as [H1 H2]. apply N.eqb_eq in H1. subst y. f_equal. apply IH. exact H2.
Qed.

Theorem step_refines_partial_remove_attribute : forall w (r : nref) name,
  WInv w -> WPrintable w ->
  DomL1.conforms (abs w) (DomL1.ARemoveAttribute r name) (abs (fst (step w (RemoveAttribute r name))))
                 (outcome_class (snd (step w (RemoveAttribute r name)))).
Proof.
  intros w r name Hw Hp. rewrite conforms_conf. cbn [step DomL1.dom_step]. unfold DomL1.remove_attribute, on_element, on_node.
  rewrite doc_of_abs. change (@fst N N r) with (@fst N id r).
  destruct (doc_at w (fst r)) as [s|] eqn:D; cbn [option_map]; [|apply conf_exact; [discriminate | reflexivity | reflexivity]].
  pose proof (doc_at_P TreeInv w _ s Hw D) as T. pose proof (doc_at_P Printable w _ s Hp D) as P.
  rewrite (aget_abs w r s Hw D). unfold kind_of.
  destruct (get s (snd r)) as [rit|] eqn:Hr; cbn [option_map]; [|apply conf_exact; [discriminate | reflexivity | reflexivity]].
  change (DomL1.n_type (abs_item rit)) with (abs_type (ikind rit)).
  destruct (kind_eqb_spec (ikind rit) KEl) as [Kr|Kr].
  2:{ destruct (ikind rit); try contradiction; cbn [abs_type fst snd]; rewrite (set_doc_same w (fst r) s D);
        apply conf_exact; try discriminate; reflexivity. }
  rewrite Kr. cbn [abs_type fst snd].
  change (@snd N N r) with (@snd N id r).
  pose proof (attrs_local_abs s (snd r) rit name T P Hr) as HL.
  destruct (abs_remove_attrs s (snd r) rit (local_is s name) (filter (local_is s name) (iattrs rit)) T Hr eq_refl) as [A1 _].
  fold (remove_attribute s (snd r) name) in A1.
  destruct (DomL1.lookup_clear (abs_store s) (snd r) name) eqn:LC.
  - unfold DomL1.lookup_clear in LC. apply andb_true_iff in LC. destruct LC as [LC _]. apply list_eqb_eq in LC.
    apply conf_exact; [discriminate | | reflexivity]. cbn [fst]. rewrite abs_set_doc. f_equal. rewrite A1, LC, HL. reflexivity.
  - unfold conf. cbn [fst snd]. split; [discriminate|]. right. rewrite abs_set_doc. f_equal. rewrite A1, HL. reflexivity.
Qed.

(** ** remove_named_item.  The finding class C13-NS-HIDDEN: an attribute with that local name is a
    namespace declaration (kept out of the [attributes()] map by the implementation) *)
Definition KnownNsHidden (w : world) (r : nref) (name : str) : bool :=
  match doc_at w (fst r) with
  | Some s => existsb (fun a => local_is s name a && attr_is_ns s a) (attrs_of s (snd r))
  | None => false
  end.

Lemma find_filter_hd {A} (f g : A -> bool) : forall l,
  (forall x, In x l -> f x = true -> g x = true) -> find f (filter g l) = hd_error (filter f l).
Proof.
  induction l as [|a l IH]; intros H; cbn [filter find]; [reflexivity|].
  destruct (f a) eqn:Fa.
  - rewrite (H a (or_introl eq_refl) Fa). cbn [find]. rewrite Fa. reflexivity.
  - destruct (g a); cbn [find]; [rewrite Fa|]; apply IH; intros x Hx; apply H; right; exact Hx.
Qed.

Theorem step_refines_partial_remove_named_item : forall w (r : nref) name,
  WInv w -> WPrintable w -> KnownNsHidden w r name = false ->
  DomL1.conforms (abs w) (DomL1.ARemoveNamedItem r name) (abs (fst (step w (RemoveNamedItem r name))))
                 (outcome_class (snd (step w (RemoveNamedItem r name)))).
Proof.
  intros w r name Hw Hp Hk. rewrite conforms_conf. cbn [step DomL1.dom_step]. unfold DomL1.remove_named_item, on_element, on_node.
  unfold KnownNsHidden in Hk. rewrite doc_of_abs. change (@fst N N r) with (@fst N id r).
  destruct (doc_at w (fst r)) as [s|] eqn:D; cbn [option_map]; [|apply conf_exact; [discriminate | reflexivity | reflexivity]].
  pose proof (doc_at_P TreeInv w _ s Hw D) as T. pose proof (doc_at_P Printable w _ s Hp D) as P.
  rewrite (aget_abs w r s Hw D). unfold kind_of. unfold attrs_of in Hk.
  destruct (get s (snd r)) as [rit|] eqn:Hr; cbn [option_map]; [|apply conf_exact; [discriminate | reflexivity | reflexivity]].
  change (DomL1.n_type (abs_item rit)) with (abs_type (ikind rit)).
  destruct (kind_eqb_spec (ikind rit) KEl) as [Kr|Kr].
  2:{ destruct (ikind rit); try contradiction; cbn [abs_type fst snd]; rewrite (set_doc_same w (fst r) s D);
        apply conf_exact; try discriminate; reflexivity. }
  rewrite Kr. cbn [abs_type].
  change (@snd N N r) with (@snd N id r).
  pose proof (attrs_local_abs s (snd r) rit name T P Hr) as HL.
  destruct (abs_remove_attrs s (snd r) rit (local_is s name) (filter (local_is s name) (iattrs rit)) T Hr eq_refl) as [A1 _].
  fold (remove_attribute s (snd r) name) in A1.
  (* what the lookup through the attributes() map finds *)
  assert (Hfind : get_attribute_node s (snd r) name = hd_error (filter (local_is s name) (iattrs rit))).
  { unfold get_attribute_node, plain_attrs, attrs_of. rewrite Hr. apply find_filter_hd.
    intros x Hx Fx. destruct (attr_is_ns s x) eqn:Ns; [|reflexivity]. exfalso.
    assert (existsb (fun a => local_is s name a && attr_is_ns s a) (iattrs rit) = true)
      by (apply existsb_exists; exists x; split; [exact Hx | rewrite Fx, Ns; reflexivity]). congruence. }
  rewrite Hfind.
  destruct (DomL1.lookup_clear (abs_store s) (snd r) name) eqn:LC.
  - unfold DomL1.lookup_clear in LC. apply andb_true_iff in LC. destruct LC as [LC1 LC2]. apply list_eqb_eq in LC1.
    rewrite LC1, HL in *. destruct (filter (local_is s name) (iattrs rit)) as [|x [|y t]] eqn:F; try discriminate; cbn [hd_error fst snd].
    + rewrite (set_doc_same w (fst r) s D). apply conf_exact; [discriminate | reflexivity | reflexivity].
    + apply conf_exact; [discriminate | | reflexivity]. cbn [fst]. rewrite abs_set_doc. f_equal. exact A1.
  - rewrite HL. destruct (filter (local_is s name) (iattrs rit)) as [|x t] eqn:F; cbn [hd_error fst snd]; unfold conf; cbn [fst snd].
    + split; [discriminate|]. left. rewrite (set_doc_same w (fst r) s D). reflexivity.
    + split; [discriminate|]. right. rewrite abs_set_doc. f_equal. exact A1.
Qed.
