(** * Lists indexed by binary naturals.

    [len], [take], [drop] with [N] counters: structural on the list, so they compute (and
    extract) in time linear in the list even when the counter is [usize::MAX]; going through
    [N.to_nat] would build a unary numeral of that size.  The lemmas connect them to
    [length], [firstn], [skipn] of the standard library, which is where the proofs live. *)
From Coq Require Import List PeanoNat NArith Lia Bool.
Import ListNotations.
Open Scope N_scope.

Section NList.
Context {A : Type}.

Fixpoint len (l : list A) : N :=
  match l with [] => 0 | _ :: t => N.succ (len t) end.

Fixpoint take (n : N) (l : list A) : list A :=
  match l with
  | [] => []
  | x :: t => if n =? 0 then [] else x :: take (N.pred n) t
  end.

Fixpoint drop (n : N) (l : list A) : list A :=
  match l with
  | [] => []
  | x :: t => if n =? 0 then l else drop (N.pred n) t
  end.

Lemma len_length l : len l = N.of_nat (length l).
Proof. induction l as [|x t IH]; cbn [len length]; [reflexivity|]. rewrite IH. lia. Qed.

Lemma take_firstn l : forall n, take n l = firstn (N.to_nat n) l.
Proof.
  induction l as [|x t IH]; intros n; cbn [take].
  - now rewrite firstn_nil.
  - destruct (N.eqb_spec n 0) as [->|Hn]; [reflexivity|].
    replace (N.to_nat n) with (S (N.to_nat (N.pred n))) by lia.
    cbn [firstn]. now rewrite IH.
Qed.

Lemma drop_skipn l : forall n, drop n l = skipn (N.to_nat n) l.
Proof.
  induction l as [|x t IH]; intros n; cbn [drop].
  - now rewrite skipn_nil.
  - destruct (N.eqb_spec n 0) as [->|Hn]; [reflexivity|].
    replace (N.to_nat n) with (S (N.to_nat (N.pred n))) by lia.
    cbn [skipn]. now rewrite IH.
Qed.

Lemma take_drop n l : take n l ++ drop n l = l.
Proof. rewrite take_firstn, drop_skipn. apply firstn_skipn. Qed.

Lemma len_app l1 l2 : len (l1 ++ l2) = len l1 + len l2.
Proof. rewrite !len_length, app_length. lia. Qed.

Lemma len_take n l : len (take n l) = N.min n (len l).
Proof. rewrite take_firstn, !len_length, firstn_length. lia. Qed.

Lemma len_drop n l : len (drop n l) = len l - n.
Proof. rewrite drop_skipn, !len_length, skipn_length. lia. Qed.

Lemma take_all n l : len l <= n -> take n l = l.
Proof. intros H. rewrite take_firstn. apply firstn_all2. rewrite len_length in H. lia. Qed.

Lemma drop_all n l : len l <= n -> drop n l = [].
Proof. intros H. rewrite drop_skipn. apply skipn_all2. rewrite len_length in H. lia. Qed.

Lemma take_0 l : take 0 l = [].
Proof. destruct l; reflexivity. Qed.

Lemma drop_0 l : drop 0 l = l.
Proof. destruct l; reflexivity. Qed.

(** taking more than what is there is taking what is there: the clipping lemma *)
Lemma take_clip n m l : len l <= n -> len l <= m -> take n l = take m l.
Proof. intros Hn Hm. now rewrite !take_all. Qed.

Lemma take_min n l : take (N.min n (len l)) l = take n l.
Proof.
  destruct (N.le_gt_cases n (len l)) as [H|H].
  - now rewrite N.min_l.
  - rewrite N.min_r by lia. rewrite !take_all; [reflexivity|lia|lia].
Qed.

Lemma drop_min n l : drop (N.min n (len l)) l = drop n l.
Proof.
  destruct (N.le_gt_cases n (len l)) as [H|H].
  - now rewrite N.min_l.
  - rewrite N.min_r by lia. rewrite !drop_all; [reflexivity|lia|lia].
Qed.

Lemma drop_drop n m l : drop n (drop m l) = drop (m + n) l.
Proof.
  rewrite !drop_skipn. replace (N.to_nat (m + n)) with (N.to_nat m + N.to_nat n)%nat by lia.
  generalize (N.to_nat m) as a. intros a. revert l.
  induction a as [|a IH]; intros l; [reflexivity|].
  destruct l as [|x t]; cbn [skipn Nat.add]; [now rewrite skipn_nil|apply IH].
Qed.

Lemma take_app_exact l1 l2 : take (len l1) (l1 ++ l2) = l1.
Proof.
  rewrite take_firstn, len_length, Nnat.Nat2N.id.
  rewrite firstn_app, Nat.sub_diag, firstn_all. cbn [firstn]. apply app_nil_r.
Qed.

Lemma drop_app_exact l1 l2 : drop (len l1) (l1 ++ l2) = l2.
Proof.
  rewrite drop_skipn, len_length, Nnat.Nat2N.id.
  rewrite skipn_app, Nat.sub_diag, skipn_all. reflexivity.
Qed.

End NList.
