(** * The fuel of the ancestor walk suffices under the tree invariant

    [HasParent::ancestor] is a [while let] loop over parent ids; the model gives it fuel [next s].
    A parent chain visits pairwise distinct live ids (acyclicity), all below [next s], so it is
    shorter than [next s]: when the loop answers "not an ancestor" it is right. *)
From Coq Require Import List NArith Bool Lia FinFun.
From XmlRs Require Import Base.CPred Model.Store Proofs.DomBase Proofs.DomTree.
Import ListNotations.
Open Scope N_scope.

(** [a] is the [n]-th ancestor of [i], [n >= 1] *)
Inductive ancn (s : store) : nat -> id -> id -> Prop :=
| ancn1 c p : par s c p -> ancn s 1 c p
| ancnS n c p a : par s c p -> ancn s n p a -> ancn s (S n) c a.

Lemma anc_ancn s c a : anc s c a -> exists n, ancn s n c a.
Proof.
  induction 1 as [c p H | c p a H _ [n IH]].
  - exists 1%nat. constructor. exact H.
  - exists (S n). econstructor; eassumption.
Qed.

Lemma ancn_anc s n c a : ancn s n c a -> anc s c a.
Proof. induction 1; [apply anc1; assumption | eapply ancS; eassumption]. Qed.

(** the ids strictly above [c] up to [a], as a list of length [n] *)
Lemma ancn_chain s : TreeInv s -> forall n c a, ancn s n c a ->
  exists l, length l = n /\ NoDup l /\ (forall x, In x l -> anc s c x) /\ (forall x, In x l -> x < next s).
Proof.
  intros T n c a H. induction H as [c p Hp | n c p a Hp Hn [l [Hlen [Hnd [Hanc Hlt]]]]].
  - exists [p]. repeat split.
    + constructor; [intros []| constructor].
    + intros x [<-|[]]. apply anc1. exact Hp.
    + intros x [<-|[]]. destruct (ti_par_lists s T _ _ Hp) as [pit [Hg _]]. eapply (ti_bound s T); eassumption.
  - exists (p :: l). repeat split.
    + cbn. rewrite Hlen. reflexivity.
    + constructor; [|exact Hnd]. intros Hin. apply (ti_acyclic s T p). apply Hanc. exact Hin.
    + intros x [<-|Hin]; [apply anc1; exact Hp | eapply ancS; [exact Hp | apply Hanc; exact Hin]].
    + intros x [<-|Hin]; [|apply Hlt; exact Hin].
      destruct (ti_par_lists s T _ _ Hp) as [pit [Hg _]]. eapply (ti_bound s T); eassumption.
Qed.

Lemma below_list (n : nat) : forall l : list N, NoDup l -> (forall x, In x l -> (N.to_nat x < n)%nat) -> (length l <= n)%nat.
Proof.
  intros l Hnd Hlt.
  assert (Hincl : incl (map N.to_nat l) (seq 0 n)).
  { intros y Hy. apply in_map_iff in Hy. destruct Hy as [x [<- Hx]]. apply in_seq. specialize (Hlt x Hx). lia. }
  assert (Hnd' : NoDup (map N.to_nat l)).
  { apply Injective_map_NoDup; [|exact Hnd]. intros x y E. apply N2Nat.inj. exact E. }
  pose proof (NoDup_incl_length Hnd' Hincl) as Hle. rewrite map_length, seq_length in Hle. exact Hle.
Qed.

Lemma ancn_bound s : TreeInv s -> forall n c a, ancn s n c a -> (n <= N.to_nat (next s))%nat.
Proof.
  intros T n c a H. destruct (ancn_chain s T n c a H) as [l [Hlen [Hnd [_ Hlt]]]].
  rewrite <- Hlen. apply below_list; [exact Hnd|]. intros x Hx. specialize (Hlt x Hx). lia.
Qed.

Lemma anc_fuel_complete s : TreeInv s -> forall n c a, ancn s n c a ->
  forall fuel, (n <= fuel)%nat -> anc_fuel fuel s (parent_of s c) a = true.
Proof.
  intros T n c a H. induction H as [c p Hp | n c p a Hp Hn IH]; intros fuel Hle.
  - destruct fuel as [|f]; [lia|]. cbn [anc_fuel].
    destruct Hp as [cit [Hc Hpar]]. unfold parent_of. rewrite Hc, Hpar.
    destruct (ti_par_lists s T c p) as [pit [Hg _]]; [exists cit; split; assumption|].
    rewrite Hg, N.eqb_refl. reflexivity.
  - destruct fuel as [|f]; [lia|]. cbn [anc_fuel].
    pose proof Hp as Hp'. destruct Hp as [cit [Hc Hpar]]. unfold parent_of. rewrite Hc, Hpar.
    destruct (ti_par_lists s T c p Hp') as [pit [Hg _]]. rewrite Hg.
    destruct (N.eqb_spec p a); [reflexivity|].
    specialize (IH f ltac:(lia)). unfold parent_of in IH. rewrite Hg in IH. exact IH.
Qed.

Theorem ancestor_complete s recv x : TreeInv s -> anc s recv x -> ancestor s recv x = true.
Proof.
  intros T H. destruct (anc_ancn s _ _ H) as [n Hn]. unfold ancestor.
  eapply anc_fuel_complete; [exact T | exact Hn | eapply ancn_bound; eassumption].
Qed.

Corollary ancestor_false s recv x : TreeInv s -> ancestor s recv x = false -> ~ anc s recv x.
Proof. intros T H Ha. rewrite (ancestor_complete s recv x T Ha) in H. discriminate. Qed.

(** the walk is also sound: it only answers "ancestor" for an ancestor *)
Lemma anc_fuel_sound s fuel : forall c a, anc_fuel fuel s (parent_of s c) a = true -> anc s c a.
Proof.
  induction fuel as [|f IH]; intros c a H; [discriminate|]. cbn [anc_fuel] in H.
  unfold parent_of in H. destruct (get s c) as [cit|] eqn:Hc; [|discriminate].
  destruct (iparent cit) as [p|] eqn:Hp; [|discriminate].
  destruct (get s p) as [pit|] eqn:Hg; [|discriminate].
  destruct (N.eqb_spec p a) as [->|Hne].
  - apply anc1. exists cit. split; assumption.
  - eapply ancS; [exists cit; split; eassumption|]. apply IH. unfold parent_of. rewrite Hg. exact H.
Qed.
