(** * C02: documents WITH a document type declaration -- what acceptance by XmlDocument::new adds.

    Part 1: the exclusion of parameter entities ([ok_doc]) follows from the acceptance of the
    document by [build_document] (Model/Info.v refuses parameter-entity declarations and references),
    so that the only hypothesis left for rung 2 (syntax) is the exclusion of finding D04
    ([d04_doc]): [accepted_syntax]. *)
From Coq Require Import List NArith Arith Lia Bool.
From XmlRs Require Import Base.CPred Spec.XmlChars Model.Peg Gen.XmlcharGen Gen.GrammarXmlGen Model.ParseActions Model.Info Model.Display
     Proofs.XmlcharProofs Proofs.PegTermination Proofs.PegLemmas Proofs.PegInv Proofs.Expansion Proofs.PipelineTotal
     Proofs.DisplayLex Proofs.ActionLemmas Proofs.DisplayElem Proofs.DisplayDoc Proofs.DisplayDtd
     Proofs.ParseInv Proofs.ParseInvElem Proofs.ParseInvBuild Proofs.ParseInvDtd Proofs.ParseInvDoc
     Proofs.XmlWFSyntaxLex Proofs.XmlWFSyntaxElem Proofs.XmlWFSyntaxDoc Proofs.XmlWFSyntaxCheck
     Proofs.XmlWFSyntaxDtd Proofs.XmlWFSyntaxDtdElem Proofs.XmlWFSyntaxDtdDoc.
From XmlRs Require Spec.XmlWF.
Import ListNotations.
Local Open Scope N_scope.

(** ** finding D04 alone (parameter entities not looked at) *)
Definition d04_entdef' (d : entity_def) : bool :=
  match d with
  | EdValue l => d04_ev l
  | EdExternal _ (Some n) => is_Name n
  | EdExternal _ None => true
  end.
Definition d04_markup (m : markup) : bool :=
  match m with
  | MkElement _ | MkComment _ => true
  | MkAttributes d => d04_attlist d
  | MkEntity (DeGeneral n d) => is_Name n && d04_entdef' d
  | MkEntity (DeParameter _ _) => true
  | MkNotation d => is_Name (dn_name d)
  | MkPI p => d04_pi p
  end.
Definition d04_subset (l : list int_subset) : bool := forallb (fun x => match x with IsMarkup m => d04_markup m | _ => true end) l.
Definition d04_doc (pd : pdoc) : bool :=
  forallb d04_misc (pr_heads (d_prolog pd))
  && match pr_declaration_doc (d_prolog pd) with Some dd => d04_subset (dd_internal_subset dd) | None => true end
  && forallb d04_misc (pr_tails (d_prolog pd))
  && d04_elem (d_element pd) && forallb d04_misc (d_miscs pd).

Lemma check_values_nope l : check_entity_values l = IOk tt -> nope_ev l = true.
Proof.
  induction l as [|v l IH]; [reflexivity|]. cbn [check_entity_values nope_ev forallb].
  destruct v as [s|s|[num r|n]]; try discriminate; cbn [nope_evpiece andb]; try exact IH.
  intros H. apply ibind_ok in H. destruct H as [c [_ H]]. apply IH. exact H.
Qed.

Lemma build_subset_ok ext (l : list int_subset) : forall acc r, build_subset false ext acc l = IOk r -> d04_subset l = true -> ok_subset l = true.
Proof.
  induction l as [|x l IH]; intros acc r H Hd; [reflexivity|]. cbn [d04_subset forallb] in Hd. apply andb_prop in Hd. destruct Hd as [Hdx Hdl].
  cbn [ok_subset forallb]. fold (ok_subset l). cbn [build_subset] in H.
  destruct x as [[d|d|[n d|n d]|d|p|s]|n|s]; cbn [ok_subset_item ok_markup d04_markup] in *; try discriminate H.
  - rewrite (IH _ _ H Hdl). reflexivity.
  - apply ibind_ok in H. destruct H as [a [_ H]]. apply ibind_ok in H. destruct H as [r' [H _]]. rewrite Hdx, (IH _ _ H Hdl). reflexivity.
  - apply ibind_ok in H. destruct H as [[] [Hc H]]. apply ibind_ok in H. destruct H as [r' [H _]]. rewrite (IH _ _ H Hdl), andb_true_r.
    apply andb_prop in Hdx. destruct Hdx as [Hn Hdd]. rewrite Hn. cbn [andb].
    destruct d as [lv|xid [nd|]]; cbn [d04_entdef d04_entdef' check_entity_decl] in *; try exact Hdd.
    rewrite (check_values_nope lv Hc), Hdd. reflexivity.
  - apply ibind_ok in H. destruct H as [r' [H _]]. rewrite Hdx, (IH _ _ H Hdl). reflexivity.
  - apply ibind_ok in H. destruct H as [r' [H _]]. rewrite Hdx, (IH _ _ H Hdl). reflexivity.
  - rewrite (IH _ _ H Hdl). reflexivity.
  - rewrite (IH _ _ H Hdl). reflexivity.
Qed.

Lemma build_document_ok (pd : pdoc) (d : document) : build_document pd = IOk d -> d04_doc pd = true -> ok_doc pd = true.
Proof.
  intros Hb Hd. unfold d04_doc in Hd. unfold ok_doc.
  destruct (pr_declaration_doc (d_prolog pd)) as [dd|] eqn:Hdd; [|exact Hd].
  unfold build_document, build_document_gen in Hb. rewrite Hdd in Hb. apply ibind_ok in Hb. destruct Hb as [dt [Hdt _]].
  apply ibind_ok in Hdt. destruct Hdt as [x [Hx _]]. unfold build_doctype in Hx. apply ibind_ok in Hx. destruct Hx as [ch [Hch _]].
  apply andb_prop in Hd. destruct Hd as [Hd Hd5]. apply andb_prop in Hd. destruct Hd as [Hd Hd4].
  apply andb_prop in Hd. destruct Hd as [Hd Hd3]. apply andb_prop in Hd. destruct Hd as [Hd1 Hd2].
  rewrite Hd1, (build_subset_ok _ _ _ _ Hch Hd2), Hd3, Hd4, Hd5. reflexivity.
Qed.

(** finding D04 on the document the parser builds from [s] *)
Definition KnownD04_doc (s : str) : bool :=
  match ParseActions.parse_document s with
  | POk (pd, _) => negb (d04_doc pd)
  | _ => false
  end.

(** rung 2 for every accepted input outside finding D04: the specification's grammar accepts it *)
Theorem accepted_syntax (s : str) (d : document) :
  from_raw s = OOk ([], d) -> KnownD04_doc s = false ->
  exists pd, ParseActions.parse_document s = POk (pd, []) /\ build_document pd = IOk d /\ W.parse_document s = Some (x_doc pd).
Proof.
  intros H Hk. destruct (from_raw_inv _ _ _ H) as [pd [Hp Hb]]. exists pd. split; [exact Hp|]. split; [exact Hb|].
  unfold KnownD04_doc in Hk. rewrite Hp in Hk. apply negb_false_iff in Hk.
  apply parse_document_syntax; [exact Hp|]. eapply build_document_ok; eassumption.
Qed.

(** non-vacuity: a document with ELEMENT (Mixed and children content models), ATTLIST (CDATA with a default
    holding a reference, an enumeration, a NOTATION type with a fixed default), internal and unparsed ENTITY,
    NOTATION, a PI and a comment in the internal subset:
    <!DOCTYPE a [<!ELEMENT a (#PCDATA|b)*><!ELEMENT b ((c,d?)|e)+><!ATTLIST a x CDATA "d&lt;" y (u|v) #IMPLIED z NOTATION (n) #FIXED 'q'>
    <!ENTITY e "v&#65;"><!ENTITY u SYSTEM "s" NDATA n><!NOTATION n PUBLIC "p"><?pi?><!--c-->]><a y="u">&e;</a> *)
Definition ex_doctype : str :=
  [60;33;68;79;67;84;89;80;69;32;97;32;91;60;33;69;76;69;77;69;78;84;32;97;32;40;35;80;67;68;65;84;65;124;98;41;42;62;60;33;69;76;69;77;69;78;84;32;98;32;40;40;99;44;100;63;41;124;101;41;43;62;60;33;65;84;84;76;73;83;84;32;97;32;120;32;67;68;65;84;65;32;34;100;38;108;116;59;34;32;121;32;40;117;124;118;41;32;35;73;77;80;76;73;69;68;32;122;32;78;79;84;65;84;73;79;78;32;40;110;41;32;35;70;73;88;69;68;32;39;113;39;62;32;60;33;69;78;84;73;84;89;32;101;32;34;118;38;35;54;53;59;34;62;60;33;69;78;84;73;84;89;32;117;32;83;89;83;84;69;77;32;34;115;34;32;78;68;65;84;65;32;110;62;60;33;78;79;84;65;84;73;79;78;32;110;32;80;85;66;76;73;67;32;34;112;34;62;60;63;112;105;63;62;60;33;45;45;99;45;45;62;93;62;60;97;32;121;61;34;117;34;62;38;101;59;60;47;97;62].

Example accepted_syntax_nonvacuous :
  (exists d, from_raw ex_doctype = OOk ([], d)) /\ KnownD04_doc ex_doctype = false /\ nodoctype ex_doctype = false.
Proof. split; [eexists; vm_compute; reflexivity|]. split; vm_compute; reflexivity. Qed.

(** * Part 2: rung 3 (constraints) for documents with a DOCTYPE whose declared internal general
    entities have PLAIN replacement text: no `&` and no `<`, written directly or as a character
    reference.  (A referenced entity whose replacement text contains `&` or `<` is the shape of
    finding WF13: the implementation does not re-read replacement text.  Nested entity references
    and markup inside entity values are therefore outside this theorem; they stay covered by the
    failing-input search only.) *)

(** ** the entity table of the model and the one of the specification *)
Definition x_replpiece (v : ent_value) : str :=
  match v with
  | XvCharacter num r => [W.number (radix_n r) num]
  | XvEntity n => 38 :: n ++ [59]
  | XvParameter n => 37 :: n ++ [59]
  | XvText s => s
  end.
Definition x_repl (vs : list ent_value) : str := flat_map x_replpiece vs.
Definition x_entity (e : Info.entity) : W.entity :=
  match en_values e with
  | Some vs => W.EInternal (x_repl vs)
  | None => match en_notation e with Some _ => W.EUnparsed | None => W.EExternal end
  end.
Definition tbl (ents : list Info.entity) : list (str * W.entity) := map (fun e => (en_name e, x_entity e)) ents.

Lemma repl_text_ev (l : list entity_value) : nope_ev l = true -> W.repl_text (x_ev l) = x_repl (map build_ent_value l).
Proof.
  induction l as [|v l IH]; [reflexivity|]. cbn [nope_ev forallb]. intros H. apply andb_prop in H. destruct H as [Hv Hl].
  change (x_ev (v :: l)) with (x_evpiece v ++ x_ev l). unfold W.repl_text. rewrite flat_map_app. fold (W.repl_text (x_ev l)). rewrite (IH Hl).
  cbn [map x_repl flat_map]. f_equal.
  destruct v as [s|s|[num r|n]]; cbn [x_evpiece build_ent_value x_replpiece x_ref W.piece_of_ref] in *; try discriminate.
  - clear Hv. induction s as [|c s IHs]; [reflexivity|]. cbn [map flat_map app]. f_equal. exact IHs.
  - destruct r; reflexivity.
  - cbn [flat_map]. rewrite app_nil_r. reflexivity.
Qed.

Lemma entity_of_def_build n (d : entity_def) : (match d with EdValue l => nope_ev l = true | _ => True end) ->
  W.entity_of_def (x_entdef d) = x_entity (build_entity n d).
Proof.
  destruct d as [l|x [nd|]]; cbn [x_entdef W.entity_of_def build_entity x_entity en_values en_notation]; intros H; try reflexivity.
  rewrite (repl_text_ev l H). reflexivity.
Qed.

(** the general entities of an internal subset, as built by XmlDocument::new *)
Definition gents (l : list int_subset) : list Info.entity :=
  flat_map (fun x => match x with IsMarkup (MkEntity (DeGeneral n d)) => [build_entity n d] | _ => [] end) l.

Lemma entities_of_subset (l : list int_subset) : ok_subset l = true -> W.entities_of (x_subset l) = tbl (gents l).
Proof.
  induction l as [|x l IH]; [reflexivity|]. cbn [ok_subset forallb]. intros H. apply andb_prop in H. destruct H as [Hx Hl].
  change (x_subset (x :: l)) with (x_subset_item x ++ x_subset l). unfold W.entities_of. rewrite flat_map_app. fold (W.entities_of (x_subset l)).
  rewrite (IH Hl). cbn [gents flat_map]. fold (gents l). unfold tbl. rewrite map_app. f_equal.
  destruct x as [[d|d|[n d|n d]|d|p|s]|n|s]; try reflexivity; cbn [ok_subset_item ok_markup] in Hx; try discriminate.
  - cbn [x_subset_item x_markup flat_map app map]. apply andb_prop in Hx. destruct Hx as [_ Hd].
    rewrite (entity_of_def_build n d) by (destruct d as [lv|? ?]; [|exact I]; cbn [d04_entdef] in Hd; apply andb_prop in Hd; tauto).
    destruct d as [lv|? ?]; reflexivity.
  - cbn [x_subset_item x_markup]. unfold x_notation. destruct (dn_id d); reflexivity.
Qed.

Lemma build_subset_entities ext (l : list int_subset) : forall acc r, build_subset false ext acc l = IOk r ->
  flat_map (fun c => match c with DtEntity e => [e] | _ => [] end) r = gents l.
Proof.
  induction l as [|x l IH]; intros acc r H; cbn [build_subset] in H.
  - injection H as <-. reflexivity.
  - destruct x as [[d|d|[n d|n d]|d|p|s]|n|s]; try discriminate H; cbn [gents flat_map app]; fold (gents l).
    + eapply IH; exact H.
    + apply ibind_ok in H. destruct H as [a [_ H]]. apply ibind_ok in H. destruct H as [r' [H E]]. injection E as <-. cbn [flat_map app]. eapply IH; exact H.
    + apply ibind_ok in H. destruct H as [u [_ H]]. apply ibind_ok in H. destruct H as [r' [H E]]. injection E as <-. cbn [flat_map app]. f_equal. eapply IH; exact H.
    + apply ibind_ok in H. destruct H as [r' [H E]]. injection E as <-. cbn [flat_map app]. eapply IH; exact H.
    + apply ibind_ok in H. destruct H as [r' [H E]]. injection E as <-. cbn [flat_map app]. eapply IH; exact H.
    + eapply IH; exact H.
    + eapply IH; exact H.
Qed.

Lemma Wstr_eqb_sym_peg (a b : str) : W.str_eqb a b = str_eqb b a.
Proof.
  destruct (str_eqb b a) eqn:E.
  - apply str_eqb_eq in E. subst. apply Wstr_eqb_refl.
  - apply Wstr_eqb_neq. intros ->. rewrite str_eqb_refl in E. discriminate.
Qed.

Lemma assoc_tbl nm (ents : list Info.entity) :
  W.assoc nm (tbl ents) = option_map x_entity (find (fun e => str_eqb (en_name e) nm) ents).
Proof.
  induction ents as [|e ents IH]; [reflexivity|]. cbn [tbl map W.assoc find]. rewrite Wstr_eqb_sym_peg.
  destruct (str_eqb (en_name e) nm); [reflexivity|exact IH].
Qed.

Lemma assoc_app {A} nm (a b : list (str * A)) : W.assoc nm (a ++ b) = match W.assoc nm a with Some v => Some v | None => W.assoc nm b end.
Proof. induction a as [|[k v] a IH]; [reflexivity|]. cbn [app W.assoc]. destruct (W.str_eqb nm k); [reflexivity|exact IH]. Qed.

(** what a lookup in the specification's environment answers, in terms of the model's table *)
Definition lookup_spec (ents : list Info.entity) (nm : str) : option W.entity :=
  match find (fun e => str_eqb (en_name e) nm) ents with
  | Some e => Some (x_entity e)
  | None => W.assoc nm (W.with_predefined [])
  end.

Lemma assoc_with_predefined nm ents : W.assoc nm (W.with_predefined (tbl ents)) = lookup_spec ents nm.
Proof.
  unfold W.with_predefined, lookup_spec. rewrite assoc_app, assoc_tbl.
  destruct (find (fun e => str_eqb (en_name e) nm) ents); reflexivity.
Qed.

Definition env_rel (en : W.env) (ents : list Info.entity) (ext : bool) : Prop :=
  (forall nm, W.assoc nm (W.e_ents en) = lookup_spec ents nm) /\ W.e_must_declare en = negb ext.

(** ** plain entities: the replacement text is a string of Chars without `&`, `<` and `]]>` *)
Definition plain_char (c : char) : bool := W.isChar c && negb (c =? 38) && negb (c =? 60).
Definition plain_text (t : str) : bool := forallb plain_char t && match find_sub [93;93;62] t with None => true | Some _ => false end.
Definition plain_ent (e : Info.entity) : bool :=
  match en_values e with Some vs => plain_text (x_repl vs) | None => true end.

Lemma plain_char_spec c : plain_char c = true -> W.isChar c = true /\ (c =? 38) = false /\ (c =? 60) = false.
Proof.
  unfold plain_char. intros Hc. apply andb_prop in Hc. destruct Hc as [Hc H60]. apply andb_prop in Hc. destruct Hc as [Hch H38].
  apply negb_true_iff in H60, H38. auto.
Qed.

(** plain text read back: as attribute-value pieces, and as content *)
Lemma pieces_plain (t : str) : forallb plain_char t = true -> forall fuel, (length t < fuel)%nat ->
  W.p_pieces fuel None W.c_lt t = Some (map W.AvLit t, []).
Proof.
  induction t as [|c t IH]; intros H fuel Hf; (destruct fuel as [|f]; [cbn in Hf; lia|]); [reflexivity|].
  cbn [forallb] in H. apply andb_prop in H. destruct H as [Hc Ht]. destruct (plain_char_spec c Hc) as [Hch [H38 H60]].
  cbn [W.p_pieces]. unfold W.c_lt, W.c_amp in *. rewrite H60, H38, Hch. cbn [length] in Hf. rewrite (IH Ht f) by lia. reflexivity.
Qed.

Lemma content_plain (t : str) : plain_text t = true -> W.p_content (Datatypes.S (length t)) t = Some (map W.XChar t, []).
Proof.
  unfold plain_text. intros H. apply andb_prop in H. destruct H as [Hc Hf]. destruct (find_sub [93;93;62] t) eqn:Ef; [discriminate|].
  pose proof (content_text t [] ) as E. rewrite app_nil_r in E. rewrite E; [| |exact Ef|exact I|lia].
  - replace (Datatypes.S (length t) - length t)%nat with 1%nat by lia. cbn [W.p_content W.bind fst snd]. rewrite app_nil_r. reflexivity.
  - revert Hc. apply forallb_impl. intros c Hc. destruct (plain_char_spec c Hc) as [Hch [H38 H60]].
    rewrite is_char_except_equiv. unfold W.isChar in Hch. rewrite Hch. cbn [existsb]. rewrite H60, H38. reflexivity.
Qed.

(** ** references to internal entities whose replacement text reads back as leaves *)
Definition leaf (x : W.xcontent) : bool :=
  match x with W.XChar _ => true | W.XCharRef n => W.isChar n | _ => false end.
Definition avleaf (p : W.avpiece) : bool :=
  match p with W.AvLit _ => true | W.AvChar n => W.isChar n | W.AvEnt _ => false end.

Lemma leaf_expand f en vis x : leaf x = true -> W.expand f en vis x = inr x.
Proof. destruct f; destruct x; try discriminate; reflexivity. Qed.

Lemma leaf_tree_ok f en x : leaf x = true -> W.tree_ok f en x = None.
Proof. destruct x; try discriminate; cbn [leaf W.tree_ok]; [reflexivity|]. intros ->. reflexivity. Qed.

Lemma leafs_tree_ok f en items : forallb leaf items = true -> W.allc (W.tree_ok f en) items = None.
Proof.
  induction items as [|x items IH]; [reflexivity|]. cbn [forallb]. intros Hl. apply andb_prop in Hl. destruct Hl as [Hx Hl].
  apply allc_cons; [apply leaf_tree_ok; exact Hx|apply IH; exact Hl].
Qed.

Lemma expand_ref_internal f en nm text items : W.assoc nm (W.e_ents en) = Some (W.EInternal text) ->
  W.p_content (Datatypes.S (length text)) text = Some (items, []) -> forallb leaf items = true ->
  W.expand (Datatypes.S f) en [] (W.XEntRef nm) = inr (W.XExp nm items) /\ forall f', W.tree_ok f' en (W.XExp nm items) = None.
Proof.
  intros Ha Hp Hl. split.
  - cbn [W.expand W.mem existsb]. rewrite Ha, Hp. rewrite mapM_id; [reflexivity|].
    intros x Hx. apply leaf_expand. rewrite forallb_forall in Hl. apply Hl. exact Hx.
  - intros f'. cbn [W.tree_ok]. apply leafs_tree_ok. exact Hl.
Qed.

Lemma avleafs_ok f en vis ps : forallb avleaf ps = true -> W.av_ok (Datatypes.S f) en vis ps = None.
Proof.
  cbn [W.av_ok]. induction ps as [|p ps IH]; [reflexivity|]. cbn [forallb]. intros H. apply andb_prop in H. destruct H as [Hp Hps].
  apply allc_cons; [|apply IH; exact Hps]. destruct p; try discriminate; [reflexivity|]. cbn [avleaf] in Hp. rewrite Hp. reflexivity.
Qed.

Lemma av_ref_internal f en nm text ps rest : W.assoc nm (W.e_ents en) = Some (W.EInternal text) ->
  W.p_pieces (Datatypes.S (length text)) None W.c_lt text = Some (ps, rest) -> forallb avleaf ps = true ->
  W.av_ok (Datatypes.S (Datatypes.S f)) en [] [W.AvEnt nm] = None.
Proof.
  intros Ha Hp Hl. cbn [W.av_ok W.allc fold_right W.mem existsb]. rewrite Ha, Hp.
  change (W.andc (W.av_ok (Datatypes.S f) en [nm] ps) W.ok = None). rewrite (avleafs_ok f en [nm] ps Hl). reflexivity.
Qed.

(** the five predefined entities, in any environment that does not redeclare them *)
Lemma predef_lookup name : is_predef name -> exists text items ps,
  W.assoc name (W.with_predefined []) = Some (W.EInternal text) /\
  W.p_content (Datatypes.S (length text)) text = Some (items, []) /\ forallb leaf items = true /\
  W.p_pieces (Datatypes.S (length text)) None W.c_lt text = Some (ps, []) /\ forallb avleaf ps = true.
Proof.
  intros [->|[->|[->|[->| ->]]]]; do 3 eexists; (split; [vm_compute; reflexivity|]); (split; [vm_compute; reflexivity|]);
    (split; [vm_compute; reflexivity|]); (split; [vm_compute; reflexivity|]); vm_compute; reflexivity.
Qed.

(** ** a reference the model resolved, seen by the specification *)
Section Refs.
Variable ents : list Info.entity.
Variable ext : bool.
Variable en : W.env.
Hypothesis Hrel : env_rel en ents ext.
Hypothesis Hplain : forallb plain_ent ents = true.

Lemma lookup_found nm e : find (fun e0 => str_eqb (en_name e0) nm) ents = Some e ->
  W.assoc nm (W.e_ents en) = Some (x_entity e) /\ plain_ent e = true.
Proof.
  intros F. destruct Hrel as [Hl _]. rewrite Hl. unfold lookup_spec. rewrite F. split; [reflexivity|].
  apply find_some in F. destruct F as [Hin _]. rewrite forallb_forall in Hplain. apply Hplain. exact Hin.
Qed.

Lemma lookup_predef nm : find (fun e0 => str_eqb (en_name e0) nm) ents = None ->
  W.assoc nm (W.e_ents en) = W.assoc nm (W.with_predefined []).
Proof. intros F. destruct Hrel as [Hl _]. rewrite Hl. unfold lookup_spec. rewrite F. reflexivity. Qed.

(** the checks of [check_entity_ref] that do not depend on the replacement text *)
Lemma resolve_shape attr nm e : resolve_ref ents ext attr nm = IOk e ->
  (find (fun e0 => str_eqb (en_name e0) nm) ents = None /\ is_predef nm) \/
  (find (fun e0 => str_eqb (en_name e0) nm) ents = Some e /\ en_notation e = None /\ (attr = true -> en_system e = None)).
Proof.
  unfold resolve_ref. intros H. apply ibind_ok in H. destruct H as [[e0 d] [H1 H2]]. apply ibind_ok in H2. destruct H2 as [sn [H2 H3]].
  cbn [fst snd] in *. injection H3 as <-. unfold lookup_entity2 in H1.
  destruct (find (fun e1 => str_eqb (en_name e1) nm) ents) as [e1|] eqn:F.
  - injection H1 as <- <-. right. split; [reflexivity|]. unfold check_fuel in H2. rewrite Nat.add_comm in H2. cbn [Nat.add check_entity_ref negb] in H2.
    destruct (en_notation e1) as [nt|]; [discriminate H2|]. split; [reflexivity|]. intros ->. cbn [is_some andb] in H2.
    destruct (en_system e1); [discriminate H2|reflexivity].
  - left. split; [reflexivity|]. destruct (Info.predefined nm) as [e1|] eqn:P; [|discriminate]. eapply predefined_cases. exact P.
Qed.

Lemma ref_attr_ok f nm e : resolve_ref ents ext true nm = IOk e -> (forall e0, In e0 ents -> en_values e0 = None -> en_system e0 <> None) ->
  W.av_ok (Datatypes.S (Datatypes.S f)) en [] [W.AvEnt nm] = None.
Proof.
  intros H Hsys. destruct (resolve_shape _ _ _ H) as [[F Hp]|[F [Hn Hs]]].
  - destruct (predef_lookup nm Hp) as [text [items [ps [E1 [_ [_ [E4 E5]]]]]]]. eapply av_ref_internal; [rewrite (lookup_predef nm F); exact E1|exact E4|exact E5].
  - destruct (lookup_found nm e F) as [Ha Hpl]. unfold x_entity in Ha. unfold plain_ent in Hpl.
    destruct (en_values e) as [vs|] eqn:Ev.
    + unfold plain_text in Hpl. apply andb_prop in Hpl. destruct Hpl as [Hpc _].
      eapply av_ref_internal; [exact Ha|apply pieces_plain; [exact Hpc|lia]|]. clear. induction (x_repl vs) as [|c t IH]; [reflexivity|exact IH].
    + exfalso. apply find_some in F. destruct F as [Hin _]. apply (Hsys e Hin Ev). apply Hs. reflexivity.
Qed.

Lemma ref_content_ok f nm e : resolve_ref ents ext false nm = IOk e ->
  exists x', W.expand (Datatypes.S f) en [] (W.XEntRef nm) = inr x' /\ forall f', W.tree_ok f' en x' = None.
Proof.
  intros H. destruct (resolve_shape _ _ _ H) as [[F Hp]|[F [Hn Hs]]].
  - destruct (predef_lookup nm Hp) as [text [items [ps [E1 [E2 [E3 _]]]]]].
    destruct (expand_ref_internal f en nm text items) as [Ex Ot]; [rewrite (lookup_predef nm F); exact E1|exact E2|exact E3|]. eauto.
  - destruct (lookup_found nm e F) as [Ha Hpl]. unfold x_entity in Ha. unfold plain_ent in Hpl.
    destruct (en_values e) as [vs|] eqn:Ev.
    + destruct (expand_ref_internal f en nm (x_repl vs) (map W.XChar (x_repl vs))) as [Ex Ot]; [exact Ha|apply content_plain; exact Hpl| |eauto].
      clear. induction (x_repl vs) as [|c t IH]; [reflexivity|exact IH].
    + rewrite Hn in Ha. exists (W.XEntRef nm). split; [|reflexivity]. cbn [W.expand W.mem existsb]. rewrite Ha. reflexivity.
Qed.

(** ** attribute values, attributes, content and elements against the declared entities *)
Hypothesis Hsys : forall e0, In e0 ents -> en_values e0 = None -> en_system e0 <> None.
Variable f : nat.
Notation F := (Datatypes.S (Datatypes.S f)).

Lemma av_ok_lits_gen (s : str) : W.av_ok F en [] (map W.AvLit s) = None.
Proof. cbn [W.av_ok]. apply allc_map_ok. reflexivity. Qed.

Lemma av_ok_app_g (a b : list W.avpiece) : W.av_ok F en [] a = None -> W.av_ok F en [] b = None -> W.av_ok F en [] (a ++ b) = None.
Proof. cbn [W.av_ok]. apply allc_app. Qed.

Lemma av_ok_char_g n : W.isChar n = true -> W.av_ok F en [] [W.AvChar n] = None.
Proof. intros H. cbn [W.av_ok W.allc fold_right]. rewrite H. reflexivity. Qed.

Lemma build_avalues_ok_g (l : list att_value) : forall vs, (exists q, av_ok q false l) \/ (exists q, av_ok q true l) ->
  build_avalues ents ext l = IOk vs -> W.av_ok F en [] (x_av l) = None.
Proof.
  induction l as [|v l IH]; intros vs Hok H; [reflexivity|]. cbn [build_avalues] in H.
  apply ibind_ok in H. destruct H as [o [Ho H]]. apply ibind_ok in H. destruct H as [r [Hr _]].
  change (x_av (v :: l)) with (x_avpiece v ++ x_av l). apply av_ok_app_g.
  - destruct v as [[num rd|n]|s]; cbn [build_avalue x_avpiece x_ref W.piece_of_ref] in *.
    + apply ibind_ok in Ho. destruct Ho as [c [Hc _]].
      assert (reference_ok (RefChar num rd)) as Hrf by (destruct Hok as [[q Hq]|[q Hq]]; cbn [av_ok] in Hq; tauto).
      destruct (char_from_spec _ _ _ Hrf Hc) as [E Hch]. destruct rd; cbn [radix_n] in E; rewrite E; apply av_ok_char_g; exact Hch.
    + apply ibind_ok in Ho. destruct Ho as [e [He _]]. eapply ref_attr_ok; [exact He|exact Hsys].
    + apply av_ok_lits_gen.
  - apply (IH r); [|exact Hr]. destruct Hok as [[q Hq]|[q Hq]]; destruct v as [x|s]; cbn [av_ok] in Hq.
    + left. exists q. tauto.
    + right. exists q. tauto.
    + left. exists q. tauto.
    + right. exists q. tauto.
Qed.

Lemma attrs_values_ok_g (l : list attribute) : forall before r, build_attrs_from ents ext before l = IOk r ->
  Forall p_attribute_ok' l -> W.allc (fun a : str * list W.avpiece => W.av_ok F en [] (snd a)) (map x_att l) = None.
Proof.
  induction l as [|a l IH]; intros before r H Hl; [reflexivity|]. cbn [build_attrs_from] in H.
  destruct (existsb (fun v => att_name_eqb (at_name v) (at_name a)) before); [discriminate|].
  apply ibind_ok in H. destruct H as [x [Hx H]]. apply ibind_ok in H. destruct H as [r' [H _]].
  inversion Hl as [|? ? Ha Hl']. subst. cbn [map]. apply allc_cons; [|eapply IH; eassumption].
  cbn [x_att snd]. unfold build_attr in Hx. destruct (attribute_name (at_name a)) as [lo pr].
  apply ibind_ok in Hx. destruct Hx as [vs [Hvs _]]. destruct Ha as [[_ [q [_ Hq]]] _].
  eapply build_avalues_ok_g; [left; exists q; exact Hq|exact Hvs].
Qed.

Lemma expand_elem_g nm atts et kids : W.expand F en [] (W.XElem nm atts et kids) =
  match W.mapM (W.expand F en []) kids with inl r => inl r | inr kids' => inr (W.XElem nm atts et kids') end.
Proof. reflexivity. Qed.

Lemma text_check_g (o : option str) :
  W.mapM (W.expand F en []) (x_text o) = inr (x_text o) /\ W.allc (W.tree_ok F en) (x_text o) = None.
Proof.
  destruct o as [t|]; [|split; reflexivity]. cbn [x_text]. split.
  - apply mapM_id. intros x Hx. apply in_map_iff in Hx. destruct Hx as [c [<- _]]. reflexivity.
  - apply allc_map_ok. reflexivity.
Qed.

Definition elem_checked_g (e : element) : Prop :=
  p_element_ok e -> forall el, build_element ents ext e = IOk el ->
  exists x', W.expand F en [] (x_elem e) = inr x' /\ W.tree_ok F en x' = None.

Lemma cells_check_g (cells : list cell) : cells_all elem_checked_g cells -> cells_ok p_element_ok cells ->
  forall ch, build_cells (build_element ents ext) ents ext cells = IOk ch ->
  exists kids', W.mapM (W.expand F en []) (x_cells x_elem cells) = inr kids' /\ W.allc (W.tree_ok F en) kids' = None.
Proof.
  induction 1 as [|[c tl] l Hc _ IH]; intros Hok ch Hb.
  - exists []. split; reflexivity.
  - cbn [cells_ok] in Hok. destruct Hok as [Hc_ok [_ Hl_ok]]. cbn [build_cells] in Hb.
    apply ibind_ok in Hb. destruct Hb as [it [Hit Hb]]. apply ibind_ok in Hb. destruct Hb as [r [Hr _]].
    destruct (IH Hl_ok r Hr) as [kl [Ekl Okl]]. destruct (text_check_g tl) as [Et Ot].
    assert (exists x', W.expand F en [] (x_contents x_elem c) = inr x' /\ W.tree_ok F en x' = None) as [x' [Ex Ox]].
    { cbn [fst] in Hc. destruct c as [e'|[num rd|n]|s|p|s]; cbn [build_child x_contents contents_ok] in *.
      - exact (Hc Hc_ok it Hit).
      - apply ibind_ok in Hit. destruct Hit as [c0 [Hc0 _]]. destruct (char_from_spec _ _ _ Hc_ok Hc0) as [E Hch].
        unfold x_refitem. destruct rd; cbn [x_ref radix_n] in *; rewrite E; eexists; (split; [reflexivity|]); cbn [W.tree_ok]; rewrite Hch; reflexivity.
      - apply ibind_ok in Hit. destruct Hit as [e0 [He0 _]].
        destruct (ref_content_ok (Datatypes.S f) n e0 He0) as [x0 [E1 E2]]. unfold x_refitem. cbn [x_ref]. eauto.
      - eexists. split; reflexivity.
      - eexists. split; reflexivity.
      - eexists. split; reflexivity. }
    cbn [x_cells]. exists (x' :: x_text tl ++ kl). split.
    + cbn [W.mapM]. rewrite Ex. rewrite (mapM_app _ _ _ _ _ Et Ekl). reflexivity.
    + apply allc_cons; [exact Ox|]. apply allc_app; assumption.
Qed.

Theorem element_checked_g : forall e, elem_checked_g e.
Proof.
  apply element_ind2.
  - intros n a [Hq [Ha _]] el Hb. cbn [build_element] in Hb. apply ibind_ok in Hb. destruct Hb as [attrs' [Hat _]].
    cbn [x_elem]. rewrite expand_elem_g. cbn [W.mapM]. eexists. split; [reflexivity|].
    cbn [W.tree_ok]. unfold build_attrs in Hat.
    destruct (build_attrs_nodup ents ext a [] attrs' Hat) as [Hnd _]; [constructor| |].
    { revert Ha. apply Forall_impl. intros x [[H1 _] H2]. split; assumption. }
    rewrite map_map. change (map (fun x => fst (x_att x)) a) with (map att_nm a). rewrite Hnd.
    rewrite (attrs_values_ok_g a [] attrs' Hat Ha). reflexivity.
  - intros n a h cells Hcells [Hq [Ha [Hh Hcs]]] el Hb. cbn [build_element] in Hb.
    apply ibind_ok in Hb. destruct Hb as [attrs' [Hat Hb]]. apply ibind_ok in Hb. destruct Hb as [ch [Hch _]].
    destruct (cells_check_g cells Hcells Hcs ch Hch) as [kl [Ekl Okl]]. destruct (text_check_g h) as [Et Ot].
    cbn [x_elem]. rewrite expand_elem_g. rewrite (mapM_app _ _ _ _ _ Et Ekl). eexists. split; [reflexivity|].
    cbn [W.tree_ok]. rewrite Wstr_eqb_refl. unfold build_attrs in Hat.
    destruct (build_attrs_nodup ents ext a [] attrs' Hat) as [Hnd _]; [constructor| |].
    { revert Ha. apply Forall_impl. intros x [[H1 _] H2]. split; assumption. }
    rewrite map_map. change (map (fun x => fst (x_att x)) a) with (map att_nm a). rewrite Hnd.
    rewrite (attrs_values_ok_g a [] attrs' Hat Ha). cbn [W.guard W.andc]. apply allc_app; assumption.
Qed.
End Refs.

(** ** the internal subset, in order *)
Definition sp_rel (sp : list (str * W.entity)) (acc : list Info.entity) : Prop := forall k, W.assoc k sp = W.assoc k (tbl acc).

Lemma mem_assoc {A} k (l : list (str * A)) : W.mem k (map fst l) = match W.assoc k l with Some _ => true | None => false end.
Proof.
  unfold W.mem. induction l as [|[k' v] l IH]; [reflexivity|]. cbn [map fst existsb W.assoc]. destruct (W.str_eqb k k'); [reflexivity|exact IH].
Qed.

Lemma sp_rel_step sp acc (e : Info.entity) : sp_rel sp acc ->
  sp_rel (if W.mem (en_name e) (map fst sp) then sp else sp ++ [(en_name e, x_entity e)]) (acc ++ [e]).
Proof.
  intros H k. unfold tbl. rewrite map_app. fold (tbl acc). cbn [map]. rewrite assoc_app. rewrite <- H.
  rewrite mem_assoc. destruct (W.assoc (en_name e) sp) as [v|] eqn:E.
  - destruct (W.assoc k sp) as [v'|] eqn:Ek; [reflexivity|]. cbn [W.assoc].
    destruct (W.str_eqb k (en_name e)) eqn:Eq; [|reflexivity]. apply Wstr_eqb_eq in Eq. subst k. congruence.
  - rewrite assoc_app. reflexivity.
Qed.

Lemma env_rel_att sp acc ext : sp_rel sp acc ->
  env_rel {| W.e_ents := W.with_predefined sp; W.e_must_declare := negb ext |} acc ext.
Proof.
  intros H. split; [|reflexivity]. intros nm. cbn [W.e_ents]. rewrite <- assoc_with_predefined. unfold W.with_predefined.
  rewrite !assoc_app, H. reflexivity.
Qed.

Lemma gents_sys (l : list int_subset) : forall e0, In e0 (gents l) -> en_values e0 = None -> en_system e0 <> None.
Proof.
  intros e0 Hin. unfold gents in Hin. apply in_flat_map in Hin. destruct Hin as [x [_ Hx]].
  destruct x as [[d|d|[n d|n d]|d|p|s]|n|s]; cbn [In] in Hx; try contradiction. destruct Hx as [<-|[]].
  destruct d as [lv|x nd]; cbn [build_entity en_values en_system]; [discriminate|]. intros _. discriminate.
Qed.

Lemma ev_charrefs_ok (l : list entity_value) q b : p_ev_ok q b l -> check_entity_values l = IOk tt ->
  W.allc (fun p => match p with W.AvChar n => W.guard (W.isChar n) W.RBadCharRef | _ => W.ok end) (x_ev l) = None.
Proof.
  revert b. induction l as [|v l IH]; intros b Hok Hc; [reflexivity|].
  change (x_ev (v :: l)) with (x_evpiece v ++ x_ev l). cbn [check_entity_values] in Hc.
  destruct v as [s|s|[num r|n]]; cbn [p_ev_ok x_evpiece] in *; try discriminate Hc.
  - apply allc_app; [apply allc_map_ok; reflexivity|]. eapply IH; [|exact Hc]. apply Hok.
  - destruct Hok as [Hrf Hok]. apply ibind_ok in Hc. destruct Hc as [c [Hcf Hc]]. destruct (char_from_spec _ _ _ Hrf Hcf) as [E Hch].
    apply allc_app; [|eapply IH; [exact Hok|exact Hc]]. apply allc_cons; [|reflexivity].
    destruct r; cbn [x_ref W.piece_of_ref radix_n] in *; rewrite E, Hch; reflexivity.
  - destruct Hok as [_ Hok]. apply allc_app; [reflexivity|]. eapply IH; [exact Hok|exact Hc].
Qed.

Lemma defaults_ok ext f acc sp (defs : list att_def) : forall r,
  sp_rel sp acc -> forallb plain_ent acc = true -> (forall e0, In e0 acc -> en_values e0 = None -> en_system e0 <> None) ->
  Forall p_att_def_ok defs -> build_attdefs acc ext defs = IOk r ->
  W.allc (fun '(_, _, df) => match df with
            | W.ADValue _ v => W.av_ok (Datatypes.S (Datatypes.S f)) {| W.e_ents := W.with_predefined sp; W.e_must_declare := negb ext |} [] v
            | _ => W.ok end) (map x_attdef defs) = None.
Proof.
  induction defs as [|d defs IH]; intros r Hsp Hpl Hsys Hok Hb; [reflexivity|]. cbn [build_attdefs] in Hb.
  apply ibind_ok in Hb. destruct Hb as [x [Hx Hb]]. apply ibind_ok in Hb. destruct Hb as [r' [Hr' _]].
  inversion Hok as [|? ? Hd Hok']. subst. cbn [map]. apply allc_cons; [|eapply IH; eassumption].
  unfold x_attdef. unfold build_attdef in Hx. destruct (match ad_name d with DanAttr q => qname_parts q | DanNamespace a => attribute_name a end) as [lo pr].
  apply ibind_ok in Hx. destruct Hx as [dv [Hdv _]]. destruct Hd as [_ [_ Hdf]].
  destruct (ad_value d) as [| |fx vs]; cbn [x_attdefault]; try reflexivity.
  apply ibind_ok in Hdv. destruct Hdv as [vs' [Hvs _]]. cbn [p_att_default_ok] in Hdf. destruct Hdf as [_ [q [_ Hq]]].
  eapply (build_avalues_ok_g acc ext _ (env_rel_att sp acc ext Hsp) Hpl Hsys f vs vs'); [left; exists q; exact Hq|exact Hvs].
Qed.

Lemma subset_checked ext f (l : list int_subset) : forall acc sp r,
  build_subset false ext acc l = IOk r -> ok_subset l = true -> Forall is_ok l ->
  forallb plain_ent (acc ++ gents l) = true -> (forall e0, In e0 acc -> en_values e0 = None -> en_system e0 <> None) ->
  sp_rel sp acc -> W.subset_ok (Datatypes.S (Datatypes.S f)) (negb ext) sp (x_subset l) = None.
Proof.
  induction l as [|x l IH]; intros acc sp r Hb Hok Hinv Hpl Hsys Hsp; [reflexivity|].
  cbn [ok_subset forallb] in Hok. apply andb_prop in Hok. destruct Hok as [Hokx Hokl]. inversion Hinv as [|? ? Hx Hinv']. subst.
  change (x_subset (x :: l)) with (x_subset_item x ++ x_subset l). cbn [build_subset] in Hb.
  destruct x as [[d|d|[n d|n d]|d|p|s]|n|s]; cbn [ok_subset_item ok_markup] in Hokx; try discriminate Hokx; try discriminate Hb;
    cbn [x_subset_item x_markup app gents flat_map] in *.
  - (* ELEMENT *) cbn [W.subset_ok]. eapply IH; eassumption.
  - (* ATTLIST *) apply ibind_ok in Hb. destruct Hb as [a [Ha Hb]]. apply ibind_ok in Hb. destruct Hb as [r' [Hr' _]].
    unfold x_attlist. cbn [W.subset_ok]. unfold build_attlist in Ha. apply ibind_ok in Ha. destruct Ha as [atts [Hatts _]].
    cbn [is_ok markup_ok] in Hx. destruct Hx as [_ Hdefs].
    rewrite (defaults_ok ext f acc sp (da_defs d) atts Hsp); try assumption.
    + cbn [W.andc]. eapply IH; eassumption.
    + rewrite forallb_app in Hpl. apply andb_prop in Hpl. tauto.
  - (* ENTITY *) apply ibind_ok in Hb. destruct Hb as [[] [Hc Hb]]. apply ibind_ok in Hb. destruct Hb as [r' [Hr' _]].
    cbn [W.subset_ok]. apply andb_prop in Hokx. destruct Hokx as [Hn Hd].
    assert (match x_entdef d with W.EdValue v => W.allc (fun p => match p with W.AvChar n0 => W.guard (W.isChar n0) W.RBadCharRef | _ => W.ok end) v | _ => W.ok end = None) as ->.
    { cbn [is_ok markup_ok] in Hx. destruct Hx as [_ [_ Hdef]]. destruct d as [lv|xid nd]; cbn [x_entdef]; [|reflexivity].
      cbn [p_entity_def_ok] in Hdef. destruct Hdef as [q [_ Hq]]. eapply ev_charrefs_ok; [exact Hq|exact Hc]. }
    cbn [W.andc].
    rewrite (entity_of_def_build n d) by (destruct d as [lv|? ?]; [|exact I]; cbn [d04_entdef] in Hd; apply andb_prop in Hd; tauto).
    assert (en_name (build_entity n d) = n) as En by (destruct d; reflexivity).
    pose proof (sp_rel_step sp acc (build_entity n d) Hsp) as Hstep. rewrite En in Hstep.
    eapply (IH (acc ++ [build_entity n d])); try eassumption.
    + rewrite <- app_assoc. exact Hpl.
    + intros e0 Hin. apply in_app_or in Hin. destruct Hin as [Hin|[<-|[]]]; [apply Hsys; exact Hin|].
      apply (gents_sys [IsMarkup (MkEntity (DeGeneral n d))]). left. reflexivity.
  - (* NOTATION *) apply ibind_ok in Hb. destruct Hb as [r' [Hr' _]]. unfold x_notation. destruct (dn_id d); cbn [W.subset_ok]; eapply IH; eassumption.
  - (* PI *) apply ibind_ok in Hb. destruct Hb as [r' [Hr' _]]. cbn [W.subset_ok]. eapply IH; eassumption.
  - (* comment *) cbn [W.subset_ok]. eapply IH; eassumption.
  - (* white space *) eapply IH; eassumption.
Qed.

(** ** the document *)
Definition doc_subset (pd : pdoc) : list int_subset :=
  match pr_declaration_doc (d_prolog pd) with Some dd => dd_internal_subset dd | None => [] end.
(** every internal general entity the document declares has plain replacement text *)
Definition plain_doc (pd : pdoc) : bool := forallb plain_ent (gents (doc_subset pd)).

Lemma ent_fuel_ge2 (xd : W.xdoc) : exists f0, W.ent_fuel xd = Datatypes.S (Datatypes.S f0).
Proof.
  unfold W.ent_fuel, W.doc_env. cbn [W.e_ents]. unfold W.with_predefined. rewrite app_length. cbn [map length W.predefined].
  rewrite Nat.add_comm. cbn [Nat.add]. eauto.
Qed.

Theorem check_doc_plain (pd : pdoc) (d : document) :
  p_doc_ok pd -> ok_doc pd = true -> plain_doc pd = true -> build_document pd = IOk d ->
  exists root, W.check_doc (x_doc pd) = inr root.
Proof.
  intros [Hpro [Hel _]] Hok Hplain Hb. unfold build_document, build_document_gen in Hb.
  set (sa := match pr_declaration_xml (d_prolog pd) with Some x => dx_standalone x | None => None end) in *.
  destruct (ent_fuel_ge2 (x_doc pd)) as [f0 Ef].
  unfold W.check_doc. rewrite Ef.
  destruct (pr_declaration_doc (d_prolog pd)) as [dd|] eqn:Hdd.
  - (* with a document type declaration *)
    apply ibind_ok in Hb. destruct Hb as [dt [Hdt Hb]]. apply ibind_ok in Hdt. destruct Hdt as [x [Hx Hdt]]. injection Hdt as <-.
    apply ibind_ok in Hb. destruct Hb as [el [Hbe _]].
    unfold build_doctype in Hx. apply ibind_ok in Hx. destruct Hx as [ch [Hch Hx]]. injection Hx as <-.
    cbn [dt_system] in Hbe. unfold dt_entities in Hbe. cbn [dt_children] in Hbe. rewrite (build_subset_entities _ _ _ _ Hch) in Hbe.
    set (ext0 := external_subset sa (match dd_external_id dd with Some x => Some (fst (external_id_parts x)) | None => None end)) in *.
    unfold ok_doc in Hok. rewrite Hdd in Hok.
    apply andb_prop in Hok. destruct Hok as [Hok _]. apply andb_prop in Hok. destruct Hok as [Hok _].
    apply andb_prop in Hok. destruct Hok as [Hok _]. apply andb_prop in Hok. destruct Hok as [_ Hoks].
    unfold plain_doc, doc_subset in Hplain. rewrite Hdd in Hplain.
    destruct Hpro as [_ [_ [Hdoc _]]]. rewrite Hdd in Hdoc. destruct Hdoc as [_ [_ Hinv]].
    assert (W.e_must_declare (W.doc_env (x_doc pd)) = negb ext0) as Hmust.
    { unfold W.doc_env, x_doc. cbn [W.x_doctype W.x_decl W.e_must_declare]. rewrite Hdd. cbn [option_map x_doctype W.dt_extid].
      subst ext0 sa. unfold external_subset. destruct (pr_declaration_xml (d_prolog pd)) as [xd|]; cbn [option_map x_xmldecl W.xd_standalone];
        [destruct (dx_standalone xd) as [[|]|]|]; destruct (dd_external_id dd); reflexivity. }
    assert (W.e_ents (W.doc_env (x_doc pd)) = W.with_predefined (tbl (gents (dd_internal_subset dd)))) as Hents.
    { unfold W.doc_env, x_doc. cbn [W.x_doctype W.e_ents]. rewrite Hdd. cbn [option_map x_doctype W.dt_subset]. rewrite (entities_of_subset _ Hoks). reflexivity. }
    assert (env_rel (W.doc_env (x_doc pd)) (gents (dd_internal_subset dd)) ext0) as Hrel.
    { split; [|exact Hmust]. intros nm. rewrite Hents. apply assoc_with_predefined. }
    assert (match W.x_doctype (x_doc pd) with Some dt0 => W.dt_subset dt0 | None => [] end = x_subset (dd_internal_subset dd)) as Hsub.
    { unfold x_doc. cbn [W.x_doctype]. rewrite Hdd. reflexivity. }
    rewrite Hsub, Hmust.
    rewrite (subset_checked ext0 f0 (dd_internal_subset dd) [] [] ch Hch Hoks Hinv Hplain); [|intros e0 []|intros k; reflexivity].
    destruct (element_checked_g (gents (dd_internal_subset dd)) ext0 (W.doc_env (x_doc pd)) Hrel Hplain (gents_sys _) f0 (d_element pd) Hel el Hbe) as [x' [Ex Ox]].
    exists x'. change (W.x_root (x_doc pd)) with (x_elem (d_element pd)). rewrite Ex, Ox. reflexivity.
  - (* without *)
    cbn [ibind] in Hb. apply ibind_ok in Hb. destruct Hb as [el [Hbe _]].
    unfold external_subset in Hbe. cbn [is_some] in Hbe. rewrite andb_false_r in Hbe.
    assert (env_rel (W.doc_env (x_doc pd)) [] false) as Hrel.
    { split; [intros nm; unfold W.doc_env, x_doc; cbn [W.x_doctype W.e_ents]; rewrite Hdd; reflexivity|].
      unfold W.doc_env, x_doc. cbn [W.x_doctype W.e_must_declare]. rewrite Hdd. reflexivity. }
    assert (match W.x_doctype (x_doc pd) with Some dt0 => W.dt_subset dt0 | None => [] end = []) as Hsub.
    { unfold x_doc. cbn [W.x_doctype]. rewrite Hdd. reflexivity. }
    rewrite Hsub. cbn [W.subset_ok].
    destruct (element_checked_g [] false (W.doc_env (x_doc pd)) Hrel eq_refl (fun e0 (H : In e0 []) => match H with end) f0 (d_element pd) Hel el Hbe) as [x' [Ex Ox]].
    exists x'. change (W.x_root (x_doc pd)) with (x_elem (d_element pd)). rewrite Ex, Ox. reflexivity.
Qed.

(** ** rungs 2 and 3 together, at the entry point [from_raw] *)
Definition plain_entities (s : str) : bool :=
  match ParseActions.parse_document s with POk (pd, _) => plain_doc pd | _ => false end.

Lemma parse_document_inv (s rest : str) (pd : pdoc) : ParseActions.parse_document s = POk (pd, rest) -> p_doc_ok pd.
Proof.
  unfold ParseActions.parse_document, parse_with. intros Hp.
  destruct (run G_xml G_xml_R nt_document s) as [[t rest']| |] eqn:Er; try discriminate.
  destruct (eval_tree t) eqn:Et; try discriminate. injection Hp as -> ->. apply run_succ in Er. eapply inv_document; eassumption.
Qed.

Theorem accepted_wf10_plain (s : str) (d : document) :
  from_raw s = OOk ([], d) -> KnownD04_doc s = false -> plain_entities s = true -> W.wf_xml10 s = true.
Proof.
  intros H Hk Hpl. destruct (accepted_syntax s d H Hk) as [pd [Hp [Hb Hsyn]]].
  unfold KnownD04_doc in Hk. unfold plain_entities in Hpl. rewrite Hp in Hk, Hpl. apply negb_false_iff in Hk.
  pose proof (build_document_ok pd d Hb Hk) as Hok.
  destruct (check_doc_plain pd d (parse_document_inv _ _ _ Hp) Hok Hpl Hb) as [root Hc].
  unfold W.wf_xml10, W.verdict10. rewrite Hsyn.
  assert (W.unsupported (x_doc pd) = false) as ->.
  { unfold W.unsupported, x_doc. cbn [W.x_doctype]. destruct (pr_declaration_doc (d_prolog pd)) as [dd|] eqn:Hdd; [|reflexivity].
    cbn [option_map x_doctype W.dt_subset]. unfold ok_doc in Hok. rewrite Hdd in Hok.
    apply andb_prop in Hok. destruct Hok as [Hok _]. apply andb_prop in Hok. destruct Hok as [Hok _].
    apply andb_prop in Hok. destruct Hok as [Hok _]. apply andb_prop in Hok. destruct Hok as [_ Hoks].
    clear - Hoks. induction (dd_internal_subset dd) as [|x l IH]; [reflexivity|]. cbn [ok_subset forallb] in Hoks. apply andb_prop in Hoks. destruct Hoks as [Hx Hl].
    change (x_subset (x :: l)) with (x_subset_item x ++ x_subset l). unfold W.has_peref. rewrite existsb_app. fold (W.has_peref (x_subset l)). rewrite (IH Hl), orb_false_r.
    destruct x as [[d0|d0|[n d0|n d0]|d0|p|s0]|n|s0]; try reflexivity; try discriminate Hx. cbn [x_subset_item x_markup]. unfold x_notation. destruct (dn_id d0); reflexivity. }
  rewrite Hc. reflexivity.
Qed.

Theorem accepted_wf_plain (s : str) (d : document) :
  from_raw s = OOk ([], d) -> KnownD04_doc s = false -> plain_entities s = true -> KnownNS s = false -> W.wf s = true.
Proof.
  intros H Hk Hpl Hns. pose proof (accepted_wf10_plain s d H Hk Hpl) as H10. unfold KnownNS in Hns. rewrite H10 in Hns.
  cbn [andb] in Hns. apply negb_false_iff in Hns. exact Hns.
Qed.

Example accepted_wf_plain_nonvacuous :
  plain_entities ex_doctype = true /\ KnownNS ex_doctype = false /\ W.wf ex_doctype = true.
Proof. repeat split; vm_compute; reflexivity. Qed.
