(** * C01, the DOM view: the attribute rows of an element WITH attribute-list declarations.

    [XmlElement::declaration_att_defs] (first definition of a name over all attribute-list declarations of the
    element type) against the specification's [attdefs_of]; [Element::attributes] (defaults) against
    [defaulted_atts]; [XmlAttribute::declaration_type] against the declared type the specification normalizes with.
    The two sides compare names differently -- the implementation compares (prefix, local part) pairs, the
    specification the qualified-name strings --: the pairs that the parser builds are [pair_good] (no colon inside a
    part), on which [qn] is injective.
    They differ on one shape, excluded by the per-element condition [attrs_okb]: a #REQUIRED definition whose
    attribute is not specified: the implementation materialises an attribute without value (listed finding D36).
    (D65 -- a default value for a SPECIFIED namespace declaration was listed as a second attribute -- is repaired in
    703c414: [Element::attributes] now tests the defaults against [namespace_attributes()] as well.) *)
From Coq Require Import List NArith Arith Lia Bool Permutation.
From XmlRs Require Import Base.CPred Spec.XmlChars Model.Peg Gen.XmlcharGen Gen.GrammarXmlGen Model.ParseActions Model.Info Model.DomView
     Proofs.PipelineTotal Proofs.DisplayLex Proofs.DisplayDtd Proofs.ParseInvElem Proofs.ParseInvBuild Proofs.ParseInvDtd
     Proofs.XmlWFSyntaxLex Proofs.XmlWFSyntaxElem Proofs.XmlWFSyntaxCheck Proofs.XmlWFSyntaxDtd
     Proofs.DomViewBase Proofs.DomViewElem Proofs.DomViewAttr.
From XmlRs Require Spec.XmlWF Spec.Infoset Proofs.Expansion Proofs.XmlWFSyntaxRenderCheck.
Import ListNotations.
Local Open Scope N_scope.

(** ** names as (local part, prefix) pairs *)
Definition pair_good (l : str) (p : option str) : Prop :=
  ~ In 58 l /\ match p with Some p' => ~ In 58 p' | None => True end.

Lemma qname_eq_refl l p : qname_eq l p l p = true.
Proof. unfold qname_eq. rewrite Proofs.Expansion.str_eqb_refl, andb_true_r. destruct p as [p|]; [apply Proofs.Expansion.str_eqb_refl|reflexivity]. Qed.

Lemma qname_eq_eq l1 p1 l2 p2 : qname_eq l1 p1 l2 p2 = true -> l1 = l2 /\ p1 = p2.
Proof.
  unfold qname_eq. intros H. apply andb_prop in H. destruct H as [Hp Hl]. apply Proofs.Expansion.str_eqb_eq in Hl. split; [exact Hl|].
  destruct p1 as [a|], p2 as [b|]; try discriminate Hp; [|reflexivity]. cbn [opt_eqb] in Hp. apply Proofs.Expansion.str_eqb_eq in Hp. now subst.
Qed.

Lemma qn_inj l1 p1 l2 p2 : pair_good l1 p1 -> pair_good l2 p2 -> qn l1 p1 = qn l2 p2 -> l1 = l2 /\ p1 = p2.
Proof.
  intros [H1 G1] [H2 G2] E. destruct p1 as [a|], p2 as [b|]; cbn [qn] in E.
  - destruct (split_first_colon _ _ _ _ G1 G2 E) as [-> ->]. auto.
  - exfalso. apply H2. rewrite <- E. apply in_or_app. right. left. reflexivity.
  - exfalso. apply H1. rewrite E. apply in_or_app. right. left. reflexivity.
  - auto.
Qed.

Lemma qname_eq_str l1 p1 l2 p2 : pair_good l1 p1 -> pair_good l2 p2 -> qname_eq l1 p1 l2 p2 = W.str_eqb (qn l1 p1) (qn l2 p2).
Proof.
  intros G1 G2. destruct (qname_eq l1 p1 l2 p2) eqn:E.
  - apply qname_eq_eq in E. destruct E as [-> ->]. symmetry. apply Wstr_eqb_refl.
  - symmetry. apply Wstr_eqb_neq. intros Eq. destruct (qn_inj _ _ _ _ G1 G2 Eq) as [-> ->]. rewrite qname_eq_refl in E. discriminate.
Qed.

Lemma pair_good_qname n : qname_ok n -> pair_good (fst (qname_parts n)) (snd (qname_parts n)).
Proof.
  destruct n as [p l|x]; cbn [qname_ok qname_parts fst snd pair_good].
  - intros [Hp Hl]. split; apply ncname_no_colon; assumption.
  - intros Hx. split; [apply ncname_no_colon; exact Hx|exact I].
Qed.

Lemma pair_good_attname a : att_name_ok a -> pair_good (fst (attribute_name a)) (snd (attribute_name a)).
Proof.
  destruct a as [|s|q]; cbn [att_name_ok attribute_name fst snd].
  - intros _. split; [exact xmlns_no_colon|exact I].
  - intros Hs. split; [apply ncname_no_colon; exact Hs|exact xmlns_no_colon].
  - apply pair_good_qname.
Qed.

Definition dan_parts (n : decl_att_name) : str * option str :=
  match n with DanAttr q => qname_parts q | DanNamespace a => attribute_name a end.

Lemma pair_good_dan n : decl_att_name_ok n -> pair_good (fst (dan_parts n)) (snd (dan_parts n)).
Proof.
  destruct n as [q|a]; cbn [decl_att_name_ok dan_parts].
  - apply pair_good_qname.
  - intros [Ha _]. apply pair_good_attname. exact Ha.
Qed.

Lemma qn_dan n : qn (fst (dan_parts n)) (snd (dan_parts n)) = x_danname n.
Proof. destruct n as [q|a]; cbn [dan_parts x_danname]; [apply qn_qname|apply qn_attname]. Qed.

(** ** one attribute definition, built, against the specification's *)
Section Defs.
Variable ents : list entity.       (* the entities of the whole document type declaration: what the accessors see *)
Variable en : W.env.
Variable f : nat.
Notation F := (Datatypes.S f).

Definition def_rel (d' : attdef) (x : str * W.atttype * W.attdefault) : Prop :=
  pair_good (xd_local d') (xd_prefix d') /\ fst (fst x) = qn (xd_local d') (xd_prefix d') /\ snd (fst x) = x_atttype (xd_ty d') /\
  match xd_value d', snd x with
  | XdRequired, W.ADRequired => True
  | XdImplied, W.ADImplied => True
  | XdValue _ vs', W.ADValue _ v => value_loop ents vs' = IOk (W.av_value F en v)
  | _, _ => False
  end.

Lemma build_attdef_rel acc (d : att_def) d' :
  (forall nm e, resolve_ref acc false true nm = IOk e -> exists v, expand_attr ents nm = IOk v /\ W.av_value F en [W.AvEnt nm] = v) ->
  p_att_def_ok d -> build_attdef acc false d = IOk d' -> def_rel d' (x_attdef d).
Proof.
  intros HattrV [Hn [_ Hdf]] Hb. unfold build_attdef in Hb. fold (dan_parts (ad_name d)) in Hb.
  pose proof (pair_good_dan _ Hn) as Hg. pose proof (qn_dan (ad_name d)) as Hq.
  destruct (dan_parts (ad_name d)) as [lo pr]. cbn [fst snd] in *.
  apply ibind_ok in Hb. destruct Hb as [dv [Hdv Hb]]. injection Hb as <-. unfold def_rel, x_attdef. cbn [xd_local xd_prefix xd_ty xd_value fst snd].
  split; [exact Hg|]. split; [symmetry; exact Hq|]. split; [reflexivity|].
  destruct (ad_value d) as [| |fx vs]; cbn [x_attdefault].
  - injection Hdv as <-. exact I.
  - injection Hdv as <-. exact I.
  - apply ibind_ok in Hdv. destruct Hdv as [vs' [Hvs Hdv]]. injection Hdv as <-. cbn [p_att_default_ok] in Hdf. destruct Hdf as [_ [q [_ Hq0]]].
    exact (value_loop_spec acc ents false en f HattrV vs vs' (or_introl (ex_intro _ q Hq0)) Hvs).
Qed.
End Defs.

(** ** the definitions of an element type: first definition of each name, both sides *)
Lemma Wstr_eqb_sym (a b : str) : W.str_eqb a b = W.str_eqb b a.
Proof.
  destruct (W.str_eqb b a) eqn:E.
  - apply Wstr_eqb_eq in E. subst. apply Wstr_eqb_refl.
  - apply Wstr_eqb_neq. intros ->. rewrite Wstr_eqb_refl in E. discriminate.
Qed.

Definition m_all (als : list attlist) (local : str) (prefix : option str) : list attdef :=
  flat_map (fun al => if qname_eq (al_local al) (al_prefix al) local prefix then al_atts al else []) als.

Lemma push_defs_app : forall a b defs, push_defs defs (a ++ b) = push_defs (push_defs defs a) b.
Proof. induction a as [|d a IH]; intros b defs; [reflexivity|]. cbn [app push_defs]. apply IH. Qed.

Lemma att_defs_from_flat : forall als defs local prefix, att_defs_from defs als local prefix = push_defs defs (m_all als local prefix).
Proof.
  induction als as [|al als IH]; intros defs local prefix; [reflexivity|]. cbn [att_defs_from m_all flat_map]. fold (m_all als local prefix).
  rewrite IH. destruct (qname_eq (al_local al) (al_prefix al) local prefix); [now rewrite push_defs_app|reflexivity].
Qed.

Section DefLists.
Variable ents : list entity.
Variable en : W.env.
Variable f : nat.
Notation R := (def_rel ents en f).

Lemma test_rel (d : attdef) macc sacc : Forall2 R macc sacc -> pair_good (xd_local d) (xd_prefix d) ->
  existsb (fun v => qname_eq (xd_local v) (xd_prefix v) (xd_local d) (xd_prefix d)) macc
  = W.mem (qn (xd_local d) (xd_prefix d)) (map (fun x : str * W.atttype * W.attdefault => fst (fst x)) sacc).
Proof.
  intros HR Hg. induction HR as [|v y macc sacc Hvy _ IH]; [reflexivity|]. cbn [existsb map]. unfold W.mem in *. cbn [existsb]. rewrite IH.
  destruct Hvy as (Gv & Nv & _). rewrite Nv, Wstr_eqb_sym, (qname_eq_str _ _ _ _ Gv Hg). reflexivity.
Qed.

Lemma dedup_rel : forall ma sa, Forall2 R ma sa -> forall macc sacc, Forall2 R macc sacc ->
  Forall2 R (push_defs macc ma)
    (fold_left (fun acc '(nm, ty, df) => if W.mem nm (map (fun x : str * W.atttype * W.attdefault => fst (fst x)) acc) then acc else acc ++ [(nm, ty, df)]) sa sacc).
Proof.
  induction 1 as [|d x ma sa Hdx _ IH]; intros macc sacc Hacc; [exact Hacc|]. cbn [push_defs fold_left].
  destruct x as [[nm ty] df]. pose proof Hdx as (Gd & Nd & _). cbn [fst] in Nd. rewrite (test_rel d macc sacc Hacc Gd), <- Nd.
  apply IH. destruct (W.mem nm _); [exact Hacc|]. apply Forall2_app; [exact Hacc|constructor; [exact Hdx|constructor]].
Qed.

(** attribute-list declarations, built, against the specification's *)
Definition al_rel (al : attlist) (x : str * list (str * W.atttype * W.attdefault)) : Prop :=
  pair_good (al_local al) (al_prefix al) /\ fst x = qn (al_local al) (al_prefix al) /\ Forall2 R (al_atts al) (snd x).

Definition s_attlists (sub : list W.decl) : list (str * list (str * W.atttype * W.attdefault)) :=
  flat_map (fun d => match d with W.DAttlist e defs => [(e, defs)] | _ => [] end) sub.

Lemma s_all_attlists (sub : list W.decl) el :
  flat_map (fun d => match d with W.DAttlist e defs => if W.str_eqb e el then defs else [] | _ => [] end) sub
  = flat_map (fun x : str * list (str * W.atttype * W.attdefault) => if W.str_eqb (fst x) el then snd x else []) (s_attlists sub).
Proof.
  induction sub as [|d sub IH]; [reflexivity|]. cbn [flat_map s_attlists]. fold (s_attlists sub). rewrite flat_map_app, <- IH.
  destruct d; try reflexivity. cbn [flat_map fst snd app]. now rewrite app_nil_r.
Qed.

Lemma all_rel als sl local prefix : Forall2 al_rel als sl -> pair_good local prefix ->
  Forall2 R (m_all als local prefix) (flat_map (fun x : str * list (str * W.atttype * W.attdefault) => if W.str_eqb (fst x) (qn local prefix) then snd x else []) sl).
Proof.
  intros H Hg. induction H as [|al x als sl Hax _ IH]; [constructor|]. cbn [m_all flat_map]. fold (m_all als local prefix).
  destruct Hax as (Ga & Na & Ra). rewrite Na, <- (qname_eq_str _ _ _ _ Ga Hg).
  destruct (qname_eq (al_local al) (al_prefix al) local prefix); [apply Forall2_app; assumption|exact IH].
Qed.

Theorem defs_rel (dt : option doctype) (sub : list W.decl) local prefix :
  Forall2 al_rel (match dt with Some x => dt_attlists x | None => [] end) (s_attlists sub) -> pair_good local prefix ->
  Forall2 R (declaration_att_defs dt local prefix) (W.attdefs_of sub (qn local prefix)).
Proof.
  intros H Hg. unfold declaration_att_defs, W.attdefs_of. cbv zeta. rewrite att_defs_from_flat, s_all_attlists.
  apply dedup_rel; [apply all_rel; assumption|constructor].
Qed.
End DefLists.

(** ** namespace declarations among the attributes, on names *)
Definition is_ns_name (a : str) : bool := W.str_eqb a W.s_xmlns || W.starts (W.s_xmlns ++ [58]) a.
Definition nsb (a : attribute) : bool := is_ns_name (att_nm a).

Lemma starts_app (p r : str) : W.starts p (p ++ r) = true.
Proof. unfold W.starts. induction p as [|c p IH]; [reflexivity|]. cbn [app W.strip]. rewrite N.eqb_refl. exact IH. Qed.

Lemma starts_inv (p s : str) : W.starts p s = true -> exists r, s = p ++ r.
Proof.
  unfold W.starts. revert s. induction p as [|c p IH]; intros s H; [exists s; reflexivity|].
  destruct s as [|d s]; [discriminate H|]. cbn [W.strip] in H. destruct (N.eqb_spec c d) as [->|]; [|discriminate H].
  destruct (IH s H) as [r ->]. exists r. reflexivity.
Qed.

Lemma ns_corr ents ext (a : attribute) a' : p_attribute_ok' a -> build_attr ents ext a = IOk a' -> attr_namespace a' = nsb a.
Proof.
  intros [[Hn _] Hc] Hb. unfold build_attr in Hb. destruct (attribute_name (at_name a)) as [lo pr] eqn:En.
  apply ibind_ok in Hb. destruct Hb as [vs [_ Hb]]. injection Hb as <-. unfold attr_namespace, nsb, att_nm, is_ns_name. cbn [xa_prefix xa_local].
  destruct (at_name a) as [|s|[p l|x]]; cbn [attribute_name qname_parts x_attname d_qname] in *; injection En as <- <-.
  - reflexivity.
  - rewrite Proofs.Expansion.str_eqb_refl. change (W.s_xmlns ++ 58 :: s) with ((W.s_xmlns ++ [58]) ++ s). rewrite starts_app. symmetry. apply orb_true_r.
  - cbn [att_name_canon att_name_ok qname_ok] in *. destruct Hn as [Hp Hl].
    assert (E1 : str_eqb p s_xmlns = false).
    { destruct (str_eqb p s_xmlns) eqn:E; [|reflexivity]. apply Proofs.Expansion.str_eqb_eq in E. contradiction. }
    rewrite E1. symmetry. apply orb_false_iff. split.
    + apply Wstr_eqb_neq. intros E. apply xmlns_no_colon. change W.s_xmlns with s_xmlns in E. rewrite <- E. apply in_or_app. right. left. reflexivity.
    + destruct (W.starts (W.s_xmlns ++ [58]) (p ++ 58 :: l)) eqn:E; [|reflexivity]. exfalso. apply starts_inv in E. destruct E as [r E].
      rewrite <- app_assoc in E. cbn [app] in E. change W.s_xmlns with s_xmlns in E.
      destruct (split_first_colon _ _ _ _ (ncname_no_colon _ Hp) xmlns_no_colon E) as [E2 _]. contradiction.
  - cbn [att_name_canon att_name_ok qname_ok] in *.
    assert (E1 : str_eqb x s_xmlns = false).
    { destruct (str_eqb x s_xmlns) eqn:E; [|reflexivity]. apply Proofs.Expansion.str_eqb_eq in E. contradiction. }
    rewrite E1. symmetry. apply orb_false_iff. split.
    + apply Wstr_eqb_neq. exact Hc.
    + destruct (W.starts (W.s_xmlns ++ [58]) x) eqn:E; [|reflexivity]. exfalso. apply starts_inv in E. destruct E as [r E].
      apply (ncname_no_colon _ Hn). rewrite E. rewrite <- app_assoc. apply in_or_app. right. left. reflexivity.
Qed.

Lemma filter_Forall2 {A B} (P : A -> B -> Prop) (p : A -> bool) (q : B -> bool) l l' :
  Forall2 P l l' -> (forall x y, P x y -> p x = q y) -> Forall2 P (filter p l) (filter q l').
Proof.
  intros H Hpq. induction H as [|x y l l' Hxy _ IH]; [constructor|]. cbn [filter]. rewrite (Hpq x y Hxy).
  destruct (q y); [constructor; assumption|exact IH].
Qed.

Lemma filter_map_comm {A B} (g : A -> B) (p : B -> bool) (l : list A) : filter p (map g l) = map g (filter (fun x => p (g x)) l).
Proof. induction l as [|x l IH]; [reflexivity|]. cbn [map filter]. destruct (p (g x)); cbn [map]; now rewrite IH. Qed.

(** the condition on one element: no #REQUIRED definition without a specified attribute (D36) *)
Definition attrs_okb (sub : list W.decl) (el : str) (atts : list (str * list W.avpiece)) : bool :=
  forallb (fun x : str * W.atttype * W.attdefault =>
             match snd x with
             | W.ADRequired => W.mem (fst (fst x)) (map fst atts)
             | _ => true
             end) (W.attdefs_of sub el).

(** ** the rows of an element *)
Definition tyof (sdefs : list (str * W.atttype * W.attdefault)) (a : str) : W.atttype :=
  match find (fun d : str * W.atttype * W.attdefault => W.str_eqb (fst (fst d)) a) sdefs with Some (_, ty, _) => ty | None => W.ATCData end.

Definition is_value (d : attdef) : bool := match xd_value d with XdValue _ _ => true | _ => false end.
Definition def_name (d : attdef) : str := qn (xd_local d) (xd_prefix d).
Definition va_name (v : vattr) : str := qn (va_local v) (va_prefix v).
Definition has_name (items : list vattr) (d : attdef) : bool :=
  existsb (fun v => qname_eq (va_local v) (va_prefix v) (xd_local d) (xd_prefix d)) items.

Lemma has_name_app a b d : has_name (a ++ b) d = has_name a d || has_name b d.
Proof. apply existsb_app. Qed.

Lemma has_push A d d' : has_name A d' = false -> def_name d <> def_name d' ->
  has_name (A ++ [vattr_of_def d]) d' = false.
Proof.
  intros HA Hne. rewrite has_name_app, HA. cbn [orb has_name existsb vattr_of_def va_local va_prefix]. rewrite orb_false_r.
  destruct (qname_eq (xd_local d) (xd_prefix d) (xd_local d') (xd_prefix d')) eqn:E; [|reflexivity]. exfalso.
  apply qname_eq_eq in E. destruct E as [E1 E2]. apply Hne. unfold def_name. now rewrite E1, E2.
Qed.

(** Element::attributes after bf629dc: the definitions with a value that are no namespace declarations and not written *)
Lemma add_defaults_spec : forall defs S A,
  (forall d, In d defs -> xd_value d = XdRequired -> def_namespace d = false -> has_name S d = true) ->
  (forall d, In d defs -> has_name A d = false) ->
  NoDup (map def_name defs) ->
  add_defaults (S ++ A) defs = S ++ A ++ map vattr_of_def (filter (fun d => is_value d && negb (def_namespace d) && negb (has_name S d)) defs).
Proof.
  induction defs as [|d defs IH]; intros S A Hreq HA Hnd; [cbn [add_defaults filter map]; now rewrite app_nil_r|].
  inversion Hnd as [|? ? Hd Hnd']; subst. cbn [add_defaults filter]. fold (has_name (S ++ A) d). rewrite has_name_app, (HA d (or_introl eq_refl)), orb_false_r.
  assert (Hrest : forall A', (forall d', In d' defs -> has_name A' d' = false) ->
            add_defaults (S ++ A') defs = S ++ A' ++ map vattr_of_def (filter (fun d0 => is_value d0 && negb (def_namespace d0) && negb (has_name S d0)) defs)).
  { intros A' HA'. apply IH; [intros d' Hd' Hr Hn; apply Hreq; [right; exact Hd'|exact Hr|exact Hn]|exact HA'|exact Hnd']. }
  assert (Hkeep : forall d', In d' defs -> has_name A d' = false) by (intros d' Hd'; apply HA; right; exact Hd').
  assert (Hpush : forall d', In d' defs -> has_name (A ++ [vattr_of_def d]) d' = false).
  { intros d' Hd'. apply has_push; [exact (Hkeep d' Hd')|]. intros E. apply Hd. rewrite E. apply (in_map def_name). exact Hd'. }
  unfold is_implied, is_value.
  destruct (xd_value d) as [| |fx vs] eqn:Ev; destruct (def_namespace d) eqn:En; destruct (has_name S d) eqn:ES; cbn [negb andb app map];
    try (apply Hrest; exact Hkeep).
  - exfalso. rewrite (Hreq d (or_introl eq_refl) Ev En) in ES. discriminate.
  - rewrite <- app_assoc. rewrite (Hrest (A ++ [vattr_of_def d]) Hpush). rewrite <- app_assoc. reflexivity.
Qed.

(** Element::namespace_attributes after bf629dc: the namespace declarations with a default value that are not written *)
Lemma add_ns_defaults_spec : forall defs N A,
  (forall d, In d defs -> has_name A d = false) ->
  NoDup (map def_name defs) ->
  add_ns_defaults (N ++ A) defs = N ++ A ++ map vattr_of_def (filter (fun d => is_value d && def_namespace d && negb (has_name N d)) defs).
Proof.
  induction defs as [|d defs IH]; intros N A HA Hnd; [cbn [add_ns_defaults filter map]; now rewrite app_nil_r|].
  inversion Hnd as [|? ? Hd Hnd']; subst. cbn [add_ns_defaults filter]. fold (has_name (N ++ A) d). rewrite has_name_app, (HA d (or_introl eq_refl)), orb_false_r.
  assert (Hrest : forall A', (forall d', In d' defs -> has_name A' d' = false) ->
            add_ns_defaults (N ++ A') defs = N ++ A' ++ map vattr_of_def (filter (fun d0 => is_value d0 && def_namespace d0 && negb (has_name N d0)) defs)).
  { intros A' HA'. apply IH; [exact HA'|exact Hnd']. }
  assert (Hkeep : forall d', In d' defs -> has_name A d' = false) by (intros d' Hd'; apply HA; right; exact Hd').
  assert (Hpush : forall d', In d' defs -> has_name (A ++ [vattr_of_def d]) d' = false).
  { intros d' Hd'. apply has_push; [exact (Hkeep d' Hd')|]. intros E. apply Hd. rewrite E. apply (in_map def_name). exact Hd'. }
  unfold is_value_def, is_value.
  destruct (xd_value d) as [| |fx vs] eqn:Ev; destruct (def_namespace d) eqn:En; destruct (has_name N d) eqn:ES; cbn [negb andb app map];
    try (apply Hrest; exact Hkeep).
  rewrite <- app_assoc. rewrite (Hrest (A ++ [vattr_of_def d]) Hpush). rewrite <- app_assoc. reflexivity.
Qed.

(** a written attribute and a definition with the same qualified name are namespace declarations together *)
Lemma has_name_ns (its : list attr) (b : bool) d :
  (forall x, In x its -> attr_namespace x = b) -> def_namespace d = negb b -> has_name (map vattr_of its) d = false.
Proof.
  intros H Hd. unfold has_name. induction its as [|x r IH]; [reflexivity|]. cbn [map existsb].
  rewrite IH by (intros y Hy; apply H; right; exact Hy). rewrite orb_false_r.
  destruct (qname_eq (va_local (vattr_of x)) (va_prefix (vattr_of x)) (xd_local d) (xd_prefix d)) eqn:E; [|reflexivity].
  apply qname_eq_eq in E. cbn [vattr_of va_local va_prefix] in E. destruct E as [E1 E2].
  pose proof (H x (or_introl eq_refl)) as Hx. unfold attr_namespace in Hx. unfold def_namespace in Hd. rewrite E1, E2 in Hx. rewrite Hx in Hd.
  destruct b; discriminate.
Qed.

Lemma filter_filter_and {A} (p q : A -> bool) l : filter q (filter p l) = filter (fun x => p x && q x) l.
Proof. induction l as [|x l IH]; [reflexivity|]. cbn [filter]. destruct (p x); cbn [filter andb]; [destruct (q x)|]; now rewrite IH. Qed.

Section Rows.
Variable dt : option doctype.
Variable en : W.env.
Variable f' : nat.
Variable sub : list W.decl.
Notation ents := (ents_of dt).
Notation F := (Datatypes.S (Datatypes.S f')).
Notation R := (def_rel ents en (Datatypes.S f')).
Hypothesis HattrV : forall nm e, resolve_ref ents false true nm = IOk e ->
  exists v, expand_attr ents nm = IOk v /\ W.av_value F en [W.AvEnt nm] = v.
Hypothesis Hdefs : forall local prefix, pair_good local prefix ->
  Forall2 R (declaration_att_defs dt local prefix) (W.attdefs_of sub (qn local prefix)).

Lemma type_rel defs sdefs l p : Forall2 R defs sdefs -> pair_good l p ->
  match declaration_type defs l p with Some t => x_atttype t | None => W.ATCData end = tyof sdefs (qn l p).
Proof.
  intros H Hg. unfold declaration_type, tyof. induction H as [|v y defs sdefs Hvy _ IH]; [reflexivity|]. cbn [find].
  destruct Hvy as (Gv & Nv & Tv & _). rewrite Nv, <- (qname_eq_str _ _ _ _ Gv Hg).
  destruct (qname_eq (xd_local v) (xd_prefix v) l p); [|exact IH]. destruct y as [[n t] d]. cbn [fst snd] in Tv. now rewrite Tv.
Qed.

Lemma norm_spec (ty : option att_type) (s : str) :
  match ty with None | Some AtCdata => s | Some _ => split_filter_join s end
  = Infoset.type_norm (match ty with Some t => x_atttype t | None => W.ATCData end) s.
Proof. destruct ty as [[]|]; cbn [x_atttype Infoset.type_norm]; try reflexivity; apply split_filter_join_spec. Qed.

Lemma row_value defs sdefs (va : vattr) (value : str) : Forall2 R defs sdefs -> pair_good (va_local va) (va_prefix va) ->
  value_loop ents (va_values va) = IOk value ->
  attr_row ents defs va = (va_name va, KTok (Infoset.TAttr (negb (va_from_dtd va)) (va_name va) (Infoset.type_norm (tyof sdefs (va_name va)) value))).
Proof.
  intros HR Hg Hv. unfold attr_row, normalized_value. rewrite Hv. cbn [ibind]. fold (va_name va).
  rewrite norm_spec, (type_rel defs sdefs _ _ HR Hg). reflexivity.
Qed.

Definition srow (sdefs : list (str * W.atttype * W.attdefault)) (sp : bool) (a : str * list W.avpiece) : str * Infoset.token :=
  (fst a, Infoset.TAttr sp (fst a) (Infoset.type_norm (tyof sdefs (fst a)) (W.av_value F en (snd a)))).

Lemma row_specified defs sdefs (a : attribute) a' : Forall2 R defs sdefs -> p_attribute_ok' a -> build_attr ents false a = IOk a' ->
  attr_row ents defs (vattr_of a') = lift_row (srow sdefs true (x_att a)) /\ va_name (vattr_of a') = att_nm a
  /\ pair_good (xa_local a') (xa_prefix a').
Proof.
  intros HR Hok Hb. pose proof Hok as [[Hn [q [_ Hq]]] _]. unfold build_attr in Hb. pose proof (qn_attname (at_name a)) as Hnm. pose proof (pair_good_attname _ Hn) as Hg.
  destruct (attribute_name (at_name a)) as [lo pr]. cbn [fst snd] in *.
  apply ibind_ok in Hb. destruct Hb as [vs [Hvs Hb]]. injection Hb as <-.
  pose proof (value_loop_spec ents ents false en (Datatypes.S f') HattrV (at_value a) vs (or_introl (ex_intro _ q Hq)) Hvs) as Hv.
  split; [|split; [exact Hnm|exact Hg]].
  rewrite (row_value defs sdefs (vattr_of (Attr lo pr vs)) _ HR Hg Hv). unfold va_name, vattr_of. cbn [va_local va_prefix va_from_dtd xa_local xa_prefix negb].
  rewrite Hnm. reflexivity.
Qed.

Lemma row_default defs sdefs (d : attdef) fx (v : list W.avpiece) ty : Forall2 R defs sdefs -> R d (def_name d, ty, W.ADValue fx v) ->
  attr_row ents defs (vattr_of_def d) = lift_row (srow sdefs false (def_name d, v)).
Proof.
  intros HR (Gd & _ & _ & Hv). cbn [snd] in Hv. destruct (xd_value d) as [| |fx' vs'] eqn:Ev; [destruct Hv|destruct Hv|].
  assert (Hvl : value_loop ents (va_values (vattr_of_def d)) = IOk (W.av_value F en v)) by (unfold vattr_of_def; cbn [va_values]; rewrite Ev; exact Hv).
  rewrite (row_value defs sdefs (vattr_of_def d) _ HR Gd Hvl). reflexivity.
Qed.

Lemma defaults_rows defs sdefs (tst : attdef -> bool) (names : list str) : Forall2 R defs sdefs -> forall D Sd, Forall2 R D Sd ->
  (forall d, In d D -> is_value d = true -> tst d = W.mem (def_name d) names) ->
  map (fun x => attr_row ents defs (vattr_of_def x)) (filter (fun d => is_value d && negb (tst d)) D)
  = map (fun x => lift_row (srow sdefs false x))
        (flat_map (fun '(nm, _, df) => match df with W.ADValue _ v => if W.mem nm names then [] else [(nm, v)] | _ => [] end) Sd).
Proof.
  intros HR D Sd HD. induction HD as [|d y D Sd Hdy _ IH]; intros Hmem; [reflexivity|]. cbn [filter flat_map].
  assert (IH' := IH (fun d0 Hd0 => Hmem d0 (or_intror Hd0))). clear IH.
  destruct y as [[nm ty] df]. pose proof Hdy as (Gd & Nd & _ & Dv). cbn [fst snd] in Nd, Dv. unfold is_value at 1.
  destruct (xd_value d) as [| |fx' vs'] eqn:Ev; destruct df as [| |fx v]; try destruct Dv; cbn [andb app]; try exact IH'.
  assert (Hv : is_value d = true) by (unfold is_value; rewrite Ev; reflexivity).
  rewrite (Hmem d (or_introl eq_refl) Hv). unfold def_name. rewrite <- Nd.
  destruct (W.mem nm names); cbn [negb app map]; [exact IH'|]. rewrite IH'. f_equal.
  subst nm. exact (row_default defs sdefs d fx v ty HR Hdy).
Qed.

(** membership tests on the two sides *)
Lemma has_name_mem (its : list vattr) (names : list str) (d : attdef) : pair_good (xd_local d) (xd_prefix d) ->
  Forall2 (fun v n => pair_good (va_local v) (va_prefix v) /\ va_name v = n) its names ->
  has_name its d = W.mem (def_name d) names.
Proof.
  intros Hg H. unfold has_name, W.mem. induction H as [|v n its names [Gv Nv] _ IH]; [reflexivity|]. cbn [existsb]. rewrite IH. f_equal.
  rewrite (qname_eq_str _ _ _ _ Gv Hg), <- Nv. apply Wstr_eqb_sym.
Qed.

Lemma mem_app k a b : W.mem k (a ++ b) = W.mem k a || W.mem k b.
Proof. apply existsb_app. Qed.

Lemma mem_perm k a b : Permutation a b -> W.mem k a = W.mem k b.
Proof.
  unfold W.mem. induction 1 as [|x l l' _ IH|x y l|l l' l'' _ IH1 _ IH2]; cbn [existsb]; [reflexivity|now rewrite IH| |congruence].
  rewrite !orb_assoc. f_equal. apply orb_comm.
Qed.

Theorem rows_decl n (a : list attribute) attrs' : qname_ok n -> Forall p_attribute_ok' a -> build_attrs ents false a = IOk attrs' ->
  attrs_okb sub (d_qname n) (map x_att a) = true ->
  attr_rows dt (fst (qname_parts n)) (snd (qname_parts n)) attrs' = map KTok (Infoset.attr_tokens F en sub (d_qname n) (map x_att a)).
Proof.
  intros Hq Ha Hat Hokb. pose proof (pair_good_qname n Hq) as Hgn. pose proof (Hdefs _ _ Hgn) as HR. rewrite qn_qname in HR.
  set (defs := declaration_att_defs dt (fst (qname_parts n)) (snd (qname_parts n))) in *. set (sdefs := W.attdefs_of sub (d_qname n)) in *.
  unfold build_attrs in Hat. pose proof (build_attrs_each _ _ _ _ _ Hat) as Heach.
  (* the specified attributes, one by one *)
  assert (Hspec : Forall2 (fun x x' => attr_row ents defs (vattr_of x') = lift_row (srow sdefs true (x_att x)) /\ va_name (vattr_of x') = att_nm x
                                        /\ pair_good (xa_local x') (xa_prefix x') /\ attr_namespace x' = nsb x) a attrs').
  { clear Hat Hokb. induction Heach as [|x x' l l' Hx _ IH]; [constructor|]. inversion Ha as [|? ? Hax Hal]; subst.
    constructor; [|exact (IH Hal)]. destruct (row_specified defs sdefs x x' HR Hax Hx) as (E1 & E2 & E3). split; [exact E1|]. split; [exact E2|]. split; [exact E3|].
    exact (ns_corr _ _ x x' Hax Hx). }
  (* names of the specified attributes that are no namespace declarations / that are *)
  assert (Hnn : Forall2 (fun v n0 => pair_good (va_local v) (va_prefix v) /\ va_name v = n0)
                        (map vattr_of (filter (fun x' => negb (attr_namespace x')) attrs')) (map att_nm (filter (fun x => negb (nsb x)) a))).
  { clear - Hspec. induction Hspec as [|x x' l l' (_ & E2 & E3 & E4) _ IH]; [constructor|]. cbn [filter]. rewrite E4.
    destruct (nsb x); cbn [negb map]; [exact IH|constructor; [split; assumption|exact IH]]. }
  assert (Hns : Forall2 (fun v n0 => pair_good (va_local v) (va_prefix v) /\ va_name v = n0)
                        (map vattr_of (filter attr_namespace attrs')) (map att_nm (filter nsb a))).
  { clear - Hspec. induction Hspec as [|x x' l l' (_ & E2 & E3 & E4) _ IH]; [constructor|]. cbn [filter]. rewrite E4.
    destruct (nsb x); cbn [map]; [constructor; [split; assumption|exact IH]|exact IH]. }
  assert (Hgd0 : forall d, pair_good (xd_local d) (xd_prefix d) ->
            has_name (map vattr_of (filter (fun x' => negb (attr_namespace x')) attrs')) d || has_name (map vattr_of (filter attr_namespace attrs')) d
            = W.mem (def_name d) (map att_nm a)).
  { intros d Hg. rewrite (has_name_mem _ _ d Hg Hnn), (has_name_mem _ _ d Hg Hns).
    rewrite (mem_perm _ _ _ (Permutation_map att_nm (Permutation_sym (filter_partition_perm nsb a)))), map_app, mem_app. apply orb_comm. }
  (* the conditions of [attrs_okb] on the definitions *)
  unfold attrs_okb in Hokb. fold sdefs in Hokb. rewrite !map_map in Hokb. cbn [x_att fst] in Hokb. fold att_nm in Hokb.
  change (fun x => att_nm x) with att_nm in Hokb.
  assert (Hnds : NoDup (map (fun x : str * W.atttype * W.attdefault => fst (fst x)) sdefs)) by apply RT.attdefs_nodup.
  assert (Hnames : map def_name defs = map (fun x : str * W.atttype * W.attdefault => fst (fst x)) sdefs).
  { clear - HR. induction HR as [|v y l l' (_ & Nv & _) _ IH]; [reflexivity|]. cbn [map]. unfold def_name at 1. now rewrite Nv, IH. }
  assert (Hgd : forall d, In d defs -> pair_good (xd_local d) (xd_prefix d)).
  { clear - HR. induction HR as [|v y l l' (Gv & _) _ IH]; intros d Hd; [destruct Hd|]. destruct Hd as [<-|Hd]; [exact Gv|exact (IH d Hd)]. }
  (* Element::attributes and namespace_attributes (after bf629dc), brought to the shape "written ++ defaults not written" *)
  set (Sx := map vattr_of (filter (fun x' => negb (attr_namespace x')) attrs')) in *.
  set (Nx := map vattr_of (filter attr_namespace attrs')) in *.
  assert (HhS : forall d, def_namespace d = true -> has_name Sx d = false).
  { intros d Hd. unfold Sx. apply (has_name_ns _ false); [|exact Hd]. intros x Hx. apply filter_In in Hx. destruct Hx as [_ Hx]. now destruct (attr_namespace x). }
  assert (HhN : forall d, def_namespace d = false -> has_name Nx d = false).
  { intros d Hd. unfold Nx. apply (has_name_ns _ true); [|exact Hd]. intros x Hx. apply filter_In in Hx. now destruct Hx as [_ Hx]. }
  assert (Hadd : element_attributes defs attrs' = Sx ++ map vattr_of_def (filter (fun d => is_value d && negb (def_namespace d) && negb (has_name Sx d)) defs)).
  { unfold element_attributes. fold Sx.
    pose proof (add_defaults_spec defs Sx []) as Hs.
    rewrite app_nil_r in Hs. cbn [app] in Hs.
    apply Hs; [|intros; reflexivity|rewrite Hnames; exact Hnds].
    intros d Hd Hr Hn. pose proof (Hgd0 d (Hgd d Hd)) as Hm. fold Sx Nx in Hm. rewrite (HhN d Hn), orb_false_r in Hm. rewrite Hm.
    clear - HR Hokb Hd Hr. induction HR as [|v y l l' Hvy _ IH]; [destruct Hd|]. cbn [forallb] in Hokb. apply andb_prop in Hokb. destruct Hokb as [Hy Hl].
    destruct Hd as [<-|Hd]; [|exact (IH Hl Hd)]. destruct Hvy as (_ & Nv & _ & Dv). rewrite Hr in Dv. destruct (snd y); try destruct Dv. unfold def_name. rewrite <- Nv. exact Hy. }
  assert (HaddN : namespace_attributes defs attrs' = Nx ++ map vattr_of_def (filter (fun d => is_value d && def_namespace d && negb (has_name Nx d)) defs)).
  { unfold namespace_attributes. fold Nx. pose proof (add_ns_defaults_spec defs Nx []) as Hs. rewrite app_nil_r in Hs. cbn [app] in Hs.
    apply Hs; [intros; reflexivity|rewrite Hnames; exact Hnds]. }
  assert (Hperm : Permutation (namespace_attributes defs attrs' ++ element_attributes defs attrs')
                              (Nx ++ Sx ++ map vattr_of_def (filter (fun d => is_value d && negb (has_name Sx d || has_name Nx d)) defs))).
  { rewrite HaddN, Hadd.
    set (Pold := fun d => is_value d && negb (has_name Sx d || has_name Nx d)).
    assert (E1 : filter (fun d => is_value d && def_namespace d && negb (has_name Nx d)) defs = filter def_namespace (filter Pold defs)).
    { rewrite filter_filter_and. apply filter_ext. intros d. unfold Pold. destruct (def_namespace d) eqn:En.
      - rewrite (HhS d En). cbn [orb]. now rewrite !andb_true_r.
      - now rewrite !andb_false_r. }
    assert (E2 : filter (fun d => is_value d && negb (def_namespace d) && negb (has_name Sx d)) defs = filter (fun d => negb (def_namespace d)) (filter Pold defs)).
    { rewrite filter_filter_and. apply filter_ext. intros d. unfold Pold. destruct (def_namespace d) eqn:En; cbn [negb].
      - now rewrite !andb_false_r.
      - rewrite (HhN d En), orb_false_r. now rewrite !andb_true_r. }
    rewrite E1, E2.
    transitivity (Nx ++ Sx ++ (map vattr_of_def (filter def_namespace (filter Pold defs)) ++ map vattr_of_def (filter (fun d => negb (def_namespace d)) (filter Pold defs)))).
    - rewrite <- app_assoc. apply Permutation_app_head. rewrite !app_assoc. apply Permutation_app_tail. apply Permutation_app_comm.
    - apply Permutation_app_head. apply Permutation_app_head. rewrite <- map_app. apply Permutation_map. apply filter_partition_perm. }
  (* the specification's rows *)
  unfold attr_rows. cbv zeta. fold defs. unfold Infoset.attr_tokens. cbv zeta. fold sdefs.
  set (L1 := map (fun '(a0, v) => (a0, Infoset.TAttr true a0 (Infoset.type_norm (match find (fun d => W.str_eqb (fst (fst d)) a0) sdefs with Some (_, ty, _) => ty | None => W.ATCData end) (W.av_value F en v)))) (map x_att a)).
  set (L2 := map (fun '(a0, v) => (a0, Infoset.TAttr false a0 (Infoset.type_norm (match find (fun d => W.str_eqb (fst (fst d)) a0) sdefs with Some (_, ty, _) => ty | None => W.ATCData end) (W.av_value F en v)))) (W.defaulted_atts sub (d_qname n) (map x_att a))).
  assert (EL1 : L1 = map (srow sdefs true) (map x_att a)) by (unfold L1; apply map_ext; intros [a0 v]; reflexivity).
  assert (EL2 : L2 = map (srow sdefs false) (W.defaulted_atts sub (d_qname n) (map x_att a))) by (unfold L2; apply map_ext; intros [a0 v]; reflexivity).
  apply rows_sorted.
  - etransitivity; [apply Permutation_map; exact Hperm|].
    rewrite app_assoc, !map_app. apply Permutation_app.
    + (* specified *)
      unfold Nx, Sx. rewrite !map_map, <- map_app. etransitivity; [apply Permutation_map; apply filter_partition_perm|].
      rewrite EL1, map_map. clear - Hspec. induction Hspec as [|x x' l l' (E1 & _) _ IH]; [constructor|]. cbn [map]. rewrite E1. constructor. exact IH.
    + (* defaults *)
      rewrite EL2, !map_map. unfold W.defaulted_atts. fold sdefs. apply Permutation_refl'.
      assert (Hmem : forall d, In d defs -> is_value d = true ->
                (fun d0 => has_name Sx d0 || has_name Nx d0) d
                = W.mem (def_name d) (map fst (map x_att a))).
      { intros d Hd _. cbv beta. rewrite (Hgd0 d (Hgd d Hd)), map_map. reflexivity. }
      exact (defaults_rows defs sdefs _ _ HR defs sdefs HR Hmem).
  - (* distinct names *)
    rewrite map_app. apply RT.nodup_app.
    + rewrite EL1, !map_map. cbn [srow x_att fst]. fold att_nm. change (fun x => att_nm x) with att_nm. eapply built_names_nodup; [exact Ha|unfold build_attrs; exact Hat].
    + rewrite EL2, map_map. cbn [srow fst]. exact (proj1 (RT.defaulted_names sub (d_qname n) (map x_att a))).
    + intros x H1 H2. rewrite EL2, map_map in H2. cbn [srow fst] in H2. rewrite EL1, map_map in H1. cbn [srow fst] in H1.
      exact (proj2 (RT.defaulted_names sub (d_qname n) (map x_att a)) x H2 H1).
Qed.
End Rows.
