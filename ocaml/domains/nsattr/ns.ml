(* ns: abstract documents, one per line.
     doc <element>...                                  per-element dump
     q <test> <a0|a1> <binding>... <element>...        //T (a0) or //@T (a1) with caller bindings
   element (pre-order)  n<depth>/<qname>/<decl>,<decl>.../<attr>,<attr>...
   qname = <prefix>:<local>, decl = <prefix>=<uri>, binding = b<prefix>=<uri>   (code points joined by '.',
   an absent prefix or an empty uri is the empty string)
   test = t* | tp<prefix> | tn<prefix>:<local>
   attribute definition of the DTD (document order, before the elements)
     d/<element type qname>/D/<declared prefix>/<V|F|R|I>/<value>      xmlns / xmlns:p
     d/<element type qname>/A/<attribute qname>/<V|F|R|I>/<value>      an ordinary attribute
   Output: identical to harness/src/domains/ns.rs. *)
let ns_str (s : string) : n list =
  if s = "" then [] else List.map (fun x -> n_of_int (int_of_string x)) (String.split_on_char '.' s)
let ns_opt (s : string) : n list option = if s = "" then None else Some (ns_str s)
let ns_qname (s : string) : qname =
  match String.split_on_char ':' s with
  | [p; l] -> { qn_prefix = ns_opt p; qn_local = ns_str l }
  | _ -> failwith "qname"
let ns_split c s = if s = "" then [] else String.split_on_char c s
let ns_decl (s : string) =
  match String.split_on_char '=' s with
  | [p; u] -> (ns_opt p, ns_str u)
  | _ -> failwith "decl"
let ns_elem (w : string) : int * elem =
  match String.split_on_char '/' w with
  | [d; q; decls; attrs] ->
    (int_of_string (String.sub d 1 (String.length d - 1)),
     { el_name = ns_qname q; el_decls = List.map ns_decl (ns_split ',' decls);
       el_attrs = List.map ns_qname (ns_split ',' attrs) })
  | _ -> failwith "element"
(* pre-order list with depths -> tree *)
let ns_tree (ws : string list) : tree =
  let items = ref (List.map ns_elem ws) in
  let rec node () =
    match !items with
    | (d, e) :: rest ->
      items := rest;
      let kids = ref [] in
      let continue = ref true in
      while !continue do
        (match !items with
         | (d', _) :: _ when d' = d + 1 -> kids := node () :: !kids
         | _ -> continue := false)
      done;
      Node (e, List.rev !kids)
    | [] -> failwith "tree" in
  node ()
let ns_nsdef (w : string) : nsdef =
  match String.split_on_char '/' w with
  | [_; ty; k; n; dk; v] ->
    { nd_elem = ns_qname ty;
      nd_name = (match k with "D" -> ANDecl (ns_opt n) | "A" -> ANAttr (ns_qname n) | _ -> failwith "nsdef");
      nd_default = (match dk with "V" -> NDValue (ns_str v) | "F" -> NDFixed (ns_str v) | "R" -> NDRequired
                                | "I" -> NDImplied | _ -> failwith "nsdef") }
  | _ -> failwith "nsdef"
let ns_dtd (ws : string list) : nsdef list =
  List.map ns_nsdef (List.filter (fun w -> String.length w > 1 && w.[0] = 'd' && w.[1] = '/') ws)
let ns_elems (ws : string list) : string list = List.filter (fun w -> w.[0] = 'n') ws
let ns_enc_opt (u : n list option) : string = match u with None -> "~" | Some s -> enc s
let ns_qn_string (q : qname) : string =
  match q.qn_prefix with Some p -> ascii p ^ ":" ^ ascii q.qn_local | None -> ascii q.qn_local
let ns_qn_codes (q : qname) : n list =
  match q.qn_prefix with Some p -> p @ [n_of_int 58] @ q.qn_local | None -> q.qn_local
let ns_scope (l : (n list option * n list) list) : string =
  let l = List.map (fun (p, u) -> ((match p with Some p -> ascii p | None -> ""), ascii u, p, u)) l in
  let l = List.sort compare l in
  if l = [] then "-" else
    String.concat ";" (List.map (fun (_, _, p, u) -> enc (match p with Some p -> p | None -> []) ^ "=" ^ enc u) l)
(* rows: (local, dom uri, info uri, scope, [(qname, local, dom uri, info uri)]) *)
let ns_dump rows =
  String.concat "" ("ok" :: List.map (fun (l, du, iu, scope, attrs) ->
      let attrs = List.sort compare (List.map (fun (q, al, adu, aiu) ->
          (ns_qn_string q, Printf.sprintf "%s/%s/%s/%s" (enc (ns_qn_codes q)) (enc al) adu aiu)) attrs) in
      Printf.sprintf " E %s/%s/%s N %s A%s" (enc l) du iu (ns_scope scope)
        (String.concat "" (List.map (fun (_, r) -> " " ^ r) attrs))) rows)
let ns_test (s : string) : nametest =
  if s = "t*" then NTAny
  else if String.length s >= 2 && String.sub s 0 2 = "tp" then NTPrefixAny (ns_str (String.sub s 2 (String.length s - 2)))
  else if String.length s >= 2 && String.sub s 0 2 = "tn" then
    (match String.split_on_char ':' (String.sub s 2 (String.length s - 2)) with
     | [p; l] -> NTName (ns_opt p, ns_str l)
     | _ -> failwith "test")
  else failwith "test"
let rec ns_nat_int (k : nat) : int = match k with O -> 0 | S k -> 1 + ns_nat_int k
let ns_refs (r : noderef list option) : string =
  match r with
  | None -> "err"
  | Some l -> String.concat " " ("nodes" :: List.map (fun r -> match r with
      | RElem k -> Printf.sprintf "e%d" (ns_nat_int k)
      | RAttr (k, q) -> Printf.sprintf "a%d.%s" (ns_nat_int k) (enc (ns_qn_codes q))) l)
let ns_query (words : string list) =
  match words with
  | t :: a :: rest ->
    let bs = List.filter (fun w -> w.[0] = 'b') rest and es = List.filter (fun w -> w.[0] = 'n') rest in
    let bs = List.map (fun w -> match String.split_on_char '=' (String.sub w 1 (String.length w - 1)) with
        | [p; u] -> (ns_str p, ns_str u) | _ -> failwith "binding") bs in
    (bs, ns_test t, a = "a1", ns_dtd rest, ns_tree es)
  | _ -> failwith "query"
let () = register "ns" (fun words ->
    try
      match words with
      | "doc" :: es ->
        let dt = ns_dtd es in
        let t = ns_tree (ns_elems es) in
        ns_dump (List.map (fun o -> match o with
            | Some o ->
              let (l, du) = (match o.mo_dom with Some (l, u) -> (l, ns_enc_opt u) | None -> ([], "?")) in
              let iu = (match o.mo_info with Some (_, u) -> ns_enc_opt u | None -> "?") in
              (l, du, iu, o.mo_scope,
               List.map (fun ((q, (al, adu)), (_, aiu)) -> (q, al, ns_enc_opt adu, ns_enc_opt aiu)) o.mo_attrs)
            | None -> ([], "?", "?", [], [])) (model_ddoc dt t))
      | "q" :: rest ->
        let (bs, t, a, dt, d) = ns_query rest in
        ns_refs (model_dselect bs t a dt d)
      | _ -> "badinput"
    with Failure m -> "badinput " ^ m)
