(** * C03, the no-panic half: no step of the pipeline model returns [IPanic] / [OPanic].

    Everything is proved for every input (all strings, all parse models, all entity tables)
    by induction on the data; nothing is evaluated on samples.  The model proved about is the
    one of the repaired code ([pinned = false]); the witnesses that the code before the
    repairs panics are in Properties/C03.v. *)
From Coq Require Import List NArith Bool Lia.
From XmlRs Require Import Base.CPred Model.Peg Model.ParseActions Model.Info Model.Display.
Import ListNotations.

Definition np {A} (x : ires A) : Prop := forall p, x <> IPanic p.

Lemma np_ok {A} (a : A) : np (IOk a). Proof. intros p H; discriminate. Qed.
Lemma np_err {A} e : np (@IErr A e). Proof. intros p H; discriminate. Qed.
Lemma np_oof {A} : np (@IOof A). Proof. intros p H; discriminate. Qed.
#[export] Hint Resolve np_ok np_err np_oof : np.

Lemma np_bind {A B} (x : ires A) (f : A -> ires B) :
  np x -> (forall a, np (f a)) -> np (ibind x f).
Proof.
  intros Hx Hf. destruct x as [a|e|s|]; cbn [ibind]; auto with np.
  exfalso. exact (Hx s eq_refl).
Qed.

Lemma np_if {A} (b : bool) (x y : ires A) : np x -> np y -> np (if b then x else y).
Proof. destruct b; auto. Qed.

Lemma char_from_np num r : np (char_from num r).
Proof.
  unfold char_from. destruct (parse_u32 r num) as [n|]; auto with np.
  apply np_if; auto with np.
Qed.

Lemma lookup_entity2_np ents n : np (lookup_entity2 ents n).
Proof.
  unfold lookup_entity2. destruct (find _ ents); auto with np.
  destruct (predefined n); auto with np.
Qed.

Lemma lookup_entity_np ents n : np (lookup_entity ents n).
Proof. unfold lookup_entity. apply np_bind; [apply lookup_entity2_np|auto with np]. Qed.

Lemma replacement_text_np vs : np (replacement_text vs).
Proof.
  induction vs as [|v vs IH]; cbn [replacement_text]; auto with np.
  destruct v; try (apply np_bind; [exact IH|auto with np]).
  apply np_bind; [apply char_from_np|]. intros c. apply np_bind; [exact IH|auto with np].
Qed.

Section Check.
Variable rec : list (str * bool) -> entity -> bool -> ires (list (str * bool)).
Hypothesis rec_np : forall s e d, np (rec s e d).

Lemma check_value_np ents ext seen v : np (check_value rec ents ext seen v).
Proof.
  destruct v; cbn [check_value]; auto with np.
  - apply np_bind; [apply char_from_np|auto with np].
  - pose proof (lookup_entity2_np ents name) as H.
    destruct (lookup_entity2 ents name) as [[e' d']|er|p|]; auto with np.
    + apply np_bind; [apply rec_np|auto with np].
    + apply np_if; auto with np.
    + exfalso. exact (H p eq_refl).
Qed.

Lemma check_values_np ents ext attribute name vs : forall seen, np (check_values rec ents ext attribute name vs seen).
Proof.
  induction vs as [|v vs IH]; intros seen; cbn [check_values]; auto with np.
  apply np_bind; [apply check_value_np|]. intros x. apply np_if; auto with np.
Qed.
End Check.

Lemma check_entity_ref_np : forall fuel ents ext attribute seen e d, np (check_entity_ref fuel ents ext attribute seen e d).
Proof.
  induction fuel as [|f IH]; intros; cbn [check_entity_ref]; auto with np.
  apply np_if; auto with np. apply np_if; auto with np. apply np_if; auto with np.
  destruct (seen_get seen (en_name e)) as [[|]|]; auto with np.
  apply np_bind.
  - apply np_if; auto with np. apply np_bind; [apply replacement_text_np|]. intros t. apply np_if; auto with np.
  - intros _. apply np_bind; [|auto with np]. apply check_values_np. intros; apply IH.
Qed.

Lemma resolve_ref_np ents ext attribute name : np (resolve_ref ents ext attribute name).
Proof.
  unfold resolve_ref. apply np_bind; [apply lookup_entity2_np|]. intros x.
  apply np_bind; [apply check_entity_ref_np|auto with np].
Qed.

Lemma build_avalue_np ents ext v : np (build_avalue ents ext v).
Proof.
  destruct v as [[num r|name]|[|c s]]; cbn [build_avalue]; auto with np.
  - apply np_bind; [apply char_from_np|auto with np].
  - apply np_bind; [apply resolve_ref_np|auto with np].
Qed.

Lemma build_avalues_np ents ext l : np (build_avalues ents ext l).
Proof.
  induction l as [|v l IH]; cbn [build_avalues]; auto with np.
  apply np_bind; [apply build_avalue_np|]. intros a. apply np_bind; [exact IH|auto with np].
Qed.

Lemma build_attr_np ents ext a : np (build_attr ents ext a).
Proof.
  unfold build_attr. destruct (attribute_name (at_name a)) as [local prefix].
  apply np_bind; [apply build_avalues_np|auto with np].
Qed.

Lemma build_attrs_from_np ents ext l : forall before, np (build_attrs_from ents ext before l).
Proof.
  induction l as [|a l IH]; intros before; cbn [build_attrs_from]; auto with np.
  apply np_if; auto with np.
  apply np_bind; [apply build_attr_np|]. intros x. apply np_bind; [apply IH|auto with np].
Qed.

(** ** induction over the nested [element] type *)
Definition cells_all (P : element -> Prop) (cells : list cell) : Prop :=
  Forall (fun c : cell => match fst c with CsElement e' => P e' | _ => True end) cells.

Section ElementInd.
Variable P : element -> Prop.
Hypothesis H_none : forall n a, P (Element n a None).
Hypothesis H_some : forall n a h cells, cells_all P cells -> P (Element n a (Some (h, cells))).

Lemma element_ind2 : forall e, P e.
Proof.
  fix IH 1. intros [n a [[h cells]|]]; [apply H_some|apply H_none].
  induction cells as [|[ch t] l IHl]; constructor; [|exact IHl].
  cbn [fst]. destruct ch; try exact I. apply IH.
Qed.
End ElementInd.

Lemma build_child_np rec ents ext ch :
  (match ch with CsElement e' => np (rec e') | _ => True end) -> np (build_child rec ents ext ch).
Proof.
  destruct ch as [e'|[num r|name]|s|p|s]; cbn [build_child]; intros H; auto with np.
  - apply np_bind; [apply char_from_np|auto with np].
  - apply np_bind; [apply resolve_ref_np|auto with np].
Qed.

Lemma build_cells_np rec ents ext l :
  cells_all (fun e => np (rec e)) l -> np (build_cells rec ents ext l).
Proof.
  induction 1 as [|[ch t] l Hc Hl IH]; cbn [build_cells]; auto with np.
  apply np_bind; [apply build_child_np; exact Hc|]. intros it.
  apply np_bind; [exact IH|auto with np].
Qed.

Lemma build_element_np ents ext : forall e, np (build_element ents ext e).
Proof.
  apply element_ind2.
  - intros n a. cbn [build_element]. apply np_bind; [apply build_attrs_from_np|auto with np].
  - intros n a h cells H. cbn [build_element]. apply np_bind; [apply build_attrs_from_np|]. intros attrs'.
    apply np_bind; [apply build_cells_np; exact H|auto with np].
Qed.

Lemma check_entity_values_np l : np (check_entity_values l).
Proof.
  induction l as [|v l IH]; cbn [check_entity_values]; auto with np.
  destruct v as [s|s|[num r|n]]; auto with np.
  apply np_bind; [apply char_from_np|auto].
Qed.

Lemma build_attdefs_np acc xt l : np (build_attdefs acc xt l).
Proof.
  induction l as [|d l IH]; cbn [build_attdefs]; auto with np.
  apply np_bind; [|intros x; apply np_bind; [exact IH|auto with np]].
  unfold build_attdef. destruct (match ad_name d with DanAttr q => qname_parts q | DanNamespace a => attribute_name a end).
  apply np_bind; [|auto with np].
  destruct (ad_value d); auto with np. apply np_bind; [apply build_avalues_np|auto with np].
Qed.

Lemma build_subset_np xt l : forall acc, np (build_subset false xt acc l).
Proof.
  induction l as [|y l IH]; intros acc; cbn [build_subset]; auto with np.
  destruct y as [[d|d|[n d|n d]|d|p|s]|n|s]; auto with np;
    try (apply np_bind; [apply IH|auto with np]).
  - apply np_bind; [|intros a; apply np_bind; [apply IH|auto with np]].
    unfold build_attlist. apply np_bind; [apply build_attdefs_np|auto with np].
  - apply np_bind; [|intros _; apply np_bind; [apply IH|auto with np]].
    destruct d; cbn [check_entity_decl]; auto with np. apply check_entity_values_np.
Qed.

Lemma build_document_np d : np (build_document d).
Proof.
  unfold build_document, build_document_gen.
  apply np_bind.
  - destruct (pr_declaration_doc (d_prolog d)) as [dd|]; auto with np.
    apply np_bind; [|auto with np]. unfold build_doctype. apply np_bind; [apply build_subset_np|auto with np].
  - intros dt. apply np_bind; [apply build_element_np|auto with np].
Qed.

Theorem from_raw_no_panic s : forall p, from_raw s <> OPanic p.
Proof.
  intros p. unfold from_raw, from_raw_gen.
  destruct (parse_document s) as [[d rest]| | |]; try discriminate.
  pose proof (build_document_np d) as H. unfold build_document in H.
  destruct (build_document_gen false d) as [x|e|q|]; try discriminate.
  exfalso. exact (H q eq_refl).
Qed.

Lemma reparse_no_panic first text : forall p, reparse_of false first text <> RPanic p.
Proof.
  intros p. unfold reparse_of. pose proof (from_raw_no_panic text) as H. unfold from_raw in H.
  destruct (from_raw_gen false text) as [[rest d2]| |e|q|]; try discriminate.
  exfalso. exact (H q eq_refl).
Qed.

Theorem pipeline_no_panic_proof s : forall p, pipeline s <> OPanic p.
Proof.
  intros p. unfold pipeline, pipeline_gen.
  pose proof (from_raw_no_panic s) as H. unfold from_raw in H.
  destruct (from_raw_gen false s) as [[rest d]| |e|q|]; try discriminate.
  - pose proof (reparse_no_panic d (display_gen false d)) as H1.
    pose proof (reparse_no_panic d (pretty_gen false d)) as H2.
    destruct (reparse_of false d (display_gen false d)) as [| | q1| |]; try (exfalso; exact (H1 q1 eq_refl));
      destruct (reparse_of false d (pretty_gen false d)) as [| | q2| |]; try (exfalso; exact (H2 q2 eq_refl));
        discriminate.
  - exfalso. exact (H q eq_refl).
Qed.

(** entity expansion of the repaired code never panics either *)
Lemma expand_values_np rec ia vs : (forall n, np (rec n)) -> np (expand_values rec false ia vs).
Proof.
  intros Hr. induction vs as [|v vs IH]; cbn [expand_values]; auto with np.
  apply np_bind; [|intros a; apply np_bind; [exact IH|auto with np]].
  destruct v; cbn [expand_value]; auto with np.
  apply np_bind; [apply char_from_np|auto with np].
Qed.

Lemma expand_gen_np checked ia : forall fuel ents path name, np (expand_gen checked false ia fuel ents path name).
Proof.
  induction fuel as [|f IH]; intros; cbn [expand_gen]; auto with np.
  apply np_if; auto with np.
  apply np_bind; [apply lookup_entity_np|]. intros e. apply expand_values_np. intros n. apply IH.
Qed.

Theorem expand_no_panic ents name : forall p, expand ents name <> IPanic p.
Proof. apply expand_gen_np. Qed.
