(** * C05, round 2: values.

    - [sv_agrees]: the string-value of every tree node (document, element, attribute, text,
      comment, processing instruction) is the one of section 5;
    - [vrel]: what a model value denotes in the specification; the three conversions agree;
    - [sort_is_spec_list]: sorting a duplicate-free list of tree nodes by order key gives the
      increasing list with the same elements. *)
From Coq Require Import List NArith ZArith Bool Lia Sorting.Sorted Sorting.Permutation.
From Coq Require Import Floats.SpecFloat.
From XmlRs Require Import Base.CPred Base.NList Base.Float64.
From XmlRs Require Import Spec.XPathCore Model.XPathFuncs.
From XmlRs Require Import Model.XPathAst Model.XDoc Model.XPathScalar Model.XPathEval.
From XmlRs Require Import Spec.XPath10.
From XmlRs Require Import Proofs.XPathNav Proofs.XPathSort Proofs.XPathCanon
  Proofs.XPathRefine Proofs.XPathRefinePaths Proofs.XPathRefineTree Proofs.XPathRefineAxes
  Proofs.XPathFuncsNum Proofs.XPathRefineFloat.
Import ListNotations.
Open Scope N_scope.

Notation fvalid x := (valid_binary prec emax x = true).

Lemma nat_iter_succ_r {A} k (f : A -> A) x : Nat.iter (S k) f x = Nat.iter k f (f x).
Proof.
  induction k as [|k IH]; [reflexivity|].
  change (Nat.iter (S (S k)) f x) with (f (Nat.iter (S k) f x)). rewrite IH. reflexivity.
Qed.

(** the result of a model computation started in context [c] against the specification's answer:
    a value leaves the context unchanged and denotes the specification's value; everything else
    (error, panic, exhausted fuel) corresponds to the specification's error *)
Definition rrel {A B} (R : A -> B -> Prop) (c : ctx) (mr : res A * ctx) (so : option B) : Prop :=
  match mr with
  | (Ok a, c') => c' = c /\ exists b, so = Some b /\ R a b
  | (_, _) => so = None
  end.

Section Val.
Variable doc : xdoc.
Hypothesis Hinv : DocInv doc.
Hypothesis Hshape : SpecShape doc.
Let Hwf := inv_wf doc Hinv.

Notation xch := (xchildren doc).
Notation D := (desc doc).
Notation T := (T doc).
Let TV := T_valid doc Hinv Hshape.

(** ** string-values *)
Definition text_of (l : list N) : str :=
  concat (map (row_data doc) (filter (fun c => is_text_kind (kind doc c)) l)).

Lemma text_of_app a b : text_of (a ++ b) = text_of a ++ text_of b.
Proof. unfold text_of. rewrite filter_app, map_app, concat_app. reflexivity. Qed.

Lemma D_leaf c : valid doc c -> kind doc c <> KDocument -> kind doc c <> KElement -> D c = [].
Proof.
  intros Vc H1 H2. rewrite (D_eq doc Hinv c Vc).
  rewrite (xchildren_leaf doc c Vc); [reflexivity|]. intros [E|E]; contradiction.
Qed.

Definition is_elem (c : node) : bool := nkind_eqb (kind doc c) KElement.

(** the text below the document node is the text below its element child *)
Lemma doc_text (L : list node) e :
  (forall c, In c L -> valid doc c /\ doc_child_kind (kind doc c) = true) ->
  filter is_elem L = [e] ->
  find is_elem L = Some e /\
  text_of (flat_map (fun c => c :: D c) (not_doctype doc L)) = text_of (D e).
Proof.
  induction L as [|c t IH]; intros HL Hf; [discriminate|].
  destruct (HL c (or_introl eq_refl)) as [Vc Kc].
  assert (HLt : forall d, In d t -> valid doc d /\ doc_child_kind (kind doc d) = true) by (intros d Hd; apply HL; right; exact Hd).
  cbn [filter find] in *. unfold not_doctype. cbn [filter]. fold (not_doctype doc t).
  destruct (is_elem c) eqn:Ec.
  - inversion Hf as [[E1 E2]]. subst c. split; [reflexivity|].
    unfold is_elem in Ec. apply nkind_eqb_true in Ec. rewrite Ec. cbn [nkind_eqb negb flat_map].
    change (e :: D e ++ ?r) with ((e :: D e) ++ r). rewrite text_of_app.
    assert (Hrest : forall t', (forall d, In d t' -> valid doc d /\ doc_child_kind (kind doc d) = true) ->
                    filter is_elem t' = [] -> text_of (flat_map (fun c => c :: D c) (not_doctype doc t')) = []).
    { induction t' as [|d u IHu]; intros Hu Hfu; [reflexivity|].
      destruct (Hu d (or_introl eq_refl)) as [Vd Kd]. cbn [filter] in Hfu.
      destruct (is_elem d) eqn:Ed; [discriminate|]. unfold is_elem in Ed. apply nkind_eqb_false in Ed.
      unfold not_doctype. cbn [filter]. fold (not_doctype doc u).
      assert (IHu' : text_of (flat_map (fun c => c :: D c) (not_doctype doc u)) = [])
        by (apply IHu; [intros x Hx; apply Hu; right; exact Hx|exact Hfu]).
      destruct (nkind_eqb (kind doc d) KDocumentType) eqn:Edt; cbn [negb]; [exact IHu'|].
      cbn [flat_map]. rewrite (D_leaf d Vd); [|destruct (kind doc d); discriminate|exact Ed].
      cbn [app]. change (d :: ?r) with ([d] ++ r). rewrite text_of_app, IHu', app_nil_r.
      unfold text_of. cbn [filter]. destruct (kind doc d); try discriminate; reflexivity. }
    rewrite (Hrest t HLt E2), app_nil_r. unfold text_of. cbn [filter]. rewrite Ec. reflexivity.
  - destruct (IH HLt Hf) as [IH1 IH2]. split; [exact IH1|].
    unfold is_elem in Ec. apply nkind_eqb_false in Ec.
    destruct (nkind_eqb (kind doc c) KDocumentType) eqn:Edt; cbn [negb]; [exact IH2|].
    cbn [flat_map]. rewrite (D_leaf c Vc); [|destruct (kind doc c); discriminate|exact Ec].
    cbn [app]. change (c :: ?r) with ([c] ++ r). rewrite text_of_app, IH2.
    unfold text_of at 1. cbn [filter]. destruct (kind doc c); try discriminate; reflexivity.
Qed.

Theorem sv_agrees i : T i -> string_value doc i = Ok (s_string_value doc (Row i)).
Proof.
  intros Ti. pose proof (TV i Ti) as Vi.
  destruct (T_kind doc Hinv Hshape i Ti) as [[-> Kr]|[[Ka _]|[Ka [Kd [Hnav _]]]]].
  - (* the document node *)
    destruct (sh_doc_one doc Hshape) as [e He].
    assert (HL : forall c, In c (child_nodes doc doc_root) -> valid doc c /\ doc_child_kind (kind doc c) = true).
    { intros c Hc. split; [apply (wf_children doc Hwf doc_root c Vi Hc)|apply (sh_doc_children doc Hshape c Hc)]. }
    destruct (doc_text (child_nodes doc doc_root) e HL He) as [Hfind Htext].
    assert (Hee : In e (child_nodes doc doc_root) /\ kind doc e = KElement).
    { apply find_some in Hfind. destruct Hfind as [H1 H2]. split; [exact H1|apply nkind_eqb_true; exact H2]. }
    destruct Hee as [Hein Ke]. destruct (wf_children doc Hwf doc_root e Vi Hein) as [Ve Hlt].
    unfold string_value, nav_fuel. cbn [string_value_fuel]. rewrite Kr. fold is_elem. rewrite Hfind.
    rewrite (string_value_fuel_agrees doc Hinv Hshape (length doc) e Ve Ke) by (unfold valid in Ve; unfold doc_root in Hlt; lia).
    f_equal. unfold s_string_value. rewrite Kr.
    change (concat (map (row_data doc) (filter (fun c => is_text_kind (kind doc c)) (D doc_root)))) with (text_of (D doc_root)).
    rewrite (D_eq doc Hinv doc_root Vi).
    assert (Ex : xch doc_root = not_doctype doc (child_nodes doc doc_root)) by (unfold xchildren; rewrite Kr; reflexivity).
    rewrite Ex, Htext. unfold spec_text, text_of, desc, fuel0.
    rewrite (desc_fuel_irrel doc Hinv (length doc) (S (length doc)) e Ve) by (unfold valid in Ve; unfold doc_root in Hlt; lia).
    reflexivity.
  - apply (string_value_leaf_agrees doc Hinv i Vi); try (rewrite Ka; discriminate).
    intros [E|E]; rewrite Ka in E; discriminate.
  - destruct (kind doc i) eqn:Ek; try discriminate Hnav; try contradiction.
    + apply (string_value_agrees doc Hinv Hshape i Vi Ek).
    + apply (string_value_leaf_agrees doc Hinv i Vi); try (rewrite Ek; discriminate). intros [E|E]; rewrite Ek in E; discriminate.
    + apply (string_value_leaf_agrees doc Hinv i Vi); try (rewrite Ek; discriminate). intros [E|E]; rewrite Ek in E; discriminate.
    + (* entity reference *)
      unfold string_value, nav_fuel. cbn [string_value_fuel]. rewrite Ek. unfold s_string_value. rewrite Ek.
      unfold row_data. rewrite (sh_refs doc Hshape i Vi Ek). reflexivity.
    + apply (string_value_leaf_agrees doc Hinv i Vi); try (rewrite Ek; discriminate). intros [E|E]; rewrite Ek in E; discriminate.
    + apply (string_value_leaf_agrees doc Hinv i Vi); try (rewrite Ek; discriminate). intros [E|E]; rewrite Ek in E; discriminate.
    + (* the document type is not a tree node *)
      exfalso. destruct (T_kind doc Hinv Hshape i Ti) as [[_ Kr]|[[Ka' _]|[_ [_ [_ [p [Tp Hp]]]]]]].
      * rewrite Ek in Kr. discriminate.
      * rewrite Ek in Ka'. discriminate.
      * destruct (xch_kind doc Hshape p i (TV p Tp) Hp) as [_ [_ [Hd _]]]. apply Hd. exact Ek.
    + apply (string_value_leaf_agrees doc Hinv i Vi); try (rewrite Ek; discriminate). intros [E|E]; rewrite Ek in E; discriminate.
Qed.

(** ** the value relation *)
Definition vrel (v : xvalue) (sv : sval) : Prop :=
  match v, sv with
  | XBool b, SBool b' => b = b'
  | XNum x, SNum x' => x = x' /\ fvalid x
  | XText s, SStr s' => s = s'
  | XNodes l, SNodes l' => l' = map Row l /\ inc l /\ Forall T l
  | _, _ => False
  end.

Definition ssv (n : snode) : str := s_string_value doc n.

Lemma to_core_nodes l : to_core doc (SNodes (map Row l)) = VNodes (map (fun i => ssv (Row i)) l).
Proof. cbn [to_core]. rewrite map_map. reflexivity. Qed.

Lemma val_to_bool_agrees v sv : vrel v sv -> val_to_bool v = s_boolean doc sv.
Proof.
  destruct v as [b|l|x|s], sv as [b'|x'|s'|l']; cbn [vrel]; try contradiction.
  - intros ->. reflexivity.
  - intros [-> _]. unfold s_boolean. rewrite to_core_nodes. destruct l; reflexivity.
  - intros [-> _]. cbn [val_to_bool]. apply to_bool_refines.
  - intros ->. cbn [val_to_bool]. apply to_bool_refines.
Qed.

Lemma str_to_number_spec s : str_to_number s = xp_string_to_number s.
Proof. apply string_to_number_refines. Qed.

Lemma val_to_number_agrees v sv : vrel v sv -> val_to_number doc v = Ok (s_number doc sv).
Proof.
  destruct v as [b|l|x|s], sv as [b'|x'|s'|l']; cbn [vrel]; try contradiction.
  - intros ->. cbn [val_to_number]. f_equal; try apply to_number_refines.
  - intros [-> [_ Ht]]. unfold s_number. rewrite to_core_nodes. cbn [val_to_number val_to_string].
    destruct l as [|i t]; cbn [bind map xp_number]; [f_equal; apply str_to_number_spec|].
    inversion Ht as [|i' t' Ti _]; subst. rewrite (sv_agrees i Ti). cbn [bind]. f_equal. apply str_to_number_spec.
  - intros [-> _]. reflexivity.
  - intros ->. cbn [val_to_number]. f_equal. apply str_to_number_spec.
Qed.

Lemma s_number_valid sv v : vrel v sv -> fvalid (s_number doc sv).
Proof.
  destruct v as [b|l|x|s], sv as [b'|x'|s'|l']; cbn [vrel]; try contradiction; unfold s_number; cbn [to_core xp_number].
  - intros _. destruct b'; reflexivity.
  - intros _. apply valid_xp_string_to_number.
  - intros [-> H]. exact H.
  - intros _. apply valid_xp_string_to_number.
Qed.

Definition not_negzero (v : xvalue) : Prop :=
  match v with XNum (S754_zero true) => False | _ => True end.

Lemma val_to_string_agrees v sv : vrel v sv -> not_negzero v -> val_to_string doc v = Ok (s_string doc sv).
Proof.
  destruct v as [b|l|x|s], sv as [b'|x'|s'|l']; cbn [vrel]; try contradiction.
  - intros -> _. reflexivity.
  - intros [-> [_ Ht]] _. unfold s_string. rewrite to_core_nodes. cbn [val_to_string].
    destruct l as [|i t]; cbn [map xp_string]; [reflexivity|].
    inversion Ht as [|i' t' Ti _]; subst. apply (sv_agrees i Ti).
  - intros [-> _] Hn. cbn [val_to_string]. f_equal. apply (to_string_refines (VNum x')).
    cbn [is_negzero]. destruct x' as [[|]| | |]; try reflexivity. destruct Hn.
  - intros -> _. reflexivity.
Qed.

(** ** arithmetic *)
Definition arith_fn (o : binop) : f64 -> f64 -> f64 :=
  match o with
  | OAdd => f64_add | OSub => f64_sub | OMul => f64_mul | ODiv => f64_div | OMod => f64_rem
  | _ => fun x _ => x
  end.

Definition is_arith (o : binop) : bool :=
  match o with OAdd | OSub | OMul | ODiv | OMod => true | _ => false end.

Lemma arith_agrees o a b sa sb : is_arith o = true -> vrel a sa -> vrel b sb ->
  exists r sr, arith doc (arith_fn o) a b = Ok r /\ s_arith doc o sa sb = Some sr /\ vrel r sr.
Proof.
  intros Ho Ha Hb. unfold arith, s_arith.
  rewrite (val_to_number_agrees a sa Ha), (val_to_number_agrees b sb Hb). cbn [unwrap_num bind].
  pose proof (s_number_valid sa a Ha) as Va. pose proof (s_number_valid sb b Hb) as Vb.
  destruct o; try discriminate Ho; cbn [spec_op is_vnodes orb xp_number arith_fn of_core];
    eexists _, _; (split; [reflexivity|split; [reflexivity|]]); cbn [vrel]; (split; [reflexivity|]).
  - apply valid_f64_add; assumption.
  - apply valid_f64_sub; assumption.
  - apply valid_f64_mul; assumption.
  - apply valid_f64_div; assumption.
  - apply valid_f64_rem; assumption.
Qed.

Lemma neg_agrees k : forall a sa, vrel a sa ->
  exists r, neg_times doc k a = Ok r /\
            vrel r (Nat.iter k (fun w => SNum (f64_neg (s_number doc w))) sa).
Proof.
  induction k as [|k IH]; intros a sa Ha.
  - exists a. split; [reflexivity|exact Ha].
  - cbn [neg_times]. rewrite nat_iter_succ_r. unfold neg_value.
    rewrite (val_to_number_agrees a sa Ha). cbn [unwrap_num bind].
    apply IH. cbn [vrel]. split; [reflexivity|]. apply valid_f64_neg. apply (s_number_valid sa a Ha).
Qed.

(** ** sorting by order key *)
Lemma T_good_list l : Forall T l -> Forall (good doc) l.
Proof. intros H. eapply Forall_impl; [|exact H]. intros x. apply (T_good doc Hinv Hshape). Qed.

Theorem sort_is_spec_list l l' :
  NoDup l -> Forall T l -> inc l' -> (forall x, In x l' <-> In x l) -> sort_by_key doc l = l'.
Proof.
  intros Hnd Ht Hinc Hin.
  assert (Hg : Forall (good doc) (sort_by_key doc l)).
  { apply Forall_forall. intros x Hx. apply (proj1 (sort_in doc x l)) in Hx. pose proof (T_good_list l Ht) as H.
    rewrite Forall_forall in H. apply H. exact Hx. }
  apply lt_sorted_unique; [| exact Hinc |].
  - apply (sorted_key_to_doc doc Hinv _ Hg). apply sorted_strict; [apply sort_sorted|].
    assert (Hnd' : NoDup (sort_by_key doc l)) by (eapply Permutation_NoDup; [apply sort_perm|exact Hnd]).
    pose proof (good_key_inj doc Hinv _ Hg) as Hinj.
    clear -Hnd' Hinj. induction (sort_by_key doc l) as [|x t IH]; cbn [map]; [constructor|].
    inversion Hnd' as [|x' t' Hx Ht]; subst. constructor.
    + intros Hin. apply in_map_iff in Hin. destruct Hin as [y [Ey Hy]]. apply Hx.
      assert (y = x) by (apply Hinj; [right; exact Hy|left; reflexivity|exact Ey]). subst. exact Hy.
    + apply IH; [exact Ht|]. intros a b Ha Hb. apply Hinj; right; assumption.
  - intros x. rewrite (sort_in doc), Hin. reflexivity.
Qed.

End Val.
