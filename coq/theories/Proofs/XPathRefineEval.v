(** * C05: the evaluator model refines the XPath 1.0 specification, for all supported expressions.

    [refine_all]: mutual induction over the abstract syntax.  For every syntactic category the
    model's function, started at a tree node [n] in a context [c] whose bindings are [ns] (no
    default binding), against the specification's function at [Row n] with the context position
    and size that are on top of the model's stacks: a value leaves the context unchanged and
    denotes the specification's value, an error (or panic, or exhausted fuel) corresponds to the
    specification's error ([rrel]).  [eval_refines_spec_lemma] is the statement for whole queries. *)
From Coq Require Import List NArith ZArith Bool Lia Sorting.Sorted Sorting.Permutation.
From Coq Require Import Floats.SpecFloat.
From XmlRs Require Import Base.CPred Base.NList Base.Float64.
From XmlRs Require Import Spec.XPathCore Model.XPathFuncs.
From XmlRs Require Import Model.XPathAst Model.XDoc Model.XPathScalar Model.XPathEval.
From XmlRs Require Import Spec.XPath10.
From XmlRs Require Import Proofs.XPathEvalEqs Proofs.XPathNav Proofs.XPathSort Proofs.XPathAstPred Proofs.XPathCanon
  Proofs.XPathCtx Proofs.XPathRefine Proofs.XPathRefinePaths Proofs.XPathRefineTree Proofs.XPathRefineAxes
  Proofs.XPathRefineVal Proofs.XPathRefineCmp Proofs.XPathRefineFn Proofs.XPathRefineSupp Proofs.XPathRefineNz
  Proofs.XPathRefineSpecEqs Proofs.XPathRefineLemmas Proofs.XPathFuncsNum Proofs.XPathRefineFloat.
Import ListNotations.
Open Scope N_scope.

Section Eval.
Variable doc : xdoc.
Hypothesis Hinv : DocInv doc.
Hypothesis Hshape : SpecShape doc.
Hypothesis Hnames : NamesOk doc.
Variable ns : list (option str * str).
Hypothesis no_default : ns_lookup ns None = None.

Notation T := (T doc).
Notation D := (desc doc).
Notation V := (vrel doc).
Notation steprel := (steprel doc).
Notation setrel := (setrel doc).
Notation prel := (prel doc).
Notation gp := get_position.
Notation gs := get_size.
Let TV := T_valid doc Hinv Hshape.

Definition cok (c : ctx) : Prop := c_ns c = ns.

(** accumulated operands of a union: the model's list and the specification's have the same elements *)
Definition arel (acc : list node) (accs : list snode) : Prop :=
  Forall T acc /\ exists la, accs = map Row la /\ (forall x, In x la <-> In x acc).

Definition R_or (e : or_expr) := sup_or ns e = true -> forall n c, T n -> cok c ->
  rrel V c (eval_or_expr doc e n c) (s_or doc ns e (Row n) (gp c) (gs c)).
Definition R_and_list (l : and_list) := sup_and_list ns l = true -> forall op1 acc n c, V op1 acc -> T n -> cok c ->
  rrel V c (eval_or_rest doc l op1 n c) (s_or_rest doc ns l acc (Row n) (gp c) (gs c)).
Definition R_and (e : and_expr) := sup_and ns e = true -> forall n c, T n -> cok c ->
  rrel V c (eval_and_expr doc e n c) (s_and doc ns e (Row n) (gp c) (gs c)).
Definition R_eq_list (l : eq_list) := sup_eq_list ns l = true -> forall op1 acc n c, V op1 acc -> T n -> cok c ->
  rrel V c (eval_and_rest doc l op1 n c) (s_and_rest doc ns l acc (Row n) (gp c) (gs c)).
Definition R_eq (e : eq_expr) := sup_eq ns e = true -> forall n c, T n -> cok c ->
  rrel V c (eval_eq_expr doc e n c) (s_eq doc ns e (Row n) (gp c) (gs c)).
Definition R_eqop_list (l : eqop_list) := sup_eqop_list ns l = true -> forall op1 acc n c, V op1 acc -> T n -> cok c ->
  rrel V c (eval_eq_ops doc l op1 n c) (s_eq_ops doc ns l acc (Row n) (gp c) (gs c)).
Definition R_rel (e : rel_expr) := sup_rel ns e = true -> forall n c, T n -> cok c ->
  rrel V c (eval_rel_expr doc e n c) (s_rel doc ns e (Row n) (gp c) (gs c)).
Definition R_relop_list (l : relop_list) := sup_relop_list ns l = true -> forall op1 acc n c, V op1 acc -> T n -> cok c ->
  rrel V c (eval_rel_ops doc l op1 n c) (s_rel_ops doc ns l acc (Row n) (gp c) (gs c)).
Definition R_add (e : add_expr) := sup_add ns e = true -> forall n c, T n -> cok c ->
  rrel V c (eval_add_expr doc e n c) (s_add doc ns e (Row n) (gp c) (gs c)).
Definition R_addop_list (l : addop_list) := sup_addop_list ns l = true -> forall op1 acc n c, V op1 acc -> T n -> cok c ->
  rrel V c (eval_add_ops doc l op1 n c) (s_add_ops doc ns l acc (Row n) (gp c) (gs c)).
Definition R_mul (e : mul_expr) := sup_mul ns e = true -> forall n c, T n -> cok c ->
  rrel V c (eval_mul_expr doc e n c) (s_mul doc ns e (Row n) (gp c) (gs c)).
Definition R_mulop_list (l : mulop_list) := sup_mulop_list ns l = true -> forall op1 acc n c, V op1 acc -> T n -> cok c ->
  rrel V c (eval_mul_ops doc l op1 n c) (s_mul_ops doc ns l acc (Row n) (gp c) (gs c)).
Definition R_unary (e : unary_expr) := sup_unary ns e = true -> forall n c, T n -> cok c ->
  rrel V c (eval_unary_expr doc e n c) (s_unary doc ns e (Row n) (gp c) (gs c)).
Definition R_union (e : union_expr) := sup_union ns e = true -> forall n c, T n -> cok c ->
  rrel V c (eval_union_expr doc e n c) (s_union doc ns e (Row n) (gp c) (gs c)).
Definition R_path_list (l : path_list) := sup_path_list ns l = true ->
  (forall acc accs n c, arel acc accs -> T n -> cok c ->
     rrel V c (eval_union_rest doc l acc n c) (s_union_rest doc ns l accs (Row n) (gp c) (gs c))) /\
  (forall n c, T n -> cok c ->
     rrel V c (eval_union_expr doc (EUnion l) n c) (s_union doc ns (EUnion l) (Row n) (gp c) (gs c))).
Definition R_path (e : path_expr) := sup_path ns e = true -> forall n c, T n -> cok c ->
  rrel prel c (eval_path_expr doc e n c) (s_path doc ns e (Row n) (gp c) (gs c)).
Definition R_filter (e : filter_expr) := sup_filter ns e = true -> forall n c, T n -> cok c ->
  rrel V c (eval_filter_expr doc e n c) (s_filter doc ns e (Row n) (gp c) (gs c)).
Definition R_primary (e : primary_expr) := sup_primary ns e = true -> forall n c, T n -> cok c ->
  rrel V c (eval_primary_expr doc e n c) (s_primary doc ns e (Row n) (gp c) (gs c)).
Definition R_expr_list (l : expr_list) := sup_expr_list ns l = true ->
  (forall n c, T n -> cok c ->
     rrel (Forall2 V) c (eval_args doc l n c) (s_args doc ns l (Row n) (gp c) (gs c))) /\
  (forall (nodes : list node) c, Forall T nodes -> cok c ->
     rrel (predrel nodes) c (eval_predicates doc l nodes c) (s_preds doc ns l (map Row nodes))).
Definition R_rel_path (l : rel_path) := sup_rel_path ns l = true -> forall (nodes lc : list node) c,
  Forall T nodes -> (forall x, In x lc <-> In x nodes) -> cok c ->
  rrel setrel c (flat_map_m (eval_rel_path doc l) nodes c) (s_rel_path doc ns l (map Row lc)).
Definition R_stepop_list (l : stepop_list) := sup_stepop_list ns l = true ->
  (forall (nodes : list node) c, Forall T nodes -> cok c ->
     rrel setrel c (eval_stepops doc l nodes c) (s_stepops doc ns l (map Row (n_nodeset nodes)))) /\
  (* the operations distribute over a cover of the start list (the model de-duplicates after every
     step, so only as sets) *)
  (forall (l0 l1 l2 : list node) c, Forall T l0 -> Forall T l1 -> Forall T l2 -> cok c ->
     (forall x, In x l0 <-> In x l1 \/ In x l2) ->
     distr (okv (eval_stepops doc l l0) c) (okv (eval_stepops doc l l1) c) (okv (eval_stepops doc l l2) c)).
Definition R_step (s : step) := sup_step ns s = true -> forall n c, T n -> cok c ->
  rrel steprel c (eval_step doc s n c) (s_step doc ns s (Row n)).

Lemma andb_split a b : a && b = true -> a = true /\ b = true.
Proof. apply andb_prop. Qed.

(** the start list of [//] *)
Lemma dslash_rel (nodes : list node) : Forall T nodes ->
  flat_map_res (descendant_and_self doc) nodes = Ok (flat_map (fun s => s :: D s) nodes) /\
  Forall T (flat_map (fun s => s :: D s) nodes).
Proof.
  intros Ht. split; [apply (das_list_exact doc Hinv Hshape nodes Ht)|].
  apply Forall_forall. intros x Hx. apply in_flat_map in Hx. destruct Hx as [s [Hs Hx]].
  rewrite Forall_forall in Ht. specialize (Ht s Hs). destruct Hx as [<-|Hx]; [exact Ht|apply (D_T doc Hinv Hshape s x Ht Hx)].
Qed.

Lemma spec_dslash_rows l :
  flat_map (fun x => x :: s_descendants doc x) (map Row l) = map Row (flat_map (fun s => s :: D s) l).
Proof. induction l as [|i t IH]; cbn [flat_map map]; [reflexivity|]. rewrite IH, map_app. reflexivity. Qed.

(** the start list of a step operation: the model's and the specification's have the same elements *)
Lemma from_agree op (nodes : list node) : Forall T nodes ->
  exists from lc,
    match op with
    | LpCurrent => Ok nodes
    | LpDescendantOrSelfNode => flat_map_res (descendant_and_self doc) nodes
    end = Ok from /\ Forall T from /\
    match op with
    | LpCurrent => map Row (n_nodeset nodes)
    | LpDescendantOrSelfNode => nodeset doc (flat_map (fun x => x :: s_descendants doc x) (map Row (n_nodeset nodes)))
    end = map Row lc /\ (forall x, In x lc <-> In x from).
Proof.
  intros Ht. destruct op.
  - exists nodes, (n_nodeset nodes). split; [reflexivity|]. split; [exact Ht|]. split; [reflexivity|]. intros x. apply n_nodeset_in.
  - destruct (dslash_rel nodes Ht) as [E Hf].
    exists (flat_map (fun s => s :: D s) nodes), (n_nodeset (flat_map (fun s => s :: D s) (n_nodeset nodes))).
    split; [exact E|]. split; [exact Hf|]. split; [rewrite spec_dslash_rows; apply (nodeset_rows doc)|].
    intros x. rewrite n_nodeset_in, !in_flat_map. split; intros [s [Hs Hx]]; exists s; (split; [apply n_nodeset_in; exact Hs|exact Hx]) || (split; [apply (proj1 (n_nodeset_in s nodes)); exact Hs|exact Hx]).
Qed.

(** the start list of a step operation, explicitly *)
Definition from_list (op : lp_op) (nodes : list node) : list node :=
  match op with LpCurrent => nodes | LpDescendantOrSelfNode => flat_map (fun s => s :: D s) nodes end.

Lemma from_model op (nodes : list node) : Forall T nodes ->
  match op with
  | LpCurrent => Ok nodes
  | LpDescendantOrSelfNode => flat_map_res (descendant_and_self doc) nodes
  end = Ok (from_list op nodes) /\ Forall T (from_list op nodes).
Proof.
  intros Ht. destruct op; cbn [from_list]; [split; [reflexivity|exact Ht]|apply dslash_rel; exact Ht].
Qed.

Lemma from_list_cover op (l0 l1 l2 : list node) : (forall x, In x l0 <-> In x l1 \/ In x l2) ->
  forall x, In x (from_list op l0) <-> In x (from_list op l1) \/ In x (from_list op l2).
Proof.
  intros H x. destruct op; cbn [from_list]; [apply H|]. rewrite !in_flat_map. split.
  - intros [w [Hw Hx]]. apply H in Hw. destruct Hw as [Hw|Hw]; [left|right]; exists w; split; assumption.
  - intros [[w [Hw Hx]]|[w [Hw Hx]]]; exists w; (split; [apply H; auto|exact Hx]).
Qed.

(** the step loop over tree nodes, in the option view *)
Lemma step_loop_T s (nodes : list node) c : R_step s -> sup_step ns s = true -> Forall T nodes -> cok c ->
  match okv (flat_map_m (eval_step doc s) nodes) c with Some coll => Forall T coll | None => True end.
Proof.
  intros Hs S1 Ht Hc.
  pose proof (flat_map_m_steps doc (eval_step doc s) (s_step doc ns s) c nodes) as H.
  assert (Hn : forall n, In n nodes -> rrel steprel c (eval_step doc s n c) (s_step doc ns s (Row n))).
  { intros n Hn. rewrite Forall_forall in Ht. apply (Hs S1 n c (Ht n Hn) Hc). }
  specialize (H Hn). apply okv_rrel in H. destruct (okv (flat_map_m (eval_step doc s) nodes) c); [|exact I].
  destruct H as [rs [_ [_ Hr]]]. exact Hr.
Qed.

(** a relative path from a start list against "all first steps, then the operations on what they
    collected": defined together, the same elements *)
Lemma rel_path_split_set s ops : R_step s -> sup_step ns s = true -> R_stepop_list ops -> sup_stepop_list ns ops = true ->
  forall (nodes : list node) c, Forall T nodes -> cok c ->
  match okv (flat_map_m (eval_rel_path doc (ERelPath s ops)) nodes) c,
        obind (okv (flat_map_m (eval_step doc s) nodes) c) (fun coll => okv (eval_stepops doc ops coll) c) with
  | Some r, Some r' => forall x, In x r <-> In x r'
  | None, None => True
  | _, _ => False
  end.
Proof.
  intros Hs S1 Hops S2 nodes c Ht Hc. destruct (Hops S2) as [_ HB].
  assert (Hstep : forall x, restores (eval_step doc s x)) by (intros x; apply restores_all_step).
  assert (Hrp : forall x, restores (eval_rel_path doc (ERelPath s ops) x)) by (intros x; apply restores_all_rel_path).
  induction nodes as [|n t IH].
  - change (okv (flat_map_m (eval_rel_path doc (ERelPath s ops)) []) c) with (Some (@nil node)).
    change (okv (flat_map_m (eval_step doc s) []) c) with (Some (@nil node)). cbn [obind].
    rewrite stepops_empty. intros x. reflexivity.
  - inversion Ht as [|n' t' Tn Tt]; subst. specialize (IH Tt).
    rewrite (okv_flat_map_m_cons _ n t c Hrp), (okv_flat_map_m_cons _ n t c Hstep).
    rewrite eval_rel_path_eq, okv_bind by apply Hstep.
    pose proof (step_loop_T s [n] c Hs S1 (Forall_cons _ Tn (Forall_nil _)) Hc) as Hrn.
    rewrite (okv_flat_map_m_cons _ n [] c Hstep) in Hrn.
    change (okv (flat_map_m (eval_step doc s) []) c) with (Some (@nil node)) in Hrn.
    pose proof (step_loop_T s t c Hs S1 Tt Hc) as Hb.
    destruct (okv (eval_step doc s n) c) as [rn|]; cbn [obind] in *; [|exact I].
    rewrite app_nil_r in Hrn.
    destruct (okv (flat_map_m (eval_step doc s) t) c) as [b|]; cbn [obind] in *.
    + assert (Hcover : forall x, In x (rn ++ b) <-> In x rn \/ In x b) by (intros x; apply in_app_iff).
      pose proof (HB (rn ++ b) rn b c (proj2 (Forall_app _ _ _) (conj Hrn Hb)) Hrn Hb Hc Hcover) as Hd. unfold distr in Hd.
      destruct (okv (eval_stepops doc ops (rn ++ b)) c) as [r|].
      * destruct Hd as [r1 [r2 [E1 [E2 Hr]]]]. rewrite E1. cbn [obind]. rewrite E2 in IH.
        destruct (okv (flat_map_m (eval_rel_path doc (ERelPath s ops)) t) c) as [r2'|]; [|destruct IH]. cbn [obind].
        intros x. rewrite in_app_iff, Hr, IH. reflexivity.
      * destruct Hd as [E|E].
        -- rewrite E. exact I.
        -- rewrite E in IH. destruct (okv (flat_map_m (eval_rel_path doc (ERelPath s ops)) t) c); [destruct IH|].
           destruct (okv (eval_stepops doc ops rn) c); exact I.
    + destruct (okv (flat_map_m (eval_rel_path doc (ERelPath s ops)) t) c); [destruct IH|].
      destruct (okv (eval_stepops doc ops rn) c); exact I.
Qed.

(** a relative path from a start list, given its first step and its operations *)
Lemma rel_path_agrees s ops : R_step s -> R_stepop_list ops -> R_rel_path (ERelPath s ops).
Proof.
  intros Hs Hops Hsup nodes lc c Ht Hlc Hc. cbn [sup_rel_path] in Hsup. apply andb_split in Hsup. destruct Hsup as [S1 S2].
  rewrite s_rel_path_eq'.
  assert (Hloop : rrel setrel c (flat_map_m (eval_step doc s) nodes c)
                    (match opt_flat_map (s_step doc ns s) (map Row lc) with Some r => Some (nodeset doc r) | None => None end)).
  { apply (step_loop_agrees doc (eval_step doc s) (s_step doc ns s) c nodes lc); [|exact Hlc].
    intros n Hn. rewrite Forall_forall in Ht. apply (Hs S1 n c (Ht n Hn) Hc). }
  apply rrel_okv; [apply restores_flat_map_m; intros x; apply restores_all_rel_path|].
  pose proof (rel_path_split_set s ops Hs S1 Hops S2 nodes c Ht Hc) as Hsplit. apply okv_rrel in Hloop.
  destruct (Hops S2) as [HA _].
  destruct (okv (flat_map_m (eval_step doc s) nodes) c) as [coll|]; cbn [obind] in Hsplit.
  - destruct Hloop as [rs [Ers [Hcoll ->]]].
    destruct (opt_flat_map (s_step doc ns s) (map Row lc)) as [r0|]; [|discriminate]. inversion Ers as [Er]. rewrite Er.
    pose proof (okv_rrel _ _ _ _ (HA coll c Hcoll Hc)) as H2.
    destruct (okv (eval_stepops doc ops coll) c) as [r'|].
    + destruct H2 as [rs' [Ers' [Hr' ->]]].
      destruct (okv (flat_map_m (eval_rel_path doc (ERelPath s ops)) nodes) c) as [r|]; [|destruct Hsplit].
      exists (map Row (n_nodeset r')). split; [exact Ers'|]. split.
      * apply Forall_forall. intros x Hx. rewrite Forall_forall in Hr'. apply Hr'. apply Hsplit. exact Hx.
      * f_equal. apply n_nodeset_same. intros x. symmetry. apply Hsplit.
    + destruct (okv (flat_map_m (eval_rel_path doc (ERelPath s ops)) nodes) c); [destruct Hsplit|exact H2].
  - destruct (okv (flat_map_m (eval_rel_path doc (ERelPath s ops)) nodes) c); [destruct Hsplit|].
    destruct (opt_flat_map (s_step doc ns s) (map Row lc)); [discriminate|reflexivity].
Qed.

Lemma cok_push_position k c : cok c -> cok (push_position k c).
Proof. intros H. exact H. Qed.
Lemma cok_push_size k c : cok c -> cok (push_size k c).
Proof. intros H. exact H. Qed.

(** one predicate applied to a candidate list *)
Lemma predicate_agrees p (nodes : list node) c : R_or p -> sup_or ns p = true -> Forall T nodes -> cok c ->
  rrel (predrel nodes) c
    (match pred_loop (predicate_of (eval_or_expr doc p)) nodes 1 (push_size (len nodes) c) with
     | (Ok filtered, c1) => (Ok filtered, pop_size c1)
     | other => other
     end)
    (pred_filter (fun x ps sz => match s_or doc ns p x ps sz with
                                 | Some v => Some (pred_truth doc v ps)
                                 | None => None end)
                 (map Row nodes) 1 (N.of_nat (length (map Row nodes)))).
Proof.
  intros Hp Sp Ht Hc.
  pose proof (pred_loop_agrees doc (eval_or_expr doc p) (s_or doc ns p) nodes 1 (push_size (len nodes) c)) as H.
  assert (Hsz : gs (push_size (len nodes) c) = N.of_nat (length (map Row nodes))).
  { unfold get_size, push_size. cbn [c_size hd]. rewrite map_length. apply len_length. }
  rewrite Hsz in H.
  assert (Hev : forall n j, In n nodes ->
            rrel V (push_position j (push_size (len nodes) c))
                 (eval_or_expr doc p n (push_position j (push_size (len nodes) c)))
                 (s_or doc ns p (Row n) j (N.of_nat (length (map Row nodes))))).
  { intros n j Hn. rewrite Forall_forall in Ht.
    pose proof (Hp Sp n (push_position j (push_size (len nodes) c)) (Ht n Hn) Hc) as H0.
    assert (E1 : gp (push_position j (push_size (len nodes) c)) = j) by reflexivity.
    assert (E2 : gs (push_position j (push_size (len nodes) c)) = N.of_nat (length (map Row nodes))) by exact Hsz.
    rewrite E1, E2 in H0. exact H0. }
  specialize (H Hev).
  destruct (pred_loop (predicate_of (eval_or_expr doc p)) nodes 1 (push_size (len nodes) c)) as [[r|e| |] c1]; cbn [rrel] in H |- *.
  - destruct H as [-> H]. split; [apply pop_push_size|exact H].
  - exact H.
  - exact H.
  - exact H.
Qed.

Lemma predrel_nodes (nodes r : list node) rs : predrel nodes r rs -> Forall T nodes -> inc nodes ->
  V (XNodes r) (SNodes rs).
Proof.
  intros [-> Hs] Ht Hi. cbn [vrel]. split; [reflexivity|]. split; [apply Hs; exact Hi|apply (subl_T doc r nodes Hs Ht)].
Qed.

Theorem refine_all :
  (forall e, R_or e) /\ (forall l, R_and_list l) /\ (forall e, R_and e) /\ (forall l, R_eq_list l) /\
  (forall e, R_eq e) /\ (forall l, R_eqop_list l) /\ (forall e, R_rel e) /\ (forall l, R_relop_list l) /\
  (forall e, R_add e) /\ (forall l, R_addop_list l) /\ (forall e, R_mul e) /\ (forall l, R_mulop_list l) /\
  (forall e, R_unary e) /\ (forall e, R_union e) /\ (forall l, R_path_list l) /\ (forall e, R_path e) /\
  (forall e, R_filter e) /\ (forall e, R_primary e) /\ (forall l, R_expr_list l) /\ (forall e, R_rel_path e) /\
  (forall l, R_stepop_list l) /\ (forall s, R_step s).
Proof.
  apply ast_mutind.
  - (* EOr *)
    intros f Hf r Hr Hsup n c Tn Hc. cbn [sup_or] in Hsup. apply andb_split in Hsup. destruct Hsup as [S1 S2].
    rewrite eval_or_expr_eq, s_or_eq.
    apply (rrel_bind V V c _ _ _ (fun v => s_or_rest doc ns r v (Row n) (gp c) (gs c))); [apply (Hf S1 n c Tn Hc)|].
    intros a a' Ha. apply (Hr S2 a a' n c Ha Tn Hc).
  - (* AndNil *)
    intros _ op1 acc n c Ha Tn Hc. rewrite eval_or_rest_nil, s_or_rest_nil. apply rrel_ret. exact Ha.
  - (* AndCons *)
    intros a Ha t Ht Hsup op1 acc n c Hv Tn Hc. cbn [sup_and_list] in Hsup. apply andb_split in Hsup. destruct Hsup as [S1 S2].
    rewrite eval_or_rest_cons, s_or_rest_cons. rewrite <- (val_to_bool_agrees doc op1 acc Hv).
    destruct (val_to_bool op1); [apply rrel_ret; reflexivity|].
    apply (rrel_bind V V c _ _ _ (fun v => s_or_rest doc ns t (SBool (s_boolean doc v)) (Row n) (gp c) (gs c))); [apply (Ha S1 n c Tn Hc)|].
    intros v v' Hv'. rewrite <- (val_to_bool_agrees doc v v' Hv'). apply (Ht S2 _ _ n c); [reflexivity|exact Tn|exact Hc].
  - (* EAnd *)
    intros f Hf r Hr Hsup n c Tn Hc. cbn [sup_and] in Hsup. apply andb_split in Hsup. destruct Hsup as [S1 S2].
    rewrite eval_and_expr_eq, s_and_eq.
    apply (rrel_bind V V c _ _ _ (fun v => s_and_rest doc ns r v (Row n) (gp c) (gs c))); [apply (Hf S1 n c Tn Hc)|].
    intros a a' Ha. apply (Hr S2 a a' n c Ha Tn Hc).
  - (* EqNil *)
    intros _ op1 acc n c Ha Tn Hc. rewrite eval_and_rest_nil, s_and_rest_nil. apply rrel_ret. exact Ha.
  - (* EqCons *)
    intros a Ha t Ht Hsup op1 acc n c Hv Tn Hc. cbn [sup_eq_list] in Hsup. apply andb_split in Hsup. destruct Hsup as [S1 S2].
    rewrite eval_and_rest_cons, s_and_rest_cons. rewrite <- (val_to_bool_agrees doc op1 acc Hv).
    destruct (negb (val_to_bool op1)); [apply rrel_ret; reflexivity|].
    apply (rrel_bind V V c _ _ _ (fun v => s_and_rest doc ns t (SBool (s_boolean doc v)) (Row n) (gp c) (gs c))); [apply (Ha S1 n c Tn Hc)|].
    intros v v' Hv'. rewrite <- (val_to_bool_agrees doc v v' Hv'). apply (Ht S2 _ _ n c); [reflexivity|exact Tn|exact Hc].
  - (* EEq *)
    intros o Ho ops Hops Hsup n c Tn Hc. cbn [sup_eq] in Hsup. apply andb_split in Hsup. destruct Hsup as [S1 S2].
    rewrite eval_eq_expr_eq, s_eq_eq.
    apply (rrel_bind V V c _ _ _ (fun v => s_eq_ops doc ns ops v (Row n) (gp c) (gs c))); [apply (Ho S1 n c Tn Hc)|].
    intros a a' Ha. apply (Hops S2 a a' n c Ha Tn Hc).
  - (* EqopNil *)
    intros _ op1 acc n c Ha Tn Hc. rewrite eval_eq_ops_nil, s_eq_ops_nil. apply rrel_ret. exact Ha.
  - (* EqopCons *)
    intros op e He t Ht Hsup op1 acc n c Hv Tn Hc. cbn [sup_eqop_list] in Hsup. apply andb_split in Hsup. destruct Hsup as [S1 S2].
    rewrite eval_eq_ops_cons, s_eq_ops_cons.
    apply (rrel_bind V V c _ _ _ (fun v => s_eq_ops doc ns t (SBool (s_compare doc (match op with OpEqual => OEq | OpNotEqual => ONe end) acc v)) (Row n) (gp c) (gs c)));
      [apply (He S1 n c Tn Hc)|].
    intros v v' Hv'. unfold bindM, lift.
    rewrite (eq_value_agrees doc Hinv Hshape (match op with OpEqual => false | OpNotEqual => true end) op1 v acc v' Hv Hv').
    assert (Eop : (if match op with OpEqual => false | OpNotEqual => true end then ONe else OEq) =
                  match op with OpEqual => OEq | OpNotEqual => ONe end) by (destruct op; reflexivity).
    rewrite Eop. apply (Ht S2 _ _ n c); [reflexivity|exact Tn|exact Hc].
  - (* ERel *)
    intros o Ho ops Hops Hsup n c Tn Hc. cbn [sup_rel] in Hsup. apply andb_split in Hsup. destruct Hsup as [S1 S2].
    rewrite eval_rel_expr_eq, s_rel_eq.
    apply (rrel_bind V V c _ _ _ (fun v => s_rel_ops doc ns ops v (Row n) (gp c) (gs c))); [apply (Ho S1 n c Tn Hc)|].
    intros a a' Ha. apply (Hops S2 a a' n c Ha Tn Hc).
  - (* RelopNil *)
    intros _ op1 acc n c Ha Tn Hc. rewrite eval_rel_ops_nil, s_rel_ops_nil. apply rrel_ret. exact Ha.
  - (* RelopCons *)
    intros op e He t Ht Hsup op1 acc n c Hv Tn Hc. cbn [sup_relop_list] in Hsup. apply andb_split in Hsup. destruct Hsup as [S1 S2].
    rewrite eval_rel_ops_cons, s_rel_ops_cons.
    apply (rrel_bind V V c _ _ _ (fun v => s_rel_ops doc ns t (SBool (s_compare doc (relop_binop op) acc v)) (Row n) (gp c) (gs c)));
      [apply (He S1 n c Tn Hc)|].
    intros v v' Hv'. unfold bindM, lift.
    rewrite (rel_value_agrees doc Hinv Hshape op op1 v acc v' Hv Hv').
    apply (Ht S2 _ _ n c); [reflexivity|exact Tn|exact Hc].
  - (* EAdd *)
    intros o Ho ops Hops Hsup n c Tn Hc. cbn [sup_add] in Hsup. apply andb_split in Hsup. destruct Hsup as [S1 S2].
    rewrite eval_add_expr_eq, s_add_eq.
    apply (rrel_bind V V c _ _ _ (fun v => s_add_ops doc ns ops v (Row n) (gp c) (gs c))); [apply (Ho S1 n c Tn Hc)|].
    intros a a' Ha. apply (Hops S2 a a' n c Ha Tn Hc).
  - (* AddopNil *)
    intros _ op1 acc n c Ha Tn Hc. rewrite eval_add_ops_nil, s_add_ops_nil. apply rrel_ret. exact Ha.
  - (* AddopCons *)
    intros op e He t Ht Hsup op1 acc n c Hv Tn Hc. cbn [sup_addop_list] in Hsup. apply andb_split in Hsup. destruct Hsup as [S1 S2].
    rewrite eval_add_ops_cons, s_add_ops_cons.
    apply (rrel_bind V V c _ _ _ (fun v => match s_arith doc (match op with OpAdd => OAdd | OpSub => OSub end) acc v with
                                            | Some r => s_add_ops doc ns t r (Row n) (gp c) (gs c)
                                            | None => None end));
      [apply (He S1 n c Tn Hc)|].
    intros v v' Hv'. unfold bindM, lift.
    destruct (arith_agrees doc Hinv Hshape (match op with OpAdd => OAdd | OpSub => OSub end) op1 v acc v') as [r [sr [Er [Esr Hr]]]];
      [destruct op; reflexivity|exact Hv|exact Hv'|].
    assert (Ef : arith doc (match op with OpAdd => f64_add | OpSub => f64_sub end) op1 v = Ok r) by (destruct op; exact Er).
    rewrite Ef, Esr. apply (Ht S2 r sr n c Hr Tn Hc).
  - (* EMul *)
    intros o Ho ops Hops Hsup n c Tn Hc. cbn [sup_mul] in Hsup. apply andb_split in Hsup. destruct Hsup as [S1 S2].
    rewrite eval_mul_expr_eq, s_mul_eq.
    apply (rrel_bind V V c _ _ _ (fun v => s_mul_ops doc ns ops v (Row n) (gp c) (gs c))); [apply (Ho S1 n c Tn Hc)|].
    intros a a' Ha. apply (Hops S2 a a' n c Ha Tn Hc).
  - (* MulopNil *)
    intros _ op1 acc n c Ha Tn Hc. rewrite eval_mul_ops_nil, s_mul_ops_nil. apply rrel_ret. exact Ha.
  - (* MulopCons *)
    intros op e He t Ht Hsup op1 acc n c Hv Tn Hc. cbn [sup_mulop_list] in Hsup. apply andb_split in Hsup. destruct Hsup as [S1 S2].
    rewrite eval_mul_ops_cons, s_mul_ops_cons.
    apply (rrel_bind V V c _ _ _ (fun v => match s_arith doc (match op with OpMul => OMul | OpDiv => ODiv | OpMod => OMod end) acc v with
                                            | Some r => s_mul_ops doc ns t r (Row n) (gp c) (gs c)
                                            | None => None end));
      [apply (He S1 n c Tn Hc)|].
    intros v v' Hv'. unfold bindM, lift.
    destruct (arith_agrees doc Hinv Hshape (match op with OpMul => OMul | OpDiv => ODiv | OpMod => OMod end) op1 v acc v') as [r [sr [Er [Esr Hr]]]];
      [destruct op; reflexivity|exact Hv|exact Hv'|].
    assert (Ef : arith doc (match op with OpMul => f64_mul | OpDiv => f64_div | OpMod => f64_rem end) op1 v = Ok r) by (destruct op; exact Er).
    rewrite Ef, Esr. apply (Ht S2 r sr n c Hr Tn Hc).
  - (* EUnary *)
    intros inv u Hu Hsup n c Tn Hc. cbn [sup_unary] in Hsup.
    rewrite eval_unary_expr_eq, s_unary_eq.
    apply (rrel_bind V V c _ _ _ (fun v => Some (N.iter inv (fun w => SNum (f64_neg (s_number doc w))) v))); [apply (Hu Hsup n c Tn Hc)|].
    intros v v' Hv. destruct (neg_agrees doc Hinv Hshape (N.to_nat inv) v v' Hv) as [r [Er Hr]].
    unfold lift. rewrite Er. cbn [rrel]. split; [reflexivity|]. eexists. split; [reflexivity|].
    rewrite N2Nat.inj_iter. exact Hr.
  - (* EUnion *)
    intros l Hl Hsup n c Tn Hc. cbn [sup_union] in Hsup. apply (Hl Hsup). exact Tn. exact Hc.
  - (* PathNil *)
    intros _. split.
    + intros acc accs n c [Ht [la [-> Hla]]] Tn Hc. rewrite eval_union_rest_nil, s_union_rest_nil. apply rrel_ret.
      apply (finish_rel doc Hinv Hshape acc la Ht Hla).
    + intros n c Tn Hc. rewrite eval_union_expr_nil, s_union_nil. apply rrel_ret. cbn [vrel]. split; [reflexivity|]. split; constructor.
  - (* PathCons *)
    intros p Hp t Ht Hsup. cbn [sup_path_list] in Hsup. apply andb_split in Hsup. destruct Hsup as [S1 S2].
    destruct (Ht S2) as [Ht1 Ht2]. split.
    + intros acc accs n c [Hacc [la [-> Hla]]] Tn Hc. rewrite eval_union_rest_cons, s_union_rest_cons.
      apply (rrel_bind prel V c _ _ _ (fun sv => match sv with
                                                  | SNodes l' => s_union_rest doc ns t (map Row la ++ l') (Row n) (gp c) (gs c)
                                                  | _ => None end)); [apply (Hp S1 n c Tn Hc)|].
      intros v sv Hv. destruct v as [b|l|x|s], sv as [b'|x'|s'|l']; cbn [XPathRefineLemmas.prel] in Hv; try contradiction; try (apply rrel_lift_err).
      destruct Hv as [Hl ->]. apply (Ht1 (acc ++ l) _ n c); [|exact Tn|exact Hc].
      split; [apply Forall_app; split; assumption|]. exists (la ++ n_nodeset l). split; [symmetry; apply map_app|].
      intros x. rewrite !in_app_iff, n_nodeset_in, Hla. reflexivity.
    + intros n c Tn Hc. destruct t as [|p2 t2].
      * rewrite eval_union_expr_one, s_union_one.
        pose proof (Hp S1 n c Tn Hc) as H. unfold bindM.
        destruct (eval_path_expr doc p n c) as [[v|e| |] c1]; cbn [rrel] in H |- *; try exact H.
        destruct H as [-> [sv [-> Hv]]].
        destruct v as [b|l|x|s], sv as [b'|x'|s'|l']; cbn [XPathRefineLemmas.prel] in Hv; try contradiction;
          try (apply rrel_ret; exact Hv).
        destruct Hv as [Hl ->]. apply rrel_ret. rewrite <- (nodeset_rows doc). apply (finish_rel doc Hinv Hshape l l Hl). intros x. reflexivity.
      * rewrite eval_union_expr_many, s_union_many.
        apply (rrel_bind prel V c _ _ _ (fun sv => match sv with
                                                    | SNodes l => s_union_rest doc ns (PathCons p2 t2) l (Row n) (gp c) (gs c)
                                                    | _ => None end)); [apply (Hp S1 n c Tn Hc)|].
        intros v sv Hv. destruct v as [b|l|x|s], sv as [b'|x'|s'|l']; cbn [XPathRefineLemmas.prel] in Hv; try contradiction; try (apply rrel_lift_err).
        destruct Hv as [Hl ->]. apply (Ht1 l _ n c); [|exact Tn|exact Hc].
        split; [exact Hl|]. exists (n_nodeset l). split; [reflexivity|]. intros x. apply n_nodeset_in.
  - (* PRoot *)
    intros _ n c Tn Hc. rewrite eval_path_expr_root, s_path_root, (root_of_T doc Hinv Hshape n Tn). apply rrel_ret.
    cbn [XPathRefineLemmas.prel]. split; [constructor; [apply (T_root doc Hinv Hshape)|constructor]|reflexivity].
  - (* PFilter *)
    intros f Hf Hsup n c Tn Hc. cbn [sup_path] in Hsup. rewrite eval_path_expr_filter, s_path_filter.
    apply (rrel_weaken V prel); [apply (vrel_prel doc)|]. apply (Hf Hsup n c Tn Hc).
  - (* PRel *)
    intros l Hl Hsup n c Tn Hc. cbn [sup_path] in Hsup. rewrite eval_path_expr_rel, s_path_rel'.
    apply (rrel_bind setrel prel c _ _ _ (fun r => Some (SNodes r))).
    + apply (Hl Hsup [n] [n] c); [constructor; [exact Tn|constructor]|intros x; reflexivity|exact Hc].
    + intros coll rs [Hcoll ->]. apply rrel_ret. cbn [XPathRefineLemmas.prel]. split.
      * apply Forall_forall. intros x Hx. apply (proj1 (sort_in doc x coll)) in Hx. rewrite Forall_forall in Hcoll. apply Hcoll. exact Hx.
      * f_equal. apply n_nodeset_same. intros x. symmetry. apply (sort_in doc).
  - (* PAbs *)
    intros op l Hl Hsup n c Tn Hc. cbn [sup_path] in Hsup. rewrite eval_path_expr_abs, s_path_abs', (root_of_T doc Hinv Hshape n Tn).
    assert (Hroot : Forall T [doc_root]) by (constructor; [apply (T_root doc Hinv Hshape)|constructor]).
    assert (Hstart : exists start, match op with
                                   | LpCurrent => Ok [doc_root]
                                   | LpDescendantOrSelfNode => flat_map_res (descendant_and_self doc) [doc_root]
                                   end = Ok start /\ Forall T start /\
                                   match op with
                                   | LpCurrent => [Row doc_root]
                                   | LpDescendantOrSelfNode => Row doc_root :: s_descendants doc (Row doc_root)
                                   end = map Row start).
    { destruct op.
      - exists [doc_root]. split; [reflexivity|]. split; [exact Hroot|reflexivity].
      - destruct (dslash_rel [doc_root] Hroot) as [E Hf]. eexists. split; [exact E|]. split; [exact Hf|].
        cbn [flat_map]. rewrite app_nil_r. reflexivity. }
    destruct Hstart as [start [Es [Hst Ess]]]. unfold bindM at 1. unfold lift. rewrite Es, Ess.
    apply (rrel_bind setrel prel c _ _ _ (fun r => Some (SNodes r))).
    + apply (Hl Hsup start start c Hst); [intros x; reflexivity|exact Hc].
    + intros coll rs [Hcoll ->]. apply rrel_ret. cbn [XPathRefineLemmas.prel]. split.
      * apply Forall_forall. intros x Hx. apply (proj1 (sort_in doc x coll)) in Hx. rewrite Forall_forall in Hcoll. apply Hcoll. exact Hx.
      * f_equal. apply n_nodeset_same. intros x. symmetry. apply (sort_in doc).
  - (* PFilterPath *)
    intros f Hf op l Hl Hsup n c Tn Hc. cbn [sup_path] in Hsup. apply andb_split in Hsup. destruct Hsup as [S1 S2].
    rewrite eval_path_expr_filterpath, s_path_filterpath.
    apply (rrel_bind V prel c _ _ _ (fun sv => match sv with
      | SNodes fl => match s_rel_path doc ns l (match op with
                                                | LpCurrent => fl
                                                | LpDescendantOrSelfNode => nodeset doc (flat_map (fun x => x :: s_descendants doc x) fl)
                                                end) with
                     | Some r => Some (SNodes r)
                     | None => None
                     end
      | _ => None end)); [apply (Hf S1 n c Tn Hc)|].
    intros v sv Hv. destruct v as [b|fl|x|s], sv as [b'|x'|s'|l']; cbn [vrel] in Hv; try contradiction; try (apply rrel_lift_err).
    destruct Hv as [-> [Hinc Hfl]].
    destruct (from_agree op fl Hfl) as [from [lc [Ef [Hfrom [Es Hlc]]]]]. rewrite (n_nodeset_fixed fl Hinc) in Es.
    unfold bindM at 1. unfold lift. rewrite Ef, Es.
    apply (rrel_bind setrel prel c _ _ _ (fun r => Some (SNodes r))).
    + apply (Hl S2 from lc c Hfrom Hlc Hc).
    + intros coll rs [Hcoll ->]. apply rrel_ret. cbn [XPathRefineLemmas.prel]. split.
      * apply Forall_forall. intros x Hx. apply (proj1 (sort_in doc x coll)) in Hx. rewrite Forall_forall in Hcoll. apply Hcoll. exact Hx.
      * f_equal. apply n_nodeset_same. intros x. symmetry. apply (sort_in doc).
  - (* EFilter *)
    intros p Hp preds Hpreds Hsup n c Tn Hc. cbn [sup_filter] in Hsup. apply andb_split in Hsup. destruct Hsup as [S1 S2].
    destruct preds as [|e t].
    + rewrite eval_filter_expr_nopred, s_filter_nopred. apply (Hp S1 n c Tn Hc).
    + rewrite eval_filter_expr_preds, s_filter_preds. destruct (Hpreds S2) as [_ Hpr].
      apply (rrel_bind V V c _ _ _ (fun sv => match sv with
        | SNodes l => match s_preds doc ns (ExprCons e t) l with Some r => Some (SNodes r) | None => None end
        | _ => None end)); [apply (Hp S1 n c Tn Hc)|].
      intros v sv Hv. destruct v as [b|l|x|s], sv as [b'|x'|s'|l']; cbn [vrel] in Hv; try contradiction; try (apply rrel_lift_err).
      destruct Hv as [-> [Hinc Hl]].
      apply (rrel_bind (predrel l) V c _ _ _ (fun r => Some (SNodes r))); [apply (Hpr l c Hl Hc)|].
      intros r rs Hr. apply rrel_ret. apply (predrel_nodes l r rs Hr Hl Hinc).
  - (* PrimVariable *)
    intros q _ n c Tn Hc. rewrite eval_primary_expr_variable, s_primary_variable.
    destruct (expanded_name (c_ns c) q) as [[[local p] u]|e| |]; reflexivity.
  - (* PrimExpr *)
    intros e He Hsup n c Tn Hc. cbn [sup_primary] in Hsup. rewrite eval_primary_expr_expr, s_primary_expr. apply (He Hsup n c Tn Hc).
  - (* PrimLiteral *)
    intros s _ n c Tn Hc. rewrite eval_primary_expr_literal, s_primary_literal. apply rrel_ret. reflexivity.
  - (* PrimNumber *)
    intros s Hsup n c Tn Hc. cbn [sup_primary] in Hsup. unfold lit_ok in Hsup.
    rewrite eval_primary_expr_number, s_primary_number.
    destruct (spec_literal s) as [v|e| |] eqn:El; try discriminate.
    pose proof (literal_refines s v El) as Hm. unfold model_literal in Hm.
    destruct (rust_parse_f64 s) as [x|]; [|discriminate]. inversion Hm; subst v. apply rrel_ret. cbn [of_core vrel]. split; [reflexivity|].
    unfold spec_literal in El. destruct (fst (strip_char 45 s) || existsb is_ws s); [discriminate|].
    destruct (xp_parse_number s) as [[[neg D0] k]|]; [|discriminate]. inversion El. apply valid_f64_of_decimal.
  - (* PrimFunction *)
    intros name args Hargs Hsup n c Tn Hc. rewrite eval_primary_expr_function. rewrite Hc.
    destruct name as [pf lc|name].
    + (* a prefixed function name is never resolved *)
      rewrite s_primary_function_prefixed.
      assert (Hres : forall k, match resolve_fn ns (QPrefixed pf lc) k with Ok _ => False | _ => True end).
      { intros k. unfold resolve_fn, fn_key, expanded_name. destruct (ns_lookup ns (Some pf)); cbn [bind]; exact I. }
      specialize (Hres (expr_list_len args)). destruct (resolve_fn ns (QPrefixed pf lc) (expr_list_len args)); [destruct Hres|reflexivity|reflexivity|reflexivity].
    + cbn [sup_primary] in Hsup. apply andb_split in Hsup. destruct Hsup as [Hsup S3]. apply andb_split in Hsup. destruct Hsup as [S1 S2].
      apply negb_true_iff in S1. rewrite s_primary_function.
      destruct (Hargs S2) as [Hag _]. specialize (Hag n c Tn Hc).
      destruct (eval_args doc args n c) as [[vs|e| |] c1] eqn:Eargs; cbn [rrel] in Hag.
      * destruct Hag as [-> [svs [Esvs Hvs]]]. rewrite Esvs.
        pose proof (eval_args_len doc args n c vs c Eargs) as Hlen.
        pose proof (call_agrees doc Hinv Hshape Hnames ns name vs svs n c no_default Hc Tn Hvs S1) as Hcall.
        assert (Hnz : forall i v, nth_error vs i = Some v -> XPathRefineFn.fn_str_param name i = true -> not_negzero v).
        { intros i v Hi Hp. apply (args_nz_values doc name args 0 n c vs c S3 Eargs i v Hi). exact Hp. }
        specialize (Hcall Hnz). rewrite Hlen in Hcall.
        destruct (resolve_fn ns (QUnprefixed name) (expr_list_len args)) as [local|e| |].
        -- destruct Hcall as [-> Hcall]. unfold bindM. rewrite Eargs. exact Hcall.
        -- cbn [rrel]. exact Hcall.
        -- cbn [rrel]. exact Hcall.
        -- cbn [rrel]. exact Hcall.
      * rewrite Hag. destruct (resolve_fn ns (QUnprefixed name) (expr_list_len args)); try reflexivity.
        unfold bindM. rewrite Eargs. reflexivity.
      * rewrite Hag. destruct (resolve_fn ns (QUnprefixed name) (expr_list_len args)); try reflexivity.
        unfold bindM. rewrite Eargs. reflexivity.
      * rewrite Hag. destruct (resolve_fn ns (QUnprefixed name) (expr_list_len args)); try reflexivity.
        unfold bindM. rewrite Eargs. reflexivity.
  - (* ExprNil *)
    intros _. split.
    + intros n c Tn Hc. rewrite eval_args_nil, s_args_nil. apply rrel_ret. constructor.
    + intros nodes c Ht Hc. rewrite eval_predicates_nil, s_preds_nil. apply rrel_ret. split; [reflexivity|apply subl_refl].
  - (* ExprCons *)
    intros e He t Ht Hsup. cbn [sup_expr_list] in Hsup. apply andb_split in Hsup. destruct Hsup as [S1 S2].
    destruct (Ht S2) as [Ht1 Ht2]. split.
    + intros n c Tn Hc. rewrite eval_args_cons, s_args_cons.
      pose proof (He S1 n c Tn Hc) as H1. unfold bindM at 1.
      destruct (eval_or_expr doc e n c) as [[v|e0| |] c1]; cbn [rrel] in H1.
      * destruct H1 as [-> [sv [-> Hv]]]. pose proof (Ht1 n c Tn Hc) as H2. unfold bindM.
        destruct (eval_args doc t n c) as [[vs|e0| |] c2]; cbn [rrel] in H2.
        -- destruct H2 as [-> [svs [-> Hvs]]]. apply rrel_ret. constructor; assumption.
        -- rewrite H2. reflexivity.
        -- rewrite H2. reflexivity.
        -- rewrite H2. reflexivity.
      * rewrite H1. reflexivity.
      * rewrite H1. reflexivity.
      * rewrite H1. reflexivity.
    + intros nodes c Hnodes Hc. rewrite eval_predicates_cons, s_preds_cons. cbv beta.
      pose proof (predicate_agrees e nodes c (He) S1 Hnodes Hc) as H1.
      destruct (pred_loop (predicate_of (eval_or_expr doc e)) nodes 1 (push_size (len nodes) c)) as [[r|e0| |] c1]; cbn [rrel] in H1.
      * destruct H1 as [Ec1 [rs [Ers [-> Hs]]]]. rewrite Ers, Ec1.
        pose proof (Ht2 r c (subl_T doc r nodes Hs Hnodes) Hc) as H2.
        destruct (eval_predicates doc t r c) as [[r2|e0| |] c2]; cbn [rrel] in H2 |- *; try exact H2.
        destruct H2 as [-> [rs2 [-> [-> Hs2]]]]. split; [reflexivity|]. eexists. split; [reflexivity|].
        split; [reflexivity|apply (subl_trans r2 r nodes Hs2 Hs)].
      * rewrite H1. reflexivity.
      * rewrite H1. reflexivity.
      * rewrite H1. reflexivity.
  - (* ERelPath *)
    intros s Hs ops Hops. apply rel_path_agrees; assumption.
  - (* StepopNil *)
    intros _. split.
    + intros nodes c Ht Hc. rewrite eval_stepops_nil, s_stepops_nil'. apply rrel_ret. split; [exact Ht|reflexivity].
    + intros l0 l1 l2 c _ _ _ _ Hcov. rewrite !eval_stepops_nil. unfold distr. cbn [okv ret fst].
      exists l1, l2. split; [reflexivity|]. split; [reflexivity|exact Hcov].
  - (* StepopCons *)
    intros op s Hs t Ht Hsup. cbn [sup_stepop_list] in Hsup. apply andb_split in Hsup. destruct Hsup as [S1 S2].
    destruct (Ht S2) as [HtA HtB]. split.
    + intros nodes c Hnodes Hc. rewrite eval_stepops_cons, s_stepops_cons'.
      destruct (from_agree op nodes Hnodes) as [from [lc [Ef [Hfrom [Es Hlc]]]]].
      unfold bindM at 1. unfold lift. rewrite Ef, Es.
      assert (Hloop : rrel setrel c (flat_map_m (eval_step doc s) from c)
                        (match opt_flat_map (s_step doc ns s) (map Row lc) with Some r => Some (nodeset doc r) | None => None end)).
      { apply (step_loop_agrees doc (eval_step doc s) (s_step doc ns s) c from lc); [|exact Hlc].
        intros n Hn. rewrite Forall_forall in Hfrom. apply (Hs S1 n c (Hfrom n Hn) Hc). }
      unfold bindM. destruct (flat_map_m (eval_step doc s) from c) as [[coll|e| |] c1]; cbn [rrel] in Hloop.
      * destruct Hloop as [-> [rs [Ers [Hcoll ->]]]].
        destruct (opt_flat_map (s_step doc ns s) (map Row lc)) as [r|]; [|discriminate]. inversion Ers as [Er]. rewrite Er.
        destruct (step_dedup_T doc Hinv Hshape coll Hcoll) as [Hdd Tdd].
        rewrite <- (n_nodeset_same (step_dedup doc coll) coll Hdd).
        apply (HtA (step_dedup doc coll) c Tdd Hc).
      * destruct (opt_flat_map (s_step doc ns s) (map Row lc)); [discriminate|reflexivity].
      * destruct (opt_flat_map (s_step doc ns s) (map Row lc)); [discriminate|reflexivity].
      * destruct (opt_flat_map (s_step doc ns s) (map Row lc)); [discriminate|reflexivity].
    + intros l0 l1 l2 c T0 T1 T2 Hc Hcov. rewrite !eval_stepops_cons.
      assert (Hstep : forall x, restores (eval_step doc s x)) by (intros x; apply restores_all_step).
      assert (Hfm : forall l, restores (flat_map_m (eval_step doc s) l)) by (intros l; apply restores_flat_map_m; exact Hstep).
      destruct (from_model op l0 T0) as [E0 F0]. destruct (from_model op l1 T1) as [E1 F1]. destruct (from_model op l2 T2) as [E2 F2].
      rewrite !okv_bind by apply restores_lift. rewrite !okv_lift, E0, E1, E2. cbn [obind].
      rewrite !okv_bind by apply Hfm.
      pose proof (flat_map_m_distr (eval_step doc s) _ _ _ c Hstep (from_list_cover op l0 l1 l2 Hcov)) as Hd.
      pose proof (step_loop_T s (from_list op l0) c Hs S1 F0 Hc) as G0.
      pose proof (step_loop_T s (from_list op l1) c Hs S1 F1 Hc) as G1.
      pose proof (step_loop_T s (from_list op l2) c Hs S1 F2 Hc) as G2.
      unfold distr in Hd.
      destruct (okv (flat_map_m (eval_step doc s) (from_list op l0)) c) as [c0|]; cbn [obind].
      * destruct Hd as [c1 [c2 [Ec1 [Ec2 Hc12]]]]. rewrite Ec1, Ec2 in *. cbn [obind].
        destruct (step_dedup_T doc Hinv Hshape c0 G0) as [D0 TD0].
        destruct (step_dedup_T doc Hinv Hshape c1 G1) as [D1 TD1].
        destruct (step_dedup_T doc Hinv Hshape c2 G2) as [D2 TD2].
        apply (HtB _ _ _ c TD0 TD1 TD2 Hc). intros x. rewrite D0, D1, D2. apply Hc12.
      * unfold distr. destruct Hd as [E|E]; rewrite E; cbn [obind]; [left; reflexivity|right; reflexivity].
  - (* StepTest *)
    intros a t preds Hpreds Hsup n c Tn Hc. cbn [sup_step] in Hsup. apply andb_split in Hsup. destruct Hsup as [Hsup S3].
    apply andb_split in Hsup. destruct Hsup as [S1 S2].
    rewrite eval_step_test, s_step_test, Hc.
    destruct (tested_sorted doc Hinv Hshape Hnames ns a t n no_default Tn S1 S2) as [r [cands [Er [Hsorted [Ec Eord]]]]].
    rewrite Er, Ec, Eord. destruct (Hpreds S3) as [_ Hpr].
    apply (rrel_weaken (predrel (axis_sort doc a r)) steprel).
    + intros x xs [-> Hs]. split; [reflexivity|apply (subl_T doc x _ Hs Hsorted)].
    + apply (Hpr (axis_sort doc a r) c Hsorted Hc).
  - (* StepCurrent *)
    intros _ n c Tn Hc. rewrite eval_step_current, s_step_current'. apply rrel_ret. split; [reflexivity|constructor; [exact Tn|constructor]].
  - (* StepParent *)
    intros _ n c Tn Hc. rewrite eval_step_parent, s_step_parent', (spec_parent doc Hinv Hshape n Tn). apply rrel_ret.
    destruct (parent_node doc n) as [p|] eqn:Ep; cbn [opt_list option_map].
    + split; [reflexivity|]. constructor; [|constructor]. apply (T_parent_T doc Hinv Hshape n p Tn Ep).
    + split; [reflexivity|constructor].
Qed.

(** ** whole queries *)
Definition value_abs (r : res xvalue) : option sval :=
  match r with
  | Ok (XBool b) => Some (SBool b)
  | Ok (XNum x) => Some (SNum x)
  | Ok (XText s) => Some (SStr s)
  | Ok (XNodes l) => Some (SNodes (map Row l))
  | _ => None
  end.

Theorem eval_refines_spec_lemma (c : ctx) (e : expr) :
  c_ns c = ns -> supported ns e ->
  value_abs (fst (query doc e c)) = spec_query doc ns (get_position c) (get_size c) e.
Proof.
  intros Hc Hsup. destruct refine_all as [Hor _].
  pose proof (Hor e Hsup doc_root c (T_root doc Hinv Hshape) Hc) as H.
  unfold query, eval_expr, spec_query.
  destruct (eval_or_expr doc e doc_root c) as [[v|e0| |] c1]; cbn [rrel fst] in H |- *.
  - destruct H as [_ [sv [-> Hv]]].
    destruct v as [b|l|x|s], sv as [b'|x'|s'|l']; cbn [vrel] in Hv; try contradiction; cbn [value_abs].
    + rewrite Hv. reflexivity.
    + destruct Hv as [-> [Hinc _]]. rewrite (nodeset_rows doc), (n_nodeset_fixed l Hinc). reflexivity.
    + destruct Hv as [-> _]. reflexivity.
    + rewrite Hv. reflexivity.
  - rewrite H. reflexivity.
  - rewrite H. reflexivity.
  - rewrite H. reflexivity.
Qed.

End Eval.
