//! C01 / C02: whole documents through `xml_dom::XmlDocument::from_raw`.
//!
//! Case line: `<mode> <document>`  (document = decimal code points joined by ',', `-` = empty)
//!   mode `v`  verdict only: `accept` | `rest:<n chars left>` | `err:parse` | `err:info`
//!   mode `d`  verdict, and on `accept` the canonical infoset dump in both DOM views:
//!             `accept R <dump> M <dump>`  (R = raw view, M = merged text = `text_expanded`,
//!             the context option xq/xe set through `Context::from_text_expanded(true)`).
//!
//! "accept" = `from_raw` returned `Ok` AND the rest is empty (what xq/xe test).
//!
//! Dump = tokens separated by one space; every string is `enc`-oded (code points, `-` = empty,
//! `~` = absent):
//!   `D:<version|~>:<encoding|~>:<standalone y|n|~>`   document properties, then its children:
//!   `c:<data>`                         comment
//!   `p:<target>:<data>`                processing instruction
//!   `T:<name>:<public|~>:<system|~>`   document type declaration, then
//!       `n:<name>:<public|~>:<system|~>`             notations sorted by name
//!       `u:<name>:<public|~>:<system>:<notation>`    unparsed entities sorted by name
//!       `p:..`                                       PIs of the internal subset, in order
//!   `/T`
//!   `E:<qname>`  then the attribute SET sorted by qualified name (namespace declarations are
//!       attributes `xmlns` / `xmlns:p`): `a:<qname>:<normalized value>` specified,
//!       `b:<qname>:<value>` supplied by an ATTLIST default; then the children; then `/E`
//!   `t:<data>`   character data (Text in the raw view, the merged text node in the other)
//!   `d:<data>`   CDATA section (raw view only)
//!   `h:<char>`   character reference (raw view only)
//!   `r:<name>:<replacement|!>`  reference to a general entity (raw view only; `!` = the value
//!       accessor failed)
//!   `?<what>`    an accessor failed or returned something the dump has no token for
//! Names come from the info-level `HasQName` (the DOM `tag_name`/`name` drop the prefix);
//! children lists come from the DOM `child_nodes` of the view.
use crate::util::{dec, enc};
use std::rc::Rc;
use xml_dom as dom;
use xml_dom::{CharacterData, Node, NodeList, ProcessingInstruction};
use xml_info as info;
use xml_info::{
    Attribute as _, Document as _, DocumentTypeDeclaration as _, Element as _, HasQName,
    Notation as _, ProcessingInstruction as _, UnparsedEntity as _,
};

fn o(s: Option<&str>) -> String {
    match s {
        None => "~".to_string(),
        Some(s) => enc(s),
    }
}

fn qn<T: HasQName>(v: &T) -> String {
    match v.prefix() {
        Some(p) => format!("{}:{}", p, v.local_name()),
        None => v.local_name().to_string(),
    }
}

fn item_of(n: &dom::XmlNode) -> Option<Rc<info::XmlItem>> {
    match n {
        dom::XmlNode::ExpandedText(_) => None,
        _ => Rc::<info::XmlItem>::try_from(n.clone()).ok(),
    }
}

fn children(n: &dom::XmlNode) -> Vec<dom::XmlNode> {
    let l = n.child_nodes();
    let mut out = vec![];
    for i in 0..l.length() {
        if let Some(c) = l.item(i) {
            out.push(c);
        }
    }
    out
}

/// the child list must be what the walk first_child / next_sibling and the walk last_child /
/// previous_sibling see (same nodes, same order): the items a document exposes do not depend on the
/// accessor they are read with (seeded change W9-C01-2: a fast path of last_child answered a raw
/// reference node where child_nodes shows the merged text)
fn nav_agrees(n: &dom::XmlNode) -> bool {
    let key = |x: &dom::XmlNode| (x.id(), x.node_type() as u8, x.node_value().ok().flatten());
    let list: Vec<_> = children(n).iter().map(key).collect();
    let mut fwd = vec![];
    let mut cur = n.first_child();
    while let Some(c) = cur {
        if fwd.len() > list.len() + 1 {
            return false;
        }
        fwd.push(key(&c));
        cur = c.next_sibling();
    }
    let mut bwd = vec![];
    let mut cur = n.last_child();
    while let Some(c) = cur {
        if bwd.len() > list.len() + 1 {
            return false;
        }
        bwd.push(key(&c));
        cur = c.previous_sibling();
    }
    bwd.reverse();
    fwd == list && bwd == list
}

fn pi_token(target: &str, data: &str) -> String {
    format!("p:{}:{}", enc(target), enc(data))
}

fn dump_doctype(d: &info::XmlNode<info::XmlDocumentTypeDeclaration>, out: &mut Vec<String>) {
    let d = d.borrow();
    out.push(format!(
        "T:{}:{}:{}",
        enc(&qn(&*d)),
        o(d.public_identifier()),
        o(d.system_identifier())
    ));
    let mut ns: Vec<(String, String)> = d
        .notations()
        .iter()
        .map(|n| {
            let n = n.borrow();
            (
                n.name().to_string(),
                format!(
                    "n:{}:{}:{}",
                    enc(n.name()),
                    o(n.public_identifier()),
                    o(n.system_identifier())
                ),
            )
        })
        .collect();
    ns.sort();
    out.extend(ns.into_iter().map(|x| x.1));
    let mut us: Vec<(String, String)> = d
        .unparsed_entities()
        .iter()
        .map(|u| {
            let u = u.borrow();
            (
                u.name().to_string(),
                format!(
                    "u:{}:{}:{}:{}",
                    enc(u.name()),
                    o(u.public_identifier()),
                    enc(u.system_identifier()),
                    enc(u.notation_name())
                ),
            )
        })
        .collect();
    us.sort();
    out.extend(us.into_iter().map(|x| x.1));
    for p in d.children().iter() {
        let p = p.borrow();
        out.push(pi_token(p.target(), p.content()));
    }
    out.push("/T".to_string());
}

fn dump_node(n: &dom::XmlNode, out: &mut Vec<String>) {
    match n {
        dom::XmlNode::Element(_) => {
            let item = match item_of(n).and_then(|i| i.as_element()) {
                Some(e) => e,
                None => {
                    out.push("?element".to_string());
                    return;
                }
            };
            out.push(format!("E:{}", enc(&qn(&*item.borrow()))));
            let mut rows: Vec<(String, String)> = vec![];
            let e = item.borrow();
            for a in e.namespace_attributes().iter().chain(e.attributes().iter()) {
                let a = a.borrow();
                let name = qn(&*a);
                let tok = match a.normalized_value() {
                    Ok(v) => format!(
                        "{}:{}:{}",
                        if a.specified() { "a" } else { "b" },
                        enc(&name),
                        enc(&v)
                    ),
                    Err(_) => format!("?attr:{}", enc(&name)),
                };
                rows.push((name, tok));
            }
            drop(e);
            rows.sort();
            out.extend(rows.into_iter().map(|x| x.1));
            if !nav_agrees(n) {
                out.push("?nav".to_string());
            }
            for c in children(n) {
                dump_node(&c, out);
            }
            out.push("/E".to_string());
        }
        dom::XmlNode::Text(t) => match t.data() {
            Ok(s) => out.push(format!("t:{}", enc(&s))),
            Err(_) => out.push("?text".to_string()),
        },
        dom::XmlNode::ExpandedText(t) => match t.data() {
            Ok(s) => out.push(format!("t:{}", enc(&s))),
            Err(_) => out.push("?mtext".to_string()),
        },
        dom::XmlNode::CData(t) => match t.data() {
            Ok(s) => out.push(format!("d:{}", enc(&s))),
            Err(_) => out.push("?cdata".to_string()),
        },
        dom::XmlNode::Comment(t) => match t.data() {
            Ok(s) => out.push(format!("c:{}", enc(&s))),
            Err(_) => out.push("?comment".to_string()),
        },
        dom::XmlNode::PI(p) => out.push(pi_token(&p.target(), &p.data())),
        dom::XmlNode::EntityReference(r) => {
            let item = item_of(n);
            if let Some(c) = item.as_ref().and_then(|i| i.as_char_reference()) {
                use xml_info::Character as _;
                out.push(format!("h:{}", enc(c.borrow().character_code())));
            } else {
                let v = match r.value() {
                    Ok(v) => enc(&v),
                    Err(_) => "!".to_string(),
                };
                out.push(format!("r:{}:{}", enc(&r.node_name()), v));
            }
        }
        dom::XmlNode::DocumentType(_) => match item_of(n).and_then(|i| i.as_document_type()) {
            Some(d) => dump_doctype(&d, out),
            None => out.push("?doctype".to_string()),
        },
        _ => out.push("?node".to_string()),
    }
}

fn dump(doc: &dom::XmlDocument) -> String {
    use xml_dom::AsNode;
    let n = doc.as_node();
    let mut out = vec![];
    match item_of(&n).and_then(|i| i.as_document()) {
        Some(d) => {
            let d = d.borrow();
            let enc_s = d.character_encoding_scheme();
            out.push(format!(
                "D:{}:{}:{}",
                o(d.version()),
                if enc_s.is_empty() { "~".to_string() } else { enc(enc_s) },
                match d.standalone() {
                    Some(true) => "y",
                    Some(false) => "n",
                    None => "~",
                }
            ));
        }
        None => out.push("?document".to_string()),
    }
    for c in children(&n) {
        dump_node(&c, &mut out);
    }
    out.join(" ")
}

fn verdict(text: &str) -> Result<(), String> {
    let (rest, tree) = xml_parser::document(text).map_err(|_| "err:parse".to_string())?;
    let r = info::XmlDocument::new(&tree).map_err(|_| "err:info".to_string());
    if !rest.is_empty() {
        return Err(format!("rest:{}", rest.chars().count()));
    }
    r.map(|_| ())
}

pub fn case(line: &str) -> String {
    let w: Vec<&str> = line.split(' ').filter(|s| !s.is_empty()).collect();
    if w.len() != 2 {
        return "badinput".to_string();
    }
    let text = match dec(w[1]) {
        Some(t) => t,
        None => return "badinput".to_string(),
    };
    // the verdict is the one of from_raw; the two stages are separated only to name the error
    match dom::XmlDocument::from_raw(&text) {
        Err(_) => match verdict(&text) {
            Err(e) => e,
            Ok(()) => "err:?".to_string(),
        },
        Ok((rest, raw)) => {
            if !rest.is_empty() {
                return format!("rest:{}", rest.chars().count());
            }
            if w[0] == "v" {
                return "accept".to_string();
            }
            let merged = match dom::XmlDocument::from_raw_with_context(
                &text,
                dom::Context::from_text_expanded(true),
            ) {
                Ok((_, m)) => dump(&m),
                Err(_) => "?merged".to_string(),
            };
            format!("accept R {} M {}", dump(&raw), merged)
        }
    }
}
