(** * The denoted document with neighbouring Text items merged (property C15)

    The parser cannot return two neighbouring text items: character data between two pieces of
    markup is ONE item.  [norm_doc d] is [d] with every maximal run of neighbouring [ItText]
    children of an element (and of neighbouring [XaText] pieces of an attribute value) written as
    one item -- what DOM Level 1 calls the normalised form, and the view through
    [child_nodes] with merged text that xml-dom offers.  [display (norm_doc d) = display d].

    [Known15m]: the exclusions of the round trip towards [norm_doc (doc_of_store s)].  Two
    clauses of [Known15] (Model/StoreDoc.v) are replaced by one that is exactly the two listed
    findings C15-ADJACENT-TEXT and C15-ATTR-TEXT-MOVED: [K_run_cdend], the characters of a maximal
    run of Text children of an element contain the CDATA end mark.  Definitions only. *)
From Coq Require Import List NArith Bool.
From XmlRs Require Import Base.CPred Model.Peg Model.ParseActions Model.Info Model.Display.
From XmlRs Require Import Model.Store Model.StoreDoc.
From XmlRs Require Model.CharData.
Import ListNotations.
Open Scope N_scope.

Definition flush_text (acc : option str) : list Info.item := match acc with Some a => [ItText a] | None => [] end.
Definition acc_str (acc : option str) : str := match acc with Some a => a | None => [] end.

(** left to right, [acc] = the run of text collected so far *)
Fixpoint merge_texts (acc : option str) (l : list Info.item) : list Info.item :=
  match l with
  | [] => flush_text acc
  | ItText a :: r => merge_texts (Some (acc_str acc ++ a)) r
  | i :: r => flush_text acc ++ i :: merge_texts None r
  end.

Definition flush_value (acc : option str) : list avalue := match acc with Some a => [XaText a] | None => [] end.

Fixpoint merge_values (acc : option str) (l : list avalue) : list avalue :=
  match l with
  | [] => flush_value acc
  | XaText a :: r => merge_values (Some (acc_str acc ++ a)) r
  | v :: r => flush_value acc ++ v :: merge_values None r
  end.

Definition norm_attr (a : attr) : attr := Attr (xa_local a) (xa_prefix a) (merge_values None (xa_values a)).

Fixpoint norm_item (i : Info.item) : Info.item :=
  match i with
  | ItElement l p attrs ch => ItElement l p (map norm_attr attrs) (merge_texts None (map norm_item ch))
  | _ => i
  end.

Definition norm_doc (d : document) : document :=
  Doc (map norm_item (doc_children d)) (doc_encoding d) (doc_standalone d) (doc_version d).

(** ** the exclusion: a maximal run of Text children holds the CDATA end mark *)
Fixpoint run_cdend (s : store) (acc : str) (l : list id) : bool :=
  match l with
  | [] => CharData.has_cdend acc
  | x :: t =>
    if has_kind s KTx x
    then run_cdend s (acc ++ match get s x with Some it => idata it | None => [] end) t
    else CharData.has_cdend acc || run_cdend s [] t
  end.

Definition K_run_cdend (s : store) : bool := attached_any s (on_kind s KEl (run_cdend s [])).

Definition Known15m (s : store) : bool :=
  K_noroot s || K_el_before_dt s || K_empty_text s || K_run_cdend s || K_both_quotes s || K_unresolved s.
