(** * One unfolding lemma per production of the XPath grammar regenerated from
    xpath/src/expr/mod.rs (and nom/src/lib.rs for ncname / qname / prefixed_name).

    Each lemma restates the body that translator T2 produced for one Rust function and is closed by
    [reflexivity]: when a production is edited in the Rust source, exactly its lemma (and what is
    proved from it) stops compiling.  Every grammar-specific proof of C08 goes through these. *)
From Coq Require Import List NArith.
From XmlRs Require Import Base.CPred Model.Peg Gen.XmlcharGen Gen.GrammarXPathGen.
Import ListNotations.
Local Open Scope N_scope.

(** nom's [multispace0] *)
Notation WS := (Chars0 (InR [(32,32);(9,9);(13,13);(10,10)])).

Lemma prod_ncname : body G_xpath nt_ncname =
  (Recognize (Seq (xc_name_start_char_except1 [58]) (xc_name_char_except0 [58]))).
Proof. reflexivity. Qed.

Lemma prod_qname : body G_xpath nt_qname =
  (Alt (Map L_model_QName_from (NT nt_prefixed_name)) (Map L_model_QName_from (NT nt_ncname))).
Proof. reflexivity. Qed.

Lemma prod_prefixed_name : body G_xpath nt_prefixed_name =
  (Map L_model_PrefixedName_from (Seq (NT nt_ncname) (SeqR (Tag [58]) (NT nt_ncname)))).
Proof. reflexivity. Qed.

Lemma prod_parse : body G_xpath nt_parse =
  (NT nt_expr).
Proof. reflexivity. Qed.

Lemma prod_relative_location_path : body G_xpath nt_relative_location_path =
  (Map L_model_RelativeLocationPath_from (Seq (NT nt_step) (Many0 (Seq (SeqR WS (SeqL (Map L_model_LocationPathOperator_from (Alt (Tag [47;47]) (Tag [47]))) WS)) (NT nt_step))))).
Proof. reflexivity. Qed.

Lemma prod_step : body G_xpath nt_step =
  (Alt (Map L_closure_999d9613 (Tag [46;46])) (Alt (Map L_closure_f049d213 (Tag [46])) (Map L_model_Step_from (Seq (NT nt_axis_specifier) (Seq (SeqR WS (NT nt_node_test)) (Many0 (SeqR WS (NT nt_predicate)))))))).
Proof. reflexivity. Qed.

Lemma prod_axis_specifier : body G_xpath nt_axis_specifier =
  (Alt (Map L_model_AxisSpecifier_from (SeqL (NT nt_axis_name) (Seq WS (Tag [58;58])))) (Map L_closure_15b815f9 (Opt (Tag [64])))).
Proof. reflexivity. Qed.

Lemma prod_axis_name : body G_xpath nt_axis_name =
  (Map L_model_AxisName_from (Alt (Tag [97;110;99;101;115;116;111;114;45;111;114;45;115;101;108;102]) (Alt (Tag [97;110;99;101;115;116;111;114]) (Alt (Tag [97;116;116;114;105;98;117;116;101]) (Alt (Tag [99;104;105;108;100]) (Alt (Tag [100;101;115;99;101;110;100;97;110;116;45;111;114;45;115;101;108;102]) (Alt (Tag [100;101;115;99;101;110;100;97;110;116]) (Alt (Tag [102;111;108;108;111;119;105;110;103;45;115;105;98;108;105;110;103]) (Alt (Tag [102;111;108;108;111;119;105;110;103]) (Alt (Tag [110;97;109;101;115;112;97;99;101]) (Alt (Tag [112;97;114;101;110;116]) (Alt (Tag [112;114;101;99;101;100;105;110;103;45;115;105;98;108;105;110;103]) (Alt (Tag [112;114;101;99;101;100;105;110;103]) (Tag [115;101;108;102])))))))))))))).
Proof. reflexivity. Qed.

Lemma prod_node_test : body G_xpath nt_node_test =
  (Alt (Map L_model_NodeTest_from (SeqR (Seq (Tag [112;114;111;99;101;115;115;105;110;103;45;105;110;115;116;114;117;99;116;105;111;110]) (Seq WS (Seq (Tag [40]) WS))) (SeqL (NT nt_literal) (Seq WS (Tag [41]))))) (Alt (Map L_model_NodeTest_from (SeqL (NT nt_node_type) (Seq WS (Seq (Tag [40]) (Seq WS (Tag [41])))))) (Map L_model_NodeTest_from (NT nt_name_test)))).
Proof. reflexivity. Qed.

Lemma prod_predicate : body G_xpath nt_predicate =
  (SeqR (Seq (Tag [91]) WS) (SeqL (NT nt_predicate_expr) (Seq WS (Tag [93])))).
Proof. reflexivity. Qed.

Lemma prod_predicate_expr : body G_xpath nt_predicate_expr =
  (NT nt_expr).
Proof. reflexivity. Qed.

Lemma prod_expr : body G_xpath nt_expr =
  (NT nt_or_expr).
Proof. reflexivity. Qed.

Lemma prod_primary_expr : body G_xpath nt_primary_expr =
  (Alt (Map L_model_PrimaryExpr_from (NT nt_variable_reference)) (Alt (Map L_model_PrimaryExpr_from (SeqR (Seq (Tag [40]) WS) (SeqL (NT nt_expr) (Seq WS (Tag [41]))))) (Alt (Map L_model_PrimaryExpr_from (NT nt_literal)) (Alt (Map L_model_PrimaryExpr_number (NT nt_number)) (Map L_model_PrimaryExpr_from (NT nt_function_call)))))).
Proof. reflexivity. Qed.

Lemma prod_function_call : body G_xpath nt_function_call =
  (Map L_model_FunctionCall_from (Seq (NT nt_function_name) (SeqR (Seq WS (Seq (Tag [40]) WS)) (SeqL (SepBy0 (Seq WS (Seq (Tag [44]) WS)) (NT nt_argument)) (Seq WS (Tag [41])))))).
Proof. reflexivity. Qed.

Lemma prod_argument : body G_xpath nt_argument =
  (NT nt_expr).
Proof. reflexivity. Qed.

Lemma prod_union_expr : body G_xpath nt_union_expr =
  (Map L_model_UnionExpr_from (SepBy1 (Seq WS (Seq (Tag [124]) WS)) (NT nt_path_expr))).
Proof. reflexivity. Qed.

Lemma prod_path_expr : body G_xpath nt_path_expr =
  (Alt (Map L_closure_dae0d720 (Seq (NT nt_filter_expr) (Opt (Seq (SeqR WS (SeqL (Map L_model_LocationPathOperator_from (Alt (Tag [47;47]) (Tag [47]))) WS)) (NT nt_relative_location_path))))) (Alt (Map L_closure_1402352e (Seq (SeqL (Map L_model_LocationPathOperator_from (Alt (Tag [47;47]) (Tag [47]))) WS) (NT nt_relative_location_path))) (Alt (Map L_model_PathExpr_from (NT nt_relative_location_path)) (Map L_closure_be3a7f28 (Tag [47]))))).
Proof. reflexivity. Qed.

Lemma prod_filter_expr : body G_xpath nt_filter_expr =
  (Map L_model_FilterExpr_from (Seq (NT nt_primary_expr) (Many0 (SeqR WS (NT nt_predicate))))).
Proof. reflexivity. Qed.

Lemma prod_or_expr : body G_xpath nt_or_expr =
  (Map L_model_OrExpr_from (SepBy1 (Seq WS (Seq (Tag [111;114]) WS)) (NT nt_and_expr))).
Proof. reflexivity. Qed.

Lemma prod_and_expr : body G_xpath nt_and_expr =
  (Map L_model_AndExpr_from (SepBy1 (Seq WS (Seq (Tag [97;110;100]) WS)) (NT nt_equality_expr))).
Proof. reflexivity. Qed.

Lemma prod_equality_expr : body G_xpath nt_equality_expr =
  (Map L_model_EqualityExpr_from (Seq (NT nt_relation_expr) (Many0 (Seq (SeqR WS (SeqL (Map L_model_EqualityOperator_from (Alt (Tag [61]) (Tag [33;61]))) WS)) (NT nt_relation_expr))))).
Proof. reflexivity. Qed.

Lemma prod_relation_expr : body G_xpath nt_relation_expr =
  (Map L_model_RelationalExpr_from (Seq (NT nt_additive_expr) (Many0 (Seq (SeqR WS (SeqL (Map L_model_RelationalOperator_from (Alt (Tag [60;61]) (Alt (Tag [62;61]) (Alt (Tag [60]) (Tag [62]))))) WS)) (NT nt_additive_expr))))).
Proof. reflexivity. Qed.

Lemma prod_additive_expr : body G_xpath nt_additive_expr =
  (Map L_model_AdditiveExpr_from (Seq (NT nt_multiplicative_expr) (Many0 (Seq (SeqR WS (SeqL (Map L_model_AdditiveOperator_from (Alt (Tag [43]) (Tag [45]))) WS)) (NT nt_multiplicative_expr))))).
Proof. reflexivity. Qed.

Lemma prod_multiplicative_expr : body G_xpath nt_multiplicative_expr =
  (Map L_model_MultiplicativeExpr_from (Seq (NT nt_unary_expr) (Many0 (Seq (SeqR WS (SeqL (Map L_model_MultiplicativeOperator_from (Alt (Tag [42]) (Alt (Tag [100;105;118]) (Tag [109;111;100])))) WS)) (NT nt_unary_expr))))).
Proof. reflexivity. Qed.

Lemma prod_unary_expr : body G_xpath nt_unary_expr =
  (Map L_model_UnaryExpr_from (Seq (Many0 (SeqL (Tag [45]) WS)) (NT nt_union_expr))).
Proof. reflexivity. Qed.

Lemma prod_literal : body G_xpath nt_literal =
  (Alt (SeqR (Tag [34]) (SeqL (Chars0 (Not (InR [(34,34)]))) (Tag [34]))) (SeqR (Tag [39]) (SeqL (Chars0 (Not (InR [(39,39)]))) (Tag [39])))).
Proof. reflexivity. Qed.

Lemma prod_number : body G_xpath nt_number =
  (Alt (Recognize (Seq (Chars1 (InR [(48,57)])) (Opt (Seq (Tag [46]) (Chars0 (InR [(48,57)])))))) (Recognize (Seq (Tag [46]) (Chars1 (InR [(48,57)]))))).
Proof. reflexivity. Qed.

Lemma prod_function_name : body G_xpath nt_function_name =
  (Alt (Map L_QName_from (Map L_PrefixedName_from (Seq (NT nt_ncname) (SeqR (Tag [58]) (NT nt_ncname))))) (Map L_QName_from (TakeExcept (TakeExcept (TakeExcept (TakeExcept (NT nt_ncname) [99;111;109;109;101;110;116]) [116;101;120;116]) [112;114;111;99;101;115;115;105;110;103;45;105;110;115;116;114;117;99;116;105;111;110]) [110;111;100;101]))).
Proof. reflexivity. Qed.

Lemma prod_variable_reference : body G_xpath nt_variable_reference =
  (SeqR (Tag [36]) (NT nt_qname)).
Proof. reflexivity. Qed.

Lemma prod_name_test : body G_xpath nt_name_test =
  (Alt (Map L_closure_f9ed0828 (Tag [42])) (Alt (Map L_model_NameTest_from (SeqL (NT nt_ncname) (Tag [58;42]))) (Map L_model_NameTest_from (NT nt_qname)))).
Proof. reflexivity. Qed.

Lemma prod_node_type : body G_xpath nt_node_type =
  (Map L_model_NodeType_from (Alt (Tag [99;111;109;109;101;110;116]) (Alt (Tag [116;101;120;116]) (Alt (Tag [112;114;111;99;101;115;115;105;110;103;45;105;110;115;116;114;117;99;116;105;111;110]) (Tag [110;111;100;101]))))).
Proof. reflexivity. Qed.
