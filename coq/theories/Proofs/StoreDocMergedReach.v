(** * C15: the merged round trip along histories, witnesses for [Known15m], and an example with
    neighbouring Text items *)
From Coq Require Import List NArith Bool Lia.
From XmlRs Require Import Base.CPred Spec.XmlChars Model.Peg Model.ParseActions Model.Info Model.Display.
From XmlRs Require Import Proofs.DisplayEq Proofs.DisplayFull Proofs.StoreDocLex.
From XmlRs Require Import Model.Store Model.StoreCheck Model.PrintableCheck Model.DomOps Model.StoreDoc Model.StoreDocMerged.
From XmlRs Require Import Proofs.DomBase Proofs.DomTree Proofs.DomOpsInv Proofs.DomCheck Proofs.DomPrintable
  Proofs.DomL1RefineValue Proofs.DomL1RefineInv Proofs.DomL1RefineInvCheck
  Proofs.StoreDocInv Proofs.StoreDocShow Proofs.StoreDocWf Proofs.StoreDocReach Proofs.StoreDocMerged.
Import ListNotations.
Open Scope N_scope.

Theorem edited_roundtrip_m s : TreeInv s -> Lex15 s -> UniqQ s -> Known15m s = false ->
  from_raw (show_doc s) = OOk ([], norm_doc (doc_of_store s)).
Proof. intros T L U K. apply store_roundtrip_m; try assumption. apply lex15_hdr_ok. exact L. Qed.

Theorem edited_roundtrip_m_reachable init ops k s :
  WInv2 init -> WLex15 init -> Forall op_facts_ok ops -> Forall op_facts_ok15 ops ->
  doc_at (run init ops) k = Some s -> Known15m s = false ->
  from_raw (show_doc s) = OOk ([], norm_doc (doc_of_store s)).
Proof.
  intros I2 L F1 F2 D K. destruct (inv15_reachable init ops k s I2 L F1 F2 D) as [T [Ls U]].
  apply edited_roundtrip_m; assumption.
Qed.

(** the unmerged theorem is the special case: without neighbouring Text items nothing is merged *)
Definition known15m_vector (s : store) : list bool :=
  [K_noroot s; K_el_before_dt s; K_empty_text s; K_run_cdend s; K_both_quotes s; K_unresolved s].

Definition roundtrip_m_holds (s : store) : Prop :=
  exists d', from_raw (show_doc s) = OOk ([], d') /\ doc_eq d' (norm_doc (doc_of_store s)).

Definition refuted_m (clause : nat) : Prop :=
  exists s, TreeInv s /\ Lex15 s /\ UniqQ s
            /\ known15m_vector s = map (Nat.eqb clause) [0;1;2;3;4;5]%nat
            /\ ~ roundtrip_m_holds s.

Lemma refuted_m_intro clause l nx decl ops s :
  init_ok l nx decl = true -> Forall op_facts_ok ops -> Forall op_facts_ok15 ops ->
  final l nx decl ops = Some s ->
  known15m_vector s = map (Nat.eqb clause) [0;1;2;3;4;5]%nat ->
  (forall d', from_raw (show_doc s) = OOk ([], d') -> impl_eq d' (norm_doc (doc_of_store s)) = false) ->
  refuted_m clause.
Proof.
  intros I F1 F2 D V R. destruct (init_ok_sound l nx decl I) as [I2 IL].
  unfold final in D. destruct (inv15_reachable (mkWorld [store_of_list l nx decl 1]) ops 0 s I2 IL F1 F2 D) as [T [Ls U]].
  exists s. split; [exact T|]. split; [exact Ls|]. split; [exact U|]. split; [exact V|].
  intros [d' [E1 E2]]. specialize (R d' E1). unfold doc_eq in E2. subst d'. rewrite impl_eq_refl in R. discriminate.
Qed.

Ltac witness_m k items nx ops :=
  let D := fresh "D" in
  destruct (final items nx [] ops) as [s|] eqn:D; [|vm_compute in D; discriminate];
  eapply (refuted_m_intro k items nx [] ops s); [vm_compute; reflexivity | facts_trivial | facts_trivial | exact D | |];
  [vm_compute in D; inversion D; subst s; vm_compute; reflexivity
  |vm_compute in D; inversion D; subst s; intros d' E; vm_compute in E; first [discriminate E | inversion E; subst d'; vm_compute; reflexivity]].

Theorem noroot_refuted_m : refuted_m 0.
Proof. witness_m 0%nat w0_items 3 w0_ops. Qed.
Theorem el_before_dt_refuted_m : refuted_m 1.
Proof. witness_m 1%nat w1_items 4 w1_ops. Qed.
Theorem empty_text_refuted_m : refuted_m 2.
Proof. witness_m 2%nat w0_items 3 w3_ops. Qed.

(** C15-ADJACENT-TEXT: <r>a</r> : create_text_node(']]'), create_text_node('>'), append both *)
Definition w8_ops : list op :=
  [CreateTextNode (0, 1) (dinfo15 [93;93]); CreateTextNode (0, 1) (dinfo15 [62]); AppendChild (0, 2) (0, 4); AppendChild (0, 2) (0, 5)].
Theorem run_cdend_refuted_m : refuted_m 3.
Proof. witness_m 3%nat w2_items 4 w8_ops. Qed.
(** C15-ATTR-TEXT-MOVED is the same clause *)
Theorem run_cdend_moved_refuted_m : refuted_m 3.
Proof. witness_m 3%nat w4_items 6 w4_ops. Qed.
Theorem both_quotes_refuted_m : refuted_m 4.
Proof. witness_m 4%nat w5_items 5 w5_ops. Qed.
Theorem unresolved_refuted_m : refuted_m 5.
Proof. witness_m 5%nat w6_items 5 w6_ops. Qed.

(** neighbouring Text items are inside the merged theorem: <r>a</r> : create_text_node('b'), append
    (the witness of [K_adjacent_text] for the unmerged statement) *)
Definition adj_store : store := Eval vm_compute in match final w2_items 4 [] w2_ops with Some s => s | None => dummy_store end.

Lemma adj_final : doc_at (run (mkWorld [store_of_list w2_items 4 [] 1]) w2_ops) 0 = Some adj_store.
Proof. vm_compute. reflexivity. Qed.

Example adjacent_text_merged :
  Known15 adj_store = true /\ Known15m adj_store = false
  /\ from_raw (show_doc adj_store) = OOk ([], norm_doc (doc_of_store adj_store))
  /\ doc_children (doc_of_store adj_store) = [ItElement [114] None [] [ItText [97]; ItText [98]]]
  /\ doc_children (norm_doc (doc_of_store adj_store)) = [ItElement [114] None [] [ItText [97;98]]].
Proof.
  assert (I : init_ok w2_items 4 [] = true) by (vm_compute; reflexivity).
  destruct (init_ok_sound _ _ _ I) as [I2 IL].
  assert (F1 : Forall op_facts_ok w2_ops) by (unfold w2_ops; facts_trivial).
  assert (F2 : Forall op_facts_ok15 w2_ops) by (unfold w2_ops; facts_trivial).
  split; [vm_compute; reflexivity|]. split; [vm_compute; reflexivity|].
  split; [|split; vm_compute; reflexivity].
  apply (edited_roundtrip_m_reachable _ w2_ops 0 adj_store I2 IL F1 F2 adj_final). vm_compute. reflexivity.
Qed.

(** the example history of Proofs/StoreDocReach.v holds a split text with a CDATA section between
    the halves: nothing to merge, the two statements coincide *)
Example rt_merged_same : norm_doc (doc_of_store rt_store) = doc_of_store rt_store.
Proof. vm_compute. reflexivity. Qed.
