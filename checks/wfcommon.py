"""Shared by C01 and C02: runners for the wfdoc domain (implementation / extracted spec / expat),
a markup tokenizer with edit operators, crafted families, and the classifiers of known findings."""
import os, re, sys
from . import lib
sys.path.insert(0, os.path.join(lib.VERIF, 'tools', 'gen'))
import wfgen, expat_oracle

enc, dec = lib.enc, lib.dec

# ------------------------------------------------------------------ runners
def run_impl(run, docs, mode='v'):
    """implementation verdicts (and dumps) for a list of strings; crashes are re-run in isolation"""
    lines = ['%s %s' % (mode, enc(d)) for d in docs]
    rc, out = lib.run_bin(lib.rust_bin(), ['wfdoc'], lines, timeout=1200, shards=min(16, lib.NPROC))
    if len(out) < len(lines):
        out += ['crash'] * (len(lines) - len(out))
    for i, o in enumerate(out):
        if o == 'crash' or o == '':
            cls, line = lib.run_isolated(lib.rust_bin(), ['wfdoc'], lines[i], timeout=20)
            out[i] = line if (cls == 'ok' and line) else cls
            run.count('impl:isolated-rerun')
    return out

def run_spec(run, lines, area='wf', dom='wfdoc'):
    rc, out = lib.run_bin(lib.spec_bin(area), [dom], lines, timeout=2400, shards=lib.NPROC)
    if len(out) < len(lines):
        out += ['crash'] * (len(lines) - len(out))
    return out

def relaxed_verdicts(run, docs):
    """verdicts of Spec.XmlWFRelaxed (generated from Spec.XmlWF: NameChar* at the Name positions of known
    finding D04; spec area `wfr`) -- used only to CLASSIFY a failing input, never to judge one"""
    return spec_verdicts(run, docs, 'v', area='wfr', dom='wfr')

def spec_verdicts(run, docs, mode='v', area='wf', dom='wfdoc'):
    """[(x10, ns, infoset dump or None)] with x10/ns in 'wf' | 'notwf:<code>' | 'unsupported'"""
    out = run_spec(run, ['%s %s' % (mode, enc(d)) for d in docs], area, dom)
    res = []
    for o in out:
        w = o.split(' ')
        if len(w) < 2 or not w[0].startswith('x10='):
            res.append(('crash', 'crash', None)); continue
        inf = None
        if mode == 'd' and len(w) >= 4 and w[2] == 'I':
            inf = ' '.join(w[3:])
            if inf == '-':
                inf = None
        res.append((w[0][4:], w[1][3:], inf))
    return res

REASONS = {1: 'syntax', 2: 'element type match', 3: 'unique att spec', 4: 'no < in attribute values',
           5: 'no external entity references', 6: 'legal character', 7: 'entity declared', 8: 'parsed entity',
           9: 'no recursion', 10: 'replacement text does not match content',
           20: 'ns: not a QName / colon in a name', 21: 'ns: prefix declared', 22: 'ns: reserved prefixes and names',
           23: 'ns: attributes unique (expanded names)'}

def reason_of(v):
    if v.startswith('notwf:'):
        return REASONS.get(int(v[6:]), v)
    return v

# ------------------------------------------------------------------ tokenizer and edits
TOK = re.compile(r'''<!--|-->|<!\[CDATA\[|\]\]>|<\?|\?>|</|/>|<![A-Z]+|<|>|&\#x[0-9a-fA-F]*;|&\#[0-9]*;|&[^;&<\s"']*;|[ \t\r\n]+|"|'|=|\[|\]|\(|\)|\||,|\*|\+|\?|\#[A-Z]+|%|;|[^\s<>&"'=\[\]()|,*+?\#%;/]+|.''', re.S)

def tokens(s):
    return TOK.findall(s)

HOSTILE_TOKENS = ['<', '>', '&', '</', '/>', '<!--', '-->', '--', ']]>', '<![CDATA[', '<?', '?>', '"', "'", '=', ' ',
                  '<?xml version="1.0"?>', '<?xml ?>', 'xml', 'XmL', '&#0;', '&#x1F;', '&#xFFFE;', '&#x110000;', '&;', '&a', '&x;',
                  '&lt;', '<a>', '</a>', '<a/>', 'x="1"', ':', 'a:b:c', '1', '-', '\x00', '\x0b', '\ufffe', '%p;', '[', ']', '(', ')',
                  '#PCDATA', 'SYSTEM', '<!DOCTYPE a>', '<!ENTITY', '<!x']
HOSTILE_CHARS = list('<>&\'"=/-;#!?[]: x1') + ['\x00', '\x08', '\x0c', '\ufffe', '\uffff', '\x7f', '\u0085', '·', '\u037e', '\n']

def single_edits(toks, pool, kinds=('del', 'dup', 'swap', 'rep')):
    """every single deletion, duplication, adjacent swap and replacement over a token list"""
    n = len(toks)
    for i in range(n):
        if 'del' in kinds:
            yield ('del', i, None), toks[:i] + toks[i + 1:]
        if 'dup' in kinds:
            yield ('dup', i, None), toks[:i + 1] + toks[i:]
        if 'swap' in kinds and i + 1 < n and toks[i] != toks[i + 1]:
            yield ('swap', i, None), toks[:i] + [toks[i + 1], toks[i]] + toks[i + 2:]
        if 'rep' in kinds:
            for r in pool:
                if r != toks[i]:
                    yield ('rep', i, r), toks[:i] + [r] + toks[i + 1:]

def random_edit(rng, toks, pool):
    n = len(toks)
    if n == 0:
        return ('ins', 0, None), [rng.choice(pool)]
    i = rng.randrange(n)
    k = rng.choice(['del', 'dup', 'swap', 'rep', 'rep', 'ins'])
    if k == 'del':
        return (k, i, None), toks[:i] + toks[i + 1:]
    if k == 'dup':
        return (k, i, None), toks[:i + 1] + toks[i:]
    if k == 'swap' and i + 1 < n:
        return (k, i, None), toks[:i] + [toks[i + 1], toks[i]] + toks[i + 2:]
    r = rng.choice(pool + toks)
    if k == 'ins':
        return (k, i, r), toks[:i] + [r] + toks[i:]
    return ('rep', i, r), toks[:i] + [r] + toks[i + 1:]

# ------------------------------------------------------------------ generated documents
def generated(run, n, size=60, depth=7, small=False, tag='gen'):
    """n abstract documents -> [(abstract doc, features, rendering1, rendering2, valid, w1, w2, i1, i2, denote dump)]"""
    rng = run.rng
    docs, lines = [], []
    for _ in range(n):
        g = wfgen.Gen(rng, size=(rng.randint(2, 8) if small else size), depth=(rng.randint(1, 3) if small else depth))
        d = g.document()
        docs.append((d, sorted(g.features)))
        lines.append(wfgen.case_line(d, rng))
    out = run_spec(run, lines)
    res = []
    for (d, feats), o in zip(docs, out):
        w = o.split(' ')
        if not o.startswith('valid='):
            run.tie_breaks.append('spec driver rejected a generated abstract document: %s' % o[:120])
            continue
        kv = dict(x.split('=', 1) for x in w[:7])
        res.append({'adoc': d, 'features': feats, 'r1': dec(kv['r1']), 'r2': dec(kv['r2']), 'valid': kv['valid'] == '1',
                    'w1': kv['w1'] == '1', 'w2': kv['w2'] == '1', 'i1': kv['i1'] == '1', 'i2': kv['i2'] == '1',
                    'denote': ' '.join(w[8:])})
    return res

# ------------------------------------------------------------------ crafted families: (family, document, well-formed per XML 1.0?, namespace-well-formed?)
def crafted():
    F = []
    def ill(fam, *docs):
        for d in docs: F.append((fam, d, False, False))
    def ok(fam, *docs):
        for d in docs: F.append((fam, d, True, True))
    def nsill(fam, *docs):
        for d in docs: F.append((fam, d, True, False))
    # [1] document, [22] prolog, [27] Misc: root element
    ill('root', '', ' ', '<!-- c -->', '<?p?>', 'text', '<a/><b/>', '<a/>text', '<a/>&#32;', 'x<a/>', '<a/><![CDATA[]]>', '<a></a><a></a>', '<a/>&lt;', '<a/><!DOCTYPE a>',
        '<!DOCTYPE a>', '<!DOCTYPE a><!DOCTYPE a><a/>', '&#60;a/>')
    ok('root', '<a/>', '<a/> ', ' <a/>', '<a/><!--c--><?p?>\n', '<!--c--><a/>', '\n<?p?>\n<a></a>\n')
    # [39]-[44] tags, WFC element type match
    ill('tags', '<a></b>', '<a><b></a></b>', '<a><b></a>', '<a>', '</a>', '<a></a></a>', '<a><b/></b></a>', '<a></A>', '<a></a:a>', '<p:a xmlns:p="u"></a>',
        '<a/ >', '< a/>', '<a></ a>', '<a / >', '<a//>', '<a', '<a/', '<>', '</>', '<a b/>', '<a></a b="1">', '<a></a/>', '<A></a>', '<a.></a>', '<a>< /a>')
    ok('tags', '<a></a>', '<a ></a >', '<a\n/>', '<a><b></b></a>', '<a><b/><b/></a>', '<a.b-c_d></a.b-c_d>', '<é/>')
    # [5] Name
    ill('name', '<1a/>', '<-a/>', '<.a/>', '<a 1="x"/>', '<a -x="1"/>', '<a><?1 x?></a>', '<a><?-x?></a>', '<a>&1;</a>', '<a>&-;</a>', '<·a/>', '<a\u037e/>',
        '<!DOCTYPE a [<!ENTITY 1 "x">]><a/>', '<!DOCTYPE a [<!NOTATION 1 SYSTEM "x">]><a/>', '<!DOCTYPE a [<!ENTITY e SYSTEM "s" NDATA 1>]><a/>',
        '<!DOCTYPE a [<!ENTITY -e "x">]><a/>', '<!DOCTYPE a [<!ATTLIST a x NOTATION (1) #IMPLIED>]><a/>', '<!DOCTYPE 1a><a/>', '<!DOCTYPE a [<!ELEMENT 1 EMPTY>]><a/>',
        '<!DOCTYPE a [<!ATTLIST a 1 CDATA #IMPLIED>]><a/>', '<!DOCTYPE a [<!ELEMENT a (1)>]><a/>', '<!DOCTYPE a [<!ENTITY  "x">]><a/>', '<a><? x?></a>')
    # [41] Attribute, WFC unique att spec
    ill('attr', '<a x="1" x="2"/>', '<a x="1" y="2" x="3"/>', "<a x='1' x='1'/>", '<a xmlns="u" xmlns="u"/>', '<a xmlns:p="u" xmlns:p="v"/>', '<a><b c="" c=""/></a>',
        '<a x/>', '<a x=/>', '<a x=1/>', '<a x="1"y="2"/>', '<a x="1/>', "<a x='1\"/>", '<a x=="1"/>', '<a ="1"/>', '<a x="1" "2"/>')
    ok('attr', '<a x="1" y="2"/>', '<a x="1" X="2"/>', '<a xmlns:p="u" p:x="1" p:X="2"/>', '<a xmlns:p="u" xmlns:P="u" p:x="1" P:x="2" x="3"/>'.replace(' P:x="2"', ''), "<a x = '1'\ty\n=\r\"2\"/>", '<a x=""/>', '<a x="\'"/>', "<a x='\"'/>", '<a x=">"/>', '<a x="]]>"/>', '<a x="&#9;&#10;&#13;\t"/>')
    # [10] AttValue, WFC no < in attribute values
    ill('attvalue', '<a x="<"/>', '<a x="a<b"/>', '<a x="&"/>', '<a x="&;"/>', '<a x="&#;"/>', '<a x="&#x;"/>', '<a x="&#xg;"/>', '<a x="&# 1;"/>', '<a x="& lt;"/>', '<a x="&lt"/>',
        '<!DOCTYPE a [<!ENTITY e "<">]><a x="&e;"/>', '<!DOCTYPE a [<!ENTITY e "&#60;">]><a x="&e;"/>', '<!DOCTYPE a [<!ENTITY e "&#x3c;">]><a x="&e;"/>',
        '<!DOCTYPE a [<!ENTITY f "<"><!ENTITY e "x&f;y">]><a x="&e;"/>', '<!DOCTYPE a [<!ENTITY e "a<b/>c">]><a x="&e;"/>',
        '<!DOCTYPE a [<!ENTITY e "&#38;">]><a x="&e;"/>', '<!DOCTYPE a [<!ENTITY e "&#38;f;"><!ENTITY f "<">]><a x="&e;"/>',
        '<!DOCTYPE a [<!ENTITY e "<"><!ATTLIST a x CDATA "&e;">]><a/>', '<!DOCTYPE a [<!ATTLIST a x CDATA "<">]><a/>')
    ok('attvalue', '<!DOCTYPE a [<!ENTITY e "&#38;#60;">]><a x="&e;"/>', '<a x="&lt;&amp;&gt;&apos;&quot;"/>', '<!DOCTYPE a [<!ENTITY e "x&lt;y">]><a x="&e;"/>',
       '<!DOCTYPE a [<!ENTITY e "\'&#34;">]><a x="&e;" y=\'&e;\'/>', '<!DOCTYPE a [<!ENTITY e "a<b/>c">]><a>&e;</a>')
    # [2] Char, WFC legal character
    for c in ['\x00', '\x01', '\x08', '\x0b', '\x0c', '\x0e', '\x1f', '\ufffe', '\uffff']:
        ill('char', '<a>%s</a>' % c, '<a x="%s"/>' % c, '<a><!--%s--></a>' % c, '<a><?p %s?></a>' % c, '<a><![CDATA[%s]]></a>' % c, '<a/>%s' % c, '%s<a/>' % c,
            '<!DOCTYPE a [<!ENTITY e "%s">]><a/>' % c, '<!DOCTYPE a SYSTEM "%s"><a/>' % c, '<a %s="1"/>' % c)
    for r in ['&#0;', '&#1;', '&#8;', '&#11;', '&#x1F;', '&#xFFFE;', '&#xFFFF;', '&#xD800;', '&#xDFFF;', '&#x110000;', '&#99999999999999999999;', '&#x0;', '&#00;']:
        ill('charref', '<a>%s</a>' % r, '<a x="%s"/>' % r, '<!DOCTYPE a [<!ENTITY e "%s">]><a/>' % r, '<!DOCTYPE a [<!ATTLIST a x CDATA "%s">]><a/>' % r,
            '<!DOCTYPE a [<!ENTITY e "&#38;%s">]><a>&e;</a>' % r[1:])
    ok('charref', '<a>&#9;&#10;&#13;&#32;&#xD7FF;&#xE000;&#xFFFD;&#x10000;&#x10FFFF;&#x00041;&#0065;</a>', '<a x="&#x9;&#xA;&#xd;"/>', '<a>\t\n\r \ud7ff\ue000\ufffd\U00010000\U0010ffff</a>')
    ill('reference', '<a>&;</a>', '<a>&</a>', '<a>& </a>', '<a>&a</a>', '<a>&#</a>', '<a>&#1</a>', '<a>&#x</a>', '<a>&#X41;</a>', '<a>&#1a;</a>', '<a>&a b;</a>', '<a>&amp</a>', '<a>a & b</a>', '<a>&#x41</a>')
    # [14] CharData, [18]-[21] CDSect
    ill('chardata', '<a>]]></a>', '<a>a]]>b</a>', '<a>]]]></a>', '<a><</a>', '<a>a<</a>', '<a>]]>]]></a>')
    ok('chardata', '<a>]]</a>', '<a>]>]</a>', '<a>]]&gt;</a>', '<a>></a>', '<a>]] ></a>', '<a><![CDATA[]]]]><![CDATA[>]]></a>', '<a>]<![CDATA[]]>]></a>')
    ill('cdsect', '<a><![CDATA[x]]</a>', '<a><![CDATA[x</a>', '<a><![cdata[x]]></a>', '<a><![CDATA [x]]></a>', '<a><![CDATA[x]] ></a>', '<![CDATA[x]]><a/>', '<a/><![CDATA[x]]>', '<a x="<![CDATA[x]]>"/>', '<a><! [CDATA[x]]></a>')
    ok('cdsect', '<a><![CDATA[]]></a>', '<a><![CDATA[<&]]></a>', '<a><![CDATA[]]]]></a>', '<a><![CDATA[<![CDATA[]]></a>', '<a><![CDATA[&#0;]]></a>')
    # [15] Comment
    ill('comment', '<a><!-- a--b --></a>', '<a><!-- a---></a>', '<a><!---></a>', '<a><!--a</a>', '<a><!-a--></a>', '<a><!- -a--></a>', '<a><!--a-- ></a>', '<!--a--b--><a/>', '<a/><!--a--->',
        '<a x="<!--c-->"/>', '<a><!----></a><!-- - -- -->', '<a <!--c-->/>', '<!DOCTYPE a [<!-- a--b -->]><a/>', '<!DOCTYPE a [<!ELEMENT a <!--c--> EMPTY>]><a/>')
    ok('comment', '<a><!----></a>', '<a><!-- - - --></a>', '<a><!--<a>&;&#0;]]>--></a>', '<a><!---a--></a>', '<!-- a - b --><a/>', '<!DOCTYPE a [<!-- c -->]><a/>')
    # [16] PI, [17] PITarget
    ill('pi', '<a><?xml version="1.0"?></a>', '<a><?XML x?></a>', '<a><?xMl?></a>', '<?xml?><a/>', '<a/><?xml version="1.0"?>', '<!DOCTYPE a [<?xml x?>]><a/>', '<a><??></a>', '<a><? p?></a>', '<a><?p</a>', '<a><?p x></a>', '<a><?p?x?></a>',
        ' <?xml version="1.0"?><a/>', '<!--c--><?xml version="1.0"?><a/>', '\n<?xml version="1.0"?><a/>', '<?xml version="1.0"?><?xml version="1.0"?><a/>')
    ok('pi', '<a><?p?></a>', '<a><?p ?></a>', '<a><?p x?></a>', '<a><?p ??></a>', '<a><?p ?x?></a>', '<?xml-stylesheet href="a"?><a/>', '<a><?xmlx?><?x?><?xm?><?X?></a>', '<a><?p <a>&;]]>?></a>', '<!DOCTYPE a [<?p x?>]><a/>')
    # [23]-[26] [32] [80] [81] XML declaration
    ill('xmldecl', '<?xml?><a/>', '<?xml ?><a/>', '<?xml version?><a/>', '<?xml version=1.0?><a/>', '<?xml version="1.0" ?x><a/>', '<?xml encoding="UTF-8"?><a/>', '<?xml standalone="yes"?><a/>',
        '<?xml version="1.0" standalone="yes" encoding="UTF-8"?><a/>', '<?xml version="2.0"?><a/>', '<?xml version="1."?><a/>', '<?xml version="1.x"?><a/>', '<?xml version="1"?><a/>', '<?xml version=""?><a/>',
        '<?xml version="1.0" standalone="maybe"?><a/>', '<?xml version="1.0" standalone="YES"?><a/>', '<?xml version="1.0"encoding="UTF-8"?><a/>', '<?xml version="1.0" encoding=""?><a/>',
        '<?xml version="1.0" encoding="1a"?><a/>', '<?xml version="1.0" encoding="a b"?><a/>', '<?xml version="1.0" encoding="-a"?><a/>', '<?xmlversion="1.0"?><a/>', '<?xml version="1.0\'?><a/>',
        '<?xml version="1.0" version="1.0"?><a/>', '<?XML version="1.0"?><a/>', '<?xml Version="1.0"?><a/>', '<?xml version="1.0" foo="x"?><a/>', '<?xml version="1.0"? ><a/>', '<?xml version="1.0" ? ><a/>')
    ok('xmldecl', '<?xml version="1.0"?><a/>', "<?xml version='1.0'?><a/>", '<?xml version = "1.0" ?><a/>', '<?xml\tversion\n=\r"1.0"?><a/>', '<?xml version="1.0" encoding="UTF-8"?><a/>',
       '<?xml version="1.0" standalone="yes"?><a/>', "<?xml version='1.1' encoding='a.-_1' standalone='no' ?><a/>", '<?xml version="1.0123456789"?><a/>')
    # [28] doctypedecl, [75] ExternalID, [11] [12] [13] literals
    ill('doctype', '<!DOCTYPE><a/>', '<!DOCTYPE ><a/>', '<!DOCTYPEa><a/>', '<!doctype a><a/>', '<!DOCTYPE a b><a/>', '<!DOCTYPE a SYSTEM><a/>', '<!DOCTYPE a SYSTEM x><a/>', '<!DOCTYPE a PUBLIC "p"><a/>',
        '<!DOCTYPE a PUBLIC "{" "s"><a/>', '<!DOCTYPE a PUBLIC "p" s><a/>', '<!DOCTYPE a PUBLIC "p""s"><a/>', '<!DOCTYPE a SYSTEM"s"><a/>', '<!DOCTYPE a system "s"><a/>', '<!DOCTYPE a SYSTEM "s" "t"><a/>',
        '<!DOCTYPE a [><a/>', '<!DOCTYPE a []<a/>', '<!DOCTYPE a [] []><a/>', '<!DOCTYPE a [x]><a/>', '<!DOCTYPE a [<a/>]><a/>', '<!DOCTYPE a [&#32;]><a/>', '<!DOCTYPE a [<![CDATA[]]>]><a/>', '<!DOCTYPE a SYSTEM "s\'><a/>',
        '<!DOCTYPE a PUBLIC \'p"\' "s"><a/>', '<!DOCTYPE a PUBLIC "é" "s"><a/>', '<a><!DOCTYPE a></a>')
    ok('doctype', '<!DOCTYPE a><a/>', '<!DOCTYPE a ><a/>', '<!DOCTYPE a[]><a/>', '<!DOCTYPE a [ ] ><a/>', '<!DOCTYPE a SYSTEM "s"><a/>', "<!DOCTYPE a SYSTEM 's' []><a/>", '<!DOCTYPE a PUBLIC "p" "s"><a/>',
       "<!DOCTYPE a PUBLIC 'p' 's'[]><a/>", '<!DOCTYPE a PUBLIC "-\'()+,./:=?;!*#@$_% aZ09\n" "s"><a/>', '<!DOCTYPE b><a/>', '<!DOCTYPE a SYSTEM "<&>\'"><a/>', '<!DOCTYPE a SYSTEM ""><a/>')
    # [45]-[51] element declarations
    ill('elementdecl', *['<!DOCTYPE a [<!ELEMENT a %s>]><a/>' % m for m in
        ['', 'empty', 'EMPTY ANY', '()', '(b,c|d)', '(b|c,d)', '(#PCDATA|b)', '(#PCDATA|b)+', '(#PCDATA)+', '(#PCDATA)?', '(b|#PCDATA)*', '( #PCDATA | (b) )*', '(b)**', '(b)? *', '(b,)', '(,b)', '(b||c)', '(b c)', 'b', '(b', '(b))', '((b)', '(b?+)', '#PCDATA', '(#PCDATA b)*', '(b)*x', '(%p;)']],
        '<!DOCTYPE a [<!ELEMENT a>]><a/>', '<!DOCTYPE a [<!ELEMENTa EMPTY>]><a/>', '<!DOCTYPE a [<!ELEMENT a EMPTY]><a/>', '<!DOCTYPE a [<!ELEMENT aEMPTY>]><a/>', '<!DOCTYPE a [<!ELEMENT a (b)* x>]><a/>')
    ok('elementdecl', *['<!DOCTYPE a [<!ELEMENT a %s>]><a/>' % m for m in
        ['EMPTY', 'ANY', 'EMPTY ', '(b)', '( b )', '(b)?', '(b)*', '(b)+', '(b?)', '(b*,c+)', '(b|c)', '(b|c|d)*', '(b,c,d)+', '((b|c),d)', '((b,c)|d)?', '(((b)))', '( b , ( c | d )* , e? )', '(#PCDATA)', '(#PCDATA)*', '( #PCDATA )',
         '(#PCDATA|b)*', '( #PCDATA | b | c )*', '(#PCDATA|b|b)*', '(p:b)']])
    # [52]-[60] attribute-list declarations
    ill('attlistdecl', *['<!DOCTYPE a [<!ATTLIST a %s>]><a/>' % m for m in
        ['x', 'x CDATA', 'x CDATA#IMPLIED', 'xCDATA #IMPLIED', 'x cdata #IMPLIED', 'x CDATA #implied', 'x CDATA IMPLIED', 'x ID#REQUIRED', 'x CDATA #FIXED', 'x CDATA #FIXED"v"', 'x CDATA "v', 'x CDATA v', 'x () #IMPLIED',
         'x (a|) #IMPLIED', 'x (a,b) #IMPLIED', 'x (a b) #IMPLIED', 'x NOTATION #IMPLIED', 'x NOTATION(a) #IMPLIED', 'x NOTATION (1a) #IMPLIED', 'x NOTATION () #IMPLIED', 'x IDREFSS #IMPLIED', 'x ENTITYS #IMPLIED', 'x NMTOKENX #IMPLIED',
         'x CDATA #REQUIRED "v"', 'x CDATA "a" "b"', 'x CDATA #IMPLIED y', 'x CDATA "&u;"', 'x (a|b)"a"', 'x ID #IMPLIED#IMPLIED']],
        '<!DOCTYPE a [<!ATTLIST>]><a/>', '<!DOCTYPE a [<!ATTLISTa>]><a/>', '<!DOCTYPE a [<!ATTLIST a x CDATA "&e;"><!ENTITY e "v">]><a/>')
    ok('attlistdecl', *['<!DOCTYPE a [<!ATTLIST a %s>]><a/>' % m for m in
        ['', ' ', 'x CDATA #IMPLIED', 'x CDATA #REQUIRED', 'x CDATA "v"', "x CDATA 'v'", 'x CDATA #FIXED "v"', 'x ID #IMPLIED y IDREF #IMPLIED z IDREFS #IMPLIED', 'x ENTITY #IMPLIED y ENTITIES #IMPLIED',
         'x NMTOKEN #IMPLIED y NMTOKENS "a b"', 'x (a) #IMPLIED', 'x ( a | b | 1 | -x ) "a"', 'x NOTATION (n) #IMPLIED', 'x NOTATION ( n | m ) "n"', 'x CDATA "&lt;&#38;"', 'x\nCDATA\n#IMPLIED\n', 'x CDATA "" x CDATA "2"', 'xmlns:p CDATA "u"']],
       '<!DOCTYPE a [<!ENTITY e "v"><!ATTLIST a x CDATA "&e;">]><a/>', '<!DOCTYPE a [<!ATTLIST a x CDATA "1"><!ATTLIST a y CDATA "2"><!ATTLIST b z CDATA "3">]><a/>')
    # [70]-[76] entity declarations, [9] EntityValue, WFCs on references
    ill('entitydecl', *['<!DOCTYPE a [<!ENTITY %s>]><a/>' % m for m in
        ['e', 'e v', 'e "v', 'e"v"', 'e "v" "w"', 'e SYSTEM', 'e SYSTEM "s" NDATA', 'e SYSTEM "s"NDATA n', 'e SYSTEM "s" ndata n', 'e PUBLIC "p"', 'e PUBLIC "p" "s" NDATA', 'e "v" NDATA n', 'e "%"', 'e "a%b"', 'e "%p;"', 'e "&"', 'e "&;"',
         'e "&#;"', 'e "a&b"', 'e "\x00"', '% e "v"x', '%e "v"', '% e', '% e SYSTEM "s" NDATA n', 'e "&#x110000;"']])
    ok('entitydecl', *['<!DOCTYPE a [<!ENTITY %s>]><a/>' % m for m in
        ['e "v"', "e 'v'", 'e ""', 'e "<a>"', 'e "</a>"', 'e "&f;"', 'e "&e;"', 'e "\'"', "e '\"'", 'e "&#60;&#38;"', 'e SYSTEM "s"', 'e PUBLIC "p" "s"', 'e SYSTEM "s" NDATA n', 'e PUBLIC "p" "s" NDATA n', 'e\n"v"\n', 'e "]]>"',
         'e "v"><!ENTITY e "w"', 'lt "&#38;#60;"', 'amp "&#38;#38;"']])
    ill('entityref', '<a>&e;</a>', '<a x="&e;"/>', '<!DOCTYPE a><a>&e;</a>', '<!DOCTYPE a []><a>&e;</a>', '<?xml version="1.0" standalone="yes"?><!DOCTYPE a SYSTEM "s"><a>&e;</a>',
        '<!DOCTYPE a [<!ENTITY e "&g;">]><a>&e;</a>', '<!DOCTYPE a [<!ENTITY e "&g;">]><a x="&e;"/>', '<!DOCTYPE a [<!ENTITY e "v">]><a>&E;</a>',
        '<!DOCTYPE a [<!NOTATION n SYSTEM "n"><!ENTITY u SYSTEM "u" NDATA n>]><a>&u;</a>', '<!DOCTYPE a [<!ENTITY u SYSTEM "u" NDATA n>]><a x="&u;"/>', '<!DOCTYPE a [<!ENTITY u SYSTEM "u" NDATA n><!ENTITY e "&u;">]><a>&e;</a>',
        '<!DOCTYPE a [<!ENTITY u SYSTEM "u">]><a x="&u;"/>', '<!DOCTYPE a [<!ENTITY u PUBLIC "p" "u">]><a x="&u;"/>', '<!DOCTYPE a [<!ENTITY u SYSTEM "u"><!ENTITY e "&u;">]><a x="&e;"/>',
        '<!DOCTYPE a [<!ENTITY e "&e;">]><a>&e;</a>', '<!DOCTYPE a [<!ENTITY e "&e;">]><a x="&e;"/>', '<!DOCTYPE a [<!ENTITY e "&f;"><!ENTITY f "&e;">]><a>&e;</a>', '<!DOCTYPE a [<!ENTITY e "&f;"><!ENTITY f "&g;"><!ENTITY g "x&e;">]><a x="&g;"/>',
        '<!DOCTYPE a [<!ENTITY e "<b>">]><a>&e;</a>', '<!DOCTYPE a [<!ENTITY e "</b>">]><a>&e;</a>', '<!DOCTYPE a [<!ENTITY e "</a><a>">]><a>&e;</a>', '<!DOCTYPE a [<!ENTITY e "<b>"><!ENTITY f "</b>">]><a>&e;&f;</a>',
        '<!DOCTYPE a [<!ENTITY e "<b></c>">]><a>&e;</a>', '<!DOCTYPE a [<!ENTITY e "<">]><a>&e;</a>', '<!DOCTYPE a [<!ENTITY e "&#60;">]><a>&e;</a>', '<!DOCTYPE a [<!ENTITY e "&#38;">]><a>&e;</a>', '<!DOCTYPE a [<!ENTITY e "a]]&#62;b">]><a>&e;</a>',
        '<!DOCTYPE a [<!ENTITY e "<b x=\'1\' x=\'2\'/>">]><a>&e;</a>', '<!DOCTYPE a [<!ENTITY e "&#38;#0;">]><a>&e;</a>', '<!DOCTYPE a [<!ENTITY e "&#38;e;">]><a>&e;</a>', '<!DOCTYPE a [<!ENTITY e "<!--a--b-->">]><a>&e;</a>',
        '<!DOCTYPE a [<!ENTITY e "<?xml version=\'1.0\'?>">]><a>&e;</a>', '<!DOCTYPE a [<!ENTITY e "<b>&#38;f;</b>"><!ENTITY f "</b><b>&g;">]><a>&e;</a>')
    ok('entityref', '<a>&lt;&gt;&amp;&apos;&quot;</a>', '<!DOCTYPE a [<!ENTITY e "v">]><a>&e;</a>', '<!DOCTYPE a [<!ENTITY e "v">]><a x="&e;"/>', '<!DOCTYPE a [<!ENTITY u SYSTEM "u">]><a>&u;</a>',
       '<!DOCTYPE a SYSTEM "s"><a>&e;</a>', '<!DOCTYPE a SYSTEM "s"><a x="&e;"/>', '<?xml version="1.0" standalone="no"?><!DOCTYPE a SYSTEM "s"><a>&e;</a>', '<!DOCTYPE a [<!ENTITY e "&e;">]><a/>',
       '<!DOCTYPE a [<!ENTITY e "&f;&f;"><!ENTITY f "v">]><a>&e;</a>', '<!DOCTYPE a [<!ENTITY e "<b/>">]><a>&e;</a>', '<!DOCTYPE a [<!ENTITY e "<b>x</b><!--c--><?p?>&#38;lt;">]><a>&e;</a>',
       '<!DOCTYPE a [<!ENTITY e "&#38;#60;">]><a>&e;</a>', '<!DOCTYPE a [<!ENTITY e "<b>"><!ENTITY u SYSTEM "u" NDATA n>]><a/>', '<!DOCTYPE a [<!ENTITY e "]]&#38;gt;">]><a>&e;</a>')
    # the same entity referenced twice, once where it is legal and once where it is not, in both orders
    # (a check that is done once per entity and remembered must remember WHERE it was done)
    D1 = '<!DOCTYPE a [<!ENTITY e "<b/>"><!ENTITY o "x&e;"><!ENTITY k "x]]>y"><!ENTITY u SYSTEM "u">]>'
    ill('entityref-twice', D1 + '<a>&e;<c x="&e;"/></a>', D1 + '<a><c x="&e;"/>&e;</a>', D1 + '<a>&e;<c x="&o;"/></a>', D1 + '<a>&o;<c x="&o;"/></a>',
        D1 + '<a x="&k;">&k;</a>', D1 + '<a>&k;<c x="&k;"/></a>', D1 + '<a>&u;<c x="&u;"/></a>', D1 + '<a>&e;&e;<c x="y" z="&e;"/></a>',
        D1 + '<a><c>&e;</c><c>&o;</c><c x="&e;"/></a>')
    ok('entityref-twice', D1 + '<a>&e;&e;&o;</a>', D1 + '<a x="&k;"><c x="&k;"/></a>', D1 + '<a>&u;&u;</a>', D1 + '<a>&e;<c x="&k;"/>&o;</a>')
    # [82] [83] notation declarations
    ill('notationdecl', *['<!DOCTYPE a [<!NOTATION %s>]><a/>' % m for m in ['n', 'n SYSTEM', 'n "s"', 'n PUBLIC', 'n PUBLIC "p""s"', 'n SYSTEM "s" "t"', 'n PUBLIC "{"', 'nSYSTEM "s"', 'n system "s"', 'n SYSTEM "s" NDATA x', 'n PUBLIC "p" NDATA']])
    ok('notationdecl', *['<!DOCTYPE a [<!NOTATION %s>]><a/>' % m for m in ['n SYSTEM "s"', "n SYSTEM 's' ", 'n PUBLIC "p"', 'n PUBLIC "p" "s"', "n PUBLIC 'p' 's'", 'n PUBLIC "p" ', 'n\tPUBLIC\n"p"\r"s"\n']])
    # parameter entities in the internal subset
    ill('pe', '<!DOCTYPE a [<!ENTITY e "%p;">]><a/>', '<!DOCTYPE a [<!ENTITY % p "x"><!ENTITY e "%p;">]><a/>', '<!DOCTYPE a [<!ENTITY % p "EMPTY"><!ELEMENT a %p;>]><a/>', '<!DOCTYPE a [<!ENTITY % p "x"><!ATTLIST a x CDATA "%p;" %p;>]><a/>', '<a>%p;</a><b/>')
    # Namespaces in XML
    nsill('ns', '<a x:="1"/>', '<a:b/>', '<a p:x="1"/>', '<a:b:c xmlns:a="u"/>', '<a x:y:z="1" xmlns:x="u"/>', '<:a/>', '<a:/>', '<a :x="1"/>', '<a x:="1"/>', '<a xmlns:p="u" xmlns:q="u" p:x="1" q:x="2"/>',
          '<a xmlns:xml="u"/>', '<a xmlns:p="http://www.w3.org/XML/1998/namespace"/>', '<a xmlns="http://www.w3.org/XML/1998/namespace"/>', '<a xmlns:xmlns="u"/>', '<a xmlns:p="http://www.w3.org/2000/xmlns/"/>',
          '<a xmlns="http://www.w3.org/2000/xmlns/"/>', '<a xmlns:p=""/>', '<xmlns:a xmlns:xmlns="u"/>', '<xmlns:a/>', '<a><p:b xmlns:p="u"/><p:c/></a>', '<a><?p:i?></a>', '<!DOCTYPE a [<!ENTITY x:y "v">]><a/>',
          '<!DOCTYPE a [<!NOTATION x:y SYSTEM "s">]><a/>', '<!DOCTYPE a:b:c><a/>', '<!DOCTYPE a [<!ELEMENT a:b:c EMPTY>]><a/>', '<!DOCTYPE a [<!ATTLIST a x:y:z CDATA #IMPLIED>]><a/>', '<a xmlns:p="u"><b xmlns:p=""/></a>',
          '<!DOCTYPE a [<!ENTITY e "<p:b/>">]><a>&e;</a>', '<a xmlns:p="u" xmlns:q="&#117;" p:x="" q:x=""/>')
    ok('ns', '<p:a xmlns:p="u"/>', '<a xmlns:p="u" p:x="1" x="2"/>', '<a xmlns="u" xmlns:p="u" x="1" p:x="2"/>', '<a xml:lang="en" xml:space="preserve"/>', '<a xmlns:xml="http://www.w3.org/XML/1998/namespace"/>',
       '<a xmlns=""/>', '<a xmlns="u"><b xmlns=""/></a>', '<a xmlns:p="u"><p:b><p:c p:d=""/></p:b></a>', '<a xmlns:p="u" xmlns:q="v" p:x="1" q:x="2"/>', '<!DOCTYPE a [<!ENTITY e "<p:b/>">]><a xmlns:p="u">&e;</a>',
       '<!DOCTYPE a [<!ATTLIST a xmlns:p CDATA "u">]><a p:x="1"/>', '<xmlnsfoo xmlnsbar="1"/>', '<a xmlnsx="1"/>')
    return F

# ------------------------------------------------------------------ classifiers of known findings (narrow: shape of the failing string)
NAME_POS = re.compile(r'''(<!ENTITY\s+(?:%\s+)?|<!NOTATION\s+|NDATA\s+|<\?|&|NOTATION\s*\(\s*|\|\s*)([^\s;<>&?"'()|%=\[\]/]*)''')

def repair_d04(s):
    """prefix every Name (not NCName) position -- entity, notation, NDATA, PI target, notation-type name,
    entity reference -- whose first character is a NameChar but not a NameStartChar, or which is empty, with '_'"""
    def fix(m):
        nm = m.group(2)
        if nm.startswith('#') and m.group(1) == '&':
            return m.group(0)
        if nm == '' and (m.group(1).startswith('|') or m.group(1).startswith('NOTATION')):
            return m.group(0)          # a `|` of a content model, or a group that opens: not a name position
        if nm == '':
            # an empty name is accepted only where white space, "?>", ";", ")" or "|" follows
            nxt = m.string[m.end():m.end() + 2]
            if m.group(1) == '<?' and not (nxt[:1] in (' ', '\t', '\r', '\n') or nxt == '?>'):
                return m.group(0)
            if m.group(1) == '&' and nxt[:1] != ';':
                return m.group(0)
            return m.group(1) + '_'
        if not is_name_start(nm[0]) and is_name_char(nm[0]):
            return m.group(1) + '_' + nm
        return m.group(0)
    return NAME_POS.sub(fix, s)

NSC = [(0x3A, 0x3A), (0x41, 0x5A), (0x5F, 0x5F), (0x61, 0x7A), (0xC0, 0xD6), (0xD8, 0xF6), (0xF8, 0x2FF), (0x370, 0x37D), (0x37F, 0x1FFF), (0x200C, 0x200D),
       (0x2070, 0x218F), (0x2C00, 0x2FEF), (0x3001, 0xD7FF), (0xF900, 0xFDCF), (0xFDF0, 0xFFFD), (0x10000, 0xEFFFF)]
NC = NSC + [(0x2D, 0x2E), (0x30, 0x39), (0xB7, 0xB7), (0x300, 0x36F), (0x203F, 0x2040)]
def is_name_start(c): return any(lo <= ord(c) <= hi for lo, hi in NSC)
def is_name_char(c): return any(lo <= ord(c) <= hi for lo, hi in NC)

ENTITY_DECL = re.compile(r'<!ENTITY\s+([^\s%]+)\s+(["\'])(.*?)\2', re.S)

def entity_literals(s):
    return {m.group(1): m.group(3) for m in ENTITY_DECL.finditer(s)}

def prolog_head(s):
    """the text up to and including the `]>` that closes the internal subset ('' when there is none);
    quoted literals and comments inside the subset are skipped, so a `]>` inside a literal does not count"""
    i = s.find('<!DOCTYPE')
    if i < 0: return ''
    j = s.find('[', i)
    k = s.find('>', i)
    if j < 0 or (0 <= k < j): return ''
    p = j + 1
    while p < len(s):
        c = s[p]
        if c in '"\'':
            q = s.find(c, p + 1)
            if q < 0: return ''
            p = q + 1
        elif s.startswith('<!--', p):
            q = s.find('-->', p + 4)
            if q < 0: return ''
            p = q + 3
        elif s.startswith('<?', p):
            q = s.find('?>', p + 2)
            if q < 0: return ''
            p = q + 2
        elif c == ']':
            m = re.match(r'\][ \t\r\n]*>', s[p:])
            return s[:p + m.end()] if m else ''
        else:
            p += 1
    return ''

def references_entity_with_markup(s):
    """C01 / D13: some REFERENCED general entity has a literal that contains a raw '<' or a character
    reference to '&' (#38) or '<' (#60): its replacement text contains markup (or a reference that only
    exists after the first expansion), which the implementation exposes as text"""
    ents = entity_literals(s)
    for nm, lit in ents.items():
        if ('<' in lit or re.search(r'&#(x0*(26|3[cC])|0*(38|60));', lit)) and ('&%s;' % nm) in s:
            return True
    return False

def has_reference_to_markup_entity(s):
    """C02 / WF13: some REFERENCED general entity has a literal that contains a character reference to '&' (#38)
    or '<' (#60): its replacement text contains markup or a reference that only exists after the
    first expansion (a literal with a raw '<' is checked by the implementation since the repairs
    c00bacf / ba6ea81, so it is no longer part of this class)"""
    ents = entity_literals(s)
    for nm, lit in ents.items():
        if re.search(r'&#(x0*(26|3[cC])|0*(38|60));', lit) and ('&%s;' % nm) in s:
            return True
    return False
