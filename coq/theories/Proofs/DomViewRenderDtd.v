(** * C01, the DOM view: from the abstract document to the hypotheses of Proofs/DomViewDtdDoc.v.

    For the rendering of a valid abstract document with a document type declaration:
    - [hyps_read]: the internal subset that is read back satisfies [dtd_hyps] (simple entity values, no declaration
      of a predefined name, distinct entity / notation names, normalized public identifiers: all demanded by [valid],
      the exclusion of (g) and [accepted_profile]);
    - [good_read]: the per-element condition [attrs_okb] (no #REQUIRED definition without a specified attribute: D36)
      holds on the tree that is read back when it holds on the
      canonical tree: it depends on the names of the attributes (a permutation) and on the names and kinds of the
      definitions only.  [Known_ATTR d] is its negation on the canonical tree, a decidable predicate of [d]. *)
From Coq Require Import List NArith Arith Lia Bool Permutation.
From XmlRs Require Import Base.CPred Spec.XmlChars Spec.XmlWF Spec.Infoset Proofs.XmlWFRender Proofs.XmlWFSyntaxRenderNode
  Proofs.XmlWFSyntaxRenderCheck Proofs.XmlWFSyntaxRenderDoc Proofs.XmlWFSyntaxRenderDtd Proofs.XmlWFSyntaxRenderDtdElem
  Proofs.XmlWFSyntaxRenderDtdDoc Proofs.XmlWFSyntaxRenderDtdCheck Proofs.XmlWFSyntaxRenderDtdWf Proofs.XmlWFSyntaxRenderTokens
  Proofs.DomViewRender.
From XmlRs Require Proofs.XmlWFSyntaxLex Proofs.XmlWFSyntaxCheck Proofs.XmlWFSyntaxConvCheck Proofs.XmlWFSyntaxConvDtdDoc Proofs.XmlWFSyntaxConvDtdCheck
  Proofs.DomViewBase Proofs.DomViewElem Proofs.DomViewDtd Proofs.DomViewDtdDoc.
Import ListNotations.
Local Open Scope nat_scope.

Module W := Spec.XmlWF.
Module E := Proofs.DomViewElem.
Module D := Proofs.DomViewDtd.
Module DD := Proofs.DomViewDtdDoc.
Module QC := Proofs.XmlWFSyntaxConvDtdCheck.

(** ** public identifiers in normalized form *)
Lemma pubid_map_id (p : str) : forallb (eval spec_PubidChar) p = true -> contains c_cr p = false -> contains c_lf p = false ->
  map (fun c => if isS c then c_sp else c) p = p.
Proof.
  induction p as [|c p IH]; intros Hp Hcr Hlf; [reflexivity|]. cbn [forallb] in Hp. apply andb_true_iff in Hp. destruct Hp as [Hc Hp].
  unfold contains in *. cbn [existsb] in Hcr, Hlf. apply orb_false_iff in Hcr. destruct Hcr as [Hcr1 Hcr2]. apply orb_false_iff in Hlf. destruct Hlf as [Hlf1 Hlf2].
  cbn [map]. rewrite (IH Hp Hcr2 Hlf2). f_equal. destruct (isS c) eqn:ES; [|reflexivity].
  destruct (isS_cases c ES) as [->|[->|[->| ->]]]; try reflexivity; try discriminate Hc; try discriminate Hcr1; discriminate Hlf1.
Qed.

Lemma pub_norm_id (p : str) : pubid_ok p = true -> pub_norm p = p.
Proof.
  unfold pubid_ok. intros H. apply andb_true_iff in H. destruct H as [H Hn]. apply andb_true_iff in H. destruct H as [H Hlf].
  apply andb_true_iff in H. destruct H as [Hc Hcr]. apply negb_true_iff in Hcr, Hlf. unfold pub_norm. rewrite (pubid_map_id p Hc Hcr Hlf).
  apply C.Wstr_eqb_eq. exact Hn.
Qed.

(** ** the hypotheses about the document type declaration *)
Lemma distinct_NoDup (l : list str) : distinct l = true -> NoDup l.
Proof. intros H. apply nodup_names_NoDup. exact H. Qed.

Lemma map_filter_R2 {B} (g : decl -> B) (p : decl -> bool) a b : (forall d0 d', R2 d0 d' -> g d0 = g d') -> (forall d0 d', R2 d0 d' -> p d0 = p d') ->
  Forall2 R2 a b -> map g (filter p a) = map g (filter p b).
Proof.
  intros Hg Hp H. induction H as [|x y a b Hxy _ IH]; [reflexivity|]. cbn [filter]. rewrite <- (Hp x y Hxy). destruct (p x); [cbn [map]; now rewrite (Hg x y Hxy), IH|exact IH].
Qed.

Lemma canon_entity_names (l : list adecl) :
  map DD.dentity_name (filter DD.is_dentity (map to_decl l))
  = flat_map (fun x => match x with ADEntity nm _ | ADExtEntity nm _ _ _ => [nm] | _ => [] end) l.
Proof. induction l as [|d l IH]; [reflexivity|]. destruct d; cbn [map to_decl filter DD.is_dentity flat_map app DD.dentity_name]; now rewrite IH. Qed.

Lemma canon_notation_names (l : list adecl) :
  map fst (DD.s_nots (map to_decl l)) = flat_map (fun x => match x with ADNotation nm _ _ => [nm] | _ => [] end) l.
Proof.
  induction l as [|d l IH]; [reflexivity|]. unfold DD.s_nots in *. destruct d; cbn [map to_decl flat_map app fst]; now rewrite IH.
Qed.

Lemma canon_pubs (l : list adecl) : forallb Infoset.decl_ok l = true -> Forall DD.spec_pub_ok (map to_decl l).
Proof.
  induction l as [|d l IH]; intros H; [constructor|]. cbn [forallb] in H. apply andb_true_iff in H. destruct H as [Hd Hl]. cbn [map]. constructor; [|exact (IH Hl)].
  destruct d as [nm v|nm pub sys nd|nm pub sys|el defs|nm spec|s|t x]; cbn [to_decl DD.spec_pub_ok]; try exact I.
  - destruct pub as [pb|]; [|exact I]. cbn [Infoset.decl_ok] in Hd. apply pub_norm_id.
    apply andb_true_iff in Hd. destruct Hd as [Hd _]. apply andb_true_iff in Hd. destruct Hd as [_ Hd]. exact Hd.
  - destruct pub as [pb|]; [|exact I]. cbn [Infoset.decl_ok] in Hd. apply pub_norm_id.
    apply andb_true_iff in Hd. destruct Hd as [Hd _]. apply andb_true_iff in Hd. destruct Hd as [Hd _]. apply andb_true_iff in Hd. destruct Hd as [_ Hd]. exact Hd.
Qed.

Lemma pubs_R2 a b : Forall2 R2 a b -> Forall DD.spec_pub_ok a -> Forall DD.spec_pub_ok b.
Proof.
  induction 1 as [|x y a b Hxy _ IH]; intros H; [constructor|]. inversion H as [|? ? Hx Ha]; subst. constructor; [|exact (IH Ha)].
  destruct Hxy as [->|[(? & ? & ? & -> & ->)|(? & ? & ? & -> & ->)]]; [exact Hx|exact I|exact I].
Qed.

Theorem hyps_read (d : adoc) dt (l' : list decl) : shape_ok d = true -> a_doctype d = Some dt ->
  no_predef_decl (opt_list (ad_subset dt)) = true -> no_cdend (opt_list (ad_subset dt)) = true ->
  e_must_declare (doc_env (to_xdoc d)) = true -> Forall2 decl_read (opt_list (ad_subset dt)) l' ->
  DD.dtd_hyps (e_must_declare (doc_env (to_xdoc d))) (extid_of (ad_pub dt) (ad_sys dt)) l'.
Proof.
  intros Hs Hdt Hnp Hcd Hmust Hl'. set (l := opt_list (ad_subset dt)) in *. pose proof (R2_read l l' Hl') as HR.
  unfold shape_ok in Hs. rewrite Hdt in Hs. apply andb_true_iff in Hs. destruct Hs as [_ Hs].
  apply andb_true_iff in Hs. destruct Hs as [Hs Hdn]. apply andb_true_iff in Hs. destruct Hs as [Hs Hde].
  apply andb_true_iff in Hs. destruct Hs as [Hs Hdecls]. apply andb_true_iff in Hs. destruct Hs as [_ Hids]. fold l in Hdecls, Hde, Hdn.
  destruct (conv_hyps_read _ _ Hl' Hdecls Hcd) as [_ H2].
  constructor.
  - exact Hmust.
  - exact H2.
  - rewrite (entities_read l l' Hl'). exact (entities_clean l Hnp).
  - rewrite <- (map_filter_R2 DD.dentity_name DD.is_dentity _ _ ltac:(intros d0 d' H; r2 H) ltac:(intros d0 d' H; r2 H) HR).
    rewrite canon_entity_names. apply distinct_NoDup. exact Hde.
  - assert (En : DD.s_nots l' = DD.s_nots (map to_decl l)) by (unfold DD.s_nots; symmetry; apply flat_map_R2; [intros d0 d' H; r2 H|exact HR]). rewrite En.
    rewrite canon_notation_names. apply distinct_NoDup. exact Hdn.
  - unfold extid_of. destruct (ad_pub dt) as [pb|]; destruct (ad_sys dt) as [sy|]; try exact I. apply pub_norm_id.
    apply andb_true_iff in Hids. destruct Hids as [Hids _]. exact Hids.
  - exact (pubs_R2 _ _ HR (canon_pubs l Hdecls)).
Qed.

(** ** the per-element condition on the tree that is read back *)
Lemma existsb_perm {A} (g : A -> bool) a b : Permutation a b -> existsb g a = existsb g b.
Proof.
  induction 1 as [|x l1 l2 _ IH|x y l0|l1 l2 l3 _ IH1 _ IH2]; cbn [existsb]; [reflexivity|now rewrite IH| |congruence].
  rewrite !orb_assoc. f_equal. apply orb_comm.
Qed.

Lemma mem_filter_names {B} (k : str) (p : str -> bool) (atts : list (str * B)) :
  mem k (map fst (filter (fun a => p (fst a)) atts)) = existsb (fun x => str_eqb k x && p x) (map fst atts).
Proof.
  unfold mem. induction atts as [|a atts IH]; [reflexivity|]. cbn [filter map existsb]. destruct (p (fst a)) eqn:E; cbn [map existsb]; rewrite IH.
  - now rewrite andb_true_r.
  - now rewrite andb_false_r.
Qed.

Section Good.
Variable f' : nat.
Variable en : env.
Hypothesis Hstd : std_predef en.
Variables (l : list adecl) (l' : list decl).
Hypothesis Hl : Forall2 decl_read l l'.
Notation sub0 := (map to_decl l).
Notation f := (S (S f')).

Lemma okb_names {B1 B2} el (a1 : list (str * B1)) (a2 : list (str * B2)) (b1 : list (str * list avpiece)) (b2 : list (str * list avpiece)) :
  Permutation (map fst b1) (map fst b2) -> D.attrs_okb l' el b1 = D.attrs_okb sub0 el b2.
Proof.
  intros Hp. unfold D.attrs_okb. pose proof (attdefs_R f' en Hstd l l' el Hl) as HR.
  induction HR as [|x y D0 D' [Hxy Hk] _ IH]; [reflexivity|]. cbn [forallb]. rewrite IH. f_equal.
  rewrite <- Hxy. destruct (snd x) as [| |fx v]; destruct (snd y) as [| |fy w]; try destruct Hk; try reflexivity.
  unfold W.mem, mem. apply existsb_perm. exact Hp.
Qed.

Lemma okb_same el atts : D.attrs_okb l' el atts = D.attrs_okb sub0 el atts.
Proof. exact (okb_names (B1 := unit) (B2 := unit) el [] [] atts atts (Permutation_refl _)). Qed.

Lemma tree_good_same : forall x, E.tree_good (D.attrs_okb l') x = E.tree_good (D.attrs_okb sub0) x.
Proof.
  apply (V.xcontent_ind2 (fun x => E.tree_good (D.attrs_okb l') x = E.tree_good (D.attrs_okb sub0) x)).
  intros x Hk. destruct x as [c|s|n|nm|s|tg dt|nm atts et kids|nm items]; try reflexivity; cbn [E.tree_good].
  - rewrite okb_same. f_equal. induction Hk as [|y kids Hy _ IH]; [reflexivity|]. cbn [forallb]. now rewrite Hy, IH.
  - induction Hk as [|y items Hy _ IH]; [reflexivity|]. cbn [forallb]. now rewrite Hy, IH.
Qed.

Definition good_to (x : anode) : Prop :=
  forall items, reads x items -> forall r0 r', mapM (expand f en []) (to_x x) = inr r0 -> mapM (expand f en []) items = inr r' ->
  allc (tree_ok f en) r0 = None -> forallb (E.tree_good (D.attrs_okb sub0)) r0 = true -> forallb (E.tree_good (D.attrs_okb l')) r' = true.

Lemma text_good (ok : str -> list (str * list avpiece) -> bool) : forall items, Forall textlike items -> forall r', mapM (expand f en []) items = inr r' ->
  forallb (E.tree_good ok) r' = true.
Proof.
  induction 1 as [|x items Hx _ IH]; intros r' Hm.
  - cbn [mapM] in Hm. injection Hm as <-. reflexivity.
  - apply V.mapM_cons_inv in Hm. destruct Hm as (y & ys & Ey & Eys & ->). cbn [forallb]. rewrite (IH ys Eys), andb_true_r.
    destruct Hx as [ch|ch Hch|s|nm ch Hn]; try (rewrite expand_leaf in Ey by exact I; injection Ey as <-; reflexivity).
    destruct (predef_expand_tok2 f' en Hstd nm ch Hn) as (its & E1 & _ & E3). rewrite E1 in Ey. injection Ey as <-. cbn [E.tree_good]. apply E3.
Qed.

Lemma same_good r : forallb (E.tree_good (D.attrs_okb sub0)) r = true -> forallb (E.tree_good (D.attrs_okb l')) r = true.
Proof. induction r as [|x r IH]; [reflexivity|]. cbn [forallb]. intros H. apply andb_true_iff in H. destruct H as [H1 H2]. now rewrite tree_good_same, H1, (IH H2). Qed.

Lemma kids_good kids : Forall (fun y => syn_ok y = true -> good_to y) kids -> forallb syn_ok kids = true ->
  forall kitems, reads_list kids kitems -> forall ck rk, mapM (expand f en []) (flat_map to_x kids) = inr ck -> mapM (expand f en []) kitems = inr rk ->
  allc (tree_ok f en) ck = None -> forallb (E.tree_good (D.attrs_okb sub0)) ck = true -> forallb (E.tree_good (D.attrs_okb l')) rk = true.
Proof.
  induction 1 as [|y t Hy _ IH]; intros Hok kitems Hr ck rk Hm Hm' Ht Hg.
  - cbn [reads_list] in Hr. subst kitems. cbn [flat_map mapM] in Hm, Hm'. injection Hm' as <-. reflexivity.
  - cbn [forallb] in Hok. apply andb_true_iff in Hok. destruct Hok as [Hoy Hot].
    cbn [reads_list] in Hr. destruct Hr as (iy & its & -> & Ry & Rt).
    cbn [flat_map] in Hm. apply V.mapM_app_inv in Hm. destruct Hm as (cy & ct & My & Mt & ->).
    apply V.mapM_app_inv in Hm'. destruct Hm' as (ry & rt & My' & Mt' & ->).
    apply V.allc_app_inv in Ht. destruct Ht as [Ty Tt]. rewrite forallb_app in Hg. apply andb_true_iff in Hg. destruct Hg as [Gy Gt].
    rewrite forallb_app, (Hy Hoy iy Ry cy ry My My' Ty Gy), (IH Hot its Rt ct rt Mt Mt' Tt Gt). reflexivity.
Qed.

Theorem good_read : forall x, syn_ok x = true -> good_to x.
Proof.
  induction x as [s|nm|s|t d|nm atts kids IHk] using anode_ind2; intros Hok items Hr r0 r' Hm Hm' Ht Hg; cbn [syn_ok] in Hok; cbn [to_x] in Hm.
  - destruct Hr as [Htl _]. exact (text_good _ items Htl r' Hm').
  - cbn [reads] in Hr. subst items. rewrite Hm in Hm'. injection Hm' as <-. apply same_good. exact Hg.
  - cbn [reads] in Hr. subst items. rewrite Hm in Hm'. injection Hm' as <-. apply same_good. exact Hg.
  - cbn [reads] in Hr. subst items. rewrite Hm in Hm'. injection Hm' as <-. apply same_good. exact Hg.
  - apply andb_true_iff in Hok. destruct Hok as [Hok _]. apply andb_true_iff in Hok. destruct Hok as [Hok Hkids].
    apply reads_elem in Hr. destruct Hr as (parsed & et & kitems & -> & Hrd & Het & Rk).
    fold (canon_atts atts) in Hm.
    apply V.mapM_cons_inv in Hm. destruct Hm as (y & ys & Ey & Eys & ->). cbn [mapM] in Eys. injection Eys as <-.
    rewrite expand_elem_g in Ey. destruct (mapM (expand f en []) (flat_map to_x kids)) as [e|ck] eqn:Ek; [discriminate|]. injection Ey as <-.
    apply V.mapM_cons_inv in Hm'. destruct Hm' as (y' & ys' & Ey' & Eys' & ->). cbn [mapM] in Eys'. injection Eys' as <-.
    rewrite expand_elem_g in Ey'. destruct (mapM (expand f en []) kitems) as [e|rk] eqn:Ek'; [discriminate|]. injection Ey' as <-.
    apply V.allc_cons_inv in Ht. destruct Ht as [Ht _]. apply tree_ok_elem_g in Ht. destruct Ht as (_ & _ & _ & Tk).
    cbn [forallb E.tree_good] in Hg |- *. rewrite andb_true_r in Hg. apply andb_true_iff in Hg. destruct Hg as [Go Gk]. rewrite andb_true_r.
    rewrite (okb_names (B1 := unit) (B2 := unit) nm [] [] parsed (canon_atts atts)).
    + rewrite Go. cbn [andb]. exact (kids_good kids IHk Hkids kitems Rk ck rk Ek Ek' Tk Gk).
    + rewrite (atts_read_names atts parsed Hrd). unfold canon_atts. rewrite map_map. reflexivity.
Qed.
End Good.

(** ** the condition on the tree read back from the rendering (proof as [render_infoset_dtd]) *)
Definition Known_ATTR (d : adoc) : bool :=
  match a_doctype d, check_doc (to_xdoc d) with
  | Some dt, inr root => negb (E.tree_good (D.attrs_okb (map to_decl (opt_list (ad_subset dt)))) root)
  | _, _ => false
  end.

Theorem render_good_dtd (d : adoc) (c : choices) dt : valid d = true -> a_doctype d = Some dt ->
  no_predef_decl (opt_list (ad_subset dt)) = true -> Known_ATTR d = false ->
  exists xd' root', parse_document (render d c) = Some xd' /\ check_doc xd' = inr root' /\
    E.tree_good (D.attrs_okb (match x_doctype xd' with Some dt1 => dt_subset dt1 | None => [] end)) root' = true.
Proof.
  intros Hv Hdt Hnp Hka. unfold valid in Hv. apply andb_true_iff in Hv. destruct Hv as [Hs Hv]. unfold Known_ATTR in Hka. rewrite Hdt in Hka.
  destruct (check_doc (to_xdoc d)) as [r|root0] eqn:Ec; [discriminate|]. apply negb_false_iff in Hka. apply andb_true_iff in Hv. destruct Hv as [_ Hv].
  destruct (ns_doc (to_xdoc d) root0) as [r|] eqn:En; [discriminate|]. clear Hv.
  destruct (render_parse_dtd d c dt Hs Hdt) as (item & l' & Hrd & Hl' & Hq).
  pose proof (XmlWFSyntaxConvDtdDoc.q_parse_document_spec _ _ Hq) as Hp.
  destruct d as [ver enc sa m1 dt0 m2 root m3]. cbn [a_doctype a_root a_misc1 a_misc2 a_misc3] in *. subst dt0.
  pose proof Hs as Hs'. unfold shape_ok in Hs'. cbn [a_version a_encoding a_standalone a_misc1 a_misc2 a_misc3 a_root a_doctype] in Hs'.
  apply andb_true_iff in Hs'. destruct Hs' as [Hs' Hdtok]. apply andb_true_iff in Hs'. destruct Hs' as [_ Hroot].
  destruct root as [s|nm|s|t0 d0|nm atts kids]; try discriminate Hroot.
  pose proof (node_ok_syn _ Hroot) as Hsyn.
  assert (Hdecls : forallb Infoset.decl_ok (opt_list (ad_subset dt)) = true).
  { do 2 (apply andb_true_iff in Hdtok; destruct Hdtok as [Hdtok _]). apply andb_true_iff in Hdtok. tauto. }
  set (l := opt_list (ad_subset dt)) in *.
  set (xd0 := to_xdoc {| a_version := ver; a_encoding := enc; a_standalone := sa; a_misc1 := m1; a_doctype := Some dt; a_misc2 := m2; a_root := AElem nm atts kids; a_misc3 := m3 |}) in *.
  match type of Hp with _ = Some ?x => set (xd' := x) in * end.
  assert (Eenv : doc_env xd' = doc_env xd0).
  { unfold doc_env, xd', xd0. cbn [to_xdoc x_doctype x_decl dt_subset dt_extid a_doctype a_version a_standalone]. fold l. rewrite (entities_read l l' Hl'). reflexivity. }
  assert (Efuel : ent_fuel xd' = ent_fuel xd0) by (unfold ent_fuel; now rewrite Eenv).
  assert (Esub0 : match x_doctype xd0 with Some dt1 => dt_subset dt1 | None => [] end = map to_decl l) by reflexivity.
  assert (Esub' : match x_doctype xd' with Some dt1 => dt_subset dt1 | None => [] end = l') by reflexivity.
  set (en := doc_env xd0) in *.
  assert (Een : en = {| e_ents := with_predefined (entities_of (map to_decl l)); e_must_declare := e_must_declare en |}) by reflexivity.
  assert (Hstd : std_predef en) by (rewrite Een; apply std_of_clean; apply entities_clean; exact Hnp).
  assert (Hf : exists f', ent_fuel xd0 = S (S f')).
  { unfold ent_fuel. fold en. rewrite Een. cbn [e_ents]. unfold with_predefined. rewrite app_length, map_length. cbn [predefined length].
    exists (length (entities_of (map to_decl l)) + 4). lia. }
  destruct Hf as [f' Hf].
  unfold check_doc in Ec. cbv zeta in Ec. rewrite Esub0 in Ec. fold en in Ec. rewrite Hf in Ec.
  destruct (subset_ok (S (S f')) (e_must_declare en) [] (map to_decl l)) as [r|] eqn:Esok; [discriminate|].
  change (x_root xd0) with (XElem nm (canon_atts atts) (Some nm) (flat_map to_x kids)) in Ec.
  set (rootc := XElem nm (canon_atts atts) (Some nm) (flat_map to_x kids)) in *.
  destruct (expand (S (S f')) en [] rootc) as [r|root0'] eqn:Eexp; [discriminate|]. destruct (tree_ok (S (S f')) en root0') eqn:Etree; [discriminate|].
  injection Ec as <-.
  unfold ns_doc in En. cbv zeta in En. rewrite Esub0 in En. fold en in En. rewrite Hf in En.
  apply V.andc_none in En. destruct En as [_ En]. apply V.andc_none in En. destruct En as [_ En]. apply V.andc_none in En. destruct En as [_ Nroot].
  pose proof (defaulted_read f' en Hstd l l') as Hdef.
  assert (Hm0 : mapM (expand (S (S f')) en []) (to_x (AElem nm atts kids)) = inr [root0']).
  { cbn [to_x mapM]. fold (canon_atts atts). fold rootc. rewrite Eexp. reflexivity. }
  assert (Ht0 : allc (tree_ok (S (S f')) en) [root0'] = None) by (apply C.allc_cons; [exact Etree|reflexivity]).
  destruct (reads_checks_g f' en Hstd (map to_decl l) l' (fun el a1 a2 => Hdef el a1 a2 Hl') (AElem nm atts kids) Hsyn [item] Hrd [root0'] Hm0 Ht0)
    with (s0 := @nil (str * str)) (s' := @nil (str * str)) as (r' & E' & T' & _).
  { intros p. reflexivity. }
  { apply C.allc_cons; [exact Nroot|reflexivity]. }
  assert (Hg0 : forallb (E.tree_good (D.attrs_okb (map to_decl l))) [root0'] = true) by (cbn [forallb]; rewrite Hka; reflexivity).
  pose proof (good_read f' en Hstd l l' Hl' (AElem nm atts kids) Hsyn [item] Hrd [root0'] r' Hm0 E' Ht0 Hg0) as Hgood.
  apply V.mapM_cons_inv in E'. destruct E' as (root' & ys & Er & Eys & ->). cbn [mapM] in Eys. injection Eys as <-.
  apply V.allc_cons_inv in T'. destruct T' as [T' _].
  exists xd', root'. split; [exact Hp|]. split.
  { unfold check_doc. cbv zeta. rewrite Esub', Efuel, Eenv. fold en. rewrite Hf.
    rewrite (subset_ok_read f' (e_must_declare en) l l' Hl' Hdecls Hnp [] ltac:(intros x []) Esok).
    change (x_root xd') with item. rewrite Er, T'. reflexivity. }
  rewrite Esub'. cbn [forallb] in Hgood. rewrite andb_true_r in Hgood. exact Hgood.
Qed.
