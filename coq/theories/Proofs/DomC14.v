(** * Statements and proofs behind Properties/C14.v (that file only names them) *)
From Coq Require Import List NArith Bool.
From XmlRs Require Import Base.CPred Model.Store Model.StoreCheck Model.DomOps
  Proofs.DomTree Proofs.DomOpsInv Proofs.DomOrder Proofs.DomOrderInv Proofs.DomCheck Proofs.DomExample.
Import ListNotations.
Open Scope N_scope.

(** keys against the walk, for one document *)
Theorem order_inv_of_tree : forall s, TreeInv s -> OrderOK s -> OrderInv s.
Proof. exact order_inv. Qed.

Theorem good_step : forall w o, WGood w -> WGood (fst (step w o)).
Proof. exact step_good. Qed.

(** C14, first sentence: at every point of every history, in every document of the world.
    [WGood init]: every document satisfies the tree invariant and its order vector is either
    marked stale or equal to the walk (as after [XmlDocument::new]). *)
Theorem order_inv_reachable :
  forall init ops k s, WGood init -> doc_at (run init ops) k = Some s -> OrderInv s.
Proof.
  intros init ops k s Hi Hd. pose proof (run_good ops init Hi) as Hw.
  destruct (doc_at_P Good _ _ _ Hw Hd) as [T O]. apply order_inv; assumption.
Qed.

(** unfolded: the five facts [OrderInv] packs *)
Corollary keys_after_any_history :
  forall init ops k s, WGood init -> doc_at (run init ops) k = Some s ->
    Walk s (sroot s) (preorder s)
    /\ (forall x, In x (preorder s) <-> attached s x)
    /\ (forall x, attached s x -> key s x <> 0)
    /\ (forall l1 x l2 y l3, preorder s = l1 ++ x :: l2 ++ y :: l3 -> key s x < key s y)
    /\ (forall x, ~ attached s x -> key s x = 0).
Proof.
  intros init ops k s Hi Hd. destruct (order_inv_reachable init ops k s Hi Hd) as [W A N I D].
  split; [exact W|]. split; [exact A|]. split; [intros x Hx; apply N; apply A; exact Hx|].
  split; [exact I|]. intros x Hx. apply D. intros H. apply Hx. apply A. exact H.
Qed.

(** the specification of the walk determines it *)
Theorem walk_unique : forall s n l1 l2, Walk s n l1 -> Walk s n l2 -> l1 = l2.
Proof. intros s n l1 l2 H1 H2. eapply walk_fun; eassumption. Qed.

(** a non-trivial instance *)
Example ex_good : WGood ex_world.
Proof.
  constructor; [|constructor]. split; [apply tree_inv_b_sound; vm_compute; reflexivity | apply store_of_list_order_ok].
Qed.

Example ex_final_order : OrderInv ex_final_store.
Proof. apply (order_inv_reachable ex_world ex_ops 0 ex_final_store ex_good). vm_compute. reflexivity. Qed.

(** the walk and the keys at the end of the example history: r, e, b, a; the removed text, the
    removed attribute and its value are outside the document and have key 0 *)
Example ex_final_keys :
  (preorder ex_final_store, map (key ex_final_store) [1; 2; 8; 7; 3; 6; 4; 5])
  = ([1; 2; 8; 7; 3], [1; 2; 3; 4; 5; 0; 0; 0]).
Proof. vm_compute. reflexivity. Qed.

