(** C06 (evaluation half) -- XPath evaluation is total.
    This file only names the theorems; proofs live in Proofs/XPathNav.v, XPathInv.v, XPathTotal.v.
    (The termination of the expression PARSER is the other half of C06, stated elsewhere.)

    In the model a Rust panic is the value [Panic] and a navigation loop that does not end within
    its fuel answers [OutOfFuel]; the fuel of every loop is [nav_fuel doc] = number of rows + 1.
    [DocWf doc] (Proofs/XPathNav.v) is the tree invariant of the table; decidable: [doc_wf_b].
    [expr_total e]: every number literal is accepted by Rust's f64 parser (guaranteed by the
    expression grammar; the evaluator unwraps the parse).

    Repaired findings that used to refute these statements: D22 (parent unwrap), D23 ($v), D24
    (processing-instruction('x')), D25 (id()), the absolute path at a namespace node, D30
    (substring, scalar library), D18/D21 (dom: PIs with key 0 made the sibling axes cycle).  None
    is left: the theorems hold for every well-formed table. *)
From Coq Require Import List NArith Bool.
From XmlRs Require Import Base.CPred Model.XPathAst Model.XDoc Model.XDocCheck Model.XPathEval.
From XmlRs Require Import Proofs.XPathNav Proofs.XPathAstPred Proofs.XPathTotal Proofs.XPathDocCheck
  Proofs.XPathCanon Proofs.XPathStepBound Proofs.XPathExamples Proofs.XPathWitness.
Import ListNotations.

(** Evaluation never panics and never exhausts the navigation fuel: for every well-formed table,
    every expression, every context node of the table and every context -- including unsupported
    constructs (variable references, id(), processing-instruction('x')) and steps that select
    nothing (parent of the root, of an attribute, of a namespace node), which are errors or empty
    node-sets. *)
Theorem C06_eval_no_panic :
  forall (doc : xdoc) (c : ctx) (e : expr) (n : node),
    DocWf doc -> expr_total e = true -> valid doc n ->
    fst (eval_expr doc e n c) <> Panic /\ fst (eval_expr doc e n c) <> OutOfFuel.
Proof. intros doc c e n Hwf. exact (eval_total_lemma doc Hwf e n c). Qed.

(** the same for [query] (evaluation from the document node) *)
Theorem C06_query_no_panic :
  forall (doc : xdoc) (c : ctx) (e : expr),
    DocWf doc -> expr_total e = true ->
    fst (query doc e c) <> Panic /\ fst (query doc e c) <> OutOfFuel.
Proof.
  intros doc c e Hwf Hok. unfold query. apply (eval_total_lemma doc Hwf e doc_root c Hok).
  apply (wf_root doc Hwf).
Qed.

(** Navigation fuel suffices: each of the thirteen axes returns a list of nodes of the table. *)
Theorem C06_navigation_terminates :
  forall (doc : xdoc) (a : axis_spec) (n : node),
    DocWf doc -> valid doc n -> exists l, axis_nodes doc a n = Ok l /\ Forall (valid doc) l.
Proof. intros doc a n Hwf Vn. exact (valid_axis doc Hwf a n eq_refl Vn). Qed.

(** ... and so do string-values *)
Theorem C06_string_value_terminates :
  forall (doc : xdoc) (n : node), DocWf doc -> valid doc n -> exists s, string_value doc n = Ok s.
Proof. intros doc n Hwf. exact (string_value_ok doc Hwf n). Qed.

(** the decision procedure for the hypothesis *)
Theorem C06_doc_wf_decidable : forall doc : xdoc, doc_wf_b doc = true -> DocWf doc.
Proof. exact doc_wf_b_sound. Qed.

(** The node lists of a relative location path stay small (the fact behind the cost bound, after
    the repair of [eval_loc_expr]: [a/../a/..] used to double the list at every step).  The model
    de-duplicates the nodes collected by every step by order key ([step_dedup], nodes with key 0
    are never dropped).  On a table satisfying [DocInv] (keys of good nodes -- valid, not namespace
    nodes -- are non-zero and increasing; decidable: [doc_inv_b]):
    - what a step hands on is duplicate-free, has the same elements as what it collected, and is
      no longer than the table ([C06_step_lists_bounded]);
    - hence so is the result of every relative location path with at least one operation, for
      steps without the namespace axis ([C06_path_lists_bounded]). *)
Theorem C06_step_lists_bounded :
  forall (doc : xdoc), DocInv doc ->
  forall (s : step) (from : list node) (c : ctx) (collected : list node) (c' : ctx),
    ok_step not_ns_axis any_str any_str s = true -> Forall (good doc) from ->
    flat_map_m (eval_step doc s) from c = (Ok collected, c') ->
    NoDup (step_dedup doc collected) /\ (length (step_dedup doc collected) <= length doc)%nat /\
    Forall (good doc) (step_dedup doc collected) /\
    (forall x, In x (step_dedup doc collected) <-> In x collected).
Proof.
  intros doc Hinv s from c collected c' Hok Hfrom E.
  destruct (step_dedup_small doc Hinv collected (collected_good doc Hinv s from c collected c' Hok Hfrom E)) as [[H1 [H2 H3]] H4].
  repeat split; try assumption; apply H4.
Qed.

Theorem C06_path_lists_bounded :
  forall (doc : xdoc), DocInv doc ->
  forall (op : lp_op) (s : step) (t : stepop_list) (nodes : list node) (c : ctx) (r : list node) (c' : ctx),
    ok_stepop_list not_ns_axis any_str any_str (StepopCons op s t) = true -> Forall (good doc) nodes ->
    eval_stepops doc (StepopCons op s t) nodes c = (Ok r, c') ->
    NoDup r /\ (length r <= length doc)%nat.
Proof.
  intros doc Hinv op s t nodes c r c' Hok Hn E.
  destruct (stepops_result_small doc Hinv (StepopCons op s t) nodes c r c' Hok) as [H1 [H2 _]];
    [discriminate|exact Hn|exact E|]. split; assumption.
Qed.

(** unsupported constructs and steps selecting nothing: errors or empty node-sets *)
Example C06_unsupported_examples :
  fst (query pi_doc pi_doc_e2 ctx_default) = Err (XErrNotFoundVariable [118]%N) /\
  fst (query pi_doc pi_doc_e6 ctx_default) = Ok (XNodes []) /\
  fst (query dtd_doc dtd_doc_e2 ctx_default) = Err (XErrNotFoundFunction [105; 100]%N) /\
  fst (query ex_doc pi_doc_e7 ctx_default) = Ok (XNodes [1%N]).
Proof. destruct unsupported_examples as (H1&H2&H3&H4&_). repeat split; assumption. Qed.

(** the hypotheses are satisfiable *)
Example C06_example : DocWf ex_doc /\ DocWf dtd_doc /\ DocWf pi_doc /\
  expr_total ex_doc_e0 = true /\ expr_total ex_doc_e1 = true /\ expr_total pi_doc_e3 = true.
Proof.
  split; [exact (inv_wf ex_doc ex_doc_inv)|]. split; [exact (proj1 dtd_doc_wf)|].
  split; [exact (inv_wf pi_doc pi_doc_inv)|vm_compute; auto].
Qed.

Print Assumptions C06_eval_no_panic.
Print Assumptions C06_query_no_panic.
Print Assumptions C06_navigation_terminates.
Print Assumptions C06_string_value_terminates.
Print Assumptions C06_step_lists_bounded.
Print Assumptions C06_path_lists_bounded.
