"""Generator of XPath 1.0 syntax trees (the `xexpr` of coq/theories/Spec/XPathSyntax.v), of white
space choices (`wtree`) and of tree-level respellings, for checks/C08.py.

Trees are nested tuples:
  ('bin', op, a, b) ('neg', a) ('lit', s) ('num', s) ('var', q) ('call', q, [args]) ('paren', a)
  ('filter', p, [preds]) ('root',) ('path', start, first, [(sep, step), ...])
  start = ('rel',) | ('abs', sep) | ('from', f, sep)            sep = '/' | '//'
  step  = ('step', axis, test, [preds]) | ('dot',) | ('dotdot',)
  axis  = ('full', name) | ('at',) | ('omit',)
  test  = ('any',) | ('ns', p) | ('name', q) | ('type', k) | ('pilit', s)    k in comment text pi node
  q     = (prefix or None, local)
`ser` writes them in the prefix notation read by ocaml/specdomains/xparse/xparse.ml.
Every random choice comes from the `random.Random` passed in.  Nothing here is trusted: whether a
respelling is equivalent is decided by the extracted Coq `norm`, whether a tree is derivable by `wfb`."""

OPS = ['or', 'and', '=', '!=', '<', '>', '<=', '>=', '+', '-', '*', 'div', 'mod', '|']
LVL = {'or': 0, 'and': 1, '=': 2, '!=': 2, '<': 3, '>': 3, '<=': 3, '>=': 3, '+': 4, '-': 4, '*': 5, 'div': 5, 'mod': 5, '|': 7}
AXES = ['ancestor', 'ancestor-or-self', 'attribute', 'child', 'descendant', 'descendant-or-self', 'following',
        'following-sibling', 'namespace', 'parent', 'preceding', 'preceding-sibling', 'self']
NTYPES = ['comment', 'text', 'pi', 'node']
NTYPE_TEXT = {'comment': 'comment', 'text': 'text', 'pi': 'processing-instruction', 'node': 'node'}
WS = ' \t\r\n'

# core function library: name -> possible argument counts (xpath/src/eval/func.rs; only used to make
# the generated calls mostly meaningful, nothing depends on it being exact)
FUNCS = {'last': [0], 'position': [0], 'count': [1], 'local-name': [0, 1], 'name': [0, 1], 'string': [0, 1],
         'concat': [2, 3], 'starts-with': [2], 'contains': [2], 'substring-before': [2], 'substring-after': [2],
         'substring': [2, 3], 'string-length': [0, 1], 'normalize-space': [0, 1], 'translate': [3], 'boolean': [1],
         'not': [1], 'true': [0], 'false': [0], 'number': [0, 1], 'sum': [1], 'floor': [1], 'ceiling': [1], 'round': [1]}
NODESET_FUNCS = ['count', 'sum', 'name', 'local-name', 'string', 'number', 'boolean']

def enc(s):
    return ','.join(str(ord(c)) for c in s) if s else '-'

# ------------------------------------------------------------------ serialisation
def ser_q(q, out):
    if q[0] is None:
        out += ['qu', enc(q[1])]
    else:
        out += ['qp', enc(q[0]), enc(q[1])]

def ser_step(s, out):
    if s[0] in ('dot', 'dotdot'):
        out.append(s[0]); return
    _, ax, t, preds = s
    out.append('step')
    if ax[0] == 'full': out += ['full', ax[1]]
    else: out.append(ax[0])
    k = t[0]
    if k == 'any': out.append('any')
    elif k == 'ns': out += ['ns', enc(t[1])]
    elif k == 'name': out.append('name'); ser_q(t[1], out)
    elif k == 'type': out += ['type', t[1]]
    elif k == 'pilit': out += ['pilit', enc(t[1])]
    out.append(str(len(preds)))
    for p in preds: ser_e(p, out)

def ser_e(e, out):
    k = e[0]
    if k == 'bin': out += ['bin', e[1]]; ser_e(e[2], out); ser_e(e[3], out)
    elif k == 'neg': out.append('neg'); ser_e(e[1], out)
    elif k == 'lit': out += ['lit', enc(e[1])]
    elif k == 'num': out += ['num', enc(e[1])]
    elif k == 'var': out.append('var'); ser_q(e[1], out)
    elif k == 'call':
        out.append('call'); ser_q(e[1], out); out.append(str(len(e[2])))
        for a in e[2]: ser_e(a, out)
    elif k == 'paren': out.append('paren'); ser_e(e[1], out)
    elif k == 'filter':
        out.append('filter'); ser_e(e[1], out); out.append(str(len(e[2])))
        for p in e[2]: ser_e(p, out)
    elif k == 'root': out.append('root')
    elif k == 'path':
        out.append('path')
        st = e[1]
        if st[0] == 'rel': out.append('rel')
        elif st[0] == 'abs': out += ['abs', st[1]]
        else: out.append('from'); ser_e(st[1], out); out.append(st[2])
        ser_step(e[2], out)
        out.append(str(len(e[3])))
        for s, x in e[3]:
            out.append(s); ser_step(x, out)
    else:
        raise ValueError(k)

def ser(e):
    out = []
    ser_e(e, out)
    return ' '.join(out)

def ser_w(w):
    _, flag, gaps, kids = w
    return ' '.join(['w', '1' if flag else '0', str(len(gaps))] + [enc(g) for g in gaps] + [str(len(kids))] + [ser_w(k) for k in kids])

# ------------------------------------------------------------------ white space trees (layout: see spell_surface)
def gapgen(rng, density):
    if rng.random() >= density:
        return ''
    return ''.join(rng.choice(WS) for _ in range(rng.choice([1, 1, 1, 2, 3])))

def mk_w(e, rng, density=0.4):
    g = lambda: gapgen(rng, density)
    fl = lambda: rng.random() < 0.5
    def predw(p):
        return ('w', False, [g(), g(), g()], [mk_w(p, rng, density)])
    def stepw(s):
        if s[0] != 'step':
            return ('w', False, [g(), g()], [])
        return ('w', fl(), [g() for _ in range(7)], [predw(p) for p in s[3]])
    k = e[0]
    if k == 'bin': return ('w', False, [g(), g()], [mk_w(e[2], rng, density), mk_w(e[3], rng, density)])
    if k == 'neg': return ('w', False, [g()], [mk_w(e[1], rng, density)])
    if k == 'lit': return ('w', fl(), [], [])
    if k in ('num', 'var', 'root'): return ('w', False, [], [])
    if k == 'call':
        return ('w', False, [g(), g(), g()], [('w', False, [g(), g()], [mk_w(a, rng, density)]) for a in e[2]])
    if k == 'paren': return ('w', False, [g(), g()], [mk_w(e[1], rng, density)])
    if k == 'filter': return ('w', False, [], [mk_w(e[1], rng, density)] + [predw(p) for p in e[2]])
    if k == 'path':
        st = e[1]
        k0 = mk_w(st[1], rng, density) if st[0] == 'from' else ('w', False, [], [])
        return ('w', False, [g(), g()], [k0, stepw(e[2])] + [stepw(x) for _, x in e[3]])
    raise ValueError(k)

W0 = ('w', False, [], [])

# ------------------------------------------------------------------ tree surgery (untrusted respellings)
def map_children(e, f):
    """apply f to every direct sub-EXPRESSION of e"""
    k = e[0]
    def fstep(s):
        return ('step', s[1], s[2], [f(p) for p in s[3]]) if s[0] == 'step' else s
    if k == 'bin': return ('bin', e[1], f(e[2]), f(e[3]))
    if k == 'neg': return ('neg', f(e[1]))
    if k == 'call': return ('call', e[1], [f(a) for a in e[2]])
    if k == 'paren': return ('paren', f(e[1]))
    if k == 'filter': return ('filter', f(e[1]), [f(p) for p in e[2]])
    if k == 'path':
        st = e[1]
        if st[0] == 'from': st = ('from', f(st[1]), st[2])
        return ('path', st, fstep(e[2]), [(s, fstep(x)) for s, x in e[3]])
    return e

def add_parens(e, rng, p=0.3):
    """wrap random sub-expressions (operands, arguments, predicates, the whole) in redundant parentheses"""
    e2 = map_children(e, lambda c: add_parens(c, rng, p))
    if rng.random() < p:
        n = 2 if rng.random() < 0.2 else 1
        for _ in range(n):
            e2 = ('paren', e2)
    return e2

def full_parens(e):
    """parenthesise every operand of every operator"""
    e2 = map_children(e, full_parens)
    if e2[0] == 'bin': return ('bin', e2[1], ('paren', e2[2]), ('paren', e2[3]))
    if e2[0] == 'neg': return ('neg', ('paren', e2[1]))
    return e2

def is_dos(s):
    return s == ('step', ('full', 'descendant-or-self'), ('type', 'node'), [])

POSITION = ('call', (None, 'position'), [])

def abbrev_pred(p, rng, prob):
    if p[0] == 'bin' and p[1] == '=' and p[2] == POSITION and p[3][0] == 'num' and rng.random() < prob:
        return p[3]
    return p

def unabbrev_pred(p, rng, prob):
    if p[0] == 'num' and rng.random() < prob:
        return ('bin', '=', POSITION, p)
    return p

def respell(e, rng, prob=0.5):
    """flip each abbreviable construct with probability `prob` (both directions)"""
    e = map_children(e, lambda c: respell(c, rng, prob))
    k = e[0]
    def rpred(p):
        p2 = abbrev_pred(p, rng, prob)
        return unabbrev_pred(p2, rng, prob) if p2 is p else p2
    if k == 'filter':
        return ('filter', e[1], [rpred(p) for p in e[2]])
    if k != 'path':
        return e
    def rstep(s):
        if s[0] == 'dot':
            return ('step', ('full', 'self'), ('type', 'node'), []) if rng.random() < prob else s
        if s[0] == 'dotdot':
            return ('step', ('full', 'parent'), ('type', 'node'), []) if rng.random() < prob else s
        _, ax, t, preds = s
        preds = [rpred(p) for p in preds]
        if rng.random() < prob:
            if ax == ('full', 'child'): ax = ('omit',)
            elif ax == ('omit',): ax = ('full', 'child')
            elif ax == ('full', 'attribute'): ax = ('at',)
            elif ax == ('at',): ax = ('full', 'attribute')
            elif s == ('step', ('full', 'self'), ('type', 'node'), []): return ('dot',)
            elif s == ('step', ('full', 'parent'), ('type', 'node'), []): return ('dotdot',)
        return ('step', ax, t, preds)
    st, first, rest = e[1], rstep(e[2]), [(s, rstep(x)) for s, x in e[3]]
    # expand '//' or contract '/descendant-or-self::node()/'
    DOS = ('step', ('full', 'descendant-or-self'), ('type', 'node'), [])
    steps = [(st[-1] if st[0] != 'rel' else None, first)] + rest     # (separator in front, step)
    out = []
    i = 0
    while i < len(steps):
        s, x = steps[i]
        if s == '//' and rng.random() < prob:
            out.append(('/', DOS)); out.append(('/', x))
        elif s == '/' and is_dos(x) and i + 1 < len(steps) and steps[i + 1][0] == '/' and rng.random() < prob:
            out.append(('//', steps[i + 1][1])); i += 1
        else:
            out.append((s, x))
        i += 1
    s0, x0 = out[0]
    if st[0] == 'abs': st = ('abs', s0)
    elif st[0] == 'from': st = ('from', st[1], s0)
    return ('path', st, x0, out[1:])

# ------------------------------------------------------------------ random trees
class TreeGen:
    def __init__(self, rng, names=('a', 'b', 'c', 'r', 'x'), attrs=('id', 'n'), exotic=0.1):
        self.rng, self.names, self.attrs, self.exotic = rng, list(names), list(attrs), exotic
    def qname(self, pool):
        r = self.rng
        if r.random() < self.exotic:
            return r.choice([(None, 'div'), (None, 'mod'), (None, 'and'), (None, 'or'), (None, 'text'), (None, 'node'),
                             (None, 'child'), (None, 'self'), (None, 'comment'), ('p', 'a'), ('xml', 'lang'), (None, 'a-b'),
                             (None, 'a.b'), (None, '_1'), (None, 'élément'), (None, 'processing-instruction'),
                             (None, 'ancestor-or-selfish'), (None, 'divide'), (None, 'orb'), (None, 'android')])
        return (None, r.choice(pool))
    def number(self):
        r = self.rng
        return r.choice(['0', '1', '2', '3', '7', '10', '1.5', '2.', '.5', '0.25', '007', '12345678901234567890', '1.0'])
    def literal(self):
        r = self.rng
        return r.choice(['', 'a', 'b', 't1', 'x y', "it's", 'say "hi"', '1', ' ', '<&>', 'div', 'é'])
    def test(self, attr=False):
        r = self.rng
        x = r.random()
        if x < 0.55: return ('name', self.qname(self.attrs if attr else self.names))
        if x < 0.70: return ('any',)
        if x < 0.75: return ('ns', r.choice(['p', 'xml']))
        if x < 0.97: return ('type', r.choice(NTYPES))
        return ('pilit', r.choice(['p', 'x', "a'b"]))
    def pred(self, d):
        r = self.rng
        x = r.random()
        if x < 0.35: return ('num', r.choice(['1', '2', '3', '1', '2']))
        if x < 0.50: return ('bin', '=', POSITION, ('num', r.choice(['1', '2', '3'])))
        if x < 0.55: return ('call', (None, 'last'), [])
        return self.expr(d + 1)
    def preds(self, d):
        r = self.rng
        n = r.choice([0, 0, 0, 1, 1, 2]) if d < 4 else 0
        return [self.pred(d) for _ in range(n)]
    def step(self, d):
        r = self.rng
        x = r.random()
        if x < 0.08: return ('dot',)
        if x < 0.14: return ('dotdot',)
        y = r.random()
        if y < 0.45: ax = ('omit',)
        elif y < 0.55: ax = ('at',)
        else: ax = ('full', r.choice(AXES))
        attr = ax in (('at',), ('full', 'attribute'))
        if r.random() < 0.07:
            return r.choice([('step', ('full', 'self'), ('type', 'node'), []), ('step', ('full', 'parent'), ('type', 'node'), []),
                             ('step', ('full', 'descendant-or-self'), ('type', 'node'), [])])
        return ('step', ax, self.test(attr), self.preds(d))
    def path(self, d):
        r = self.rng
        x = r.random()
        if x < 0.5: st = ('rel',)
        elif x < 0.8: st = ('abs', r.choice(['/', '/', '//']))
        else:
            f = self.filterable(d + 1)
            st = ('from', f, r.choice(['/', '/', '//']))
        n = r.choice([0, 0, 1, 1, 2, 3])
        return ('path', st, self.step(d), [(r.choice(['/', '/', '/', '//']), self.step(d)) for _ in range(n)])
    def primary(self, d):
        r = self.rng
        x = r.random()
        if x < 0.3: return ('num', self.number())
        if x < 0.45: return ('lit', self.literal())
        if x < 0.50: return ('var', self.qname(['v', 'x']))
        if x < 0.85 or d > 4:
            return self.call(d)
        return self.expr(d + 1)          # will be parenthesised by `paren`
    def call(self, d):
        r = self.rng
        if r.random() < self.exotic:
            q = r.choice([(None, 'f'), ('p', 'f'), (None, 'texts'), (None, 'nodes'), (None, 'commentary'), (None, 'text-x'), ('text', 'f'), (None, 'div'), (None, 'id')])
            return ('call', q, [self.expr(d + 1) for _ in range(r.choice([0, 1, 2]))])
        name = r.choice(sorted(FUNCS))
        n = r.choice(FUNCS[name])
        if name in NODESET_FUNCS and n == 1:
            return ('call', (None, name), [self.path(d + 1)])
        return ('call', (None, name), [self.expr(d + 1) for _ in range(n)])
    def filterable(self, d):
        r = self.rng
        p = self.primary(d) if r.random() < 0.5 else self.path(d + 1)
        if r.random() < 0.5:
            return ('filter', p, [self.pred(d) for _ in range(r.choice([1, 1, 2]))])
        return p
    def expr(self, d=0):
        r = self.rng
        x = r.random()
        if d >= 4:
            return self.path(d) if x < 0.5 else ('num', self.number())
        if x < 0.30:
            return self.path(d)
        if x < 0.42:
            return self.primary(d)
        if x < 0.50:
            return self.filterable(d)
        if x < 0.53:
            return ('root',)
        if x < 0.60:
            return ('neg', self.expr(d + 1))
        op = r.choice(OPS)
        if op == '|':
            return ('bin', '|', self.pathish(d + 1), self.pathish(d + 1))
        return ('bin', op, self.expr(d + 1), self.expr(d + 1))
    def pathish(self, d):
        r = self.rng
        x = r.random()
        if x < 0.7: return self.path(d)
        if x < 0.8: return ('root',)
        if x < 0.9: return self.filterable(d)
        return self.expr(d + 1)

# ------------------------------------------------------------------ documents
DOCS = [
    '<r><a>7</a><b>3</b><c>2</c></r>',
    '<r id="1"><a id="2" n="x">t1<b/>t2</a><!--c--><?p q?><a>3</a><c><a n="y"><b>1</b><b>2</b></a></c></r>',
    '<?p0 x?><!--top--><r><x><a/><a><x/></a></x><b id="3">5</b><b>6</b> tail</r>',
    '<r xmlns:p="urn:p"><p:a>1</p:a><a xml:lang="en">2</a><c><c><c>3</c></c></c></r>',
]
