(** * C01, the merged-text view of the IMPLEMENTATION on the tree read back from a rendering.

    [DomViewBase.item_tokens2] gives a text token for every maximal run of character data that has an item,
    also when it has no character (finding WF14).  For the rendering of an abstract document whose text children
    are all non-empty, these tokens do not depend on the oracle: the tree that is read back and the canonical
    tree [to_xdoc d] have the same [item_tokens2] ([reads_tokens2], as [reads_tokens] of
    Proofs/XmlWFSyntaxRenderTokens.v for [item_tokens]).  Hence [render_infoset2_*]: the merged view of the
    implementation on the rendering is [denote2 d], a function of the abstract document alone; [Known_WF14 d] says
    that it contains an empty text node (or that [d] has an empty text child, for which the tree read back is not
    determined by the relation [reads]). *)
From Coq Require Import List NArith Arith Lia Bool Permutation Sorting.Sorted.
From XmlRs Require Import Base.CPred Spec.XmlChars Spec.XmlWF Spec.Infoset Proofs.XmlWFRender Proofs.XmlWFSyntaxRenderNode
  Proofs.XmlWFSyntaxRenderCheck Proofs.XmlWFSyntaxRenderDoc Proofs.XmlWFSyntaxRenderDtd Proofs.XmlWFSyntaxRenderDtdElem
  Proofs.XmlWFSyntaxRenderDtdDoc Proofs.XmlWFSyntaxRenderDtdCheck Proofs.XmlWFSyntaxRenderDtdWf Proofs.XmlWFSyntaxRenderTokens.
From XmlRs Require Proofs.XmlWFSyntaxCheck Proofs.XmlWFSyntaxConvCheck Proofs.XmlWFSyntaxConvDtdDoc Proofs.DomViewBase Proofs.DomViewElem.
Import ListNotations.
Local Open Scope nat_scope.

Module B := Proofs.DomViewBase.
Module V := Proofs.XmlWFSyntaxConvCheck.
Module C := Proofs.XmlWFSyntaxCheck.

(** ** abstract documents: empty text children, the merged view of the implementation *)
Fixpoint has_empty_text (x : anode) : bool :=
  match x with
  | AText [] => true
  | AElem _ _ kids => existsb has_empty_text kids
  | _ => false
  end.

Definition denote2 (d : adoc) : infoset :=
  match check_doc (to_xdoc d) with
  | inr root => B.doc_tokens2 (to_xdoc d) root
  | inl _ => []
  end.

Definition Known_WF14 (d : adoc) : bool :=
  has_empty_text (a_root d) || negb (forallb B.nonempty_text (denote2 d)).

(** ** character data *)
Section Tok2.
Variable f' : nat.
Variable en : env.
Hypothesis Hstd : std_predef en.
Let f := S (S f').

Lemma predef_expand_tok2 nm ch : predef_name ch = Some nm ->
  exists its, expand f en [] (XEntRef nm) = inr (XExp nm its) /\ (forall sub st acc, B.items_tokens2 f en sub its st acc = ([], (true, ch :: acc)))
    /\ forall ok, forallb (Proofs.DomViewElem.tree_good ok) its = true.
Proof.
  intros Hn. unfold predef_name in Hn.
  assert (Hcases : (ch = c_lt /\ nm = s_lt) \/ (ch = c_gt /\ nm = s_gt) \/ (ch = c_amp /\ nm = s_amp)
                   \/ (ch = c_apos /\ nm = s_apos) \/ (ch = c_quot /\ nm = s_quot)).
  { destruct (N.eqb_spec ch c_lt); [injection Hn as <-; auto|].
    destruct (N.eqb_spec ch c_gt); [injection Hn as <-; auto|].
    destruct (N.eqb_spec ch c_amp); [injection Hn as <-; auto|].
    destruct (N.eqb_spec ch c_apos); [injection Hn as <-; auto 6|].
    destruct (N.eqb_spec ch c_quot); [injection Hn as <-; auto 6|discriminate]. }
  clear Hn. unfold f. generalize (S f') as g. intros g.
  destruct Hcases as [[-> ->]|[[-> ->]|[[-> ->]|[[-> ->]|[-> ->]]]]].
  - exists [XCharRef 60%N]. split; [|split; intros; reflexivity]. cbn [expand mem existsb].
    rewrite (Hstd s_lt [38;35;54;48;59]%N) by (cbn; auto). cbv beta iota. change (p_content _ _) with (Some ([XCharRef 60%N], @nil char)). cbv iota.
    cbn [mapM]. rewrite expand_leaf by exact I. reflexivity.
  - exists [XChar 62%N]. split; [|split; intros; reflexivity]. cbn [expand mem existsb].
    rewrite (Hstd s_gt [62]%N) by (cbn; auto). cbv beta iota. change (p_content _ _) with (Some ([XChar 62%N], @nil char)). cbv iota.
    cbn [mapM]. rewrite expand_leaf by exact I. reflexivity.
  - exists [XCharRef 38%N]. split; [|split; intros; reflexivity]. cbn [expand mem existsb].
    rewrite (Hstd s_amp [38;35;51;56;59]%N) by (cbn; auto). cbv beta iota. change (p_content _ _) with (Some ([XCharRef 38%N], @nil char)). cbv iota.
    cbn [mapM]. rewrite expand_leaf by exact I. reflexivity.
  - exists [XChar 39%N]. split; [|split; intros; reflexivity]. cbn [expand mem existsb].
    rewrite (Hstd s_apos [39]%N) by (cbn; auto 6). cbv beta iota. change (p_content _ _) with (Some ([XChar 39%N], @nil char)). cbv iota.
    cbn [mapM]. rewrite expand_leaf by exact I. reflexivity.
  - exists [XChar 34%N]. split; [|split; intros; reflexivity]. cbn [expand mem existsb].
    rewrite (Hstd s_quot [34]%N) by (cbn; auto 6). cbv beta iota. change (p_content _ _) with (Some ([XChar 34%N], @nil char)). cbv iota.
    cbn [mapM]. rewrite expand_leaf by exact I. reflexivity.
Qed.

Lemma text_tokens2 sub : forall items, Forall textlike items -> forall r' st acc, mapM (expand f en []) items = inr r' ->
  B.items_tokens2 f en sub r' st acc = ([], (match items with [] => st | _ => true end, rev (chars_of items) ++ acc)).
Proof.
  induction 1 as [|x items Hx _ IH]; intros r' st acc Hm.
  - cbn [mapM] in Hm. injection Hm as <-. reflexivity.
  - apply V.mapM_cons_inv in Hm. destruct Hm as (y & ys & Ey & Eys & ->). cbn [B.items_tokens2].
    assert (Hfin : forall b, match items with [] => true | _ :: _ => true end = b -> b = true) by (intros b <-; destruct items; reflexivity).
    destruct Hx as [ch|ch Hch|s|nm ch Hn].
    + rewrite expand_leaf in Ey by exact I. injection Ey as <-. cbn [B.item_tokens2 chars_of fst snd]. rw (IH ys true (ch :: acc) Eys). cbn [rev app].
      rewrite <- app_assoc. cbn [app]. destruct items; reflexivity.
    + rewrite expand_leaf in Ey by exact I. injection Ey as <-. cbn [B.item_tokens2 chars_of fst snd]. rw (IH ys true (ch :: acc) Eys). cbn [rev app].
      rewrite <- app_assoc. cbn [app]. destruct items; reflexivity.
    + rewrite expand_leaf in Ey by exact I. injection Ey as <-. cbn [B.item_tokens2 chars_of fst snd]. rw (IH ys true (rev s ++ acc) Eys). cbn [app].
      rewrite rev_app_distr, <- app_assoc. destruct items; reflexivity.
    + destruct (predef_expand_tok2 nm ch Hn) as (its & E1 & E2 & _). rewrite E1 in Ey. injection Ey as <-. rewrite B.item_tokens2_exp, E2. cbn [fst snd].
      rw (IH ys true (ch :: acc) Eys). cbn [chars_of app]. rewrite (predef_char_name _ _ Hn). cbn [app rev]. rewrite <- app_assoc. cbn [app]. destruct items; reflexivity.
Qed.

Lemma canon_text_tokens2 sub (s : str) st acc : B.items_tokens2 f en sub (map XChar s) st acc = ([], (match s with [] => st | _ => true end, rev s ++ acc)).
Proof.
  revert st acc. induction s as [|ch s IH]; intros st acc; [reflexivity|]. cbn [map B.items_tokens2 B.item_tokens2 fst snd]. rewrite IH. cbn [rev app].
  rewrite <- app_assoc. destruct s; reflexivity.
Qed.
End Tok2.

(** ** the tokens of the tree read back *)
Section TokTree2.
Variable f' : nat.
Variable en : env.
Hypothesis Hstd : std_predef en.
Variables (l : list adecl) (l' : list decl).
Hypothesis Hl : Forall2 decl_read l l'.
Notation sub0 := (map to_decl l).
Notation f := (S (S f')).

Lemma tokens2_ext : forall y st acc, B.item_tokens2 f en sub0 y st acc = B.item_tokens2 f en l' y st acc.
Proof.
  apply (V.xcontent_ind2 (fun y => forall st acc, B.item_tokens2 f en sub0 y st acc = B.item_tokens2 f en l' y st acc)).
  intros x Hk. destruct x as [c|s|n|nm|s|tg dt|nm atts et kids|nm items]; try (intros; reflexivity).
  - intros st acc. rewrite !B.item_tokens2_elem. rewrite (attr_tokens_same f' en Hstd l l' Hl).
    assert (E : forall s0 a, B.items_tokens2 f en sub0 kids s0 a = B.items_tokens2 f en l' kids s0 a).
    { induction Hk as [|y kids Hy _ IH]; intros s0 a; [reflexivity|]. cbn [B.items_tokens2]. rewrite Hy. destruct (B.item_tokens2 f en l' y s0 a) as [o1 s1]. now rewrite IH. }
    now rewrite E.
  - intros st acc. rewrite !B.item_tokens2_exp.
    assert (E : forall s0 a, B.items_tokens2 f en sub0 items s0 a = B.items_tokens2 f en l' items s0 a).
    { induction Hk as [|y items Hy _ IH]; intros s0 a; [reflexivity|]. cbn [B.items_tokens2]. rewrite Hy. destruct (B.item_tokens2 f en l' y s0 a) as [o1 s1]. now rewrite IH. }
    now rewrite E.
Qed.

Lemma items_tokens2_ext : forall r st acc, B.items_tokens2 f en sub0 r st acc = B.items_tokens2 f en l' r st acc.
Proof. induction r as [|y r IH]; intros st acc; [reflexivity|]. cbn [B.items_tokens2]. rewrite tokens2_ext. destruct (B.item_tokens2 f en l' y st acc) as [o1 s1]. now rewrite IH. Qed.

Definition tokens2_to (x : anode) : Prop :=
  forall items, reads x items -> forall r0 r', mapM (expand f en []) (to_x x) = inr r0 -> mapM (expand f en []) items = inr r' ->
  allc (tree_ok f en) r0 = None -> forall st acc, B.items_tokens2 f en l' r' st acc = B.items_tokens2 f en sub0 r0 st acc.

Lemma kids_tokens2 kids : Forall (fun y => syn_ok y = true -> has_empty_text y = false -> tokens2_to y) kids -> forallb syn_ok kids = true ->
  existsb has_empty_text kids = false ->
  forall kitems, reads_list kids kitems -> forall ck rk, mapM (expand f en []) (flat_map to_x kids) = inr ck -> mapM (expand f en []) kitems = inr rk ->
  allc (tree_ok f en) ck = None -> forall st acc, B.items_tokens2 f en l' rk st acc = B.items_tokens2 f en sub0 ck st acc.
Proof.
  induction 1 as [|y t Hy _ IH]; intros Hok Hne kitems Hr ck rk Hm Hm' Ht st acc.
  - cbn [reads_list] in Hr. subst kitems. cbn [flat_map mapM] in Hm, Hm'. injection Hm as <-. injection Hm' as <-. reflexivity.
  - cbn [forallb] in Hok. apply andb_true_iff in Hok. destruct Hok as [Hoy Hot].
    cbn [existsb] in Hne. apply orb_false_iff in Hne. destruct Hne as [Hney Hnet].
    cbn [reads_list] in Hr. destruct Hr as (iy & its & -> & Ry & Rt).
    cbn [flat_map] in Hm. apply V.mapM_app_inv in Hm. destruct Hm as (cy & ct & My & Mt & ->).
    apply V.mapM_app_inv in Hm'. destruct Hm' as (ry & rt & My' & Mt' & ->).
    apply V.allc_app_inv in Ht. destruct Ht as [Ty Tt].
    rewrite !B.items_tokens2_app. rewrite (Hy Hoy Hney iy Ry cy ry My My' Ty st acc). destruct (B.items_tokens2 f en sub0 cy st acc) as [o1 [s1 a1]].
    cbn [fst snd]. rewrite (IH Hot Hnet its Rt ct rt Mt Mt' Tt s1 a1). reflexivity.
Qed.

Theorem reads_tokens2 : forall x, syn_ok x = true -> has_empty_text x = false -> tokens2_to x.
Proof.
  induction x as [s|nm|s|t d|nm atts kids IHk] using anode_ind2; intros Hok Hne items Hr r0 r' Hm Hm' Ht st acc; cbn [syn_ok] in Hok; cbn [to_x] in Hm.
  - destruct Hr as [Htl Hch]. rewrite canon_text_expand in Hm. injection Hm as <-. rewrite (text_tokens2 f' en Hstd l' items Htl r' st acc Hm'), Hch.
    rewrite canon_text_tokens2. destruct s as [|c0 s]; [discriminate Hne|]. destruct items as [|i0 items]; [discriminate Hch|]. reflexivity.
  - cbn [reads] in Hr. subst items. rewrite Hm in Hm'. injection Hm' as <-. symmetry. apply items_tokens2_ext.
  - cbn [reads] in Hr. subst items. rewrite Hm in Hm'. injection Hm' as <-. symmetry. apply items_tokens2_ext.
  - cbn [reads] in Hr. subst items. rewrite Hm in Hm'. injection Hm' as <-. symmetry. apply items_tokens2_ext.
  - apply andb_true_iff in Hok. destruct Hok as [Hok _]. apply andb_true_iff in Hok. destruct Hok as [Hok Hkids].
    cbn [has_empty_text] in Hne.
    apply reads_elem in Hr. destruct Hr as (parsed & et & kitems & -> & Hrd & Het & Rk).
    fold (canon_atts atts) in Hm.
    apply V.mapM_cons_inv in Hm. destruct Hm as (y & ys & Ey & Eys & ->). cbn [mapM] in Eys. injection Eys as <-.
    rewrite expand_elem_g in Ey. destruct (mapM (expand f en []) (flat_map to_x kids)) as [e|ck] eqn:Ek; [discriminate|]. injection Ey as <-.
    apply V.mapM_cons_inv in Hm'. destruct Hm' as (y' & ys' & Ey' & Eys' & ->). cbn [mapM] in Eys'. injection Eys' as <-.
    rewrite expand_elem_g in Ey'. destruct (mapM (expand f en []) kitems) as [e|rk] eqn:Ek'; [discriminate|]. injection Ey' as <-.
    apply V.allc_cons_inv in Ht. destruct Ht as [Ht _]. apply tree_ok_elem_g in Ht. destruct Ht as (_ & Hnd & _ & Tk).
    assert (HND : NoDup (map fst atts)).
    { apply nodup_names_NoDup. unfold canon_atts in Hnd. rewrite map_map in Hnd. exact Hnd. }
    cbn [B.items_tokens2]. rewrite !B.item_tokens2_elem. rewrite (attr_tokens_read f' en Hstd l l' Hl nm atts parsed Hrd HND).
    rewrite (kids_tokens2 kids IHk Hkids Hne kitems Rk ck rk Ek Ek' Tk false []). reflexivity.
Qed.
End TokTree2.

(** ** the merged view of the implementation on the rendering (proofs as [render_infoset_*] of Proofs/XmlWFSyntaxRenderTokens.v) *)
Theorem render_infoset2_dtd (d : adoc) (c : choices) dt : valid d = true -> a_doctype d = Some dt ->
  no_predef_decl (opt_list (ad_subset dt)) = true -> has_empty_text (a_root d) = false ->
  exists xd' root', parse_document (render d c) = Some xd' /\ unsupported xd' = false /\ check_doc xd' = inr root' /\
    B.doc_tokens2 xd' root' = denote2 d.
Proof.
  intros Hv Hdt Hnp Hne. unfold valid in Hv. apply andb_true_iff in Hv. destruct Hv as [Hs Hv]. unfold denote2.
  destruct (check_doc (to_xdoc d)) as [r|root0] eqn:Ec; [discriminate|]. apply andb_true_iff in Hv. destruct Hv as [_ Hv].
  destruct (ns_doc (to_xdoc d) root0) as [r|] eqn:En; [discriminate|]. clear Hv.
  destruct (render_parse_dtd d c dt Hs Hdt) as (item & l' & Hrd & Hl' & Hq).
  pose proof (XmlWFSyntaxConvDtdDoc.q_parse_document_spec _ _ Hq) as Hp.
  destruct d as [ver enc sa m1 dt0 m2 root m3]. cbn [a_doctype a_root a_misc1 a_misc2 a_misc3] in *. subst dt0.
  pose proof Hs as Hs'. unfold shape_ok in Hs'. cbn [a_version a_encoding a_standalone a_misc1 a_misc2 a_misc3 a_root a_doctype] in Hs'.
  apply andb_true_iff in Hs'. destruct Hs' as [Hs' Hdtok]. apply andb_true_iff in Hs'. destruct Hs' as [_ Hroot].
  destruct root as [s|nm|s|t0 d0|nm atts kids]; try discriminate Hroot.
  pose proof (node_ok_syn _ Hroot) as Hsyn.
  assert (Hdecls : forallb Infoset.decl_ok (opt_list (ad_subset dt)) = true).
  { do 2 (apply andb_true_iff in Hdtok; destruct Hdtok as [Hdtok _]). apply andb_true_iff in Hdtok. tauto. }
  set (l := opt_list (ad_subset dt)) in *.
  set (xd0 := to_xdoc {| a_version := ver; a_encoding := enc; a_standalone := sa; a_misc1 := m1; a_doctype := Some dt; a_misc2 := m2; a_root := AElem nm atts kids; a_misc3 := m3 |}) in *.
  match type of Hp with _ = Some ?x => set (xd' := x) in * end.
  assert (Eenv : doc_env xd' = doc_env xd0).
  { unfold doc_env, xd', xd0. cbn [to_xdoc x_doctype x_decl dt_subset dt_extid a_doctype a_version a_standalone]. fold l. rewrite (entities_read l l' Hl'). reflexivity. }
  assert (Efuel : ent_fuel xd' = ent_fuel xd0) by (unfold ent_fuel; now rewrite Eenv).
  assert (Esub0 : match x_doctype xd0 with Some dt1 => dt_subset dt1 | None => [] end = map to_decl l) by reflexivity.
  assert (Esub' : match x_doctype xd' with Some dt1 => dt_subset dt1 | None => [] end = l') by reflexivity.
  set (en := doc_env xd0) in *.
  assert (Een : en = {| e_ents := with_predefined (entities_of (map to_decl l)); e_must_declare := e_must_declare en |}) by reflexivity.
  assert (Hstd : std_predef en) by (rewrite Een; apply std_of_clean; apply entities_clean; exact Hnp).
  assert (Hf : exists f', ent_fuel xd0 = S (S f')).
  { unfold ent_fuel. fold en. rewrite Een. cbn [e_ents]. unfold with_predefined. rewrite app_length, map_length. cbn [predefined length].
    exists (length (entities_of (map to_decl l)) + 4). lia. }
  destruct Hf as [f' Hf].
  unfold check_doc in Ec. cbv zeta in Ec. rewrite Esub0 in Ec. fold en in Ec. rewrite Hf in Ec.
  destruct (subset_ok (S (S f')) (e_must_declare en) [] (map to_decl l)) as [r|] eqn:Esok; [discriminate|].
  change (x_root xd0) with (XElem nm (canon_atts atts) (Some nm) (flat_map to_x kids)) in Ec.
  set (rootc := XElem nm (canon_atts atts) (Some nm) (flat_map to_x kids)) in *.
  destruct (expand (S (S f')) en [] rootc) as [r|root0'] eqn:Eexp; [discriminate|]. destruct (tree_ok (S (S f')) en root0') eqn:Etree; [discriminate|].
  injection Ec as <-.
  unfold ns_doc in En. cbv zeta in En. rewrite Esub0 in En. fold en in En. rewrite Hf in En.
  apply V.andc_none in En. destruct En as [_ En]. apply V.andc_none in En. destruct En as [_ En]. apply V.andc_none in En. destruct En as [_ Nroot].
  pose proof (defaulted_read f' en Hstd l l') as Hdef.
  assert (Hm0 : mapM (expand (S (S f')) en []) (to_x (AElem nm atts kids)) = inr [root0']).
  { cbn [to_x mapM]. fold (canon_atts atts). fold rootc. rewrite Eexp. reflexivity. }
  assert (Ht0 : allc (tree_ok (S (S f')) en) [root0'] = None) by (apply C.allc_cons; [exact Etree|reflexivity]).
  destruct (reads_checks_g f' en Hstd (map to_decl l) l' (fun el a1 a2 => Hdef el a1 a2 Hl') (AElem nm atts kids) Hsyn [item] Hrd [root0'] Hm0 Ht0)
    with (s0 := @nil (str * str)) (s' := @nil (str * str)) as (r' & E' & T' & _).
  { intros p. reflexivity. }
  { apply C.allc_cons; [exact Nroot|reflexivity]. }
  pose proof (reads_tokens2 f' en Hstd l l' Hl' (AElem nm atts kids) Hsyn Hne [item] Hrd [root0'] r' Hm0 E' Ht0 false []) as Htok.
  apply V.mapM_cons_inv in E'. destruct E' as (root' & ys & Er & Eys & ->). cbn [mapM] in Eys. injection Eys as <-.
  apply V.allc_cons_inv in T'. destruct T' as [T' _].
  exists xd', root'. split; [exact Hp|]. split.
  { unfold unsupported. change (x_doctype xd') with (Some {| dt_name := ad_name dt; dt_extid := extid_of (ad_pub dt) (ad_sys dt); dt_subset := l' |}).
    cbn [dt_subset]. exact (no_peref_read l l' Hl'). }
  split.
  { unfold check_doc. cbv zeta. rewrite Esub', Efuel, Eenv. fold en. rewrite Hf.
    rewrite (subset_ok_read f' (e_must_declare en) l l' Hl' Hdecls Hnp [] ltac:(intros x []) Esok).
    change (x_root xd') with item. rewrite Er, T'. reflexivity. }
  unfold B.doc_tokens2. cbv zeta. rewrite Esub', Esub0, Efuel, Eenv. fold en. rewrite Hf.
  change (x_decl xd') with (x_decl xd0). change (x_misc1 xd') with (x_misc1 xd0). change (x_misc2 xd') with (x_misc2 xd0). change (x_misc3 xd') with (x_misc3 xd0).
  change (x_doctype xd') with (Some {| dt_name := ad_name dt; dt_extid := extid_of (ad_pub dt) (ad_sys dt); dt_subset := l' |}).
  change (x_doctype xd0) with (Some {| dt_name := ad_name dt; dt_extid := extid_of (ad_pub dt) (ad_sys dt); dt_subset := map to_decl l |}).
  cbv beta iota. rewrite (doctype_tokens_read l l' _ _ Hl').
  cbn [B.items_tokens2] in Htok. destruct (B.item_tokens2 (S (S f')) en l' root' false []) as [o1 [s1 a1]]. destruct (B.item_tokens2 (S (S f')) en (map to_decl l) root0' false []) as [o2 [s2 a2]].
  cbn [fst snd] in Htok. injection Htok as Ho _. rewrite !app_nil_r in Ho. cbn [fst]. now rewrite Ho.
Qed.

Theorem render_infoset2_nodoctype (d : adoc) (c : choices) : valid d = true -> a_doctype d = None -> has_empty_text (a_root d) = false ->
  exists xd' root', parse_document (render d c) = Some xd' /\ unsupported xd' = false /\ check_doc xd' = inr root' /\
    B.doc_tokens2 xd' root' = denote2 d.
Proof.
  intros Hv Hdt Hne. unfold valid in Hv. apply andb_true_iff in Hv. destruct Hv as [Hs Hv]. unfold denote2.
  destruct (check_doc (to_xdoc d)) as [r|root0] eqn:Ec; [discriminate|]. apply andb_true_iff in Hv. destruct Hv as [_ Hv].
  destruct (ns_doc (to_xdoc d) root0) as [r|] eqn:En; [discriminate|]. clear Hv.
  destruct (render_parse_nodoctype d c Hs Hdt) as (item & Hrd & Hp).
  destruct d as [ver enc sa m1 dt m2 root m3]. cbn [a_doctype a_root a_misc1 a_misc3] in *. subst dt.
  pose proof Hs as Hs'. unfold shape_ok in Hs'. cbn [a_version a_encoding a_standalone a_misc1 a_misc2 a_misc3 a_root a_doctype] in Hs'.
  apply andb_true_iff in Hs'. destruct Hs' as [Hs' Hm2]. apply andb_true_iff in Hs'. destruct Hs' as [_ Hroot].
  destruct m2 as [|? ?]; [|discriminate Hm2]. destruct root as [s|nm|s|t0 d0|nm atts kids]; try discriminate Hroot.
  pose proof (node_ok_syn _ Hroot) as Hsyn.
  unfold check_doc in Ec. unfold ns_doc in En. cbv zeta in Ec, En.
  cbn [to_xdoc x_doctype x_root x_misc1 x_misc2 x_misc3 a_doctype a_root a_misc1 a_misc2 a_misc3 subset_ok to_x flat_map] in Ec, En.
  change (doc_env _) with en0 in Ec, En. change (ent_fuel _) with 6 in Ec, En.
  fold (canon_atts atts) in Ec.
  set (rootc := XElem nm (canon_atts atts) (Some nm) (flat_map to_x kids)) in *.
  destruct (expand 6 en0 [] rootc) as [r|root0'] eqn:Eexp; [discriminate|]. destruct (tree_ok 6 en0 root0') eqn:Etree; [discriminate|].
  injection Ec as <-.
  apply V.andc_none in En. destruct En as [_ En]. apply V.andc_none in En. destruct En as [_ En]. apply V.andc_none in En. destruct En as [_ Nroot].
  assert (Hm0 : mapM (expand 6 en0 []) (to_x (AElem nm atts kids)) = inr [root0']).
  { cbn [to_x mapM]. fold (canon_atts atts). fold rootc. rewrite Eexp. reflexivity. }
  assert (Ht0 : allc (tree_ok 6 en0) [root0'] = None) by (apply C.allc_cons; [exact Etree|reflexivity]).
  destruct (reads_checks _ Hsyn [item] Hrd [root0'] Hm0 Ht0) with (s0 := @nil (str * str)) (s' := @nil (str * str)) as (r' & E' & T' & _).
  { intros p. reflexivity. }
  { apply C.allc_cons; [exact Nroot|reflexivity]. }
  pose proof (reads_tokens2 4 en0 std_predef_en0 [] [] (Forall2_nil _) (AElem nm atts kids) Hsyn Hne [item] Hrd [root0'] r' Hm0 E' Ht0 false []) as Htok.
  apply V.mapM_cons_inv in E'. destruct E' as (root' & ys & Er & Eys & ->). cbn [mapM] in Eys. injection Eys as <-.
  apply V.allc_cons_inv in T'. destruct T' as [T' _].
  cbn [to_xdoc x_decl a_version a_encoding a_standalone] in Hp.
  eexists _, root'. split; [exact Hp|]. split; [reflexivity|]. split.
  { unfold check_doc. cbv zeta. cbn [x_doctype x_root subset_ok]. change (doc_env _) with en0. change (ent_fuel _) with 6. rewrite Er, T'. reflexivity. }
  unfold B.doc_tokens2. cbv zeta. cbn [to_xdoc x_decl x_misc1 x_misc2 x_misc3 x_doctype a_doctype a_version a_encoding a_standalone a_misc1 a_misc2 a_misc3 flat_map app].
  change (doc_env _) with en0. change (ent_fuel _) with 6.
  cbn [B.items_tokens2 map] in Htok. destruct (B.item_tokens2 6 en0 [] root' false []) as [o1 [s1 a1]]. destruct (B.item_tokens2 6 en0 [] root0' false []) as [o2 [s2 a2]].
  cbn [fst snd] in Htok. injection Htok as Ho _. rewrite !app_nil_r in Ho. cbn [fst]. now rewrite Ho.
Qed.
