(** * Two stores that hold the same tree up to a renaming of ids show the same tree to the evaluator

    [Iso]: an injective renaming [r] of ids that maps the root to the root and every item attached
    to the document of [s1] to an item of [s2] of the same kind, with the same names and data
    (a document type item: the same kind only -- its row has no name and no data) and with child /
    attribute lists renamed by [r]; the string facts agree along [r].  Then the table of [s2]
    is the table of [s1] with the keys renamed, row by row, and the two tables are [same_tree]
    (Proofs/XPathTreeOnly.v): equal once ids, order keys and parent pointers are erased.

    This is the store-level sufficient condition for the last hypothesis of
    [C14_query_depends_on_tree_only]; Proofs/StoreIsoDoc.v derives it from
    [doc_of_store s1 = doc_of_store s2] (C15). *)
From Coq Require Import List NArith Bool Lia.
From XmlRs Require Import Base.CPred Model.XDoc Proofs.XPathTreeOnly.
From XmlRs Require Import Model.Store Model.StoreView
  Proofs.DomBase Proofs.DomTree Proofs.DomAnc Proofs.DomOrder Proofs.StoreViewBase Proofs.StoreViewWalk.
Import ListNotations.
Open Scope N_scope.

(** ** lists *)
Lemma filter_map_nat {A B} (g : A -> B) (f1 : A -> bool) (f2 : B -> bool) l :
  (forall x, In x l -> f2 (g x) = f1 x) -> filter f2 (map g l) = map g (filter f1 l).
Proof.
  induction l as [|x l IH]; intros H; cbn [map filter]; [reflexivity|].
  rewrite (H x (or_introl eq_refl)). rewrite IH by (intros y Hy; apply H; right; exact Hy).
  destruct (f1 x); reflexivity.
Qed.

Lemma map_ext_in' {A B} (f g : A -> B) l : (forall x, In x l -> f x = g x) -> map f l = map g l.
Proof. apply map_ext_in. Qed.

Lemma flat_map_map {A B C} (g : A -> B) (f : B -> list C) l : flat_map f (map g l) = flat_map (fun x => f (g x)) l.
Proof. induction l as [|x l IH]; cbn [map flat_map]; [reflexivity|]. rewrite IH. reflexivity. Qed.

Lemma map_flat_map {A B C} (g : B -> C) (f : A -> list B) l : map g (flat_map f l) = flat_map (fun x => map g (f x)) l.
Proof. induction l as [|x l IH]; cbn [map flat_map]; [reflexivity|]. rewrite map_app, IH. reflexivity. Qed.

Lemma flat_map_ext_in2 {A B} (f g : A -> list B) l : (forall x, In x l -> f x = g x) -> flat_map f l = flat_map g l.
Proof.
  induction l as [|x l IH]; intros H; cbn [flat_map]; [reflexivity|].
  rewrite (H x (or_introl eq_refl)), IH; [reflexivity|]. intros y Hy. apply H. right. exact Hy.
Qed.

Lemma existsb_map {A B} (g : A -> B) (f : B -> bool) l : existsb f (map g l) = existsb (fun x => f (g x)) l.
Proof. induction l as [|x l IH]; cbn [map existsb]; [reflexivity|]. rewrite IH. reflexivity. Qed.

Lemma existsb_ext' {A} (f g : A -> bool) l : (forall x, f x = g x) -> existsb f l = existsb g l.
Proof. intros H. induction l as [|x l IH]; cbn [existsb]; [reflexivity|]. rewrite H, IH. reflexivity. Qed.

Section Iso.
Variables (F1 F2 : sfacts) (merged : bool) (s1 s2 : store) (r : id -> id).
Hypothesis T1 : TreeInv s1.
Hypothesis T2 : TreeInv s2.

Definition att (n : id) : Prop := attached s1 n.

(** the fields of an item that the view reads, by kind *)
Definition uses_prefix (k : kind) : bool := match k with KEl | KAt => true | _ => false end.
Definition uses_local (k : kind) : bool := match k with KEl | KAt | KPi => true | _ => false end.
Definition uses_data (k : kind) : bool := match k with KTx | KCd | KCm | KPi | KCr => true | _ => false end.

Definition item_sim (it1 it2 : item) : Prop :=
  ikind it2 = ikind it1 /\ ichildren it2 = map r (ichildren it1) /\ iattrs it2 = map r (iattrs it1)
  /\ (uses_prefix (ikind it1) = true -> iprefix it2 = iprefix it1)
  /\ (uses_local (ikind it1) = true -> ilocal it2 = ilocal it1)
  /\ (uses_data (ikind it1) = true -> idata it2 = idata it1).

Hypothesis I_root : r (sroot s1) = sroot s2.
Hypothesis I_item : forall n it1, att n -> get s1 n = Some it1 -> exists it2, get s2 (r n) = Some it2 /\ item_sim it1 it2.
Hypothesis I_inj : forall a b, r a = r b -> a = b.
Hypothesis I_fa : forall a, att a -> sf_attr F2 (r a) = sf_attr F1 a.
Hypothesis I_fr : forall c, att c -> sf_ref F2 (r c) = sf_ref F1 c.

Definition vmap (v : vnode) : vnode := match v with Plain i => Plain (r i) | Merged i => Merged (r i) end.
Definition rk (k : vkey) : vkey :=
  match k with KNode v => KNode (vmap v) | KNs a => KNs (r a) | KXml e => KXml (r e) end.
Definition nmap (x : nsent) : nsent := mkNs (ne_prefix x) (rk (ne_key x)) (ne_value x).

Lemma vid_vmap v : vid (vmap v) = r (vid v).
Proof. destruct v; reflexivity. Qed.

Lemma rk_inj a b : rk a = rk b -> a = b.
Proof.
  destruct a as [[i|i]|i|i], b as [[j|j]|j|j]; cbn [rk vmap]; intros E; inversion E as [E']; try (apply I_inj in E'; subst; reflexivity).
Qed.

(** ** attached nodes *)
Lemma att_root : att (sroot s1).
Proof. left. reflexivity. Qed.

Lemma att_live n : att n -> exists it, get s1 n = Some it.
Proof.
  intros [->|A]; [destruct (ti_root s1 T1) as [rit [Hr _]]; eauto|].
  inversion A as [c p [it [Hg _]] | c p a [it [Hg _]] _]; subst; eauto.
Qed.

Lemma att_par c p : att p -> par s1 c p -> att c.
Proof. intros [->|A] P; right; [apply anc1; exact P | eapply ancS; eassumption]. Qed.

Lemma att_child n it c : att n -> get s1 n = Some it -> In c (ichildren it) -> att c.
Proof. intros A G H. eapply att_par; [exact A|]. apply (ti_lists_par s1 T1). exists it. split; [exact G | left; exact H]. Qed.

Lemma att_attr n it c : att n -> get s1 n = Some it -> In c (iattrs it) -> att c.
Proof. intros A G H. eapply att_par; [exact A|]. apply (ti_lists_par s1 T1). exists it. split; [exact G | right; exact H]. Qed.

Lemma att_parent n p : att n -> par s1 n p -> att p.
Proof.
  intros [->|A] P.
  - exfalso. eapply (root_no_parent s1 T1). exact P.
  - destruct (anc_up s1 n p (sroot s1) P A) as [<-|A']; [apply att_root | right; exact A'].
Qed.

(** ** items *)
Lemma sim_kind_of n : att n -> kind_of s2 (r n) = kind_of s1 n.
Proof.
  intros A. destruct (att_live n A) as [it G]. destruct (I_item n it A G) as [it2 [G2 [K _]]].
  unfold kind_of. rewrite G, G2. cbn. rewrite K. reflexivity.
Qed.

Lemma sim_has_kind k n : att n -> has_kind s2 k (r n) = has_kind s1 k n.
Proof.
  intros A. destruct (att_live n A) as [it G]. destruct (I_item n it A G) as [it2 [G2 [K _]]].
  unfold has_kind. rewrite G, G2, K. reflexivity.
Qed.

Lemma sim_children_of n : att n -> children_of s2 (r n) = map r (children_of s1 n).
Proof.
  intros A. destruct (att_live n A) as [it G]. destruct (I_item n it A G) as [it2 [G2 [_ [C _]]]].
  unfold children_of. rewrite G, G2. exact C.
Qed.

Lemma sim_attrs_of n : att n -> attrs_of s2 (r n) = map r (attrs_of s1 n).
Proof.
  intros A. destruct (att_live n A) as [it G]. destruct (I_item n it A G) as [it2 [G2 [_ [_ [C _]]]]].
  unfold attrs_of. rewrite G, G2. exact C.
Qed.

Lemma children_att n c : att n -> In c (children_of s1 n) -> att c.
Proof. intros A H. unfold children_of in H. destruct (get s1 n) as [it|] eqn:G; [|destruct H]. eapply att_child; eassumption. Qed.

Lemma attrs_att n c : att n -> In c (attrs_of s1 n) -> att c.
Proof. intros A H. unfold attrs_of in H. destruct (get s1 n) as [it|] eqn:G; [|destruct H]. eapply att_attr; eassumption. Qed.

Lemma attr_item n a : att n -> In a (attrs_of s1 n) -> exists ait, get s1 a = Some ait /\ ikind ait = KAt.
Proof.
  intros A H. unfold attrs_of in H. destruct (get s1 n) as [it|] eqn:G; [|destruct H].
  destruct (att_live a (att_attr n it a A G H)) as [ait Ga]. exists ait. split; [exact Ga|].
  apply (ti_attr_kind s1 T1 n it a ait G H Ga).
Qed.

(** names of an attribute *)
Lemma sim_attr_names a ait : att a -> get s1 a = Some ait -> ikind ait = KAt ->
  exists it2, get s2 (r a) = Some it2 /\ iprefix it2 = iprefix ait /\ ilocal it2 = ilocal ait.
Proof.
  intros A G K. destruct (I_item a ait A G) as [it2 [G2 [_ [_ [_ [Hp [Hl _]]]]]]]. rewrite K in Hp, Hl.
  exists it2. split; [exact G2|]. split; [apply Hp | apply Hl]; reflexivity.
Qed.

Lemma sim_attr_is_ns n a : att n -> In a (attrs_of s1 n) -> attr_is_ns s2 (r a) = attr_is_ns s1 a.
Proof.
  intros A H. destruct (attr_item n a A H) as [ait [Ga Ka]].
  destruct (sim_attr_names a ait (attrs_att n a A H) Ga Ka) as [it2 [G2 [P L]]].
  unfold attr_is_ns, is_ns. rewrite Ga, G2, P, L. reflexivity.
Qed.

Lemma sim_ns_attrs e : att e -> ns_attrs s2 (r e) = map r (ns_attrs s1 e).
Proof.
  intros A. unfold ns_attrs. rewrite (sim_attrs_of e A). apply filter_map_nat. intros a Ha. apply (sim_attr_is_ns e a A Ha).
Qed.

Lemma sim_plain_attrs e : att e -> plain_attrs s2 (r e) = map r (plain_attrs s1 e).
Proof.
  intros A. unfold plain_attrs. rewrite (sim_attrs_of e A). apply filter_map_nat. intros a Ha. rewrite (sim_attr_is_ns e a A Ha). reflexivity.
Qed.

Lemma ns_attrs_att e a : att e -> In a (ns_attrs s1 e) -> att a.
Proof. intros A H. unfold ns_attrs in H. apply filter_In in H. destruct H as [H _]. eapply attrs_att; eassumption. Qed.

Lemma plain_attrs_att e a : att e -> In a (plain_attrs s1 e) -> att a.
Proof. intros A H. unfold plain_attrs in H. apply filter_In in H. destruct H as [H _]. eapply attrs_att; eassumption. Qed.

(** ** the child view *)
Lemma sim_textish x : att x -> (match get s2 (r x) with Some it => Some (textish (ikind it)) | None => None end)
                               = (match get s1 x with Some it => Some (textish (ikind it)) | None => None end).
Proof.
  intros A. destruct (att_live x A) as [it G]. destruct (I_item x it A G) as [it2 [G2 [K _]]]. rewrite G, G2, K. reflexivity.
Qed.

Lemma sim_merge_run : forall l b, (forall x, In x l -> att x) ->
  merge_run s2 (map r l) b = map vmap (merge_run s1 l b).
Proof.
  induction l as [|x l IH]; intros b H; cbn [map merge_run]; [reflexivity|].
  pose proof (sim_textish x (H x (or_introl eq_refl))) as E.
  assert (IH' : forall b', merge_run s2 (map r l) b' = map vmap (merge_run s1 l b')) by (intros b'; apply IH; intros y Hy; apply H; right; exact Hy).
  destruct (get s2 (r x)) as [it2|], (get s1 x) as [it1|]; try discriminate; cbn [map vmap].
  - inversion E as [E']. rewrite E'. destruct (textish (ikind it1)).
    + destruct b; cbn [map vmap]; rewrite IH'; reflexivity.
    + cbn [map vmap]. rewrite IH'. reflexivity.
  - rewrite IH'. reflexivity.
Qed.

Lemma sim_child_view n : att n -> child_view s2 merged (r n) = map vmap (child_view s1 merged n).
Proof.
  intros A. destruct (att_live n A) as [it G]. destruct (I_item n it A G) as [it2 [G2 [K [C _]]]].
  unfold child_view. rewrite G, G2, K, C.
  assert (Hc : forall x, In x (ichildren it) -> att x) by (intros x Hx; eapply att_child; eassumption).
  destruct (ikind it); try reflexivity.
  - rewrite !map_map. reflexivity.
  - destruct merged; [apply sim_merge_run; exact Hc | rewrite !map_map; reflexivity].
  - rewrite !map_map. reflexivity.
Qed.

Lemma child_view_att n v : att n -> In v (child_view s1 merged n) -> att (vid v).
Proof.
  intros A H. destruct (att_live n A) as [it G]. eapply att_child; [exact A | exact G|].
  eapply (child_view_in merged s1); eassumption.
Qed.

(** ** parents *)
Lemma sim_parent_of n : att n -> parent_of s2 (r n) = option_map r (parent_of s1 n).
Proof.
  intros A. destruct (att_live n A) as [it G]. destruct (I_item n it A G) as [it2 [G2 _]].
  unfold parent_of. rewrite G, G2. destruct (iparent it) as [p|] eqn:P; cbn [option_map].
  - assert (Pp : par s1 n p) by (exists it; split; assumption).
    pose proof (att_parent n p A Pp) as Ap.
    destruct (ti_par_lists s1 T1 n p Pp) as [pit [Gp Hl]].
    destruct (I_item p pit Ap Gp) as [pit2 [Gp2 [_ [C [At _]]]]].
    assert (L2 : lists s2 (r p) (r n)).
    { exists pit2. split; [exact Gp2|]. destruct Hl as [Hl|Hl]; [left; rewrite C | right; rewrite At]; apply in_map; exact Hl. }
    destruct (ti_lists_par s2 T2 _ _ L2) as [it2' [G2' P2]]. rewrite G2 in G2'. inversion G2'; subst it2'. exact P2.
  - destruct (iparent it2) as [q|] eqn:Q; [|reflexivity]. exfalso.
    assert (Pq : par s2 (r n) q) by (exists it2; split; assumption).
    destruct (ti_par_lists s2 T2 _ _ Pq) as [qit [Gq Hl]].
    (* the root of s2 has no parent; any other attached node of s1 has one *)
    destruct A as [->|A].
    + rewrite I_root in Pq. eapply (root_no_parent s2 T2). exact Pq.
    + inversion A as [c p' [it' [Hg Hp]] | c p' a [it' [Hg Hp]] _]; subst; rewrite G in Hg; inversion Hg; subst it'; congruence.
Qed.

(** ** in-scope namespaces *)
Lemma sim_own_ns e : att e -> own_ns F2 s2 (r e) = map nmap (own_ns F1 s1 e).
Proof.
  intros A. unfold own_ns. rewrite (sim_ns_attrs e A), flat_map_map, map_flat_map.
  apply flat_map_ext_in2. intros a Ha.
  assert (Ha' : In a (attrs_of s1 e)) by (unfold ns_attrs in Ha; apply filter_In in Ha; tauto).
  destruct (attr_item e a A Ha') as [ait [Ga Ka]]. pose proof (attrs_att e a A Ha') as Aa.
  destruct (sim_attr_names a ait Aa Ga Ka) as [it2 [G2 [_ L]]].
  rewrite Ga, G2, L, (I_fa a Aa). reflexivity.
Qed.

Lemma inherit_map items ps : inherit (map nmap items) (map nmap ps) = map nmap (inherit items ps).
Proof.
  unfold inherit. revert items. induction ps as [|x ps IH]; intros items; cbn [map fold_left]; [reflexivity|].
  rewrite existsb_map. cbn [nmap ne_prefix].
  destruct (existsb (fun v => oprefix_eqb (ne_prefix v) (ne_prefix x)) items).
  - apply IH.
  - rewrite <- IH. rewrite map_app. reflexivity.
Qed.

Lemma rekey_map e l : map (rekey (r e)) (map nmap l) = map nmap (map (rekey e) l).
Proof.
  rewrite !map_map. apply map_ext. intros [p k v]. unfold rekey, nmap. cbn [ne_key ne_prefix ne_value].
  destruct k as [w|a|e']; cbn [rk ne_key ne_prefix ne_value]; reflexivity.
Qed.

Lemma filter_nonempty_map l :
  filter (fun x => match ne_value x with [] => false | _ => true end) (map nmap l)
  = map nmap (filter (fun x => match ne_value x with [] => false | _ => true end) l).
Proof. apply filter_map_nat. intros x _. reflexivity. Qed.

(** every ancestor is closer than [f] *)
Definition up (s : store) (x : id) (f : nat) : Prop := forall a k, ancn s k x a -> (k < f)%nat.

Lemma up_parent s x p f : up s x (S f) -> par s x p -> up s p f /\ (0 < f)%nat.
Proof.
  intros U P. split.
  - intros a k Hk. specialize (U a (S k) (ancnS s k x p a P Hk)). lia.
  - specialize (U p 1%nat (ancn1 s x p P)). lia.
Qed.

Lemma sim_inscope_fuel : forall f1 f2 e, att e -> up s1 e f1 -> up s2 (r e) f2 -> (0 < f1)%nat -> (0 < f2)%nat ->
  inscope_fuel F2 s2 f2 (r e) = map nmap (inscope_fuel F1 s1 f1 e).
Proof.
  induction f1 as [|f1 IH]; intros f2 e A U1 U2 H1 H2; [lia|]. destruct f2 as [|f2]; [lia|].
  cbn [inscope_fuel]. rewrite (sim_parent_of e A). rewrite <- filter_nonempty_map. f_equal.
  destruct (parent_of s1 e) as [p|] eqn:P; cbn [option_map]; [|apply sim_own_ns; exact A].
  assert (Pp : par s1 e p).
  { unfold parent_of in P. destruct (get s1 e) as [it|] eqn:G; [|discriminate]. exists it. split; [exact G | exact P]. }
  pose proof (att_parent e p A Pp) as Ap. rewrite (sim_kind_of p Ap).
  destruct (kind_of s1 p) as [[]|]; try (apply sim_own_ns; exact A).
  - (* the document *) rewrite (sim_own_ns e A). change [xml_ent (r e)] with (map nmap [xml_ent e]). apply inherit_map.
  - (* an element *)
    assert (Pp2 : par s2 (r e) (r p)).
    { pose proof (sim_parent_of e A) as X. rewrite P in X. cbn in X. unfold parent_of in X.
      destruct (get s2 (r e)) as [it2|] eqn:G2; [|discriminate]. exists it2. split; [exact G2 | exact X]. }
    destruct (up_parent s1 e p f1 U1 Pp) as [U1' H1']. destruct (up_parent s2 (r e) (r p) f2 U2 Pp2) as [U2' H2'].
    rewrite (sim_own_ns e A), (IH f2 p Ap U1' U2' H1' H2'), rekey_map. apply inherit_map.
Qed.

Lemma up_next s x : TreeInv s -> up s x (N.to_nat (next s)).
Proof. intros T a k Hk. eapply ancn_strict; eassumption. Qed.

Lemma next_pos s : TreeInv s -> (0 < N.to_nat (next s))%nat.
Proof. intros T. destruct (ti_root s T) as [rit [Hr _]]. pose proof (ti_bound s T _ _ Hr). lia. Qed.

Lemma sim_inscope e : att e -> inscope F2 s2 (r e) = map nmap (inscope F1 s1 e).
Proof.
  intros A. unfold inscope. apply sim_inscope_fuel; [exact A | apply up_next; exact T1 | apply up_next; exact T2 | apply next_pos; exact T1 | apply next_pos; exact T2].
Qed.


(** ** the walk *)
Lemma r_eqb a b : (r a =? r b) = (a =? b).
Proof. destruct (N.eqb_spec a b) as [->|Hn]; [apply N.eqb_refl|]. apply N.eqb_neq. intros E. apply Hn. apply I_inj. exact E. Qed.

Lemma sim_mem a l : mem (r a) (map r l) = mem a l.
Proof. unfold mem. rewrite existsb_map. apply existsb_ext'. intros y. apply r_eqb. Qed.

Lemma sim_is_new e k : att e -> is_new s2 (r e) (rk k) = is_new s1 e k.
Proof.
  intros A. destruct k as [v|a|e']; cbn [rk is_new]; [reflexivity| |apply r_eqb].
  rewrite (sim_ns_attrs e A). apply sim_mem.
Qed.

Lemma sim_new_ns e : att e -> new_ns F2 s2 (r e) = map rk (new_ns F1 s1 e).
Proof.
  intros A. unfold new_ns. rewrite (sim_inscope e A). rewrite map_map.
  change (map (fun x => ne_key (nmap x)) (inscope F1 s1 e)) with (map (fun x => rk (ne_key x)) (inscope F1 s1 e)).
  rewrite <- (map_map ne_key rk). apply filter_map_nat. intros k _. apply sim_is_new. exact A.
Qed.

Lemma sim_vextra v : att (vid v) -> vextra F2 s2 (vmap v) = map rk (vextra F1 s1 v).
Proof.
  destruct v as [n|n]; cbn [vid vmap vextra]; intros A; [|reflexivity].
  rewrite (sim_has_kind KEl n A). destruct (has_kind s1 KEl n); [apply sim_new_ns; exact A | reflexivity].
Qed.

Lemma sim_vlisted v : att (vid v) -> vlisted merged s2 (vmap v) = map vmap (vlisted merged s1 v).
Proof.
  destruct v as [n|n]; cbn [vid vmap vlisted]; intros A; [|reflexivity].
  destruct (att_live n A) as [it G]. destruct (I_item n it A G) as [it2 [G2 [K _]]]. rewrite G, G2, K.
  destruct (ikind it); try reflexivity.
  - apply sim_child_view. exact A.
  - rewrite (sim_plain_attrs n A), (sim_child_view n A), map_app, !map_map. reflexivity.
Qed.

Lemma vlisted_att v c : att (vid v) -> In c (vlisted merged s1 v) -> att (vid c).
Proof. intros A H. eapply att_par; [exact A|]. eapply vlisted_par; eassumption. Qed.

Lemma VW_transfer : forall v l, VW F1 merged s1 v l -> att (vid v) -> VW F2 merged s2 (vmap v) (map rk l).
Proof.
  apply (VW_ind' F1 merged s1 (fun v l => att (vid v) -> VW F2 merged s2 (vmap v) (map rk l))).
  intros v it ls G _ IH A. cbn [map]. rewrite map_app, concat_map. change (KNode (vmap v)) with (rk (KNode v)).
  rewrite <- (sim_vextra v A).
  destruct (I_item (vid v) it A G) as [it2 [G2 _]]. rewrite <- vid_vmap in G2.
  apply (VW_node F2 merged s2 (vmap v) it2 (map (map rk) ls) G2).
  rewrite (sim_vlisted v A).
  assert (Hatt : forall c, In c (vlisted merged s1 v) -> att (vid c)) by (intros c Hc; eapply vlisted_att; eassumption).
  clear G G2. induction IH as [|c lc cs lss Hc _ IHr]; cbn [map]; constructor.
  - apply Hc. apply Hatt. left. reflexivity.
  - apply IHr. intros c' Hc'. apply Hatt. right. exact Hc'.
Qed.

Lemma VW_fun F m s : forall v l1, VW F m s v l1 -> forall l2, VW F m s v l2 -> l1 = l2.
Proof.
  apply (VW_ind' F m s (fun v l1 => forall l2, VW F m s v l2 -> l1 = l2)).
  intros v it ls _ _ IH l2 W2. destruct W2 as [v it' ls' _ Hls']. f_equal. f_equal. f_equal.
  revert ls' Hls'. induction IH as [|c lc cs lss Hc _ IHr]; intros ls' Hls'; inversion Hls'; subst; [reflexivity|].
  f_equal; [apply Hc; assumption | apply IHr; assumption].
Qed.

Theorem sim_vrows : vrows F2 merged s2 = map rk (vrows F1 merged s1).
Proof.
  pose proof (VW_transfer _ _ (rows_VW F1 merged s1 T1) att_root) as W. cbn [vmap] in W. rewrite I_root in W.
  exact (VW_fun F2 merged s2 _ _ (rows_VW F2 merged s2 T2) _ W).
Qed.

(** positions *)
Lemma rk_eqb a b : vkey_eqb (rk a) (rk b) = vkey_eqb a b.
Proof.
  destruct (vkey_eqb a b) eqn:E.
  - apply vkey_eqb_eq in E. subst. apply vkey_eqb_refl.
  - apply vkey_eqb_neq. intros X. apply rk_inj in X. subst. rewrite vkey_eqb_refl in E. discriminate.
Qed.

Lemma idx_map k l : forall n, idx (rk k) (map rk l) n = idx k l n.
Proof. induction l as [|x l IH]; intros n; cbn [map idx]; [reflexivity|]. rewrite rk_eqb, IH. reflexivity. Qed.

Lemma sim_ix k : ix F2 merged s2 (rk k) = ix F1 merged s1 k.
Proof. unfold ix. rewrite sim_vrows. apply idx_map. Qed.

(** ** what a row key of the walk refers to *)
Definition key_ok (k : vkey) : Prop :=
  match k with
  | KNode v => att (vid v)
  | KNs a => exists e, att e /\ In a (ns_attrs s1 e)
  | KXml e => att e
  end.

Lemma VW_keys : forall v l, VW F1 merged s1 v l -> att (vid v) -> forall k, In k l -> key_ok k.
Proof.
  apply (VW_ind' F1 merged s1 (fun v l => att (vid v) -> forall k, In k l -> key_ok k)).
  intros v it ls G _ IH A k Hk. destruct Hk as [<-|Hk]; [exact A|]. apply in_app_or in Hk. destruct Hk as [Hk|Hk].
  - destruct v as [n|n]; cbn [vextra] in Hk; [|destruct Hk]. destruct (has_kind s1 KEl n); [|destruct Hk].
    unfold new_ns in Hk. apply filter_In in Hk. destruct Hk as [_ Hn]. destruct k as [w|a|e']; cbn [is_new] in Hn; [discriminate| |].
    + exists n. split; [exact A|]. apply mem_spec. exact Hn.
    + apply N.eqb_eq in Hn. subst e'. exact A.
  - apply in_concat in Hk. destruct Hk as [lc [Hlc Hk]].
    assert (Hatt : forall c, In c (vlisted merged s1 v) -> att (vid c)) by (intros c Hc; eapply vlisted_att; eassumption).
    clear G. induction IH as [|c lc' cs lss Hc _ IHr]; [destruct Hlc|].
    destruct Hlc as [->|Hlc]; [apply Hc; [apply Hatt; left; reflexivity | exact Hk]|].
    apply IHr; [exact Hlc|]. intros c' Hc'. apply Hatt. right. exact Hc'.
Qed.

Lemma rows_key_ok k : In k (vrows F1 merged s1) -> key_ok k.
Proof. apply (VW_keys _ _ (rows_VW F1 merged s1 T1) att_root). Qed.

(** ** the rows *)
Lemma sim_ns_uri l p : ns_uri (map nmap l) p = ns_uri l p.
Proof.
  unfold ns_uri. induction l as [|x l IH]; cbn [map find]; [reflexivity|].
  change (ns_node_name (nmap x)) with (ns_node_name x). destruct (str_eqb (ns_node_name x) p); [reflexivity | exact IH].
Qed.

Lemma sim_owner_element a : att a -> owner_element s2 (r a) = option_map r (owner_element s1 a).
Proof.
  intros A. unfold owner_element. rewrite (sim_parent_of a A). destruct (parent_of s1 a) as [p|] eqn:P; cbn [option_map]; [|reflexivity].
  assert (Pp : par s1 a p).
  { unfold parent_of in P. destruct (get s1 a) as [it|] eqn:G; [|discriminate]. exists it. split; [exact G | exact P]. }
  rewrite (sim_has_kind KEl p (att_parent a p A Pp)). destruct (has_kind s1 KEl p); reflexivity.
Qed.

Lemma owner_att a e : att a -> owner_element s1 a = Some e -> att e.
Proof.
  intros A H. unfold owner_element in H. destruct (parent_of s1 a) as [p|] eqn:P; [|discriminate].
  destruct (has_kind s1 KEl p); [|discriminate]. inversion H; subst e.
  unfold parent_of in P. destruct (get s1 a) as [it|] eqn:G; [|discriminate]. eapply att_parent; [exact A|]. exists it. split; [exact G | exact P].
Qed.

Lemma sim_drop_to x l : drop_to (r x) (map r l) = map r (drop_to x l).
Proof. induction l as [|y l IH]; cbn [map drop_to]; [reflexivity|]. rewrite r_eqb. destruct (y =? x); [reflexivity | exact IH]. Qed.

Lemma drop_to_in x l y : In y (drop_to x l) -> In y l.
Proof. induction l as [|z l IH]; cbn [drop_to]; [auto|]. destruct (z =? x); [auto|]. intros H. right. apply IH. exact H. Qed.

Lemma sim_take_textish l : (forall x, In x l -> att x) -> take_textish s2 (map r l) = map r (take_textish s1 l).
Proof.
  induction l as [|x l IH]; intros H; cbn [map take_textish]; [reflexivity|].
  pose proof (sim_textish x (H x (or_introl eq_refl))) as E.
  destruct (get s2 (r x)) as [it2|], (get s1 x) as [it1|]; try discriminate; [|reflexivity].
  inversion E as [E']. rewrite E'. destruct (textish (ikind it1)); [|reflexivity].
  cbn [map]. rewrite IH; [reflexivity|]. intros y Hy. apply H. right. exact Hy.
Qed.

Lemma take_textish_in l x : In x (take_textish s1 l) -> In x l /\ exists it, get s1 x = Some it /\ textish (ikind it) = true.
Proof.
  induction l as [|y l IH]; cbn [take_textish]; [intros []|].
  destruct (get s1 y) as [it|] eqn:G; [|intros []]. destruct (textish (ikind it)) eqn:Tx; [|intros []].
  intros [<-|H]; [split; [left; reflexivity | eauto]|]. destruct (IH H) as [H1 H2]. split; [right; exact H1 | exact H2].
Qed.

Lemma sim_comp_value c it : att c -> get s1 c = Some it -> textish (ikind it) = true -> comp_value F2 s2 (r c) = comp_value F1 s1 c.
Proof.
  intros A G K. destruct (I_item c it A G) as [it2 [G2 [Hk [_ [_ [_ [_ Hd]]]]]]]. unfold comp_value. rewrite G, G2, Hk.
  destruct (ikind it); try discriminate; try (apply Hd; reflexivity). apply (I_fr c A).
Qed.

Lemma sim_run n p : att n -> parent_of s1 n = Some p -> run_of s2 (r n) = map r (run_of s1 n)
  /\ forall c, In c (run_of s1 n) -> att c /\ exists it, get s1 c = Some it /\ textish (ikind it) = true.
Proof.
  intros A P. unfold run_of. rewrite (sim_parent_of n A), P. cbn [option_map].
  assert (Pp : par s1 n p).
  { unfold parent_of in P. destruct (get s1 n) as [it|] eqn:G; [|discriminate]. exists it. split; [exact G | exact P]. }
  pose proof (att_parent n p A Pp) as Ap.
  assert (Hl : forall x, In x (drop_to n (children_of s1 p)) -> att x).
  { intros x Hx. apply drop_to_in in Hx. eapply children_att; eassumption. }
  split.
  - rewrite (sim_children_of p Ap), sim_drop_to. apply sim_take_textish. exact Hl.
  - intros c Hc. apply take_textish_in in Hc. destruct Hc as [Hc [it [G Tx]]]. split; [apply Hl; exact Hc|].
    exists it. split; [exact G | exact Tx].
Qed.

Lemma erase_row_sim k : In k (vrows F1 merged s1) ->
  erase_row (row_of F2 merged s2 (rk k)) = erase_row (row_of F1 merged s1 k).
Proof.
  intros Hin. pose proof (rows_key_ok k Hin) as Ok. destruct k as [[n|n]|a|e]; cbn [rk vmap key_ok vid] in *.
  - (* a node *)
    destruct (att_live n Ok) as [it G]. destruct (I_item n it Ok G) as [it2 [G2 [K [_ [_ [Hp [Hl Hd]]]]]]].
    cbn [row_of]. rewrite G, G2. unfold erase_row. cbn [n_kind n_children n_attrs n_nss n_name n_data]. rewrite K.
    assert (EC : map (fun v => ix F2 merged s2 (KNode v)) (child_view s2 merged (r n))
                 = map (fun v => ix F1 merged s1 (KNode v)) (child_view s1 merged n)).
    { rewrite (sim_child_view n Ok), map_map. apply map_ext. intros v. apply (sim_ix (KNode v)). }
    assert (EA : map (fun a => ix F2 merged s2 (KNode (Plain a))) (plain_attrs s2 (r n))
                 = map (fun a => ix F1 merged s1 (KNode (Plain a))) (plain_attrs s1 n)).
    { rewrite (sim_plain_attrs n Ok), map_map. apply map_ext. intros a. apply (sim_ix (KNode (Plain a))). }
    assert (EN : map (fun x => ix F2 merged s2 (ne_key x)) (inscope F2 s2 (r n))
                 = map (fun x => ix F1 merged s1 (ne_key x)) (inscope F1 s1 n)).
    { rewrite (sim_inscope n Ok), map_map. apply map_ext. intros x. apply (sim_ix (ne_key x)). }
    unfold xname_of, xdata_of. rewrite K.
    destruct (ikind it) eqn:Kd; cbn [uses_prefix uses_local uses_data] in Hp, Hl, Hd;
      rewrite ?(Hp eq_refl), ?(Hl eq_refl), ?(Hd eq_refl), ?EC, ?EA, ?EN; try reflexivity.
    + rewrite (sim_inscope n Ok), sim_ns_uri. reflexivity.
    + rewrite (sim_owner_element n Ok), (I_fa n Ok). destruct (owner_element s1 n) as [e|] eqn:Ow; cbn [option_map]; [|reflexivity].
      destruct (iprefix it) as [p|]; [|reflexivity]. rewrite (sim_inscope e (owner_att n e Ok Ow)), sim_ns_uri. reflexivity.
  - (* a merged text: it is listed by a node row, so it has a parent *)
    assert (Hp : exists p, parent_of s1 n = Some p).
    { apply in_split in Hin. destruct Hin as [pre [post E]].
      destruct (row_lister F1 merged s1 T1 pre (Merged n) post E) as [[_ X]|[u [_ Hu]]]; [discriminate|].
      pose proof (vlisted_par merged s1 T1 u (Merged n) Hu) as [it [G P]]. cbn [vid] in G. exists (vid u).
      unfold parent_of. rewrite G. exact P. }
    destruct Hp as [p Pn].
    cbn [row_of]. unfold erase_row. cbn [n_kind n_children n_attrs n_nss n_name n_data].
    destruct (sim_run n p Ok Pn) as [ER Hrun]. rewrite ER, flat_map_map.
    f_equal. f_equal. apply flat_map_ext_in2. intros c Hc. destruct (Hrun c Hc) as [Ac [it [G Kc]]]. eapply sim_comp_value; eassumption.
  - (* a namespace node *)
    destruct Ok as [e [Ae Ha]].
    assert (Ha' : In a (attrs_of s1 e)) by (unfold ns_attrs in Ha; apply filter_In in Ha; tauto).
    destruct (attr_item e a Ae Ha') as [ait [Ga Ka]]. pose proof (attrs_att e a Ae Ha') as Aa.
    destruct (sim_attr_names a ait Aa Ga Ka) as [it2 [G2 [_ L]]].
    cbn [row_of]. unfold erase_row. cbn [n_kind n_children n_attrs n_nss n_name n_data]. rewrite Ga, G2, L, (I_fa a Aa). reflexivity.
  - reflexivity.
Qed.

Theorem iso_same_tree : same_tree (xdoc_of_store F1 merged s1) (xdoc_of_store F2 merged s2).
Proof.
  unfold same_tree, erase_keys, xdoc_of_store. rewrite sim_vrows, !map_map. apply map_ext_in. intros k Hk.
  symmetry. apply erase_row_sim. exact Hk.
Qed.

End Iso.
